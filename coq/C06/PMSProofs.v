(** C06 — the theorems about the model [PMS.pms] of parallel_mergesort.hpp, for every input, every
    thread count >= 1, every oversampling factor >= 1 and both splitting strategies. *)
From Coq Require Import Bool.Sumbool.
From Coq Require Import List Bool Arith Lia PeanoNat Sorting.Sorted Sorting.Permutation.
From TLXV Require Import Common.Order C06.PMS C06.MergeLemmas C06.Layout C06.Cuts.
Import ListNotations.

Lemma list_as_map_seq {B} (l : list B) (d : B) : l = map (fun s => nth s l d) (seq 0 (length l)).
Proof.
  apply (nth_ext _ _ d d); [now rewrite map_length, seq_length|].
  intros s Hs. now rewrite (nth_map_seq (length l)) by exact Hs.
Qed.

Lemma firstn_seq' k : forall a len, k <= len -> firstn k (seq a len) = seq a k.
Proof.
  induction k as [|k IH]; intros a len Hk; [reflexivity|].
  destruct len as [|len]; [lia|]. simpl. now rewrite IH by lia.
Qed.

Lemma Permutation_concat_map {B} (f g : nat -> list B) l :
  (forall t, In t l -> Permutation (f t) (g t)) -> Permutation (concat (map f l)) (concat (map g l)).
Proof.
  induction l as [|x l IH]; intros Hp; [constructor|]. simpl.
  apply Permutation_app; [apply Hp; now left|]. apply IH. intros t Ht. apply Hp. now right.
Qed.

Section Main.
  Context {A : Type}.
  Variable ltb : A -> A -> bool.
  Hypothesis H : SWO ltb.
  Variables lsort ssort : list A -> list A.
  Variable partition : list (list A) -> nat -> list nat.
  Variable mmerge : list (list A) -> list A.
  Variable d : A.

  Notation SS := (SS ltb).

  (** what is assumed of the four building blocks (their own specifications) *)
  Definition sorts (f : list A -> list A) : Prop := forall l, Permutation (f l) l /\ SS (f l).
  Definition partitions (part : list (list A) -> nat -> list nat) : Prop :=
    forall seqs r, seqs <> [] -> Forall (fun l => l <> []) seqs -> Forall SS seqs ->
                   r <= length (concat seqs) -> is_split ltb seqs r (part seqs r).
  Definition merges (mm : list (list A) -> list A) : Prop :=
    forall seqs, Forall SS seqs -> Permutation (mm seqs) (concat seqs) /\ SS (mm seqs).

  Hypothesis Hlsort : sorts lsort.
  Hypothesis Hssort : sorts ssort.
  Hypothesis Hpart : partitions partition.
  Hypothesis Hmerge : merges mmerge.

  Variable sampling : bool.
  Variable os : nat.
  (* the oversampling factor only matters for sampling splitting (there 0 makes the sample count negative) *)
  Hypothesis Hos : sampling = true -> 1 <= os.

  (** the situation after the early return and the clamp: n >= 2 elements, 1 <= p <= n threads *)
  Variable input : list A.
  Variable p : nat.
  Let n := length input.
  Hypothesis Hp1 : 1 <= p.
  Hypothesis Hpn : p <= n.

  Let st := starts n p.
  Let temps := temporaries lsort input st p.
  Let ns := num_samples os p.
  Let ss := if sampling then sorted_samples ssort d os input st p else [].

  (** ** the runs and their sorted copies *)
  Lemma st_nth_le t : t <= p -> nth t st 0 <= n.
  Proof. intros Ht. now apply starts_le_n. Qed.

  Lemma temps_length : length temps = p.
  Proof. unfold temps, temporaries. now rewrite map_length, seq_length. Qed.

  Lemma temps_nth s : s < p -> nth s temps [] = lsort (slice input (nth s st 0) (nth (S s) st 0)).
  Proof.
    intros Hs. unfold temps, temporaries.
    rewrite (nth_indep _ [] (temporary lsort input st 0)) by (rewrite map_length, seq_length; exact Hs).
    rewrite (map_nth (temporary lsort input st)). now rewrite seq_nth by exact Hs.
  Qed.

  Lemma run_slice_length s : s < p -> length (slice input (nth s st 0) (nth (S s) st 0)) = run_len st s.
  Proof. intros Hs. rewrite slice_length; [reflexivity|]. apply st_nth_le. lia. Qed.

  Lemma temps_nth_length s : s < p -> length (nth s temps []) = run_len st s.
  Proof.
    intros Hs. rewrite temps_nth by exact Hs.
    rewrite (Permutation_length (proj1 (Hlsort _))). now apply run_slice_length.
  Qed.

  Lemma temps_sorted : Forall SS temps.
  Proof.
    apply Forall_forall. intros l Hl. unfold temps, temporaries in Hl. apply in_map_iff in Hl.
    destruct Hl as (t & <- & _). apply Hlsort.
  Qed.

  Lemma temps_nth_sorted s : SS (nth s temps []).
  Proof.
    destruct (Nat.lt_ge_cases s p) as [Hs|Hs].
    - rewrite temps_nth by exact Hs. apply Hlsort.
    - rewrite nth_overflow by (rewrite temps_length; exact Hs). constructor.
  Qed.

  Lemma temps_nonempty : Forall (fun l => l <> []) temps.
  Proof.
    apply Forall_forall. intros l Hl. destruct (In_nth _ _ [] Hl) as (s & Hs & <-).
    rewrite temps_length in Hs. intros E. pose proof (temps_nth_length s Hs) as L. rewrite E in L.
    pose proof (run_len_pos n p Hp1 s Hpn Hs). simpl in L. fold st in H0. lia.
  Qed.

  Lemma temps_perm : Permutation (concat temps) input.
  Proof.
    unfold temps, temporaries.
    eapply perm_trans.
    - apply (Permutation_concat_map _ (fun t => slice input (nth t st 0) (nth (S t) st 0))).
      intros t _. apply Hlsort.
    - rewrite (concat_slices input (fun t => nth t st 0) p).
      + unfold st. rewrite starts_p by exact Hp1. unfold n. rewrite firstn_all. apply Permutation_refl.
      + apply starts_0. exact Hp1.
      + intros t Ht. apply starts_mono; assumption.
  Qed.

  Lemma temps_total : length (concat temps) = n.
  Proof. apply Permutation_length, temps_perm. Qed.

  (** ** the cuts behind both splitting strategies *)
  Definition zeros : list nat := map (fun _ => 0) (seq 0 p).
  Definition lens : list nat := map (run_len st) (seq 0 p).

  Definition cuts (t : nat) : list nat :=
    if t =? 0 then zeros
    else if t <? p then
      (if sampling
       then map (fun s => lower_bound ltb (nth s temps []) (nth (ns * t) ss d)) (seq 0 p)
       else partition temps (nth t st 0))
    else lens.

  Lemma lens_eq : lens = map (fun s => length (nth s temps [])) (seq 0 p).
  Proof. unfold lens. apply map_ext_in. intros s Hs. apply in_seq in Hs. symmetry. apply temps_nth_length. lia. Qed.

  Lemma partition_split t : 0 < t < p -> is_split ltb temps (nth t st 0) (partition temps (nth t st 0)).
  Proof.
    intros Ht. apply Hpart.
    - intros E. pose proof temps_length as L. rewrite E in L. simpl in L. lia.
    - apply temps_nonempty.
    - apply temps_sorted.
    - rewrite temps_total. apply st_nth_le. lia.
  Qed.

  Lemma ns_pos : sampling = true -> 2 <= p -> 1 <= ns.
  Proof. intros Es Hp2. specialize (Hos Es). unfold ns, num_samples. nia. Qed.

  Lemma ss_facts : sampling = true -> length ss = p * ns /\ SS ss.
  Proof.
    intros Es. unfold ss. rewrite Es. unfold sorted_samples. destruct (Hssort (all_samples d input st (num_samples os p) p)) as [P S].
    split; [|exact S]. rewrite (Permutation_length P). apply all_samples_length.
  Qed.

  Lemma cuts_length t : t <= p -> length (cuts t) = p.
  Proof.
    intros Ht. unfold cuts. destruct (t =? 0); [unfold zeros; now rewrite map_length, seq_length|].
    destruct (Nat.ltb_spec t p) as [Hlt|Hge]; [|unfold lens; now rewrite map_length, seq_length].
    destruct (sumbool_of_bool sampling) as [Es|Es]; rewrite Es; [now rewrite map_length, seq_length|].
    destruct (Nat.eq_dec t 0) as [->|Hne].
    - (* t = 0 is excluded by the first test, but the partition has the right length anyway *)
      pose proof (proj1 (Hpart temps (nth 0 st 0) ltac:(intros E; pose proof temps_length as L; rewrite E in L; simpl in L; lia)
                         temps_nonempty temps_sorted ltac:(rewrite temps_total; apply st_nth_le; lia))) as L.
      now rewrite L, temps_length.
    - destruct (partition_split t ltac:(lia)) as (L & _). now rewrite L, temps_length.
  Qed.

  Lemma nth_zeros s : nth s zeros 0 = 0.
  Proof.
    destruct (Nat.lt_ge_cases s p) as [Hs|Hs]; unfold zeros.
    - now rewrite (nth_map_seq p) by exact Hs.
    - now rewrite (nth_map_seq_over p) by exact Hs.
  Qed.

  Lemma nth_lens s : s < p -> nth s lens 0 = length (nth s temps []).
  Proof. intros Hs. unfold lens. rewrite (nth_map_seq p) by exact Hs. symmetry. now apply temps_nth_length. Qed.

  Lemma cuts_bound t s : t <= p -> s < p -> nth s (cuts t) 0 <= length (nth s temps []).
  Proof.
    intros Ht Hs. unfold cuts. destruct (Nat.eqb_spec t 0) as [->|Hne]; [rewrite nth_zeros; lia|].
    destruct (Nat.ltb_spec t p) as [Hlt|Hge]; [|rewrite nth_lens by exact Hs; lia].
    destruct (sumbool_of_bool sampling) as [Es|Es]; rewrite Es.
    - rewrite (nth_map_seq p) by exact Hs. apply lower_bound_le.
    - destruct (partition_split t ltac:(lia)) as (_ & B & _). apply B.
  Qed.

  Lemma cuts_mono t s : t < p -> s < p -> nth s (cuts t) 0 <= nth s (cuts (S t)) 0.
  Proof.
    intros Ht Hs.
    destruct (Nat.eq_dec t 0) as [->|Hne]; [unfold cuts at 1; simpl; rewrite nth_zeros; lia|].
    destruct (Nat.eq_dec (S t) p) as [E|E].
    - unfold cuts at 2. rewrite E. replace (p =? 0) with false by (symmetry; apply Nat.eqb_neq; lia).
      rewrite Nat.ltb_irrefl. rewrite nth_lens by exact Hs. apply cuts_bound; lia.
    - unfold cuts. replace (t =? 0) with false by (symmetry; apply Nat.eqb_neq; lia).
      replace (S t =? 0) with false by reflexivity.
      replace (t <? p) with true by (symmetry; apply Nat.ltb_lt; lia).
      replace (S t <? p) with true by (symmetry; apply Nat.ltb_lt; lia).
      destruct (sumbool_of_bool sampling) as [Es|Es]; rewrite Es.
      + rewrite !(nth_map_seq p) by exact Hs. apply (lower_bound_mono _ H).
        destruct (ss_facts Es) as [Lss Sss].
        apply (SS_nth _ H); [exact Sss|nia|]. rewrite Lss.
        pose proof (ns_pos Es ltac:(lia)). nia.
      + eapply split_mono; [apply partition_split; lia|apply partition_split; lia|].
        apply starts_mono; assumption.
  Qed.

  Lemma cuts_cut t : 0 < t < p -> is_cut ltb temps (cuts t).
  Proof.
    intros Ht. unfold cuts. replace (t =? 0) with false by (symmetry; apply Nat.eqb_neq; lia).
    replace (t <? p) with true by (symmetry; apply Nat.ltb_lt; lia).
    destruct (sumbool_of_bool sampling) as [Es|Es]; rewrite Es; [|apply partition_split; exact Ht].
    intros i j a b Ha Hb.
    assert (Hav : ltb a (nth (ns * t) ss d) = true).
    { destruct (Nat.lt_ge_cases i p) as [Hi|Hi].
      - rewrite (nth_map_seq p) in Ha by exact Hi. eapply lower_bound_left; exact Ha.
      - rewrite (nth_map_seq_over p) in Ha by exact Hi. destruct Ha. }
    assert (Hbv : ltb b (nth (ns * t) ss d) = false).
    { destruct (Nat.lt_ge_cases j p) as [Hj|Hj].
      - rewrite (nth_map_seq p) in Hb by exact Hj. eapply (lower_bound_right _ H); [apply temps_nth_sorted|exact Hb].
      - rewrite (nth_overflow temps) in Hb by (rewrite temps_length; exact Hj). rewrite skipn_nil in Hb. destruct Hb. }
    assert (Hab : ltb a b = true).
    { destruct (swo_negtrans _ H _ _ b Hav) as [C|C]; [exact C|congruence]. }
    split; intros _; [apply (swo_asym _ H); exact Hab|exact Hab].
  Qed.

  Lemma cuts_0 : cuts 0 = map (fun _ => 0) (seq 0 p).
  Proof. reflexivity. Qed.

  Lemma cuts_p : cuts p = map (fun s => length (nth s temps [])) (seq 0 p).
  Proof.
    unfold cuts. replace (p =? 0) with false by (symmetry; apply Nat.eqb_neq; lia).
    rewrite Nat.ltb_irrefl. apply lens_eq.
  Qed.

  (** ** the model's pieces are the slices between consecutive cuts *)
  Definition pcs : list pieces := map (thread_pieces ltb partition d sampling os st temps ss p) (seq 0 p).

  Lemma thread_pieces_cuts t : t < p ->
    thread_pieces ltb partition d sampling os st temps ss p t = {| pbegin := cuts t; pend := cuts (S t) |}.
  Proof.
    intros Ht. unfold thread_pieces. destruct (sumbool_of_bool sampling) as [Es|Es]; rewrite Es.
    - f_equal.
      + unfold sampling_begin, cuts. rewrite Es. fold ns.
        destruct (Nat.eqb_spec t 0) as [->|Hne].
        * rewrite Nat.mul_0_r. reflexivity.
        * replace (t <? p) with true by (symmetry; apply Nat.ltb_lt; lia).
          pose proof (ns_pos Es ltac:(lia)).
          replace (0 <? ns * t) with true by (symmetry; apply Nat.ltb_lt; nia). reflexivity.
      + unfold sampling_end, cuts. rewrite Es. fold ns. replace (S t =? 0) with false by reflexivity.
        rewrite Nat.add_1_r.
        destruct (Nat.ltb_spec (S t) p) as [Hlt|Hge].
        * pose proof (ns_pos Es ltac:(lia)).
          replace (ns * S t <? ns * p) with true by (symmetry; apply Nat.ltb_lt; nia). reflexivity.
        * replace (ns * S t <? ns * p) with false by (symmetry; apply Nat.ltb_ge; nia). reflexivity.
    - f_equal.
      + unfold exact_begin, cuts. rewrite Es.
        destruct (Nat.eqb_spec t 0) as [->|Hne]; [reflexivity|].
        replace (0 <? t) with true by (symmetry; apply Nat.ltb_lt; lia).
        replace (t <? p) with true by (symmetry; apply Nat.ltb_lt; lia).
        unfold exact_end. replace (t - 1 <? p - 1) with true by (symmetry; apply Nat.ltb_lt; lia).
        replace (S (t - 1)) with t by lia. reflexivity.
      + unfold exact_end, cuts. rewrite Es. replace (S t =? 0) with false by reflexivity.
        destruct (Nat.ltb_spec (S t) p) as [Hlt|Hge].
        * replace (t <? p - 1) with true by (symmetry; apply Nat.ltb_lt; lia). reflexivity.
        * replace (t <? p - 1) with false by (symmetry; apply Nat.ltb_ge; lia). reflexivity.
  Qed.

  Notation pieces_of := (pieces_of temps p cuts).
  Notation piece := (piece temps cuts).

  Lemma piece_seqs_cuts t : t <= p ->
    piece_seqs temps {| pbegin := cuts t; pend := cuts (S t) |} = pieces_of t \/ t = p.
  Proof.
    intros Ht. destruct (Nat.eq_dec t p) as [->|Hne]; [now right|left].
    unfold piece_seqs, Cuts.pieces_of. simpl.
    rewrite (list_as_map_seq temps []), temps_length at 1.
    rewrite (list_as_map_seq (cuts t) 0), cuts_length by lia.
    rewrite (list_as_map_seq (cuts (S t)) 0), cuts_length by lia.
    rewrite !combine_map_same, map_map. reflexivity.
  Qed.

  Definition out (t : nat) : list A := mmerge (pieces_of t).

  Lemma pieces_sorted t : Forall SS (pieces_of t).
  Proof.
    apply Forall_forall. intros l Hl. unfold Cuts.pieces_of in Hl. apply in_map_iff in Hl.
    destruct Hl as (s & <- & _). unfold Cuts.piece, slice. apply SS_firstn, SS_skipn. apply temps_nth_sorted.
  Qed.

  Lemma thread_out_eq t : t < p ->
    thread_out mmerge temps (thread_pieces ltb partition d sampling os st temps ss p t) = out t.
  Proof.
    intros Ht. rewrite thread_pieces_cuts by exact Ht. unfold thread_out, out.
    destruct (piece_seqs_cuts t ltac:(lia)) as [->|E]; [reflexivity|lia].
  Qed.

  Lemma out_perm t : t < p -> Permutation (out t) (concat (pieces_of t)).
  Proof. intros _. apply Hmerge, pieces_sorted. Qed.
  Lemma out_sorted t : t < p -> SS (out t).
  Proof. intros _. apply Hmerge, pieces_sorted. Qed.

  Definition outs : list (list A) := map out (seq 0 p).

  Lemma outs_eq : map (thread_out mmerge temps) pcs = outs.
  Proof.
    unfold pcs, outs. rewrite map_map. apply map_ext_in. intros t Ht. apply in_seq in Ht.
    apply thread_out_eq. lia.
  Qed.

  Lemma offsets_eq : map offset_of pcs = map (fun t => PMS.sum (cuts t)) (seq 0 p).
  Proof.
    unfold pcs. rewrite map_map. apply map_ext_in. intros t Ht. apply in_seq in Ht.
    rewrite thread_pieces_cuts by lia. reflexivity.
  Qed.

  Let chain_offsets' := chain_offsets temps p cuts temps_length cuts_0 cuts_p cuts_length cuts_mono out out_perm.

  Lemma outs_perm_input : Permutation (concat outs) input.
  Proof.
    eapply perm_trans; [|exact temps_perm].
    unfold outs. apply chain_permutation with (cuts := cuts);
      first [exact temps_length | exact cuts_0 | exact cuts_p | exact cuts_length | exact cuts_mono | exact out_perm].
  Qed.

  (** ** pieces_partition: for every run the pieces of the p threads are ordered, disjoint and cover
      the run: thread 0 starts at 0, thread t+1 starts where thread t ended, the last thread ends at
      the end of the run, and 0 <= begin <= end <= length. *)
  Theorem pieces_partition_run s : s < p ->
    nth s (pbegin (nth 0 pcs {| pbegin := []; pend := [] |})) 0 = 0 /\
    (forall t, t < p ->
       let pc := nth t pcs {| pbegin := []; pend := [] |} in
       nth s (pbegin pc) 0 <= nth s (pend pc) 0 <= length (nth s temps []) /\
       (S t < p -> nth s (pbegin (nth (S t) pcs {| pbegin := []; pend := [] |})) 0 = nth s (pend pc) 0) /\
       (S t = p -> nth s (pend pc) 0 = length (nth s temps []))).
  Proof.
    intros Hs.
    assert (E : forall t, t < p -> nth t pcs {| pbegin := []; pend := [] |} = {| pbegin := cuts t; pend := cuts (S t) |}).
    { intros t Ht. unfold pcs. rewrite (nth_map_seq p) by exact Ht. now apply thread_pieces_cuts. }
    split.
    - rewrite E by lia. simpl. apply nth_zeros.
    - intros t Ht. cbv zeta. rewrite E by exact Ht. simpl. repeat split.
      + now apply cuts_mono.
      + apply cuts_bound; lia.
      + intros Hlt. now rewrite E by exact Hlt.
      + intros Heq. rewrite Heq, cuts_p. now rewrite (nth_map_seq p) by exact Hs.
  Qed.

  (** ** the array after all merge-phase writes *)
  Lemma firstn_outs t : t <= p -> firstn t outs = map out (seq 0 t).
  Proof. intros Ht. unfold outs. rewrite firstn_map, firstn_seq' by exact Ht. reflexivity. Qed.

  Theorem result_is_concat_outs :
    fold_left (fun arr ow => write_at (fst ow) (snd ow) arr) (combine (map offset_of pcs) (map (thread_out mmerge temps) pcs)) input
    = concat outs.
  Proof.
    rewrite outs_eq, offsets_eq.
    pose proof (write_blocks outs (map (fun t => PMS.sum (cuts t)) (seq 0 p)) [] input []) as W.
    simpl in W. rewrite !app_nil_r in W. apply W.
    - unfold outs. now rewrite !map_length.
    - intros t Ht. unfold outs in Ht. rewrite map_length, seq_length in Ht.
      rewrite (nth_map_seq p) by exact Ht. rewrite firstn_outs by lia. apply chain_offsets'. lia.
    - symmetry. apply Permutation_length, outs_perm_input.
  Qed.

  (** ** windows_partition: the output windows [offset_t, offset_t + length_t) are consecutive,
      start at 0 and end at n: disjoint, ordered and covering [0, n). *)
  Lemma length_am_eq t : t < p -> length_am {| pbegin := cuts t; pend := cuts (S t) |} = length (out t).
  Proof.
    intros Ht. rewrite (Permutation_length (out_perm t Ht)), length_concat.
    unfold length_am, Cuts.pieces_of. simpl.
    rewrite (list_as_map_seq (cuts t) 0), cuts_length by lia.
    rewrite (list_as_map_seq (cuts (S t)) 0), cuts_length by lia.
    rewrite combine_map_same, !map_map. f_equal. apply map_ext_in. intros s Hs. apply in_seq in Hs.
    simpl. unfold Cuts.piece. rewrite slice_length; [reflexivity|]. apply cuts_bound; lia.
  Qed.

  Definition wins : list (nat * nat) := map (fun pc => (offset_of pc, length_am pc)) pcs.

  Lemma wins_nth t : t < p -> nth t wins (0, 0) = (PMS.sum (cuts t), length (out t)).
  Proof.
    intros Ht. unfold wins, pcs. rewrite map_map. rewrite (nth_map_seq p) by exact Ht.
    rewrite thread_pieces_cuts by exact Ht. unfold offset_of at 1. simpl. now rewrite length_am_eq.
  Qed.

  Lemma sum_cuts_S t : t < p -> PMS.sum (cuts (S t)) = PMS.sum (cuts t) + length (out t).
  Proof.
    intros Ht. rewrite !chain_offsets' by lia. rewrite seq_S, map_app, concat_app, app_length. simpl.
    now rewrite app_nil_r.
  Qed.

  Lemma sum_cuts_p : PMS.sum (cuts p) = n.
  Proof.
    rewrite chain_offsets' by lia. fold outs. apply Permutation_length, outs_perm_input.
  Qed.

  Lemma sum_cuts_le t t' : t <= t' -> t' <= p -> PMS.sum (cuts t) <= PMS.sum (cuts t').
  Proof.
    intros Htt Hp'. induction t' as [|t' IH]; [replace t with 0 by lia; lia|].
    destruct (Nat.eq_dec t (S t')) as [->|Hne]; [lia|].
    rewrite sum_cuts_S by lia. specialize (IH ltac:(lia) ltac:(lia)). lia.
  Qed.

  Theorem windows_partition :
    length wins = p /\
    fst (nth 0 wins (0, 0)) = 0 /\
    (forall t, t < p ->
       fst (nth t wins (0, 0)) + snd (nth t wins (0, 0)) =
       (if S t <? p then fst (nth (S t) wins (0, 0)) else n)).
  Proof.
    split; [unfold wins, pcs; now rewrite !map_length, seq_length|]. split.
    - rewrite wins_nth by lia. simpl. unfold zeros. apply sum_map_const0.
    - intros t Ht. rewrite wins_nth by exact Ht. simpl. rewrite <- sum_cuts_S by exact Ht.
      destruct (Nat.ltb_spec (S t) p) as [Hlt|Hge].
      + now rewrite wins_nth by exact Hlt.
      + replace (S t) with p by lia. apply sum_cuts_p.
  Qed.

  (** ** no piece has negative length or leaves its run, no window leaves the array *)
  Theorem model_ok :
    forallb (pieces_ok temps) pcs && forallb (fun w => fst w + snd w <=? n) wins = true.
  Proof.
    apply andb_true_intro. split.
    - apply forallb_forall. intros pc Hpc. unfold pcs in Hpc. apply in_map_iff in Hpc.
      destruct Hpc as (t & <- & Ht). apply in_seq in Ht. rewrite thread_pieces_cuts by lia.
      unfold pieces_ok. simpl. rewrite !cuts_length, temps_length, Nat.eqb_refl by lia. simpl.
      apply forallb_forall. intros x Hx.
      rewrite (list_as_map_seq temps []), temps_length in Hx.
      rewrite (list_as_map_seq (cuts t) 0), cuts_length in Hx by lia.
      rewrite (list_as_map_seq (cuts (S t)) 0), cuts_length in Hx by lia.
      rewrite !combine_map_same in Hx. apply in_map_iff in Hx. destruct Hx as (s & <- & Hs).
      apply in_seq in Hs. simpl. apply andb_true_intro. split; apply Nat.leb_le.
      + apply cuts_mono; lia.
      + apply cuts_bound; lia.
    - apply forallb_forall. intros w Hw. destruct (In_nth _ _ (0, 0) Hw) as (t & Ht & <-).
      assert (Htp : t < p) by (unfold wins, pcs in Ht; now rewrite !map_length, seq_length in Ht).
      rewrite wins_nth by exact Htp. simpl. apply Nat.leb_le. rewrite <- sum_cuts_S by exact Htp.
      rewrite <- sum_cuts_p. apply sum_cuts_le; lia.
  Qed.

  (** ** sorted permutation *)
  Theorem outs_sorted : SS (concat outs).
  Proof.
    unfold outs. apply chain_sorted with (temps := temps) (cuts := cuts);
      first [exact H | exact temps_length | exact cuts_0 | exact cuts_p | exact cuts_length | exact cuts_mono | exact cuts_cut | exact out_perm | exact out_sorted].
  Qed.

  (** ** stable case *)
  Section Stable.
    Hypothesis Hlsort_stable : forall l, lsort l = stable_sort ltb l.
    Hypothesis Hmerge_stable : forall seqs, Forall SS seqs -> mmerge seqs = smerge ltb seqs.

    Theorem outs_stable : concat outs = stable_sort ltb input.
    Proof.
      unfold outs, out.
      rewrite (map_ext_in _ (fun t => smerge ltb (pieces_of t))) by (intros t _; apply Hmerge_stable, pieces_sorted).
      transitivity (smerge ltb temps).
      { apply chain_stable with (cuts := cuts);
          first [exact H | exact temps_length | exact cuts_0 | exact cuts_p | exact cuts_length | exact cuts_mono | exact cuts_cut]. }
      unfold temps, temporaries, temporary.
      rewrite (map_ext _ (fun t => stable_sort ltb (slice input (nth t st 0) (nth (S t) st 0)))) by (intros; apply Hlsort_stable).
      rewrite <- (map_map (fun t => slice input (nth t st 0) (nth (S t) st 0)) (stable_sort ltb)).
      rewrite <- (ssort_concat _ H).
      rewrite (concat_slices input (fun t => nth t st 0) p).
      - unfold st. rewrite starts_p by exact Hp1. unfold n. now rewrite firstn_all.
      - apply starts_0. exact Hp1.
      - intros t Ht. apply starts_mono; assumption.
    Qed.
  End Stable.
End Main.
