(** C06 — the theorems about [PMS.pms] itself (all n >= 0, all thread counts >= 1, both splitting
    strategies, every oversampling factor >= 1), and the closed instance used by the correspondence. *)
From Coq Require Import List Bool Arith Lia PeanoNat NArith Sorting.Sorted Sorting.Permutation.
From TLXV Require Import Common.Order C06.PMS C06.MergeLemmas C06.Layout C06.Cuts C06.PMSProofs C06.SplitSpec.
Import ListNotations.

Section Top.
  Context {A : Type}.
  Variable ltb : A -> A -> bool.
  Hypothesis H : SWO ltb.
  Variables lsort ssort : list A -> list A.
  Variable partition : list (list A) -> nat -> list nat.
  Variable mmerge : list (list A) -> list A.
  Variable d : A.
  Hypothesis Hlsort : sorts ltb lsort.
  Hypothesis Hssort : sorts ltb ssort.
  Hypothesis Hpart : partitions ltb partition.
  Hypothesis Hmerge : merges ltb mmerge.

  Notation pms := (pms ltb lsort ssort partition mmerge d).

  Lemma pms_small sampling os p input : length input <= 1 ->
    pms sampling os p input = {| res_array := input; res_windows := []; res_ok := true |}.
  Proof. intros Hn. unfold PMS.pms. now replace (length input <=? 1) with true by (symmetry; apply Nat.leb_le; exact Hn). Qed.

  (** after the early return and the clamp the model is the situation analysed in PMSProofs *)
  Lemma pms_large sampling os p0 input : 2 <= length input ->
    let p := clamp_threads (length input) p0 in
    pms sampling os p0 input =
    {| res_array := fold_left (fun arr ow => write_at (fst ow) (snd ow) arr)
                      (combine (map offset_of (pcs ltb lsort ssort partition d sampling os input p))
                               (map (thread_out mmerge (temporaries lsort input (starts (length input) p) p))
                                    (pcs ltb lsort ssort partition d sampling os input p))) input;
       res_windows := wins ltb lsort ssort partition d sampling os input p;
       res_ok := forallb (pieces_ok (temporaries lsort input (starts (length input) p) p))
                         (pcs ltb lsort ssort partition d sampling os input p) &&
                 forallb (fun w => fst w + snd w <=? length input)
                         (wins ltb lsort ssort partition d sampling os input p) |}.
  Proof.
    intros Hn. unfold PMS.pms.
    replace (length input <=? 1) with false by (symmetry; apply Nat.leb_gt; lia). reflexivity.
  Qed.

  Lemma short_sorted (l : list A) : length l <= 1 -> SS ltb l.
  Proof. destruct l as [|x [|y l]]; simpl; intros; try lia; repeat constructor. Qed.

  (** parallel_mergesort: the result is a permutation of the input in non-decreasing comparator
      order; no piece is negative or out of range and no window leaves the array. *)
  Theorem pms_sorted_permutation sampling os p input : (sampling = true -> 1 <= os) -> 1 <= p ->
    let r := pms sampling os p input in
    Permutation (res_array r) input /\ SS ltb (res_array r) /\ res_ok r = true.
  Proof.
    intros Hos Hp. destruct (Nat.le_gt_cases (length input) 1) as [Hn|Hn].
    - cbv zeta. rewrite pms_small by exact Hn. simpl. repeat split; [apply Permutation_refl|now apply short_sorted].
    - cbv zeta. rewrite pms_large by exact Hn. cbn [res_array res_ok].
      destruct (clamp_threads_spec (length input) p Hn Hp) as [[Hp1 Hpn] _].
      rewrite (result_is_concat_outs ltb H lsort ssort partition mmerge d Hlsort Hssort Hpart Hmerge sampling os Hos input _ Hp1 Hpn).
      split; [|split].
      + eapply outs_perm_input; eassumption.
      + eapply outs_sorted; eassumption.
      + eapply model_ok; eassumption.
  Qed.

  (** the output windows of the threads are consecutive, start at 0 and end at n *)
  Theorem pms_windows_partition sampling os p0 input : (sampling = true -> 1 <= os) -> 1 <= p0 -> 2 <= length input ->
    let w := res_windows (pms sampling os p0 input) in
    let p := clamp_threads (length input) p0 in
    length w = p /\ fst (nth 0 w (0, 0)) = 0 /\
    forall t, t < p -> fst (nth t w (0, 0)) + snd (nth t w (0, 0)) =
                       if S t <? p then fst (nth (S t) w (0, 0)) else length input.
  Proof.
    intros Hos Hp Hn. cbv zeta. rewrite pms_large by exact Hn. cbn [res_windows].
    destruct (clamp_threads_spec (length input) p0 Hn Hp) as [[Hp1 Hpn] _].
    eapply windows_partition; eassumption.
  Qed.

  (** stable_parallel_mergesort *)
  Hypothesis Hlsort_stable : forall l, lsort l = stable_sort ltb l.
  Hypothesis Hmerge_stable : forall seqs, Forall (SS ltb) seqs -> mmerge seqs = smerge ltb seqs.

  Theorem pms_stable sampling os p input : (sampling = true -> 1 <= os) -> 1 <= p ->
    res_array (pms sampling os p input) = stable_sort ltb input.
  Proof.
    intros Hos Hp. destruct (Nat.le_gt_cases (length input) 1) as [Hn|Hn].
    - rewrite pms_small by exact Hn. simpl. destruct input as [|x [|y l]]; simpl in *; try lia; reflexivity.
    - rewrite pms_large by exact Hn. cbn [res_array].
      destruct (clamp_threads_spec (length input) p Hn Hp) as [[Hp1 Hpn] _].
      rewrite (result_is_concat_outs ltb H lsort ssort partition mmerge d Hlsort Hssort Hpart Hmerge sampling os Hos input _ Hp1 Hpn).
      eapply outs_stable; eassumption.
  Qed.
End Top.

(** * The closed instance: reference implementations of the four building blocks *)
Section Instance.
  Context {A : Type}.
  Variable ltb : A -> A -> bool.
  Hypothesis H : SWO ltb.

  Lemma stable_sort_sorts : sorts ltb (stable_sort ltb).
  Proof. intros l. split; [apply ssort_perm|now apply ssort_sorted]. Qed.

  Lemma smerge_merges : merges ltb (smerge ltb).
  Proof. intros seqs Hs. split; [apply smerge_perm|now apply smerge_sorted]. Qed.

  Lemma split_spec_partitions : partitions ltb (split_spec ltb).
  Proof. intros seqs r _ _ Hs Hr. now apply split_spec_is_split. Qed.

  (** any partition function that meets the specification is [split_spec] (on valid arguments) *)
  Lemma partition_is_split_spec part : partitions ltb part ->
    forall seqs r, seqs <> [] -> Forall (fun l => l <> []) seqs -> Forall (SS ltb) seqs -> r <= length (concat seqs) ->
                   part seqs r = split_spec ltb seqs r.
  Proof.
    intros Hp seqs r H1 H2 H3 H4. eapply split_unique; [now apply Hp|now apply split_spec_is_split].
  Qed.
End Instance.

Lemma SWO_N_ltb : SWO N.ltb.
Proof.
  constructor; intros.
  - apply N.ltb_irrefl.
  - rewrite N.ltb_lt in *. lia.
  - rewrite !N.ltb_lt in *. lia.
Qed.

Lemma SWO_kv_ltb rev : SWO (kv_ltb rev).
Proof.
  destruct rev; unfold kv_ltb.
  - apply (SWO_flip (fun a b : kv => N.ltb (fst a) (fst b))). apply (SWO_on N.ltb fst), SWO_N_ltb.
  - apply (SWO_on N.ltb fst), SWO_N_ltb.
Qed.

(** The extracted model, run by the correspondence check on the same inputs as the C++ code, returns
    the std::stable_sort arrangement with all its sanity flags set — for every input, thread count,
    oversampling factor, splitting strategy and comparator direction. *)
Theorem pms_ref_correct rev sampling os p input : (sampling = true -> 1 <= os) -> 1 <= p ->
  res_array (pms_ref rev sampling os p input) = stable_sort_ref rev input /\
  res_ok (pms_ref rev sampling os p input) = true.
Proof.
  intros Hos Hp. unfold pms_ref, stable_sort_ref. pose proof (SWO_kv_ltb rev) as HS. split.
  - apply (pms_stable (kv_ltb rev) HS); auto using stable_sort_sorts, smerge_merges, split_spec_partitions.
  - apply (pms_sorted_permutation (kv_ltb rev) HS); auto using stable_sort_sorts, smerge_merges, split_spec_partitions.
Qed.

(** the hypotheses of the main theorems are met by a non-trivial state: 11 elements over 3 keys, 4
    threads, ties across every run boundary *)
Example pms_ref_example :
  let input := index_input [2; 0; 1; 1; 0; 2; 0; 1; 2; 2; 1]%N in
  res_windows (pms_ref false false 10 4 input) = [(0, 3); (3, 3); (6, 3); (9, 2)] /\
  res_windows (pms_ref false true 1 4 input) = [(0, 3); (3, 0); (3, 4); (7, 4)] /\
  map snd (res_array (pms_ref false false 10 4 input)) = [1; 4; 6; 2; 3; 7; 10; 0; 5; 8; 9].
Proof. vm_compute. repeat split. Qed.
