(** C06 — facts about the sequential building blocks of the model: binary / multiway stable merge,
    the stable-sort specification, lower_bound.  Everything is for an arbitrary strict weak order. *)
From Coq Require Import List Bool Arith Lia PeanoNat Sorting.Sorted Sorting.Permutation.
From TLXV Require Import Common.Order C06.PMS.
Import ListNotations.

Section Merge.
  Context {A : Type}.
  Variable ltb : A -> A -> bool.
  Hypothesis H : SWO ltb.

  Notation merge2 := (merge2 ltb).
  Notation smerge := (smerge ltb).
  Notation ssort := (stable_sort ltb).
  Notation le := (sorted_rel ltb).
  Definition SS (l : list A) : Prop := StronglySorted le l.

  (** ** unfolding equations *)
  Lemma merge2_nil_l l : merge2 [] l = l.
  Proof. destruct l; reflexivity. Qed.
  Lemma merge2_nil_r l : merge2 l [] = l.
  Proof. destruct l; reflexivity. Qed.
  Lemma merge2_cons a1 l1 a2 l2 :
    merge2 (a1 :: l1) (a2 :: l2) =
    if ltb a2 a1 then a2 :: merge2 (a1 :: l1) l2 else a1 :: merge2 l1 (a2 :: l2).
  Proof. reflexivity. Qed.

  Lemma merge2_perm l1 : forall l2, Permutation (merge2 l1 l2) (l1 ++ l2).
  Proof.
    induction l1 as [|a1 l1 IH1]; intros l2.
    - rewrite merge2_nil_l. apply Permutation_refl.
    - induction l2 as [|a2 l2 IH2].
      + rewrite merge2_nil_r, app_nil_r. apply Permutation_refl.
      + rewrite merge2_cons. destruct (ltb a2 a1).
        * eapply perm_trans; [apply perm_skip, IH2|].
          change (Permutation (a2 :: (a1 :: l1) ++ l2) ((a1 :: l1) ++ a2 :: l2)).
          apply Permutation_middle.
        * simpl. apply perm_skip, IH1.
  Qed.

  Lemma merge2_in x l1 l2 : In x (merge2 l1 l2) <-> In x l1 \/ In x l2.
  Proof.
    rewrite <- in_app_iff. split; apply Permutation_in; [|apply Permutation_sym]; apply merge2_perm.
  Qed.

  Lemma merge2_length l1 l2 : length (merge2 l1 l2) = length l1 + length l2.
  Proof. rewrite (Permutation_length (merge2_perm l1 l2)). apply app_length. Qed.

  Lemma SS_cons_inv a l : SS (a :: l) -> SS l /\ Forall (le a) l.
  Proof. intros S. inversion S; subst. split; assumption. Qed.

  Lemma Forall_merge2 (P : A -> Prop) l1 l2 : Forall P l1 -> Forall P l2 -> Forall P (merge2 l1 l2).
  Proof.
    rewrite !Forall_forall. intros F1 F2 x Hx. apply merge2_in in Hx. destruct Hx; auto.
  Qed.

  Lemma le_trans x y z : le x y -> le y z -> le x z.
  Proof. rewrite !sorted_rel_leb. apply (leb_trans _ H). Qed.

  Lemma merge2_sorted l1 : forall l2, SS l1 -> SS l2 -> SS (merge2 l1 l2).
  Proof.
    induction l1 as [|a1 l1 IH1]; intros l2 S1 S2.
    - now rewrite merge2_nil_l.
    - induction l2 as [|a2 l2 IH2].
      + now rewrite merge2_nil_r.
      + rewrite merge2_cons.
        destruct (SS_cons_inv _ _ S1) as [S1' F1]. destruct (SS_cons_inv _ _ S2) as [S2' F2].
        destruct (ltb a2 a1) eqn:E.
        * constructor; [apply IH2; assumption|].
          apply Forall_merge2; [|assumption].
          assert (L : le a2 a1) by (unfold sorted_rel; apply (swo_asym _ H); exact E).
          constructor; [exact L|]. eapply Forall_impl; [|exact F1]. intros z Hz. eapply le_trans; eassumption.
        * constructor; [apply IH1; assumption|].
          apply Forall_merge2; [assumption|].
          constructor; [exact E|]. eapply Forall_impl; [|exact F2]. intros z Hz.
          eapply le_trans; [|exact Hz]. exact E.
  Qed.

  (** ** the split lemma: a cut that respects the (value, sequence) order can be merged piecewise *)
  Lemma merge2_split A1 : forall A2 B1 B2,
    (forall a b, In a A1 -> In b B2 -> ltb b a = false) ->
    (forall a b, In a A2 -> In b B1 -> ltb a b = true) ->
    merge2 (A1 ++ B1) (A2 ++ B2) = merge2 A1 A2 ++ merge2 B1 B2.
  Proof.
    induction A1 as [|a1 A1 IH1]; intros A2 B1 B2 C1 C2.
    - induction A2 as [|a2 A2 IH2].
      + reflexivity.
      + simpl app at 1 2. rewrite merge2_nil_l.
        destruct B1 as [|b1 B1].
        * now rewrite !merge2_nil_l.
        * rewrite merge2_cons. rewrite (C2 a2 b1) by (simpl; auto).
          simpl. f_equal. rewrite merge2_nil_l in IH2. apply IH2.
          intros a b Ha Hb. apply C2; simpl; auto.
    - induction A2 as [|a2 A2 IH2].
      + simpl app at 2. rewrite merge2_nil_r.
        destruct B2 as [|b2 B2].
        * now rewrite !merge2_nil_r.
        * simpl app at 1. rewrite merge2_cons. rewrite (C1 a1 b2) by (simpl; auto).
          simpl. f_equal. specialize (IH1 [] B1 (b2 :: B2)). rewrite merge2_nil_r in IH1. apply IH1.
          -- intros a b Ha Hb. apply C1; simpl; auto.
          -- intros a b [].
      + simpl app. rewrite !merge2_cons. destruct (ltb a2 a1).
        * simpl. f_equal. apply IH2. intros a b Ha Hb. apply C2; simpl; auto.
        * simpl. f_equal. apply (IH1 (a2 :: A2) B1 B2).
          -- intros a b Ha Hb. apply C1; simpl; auto.
          -- exact C2.
  Qed.

  (** ** multiway merge *)
  Lemma smerge_perm seqs : Permutation (smerge seqs) (concat seqs).
  Proof.
    induction seqs as [|l r IH]; simpl; [constructor|].
    eapply perm_trans; [apply merge2_perm|]. now apply Permutation_app_head.
  Qed.

  Lemma smerge_in x seqs : In x (smerge seqs) <-> exists j, In x (nth j seqs []).
  Proof.
    split.
    - intros Hx. apply (Permutation_in _ (smerge_perm seqs)) in Hx.
      apply in_concat in Hx. destruct Hx as (l & Hl & Hx).
      destruct (In_nth _ _ [] Hl) as (j & _ & Hj). exists j. now rewrite Hj.
    - intros (j & Hj). apply (Permutation_in _ (Permutation_sym (smerge_perm seqs))).
      apply in_concat. exists (nth j seqs []). split; [|exact Hj].
      destruct (Nat.lt_ge_cases j (length seqs)) as [L|G]; [now apply nth_In|].
      rewrite nth_overflow in Hj by exact G. destruct Hj.
  Qed.

  Lemma smerge_sorted seqs : Forall SS seqs -> SS (smerge seqs).
  Proof.
    induction 1 as [|l r Hl Hr IH]; simpl; [constructor|]. now apply merge2_sorted.
  Qed.

  Lemma smerge_length seqs : length (smerge seqs) = PMS.sum (map (@length A) seqs).
  Proof. induction seqs as [|l r IH]; simpl; [reflexivity|]. now rewrite merge2_length, IH. Qed.

  (** pointwise concatenation of two families of sequences *)
  Definition zip_app (As Bs : list (list A)) : list (list A) :=
    map (fun ab => fst ab ++ snd ab) (combine As Bs).

  (** [a] in a left part [As_i], [b] in a right part [Bs_j]: (a, i) is before (b, j) in the
      (value, sequence) order. *)
  Definition cross (As Bs : list (list A)) : Prop :=
    forall i j a b, In a (nth i As []) -> In b (nth j Bs []) ->
      (i <= j -> ltb b a = false) /\ (j < i -> ltb a b = true).

  Lemma smerge_split As : forall Bs, length As = length Bs -> cross As Bs ->
    smerge (zip_app As Bs) = smerge As ++ smerge Bs.
  Proof.
    induction As as [|A1 As IH]; intros [|B1 Bs] L C; try discriminate; [reflexivity|].
    unfold zip_app. simpl. fold (zip_app As Bs).
    rewrite IH.
    - apply merge2_split.
      + intros a b Ha Hb. apply smerge_in in Hb. destruct Hb as (j & Hj).
        apply (C 0 (S j) a b Ha Hj). lia.
      + intros a b Ha Hb. apply smerge_in in Ha. destruct Ha as (i & Hi).
        apply (C (S i) 0 a b Hi Hb). lia.
    - simpl in L. lia.
    - intros i j a b Ha Hb. destruct (C (S i) (S j) a b Ha Hb) as [C1 C2]. split; intros; [apply C1|apply C2]; lia.
  Qed.

  (** ** the stable-sort specification *)
  Lemma ssort_cons x l : ssort (x :: l) = merge2 [x] (ssort l).
  Proof. reflexivity. Qed.

  (** inserting into a merge = merging after inserting into the left run *)
  Lemma ins_cons x y l :
    merge2 [x] (y :: l) = if ltb y x then y :: merge2 [x] l else x :: y :: l.
  Proof. rewrite merge2_cons. destruct (ltb y x); [reflexivity|]. now rewrite merge2_nil_l. Qed.

  Lemma insert_merge2 x S1 : forall S2, merge2 [x] (merge2 S1 S2) = merge2 (merge2 [x] S1) S2.
  Proof.
    induction S1 as [|a S1 IH1]; intros S2.
    - now rewrite !merge2_nil_l, merge2_nil_r.
    - induction S2 as [|b S2 IH2].
      + now rewrite !merge2_nil_r.
      + rewrite (merge2_cons a S1 b S2). rewrite (ins_cons x a S1).
        destruct (ltb b a) eqn:Eba.
        * rewrite (ins_cons x b). rewrite IH2. rewrite (ins_cons x a S1).
          destruct (ltb a x) eqn:Eax.
          -- rewrite (swo_trans _ H _ _ _ Eba Eax).
             rewrite merge2_cons, Eba. reflexivity.
          -- destruct (ltb b x) eqn:Ebx.
             ++ rewrite merge2_cons, Ebx. reflexivity.
             ++ rewrite (merge2_cons x (a :: S1) b S2), Ebx.
                rewrite merge2_cons, Eba. reflexivity.
        * rewrite (ins_cons x a).
          destruct (ltb a x) eqn:Eax.
          -- rewrite merge2_cons, Eba. f_equal. apply IH1.
          -- assert (Ebx : ltb b x = false).
             { destruct (ltb b x) eqn:E; [|reflexivity].
               destruct (swo_negtrans _ H _ _ a E) as [C|C]; congruence. }
             rewrite (merge2_cons x (a :: S1) b S2), Ebx.
             rewrite merge2_cons, Eba. reflexivity.
  Qed.

  Lemma ssort_app l1 l2 : ssort (l1 ++ l2) = merge2 (ssort l1) (ssort l2).
  Proof.
    induction l1 as [|x l1 IH]; [now rewrite merge2_nil_l|].
    simpl app. rewrite !ssort_cons, IH. apply insert_merge2.
  Qed.

  Lemma ssort_concat ls : ssort (concat ls) = smerge (map ssort ls).
  Proof. induction ls as [|l r IH]; [reflexivity|]. simpl. now rewrite ssort_app, IH. Qed.

  Lemma ssort_perm l : Permutation (ssort l) l.
  Proof.
    induction l as [|x l IH]; [constructor|]. rewrite ssort_cons.
    eapply perm_trans; [apply merge2_perm|]. simpl. now apply perm_skip.
  Qed.

  Lemma ssort_sorted l : SS (ssort l).
  Proof.
    induction l as [|x l IH]; [constructor|]. rewrite ssort_cons.
    apply merge2_sorted; [|exact IH]. repeat constructor.
  Qed.

  Lemma ssort_length l : length (ssort l) = length l.
  Proof. apply Permutation_length, ssort_perm. Qed.

  (** stability: the elements equivalent to any [k] keep their relative order *)
  Lemma insert_filter_eqv k x l :
    filter (eqv ltb k) (merge2 [x] l) = filter (eqv ltb k) (x :: l).
  Proof.
    induction l as [|y l IH]; [reflexivity|].
    rewrite ins_cons. destruct (ltb y x) eqn:E; [|reflexivity].
    cbn [filter]. rewrite IH. cbn [filter].
    destruct (eqv ltb k x) eqn:Ex; [|reflexivity].
    destruct (eqv ltb k y) eqn:Ey; [|reflexivity].
    (* k ~ x, k ~ y but y < x: impossible *)
    rewrite (eqv_sym ltb) in Ey.
    pose proof (eqv_trans _ H _ _ _ Ey Ex) as C. unfold eqv in C. rewrite E in C. discriminate.
  Qed.

  Lemma ssort_stable k l : filter (eqv ltb k) (ssort l) = filter (eqv ltb k) l.
  Proof.
    induction l as [|x l IH]; [reflexivity|]. rewrite ssort_cons, insert_filter_eqv.
    simpl. now rewrite IH.
  Qed.

  (** ** lower_bound on a sorted range *)
  Notation lower_bound := (lower_bound ltb).

  Lemma lower_bound_le l v : lower_bound l v <= length l.
  Proof. induction l as [|x l IH]; simpl; [lia|]. destruct (ltb x v); simpl; lia. Qed.

  Lemma lower_bound_left l v : forall a, In a (firstn (lower_bound l v) l) -> ltb a v = true.
  Proof.
    induction l as [|x l IH]; simpl; intros a Ha; [destruct Ha|].
    destruct (ltb x v) eqn:E; simpl in Ha; [|destruct Ha].
    destruct Ha as [<-|Ha]; auto.
  Qed.

  Lemma lower_bound_right l v : SS l -> forall b, In b (skipn (lower_bound l v) l) -> ltb b v = false.
  Proof.
    induction l as [|x l IH]; simpl; intros S b Hb; [destruct Hb|].
    destruct (SS_cons_inv _ _ S) as [S' F].
    destruct (ltb x v) eqn:E; simpl in Hb; [now apply IH|].
    destruct Hb as [<-|Hb]; [exact E|].
    rewrite Forall_forall in F. specialize (F b Hb).
    destruct (ltb b v) eqn:Eb; [|reflexivity].
    (* x <= b < v gives x < v *)
    rewrite (leb_ltb_trans _ H x b v) in E; [discriminate| |exact Eb].
    apply sorted_rel_leb. exact F.
  Qed.

  Lemma lower_bound_mono l v w : ltb w v = false -> lower_bound l v <= lower_bound l w.
  Proof.
    intros Hvw. induction l as [|x l IH]; simpl; [lia|].
    destruct (ltb x v) eqn:E; [|lia].
    rewrite (ltb_leb_trans _ H x v w E); [lia|]. unfold leb. now rewrite Hvw.
  Qed.

  (** ** sortedness of a concatenation *)
  Lemma SS_app l1 l2 : SS l1 -> SS l2 -> (forall a b, In a l1 -> In b l2 -> le a b) -> SS (l1 ++ l2).
  Proof.
    induction l1 as [|x l1 IH]; intros S1 S2 C; [exact S2|].
    destruct (SS_cons_inv _ _ S1) as [S1' F]. simpl. constructor.
    - apply IH; auto. intros a b Ha Hb. apply C; simpl; auto.
    - apply Forall_app. split; [exact F|]. apply Forall_forall. intros b Hb. apply C; simpl; auto.
  Qed.

  Lemma SS_app_inv l1 l2 : SS (l1 ++ l2) -> SS l1 /\ SS l2 /\ (forall a b, In a l1 -> In b l2 -> le a b).
  Proof.
    induction l1 as [|x l1 IH]; simpl; intros S.
    - split; [constructor|]. split; [exact S|]. intros a b [].
    - destruct (SS_cons_inv _ _ S) as [S' F]. destruct (IH S') as (S1 & S2 & C).
      apply Forall_app in F. destruct F as [F1 F2].
      split; [constructor; assumption|]. split; [exact S2|].
      intros a b [<-|Ha] Hb; [|now apply C]. rewrite Forall_forall in F2. now apply F2.
  Qed.

  Lemma SS_firstn k l : SS l -> SS (firstn k l).
  Proof. intros S. rewrite <- (firstn_skipn k l) in S. now apply SS_app_inv in S. Qed.
  Lemma SS_skipn k l : SS l -> SS (skipn k l).
  Proof. intros S. rewrite <- (firstn_skipn k l) in S. now apply SS_app_inv in S. Qed.

  Lemma SS_nth l d i j : SS l -> i <= j -> j < length l -> ltb (nth j l d) (nth i l d) = false.
  Proof.
    intros S. revert i j. induction S as [|x l S IH F]; intros i j Hij Hj; simpl in Hj; [lia|].
    destruct j as [|j].
    - assert (i = 0) by lia. subst. simpl. apply (swo_irrefl _ H).
    - destruct i as [|i]; simpl.
      + rewrite Forall_forall in F. apply F. apply nth_In. lia.
      + apply IH; lia.
  Qed.
End Merge.

Arguments SS {A} ltb l.
Arguments cross {A} ltb As Bs.
Arguments zip_app {A} As Bs.
