(** C06 — phases, footprints and schedule independence.

    Between two barriers every thread performs one "phase action": it reads some locations and
    produces a sequence of writes.  [phase_deterministic]: if no thread writes a location that another
    thread reads or writes in the same phase, then every interleaving of the threads' writes — with
    every thread reading, at arbitrary moments, whatever the other threads have or have not yet
    written — ends in the same memory as running the threads one after the other.
    [race_free_model]: the footprints of parallel_sort_mwms_pu satisfy that condition in every phase
    (the only non-trivial case is the merge phase, by [windows_partition]). *)
From Coq Require Import List Bool Arith Lia PeanoNat.
Import ListNotations.

(** * Generic part *)
Section Determinism.
  Variables L V : Type.
  Variable leqb : L -> L -> bool.
  Hypothesis leqb_spec : forall a b, leqb a b = true <-> a = b.

  Definition mem := L -> V.
  Definition upd (m : mem) (l : L) (v : V) : mem := fun x => if leqb x l then v else m x.
  Definition apply_writes (m : mem) (ws : list (L * V)) : mem :=
    fold_left (fun m lv => upd m (fst lv) (snd lv)) ws m.

  (** one thread's action in one phase *)
  Record action := {
    rd : L -> Prop;                      (* locations whose phase-initial value the thread may use *)
    wr : L -> Prop;                      (* locations the thread may write *)
    act : mem -> list (L * V);           (* the writes, in program order, as a function of what it read *)
    act_rd : forall m m', (forall l, rd l -> m l = m' l) -> act m = act m';
    act_wr : forall m l v, In (l, v) (act m) -> wr l
  }.

  Variable p : nat.
  Variable a : nat -> action.
  Variable m0 : mem.

  (** no write of one thread touches a location another thread reads or writes *)
  Definition race_free : Prop :=
    forall t u l, t < p -> u < p -> t <> u -> wr (a t) l -> ~ rd (a u) l /\ ~ wr (a u) l.

  Definition events := list (nat * (L * V)).
  Definition eproj (t : nat) (evs : events) : list (L * V) := map snd (filter (fun e => fst e =? t) evs).

  (** [evs] is an execution of the phase: the writes of thread t appear in program order and are
      those [act] computes from *some* memory that differs from the phase-initial one at most on
      locations written by other threads (= whatever mixture of old and new values t happened to see). *)
  Definition execution (evs : events) : Prop :=
    forall t, if t <? p
              then exists mt, (forall l, (forall u, u < p -> u <> t -> ~ wr (a u) l) -> mt l = m0 l) /\
                              eproj t evs = act (a t) mt
              else eproj t evs = [].

  Lemma apply_writes_app m w1 w2 : apply_writes m (w1 ++ w2) = apply_writes (apply_writes m w1) w2.
  Proof. unfold apply_writes. apply fold_left_app. Qed.

  (** only the writes to [l] matter for the final value at [l] *)
  Lemma apply_writes_filter l ws : forall m,
    apply_writes m ws l = apply_writes m (filter (fun lv => leqb (fst lv) l) ws) l.
  Proof.
    induction ws as [|[l' v] ws IH] using rev_ind; intros m; [reflexivity|].
    rewrite filter_app, !apply_writes_app. simpl. destruct (leqb l' l) eqn:E.
    - simpl. unfold upd. simpl. apply leqb_spec in E. subst l'.
      assert (leqb l l = true) as -> by now apply leqb_spec. reflexivity.
    - simpl. unfold upd at 1. simpl.
      assert (leqb l l' = false) as ->.
      { destruct (leqb l l') eqn:E'; [|reflexivity]. apply leqb_spec in E'. subst l'.
        assert (leqb l l = true) by now apply leqb_spec. congruence. }
      apply IH.
  Qed.

  Lemma filter_loc_none l (ws : list (L * V)) :
    (forall v, ~ In (l, v) ws) -> filter (fun lv => leqb (fst lv) l) ws = [].
  Proof.
    induction ws as [|[l' v] ws IH]; intros N; [reflexivity|]. simpl.
    destruct (leqb l' l) eqn:E.
    - apply leqb_spec in E. subst l'. exfalso. apply (N v). now left.
    - apply IH. intros v' Hv. apply (N v'). now right.
  Qed.

  Hypothesis RF : race_free.

  (** what every thread computes does not depend on when it read *)
  Lemma thread_writes_fixed evs t : execution evs -> t < p -> eproj t evs = act (a t) m0.
  Proof.
    intros Ex Ht. specialize (Ex t). replace (t <? p) with true in Ex by (symmetry; apply Nat.ltb_lt; exact Ht).
    destruct Ex as (mt & Hmt & ->). apply act_rd. intros l Hl. apply Hmt.
    intros u Hu Hne Hw. destruct (RF u t l Hu Ht Hne Hw) as [C _]. now apply C.
  Qed.

  Lemma filter_eproj l t (evs : events) :
    filter (fun lv => leqb (fst lv) l) (eproj t evs) =
    map snd (filter (fun e => (fst e =? t) && leqb (fst (snd e)) l) evs).
  Proof.
    unfold eproj. induction evs as [|[u [l' v]] evs IH]; [reflexivity|]. simpl.
    destruct (u =? t); simpl; [|exact IH]. destruct (leqb l' l); simpl; now rewrite IH.
  Qed.

  (** all events at a location written by thread t are t's *)
  Lemma events_at_loc evs t l : execution evs -> t < p -> wr (a t) l ->
    filter (fun lv => leqb (fst lv) l) (map snd evs) = filter (fun lv => leqb (fst lv) l) (eproj t evs).
  Proof.
    intros Ex Ht Hw. rewrite filter_eproj.
    assert (Own : forall e, In e evs -> leqb (fst (snd e)) l = true -> fst e = t).
    { intros [u [l' v]] He El. simpl in *. apply leqb_spec in El. subst l'.
      destruct (Nat.eq_dec u t) as [E|E]; [exact E|exfalso].
      assert (Hin : In (l, v) (eproj u evs)).
      { unfold eproj. apply in_map_iff. exists (u, (l, v)). split; [reflexivity|].
        apply filter_In. split; [exact He|]. simpl. apply Nat.eqb_refl. }
      destruct (Nat.lt_ge_cases u p) as [Hu|Hu].
      - rewrite (thread_writes_fixed evs u Ex Hu) in Hin. apply act_wr in Hin.
        destruct (RF t u l Ht Hu ltac:(congruence) Hw) as [_ C]. now apply C.
      - specialize (Ex u). replace (u <? p) with false in Ex by (symmetry; apply Nat.ltb_ge; exact Hu).
        rewrite Ex in Hin. destruct Hin. }
    clear Ex. induction evs as [|[u [l' v]] evs IH]; [reflexivity|]. simpl.
    destruct (leqb l' l) eqn:El; simpl.
    - assert (u = t) as -> by (apply (Own (u, (l', v))); [now left|exact El]). rewrite Nat.eqb_refl. simpl. f_equal.
      apply IH. intros e He. apply Own. now right.
    - rewrite andb_false_r. apply IH. intros e He. apply Own. now right.
  Qed.

  (** the reference execution: thread 0, then thread 1, ... *)
  Definition sequential : events :=
    flat_map (fun t => map (fun w => (t, w)) (act (a t) m0)) (seq 0 p).

  Lemma eproj_sequential t : eproj t sequential = if t <? p then act (a t) m0 else [].
  Proof.
    unfold sequential.
    assert (G : forall len b, eproj t (flat_map (fun t => map (fun w => (t, w)) (act (a t) m0)) (seq b len)) =
                              if (b <=? t) && (t <? b + len) then act (a t) m0 else []).
    { induction len as [|len IH]; intros b.
      - simpl. destruct (Nat.leb_spec b t), (Nat.ltb_spec t (b + 0)); simpl; try reflexivity; lia.
      - cbn [seq flat_map]. unfold eproj in *. rewrite filter_app, map_app, IH.
        assert (F : map snd (filter (fun e : nat * (L * V) => fst e =? t) (map (fun w => (b, w)) (act (a b) m0))) =
                    if b =? t then act (a b) m0 else []).
        { generalize (act (a b) m0). intros ws. induction ws as [|w ws IHw]; simpl; [now destruct (b =? t)|].
          destruct (b =? t); simpl; [now rewrite IHw|exact IHw]. }
        rewrite F. clear F. destruct (Nat.eqb_spec b t) as [E|Hne].
        + subst b. replace ((S t <=? t) && (t <? S t + len)) with false by (symmetry; apply andb_false_iff; left; apply Nat.leb_gt; lia).
          rewrite app_nil_r, Nat.leb_refl. simpl. now replace (t <? t + S len) with true by (symmetry; apply Nat.ltb_lt; lia).
        + cbn [app]. destruct (Nat.leb_spec b t) as [L1|L1], (Nat.leb_spec (S b) t) as [L2|L2]; try lia; cbn [andb].
          * destruct (Nat.ltb_spec t (S b + len)), (Nat.ltb_spec t (b + S len)); try reflexivity; lia.
          * reflexivity. }
    rewrite G. reflexivity.
  Qed.

  Lemma sequential_execution : execution sequential.
  Proof.
    intros t. rewrite eproj_sequential. destruct (t <? p); [|reflexivity]. exists m0. split; [reflexivity|reflexivity].
  Qed.

  Lemma not_written evs l : execution evs -> (forall t, t < p -> ~ wr (a t) l) ->
    filter (fun lv => leqb (fst lv) l) (map snd evs) = [].
  Proof.
    intros Ex N. apply filter_loc_none. intros v Hin. apply in_map_iff in Hin. destruct Hin as ([u w] & Hw & He).
    simpl in Hw. subst w.
    assert (Hin : In (l, v) (eproj u evs)).
    { unfold eproj. apply in_map_iff. exists (u, (l, v)). split; [reflexivity|].
      apply filter_In. split; [exact He|]. simpl. apply Nat.eqb_refl. }
    destruct (Nat.lt_ge_cases u p) as [Hu|Hu].
    - rewrite (thread_writes_fixed evs u Ex Hu) in Hin. apply act_wr in Hin. now apply (N u Hu).
    - specialize (Ex u). replace (u <? p) with false in Ex by (symmetry; apply Nat.ltb_ge; exact Hu).
      rewrite Ex in Hin. destruct Hin.
  Qed.

  (** Every execution ends in the memory of the sequential one. *)
  Theorem phase_deterministic evs :
    (forall l, (exists t, t < p /\ wr (a t) l) \/ (forall t, t < p -> ~ wr (a t) l)) ->
    execution evs ->
    forall l, apply_writes m0 (map snd evs) l = apply_writes m0 (map snd sequential) l.
  Proof.
    intros Dec Ex l. rewrite (apply_writes_filter l (map snd evs)), (apply_writes_filter l (map snd sequential)).
    destruct (Dec l) as [(t & Ht & Hw)|N].
    - rewrite (events_at_loc evs t l Ex Ht Hw), (events_at_loc sequential t l sequential_execution Ht Hw).
      now rewrite (thread_writes_fixed evs t Ex Ht), (thread_writes_fixed _ t sequential_execution Ht).
    - now rewrite (not_written evs l Ex N), (not_written _ l sequential_execution N).
  Qed.
End Determinism.

(** * The phases and footprints of parallel_sort_mwms_pu *)
Inductive loc : Type :=
| Src (i : nat)            (* the caller's range *)
| Tmp (t i : nat)          (* temporary[t][i] *)
| Smp (i : nat)            (* samples[i] *)
| PBeg (t s : nat)         (* pieces[t][s].begin *)
| PEnd (t s : nat).        (* pieces[t][s].end *)

Inductive phase : Type :=
| PhLocal      (* copy the run, sort it, (sampling) pick samples   — up to the first barrier *)
| PhSplit      (* exact: multisequence_partition, piece ends        — up to the second barrier *)
| PhMerge      (* piece begins (sampling: both bounds), multiway merge into the source — up to the last barrier *)
| PhRelease.   (* destroy + release the thread's own temporary *)

Section Footprints.
  Variable sampling : bool.
  Variables p ns : nat.
  Variable st : list nat.            (* run boundaries *)
  Variable w : list (nat * nat).     (* output windows (offset, length) *)

  Definition in_run (t i : nat) : Prop := nth t st 0 <= i < nth (S t) st 0.
  Definition in_window (t i : nat) : Prop := fst (nth t w (0, 0)) <= i < fst (nth t w (0, 0)) + snd (nth t w (0, 0)).

  Definition reads (ph : phase) (t : nat) (l : loc) : Prop :=
    match ph, l with
    | PhLocal, Src i => in_run t i
    | PhSplit, Tmp s i => sampling = false
    | PhMerge, Tmp s i => True
    | PhMerge, Smp i => sampling = true
    | PhMerge, PEnd u s => u = t \/ (sampling = false /\ S u = t)
    | PhMerge, PBeg u s => u = t
    | PhRelease, Tmp u i => u = t
    | _, _ => False
    end.

  Definition writes (ph : phase) (t : nat) (l : loc) : Prop :=
    match ph, l with
    | PhLocal, Tmp u i => u = t
    | PhLocal, Smp i => sampling = true /\ t * ns <= i < (t + 1) * ns
    | PhSplit, PEnd u s => sampling = false /\ u = t
    | PhMerge, PBeg u s => u = t
    | PhMerge, PEnd u s => sampling = true /\ u = t
    | PhMerge, Src i => in_window t i
    | PhRelease, Tmp u i => u = t
    | _, _ => False
    end.

  (** the windows are consecutive (conclusion of [PMSProofs.windows_partition]) *)
  Hypothesis Wcons : forall t, S t < p ->
    fst (nth t w (0, 0)) + snd (nth t w (0, 0)) = fst (nth (S t) w (0, 0)).

  Lemma window_mono t u : t < u -> u < p ->
    fst (nth t w (0, 0)) + snd (nth t w (0, 0)) <= fst (nth u w (0, 0)).
  Proof.
    intros Htu Hu. induction u as [|u IH]; [lia|].
    destruct (Nat.eq_dec t u) as [->|Hne].
    - rewrite (Wcons u) by lia. lia.
    - specialize (IH ltac:(lia) ltac:(lia)). pose proof (Wcons u ltac:(lia)) as W. lia.
  Qed.

  (** between two barriers, no location written by one thread is read or written by another *)
  Theorem race_free_model ph t u l : t < p -> u < p -> t <> u ->
    writes ph t l -> ~ reads ph u l /\ ~ writes ph u l.
  Proof.
    intros Ht Hu Hne Hw.
    destruct ph, l; simpl in *; try contradiction; (split; [intros R|intros W]); try contradiction; try lia; try tauto.
    - (* samples: disjoint index ranges *) destruct Hw as [_ Hw], W as [_ W]. nia.
    - (* merge windows *) unfold in_window in *.
      destruct (Nat.lt_ge_cases t u) as [L|G].
      + pose proof (window_mono t u L Hu). lia.
      + pose proof (window_mono u t ltac:(lia) Ht). lia.
    - (* exact: piece ends are written in the split phase only *) destruct R as [C|[C1 C2]]; [lia|]. destruct Hw as [Hs _]. congruence.
  Qed.
End Footprints.
