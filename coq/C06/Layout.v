(** C06 — index arithmetic of the model: the run boundaries [starts], [equally_split], slices,
    block writes. No ordering is involved here. *)
From Coq Require Import List Bool Arith Lia PeanoNat Sorting.Permutation.
From TLXV Require Import C06.PMS.
Import ListNotations.

(** * starts *)
Lemma starts_loop_length c s cnt : forall i start, length (starts_loop c s i cnt start) = S cnt.
Proof. induction cnt as [|cnt IH]; intros; simpl; [reflexivity|]. now rewrite IH. Qed.

Lemma starts_loop_nth c s cnt : forall i start k, k <= cnt ->
  nth k (starts_loop c s i cnt start) 0 = start + k * c + (Nat.min (i + k) s - Nat.min i s).
Proof.
  induction cnt as [|cnt IH]; intros i start k Hk.
  - assert (k = 0) by lia. subst. simpl. rewrite Nat.add_0_r. lia.
  - destruct k as [|k]; simpl.
    + rewrite Nat.add_0_r. lia.
    + rewrite IH by lia. destruct (Nat.ltb_spec i s); lia.
Qed.

Section Starts.
  Variables n p : nat.
  Hypothesis Hp : 1 <= p.

  Lemma starts_length : length (starts n p) = S p.
  Proof. apply starts_loop_length. Qed.

  Lemma starts_nth t : t <= p -> nth t (starts n p) 0 = t * (n / p) + Nat.min t (n mod p).
  Proof. intros Ht. unfold starts. rewrite starts_loop_nth by exact Ht. simpl. lia. Qed.

  Lemma starts_0 : nth 0 (starts n p) 0 = 0.
  Proof. rewrite starts_nth by lia. simpl. lia. Qed.

  Lemma starts_p : nth p (starts n p) 0 = n.
  Proof.
    rewrite starts_nth by lia.
    pose proof (Nat.mod_upper_bound n p ltac:(lia)) as M.
    pose proof (Nat.div_mod n p ltac:(lia)) as D. nia.
  Qed.

  Lemma run_len_eq t : t < p -> run_len (starts n p) t = n / p + (if t <? n mod p then 1 else 0).
  Proof.
    intros Ht. unfold run_len. rewrite !starts_nth by lia.
    destruct (Nat.ltb_spec t (n mod p)); lia.
  Qed.

  Lemma starts_step t : t < p -> nth (S t) (starts n p) 0 = nth t (starts n p) 0 + run_len (starts n p) t.
  Proof.
    intros Ht. rewrite run_len_eq by exact Ht. rewrite !starts_nth by lia.
    destruct (Nat.ltb_spec t (n mod p)); lia.
  Qed.

  Lemma starts_mono t : t < p -> nth t (starts n p) 0 <= nth (S t) (starts n p) 0.
  Proof. intros Ht. rewrite starts_step by exact Ht. lia. Qed.

  Lemma starts_mono_le t u : t <= u -> u <= p -> nth t (starts n p) 0 <= nth u (starts n p) 0.
  Proof.
    intros Htu Hu. rewrite !starts_nth by lia.
    assert (t * (n / p) <= u * (n / p)) by (apply Nat.mul_le_mono_r; lia). lia.
  Qed.

  Lemma starts_le_n t : t <= p -> nth t (starts n p) 0 <= n.
  Proof. intros Ht. rewrite <- starts_p at 2. now apply starts_mono_le. Qed.

  (** every run holds at least one element once the thread count is clamped to n *)
  Lemma run_len_pos t : p <= n -> t < p -> 1 <= run_len (starts n p) t.
  Proof.
    intros Hpn Ht. rewrite run_len_eq by exact Ht.
    assert (1 <= n / p) by (apply Nat.div_le_lower_bound; lia). lia.
  Qed.
End Starts.

Lemma clamp_threads_spec n p : 2 <= n -> 1 <= p -> 1 <= clamp_threads n p <= n /\ clamp_threads n p <= p.
Proof. intros Hn Hp. unfold clamp_threads. destruct (Nat.ltb_spec n p); lia. Qed.

(** * equally_split: every splitter but the last is a valid index of a non-empty range *)
Lemma es_loop_length n c s cnt : forall i start, length (es_loop n c s i cnt start) = S cnt.
Proof. induction cnt as [|cnt IH]; intros; simpl; [reflexivity|]. now rewrite IH. Qed.

Lemma es_loop_nth_lt n c s cnt : forall i start k, 1 <= n -> start <= n - 1 -> k < cnt ->
  nth k (es_loop n c s i cnt start) 0 <= n - 1.
Proof.
  induction cnt as [|cnt IH]; intros i start k Hn Hs Hk; [lia|].
  destruct k as [|k]; simpl; [exact Hs|].
  apply IH; [exact Hn| |lia].
  destruct (Nat.leb_spec n (start + (if i <? s then c + 1 else c))); lia.
Qed.

Lemma equally_split_inner n p k : 1 <= n -> k < p -> nth k (equally_split n p) 0 <= n - 1.
Proof. intros Hn Hk. unfold equally_split. apply es_loop_nth_lt; lia. Qed.

(** the samples of thread t are read inside thread t's own run *)
Lemma sample_positions_in_run n p ns t pos : 1 <= p -> p <= n -> t < p ->
  In pos (sample_positions (starts n p) ns t) ->
  nth t (starts n p) 0 <= pos < nth (S t) (starts n p) 0.
Proof.
  intros Hp Hpn Ht Hin. unfold sample_positions in Hin. apply in_map_iff in Hin.
  destruct Hin as (i & <- & Hi). apply in_seq in Hi.
  pose proof (run_len_pos n p Hp t Hpn Ht) as L.
  pose proof (equally_split_inner (run_len (starts n p) t) (ns + 1) (S i) L ltac:(lia)) as E.
  rewrite (starts_step n p Hp t Ht). lia.
Qed.

Lemma samples_of_length {A} (d : A) input st ns t : length (samples_of d input st ns t) = ns.
Proof. unfold samples_of, sample_positions. now rewrite !map_length, seq_length. Qed.

Lemma all_samples_length {A} (d : A) input st ns p : length (all_samples d input st ns p) = p * ns.
Proof.
  unfold all_samples. generalize 0 as b. induction p as [|p IH]; intros b; simpl; [reflexivity|].
  now rewrite app_length, samples_of_length, IH.
Qed.

(** * slices *)
Section Slices.
  Context {A : Type}.
  Implicit Types l : list A.

  Lemma firstn_add a k : forall l, firstn (a + k) l = firstn a l ++ firstn k (skipn a l).
  Proof.
    induction a as [|a IH]; intros l; [reflexivity|].
    destruct l as [|x l]; simpl; [now rewrite firstn_nil|]. now rewrite IH.
  Qed.

  Lemma firstn_slice l a b : a <= b -> firstn a l ++ slice l a b = firstn b l.
  Proof. intros Hab. unfold slice. rewrite <- firstn_add. f_equal. lia. Qed.

  Lemma slice_length l a b : b <= length l -> length (slice l a b) = b - a.
  Proof. intros Hb. unfold slice. rewrite firstn_length, skipn_length. lia. Qed.

  Lemma in_skipn x k l : In x (skipn k l) -> In x l.
  Proof. intros Hx. rewrite <- (firstn_skipn k l). apply in_or_app. now right. Qed.

  Lemma in_firstn x k l : In x (firstn k l) -> In x l.
  Proof. intros Hx. rewrite <- (firstn_skipn k l). apply in_or_app. now left. Qed.

  Lemma skipn_skipn' a : forall k l, skipn k (skipn a l) = skipn (a + k) l.
  Proof.
    induction a as [|a IH]; intros k l; [reflexivity|].
    destruct l as [|x l]; simpl; [now rewrite skipn_nil|apply IH].
  Qed.

  Lemma in_skipn_le x a a' l : a <= a' -> In x (skipn a' l) -> In x (skipn a l).
  Proof.
    intros Ha Hx. replace a' with (a + (a' - a)) in Hx by lia.
    rewrite <- skipn_skipn' in Hx. now apply in_skipn in Hx.
  Qed.

  Lemma in_firstn_le x b b' l : b <= b' -> In x (firstn b l) -> In x (firstn b' l).
  Proof.
    intros Hb Hx. replace (firstn b l) with (firstn b (firstn b' l)) in Hx.
    - now apply in_firstn in Hx.
    - rewrite firstn_firstn. f_equal. lia.
  Qed.

  Lemma in_slice_skipn x l a b : In x (slice l a b) -> In x (skipn a l).
  Proof. unfold slice. apply in_firstn. Qed.

  Lemma in_slice_firstn x l a b : a <= b -> In x (slice l a b) -> In x (firstn b l).
  Proof. intros Hab Hx. rewrite <- (firstn_slice l a b Hab). apply in_or_app. now right. Qed.

  Lemma slice_0_all l : slice l 0 (length l) = l.
  Proof. unfold slice. simpl. rewrite Nat.sub_0_r. apply firstn_all. Qed.

  (** consecutive slices at monotone cut points tile the prefix *)
  Lemma concat_slices l (c : nat -> nat) k :
    c 0 = 0 -> (forall t, t < k -> c t <= c (S t)) ->
    concat (map (fun t => slice l (c t) (c (S t))) (seq 0 k)) = firstn (c k) l.
  Proof.
    intros H0 Hm. induction k as [|k IH].
    - simpl. now rewrite H0.
    - rewrite seq_S, map_app, concat_app, IH by (intros; apply Hm; lia).
      simpl. rewrite app_nil_r. apply firstn_slice. apply Hm. lia.
  Qed.

  (** * block writes *)
  Lemma write_at_length off (vals arr : list A) : length (write_at off vals arr) = length arr.
  Proof.
    revert off vals. induction arr as [|x arr IH]; intros off vals; [now destruct off|].
    destruct off as [|off]; simpl; [|now rewrite IH].
    destruct vals as [|v vs]; simpl; [reflexivity|]. now rewrite IH.
  Qed.

  Lemma write_at_0 (vals arr : list A) : length vals <= length arr ->
    write_at 0 vals arr = vals ++ skipn (length vals) arr.
  Proof.
    revert arr. induction vals as [|v vs IH]; intros arr Hl.
    - destruct arr; reflexivity.
    - destruct arr as [|x arr]; simpl in *; [lia|]. rewrite IH by lia. reflexivity.
  Qed.

  Lemma write_at_spec off (vals arr : list A) : off + length vals <= length arr ->
    write_at off vals arr = firstn off arr ++ vals ++ skipn (off + length vals) arr.
  Proof.
    revert arr. induction off as [|off IH]; intros arr Hl.
    - now apply write_at_0.
    - destruct arr as [|x arr]; simpl in *; [lia|]. rewrite IH by lia. reflexivity.
  Qed.

  Lemma write_at_pre (pre : list A) : forall off vals rest, off = length pre ->
    write_at off vals (pre ++ rest) = pre ++ write_at 0 vals rest.
  Proof.
    induction pre as [|x pre IH]; intros off vals rest ->; [reflexivity|].
    simpl. now rewrite IH.
  Qed.

  Lemma write_at_0_exact (vals : list A) : forall m rest, length m = length vals ->
    write_at 0 vals (m ++ rest) = vals ++ rest.
  Proof.
    induction vals as [|v vs IH]; intros m rest Hl.
    - destruct m; [|discriminate]. destruct rest; reflexivity.
    - destruct m as [|x m]; [discriminate|]. simpl. rewrite IH; [reflexivity|]. simpl in Hl. lia.
  Qed.

  (** writing consecutive blocks one after the other, in thread order, yields their concatenation *)
  Lemma write_blocks (blocks : list (list A)) : forall (offs : list nat) (pre mid suf : list A),
    length offs = length blocks ->
    (forall t, t < length blocks -> nth t offs 0 = length pre + length (concat (firstn t blocks))) ->
    length mid = length (concat blocks) ->
    fold_left (fun a ow => write_at (fst ow) (snd ow) a) (combine offs blocks) (pre ++ mid ++ suf) =
    pre ++ concat blocks ++ suf.
  Proof.
    induction blocks as [|b bs IH]; intros offs pre mid suf Hl Ho Hm.
    - destruct offs; [|discriminate]. destruct mid; [|discriminate]. reflexivity.
    - destruct offs as [|o offs]; [discriminate|]. simpl in Hl. simpl combine. simpl fold_left.
      assert (o = length pre) as -> by (specialize (Ho 0 ltac:(simpl; lia)); simpl in Ho; lia).
      simpl concat in *. rewrite app_length in Hm.
      rewrite <- (firstn_skipn (length b) mid).
      rewrite write_at_pre by reflexivity.
      rewrite <- app_assoc. rewrite write_at_0_exact by (rewrite firstn_length; lia).
      replace (pre ++ b ++ skipn (length b) mid ++ suf) with ((pre ++ b) ++ skipn (length b) mid ++ suf)
        by now rewrite <- app_assoc.
      rewrite IH.
      + now rewrite <- !app_assoc.
      + lia.
      + intros t Ht. specialize (Ho (S t) ltac:(simpl; lia)). simpl in Ho.
        rewrite !app_length in *. lia.
      + rewrite skipn_length. lia.
  Qed.
End Slices.

(** sums *)
Lemma sum_app l1 l2 : PMS.sum (l1 ++ l2) = PMS.sum l1 + PMS.sum l2.
Proof. induction l1 as [|x l1 IH]; simpl; [reflexivity|]. rewrite IH. lia. Qed.

Lemma sum_map_const0 {B} (l : list B) : PMS.sum (map (fun _ => 0) l) = 0.
Proof. induction l; simpl; auto. Qed.

Lemma length_concat {A} (ls : list (list A)) : length (concat ls) = PMS.sum (map (@length A) ls).
Proof. induction ls as [|l r IH]; simpl; [reflexivity|]. now rewrite app_length, IH. Qed.

(** if one coordinate is larger but the sum is not, another coordinate is smaller *)
Lemma pointwise_or_witness : forall c1 c2 : list nat, length c1 = length c2 ->
  (forall j, nth j c2 0 <= nth j c1 0) \/ (exists j, nth j c1 0 < nth j c2 0).
Proof.
  induction c1 as [|x c1 IH]; intros [|y c2] L; simpl in *; try discriminate.
  - left. intros j. destruct j; lia.
  - destruct (Nat.lt_ge_cases x y) as [Hxy|Hxy]; [right; exists 0; exact Hxy|].
    destruct (IH c2 ltac:(lia)) as [F|(j & Hj)].
    + left. intros [|j]; [exact Hxy|apply F].
    + right. exists (S j). exact Hj.
Qed.

Lemma sum_pointwise_lt : forall c1 c2 : list nat, length c1 = length c2 ->
  (forall j, nth j c2 0 <= nth j c1 0) -> (exists i, nth i c2 0 < nth i c1 0) -> PMS.sum c2 < PMS.sum c1.
Proof.
  induction c1 as [|x c1 IH]; intros [|y c2] L F (i & Hi); simpl in *; try discriminate.
  - destruct i; lia.
  - pose proof (F 0) as F0. simpl in F0.
    assert (Fs : forall j, nth j c2 0 <= nth j c1 0) by (intros j; apply (F (S j))).
    destruct i as [|i].
    + assert (PMS.sum c2 <= PMS.sum c1); [|lia].
      clear - L Fs. revert c2 L Fs. induction c1 as [|a c1 IH]; intros [|b c2] L Fs; simpl in *; try discriminate; [lia|].
      pose proof (Fs 0). simpl in *. assert (PMS.sum c2 <= PMS.sum c1); [|lia].
      apply IH; [lia|]. intros j. apply (Fs (S j)).
    + assert (PMS.sum c2 < PMS.sum c1); [|lia]. apply IH; [lia|exact Fs|exists i; exact Hi].
Qed.

Lemma sum_le_witness : forall c1 c2, length c1 = length c2 -> PMS.sum c1 <= PMS.sum c2 ->
  (exists i, nth i c2 0 < nth i c1 0) -> exists j, nth j c1 0 < nth j c2 0.
Proof.
  intros c1 c2 L S E. destruct (pointwise_or_witness c1 c2 L) as [F|W]; [|exact W].
  pose proof (sum_pointwise_lt c1 c2 L F E). lia.
Qed.
