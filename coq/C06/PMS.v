(** C06 — executable model of tlx/sort/parallel_mergesort.hpp (parallel multiway mergesort).

    The model follows [parallel_mergesort_base] and [parallel_sort_mwms_pu] line by line:
      - n <= 1: nothing happens; the thread count is clamped to n;
      - [starts]: the n/p, n%p split of the input into one run per thread (hpp:309-318);
      - every thread copies its run into raw storage ([uninitialized_copy]) and sorts it there with
        std::sort / std::stable_sort (hpp:139-152)                     -> [temporaries];
      - MWMSA_SAMPLING (hpp:157-190): [determine_samples] ([equally_split] with its n-1 clamp, the
        samples are read from the *source* range), the barrier whose lambda sorts all samples,
        per-sequence [lower_bound] pieces;
      - MWMSA_EXACT (hpp:191-232): [multisequence_partition] at global rank starts[iam+1] for every
        thread but the last, piece ends, a barrier, piece begins = previous thread's ends;
      - offset / length_am (hpp:235-240), the multiway merge of the thread's pieces written directly
        into the source range at [offset] (hpp:244-254), the final barrier and the release of the
        temporary storage (hpp:256-258).
    The local sort, the sort of the samples, the partition and the sequential multiway merge are
    parameters of the model (they belong to std:: resp. to properties C08 and C05); [PMSProofs.v]
    states what is assumed about them, and below they are instantiated by reference implementations
    of their specifications for extraction. *)
From Coq Require Import List Bool Arith Lia PeanoNat NArith.
Import ListNotations.

Set Implicit Arguments.

(** * Sequential building blocks (specifications of the std:: algorithms and of C05 / C08) *)
Section Blocks.
  Variable A : Type.
  Variable ltb : A -> A -> bool.

  (** binary stable merge: take from the left run unless the head of the right run is smaller *)
  Fixpoint merge2 (l1 : list A) : list A -> list A :=
    fix aux (l2 : list A) : list A :=
      match l1, l2 with
      | [], _ => l2
      | _, [] => l1
      | a1 :: l1', a2 :: l2' => if ltb a2 a1 then a2 :: aux l2' else a1 :: merge2 l1' l2
      end.

  (** stable multiway merge of the sequences, earlier sequences win ties (= C05's [smerge]) *)
  Definition smerge (seqs : list (list A)) : list A := fold_right merge2 [] seqs.

  (** std::stable_sort by its specification: the stable sorted arrangement *)
  Definition stable_sort (l : list A) : list A := fold_right (fun x acc => merge2 [x] acc) [] l.

  (** std::lower_bound on a range partitioned w.r.t. [x < v]: index of the first element that is
      not less than v *)
  Fixpoint lower_bound (l : list A) (v : A) : nat :=
    match l with
    | [] => 0
    | x :: r => if ltb x v then S (lower_bound r v) else 0
    end.
End Blocks.

(** [multisequence_partition] by its specification (C08 [split_spec]): tag every element with the
    index of its sequence, merge stably (ties go to the earlier sequence), count per sequence among
    the first [r] elements. *)
Section SplitSpec.
  Variable A : Type.
  Variable ltb : A -> A -> bool.

  Definition ltb_tag (x y : A * nat) : bool :=
    ltb (fst x) (fst y) || (negb (ltb (fst y) (fst x)) && (snd x <? snd y)).

  Fixpoint tag_from (s : nat) (seqs : list (list A)) : list (list (A * nat)) :=
    match seqs with
    | [] => []
    | l :: r => map (fun x => (x, s)) l :: tag_from (S s) r
    end.

  Definition tagged_merge (seqs : list (list A)) : list (A * nat) := smerge ltb_tag (tag_from 0 seqs).

  Definition count_tag (s : nat) (l : list (A * nat)) : nat :=
    length (filter (fun x => snd x =? s) l).

  Definition split_spec (seqs : list (list A)) (r : nat) : list nat :=
    let left := firstn r (tagged_merge seqs) in
    map (fun s => count_tag s left) (seq 0 (length seqs)).
End SplitSpec.

(** * The parallel mergesort *)
Section Model.
  Variable A : Type.
  Variable ltb : A -> A -> bool.
  Variable lsort : list A -> list A.                        (* std::sort / std::stable_sort of a run *)
  Variable ssort : list A -> list A.                        (* std::sort of the samples (barrier lambda) *)
  Variable partition : list (list A) -> nat -> list nat.    (* multisequence_partition, as offsets *)
  Variable mmerge : list (list A) -> list A.                (* multiway_merge_base<Stable,false>, full length *)
  Variable d : A.                                           (* value of an out-of-range read (never used, see proofs) *)

  (** hpp:293-294 *)
  Definition clamp_threads (n p : nat) : nat := if n <? p then n else p.

  (** hpp:311-318: starts[0..p] *)
  Fixpoint starts_loop (chunk split i cnt start : nat) : list nat :=
    match cnt with
    | 0 => [start]
    | S c => start :: starts_loop chunk split (S i) c (start + (if i <? split then chunk + 1 else chunk))
    end.
  Definition starts (n p : nat) : list nat := starts_loop (n / p) (n mod p) 0 p 0.

  Definition slice (l : list A) (a b : nat) : list A := firstn (b - a) (skipn a l).
  Definition run_len (st : list nat) (t : nat) : nat := nth (S t) st 0 - nth t st 0.

  (** hpp:139-152: the sorted copy of run t *)
  Definition temporary (input : list A) (st : list nat) (t : nat) : list A :=
    lsort (slice input (nth t st 0) (nth (S t) st 0)).
  Definition temporaries (input : list A) (st : list nat) (p : nat) : list (list A) :=
    map (temporary input st) (seq 0 p).

  (** multiway_merge_splitting.hpp equally_split(n, p, s): p+1 splitters, [start] clamped to n-1 *)
  Fixpoint es_loop (n chunk split i cnt start : nat) : list nat :=
    match cnt with
    | 0 => [n]
    | S c => start ::
             (let s' := start + (if i <? split then chunk + 1 else chunk) in
              es_loop n chunk split (S i) c (if n <=? s' then n - 1 else s'))
    end.
  Definition equally_split (n p : nat) : list nat := es_loop n (n / p) (n mod p) 0 p 0.

  (** hpp:99: num_samples = oversampling * num_threads - 1 *)
  Definition num_samples (os p : nat) : nat := os * p - 1.

  (** hpp:95-111 determine_samples: positions (in the source) and values of thread t's samples *)
  Definition sample_positions (st : list nat) (ns t : nat) : list nat :=
    let es := equally_split (run_len st t) (ns + 1) in
    map (fun i => nth t st 0 + nth (S i) es 0) (seq 0 ns).
  Definition samples_of (input : list A) (st : list nat) (ns t : nat) : list A :=
    map (fun pos => nth pos input d) (sample_positions st ns t).
  Definition all_samples (input : list A) (st : list nat) (ns p : nat) : list A :=
    flat_map (samples_of input st ns) (seq 0 p).

  (** hpp:165-189: pieces[t][s] for sampling splitting; [ss] = the sorted samples *)
  Definition sampling_begin (temps : list (list A)) (ss : list A) (ns p t : nat) : list nat :=
    map (fun s => if 0 <? ns * t then lower_bound ltb (nth s temps []) (nth (ns * t) ss d) else 0) (seq 0 p).
  Definition sampling_end (temps : list (list A)) (st : list nat) (ss : list A) (ns p t : nat) : list nat :=
    map (fun s => if ns * (t + 1) <? ns * p
                  then lower_bound ltb (nth s temps []) (nth (ns * (t + 1)) ss d)
                  else run_len st s) (seq 0 p).

  (** hpp:203-231: pieces[t][s] for exact splitting *)
  Definition exact_end (temps : list (list A)) (st : list nat) (p t : nat) : list nat :=
    if t <? p - 1 then partition temps (nth (S t) st 0)
    else map (run_len st) (seq 0 p).
  Definition exact_begin (temps : list (list A)) (st : list nat) (p t : nat) : list nat :=
    if 0 <? t then exact_end temps st p (t - 1) else map (fun _ => 0) (seq 0 p).

  Record pieces := { pbegin : list nat; pend : list nat }.

  (** hpp:162-163: the samples after the barrier whose lambda sorted them (computed once, by the last
      thread to arrive) *)
  Definition sorted_samples (os : nat) (input : list A) (st : list nat) (p : nat) : list A :=
    ssort (all_samples input st (num_samples os p) p).

  Definition thread_pieces (sampling : bool) (os : nat) (st : list nat)
             (temps : list (list A)) (ss : list A) (p t : nat) : pieces :=
    if sampling then
      let ns := num_samples os p in
      {| pbegin := sampling_begin temps ss ns p t; pend := sampling_end temps st ss ns p t |}
    else
      {| pbegin := exact_begin temps st p t; pend := exact_end temps st p t |}.

  Definition sum (l : list nat) : nat := fold_right Nat.add 0 l.

  (** hpp:235-240 *)
  Definition offset_of (pc : pieces) : nat := sum (pbegin pc).
  Definition length_am (pc : pieces) : nat :=
    sum (map (fun be => snd be - fst be) (combine (pbegin pc) (pend pc))).

  (** hpp:247-251 *)
  Definition piece_seqs (temps : list (list A)) (pc : pieces) : list (list A) :=
    map (fun x => slice (fst x) (fst (snd x)) (snd (snd x))) (combine temps (combine (pbegin pc) (pend pc))).

  (** hpp:253-254: the values thread t writes to source + offset *)
  Definition thread_out (temps : list (list A)) (pc : pieces) : list A := mmerge (piece_seqs temps pc).

  (** writing a block into the array; positions past the end of the array are dropped here and
      reported by [pieces_ok] / [windows_ok] (the real code would overflow the heap buffer) *)
  Fixpoint write_at (off : nat) (vals arr : list A) : list A :=
    match off, arr with
    | _, [] => []
    | S o, x :: r => x :: write_at o vals r
    | 0, x :: r => match vals with [] => arr | v :: vs => v :: write_at 0 vs r end
    end.

  (** Sanity of one thread's pieces: 0 <= begin <= end <= length of the sequence (a negative-length
      piece or a piece past the end of a temporary = undefined behaviour in the real code). *)
  Definition pieces_ok (temps : list (list A)) (pc : pieces) : bool :=
    (length (pbegin pc) =? length temps) && (length (pend pc) =? length temps) &&
    forallb (fun x => (fst (snd x) <=? snd (snd x)) && (snd (snd x) <=? length (fst x)))
            (combine temps (combine (pbegin pc) (pend pc))).

  Record result := { res_array : list A; res_windows : list (nat * nat); res_ok : bool }.

  Definition pms (sampling : bool) (os p : nat) (input : list A) : result :=
    let n := length input in
    if n <=? 1 then {| res_array := input; res_windows := []; res_ok := true |} else
    let p := clamp_threads n p in
    let st := starts n p in
    let temps := temporaries input st p in
    let ss := if sampling then sorted_samples os input st p else [] in
    let pcs := map (thread_pieces sampling os st temps ss p) (seq 0 p) in
    let outs := map (thread_out temps) pcs in
    let wins := map (fun pc => (offset_of pc, length_am pc)) pcs in
    {| res_array := fold_left (fun arr ow => write_at (fst ow) (snd ow) arr)
                              (combine (map offset_of pcs) outs) input;
       res_windows := wins;
       res_ok := forallb (pieces_ok temps) pcs &&
                 forallb (fun w => fst w + snd w <=? n) wins |}.

End Model.

(** * The temporaries ledger (hpp:139-145 and 256-258)
    [fixed = true]: the behaviour after fixes/C06/01-destroy-temporaries.patch (elements destroyed
    before the storage is released); [fixed = false]: the code as shipped. *)
Inductive tev : Type :=
| TAlloc (t cap : nat)        (* ::operator new(sizeof(ValueType) * (length_local + 1)) *)
| TConstruct (t i : nat)      (* uninitialized_copy constructs temporary[t][i] *)
| TDestroy (t i : nat)        (* destructor of temporary[t][i] *)
| TFree (t : nat).            (* operator delete(temporary[t]) *)

Definition thread_events (fixed : bool) (st : list nat) (t : nat) : list tev :=
  let len := run_len st t in
  TAlloc t (len + 1) :: map (TConstruct t) (seq 0 len)
    ++ (if fixed then map (TDestroy t) (seq 0 len) else []) ++ [TFree t].

Definition tev_thread (e : tev) : nat :=
  match e with TAlloc t _ => t | TConstruct t _ => t | TDestroy t _ => t | TFree t => t end.

(** Ledger state: allocated blocks (thread, capacity), live objects (thread, index), error flag. *)
Record ledger := { blocks : list (nat * nat); live : list (nat * nat); lerr : bool }.
Definition ledger0 : ledger := {| blocks := []; live := []; lerr := false |}.

Definition pair_eqb (a b : nat * nat) : bool := (fst a =? fst b) && (snd a =? snd b).
Definition mem_pair (a : nat * nat) (l : list (nat * nat)) : bool := existsb (pair_eqb a) l.
Definition remove_pair (a : nat * nat) (l : list (nat * nat)) : list (nat * nat) :=
  filter (fun b => negb (pair_eqb a b)) l.
Definition block_cap (t : nat) (bl : list (nat * nat)) : option nat :=
  match filter (fun b => fst b =? t) bl with [] => None | b :: _ => Some (snd b) end.

Definition ledger_step (L : ledger) (e : tev) : ledger :=
  match e with
  | TAlloc t cap =>
      match block_cap t (blocks L) with
      | Some _ => {| blocks := blocks L; live := live L; lerr := true |}
      | None => {| blocks := (t, cap) :: blocks L; live := live L; lerr := lerr L |}
      end
  | TConstruct t i =>
      match block_cap t (blocks L) with
      | Some cap => if (i <? cap) && negb (mem_pair (t, i) (live L))
                    then {| blocks := blocks L; live := (t, i) :: live L; lerr := lerr L |}
                    else {| blocks := blocks L; live := live L; lerr := true |}
      | None => {| blocks := blocks L; live := live L; lerr := true |}
      end
  | TDestroy t i =>
      if mem_pair (t, i) (live L)
      then {| blocks := blocks L; live := remove_pair (t, i) (live L); lerr := lerr L |}
      else {| blocks := blocks L; live := live L; lerr := true |}
  | TFree t =>
      match block_cap t (blocks L) with
      | Some _ => {| blocks := filter (fun b => negb (fst b =? t)) (blocks L); live := live L; lerr := lerr L |}
      | None => {| blocks := blocks L; live := live L; lerr := true |}
      end
  end.

Definition ledger_run (evs : list tev) : ledger := fold_left ledger_step evs ledger0.

(** Objects still alive when the sort returns, under the sequential schedule (thread 0 first). *)
Definition temporaries_live_after (fixed : bool) (n p : nat) : nat :=
  if n <=? 1 then 0 else
  let p := clamp_threads n p in
  length (live (ledger_run (flat_map (thread_events fixed (starts n p)) (seq 0 p)))).

(** * Instance used for extraction and for the correspondence run: elements are (key, original index),
    compared by key only ([rev] = std::greater). *)
Definition kv := (N * nat)%type.
Definition kv_ltb (rev : bool) (a b : kv) : bool := if rev then N.ltb (fst b) (fst a) else N.ltb (fst a) (fst b).

Definition pms_ref (rev sampling : bool) (os p : nat) (input : list kv) : result kv :=
  pms (kv_ltb rev) (stable_sort (kv_ltb rev)) (stable_sort (kv_ltb rev))
      (split_spec (kv_ltb rev)) (smerge (kv_ltb rev)) (0%N, 0) sampling os p input.

Definition index_input (keys : list N) : list kv := combine keys (seq 0 (length keys)).
Definition stable_sort_ref (rev : bool) (input : list kv) : list kv := stable_sort (kv_ltb rev) input.
