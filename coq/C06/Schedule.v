(** C06 — the footprint and determinism theorems of Sched.v instantiated with the model [PMS.pms]:
    the phases of parallel_mergesort are race free for every input / thread count / splitting, and the
    merge phase (every thread writing its merged block element by element into the caller's range)
    ends in the same array under every interleaving. *)
From Coq Require Import List Bool Arith Lia PeanoNat Sorting.Permutation.
From TLXV Require Import Common.Order C06.PMS C06.MergeLemmas C06.Layout C06.Cuts C06.PMSProofs C06.Top C06.Sched.
Import ListNotations.

Section Schedule.
  Context {A : Type}.
  Variable ltb : A -> A -> bool.
  Hypothesis H : SWO ltb.
  Variables lsort ssort : list A -> list A.
  Variable partition : list (list A) -> nat -> list nat.
  Variable mmerge : list (list A) -> list A.
  Variable d : A.
  Hypothesis Hlsort : sorts ltb lsort.
  Hypothesis Hssort : sorts ltb ssort.
  Hypothesis Hpart : partitions ltb partition.
  Hypothesis Hmerge : merges ltb mmerge.

  Variable sampling : bool.
  Variables os p0 : nat.
  Hypothesis Hos : sampling = true -> 1 <= os.
  Hypothesis Hp0 : 1 <= p0.
  Variable input : list A.
  Hypothesis Hn : 2 <= length input.

  Let n := length input.
  Let p := clamp_threads n p0.
  Let r := pms ltb lsort ssort partition mmerge d sampling os p0 input.
  Let w := res_windows r.

  Lemma windows_consecutive t : S t < p -> fst (nth t w (0, 0)) + snd (nth t w (0, 0)) = fst (nth (S t) w (0, 0)).
  Proof.
    intros Ht.
    destruct (pms_windows_partition ltb H lsort ssort partition mmerge d Hlsort Hssort Hpart Hmerge sampling os p0 input Hos Hp0 Hn)
      as (_ & _ & W).
    fold n p r w in W. specialize (W t ltac:(lia)).
    now replace (S t <? p) with true in W by (symmetry; apply Nat.ltb_lt; exact Ht).
  Qed.

  (** race_free_model: in every phase (local sort [+ sampling], exact split, merge, release), no
      location written by one of the p threads is read or written by another one. *)
  Theorem pms_race_free ph t u l : t < p -> u < p -> t <> u ->
    writes sampling (num_samples os p) w ph t l ->
    ~ reads sampling (starts n p) ph u l /\ ~ writes sampling (num_samples os p) w ph u l.
  Proof. apply race_free_model. exact windows_consecutive. Qed.

  (** The merge phase as a set of per-thread write sequences into the caller's range. *)
  Variable outs : nat -> list A.       (* what thread t merged (any values: determinism does not depend on them) *)

  Definition merge_action (t : nat) : action nat A.
  Proof.
    refine {| rd := fun _ => False;
              wr := in_window w t;
              act := fun _ => combine (seq (fst (nth t w (0, 0))) (Nat.min (length (outs t)) (snd (nth t w (0, 0)))))
                                      (outs t) |}.
    - reflexivity.
    - intros _ l v Hin. apply in_combine_l in Hin. apply in_seq in Hin. unfold in_window. clear - Hin. lia.
  Defined.

  Lemma merge_race_free : race_free nat A p merge_action.
  Proof.
    intros t u l Ht Hu Hne Hw. split; [intros []|]. simpl in *.
    destruct (pms_race_free PhMerge t u (Src l) Ht Hu Hne Hw) as [_ C]. exact C.
  Qed.

  Lemma window_dec l : (exists t, t < p /\ in_window w t l) \/ (forall t, t < p -> ~ in_window w t l).
  Proof.
    induction p as [|k IH]; [right; intros t Ht; lia|].
    destruct IH as [(t & Ht & Hw)|N]; [left; exists t; split; [lia|exact Hw]|].
    unfold in_window in *.
    destruct (le_lt_dec (fst (nth k w (0, 0))) l) as [L1|L1];
      [destruct (le_lt_dec (fst (nth k w (0, 0)) + snd (nth k w (0, 0))) l) as [L2|L2]|].
    - right. intros t Ht. destruct (Nat.eq_dec t k) as [->|E]; [lia|apply N; lia].
    - left. exists k. split; [lia|lia].
    - right. intros t Ht. destruct (Nat.eq_dec t k) as [->|E]; [lia|apply N; lia].
  Qed.

  (** result independent of schedule: whatever the interleaving of the threads' element writes, the
      array ends as if thread 0, thread 1, ... had run one after the other (the order [PMS.pms]
      uses). *)
  Theorem merge_phase_schedule_independent (m0 : nat -> A) evs :
    execution nat A p merge_action m0 evs ->
    forall i, apply_writes nat A Nat.eqb m0 (map snd evs) i =
              apply_writes nat A Nat.eqb m0 (map snd (sequential nat A p merge_action m0)) i.
  Proof.
    intros Ex. apply (phase_deterministic nat A Nat.eqb Nat.eqb_eq p merge_action m0 merge_race_free).
    - exact window_dec.
    - exact Ex.
  Qed.
End Schedule.
