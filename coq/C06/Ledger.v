(** C06 — the temporaries ledger: under every interleaving of the threads' allocation / construction /
    destruction / release events, every temporary copy is destroyed (exactly once, inside its live
    storage) and every block released when the sort returns — for the repaired code; the shipped
    code leaves every copy alive. *)
From Coq Require Import List Bool Arith Lia PeanoNat.
From TLXV Require Import C06.PMS C06.Layout.
Import ListNotations.

(** ** list-as-set helpers *)
Lemma pair_eqb_eq a b : pair_eqb a b = true <-> a = b.
Proof.
  unfold pair_eqb. rewrite andb_true_iff, !Nat.eqb_eq. destruct a, b; simpl. split; [intros [-> ->]; reflexivity|].
  intros E. inversion E. auto.
Qed.

Lemma mem_pair_In a l : mem_pair a l = true <-> In a l.
Proof.
  unfold mem_pair. rewrite existsb_exists. split.
  - intros (x & Hx & E). apply pair_eqb_eq in E. now subst.
  - intros Ha. exists a. split; [exact Ha|now apply pair_eqb_eq].
Qed.

Lemma mem_pair_false a l : mem_pair a l = false <-> ~ In a l.
Proof. rewrite <- mem_pair_In. destruct (mem_pair a l); intuition congruence. Qed.

Lemma In_remove_pair x a l : In x (remove_pair a l) <-> In x l /\ x <> a.
Proof.
  unfold remove_pair. rewrite filter_In, negb_true_iff. split; intros [I E]; split; auto.
  - intros ->. assert (pair_eqb a a = true) by now apply pair_eqb_eq. congruence.
  - destruct (pair_eqb a x) eqn:P; [|reflexivity]. apply pair_eqb_eq in P. congruence.
Qed.

Definition on (t : nat) (x : nat * nat) : bool := fst x =? t.

Lemma filter_on_idem t (l : list (nat * nat)) : filter (on t) (filter (on t) l) = filter (on t) l.
Proof. induction l as [|x l IH]; simpl; [reflexivity|]. destruct (on t x) eqn:E; simpl; [now rewrite E, IH|exact IH]. Qed.

Lemma block_cap_filter t bl : block_cap t (filter (on t) bl) = block_cap t bl.
Proof.
  unfold block_cap. change (fun b : nat * nat => fst b =? t) with (on t). now rewrite filter_on_idem.
Qed.

Lemma mem_pair_filter t i l : mem_pair (t, i) (filter (on t) l) = mem_pair (t, i) l.
Proof.
  induction l as [|x l IH]; simpl; [reflexivity|]. unfold on at 1.
  destruct (fst x =? t) eqn:E; simpl; [now rewrite IH|]. rewrite IH.
  destruct (pair_eqb (t, i) x) eqn:P; [|reflexivity]. apply pair_eqb_eq in P. subst x. simpl in E.
  rewrite Nat.eqb_refl in E. discriminate.
Qed.

Lemma filter_on_remove_same t i l : filter (on t) (remove_pair (t, i) l) = remove_pair (t, i) (filter (on t) l).
Proof.
  unfold remove_pair. induction l as [|x l IH]; simpl; [reflexivity|].
  destruct (pair_eqb (t, i) x) eqn:P; unfold on at 2; simpl.
  - apply pair_eqb_eq in P. subst x. simpl. rewrite Nat.eqb_refl. simpl.
    assert (pair_eqb (t, i) (t, i) = true) as -> by now apply pair_eqb_eq. exact IH.
  - unfold on at 1. destruct (fst x =? t); simpl; [rewrite P; simpl; now rewrite IH|exact IH].
Qed.

Lemma filter_on_remove_other t u i l : u <> t -> filter (on t) (remove_pair (u, i) l) = filter (on t) l.
Proof.
  intros Hne. unfold remove_pair. induction l as [|x l IH]; simpl; [reflexivity|].
  destruct (pair_eqb (u, i) x) eqn:P; simpl.
  - apply pair_eqb_eq in P. subst x. unfold on at 2. simpl.
    replace (u =? t) with false by (symmetry; apply Nat.eqb_neq; exact Hne). exact IH.
  - now rewrite IH.
Qed.

Lemma filter_on_drop_same t bl : filter (on t) (filter (fun b => negb (fst b =? t)) bl) = [].
Proof.
  induction bl as [|b bl IH]; simpl; [reflexivity|].
  destruct (fst b =? t) eqn:E; simpl; [exact IH|]. unfold on at 1. now rewrite E.
Qed.

Lemma filter_drop_on_same t bl : filter (fun b => negb (fst b =? t)) (filter (on t) bl) = [].
Proof.
  induction bl as [|b bl IH]; simpl; [reflexivity|]. unfold on at 1.
  destruct (fst b =? t) eqn:E; simpl; [now rewrite E|exact IH].
Qed.

Lemma filter_on_drop_other t u bl : u <> t -> filter (on t) (filter (fun b => negb (fst b =? u)) bl) = filter (on t) bl.
Proof.
  intros Hne. induction bl as [|b bl IH]; simpl; [reflexivity|].
  destruct (fst b =? u) eqn:E; simpl.
  - unfold on at 2. apply Nat.eqb_eq in E. rewrite E.
    replace (u =? t) with false by (symmetry; apply Nat.eqb_neq; exact Hne). exact IH.
  - now rewrite IH.
Qed.

(** ** the ledger seen by one thread *)
(** [Lt] is what thread t alone would have produced; [L] is the global ledger. *)
Definition agrees (t : nat) (L Lt : ledger) : Prop :=
  filter (on t) (blocks L) = blocks Lt /\ filter (on t) (live L) = live Lt.

Definition own (t : nat) (Lt : ledger) : Prop :=
  filter (on t) (blocks Lt) = blocks Lt /\ filter (on t) (live Lt) = live Lt.

Lemma agrees_own t L Lt : agrees t L Lt -> own t Lt.
Proof. unfold own. intros [Ab Al]. rewrite <- Ab, <- Al. split; apply filter_on_idem. Qed.

(** a step of thread [t] acts on the global ledger as on its own *)
Lemma step_same t L Lt e : tev_thread e = t -> agrees t L Lt ->
  agrees t (ledger_step L e) (ledger_step Lt e) /\
  (lerr (ledger_step L e) = lerr L || (negb (lerr Lt) && lerr (ledger_step Lt e)) \/ lerr Lt = true).
Proof.
  intros Ht Ag. pose proof (agrees_own _ _ _ Ag) as [Ob Ol]. destruct Ag as [Ab Al].
  destruct (lerr Lt) eqn:ELt; [|].
  - (* per-thread ledger already in error: only the agreement matters *)
    split; [|now right].
    destruct e as [u cap|u i|u i|u]; simpl in Ht; subst u; unfold ledger_step;
      rewrite <- ?(block_cap_filter t (blocks L)), ?Ab, <- ?(mem_pair_filter t _ (live L)), ?Al.
    + destruct (block_cap t (blocks Lt)); split; simpl; auto. unfold on at 1. simpl. rewrite Nat.eqb_refl. now rewrite Ab.
    + destruct (block_cap t (blocks Lt)); [|split; simpl; auto].
      destruct ((i <? n) && negb (mem_pair (t, i) (live Lt))); split; simpl; auto.
      unfold on at 1. simpl. rewrite Nat.eqb_refl. now rewrite Al.
    + destruct (mem_pair (t, i) (live Lt)); split; simpl; auto. now rewrite filter_on_remove_same, Al.
    + destruct (block_cap t (blocks Lt)); split; simpl; auto. rewrite filter_on_drop_same.
      rewrite <- Ob. symmetry. apply filter_drop_on_same.
  - destruct e as [u cap|u i|u i|u]; simpl in Ht; subst u; unfold ledger_step;
      rewrite <- ?(block_cap_filter t (blocks L)), ?Ab, <- ?(mem_pair_filter t _ (live L)), ?Al.
    + destruct (block_cap t (blocks Lt)); (split; [split|left]); simpl; auto; rewrite ?ELt, ?orb_true_r, ?orb_false_r; auto.
      unfold on at 1. simpl. rewrite Nat.eqb_refl. now rewrite Ab.
    + destruct (block_cap t (blocks Lt)); [|split; [split|left]; simpl; auto; now rewrite orb_true_r].
      destruct ((i <? n) && negb (mem_pair (t, i) (live Lt))); (split; [split|left]); simpl; auto;
        rewrite ?ELt, ?orb_true_r, ?orb_false_r; auto.
      unfold on at 1. simpl. rewrite Nat.eqb_refl. now rewrite Al.
    + destruct (mem_pair (t, i) (live Lt)); (split; [split|left]); simpl; auto; rewrite ?ELt, ?orb_true_r, ?orb_false_r; auto.
      now rewrite filter_on_remove_same, Al.
    + destruct (block_cap t (blocks Lt)); (split; [split|left]); simpl; auto; rewrite ?ELt, ?orb_true_r, ?orb_false_r; auto.
      rewrite filter_on_drop_same. rewrite <- Ob. symmetry. apply filter_drop_on_same.
Qed.

(** a step of another thread is invisible *)
Lemma step_other t L Lt e : tev_thread e <> t -> agrees t L Lt -> agrees t (ledger_step L e) Lt.
Proof.
  intros Ht [Ab Al]. destruct e as [u cap|u i|u i|u]; simpl in Ht; unfold ledger_step.
  - destruct (block_cap u (blocks L)); split; simpl; auto. unfold on at 1. simpl.
    now replace (u =? t) with false by (symmetry; apply Nat.eqb_neq; exact Ht).
  - destruct (block_cap u (blocks L)); [|split; simpl; auto].
    destruct ((i <? n) && negb (mem_pair (u, i) (live L))); split; simpl; auto. unfold on at 1. simpl.
    now replace (u =? t) with false by (symmetry; apply Nat.eqb_neq; exact Ht).
  - destruct (mem_pair (u, i) (live L)); split; simpl; auto. now rewrite filter_on_remove_other.
  - destruct (block_cap u (blocks L)); split; simpl; auto. now rewrite filter_on_drop_other.
Qed.

Definition proj (t : nat) (evs : list tev) : list tev := filter (fun e => tev_thread e =? t) evs.

Lemma ledger_run_snoc evs e : ledger_run (evs ++ [e]) = ledger_step (ledger_run evs) e.
Proof. unfold ledger_run. now rewrite fold_left_app. Qed.

Lemma proj_snoc t evs e : proj t (evs ++ [e]) = if tev_thread e =? t then proj t evs ++ [e] else proj t evs.
Proof. unfold proj. rewrite filter_app. simpl. destruct (tev_thread e =? t); [reflexivity|apply app_nil_r]. Qed.

Lemma lerr_step_mono L e : lerr L = true -> lerr (ledger_step L e) = true.
Proof.
  intros E. destruct e; unfold ledger_step; simpl;
    repeat match goal with |- context [match ?x with _ => _ end] => destruct x end; simpl; auto.
Qed.

Lemma lerr_run_mono evs evs' : lerr (ledger_run evs) = true -> lerr (ledger_run (evs ++ evs')) = true.
Proof.
  revert evs. induction evs' as [|e evs' IH]; intros evs E; [now rewrite app_nil_r|].
  replace (evs ++ e :: evs') with ((evs ++ [e]) ++ evs') by now rewrite <- app_assoc.
  apply IH. rewrite ledger_run_snoc. now apply lerr_step_mono.
Qed.

(** Every interleaving: the global ledger restricted to thread t is the ledger of t's own events,
    and a global error is an error of some thread's own run. *)
Lemma run_agrees evs : forall t, agrees t (ledger_run evs) (ledger_run (proj t evs)).
Proof.
  induction evs as [|e evs IH] using rev_ind; intros t; [split; reflexivity|].
  rewrite ledger_run_snoc, proj_snoc. destruct (Nat.eqb_spec (tev_thread e) t) as [E|E].
  - rewrite ledger_run_snoc. now apply step_same.
  - now apply step_other.
Qed.

Lemma run_error evs : lerr (ledger_run evs) = true -> exists t, lerr (ledger_run (proj t evs)) = true.
Proof.
  induction evs as [|e evs IH] using rev_ind; intros E; [discriminate|].
  rewrite ledger_run_snoc in E.
  destruct (step_same (tev_thread e) _ _ e eq_refl (run_agrees evs (tev_thread e))) as [_ [S|S]].
  - rewrite S in E. apply orb_true_iff in E. destruct E as [E|E].
    + destruct (IH E) as (t & Ht). exists t. rewrite proj_snoc. destruct (tev_thread e =? t); [|exact Ht].
      now apply lerr_run_mono.
    + apply andb_true_iff in E. exists (tev_thread e). rewrite proj_snoc, Nat.eqb_refl, ledger_run_snoc. apply E.
  - exists (tev_thread e). rewrite proj_snoc, Nat.eqb_refl. now apply lerr_run_mono.
Qed.

(** ** one thread's own run (repaired code) *)
Section OneThread.
  Variables t len : nat.

  Definition after_alloc : ledger := {| blocks := [(t, len + 1)]; live := []; lerr := false |}.

  Definition constructed (k : nat) (L : ledger) : Prop :=
    blocks L = [(t, len + 1)] /\ lerr L = false /\ forall x, In x (live L) <-> fst x = t /\ snd x < k.

  Definition destroyed (k : nat) (L : ledger) : Prop :=
    blocks L = [(t, len + 1)] /\ lerr L = false /\ forall x, In x (live L) <-> fst x = t /\ k <= snd x < len.

  Lemma block_cap_single : block_cap t [(t, len + 1)] = Some (len + 1).
  Proof. unfold block_cap. simpl. now rewrite Nat.eqb_refl. Qed.

  Lemma construct_all k : k <= len ->
    constructed k (fold_left ledger_step (map (TConstruct t) (seq 0 k)) after_alloc).
  Proof.
    induction k as [|k IH]; intros Hk.
    - simpl. split; [reflexivity|]. split; [reflexivity|]. intros x. simpl. split; [intros []|lia].
    - rewrite seq_S, map_app, fold_left_app. simpl. destruct (IH ltac:(lia)) as (B & E & Lv).
      set (L := fold_left ledger_step (map (TConstruct t) (seq 0 k)) after_alloc) in *.
      rewrite B, block_cap_single.
      assert (M : mem_pair (t, k) (live L) = false) by (apply mem_pair_false; rewrite Lv; simpl; lia).
      rewrite M. replace (k <? len + 1) with true by (symmetry; apply Nat.ltb_lt; lia). simpl.
      unfold constructed. simpl. split; [reflexivity || exact B|]. split; [exact E|]. intros x. split.
      + intros [<-|Hx]; simpl; [lia|]. apply Lv in Hx. lia.
      + intros Hx. destruct (Nat.eq_dec (snd x) k) as [Ek|Ek].
        * left. destruct x; simpl in *. f_equal; lia.
        * right. apply Lv. lia.
  Qed.

  Lemma destroy_all L0 : constructed len L0 -> forall k, k <= len ->
    destroyed k (fold_left ledger_step (map (TDestroy t) (seq 0 k)) L0).
  Proof.
    intros (B0 & E0 & Lv0) k. induction k as [|k IH]; intros Hk.
    - simpl. split; [exact B0|]. split; [exact E0|]. intros x. rewrite Lv0. lia.
    - rewrite seq_S, map_app, fold_left_app. simpl. destruct (IH ltac:(lia)) as (B & E & Lv).
      set (L := fold_left ledger_step (map (TDestroy t) (seq 0 k)) L0) in *.
      assert (M : mem_pair (t, k) (live L) = true) by (apply mem_pair_In; rewrite Lv; simpl; lia).
      rewrite M. unfold destroyed. simpl. split; [reflexivity || exact B|]. split; [exact E|]. intros x.
      rewrite In_remove_pair, Lv. split.
      + intros ((Hf & Hs) & Hne). split; [exact Hf|].
        destruct (Nat.eq_dec (snd x) k) as [Ek|Ek]; [|lia]. exfalso. apply Hne. destruct x; simpl in *. f_equal; lia.
      + intros (Hf & Hs). split; [lia|]. intros ->. simpl in Hs. lia.
  Qed.

  Lemma thread_run_clean st : run_len st t = len ->
    ledger_run (thread_events true st t) = {| blocks := []; live := []; lerr := false |}.
  Proof.
    intros Hl. unfold thread_events, ledger_run. rewrite Hl. simpl fold_left at 1.
    change (ledger_step ledger0 (TAlloc t (len + 1))) with after_alloc.
    rewrite !fold_left_app.
    pose proof (construct_all len (le_n _)) as C.
    pose proof (destroy_all _ C len (le_n _)) as (B & E & Lv).
    set (L := fold_left ledger_step (map (TDestroy t) (seq 0 len)) _) in *.
    simpl. rewrite B, block_cap_single. simpl. rewrite Nat.eqb_refl. simpl.
    assert (live L = []) as ->.
    { destruct (live L) as [|x l] eqn:EL; [reflexivity|]. exfalso.
      pose proof (proj1 (Lv x) (or_introl eq_refl)). lia. }
    now rewrite E.
  Qed.
End OneThread.

(** ** temporaries_destroyed *)
(** [evs] is a schedule of the p threads' ledger events: thread t's events appear in program order,
    interleaved arbitrarily with the others'. *)
Definition ledger_schedule (fixed : bool) (st : list nat) (p : nat) (evs : list tev) : Prop :=
  forall t, proj t evs = if t <? p then thread_events fixed st t else [].

Theorem temporaries_destroyed n p0 evs : 2 <= n -> 1 <= p0 ->
  let p := clamp_threads n p0 in
  ledger_schedule true (starts n p) p evs ->
  ledger_run evs = {| blocks := []; live := []; lerr := false |}.
Proof.
  intros Hn Hp p S.
  assert (Own : forall t, ledger_run (proj t evs) = {| blocks := []; live := []; lerr := false |}).
  { intros t. rewrite S. destruct (t <? p); [|reflexivity]. now apply (thread_run_clean t (run_len (starts n p) t)). }
  assert (Empty : forall l : list (nat * nat), (forall t, filter (on t) l = []) -> l = []).
  { intros [|x l] F; [reflexivity|]. specialize (F (fst x)). simpl in F. unfold on at 1 in F.
    rewrite Nat.eqb_refl in F. discriminate. }
  destruct (ledger_run evs) as [bl lv er] eqn:R.
  assert (bl = []) as ->.
  { apply Empty. intros t. pose proof (run_agrees evs t) as [Ab _]. rewrite R, Own in Ab. exact Ab. }
  assert (lv = []) as ->.
  { apply Empty. intros t. pose proof (run_agrees evs t) as [_ Al]. rewrite R, Own in Al. exact Al. }
  destruct er; [|reflexivity].
  destruct (run_error evs) as (t & Ht); [now rewrite R|]. rewrite Own in Ht. discriminate.
Qed.

(** the sequential schedule is one of them (so the hypothesis is satisfiable), and the executable
    counter used by the correspondence run is 0 *)
Lemma proj_thread_events fixed st t u : proj u (thread_events fixed st t) = if t =? u then thread_events fixed st t else [].
Proof.
  unfold proj, thread_events.
  assert (F : forall l : list tev, (forall e, In e l -> tev_thread e = t) ->
              filter (fun e => tev_thread e =? u) l = if t =? u then l else []).
  { induction l as [|e l IH]; intros Hl; [now destruct (t =? u)|]. simpl.
    rewrite (Hl e) by now left. rewrite IH by (intros; apply Hl; now right). now destruct (t =? u). }
  apply F. intros e [<-|He]; [reflexivity|].
  apply in_app_or in He. destruct He as [He|He]; [apply in_map_iff in He; destruct He as (? & <- & _); reflexivity|].
  apply in_app_or in He. destruct He as [He|[<-|[]]]; [|reflexivity].
  destruct fixed; [apply in_map_iff in He; destruct He as (? & <- & _); reflexivity|destruct He].
Qed.

Lemma sequential_is_schedule fixed st p : ledger_schedule fixed st p (flat_map (thread_events fixed st) (seq 0 p)).
Proof.
  intros u.
  assert (G : forall len b, proj u (flat_map (thread_events fixed st) (seq b len)) =
                            if (b <=? u) && (u <? b + len) then thread_events fixed st u else []).
  { induction len as [|len IH]; intros b.
    - simpl. destruct (Nat.leb_spec b u), (Nat.ltb_spec u (b + 0)); simpl; try reflexivity; lia.
    - cbn [seq flat_map].
      replace (proj u (thread_events fixed st b ++ flat_map (thread_events fixed st) (seq (S b) len)))
        with (proj u (thread_events fixed st b) ++ proj u (flat_map (thread_events fixed st) (seq (S b) len)))
        by (unfold proj; now rewrite filter_app).
      rewrite proj_thread_events, IH.
      destruct (Nat.eqb_spec b u) as [->|Hne].
      + replace ((S u <=? u) && (u <? S u + len)) with false by (symmetry; apply andb_false_iff; left; apply Nat.leb_gt; lia).
        rewrite app_nil_r, Nat.leb_refl. simpl. now replace (u <? u + S len) with true by (symmetry; apply Nat.ltb_lt; lia).
      + cbn [app].
        destruct (Nat.leb_spec b u) as [L1|L1], (Nat.leb_spec (S b) u) as [L2|L2]; try lia; cbn [andb].
        * destruct (Nat.ltb_spec u (S b + len)), (Nat.ltb_spec u (b + S len)); try reflexivity; lia.
        * reflexivity. }
  rewrite G. reflexivity.
Qed.

Theorem temporaries_live_after_fixed n p : 1 <= p -> temporaries_live_after true n p = 0.
Proof.
  intros Hp. unfold temporaries_live_after. destruct (Nat.leb_spec n 1) as [Hn|Hn]; [reflexivity|].
  rewrite (temporaries_destroyed n p _ Hn Hp (sequential_is_schedule true _ _)). reflexivity.
Qed.

(** the code as shipped (no destructor calls before operator delete): sorting 2 elements with one
    thread leaves 2 live temporaries, 1000 elements with 8 threads leave 1000 *)
Theorem temporaries_shipped_refuted :
  temporaries_live_after false 2 1 = 2 /\ temporaries_live_after false 1000 8 = 1000.
Proof. split; vm_compute; reflexivity. Qed.
