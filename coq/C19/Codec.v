(** C19 — models of tlx/string/base64.cpp and tlx/string/hexdump.cpp, and the RFC 4648
    reference definitions (bit level).  Tables come from gen/Tables_C19_gen.v (regenerated from the
    sources on every run).  Definitions only; proofs are in CodecProofs.v. *)
From Coq Require Import NArith List Bool.
From Coq Require String Ascii.
From TLXV Require Import C19.Bytes gen.Tables_C19_gen.
Import ListNotations.
Open Scope N_scope.

Definition ocons {A} (x : A) (o : option (list A)) : option (list A) :=
  match o with Some l => Some (x :: l) | None => None end.

(** * base64_encode (base64.cpp:28-123) *)
Definition E (v : N) : N := nthN enc64 v 0.

(* step 0 *)
Definition sext0 (b0 : N) : N := N.shiftr (N.land b0 252) 2.                  (* (fragment & 0xFC) >> 2 *)
Definition sext1a (b0 : N) : N := u8 (N.shiftl (N.land b0 3) 4).              (* uint8((fragment & 0x03) << 4) *)
(* step 1 *)
Definition sext1 (b0 b1 : N) : N := N.lor (sext1a b0) (N.shiftr (N.land b1 240) 4).
Definition sext2a (b1 : N) : N := u8 (N.shiftl (N.land b1 15) 2).             (* uint8((fragment & 0x0F) << 2) *)
(* step 2 *)
Definition sext2 (b1 b2 : N) : N := N.lor (sext2a b1) (N.shiftr (N.land b2 192) 6).
Definition sext3 (b2 : N) : N := N.shiftr (N.land b2 63) 0.

(** [osz] = out.size(), [lbeg] = line_begin.  One iteration of the [while (true)] loop consumes up to
    three bytes; the three early returns are the first three cases. *)
Fixpoint b64_enc_go (lb : N) (inp : bytes) (osz lbeg : N) : bytes :=
  match inp with
  | [] => []
  | [b0] => [E (sext0 b0); E (sext1a b0); 61; 61]
  | [b0; b1] => [E (sext0 b0); E (sext1 b0 b1); E (sext2a b1); 61]
  | b0 :: b1 :: b2 :: rest =>
      E (sext0 b0) :: E (sext1 b0 b1) :: E (sext2 b1 b2) :: E (sext3 b2) ::
      (if (0 <? lb) && (lb <=? (osz + 4) - lbeg)
       then 10 :: b64_enc_go lb rest (osz + 5) (osz + 5)
       else b64_enc_go lb rest (osz + 4) lbeg)
  end.

Definition base64_encode (s : bytes) (line_break : N) : bytes := b64_enc_go line_break s 0 0.

(** * base64_decode (base64.cpp:132-222).  [None] = std::runtime_error.
    The four [do ... while (fragment >= ws)] loops are the four values of [step]. *)
Definition Dtab (c : N) : N := nthN dec64 c dec_ex.

Fixpoint b64_dec_go (strict : bool) (inp : bytes) (step : nat) (oc : N) : option bytes :=
  match inp with
  | [] => Some []
  | c :: rest =>
      let f := Dtab c in
      if (f =? dec_ex) && strict then None
      else if dec_ws <=? f then b64_dec_go strict rest step oc
      else match step with
           | O => b64_dec_go strict rest 1%nat (u8 (N.shiftl (N.land f 63) 2))
           | S O => let o := u8 (N.lor oc (N.shiftr (N.land f 48) 4)) in
                    ocons o (b64_dec_go strict rest 2%nat (u8 (N.shiftl (N.land f 15) 4)))
           | S (S O) => let o := u8 (N.lor oc (N.shiftr (N.land f 60) 2)) in
                        ocons o (b64_dec_go strict rest 3%nat (u8 (N.shiftl (N.land f 3) 6)))
           | _ => let o := u8 (N.lor oc (N.shiftr (N.land f 63) 0)) in
                  ocons o (b64_dec_go strict rest 0%nat o)
           end
  end.

Definition base64_decode (s : bytes) (strict : bool) : option bytes := b64_dec_go strict s 0%nat 0.

(** * hexdump / hexdump_lc / parse_hexdump (hexdump.cpp) *)
Definition hexdump_with (xd : list N) (s : bytes) : bytes :=
  flat_map (fun b => [nthN xd (N.shiftr (N.land b 240) 4) 0; nthN xd (N.land b 15) 0]) s.
Definition hexdump (s : bytes) : bytes := hexdump_with xdigits_uc s.
Definition hexdump_lc (s : bytes) : bytes := hexdump_with xdigits_lc s.

Fixpoint assocN (t : list (N * N)) (c : N) : option N :=
  match t with
  | [] => None
  | (k, v) :: t' => if k =? c then Some v else assocN t' c
  end.

(** [None] = std::runtime_error (invalid digit, or odd length) *)
Fixpoint parse_hexdump (s : bytes) : option bytes :=
  match s with
  | [] => Some []
  | c1 :: rest =>
      match assocN hexparse_hi c1 with
      | None => None
      | Some h =>
          match rest with
          | [] => None
          | c2 :: rest' =>
              match assocN hexparse_lo c2 with
              | None => None
              | Some l => ocons (N.lor (N.lor 0 h) l) (parse_hexdump rest')
              end
          end
      end
  end.

(** * RFC 4648 reference definitions, at bit level *)
Module Lit.
  Import String Ascii.
  Definition str (s : string) : list N := map N_of_ascii (list_ascii_of_string s).
  Definition base64_alphabet : list N := str "ABCDEFGHIJKLMNOPQRSTUVWXYZabcdefghijklmnopqrstuvwxyz0123456789+/".
  Definition base16_alphabet : list N := str "0123456789ABCDEF".
  Definition base16_alphabet_lc : list N := str "0123456789abcdef".
End Lit.
Definition rfc_base64_alphabet : bytes := Lit.base64_alphabet.
Definition rfc_base16_alphabet : bytes := Lit.base16_alphabet.
Definition lc_base16_alphabet : bytes := Lit.base16_alphabet_lc.

(** the 8 bits of an octet, most significant first *)
Definition bits8 (b : N) : list bool :=
  [N.testbit b 7; N.testbit b 6; N.testbit b 5; N.testbit b 4; N.testbit b 3; N.testbit b 2; N.testbit b 1; N.testbit b 0].

Definition bitsval (l : list bool) : N := fold_left (fun acc (b : bool) => 2 * acc + (if b then 1 else 0)) l 0.

(** cut the bit stream into 6-bit groups; an incomplete last group is padded with zero bits on the right *)
Fixpoint groups6 (l : list bool) : list N :=
  match l with
  | [] => []
  | a :: b :: c :: d :: e :: f :: rest => bitsval [a; b; c; d; e; f] :: groups6 rest
  | partial => [bitsval (firstn 6 (partial ++ [false; false; false; false; false]))]
  end.

Fixpoint groups4 (l : list bool) : list N :=
  match l with
  | a :: b :: c :: d :: rest => bitsval [a; b; c; d] :: groups4 rest
  | _ => []
  end.

(** RFC 4648 section 4: 6-bit groups of the concatenated octets through the alphabet; '=' up to a multiple of four characters *)
Definition rfc4648_base64 (s : bytes) : bytes :=
  let l := map (fun v => nthN rfc_base64_alphabet v 0) (groups6 (flat_map bits8 s)) in
  l ++ repeat 61 (Nat.modulo (Nat.sub 4 (Nat.modulo (length l) 4)) 4).

(** RFC 4648 section 8 (base16), parameterised by the 16-letter alphabet *)
Definition rfc4648_base16 (alpha : bytes) (s : bytes) : bytes :=
  map (fun v => nthN alpha v 0) (groups4 (flat_map bits8 s)).

(** removing the line feeds *)
Definition strip_lf (s : bytes) : bytes := filter (fun c => negb (c =? 10)) s.
