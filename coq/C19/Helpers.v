(** C19 — models of the pure string helpers (to_lower/to_upper, compare_icase, starts_with, ends_with,
    contains, trim family, erase_all, pad, levenshtein) and their direct reference definitions.
    Definitions only; proofs are in HelpersProofs.v and LevProofs.v. *)
From Coq Require Import NArith ZArith List Bool.
From TLXV Require Import C19.Bytes.
Import ListNotations.
Open Scope N_scope.

(** * to_lower / to_upper (to_lower.cpp, to_upper.cpp)
    [char] is signed on the target; [ch - 'A'] is computed in [int], cast to [unsigned] (mod 2^32). *)
Definition schar (b : N) : Z := if b <? 128 then Z.of_N b else (Z.of_N b - 256)%Z.
Definition to_char (z : Z) : N := Z.to_N (z mod 256)%Z.

Definition to_lower_char (b : N) : N :=
  if (((schar b - 65) mod 4294967296) <? 26)%Z then to_char (schar b - 65 + 97)%Z else b.
Definition to_upper_char (b : N) : N :=
  if (((schar b - 97) mod 4294967296) <? 26)%Z then to_char (schar b - 97 + 65)%Z else b.

Definition to_lower (s : bytes) : bytes := map to_lower_char s.
Definition to_upper (s : bytes) : bytes := map to_upper_char s.

(** reference: ASCII letters only *)
Definition lower_spec (b : N) : N := if (65 <=? b) && (b <=? 90) then b + 32 else b.
Definition upper_spec (b : N) : N := if (97 <=? b) && (b <=? 122) then b - 32 else b.

(** * compare_icase (compare_icase.cpp, string_view overload, with fixes/C19/04 and 05 applied) *)
Fixpoint compare_icase (a b : bytes) : Z :=
  match a, b with
  | x :: a', y :: b' =>
      let ca := to_lower_char x in
      let cb := to_lower_char y in
      if (ca =? cb)%N then compare_icase a' b'
      else if (ca <? cb)%N then (-1)%Z else 1%Z
  | [], _ :: _ => (-1)%Z
  | _ :: _, [] => 1%Z
  | [], [] => 0%Z
  end.

(** as shipped in 704fd0b: characters compared as signed [char] promoted to [int]; the two
    "one string is a prefix of the other" results are exchanged *)
Fixpoint compare_icase_shipped (a b : bytes) : Z :=
  match a, b with
  | x :: a', y :: b' =>
      let ca := schar (to_lower_char x) in
      let cb := schar (to_lower_char y) in
      if (ca =? cb)%Z then compare_icase_shipped a' b'
      else if (ca <? cb)%Z then (-1)%Z else 1%Z
  | [], _ :: _ => 1%Z
  | _ :: _, [] => (-1)%Z
  | [], [] => 0%Z
  end.

(** reference: sign of strcmp (unsigned bytes, shorter prefix first) on the lower-cased strings *)
Fixpoint strcmp_sign (a b : bytes) : Z :=
  match a, b with
  | [], [] => 0%Z
  | [], _ :: _ => (-1)%Z
  | _ :: _, [] => 1%Z
  | x :: a', y :: b' => match (x ?= y)%N with Lt => (-1)%Z | Gt => 1%Z | Eq => strcmp_sign a' b' end
  end.

(** * equal_icase / less_icase (equal_icase.cpp, less_icase.cpp; string_view overloads; less_icase with
    fixes/C19/09 applied: characters compared as unsigned char, consistently with compare_icase) *)
Fixpoint all2b (eq : N -> N -> bool) (a b : bytes) : bool :=
  match a, b with
  | [], [] => true
  | x :: a', y :: b' => eq x y && all2b eq a' b'
  | _, _ => false
  end.

(* if (a.size() != b.size()) return false; return std::equal(..., to_lower(c1) == to_lower(c2)) *)
Definition equal_icase (a b : bytes) : bool :=
  if Nat.eqb (length a) (length b) then all2b (fun x y => to_lower_char x =? to_lower_char y) a b else false.

(* std::lexicographical_compare(a, b, [](c1, c2) { return to_lower(c1) < to_lower(c2); }) *)
Fixpoint less_icase (a b : bytes) : bool :=
  match a, b with
  | _, [] => false
  | [], _ :: _ => true
  | x :: a', y :: b' =>
      if to_lower_char x <? to_lower_char y then true
      else if to_lower_char y <? to_lower_char x then false
      else less_icase a' b'
  end.

(** * starts_with / ends_with / contains *)
Fixpoint prefixb_by (eq : N -> N -> bool) (p s : bytes) : bool :=
  match p, s with
  | [], _ => true
  | x :: p', y :: s' => eq x y && prefixb_by eq p' s'
  | _ :: _, [] => false
  end.

Definition icase_eq (x y : N) : bool := to_lower_char x =? to_lower_char y.

Definition starts_with (s m : bytes) : bool :=
  if Nat.ltb (length s) (length m) then false else prefixb m s.
Definition starts_with_icase (s m : bytes) : bool :=
  if Nat.ltb (length s) (length m) then false else prefixb_by icase_eq m s.
Definition ends_with (s m : bytes) : bool :=
  if Nat.ltb (length s) (length m) then false else prefixb m (skipn (length s - length m) s).
Definition ends_with_icase (s m : bytes) : bool :=
  if Nat.ltb (length s) (length m) then false else prefixb_by icase_eq m (skipn (length s - length m) s).

(** contains = (str.find(pattern) != npos): std::search from position 0 *)
Fixpoint contains (s p : bytes) : bool :=
  prefixb p s || match s with [] => false | _ :: r => contains r p end.
Definition contains_char (s : bytes) (c : N) : bool := memb c s.

(** * trim family (trim.cpp) through find_first_not_of / find_last_not_of *)
Fixpoint find_first_not_of (drop s : bytes) : option nat :=
  match s with
  | [] => None
  | c :: r => if memb c drop then option_map S (find_first_not_of drop r) else Some O
  end.

Fixpoint find_last_not_of (drop s : bytes) : option nat :=
  match s with
  | [] => None
  | c :: r =>
      match find_last_not_of drop r with
      | Some p => Some (S p)
      | None => if memb c drop then None else Some O
      end
  end.

(** in-place std::string version: right end first, then left end *)
Definition trim_inplace (s drop : bytes) : bytes :=
  match find_last_not_of drop s with
  | Some pos =>
      let s1 := firstn (S pos) s in
      match find_first_not_of drop s1 with
      | Some p => skipn p s1
      | None => s1
      end
  | None => []
  end.

(** copying string_view version: left end first, then right end *)
Definition trim_copy (s drop : bytes) : bytes :=
  match find_first_not_of drop s with
  | None => []
  | Some pos =>
      let out := skipn pos s in
      match find_last_not_of drop out with
      | Some p => firstn (S p) out
      | None => out
      end
  end.

Definition trim_right (s drop : bytes) : bytes :=
  match find_last_not_of drop s with Some p => firstn (S p) s | None => [] end.
Definition trim_left (s drop : bytes) : bytes :=
  match find_first_not_of drop s with Some p => skipn p s | None => [] end.

Definition default_drop : bytes := [32; 13; 10; 9].   (* " \r\n\t" *)

(** reference *)
Fixpoint drop_while (f : N -> bool) (s : bytes) : bytes :=
  match s with
  | [] => []
  | c :: r => if f c then drop_while f r else s
  end.
Definition trim_left_spec (s drop : bytes) : bytes := drop_while (fun c => memb c drop) s.
Definition trim_right_spec (s drop : bytes) : bytes := rev (drop_while (fun c => memb c drop) (rev s)).
Definition trim_spec (s drop : bytes) : bytes := trim_left_spec (trim_right_spec s drop) drop.

(** * erase_all (erase_all.cpp) *)
(* copying versions: append every character that is not found in [drop] *)
Definition erase_all (s drop : bytes) : bytes := filter (fun c => negb (memb c drop)) s.
Definition erase_all_char (s : bytes) (c : N) : bytes := erase_all s [c].

(* in-place versions: from the right, alternately [find_last_of] (characters kept) and
   [find_last_not_of] (run erased).  [r] = the not yet visited prefix, reversed. *)
Fixpoint erase_runs_rev (drop r : bytes) (in_run : bool) : bytes :=
  match r with
  | [] => []
  | c :: r' => if memb c drop then erase_runs_rev drop r' true else c :: erase_runs_rev drop r' false
  end.
Definition erase_all_inplace (s drop : bytes) : bytes := rev (erase_runs_rev drop (rev s) false).

(** * pad (pad.cpp): assign(min(size, len)) then resize(len, pad_char) *)
Definition pad (s : bytes) (len : nat) (pad_char : N) : bytes :=
  let t := firstn (Nat.min (length s) len) s in
  t ++ repeat pad_char (len - length t).

(** * levenshtein (levenshtein.hpp:70-127): two rows, swapped before each new row *)
Section Lev.
  Variable ceq : N -> N -> bool.      (* Param::char_equal *)

  (* inner loop: [left] = thisrow[i-1], [diag] = lastrow[i-1], head of [last_tl] = lastrow[i] *)
  Fixpoint lev_row_go (a : bytes) (y : N) (left diag : nat) (last_tl : list nat) : list nat :=
    match a, last_tl with
    | x :: a', up :: l' =>
        let v := Nat.min (Nat.min (left + 1) (up + 1)) (diag + (if ceq x y then 0 else 1)) in
        v :: lev_row_go a' y v up l'
    | _, _ => []
    end.

  Definition lev_next_row (a : bytes) (y : N) (j : nat) (lastrow : list nat) : list nat :=
    match lastrow with
    | d0 :: tl => j :: lev_row_go a y j d0 tl
    | [] => []
    end.

  (* outer loop over the shorter string; [j] rows done so far *)
  Fixpoint lev_rows (a b : bytes) (j : nat) (row : list nat) : list nat :=
    match b with
    | [] => row
    | y :: b' => lev_rows a b' (S j) (lev_next_row a y (S j) row)
    end.

  Definition lev_algorithm (a b : bytes) : nat :=
    match a, b with
    | [], _ => length b
    | _, [] => length a
    | _, _ =>
        let (a1, b1) := if Nat.ltb (length a) (length b) then (b, a) else (a, b) in
        last (lev_rows a1 b1 0 (seq 0 (S (length a1)))) 0%nat
    end.

  (** reference: recursive edit distance (insert / delete cost 1, replacement cost 1) *)
  Fixpoint lev_spec (a : bytes) : bytes -> nat :=
    fix inner (b : bytes) : nat :=
      match a, b with
      | [], _ => length b
      | _, [] => length a
      | x :: a', y :: b' =>
          Nat.min (Nat.min (lev_spec a' b + 1) (inner b' + 1)) (lev_spec a' b' + (if ceq x y then 0 else 1))
      end.
End Lev.

Definition levenshtein (a b : bytes) : nat := lev_algorithm N.eqb a b.
Definition levenshtein_icase (a b : bytes) : nat := lev_algorithm icase_eq a b.
