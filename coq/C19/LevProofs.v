(** C19 — the Levenshtein dynamic programme [lev_algorithm] computes the edit distance.
    Edit scripts are modelled as alignments ([edits]); [lev_spec] is shown to be the minimum cost
    of an alignment, and the two-row dynamic programme is shown equal to [lev_spec]. *)
From Coq Require Import NArith List Bool Lia PeanoNat.
From TLXV Require Import C19.Bytes C19.Helpers.
Import ListNotations.
Local Open Scope nat_scope.

Section LevProofs.
  Variable ceq : N -> N -> bool.
  Hypothesis ceq_sym : forall x y, ceq x y = ceq y x.

  (* edit scripts as alignments: cost 1 per deleted / inserted character,
     0/1 per matched / replaced pair *)
  Inductive edits : bytes -> bytes -> nat -> Prop :=
  | ed_nil : edits [] [] 0
  | ed_del : forall x a b n, edits a b n -> edits (x :: a) b (S n)
  | ed_ins : forall y a b n, edits a b n -> edits a (y :: b) (S n)
  | ed_sub : forall x y a b n, edits a b n ->
      edits (x :: a) (y :: b) (n + (if ceq x y then 0 else 1)).

  (** ** 1. unfolding lemmas for [lev_spec] *)
  Lemma lev_spec_nil_l : forall b, lev_spec ceq [] b = length b.
  Proof. intros b; destruct b; reflexivity. Qed.

  Lemma lev_spec_nil_r : forall a, lev_spec ceq a [] = length a.
  Proof. intros a; destruct a; reflexivity. Qed.

  Lemma lev_spec_cons : forall x a y b,
    lev_spec ceq (x :: a) (y :: b) =
    Nat.min (Nat.min (lev_spec ceq a (y :: b) + 1) (lev_spec ceq (x :: a) b + 1))
            (lev_spec ceq a b + (if ceq x y then 0 else 1)).
  Proof. intros x a y b; reflexivity. Qed.

  (** ** 2. [lev_spec] is the minimum cost of an alignment *)
  Lemma edits_eq : forall a b n m, edits a b n -> n = m -> edits a b m.
  Proof. intros a b n m H E; subst m; exact H. Qed.

  Lemma edits_nil_l : forall b, edits [] b (length b).
  Proof.
    intros b; induction b as [|y b IHb]; cbn [length].
    - apply ed_nil.
    - apply ed_ins; exact IHb.
  Qed.

  Lemma edits_nil_r : forall a, edits a [] (length a).
  Proof.
    intros a; induction a as [|x a IHa]; cbn [length].
    - apply ed_nil.
    - apply ed_del; exact IHa.
  Qed.

  Lemma lev_spec_edits : forall a b, edits a b (lev_spec ceq a b).
  Proof.
    intros a; induction a as [|x a IHa]; intros b.
    - rewrite lev_spec_nil_l. apply edits_nil_l.
    - induction b as [|y b IHb].
      + rewrite lev_spec_nil_r. apply edits_nil_r.
      + rewrite lev_spec_cons.
        pose proof (ed_del x _ _ _ (IHa (y :: b))) as H1.
        pose proof (ed_ins y _ _ _ IHb) as H2.
        pose proof (ed_sub x y _ _ _ (IHa b)) as H3.
        destruct (Nat.min_dec (Nat.min (lev_spec ceq a (y :: b) + 1) (lev_spec ceq (x :: a) b + 1))
                              (lev_spec ceq a b + (if ceq x y then 0 else 1))) as [E|E];
          rewrite E.
        * destruct (Nat.min_dec (lev_spec ceq a (y :: b) + 1) (lev_spec ceq (x :: a) b + 1))
            as [E2|E2]; rewrite E2.
          -- eapply edits_eq; [exact H1 | lia].
          -- eapply edits_eq; [exact H2 | lia].
        * exact H3.
  Qed.

  Lemma lev_spec_step_del : forall x a b, lev_spec ceq (x :: a) b <= S (lev_spec ceq a b).
  Proof.
    intros x a b; destruct b as [|y b].
    - rewrite !lev_spec_nil_r. cbn [length]. lia.
    - rewrite lev_spec_cons. lia.
  Qed.

  Lemma lev_spec_step_ins : forall y a b, lev_spec ceq a (y :: b) <= S (lev_spec ceq a b).
  Proof.
    intros y a b; destruct a as [|x a].
    - rewrite !lev_spec_nil_l. cbn [length]. lia.
    - rewrite lev_spec_cons. lia.
  Qed.

  Lemma lev_spec_step_sub : forall x y a b,
    lev_spec ceq (x :: a) (y :: b) <= lev_spec ceq a b + (if ceq x y then 0 else 1).
  Proof. intros x y a b; rewrite lev_spec_cons. lia. Qed.

  Lemma lev_spec_le : forall a b n, edits a b n -> lev_spec ceq a b <= n.
  Proof.
    intros a b n H; induction H as [|x a b n H IH|y a b n H IH|x y a b n H IH].
    - cbn. lia.
    - pose proof (lev_spec_step_del x a b) as S1. lia.
    - pose proof (lev_spec_step_ins y a b) as S1. lia.
    - pose proof (lev_spec_step_sub x y a b) as S1. lia.
  Qed.

  Theorem lev_spec_is_min : forall a b,
    edits a b (lev_spec ceq a b) /\ (forall n, edits a b n -> lev_spec ceq a b <= n).
  Proof.
    intros a b; split.
    - apply lev_spec_edits.
    - apply lev_spec_le.
  Qed.

  (** ** 3. alignments are closed under concatenation, reversal and symmetry *)
  Lemma edits_app : forall a b n c d m,
    edits a b n -> edits c d m -> edits (a ++ c) (b ++ d) (n + m).
  Proof.
    intros a b n c d m H1 H2;
      induction H1 as [|x a b n H IH|y a b n H IH|x y a b n H IH]; cbn [app].
    - exact H2.
    - apply (ed_del x) in IH. exact IH.
    - apply (ed_ins y) in IH. exact IH.
    - apply (ed_sub x y) in IH. eapply edits_eq; [exact IH | lia].
  Qed.

  Lemma edits_rev : forall a b n, edits a b n -> edits (rev a) (rev b) n.
  Proof.
    intros a b n H; induction H as [|x a b n H IH|y a b n H IH|x y a b n H IH]; cbn [rev].
    - apply ed_nil.
    - pose proof (edits_app _ _ _ _ _ _ IH (ed_del x _ _ _ ed_nil)) as H1.
      rewrite app_nil_r in H1. eapply edits_eq; [exact H1 | lia].
    - pose proof (edits_app _ _ _ _ _ _ IH (ed_ins y _ _ _ ed_nil)) as H1.
      rewrite app_nil_r in H1. eapply edits_eq; [exact H1 | lia].
    - pose proof (edits_app _ _ _ _ _ _ IH (ed_sub x y _ _ _ ed_nil)) as H1.
      eapply edits_eq; [exact H1 | lia].
  Qed.

  Lemma edits_sym : forall a b n, edits a b n -> edits b a n.
  Proof.
    intros a b n H; induction H as [|x a b n H IH|y a b n H IH|x y a b n H IH].
    - apply ed_nil.
    - apply ed_ins; exact IH.
    - apply ed_del; exact IH.
    - rewrite ceq_sym. apply ed_sub; exact IH.
  Qed.

  Lemma lev_spec_rev : forall a b, lev_spec ceq (rev a) (rev b) = lev_spec ceq a b.
  Proof.
    intros a b; apply Nat.le_antisymm.
    - apply lev_spec_le. apply edits_rev. apply lev_spec_edits.
    - apply lev_spec_le.
      pose proof (edits_rev _ _ _ (lev_spec_edits (rev a) (rev b))) as H.
      rewrite !rev_involutive in H. exact H.
  Qed.

  Lemma lev_spec_sym : forall a b, lev_spec ceq a b = lev_spec ceq b a.
  Proof.
    intros a b; apply Nat.le_antisymm; apply lev_spec_le; apply edits_sym; apply lev_spec_edits.
  Qed.

  (** ** 4. the dynamic-programming invariant *)
  (* distance between two prefixes, expressed through the reversed lists so that extending a
     prefix by one character is a cons on the [lev_spec] side *)
  Definition D (p q : bytes) : nat := lev_spec ceq (rev p) (rev q).

  Lemma D_nil_l : forall q, D [] q = length q.
  Proof. intros q; unfold D; cbn [rev]. rewrite lev_spec_nil_l. apply rev_length. Qed.

  Lemma D_nil_r : forall p, D p [] = length p.
  Proof. intros p; unfold D; cbn [rev]. rewrite lev_spec_nil_r. apply rev_length. Qed.

  Lemma D_snoc : forall p x q y,
    D (p ++ [x]) (q ++ [y]) =
    Nat.min (Nat.min (D p (q ++ [y]) + 1) (D (p ++ [x]) q + 1))
            (D p q + (if ceq x y then 0 else 1)).
  Proof.
    intros p x q y; unfold D. rewrite !rev_unit. apply lev_spec_cons.
  Qed.

  Definition row_of (a q : bytes) : list nat :=
    map (fun i => D (firstn i a) q) (seq 0 (S (length a))).

  Lemma firstn_snoc : forall (pre : bytes) x suf,
    firstn (S (length pre)) (pre ++ x :: suf) = pre ++ [x].
  Proof.
    intros pre x suf.
    replace (S (length pre)) with (length pre + 1) by lia.
    rewrite firstn_app_2. reflexivity.
  Qed.

  Lemma lev_row_go_inv : forall a y q suf pre,
    a = pre ++ suf ->
    lev_row_go ceq suf y (D pre (q ++ [y])) (D pre q)
      (map (fun i => D (firstn i a) q) (seq (S (length pre)) (length suf))) =
    map (fun i => D (firstn i a) (q ++ [y])) (seq (S (length pre)) (length suf)).
  Proof.
    intros a y q suf; induction suf as [|x suf IH]; intros pre Ha.
    - reflexivity.
    - assert (Hf : firstn (S (length pre)) a = pre ++ [x])
        by (rewrite Ha; apply firstn_snoc).
      cbn [length seq map lev_row_go].
      rewrite !Hf. rewrite <- D_snoc.
      f_equal.
      specialize (IH (pre ++ [x])).
      rewrite app_length in IH. cbn [length] in IH. rewrite Nat.add_1_r in IH.
      apply IH. rewrite Ha, <- app_assoc. reflexivity.
  Qed.

  Lemma lev_next_row_inv : forall a y q,
    lev_next_row ceq a y (S (length q)) (row_of a q) = row_of a (q ++ [y]).
  Proof.
    intros a y q; unfold row_of.
    cbn [seq map firstn]. unfold lev_next_row.
    pose proof (lev_row_go_inv a y q a [] eq_refl) as H.
    cbn [length] in H.
    rewrite !D_nil_l in H. rewrite !D_nil_l.
    rewrite app_length in H |- *. cbn [length] in H |- *. rewrite Nat.add_1_r in H |- *.
    f_equal. exact H.
  Qed.

  Lemma lev_rows_inv : forall a b q,
    lev_rows ceq a b (length q) (row_of a q) = row_of a (q ++ b).
  Proof.
    intros a b; induction b as [|y b IH]; intros q.
    - rewrite app_nil_r. reflexivity.
    - cbn [lev_rows]. rewrite lev_next_row_inv.
      replace (S (length q)) with (length (q ++ [y]))
        by (rewrite app_length; cbn [length]; lia).
      rewrite IH, <- app_assoc. reflexivity.
  Qed.

  Lemma row_of_nil : forall a, seq 0 (S (length a)) = row_of a [].
  Proof.
    intros a; unfold row_of.
    transitivity (map (fun i : nat => i) (seq 0 (S (length a)))).
    - symmetry; apply map_id.
    - apply map_ext_in. intros i Hi. apply in_seq in Hi.
      rewrite D_nil_r. symmetry; apply firstn_length_le. lia.
  Qed.

  Lemma last_row_of : forall a b, last (row_of a b) 0 = D a b.
  Proof.
    intros a b; unfold row_of.
    rewrite seq_S, map_app. cbn [map]. rewrite last_last.
    rewrite Nat.add_0_l, firstn_all. reflexivity.
  Qed.

  Lemma lev_main : forall a b,
    last (lev_rows ceq a b 0 (seq 0 (S (length a)))) 0 = lev_spec ceq a b.
  Proof.
    intros a b. rewrite row_of_nil.
    pose proof (lev_rows_inv a b []) as H. cbn [length app] in H.
    rewrite H, last_row_of. unfold D. apply lev_spec_rev.
  Qed.

  (** ** 5. the algorithm equals the reference *)
  Theorem lev_algorithm_is_spec : forall a b, lev_algorithm ceq a b = lev_spec ceq a b.
  Proof.
    intros a b; destruct a as [|x a].
    - rewrite lev_spec_nil_l. reflexivity.
    - destruct b as [|y b].
      + rewrite lev_spec_nil_r. reflexivity.
      + unfold lev_algorithm.
        destruct (Nat.ltb (length (x :: a)) (length (y :: b))).
        * rewrite lev_main. apply lev_spec_sym.
        * rewrite lev_main. reflexivity.
  Qed.

  Theorem lev_algorithm_is_edit_distance : forall a b,
    edits a b (lev_algorithm ceq a b) /\ (forall n, edits a b n -> lev_algorithm ceq a b <= n).
  Proof.
    intros a b. rewrite lev_algorithm_is_spec. apply lev_spec_is_min.
  Qed.
End LevProofs.

(** ** 6. the two instances used by the library *)
Lemma icase_eq_sym : forall x y, icase_eq x y = icase_eq y x.
Proof. intros x y; unfold icase_eq. apply N.eqb_sym. Qed.

Theorem levenshtein_is_edit_distance : forall a b,
  edits N.eqb a b (levenshtein a b) /\ (forall n, edits N.eqb a b n -> levenshtein a b <= n).
Proof.
  intros a b; unfold levenshtein.
  apply (lev_algorithm_is_edit_distance N.eqb N.eqb_sym).
Qed.

Theorem levenshtein_icase_is_edit_distance : forall a b,
  edits icase_eq a b (levenshtein_icase a b) /\
  (forall n, edits icase_eq a b n -> levenshtein_icase a b <= n).
Proof.
  intros a b; unfold levenshtein_icase.
  apply (lev_algorithm_is_edit_distance icase_eq icase_eq_sym).
Qed.

Example levenshtein_kitten :
  levenshtein [107;105;116;116;101;110]%N [115;105;116;116;105;110;103]%N = 3.
Proof. vm_compute. reflexivity. Qed.
