(** C19 — bytes as [N] (values below 256), table lookup, list prefix test, and the
    "sweep" machinery that lifts a [vm_compute]d [forallb] over [0..n) to a universally
    quantified statement. *)
From Coq Require Import NArith List Bool Lia.
Import ListNotations.
Open Scope N_scope.

Definition byte := N.
Definition bytes := list N.

(** a value stored into a [std::uint8_t] / [unsigned char] *)
Definition u8 (x : N) : N := x mod 256.

(** table lookup [t[i]] (default only reachable for an index outside the table) *)
Definition nthN (t : list N) (i : N) (d : N) : N := nth (N.to_nat i) t d.

Definition bytes_ok (s : bytes) : Prop := Forall (fun b => b < 256) s.
Definition bytes_okb (s : bytes) : bool := forallb (fun b => b <? 256) s.

Lemma bytes_okb_spec : forall s, bytes_okb s = true <-> bytes_ok s.
Proof.
  intros s. unfold bytes_okb, bytes_ok. rewrite forallb_forall, Forall_forall.
  split; intros H x Hx; specialize (H x Hx); now apply N.ltb_lt.
Qed.

Lemma bytes_ok_cons : forall b s, bytes_ok (b :: s) <-> b < 256 /\ bytes_ok s.
Proof. intros b s. unfold bytes_ok. split; intros H; [inversion H; auto | destruct H; constructor; auto]. Qed.

Lemma bytes_ok_app : forall s t, bytes_ok (s ++ t) <-> bytes_ok s /\ bytes_ok t.
Proof. intros s t. unfold bytes_ok. apply Forall_app. Qed.

(** ** list equality / prefix on bytes *)
Fixpoint list_eqb (a b : bytes) : bool :=
  match a, b with
  | [], [] => true
  | x :: a', y :: b' => (x =? y) && list_eqb a' b'
  | _, _ => false
  end.

Lemma list_eqb_eq : forall a b, list_eqb a b = true <-> a = b.
Proof.
  induction a as [|x a IH]; destruct b as [|y b]; simpl; split; intros H; try congruence; try discriminate.
  - apply andb_true_iff in H. destruct H as [H1 H2]. apply N.eqb_eq in H1. apply IH in H2. congruence.
  - inversion H; subst. rewrite N.eqb_refl. simpl. now apply IH.
Qed.

(** [prefixb p s] : [p] is a prefix of [s]  (std::equal(p.begin(), p.end(), it) guarded by the length test) *)
Fixpoint prefixb (p s : bytes) : bool :=
  match p, s with
  | [], _ => true
  | x :: p', y :: s' => (x =? y) && prefixb p' s'
  | _ :: _, [] => false
  end.

Lemma prefixb_spec : forall p s, prefixb p s = true <-> exists t, s = p ++ t.
Proof.
  induction p as [|x p IH]; intros s; simpl.
  - split; [intros _; now exists s | auto].
  - destruct s as [|y s].
    + split; [discriminate | intros [t Ht]; discriminate].
    + rewrite andb_true_iff, N.eqb_eq, IH. split.
      * intros [-> [t ->]]. now exists t.
      * intros [t Ht]. inversion Ht; subst. split; [reflexivity | now exists t].
Qed.

Lemma prefixb_app : forall p t, prefixb p (p ++ t) = true.
Proof. intros. apply prefixb_spec. now exists t. Qed.

Lemma prefixb_length : forall p s, prefixb p s = true -> (length p <= length s)%nat.
Proof. intros p s H. apply prefixb_spec in H. destruct H as [t ->]. rewrite app_length. lia. Qed.

Definition memb (c : N) (set : bytes) : bool := existsb (N.eqb c) set.

Lemma memb_In : forall c set, memb c set = true <-> In c set.
Proof.
  intros c set. unfold memb. rewrite existsb_exists. split.
  - intros [x [Hx He]]. apply N.eqb_eq in He. now subst.
  - intros H. exists c. split; [assumption | apply N.eqb_refl].
Qed.

(** ** sweeps *)
Definition below (n : nat) : list N := map N.of_nat (seq 0 n).

Lemma below_In : forall n x, x < N.of_nat n -> In x (below n).
Proof.
  intros n x H. unfold below. apply in_map_iff. exists (N.to_nat x). split.
  - apply N2Nat.id.
  - apply in_seq. lia.
Qed.

Definition sweep1 (n : nat) (P : N -> bool) : bool := forallb P (below n).
Definition sweep2 (n m : nat) (P : N -> N -> bool) : bool :=
  forallb (fun x => forallb (P x) (below m)) (below n).

Lemma sweep1_spec : forall n P, sweep1 n P = true -> forall x, x < N.of_nat n -> P x = true.
Proof. intros n P H x Hx. unfold sweep1 in H. rewrite forallb_forall in H. apply H. now apply below_In. Qed.

Lemma sweep2_spec : forall n m P, sweep2 n m P = true ->
  forall x y, x < N.of_nat n -> y < N.of_nat m -> P x y = true.
Proof.
  intros n m P H x y Hx Hy. unfold sweep2 in H. rewrite forallb_forall in H.
  specialize (H x (below_In _ _ Hx)). rewrite forallb_forall in H. apply H. now apply below_In.
Qed.

(** induction over a list three elements at a time *)
Lemma list_ind3 : forall (A : Type) (P : list A -> Prop),
  P [] -> (forall a, P [a]) -> (forall a b, P [a; b]) ->
  (forall a b c l, P l -> P (a :: b :: c :: l)) -> forall l, P l.
Proof.
  intros A P H0 H1 H2 H3.
  assert (H : forall l, P l /\ (forall a, P (a :: l)) /\ (forall a b, P (a :: b :: l))).
  { induction l as [|x l [IH0 [IH1 IH2]]].
    - auto.
    - split; [apply IH1 | split; [intros a; apply IH2 | intros a b; apply H3; exact IH0]]. }
  intros l. apply H.
Qed.
