(** C19 — proofs about the base64 and hexdump models: round trips and equality with the RFC 4648
    bit-level definitions.  Byte-level facts are established by exhaustive [vm_compute] sweeps over
    one byte (256 cases) or two bytes (65536 cases) and lifted with [sweep1_spec] / [sweep2_spec]. *)
From Coq Require Import NArith List Bool Lia PeanoNat.
From TLXV Require Import C19.Bytes gen.Tables_C19_gen C19.Codec.
Import ListNotations.
Open Scope N_scope.

Ltac sweep1 n P := apply (sweep1_spec n P); [vm_compute; reflexivity | assumption].
Ltac sweep2 n m P := apply (sweep2_spec n m P); [vm_compute; reflexivity | assumption | assumption].

(** * facts about the generated tables *)
Lemma enc64_is_rfc_alphabet : enc64 = rfc_base64_alphabet.
Proof. vm_compute. reflexivity. Qed.
Lemma xdigits_uc_is_rfc_alphabet : xdigits_uc = rfc_base16_alphabet.
Proof. vm_compute. reflexivity. Qed.
Lemma xdigits_lc_is_lc_alphabet : xdigits_lc = lc_base16_alphabet.
Proof. vm_compute. reflexivity. Qed.

Lemma table_DE : forall v, v < 64 -> Dtab (E v) = v.
Proof. intros v H. apply N.eqb_eq. sweep1 64%nat (fun v => Dtab (E v) =? v). Qed.

Lemma Dtab_eq_sign : Dtab 61 = dec_ws.    Proof. vm_compute. reflexivity. Qed.
Lemma Dtab_newline : Dtab 10 = dec_ws.    Proof. vm_compute. reflexivity. Qed.
Lemma dec_ws_val : dec_ws = 254.          Proof. reflexivity. Qed.
Lemma dec_ex_val : dec_ex = 255.          Proof. reflexivity. Qed.

(** * sextet bounds *)
Lemma sext0_lt : forall b0, b0 < 256 -> sext0 b0 < 64.
Proof. intros b0 H. apply N.ltb_lt. sweep1 256%nat (fun b0 => sext0 b0 <? 64). Qed.
Lemma sext1a_lt : forall b0, b0 < 256 -> sext1a b0 < 64.
Proof. intros b0 H. apply N.ltb_lt. sweep1 256%nat (fun b0 => sext1a b0 <? 64). Qed.
Lemma sext1_lt : forall b0 b1, b0 < 256 -> b1 < 256 -> sext1 b0 b1 < 64.
Proof. intros b0 b1 H0 H1. apply N.ltb_lt. sweep2 256%nat 256%nat (fun b0 b1 => sext1 b0 b1 <? 64). Qed.
Lemma sext2a_lt : forall b1, b1 < 256 -> sext2a b1 < 64.
Proof. intros b1 H. apply N.ltb_lt. sweep1 256%nat (fun b1 => sext2a b1 <? 64). Qed.
Lemma sext2_lt : forall b1 b2, b1 < 256 -> b2 < 256 -> sext2 b1 b2 < 64.
Proof. intros b1 b2 H1 H2. apply N.ltb_lt. sweep2 256%nat 256%nat (fun b1 b2 => sext2 b1 b2 <? 64). Qed.
Lemma sext3_lt : forall b2, b2 < 256 -> sext3 b2 < 64.
Proof. intros b2 H. apply N.ltb_lt. sweep1 256%nat (fun b2 => sext3 b2 <? 64). Qed.

(** * the decoder reassembles the bytes *)
Definition dbyte0 (f0 f1 : N) : N := u8 (N.lor (u8 (N.shiftl (N.land f0 63) 2)) (N.shiftr (N.land f1 48) 4)).
Definition dbyte1 (f1 f2 : N) : N := u8 (N.lor (u8 (N.shiftl (N.land f1 15) 4)) (N.shiftr (N.land f2 60) 2)).
Definition dbyte2 (f2 f3 : N) : N := u8 (N.lor (u8 (N.shiftl (N.land f2 3) 6)) (N.shiftr (N.land f3 63) 0)).

Lemma dbyte0_ok : forall b0 b1, b0 < 256 -> b1 < 256 -> dbyte0 (sext0 b0) (sext1 b0 b1) = b0.
Proof. intros b0 b1 H0 H1. apply N.eqb_eq. sweep2 256%nat 256%nat (fun b0 b1 => dbyte0 (sext0 b0) (sext1 b0 b1) =? b0). Qed.
Lemma dbyte0_pad_ok : forall b0, b0 < 256 -> dbyte0 (sext0 b0) (sext1a b0) = b0.
Proof. intros b0 H. apply N.eqb_eq. sweep1 256%nat (fun b0 => dbyte0 (sext0 b0) (sext1a b0) =? b0). Qed.

(* dbyte1 only looks at the low four bits of its first argument, which come from b1 alone *)
Definition dbyte1' (lo4 f2 : N) : N := u8 (N.lor (u8 (N.shiftl lo4 4)) (N.shiftr (N.land f2 60) 2)).
Lemma sext1_low4 : forall b0 b1, b0 < 256 -> b1 < 256 -> N.land (sext1 b0 b1) 15 = N.shiftr (N.land b1 240) 4.
Proof. intros b0 b1 H0 H1. apply N.eqb_eq. sweep2 256%nat 256%nat (fun b0 b1 => N.land (sext1 b0 b1) 15 =? N.shiftr (N.land b1 240) 4). Qed.
Lemma dbyte1'_ok : forall b1 b2, b1 < 256 -> b2 < 256 -> dbyte1' (N.shiftr (N.land b1 240) 4) (sext2 b1 b2) = b1.
Proof. intros b1 b2 H1 H2. apply N.eqb_eq. sweep2 256%nat 256%nat (fun b1 b2 => dbyte1' (N.shiftr (N.land b1 240) 4) (sext2 b1 b2) =? b1). Qed.
Lemma dbyte1'_pad_ok : forall b1, b1 < 256 -> dbyte1' (N.shiftr (N.land b1 240) 4) (sext2a b1) = b1.
Proof. intros b1 H. apply N.eqb_eq. sweep1 256%nat (fun b1 => dbyte1' (N.shiftr (N.land b1 240) 4) (sext2a b1) =? b1). Qed.

Lemma dbyte1_ok : forall b0 b1 b2, b0 < 256 -> b1 < 256 -> b2 < 256 -> dbyte1 (sext1 b0 b1) (sext2 b1 b2) = b1.
Proof.
  intros b0 b1 b2 H0 H1 H2. unfold dbyte1. rewrite sext1_low4 by assumption.
  change (dbyte1' (N.shiftr (N.land b1 240) 4) (sext2 b1 b2) = b1). now apply dbyte1'_ok.
Qed.
Lemma dbyte1_pad_ok : forall b0 b1, b0 < 256 -> b1 < 256 -> dbyte1 (sext1 b0 b1) (sext2a b1) = b1.
Proof.
  intros b0 b1 H0 H1. unfold dbyte1. rewrite sext1_low4 by assumption.
  change (dbyte1' (N.shiftr (N.land b1 240) 4) (sext2a b1) = b1). now apply dbyte1'_pad_ok.
Qed.

Definition dbyte2' (lo2 f3 : N) : N := u8 (N.lor (u8 (N.shiftl lo2 6)) (N.shiftr (N.land f3 63) 0)).
Lemma sext2_low2 : forall b1 b2, b1 < 256 -> b2 < 256 -> N.land (sext2 b1 b2) 3 = N.shiftr (N.land b2 192) 6.
Proof. intros b1 b2 H1 H2. apply N.eqb_eq. sweep2 256%nat 256%nat (fun b1 b2 => N.land (sext2 b1 b2) 3 =? N.shiftr (N.land b2 192) 6). Qed.
Lemma dbyte2'_ok : forall b2, b2 < 256 -> dbyte2' (N.shiftr (N.land b2 192) 6) (sext3 b2) = b2.
Proof. intros b2 H. apply N.eqb_eq. sweep1 256%nat (fun b2 => dbyte2' (N.shiftr (N.land b2 192) 6) (sext3 b2) =? b2). Qed.
Lemma dbyte2_ok : forall b1 b2, b1 < 256 -> b2 < 256 -> dbyte2 (sext2 b1 b2) (sext3 b2) = b2.
Proof.
  intros b1 b2 H1 H2. unfold dbyte2. rewrite sext2_low2 by assumption.
  change (dbyte2' (N.shiftr (N.land b2 192) 6) (sext3 b2) = b2). now apply dbyte2'_ok.
Qed.

(** * one decoder step on a letter of the alphabet / on a skipped character *)
Lemma dec_letter : forall strict v rest step oc, v < 64 ->
  b64_dec_go strict (E v :: rest) step oc =
  match step with
  | O => b64_dec_go strict rest 1%nat (u8 (N.shiftl (N.land v 63) 2))
  | S O => ocons (u8 (N.lor oc (N.shiftr (N.land v 48) 4))) (b64_dec_go strict rest 2%nat (u8 (N.shiftl (N.land v 15) 4)))
  | S (S O) => ocons (u8 (N.lor oc (N.shiftr (N.land v 60) 2))) (b64_dec_go strict rest 3%nat (u8 (N.shiftl (N.land v 3) 6)))
  | _ => ocons (u8 (N.lor oc (N.shiftr (N.land v 63) 0)))
               (b64_dec_go strict rest 0%nat (u8 (N.lor oc (N.shiftr (N.land v 63) 0))))
  end.
Proof.
  intros strict v rest step oc Hv. cbn [b64_dec_go]. rewrite (table_DE v Hv).
  rewrite dec_ex_val, dec_ws_val.
  assert (H1 : (v =? 255) = false) by (apply N.eqb_neq; lia).
  assert (H2 : (254 <=? v) = false) by (apply N.leb_gt; lia).
  rewrite H1, H2. cbn [andb]. reflexivity.
Qed.

Lemma dec_skip : forall strict c rest step oc, Dtab c = dec_ws ->
  b64_dec_go strict (c :: rest) step oc = b64_dec_go strict rest step oc.
Proof.
  intros strict c rest step oc H. cbn [b64_dec_go]. rewrite H, dec_ex_val, dec_ws_val.
  change (254 =? 255) with false. change (254 <=? 254) with true. reflexivity.
Qed.

Lemma dec_group : forall strict b0 b1 b2 rest oc, b0 < 256 -> b1 < 256 -> b2 < 256 ->
  b64_dec_go strict (E (sext0 b0) :: E (sext1 b0 b1) :: E (sext2 b1 b2) :: E (sext3 b2) :: rest) 0%nat oc =
  ocons b0 (ocons b1 (ocons b2 (b64_dec_go strict rest 0%nat b2))).
Proof.
  intros strict b0 b1 b2 rest oc H0 H1 H2.
  rewrite dec_letter by now apply sext0_lt.
  rewrite dec_letter by now apply sext1_lt.
  rewrite dec_letter by now apply sext2_lt.
  rewrite dec_letter by now apply sext3_lt.
  fold (dbyte0 (sext0 b0) (sext1 b0 b1)). fold (dbyte1 (sext1 b0 b1) (sext2 b1 b2)). fold (dbyte2 (sext2 b1 b2) (sext3 b2)).
  rewrite dbyte0_ok, dbyte1_ok, dbyte2_ok by assumption. reflexivity.
Qed.

(** * round trip: for every line-break width (in particular all multiples of four, and 0 = none),
    strict and non-strict decoding *)
Lemma b64_roundtrip_go : forall strict lb s osz lbeg oc, bytes_ok s ->
  b64_dec_go strict (b64_enc_go lb s osz lbeg) 0%nat oc = Some s.
Proof.
  intros strict lb s. induction s as [| a | a b | a b c l IH] using list_ind3; intros osz lbeg oc Hok.
  - reflexivity.
  - apply bytes_ok_cons in Hok. destruct Hok as [Ha _].
    cbn [b64_enc_go].
    rewrite dec_letter by now apply sext0_lt.
    rewrite dec_letter by now apply sext1a_lt.
    rewrite (dec_skip strict 61) by exact Dtab_eq_sign. rewrite (dec_skip strict 61) by exact Dtab_eq_sign.
    cbn [b64_dec_go ocons]. fold (dbyte0 (sext0 a) (sext1a a)). now rewrite dbyte0_pad_ok.
  - apply bytes_ok_cons in Hok. destruct Hok as [Ha Hok]. apply bytes_ok_cons in Hok. destruct Hok as [Hb _].
    cbn [b64_enc_go].
    rewrite dec_letter by now apply sext0_lt.
    rewrite dec_letter by now apply sext1_lt.
    rewrite dec_letter by now apply sext2a_lt.
    rewrite (dec_skip strict 61) by exact Dtab_eq_sign.
    cbn [b64_dec_go ocons]. fold (dbyte0 (sext0 a) (sext1 a b)). fold (dbyte1 (sext1 a b) (sext2a b)).
    rewrite dbyte0_ok, (dbyte1_pad_ok a b) by assumption. reflexivity.
  - apply bytes_ok_cons in Hok. destruct Hok as [Ha Hok]. apply bytes_ok_cons in Hok. destruct Hok as [Hb Hok].
    apply bytes_ok_cons in Hok. destruct Hok as [Hc Hok].
    cbn [b64_enc_go]. rewrite dec_group by assumption.
    destruct ((0 <? lb) && (lb <=? osz + 4 - lbeg)).
    + rewrite (dec_skip strict 10) by exact Dtab_newline. rewrite IH by assumption. reflexivity.
    + rewrite IH by assumption. reflexivity.
Qed.

Theorem base64_roundtrip : forall s line_break strict, bytes_ok s ->
  base64_decode (base64_encode s line_break) strict = Some s.
Proof. intros s lb strict H. unfold base64_decode, base64_encode. now apply b64_roundtrip_go. Qed.

(** * base64_encode without line breaks = RFC 4648 *)
Definition tb := N.testbit.
Lemma g6_0 : forall a, a < 256 -> bitsval [tb a 7; tb a 6; tb a 5; tb a 4; tb a 3; tb a 2] = sext0 a.
Proof. intros a H. apply N.eqb_eq. sweep1 256%nat (fun a => bitsval [tb a 7; tb a 6; tb a 5; tb a 4; tb a 3; tb a 2] =? sext0 a). Qed.
Lemma g6_1 : forall a b, a < 256 -> b < 256 -> bitsval [tb a 1; tb a 0; tb b 7; tb b 6; tb b 5; tb b 4] = sext1 a b.
Proof. intros a b Ha Hb. apply N.eqb_eq. sweep2 256%nat 256%nat (fun a b => bitsval [tb a 1; tb a 0; tb b 7; tb b 6; tb b 5; tb b 4] =? sext1 a b). Qed.
Lemma g6_1pad : forall a, a < 256 -> bitsval [tb a 1; tb a 0; false; false; false; false] = sext1a a.
Proof. intros a H. apply N.eqb_eq. sweep1 256%nat (fun a => bitsval [tb a 1; tb a 0; false; false; false; false] =? sext1a a). Qed.
Lemma g6_2 : forall b c, b < 256 -> c < 256 -> bitsval [tb b 3; tb b 2; tb b 1; tb b 0; tb c 7; tb c 6] = sext2 b c.
Proof. intros b c Hb Hc. apply N.eqb_eq. sweep2 256%nat 256%nat (fun b c => bitsval [tb b 3; tb b 2; tb b 1; tb b 0; tb c 7; tb c 6] =? sext2 b c). Qed.
Lemma g6_2pad : forall b, b < 256 -> bitsval [tb b 3; tb b 2; tb b 1; tb b 0; false; false] = sext2a b.
Proof. intros b H. apply N.eqb_eq. sweep1 256%nat (fun b => bitsval [tb b 3; tb b 2; tb b 1; tb b 0; false; false] =? sext2a b). Qed.
Lemma g6_3 : forall c, c < 256 -> bitsval [tb c 5; tb c 4; tb c 3; tb c 2; tb c 1; tb c 0] = sext3 c.
Proof. intros c H. apply N.eqb_eq. sweep1 256%nat (fun c => bitsval [tb c 5; tb c 4; tb c 3; tb c 2; tb c 1; tb c 0] =? sext3 c). Qed.

Definition rfc_letters (s : bytes) : bytes := map (fun v => nthN rfc_base64_alphabet v 0) (groups6 (flat_map bits8 s)).
Definition eq_pad (l : bytes) : bytes := l ++ repeat 61 (Nat.modulo (Nat.sub 4 (Nat.modulo (length l) 4)) 4).

Lemma rfc4648_base64_unfold : forall s, rfc4648_base64 s = eq_pad (rfc_letters s).
Proof. reflexivity. Qed.

Lemma eq_pad_4 : forall x0 x1 x2 x3 l, eq_pad (x0 :: x1 :: x2 :: x3 :: l) = x0 :: x1 :: x2 :: x3 :: eq_pad l.
Proof.
  intros. unfold eq_pad. cbn [length app].
  replace (S (S (S (S (length l))))) with (length l + 1 * 4)%nat by lia.
  rewrite Nat.mod_add by lia. reflexivity.
Qed.

Lemma rfc_letters_3 : forall a b c l, a < 256 -> b < 256 -> c < 256 ->
  rfc_letters (a :: b :: c :: l) = E (sext0 a) :: E (sext1 a b) :: E (sext2 b c) :: E (sext3 c) :: rfc_letters l.
Proof.
  intros a b c l Ha Hb Hc. unfold rfc_letters, E. rewrite enc64_is_rfc_alphabet.
  rewrite <- g6_0, <- (g6_1 a b), <- (g6_2 b c), <- g6_3 by assumption. reflexivity.
Qed.

Lemma b64_enc_go_is_rfc : forall s osz lbeg, bytes_ok s -> b64_enc_go 0 s osz lbeg = eq_pad (rfc_letters s).
Proof.
  intros s.
  induction s as [| a | a b | a b c l IH] using list_ind3; intros osz lbeg Hok.
  - reflexivity.
  - apply bytes_ok_cons in Hok. destruct Hok as [Ha _].
    cbn [b64_enc_go]. unfold rfc_letters, E. rewrite enc64_is_rfc_alphabet.
    rewrite <- g6_0, <- g6_1pad by assumption. reflexivity.
  - apply bytes_ok_cons in Hok. destruct Hok as [Ha Hok]. apply bytes_ok_cons in Hok. destruct Hok as [Hb _].
    cbn [b64_enc_go]. unfold rfc_letters, E. rewrite enc64_is_rfc_alphabet.
    rewrite <- g6_0, <- (g6_1 a b), <- g6_2pad by assumption. reflexivity.
  - apply bytes_ok_cons in Hok. destruct Hok as [Ha Hok]. apply bytes_ok_cons in Hok. destruct Hok as [Hb Hok].
    apply bytes_ok_cons in Hok. destruct Hok as [Hc Hok].
    cbn [b64_enc_go]. change (0 <? 0) with false. cbn [andb].
    rewrite rfc_letters_3, eq_pad_4 by assumption. rewrite IH by assumption. reflexivity.
Qed.

Theorem base64_encode_is_rfc4648 : forall s, bytes_ok s -> base64_encode s 0 = rfc4648_base64 s.
Proof. intros s H. rewrite rfc4648_base64_unfold. unfold base64_encode. now apply b64_enc_go_is_rfc. Qed.

(** with line breaks: removing the line feeds gives the RFC encoding (the alphabet and '=' are not line feeds) *)
Lemma E_not_lf : forall v, v < 64 -> (E v =? 10) = false.
Proof. intros v H. apply negb_true_iff. sweep1 64%nat (fun v => negb (E v =? 10)). Qed.

Lemma strip_lf_keep : forall x l, (x =? 10) = false -> strip_lf (x :: l) = x :: strip_lf l.
Proof. intros x l H. unfold strip_lf. cbn [filter]. rewrite H. reflexivity. Qed.
Lemma strip_lf_drop : forall l, strip_lf (10 :: l) = strip_lf l.
Proof. reflexivity. Qed.

Lemma b64_strip_lf_go : forall lb s osz lbeg osz' lbeg', bytes_ok s ->
  strip_lf (b64_enc_go lb s osz lbeg) = b64_enc_go 0 s osz' lbeg'.
Proof.
  intros lb s. induction s as [| a | a b | a b c l IH] using list_ind3; intros osz lbeg osz' lbeg' Hok.
  - reflexivity.
  - apply bytes_ok_cons in Hok. destruct Hok as [Ha _]. cbn [b64_enc_go].
    rewrite strip_lf_keep by (apply E_not_lf; now apply sext0_lt).
    rewrite strip_lf_keep by (apply E_not_lf; now apply sext1a_lt). reflexivity.
  - apply bytes_ok_cons in Hok. destruct Hok as [Ha Hok]. apply bytes_ok_cons in Hok. destruct Hok as [Hb _].
    cbn [b64_enc_go].
    rewrite strip_lf_keep by (apply E_not_lf; now apply sext0_lt).
    rewrite strip_lf_keep by (apply E_not_lf; now apply sext1_lt).
    rewrite strip_lf_keep by (apply E_not_lf; now apply sext2a_lt). reflexivity.
  - apply bytes_ok_cons in Hok. destruct Hok as [Ha Hok]. apply bytes_ok_cons in Hok. destruct Hok as [Hb Hok].
    apply bytes_ok_cons in Hok. destruct Hok as [Hc Hok].
    cbn [b64_enc_go]. change (0 <? 0) with false. cbn [andb].
    rewrite strip_lf_keep by (apply E_not_lf; now apply sext0_lt).
    rewrite strip_lf_keep by (apply E_not_lf; now apply sext1_lt).
    rewrite strip_lf_keep by (apply E_not_lf; now apply sext2_lt).
    rewrite strip_lf_keep by (apply E_not_lf; now apply sext3_lt).
    destruct ((0 <? lb) && (lb <=? osz + 4 - lbeg)).
    + rewrite strip_lf_drop. rewrite (IH _ _ (osz' + 4) lbeg') by assumption. reflexivity.
    + rewrite (IH _ _ (osz' + 4) lbeg') by assumption. reflexivity.
Qed.

Theorem base64_encode_linebreaks_is_rfc4648 : forall s line_break, bytes_ok s ->
  strip_lf (base64_encode s line_break) = rfc4648_base64 s.
Proof.
  intros s lb H. rewrite <- base64_encode_is_rfc4648 by assumption. unfold base64_encode.
  now apply b64_strip_lf_go.
Qed.

(** * hexdump *)
Lemma g4_hi : forall b, b < 256 -> bitsval [tb b 7; tb b 6; tb b 5; tb b 4] = N.shiftr (N.land b 240) 4.
Proof. intros b H. apply N.eqb_eq. sweep1 256%nat (fun b => bitsval [tb b 7; tb b 6; tb b 5; tb b 4] =? N.shiftr (N.land b 240) 4). Qed.
Lemma g4_lo : forall b, b < 256 -> bitsval [tb b 3; tb b 2; tb b 1; tb b 0] = N.land b 15.
Proof. intros b H. apply N.eqb_eq. sweep1 256%nat (fun b => bitsval [tb b 3; tb b 2; tb b 1; tb b 0] =? N.land b 15). Qed.

Lemma hexdump_with_is_base16 : forall xd s, bytes_ok s -> hexdump_with xd s = rfc4648_base16 xd s.
Proof.
  intros xd s. induction s as [|b s IH]; intros Hok.
  - reflexivity.
  - apply bytes_ok_cons in Hok. destruct Hok as [Hb Hok].
    unfold rfc4648_base16 in *. cbn [hexdump_with flat_map app]. fold (hexdump_with xd s). rewrite IH by assumption.
    rewrite <- g4_hi, <- g4_lo by assumption. reflexivity.
Qed.

Theorem hexdump_is_rfc4648 : forall s, bytes_ok s -> hexdump s = rfc4648_base16 rfc_base16_alphabet s.
Proof. intros s H. unfold hexdump. rewrite xdigits_uc_is_rfc_alphabet. now apply hexdump_with_is_base16. Qed.

Theorem hexdump_lc_is_base16_lowercase : forall s, bytes_ok s -> hexdump_lc s = rfc4648_base16 lc_base16_alphabet s.
Proof. intros s H. unfold hexdump_lc. rewrite xdigits_lc_is_lc_alphabet. now apply hexdump_with_is_base16. Qed.

Definition hex_byte_ok (xd : list N) (b : N) : bool :=
  match assocN hexparse_hi (nthN xd (N.shiftr (N.land b 240) 4) 0), assocN hexparse_lo (nthN xd (N.land b 15) 0) with
  | Some h, Some l => N.lor (N.lor 0 h) l =? b
  | _, _ => false
  end.

Lemma parse_hexdump_with : forall xd, sweep1 256%nat (hex_byte_ok xd) = true ->
  forall s, bytes_ok s -> parse_hexdump (hexdump_with xd s) = Some s.
Proof.
  intros xd Hsw s. induction s as [|b s IH]; intros Hok.
  - reflexivity.
  - apply bytes_ok_cons in Hok. destruct Hok as [Hb Hok].
    pose proof (sweep1_spec _ _ Hsw b Hb) as Hbyte. unfold hex_byte_ok in Hbyte.
    cbn [hexdump_with flat_map app parse_hexdump]. fold (hexdump_with xd s).
    destruct (assocN hexparse_hi (nthN xd (N.shiftr (N.land b 240) 4) 0)) as [h|]; [|discriminate].
    destruct (assocN hexparse_lo (nthN xd (N.land b 15) 0)) as [l|]; [|discriminate].
    apply N.eqb_eq in Hbyte. rewrite Hbyte, IH by assumption. reflexivity.
Qed.

Theorem hexdump_roundtrip : forall s, bytes_ok s -> parse_hexdump (hexdump s) = Some s.
Proof. apply parse_hexdump_with. vm_compute. reflexivity. Qed.

Theorem hexdump_lc_roundtrip : forall s, bytes_ok s -> parse_hexdump (hexdump_lc s) = Some s.
Proof. apply parse_hexdump_with. vm_compute. reflexivity. Qed.

(** the hypotheses are satisfiable by a non-trivial input (and the functions compute what RFC 4648 section 10 lists) *)
Example base64_foobar :
  bytes_ok [102; 111; 111; 98; 97] /\
  base64_encode [102; 111; 111; 98; 97] 4 = [90; 109; 57; 118; 10; 89; 109; 69; 61] /\
  base64_decode [90; 109; 57; 118; 10; 89; 109; 69; 61] true = Some [102; 111; 111; 98; 97] /\
  hexdump [0; 171; 255] = [48; 48; 65; 66; 70; 70].
Proof. repeat split; try reflexivity. repeat constructor. Qed.
