(** C19 — proofs about split / join / join_quoted / split_quoted / replace_all. *)
From Coq Require Import NArith List Bool Lia PeanoNat.
From TLXV Require Import C19.Bytes C19.Codec C19.Split.
Import ListNotations.
Open Scope N_scope.

(** * join *)
Lemma join_cons2 : forall glue p q ps, join glue (p :: q :: ps) = p ++ glue ++ join glue (q :: ps).
Proof. intros. unfold join. cbn [flat_map]. now rewrite <- !app_assoc. Qed.

Lemma join_cons_ne : forall glue p X, X <> [] -> join glue (p :: X) = p ++ glue ++ join glue X.
Proof. intros glue p [|q ps] H; [congruence | apply join_cons2]. Qed.

Lemma join_single : forall glue p, join glue [p] = p.
Proof. intros. unfold join. cbn. apply app_nil_r. Qed.

(** * split(char) *)
Lemma split_char_go_nosep : forall sep p rest cur cnt limit, ~ In sep p ->
  split_char_go sep (p ++ rest) cur cnt limit = split_char_go sep rest (cur ++ p) cnt limit.
Proof.
  intros sep p. induction p as [|c p IH]; intros rest cur cnt limit Hn.
  - now rewrite app_nil_r.
  - cbn [app split_char_go]. destruct (c =? sep) eqn:E.
    + apply N.eqb_eq in E. subst. exfalso. apply Hn. now left.
    + rewrite IH by (intros Hin; apply Hn; now right). now rewrite <- app_assoc.
Qed.

Lemma split_char_go_join : forall sep limit parts p cur cnt,
  (forall x, In x (p :: parts) -> ~ In sep x) -> cnt + 1 + N.of_nat (length parts) <= limit ->
  split_char_go sep (join_char sep (p :: parts)) cur cnt limit = (cur ++ p) :: parts.
Proof.
  intros sep limit parts. induction parts as [|q parts IH]; intros p cur cnt Hn Hl.
  - unfold join_char. rewrite join_single. rewrite <- (app_nil_r p) at 1.
    rewrite split_char_go_nosep by (apply Hn; now left). reflexivity.
  - unfold join_char in *. rewrite join_cons2. rewrite split_char_go_nosep by (apply Hn; now left).
    cbn [app split_char_go]. rewrite N.eqb_refl.
    assert (Hlim : (limit <=? cnt + 1) = false) by (apply N.leb_gt; cbn [length] in Hl; lia).
    rewrite Hlim. rewrite IH.
    + reflexivity.
    + intros x Hx. apply Hn. now right.
    + cbn [length] in Hl. lia.
Qed.

Theorem split_char_join : forall sep parts limit,
  parts <> [] -> (forall p, In p parts -> ~ In sep p) -> N.of_nat (length parts) <= limit ->
  split_char sep (join_char sep parts) limit = parts.
Proof.
  intros sep [|p parts] limit Hne Hn Hl; [congruence|].
  unfold split_char. assert (H0 : (limit =? 0) = false) by (apply N.eqb_neq; cbn [length] in Hl; lia).
  rewrite H0. rewrite split_char_go_join; [reflexivity | assumption | cbn [length] in Hl; lia].
Qed.

(** the converse direction, for every string: joining the pieces gives the string back (any limit >= 1) *)
Lemma split_char_go_ne : forall sep str cur cnt limit, split_char_go sep str cur cnt limit <> [].
Proof.
  intros sep str. induction str as [|c rest IH]; intros cur cnt limit; cbn [split_char_go]; [discriminate|].
  destruct (c =? sep); [destruct (limit <=? cnt + 1); discriminate | apply IH].
Qed.

Lemma join_split_char_go : forall sep limit str cur cnt,
  join_char sep (split_char_go sep str cur cnt limit) = cur ++ str.
Proof.
  intros sep limit str. induction str as [|c rest IH]; intros cur cnt; cbn [split_char_go].
  - unfold join_char. now rewrite join_single, app_nil_r.
  - destruct (c =? sep) eqn:E.
    + apply N.eqb_eq in E. subst c. destruct (limit <=? cnt + 1).
      * unfold join_char. now rewrite join_single.
      * unfold join_char in *. rewrite join_cons_ne by apply split_char_go_ne. rewrite IH. reflexivity.
    + rewrite IH. now rewrite <- app_assoc.
Qed.

Theorem join_split_char : forall sep str limit, 1 <= limit ->
  join_char sep (split_char sep str limit) = str.
Proof.
  intros sep str limit H. unfold split_char.
  assert (H0 : (limit =? 0) = false) by (apply N.eqb_neq; lia). rewrite H0. apply join_split_char_go.
Qed.

(** * split(string) *)
Lemma no_early_matchb_spec : forall sep p tail,
  no_early_matchb sep p tail = true <->
  (forall i, (i < length p)%nat -> prefixb sep (skipn i p ++ tail) = false).
Proof.
  intros sep p tail. induction p as [|c p IH]; cbn [no_early_matchb].
  - split; [intros _ i Hi; cbn in Hi; lia | reflexivity].
  - rewrite andb_true_iff, negb_true_iff, IH. split.
    + intros [H0 H] [|i] Hi; [exact H0 | apply H; cbn [length] in Hi; lia].
    + intros H. split; [apply (H 0%nat); cbn; lia | intros i Hi; apply (H (S i)); cbn [length]; lia].
Qed.

Lemma split_str_go_part : forall sep p tail cur cnt limit, no_early_matchb sep p tail = true ->
  split_str_go sep (p ++ tail) 0 cur cnt limit = split_str_go sep tail 0 (cur ++ p) cnt limit.
Proof.
  intros sep p. induction p as [|c p IH]; intros tail cur cnt limit H.
  - now rewrite app_nil_r.
  - cbn [no_early_matchb] in H. apply andb_true_iff in H. destruct H as [H0 H]. apply negb_true_iff in H0.
    cbn [app split_str_go]. cbn [app] in H0. rewrite H0. rewrite IH by assumption. now rewrite <- app_assoc.
Qed.

Lemma split_str_go_skip : forall sep s rest cur cnt limit,
  split_str_go sep (s ++ rest) (length s) cur cnt limit = split_str_go sep rest 0 cur cnt limit.
Proof.
  intros sep s. induction s as [|c s IH]; intros rest cur cnt limit.
  - reflexivity.
  - cbn [app length split_str_go]. apply IH.
Qed.

Lemma split_str_go_sep : forall sep rest cur cnt limit, sep <> [] -> (limit <=? cnt + 1) = false ->
  split_str_go sep (sep ++ rest) 0 cur cnt limit = cur :: split_str_go sep rest 0 [] (cnt + 1) limit.
Proof.
  intros [|c sep'] rest cur cnt limit Hne Hl; [congruence|].
  cbn [app split_str_go].
  change (c :: sep' ++ rest) with ((c :: sep') ++ rest). rewrite prefixb_app. rewrite Hl.
  cbn [length]. rewrite Nat.sub_1_r. cbn [Nat.pred]. now rewrite split_str_go_skip.
Qed.

Lemma split_str_go_join : forall sep limit, sep <> [] -> forall parts p cur cnt,
  cleanb sep (p :: parts) = true -> cnt + 1 + N.of_nat (length parts) <= limit ->
  split_str_go sep (join sep (p :: parts)) 0 cur cnt limit = (cur ++ p) :: parts.
Proof.
  intros sep limit Hne parts. induction parts as [|q parts IH]; intros p cur cnt Hc Hl.
  - rewrite join_single. cbn [cleanb] in Hc. rewrite <- (app_nil_r p) at 1.
    rewrite split_str_go_part by assumption. reflexivity.
  - rewrite join_cons2. change (cleanb sep (p :: q :: parts)) with
      (no_early_matchb sep p (sep ++ join sep (q :: parts)) && cleanb sep (q :: parts)) in Hc.
    apply andb_true_iff in Hc. destruct Hc as [Hp Hc].
    rewrite split_str_go_part by assumption.
    rewrite split_str_go_sep by (try assumption; apply N.leb_gt; cbn [length] in Hl; lia).
    rewrite IH; [reflexivity | assumption | cbn [length] in Hl; lia].
Qed.

(** [cleanb sep parts]: in [join sep parts] no occurrence of [sep] begins inside a part — i.e. the
    separator neither occurs in a part nor straddles the end of one (see [no_early_matchb_spec]). *)
Theorem split_str_join : forall sep parts limit,
  sep <> [] -> parts <> [] -> cleanb sep parts = true -> N.of_nat (length parts) <= limit ->
  split_str sep (join sep parts) limit = parts.
Proof.
  intros sep [|p parts] limit Hs Hne Hc Hl; [congruence|].
  unfold split_str. assert (H0 : (limit =? 0) = false) by (apply N.eqb_neq; cbn [length] in Hl; lia).
  rewrite H0. destruct sep as [|c sep']; [congruence|].
  rewrite split_str_go_join; [reflexivity | assumption | assumption | cbn [length] in Hl; lia].
Qed.

Lemma split_str_go_ne : forall sep str skip cur cnt limit, split_str_go sep str skip cur cnt limit <> [].
Proof.
  intros sep str. induction str as [|c rest IH]; intros skip cur cnt limit; cbn [split_str_go]; [discriminate|].
  destruct skip; [|apply IH].
  destruct (prefixb sep (c :: rest)); [destruct (limit <=? cnt + 1); discriminate | apply IH].
Qed.

Lemma prefixb_skip_tail : forall (sep : bytes) c rest, sep <> [] -> prefixb sep (c :: rest) = true ->
  (length sep - 1 <= length rest)%nat /\ c :: rest = sep ++ skipn (length sep - 1) rest.
Proof.
  intros sep c rest Hne H. apply prefixb_spec in H. destruct H as [t Ht].
  destruct sep as [|d sep']; [congruence|]. cbn [app] in Ht. inversion Ht; subst.
  cbn [length]. rewrite Nat.sub_1_r. cbn [Nat.pred]. split.
  - rewrite app_length. lia.
  - cbn [app]. f_equal. rewrite skipn_app, skipn_all, Nat.sub_diag. reflexivity.
Qed.

(** joining the pieces with the separator gives the string back (any limit >= 1) *)
Lemma join_split_str_go : forall sep limit, sep <> [] -> forall str k cur cnt, (k <= length str)%nat ->
  join sep (split_str_go sep str k cur cnt limit) = cur ++ skipn k str.
Proof.
  intros sep limit Hne str. induction str as [|c rest IH]; intros k cur cnt Hk.
  - cbn [length] in Hk. assert (k = 0%nat) by lia. subst. cbn [split_str_go skipn]. now rewrite join_single, app_nil_r.
  - cbn [split_str_go]. destruct k as [|k].
    + cbn [skipn]. destruct (prefixb sep (c :: rest)) eqn:Ep.
      * destruct (limit <=? cnt + 1).
        -- now rewrite join_single.
        -- destruct (prefixb_skip_tail sep c rest Hne Ep) as [Hlen Heq].
           rewrite join_cons_ne by apply split_str_go_ne. rewrite IH by assumption.
           cbn [app]. now rewrite <- Heq.
      * rewrite IH by lia. cbn [skipn]. now rewrite <- app_assoc.
    + cbn [skipn]. apply IH. cbn [length] in Hk. lia.
Qed.

Theorem join_split_str : forall sep str limit, sep <> [] -> 1 <= limit ->
  join sep (split_str sep str limit) = str.
Proof.
  intros sep str limit Hne H. unfold split_str.
  assert (H0 : (limit =? 0) = false) by (apply N.eqb_neq; lia). rewrite H0.
  destruct sep as [|c sep']; [congruence|].
  rewrite join_split_str_go; [reflexivity | discriminate | lia].
Qed.

(** * replace_all = leftmost non-overlapping replacement = join instead (split needle s) *)
Lemma replace_all_go_split : forall needle instead limit str k cur cnt,
  cnt + N.of_nat (length str) < limit ->
  join instead (split_str_go needle str k cur cnt limit) = cur ++ replace_all_go needle instead str k.
Proof.
  intros needle instead limit str. induction str as [|c rest IH]; intros k cur cnt Hl.
  - cbn [split_str_go replace_all_go]. now rewrite join_single, app_nil_r.
  - cbn [split_str_go replace_all_go]. cbn [length] in Hl. destruct k as [|k].
    + destruct (prefixb needle (c :: rest)).
      * assert (Hlim : (limit <=? cnt + 1) = false) by (apply N.leb_gt; lia). rewrite Hlim.
        rewrite join_cons_ne by apply split_str_go_ne. rewrite IH by lia. reflexivity.
      * rewrite IH by lia. now rewrite <- app_assoc.
    + apply IH. lia.
Qed.

Theorem replace_all_is_join_split : forall s needle instead limit,
  needle <> [] -> N.of_nat (length s) < limit ->
  replace_all s needle instead = join instead (split_str needle s limit).
Proof.
  intros s needle instead limit Hne Hl. unfold replace_all, split_str.
  assert (H0 : (limit =? 0) = false) by (apply N.eqb_neq; lia). rewrite H0.
  destruct needle as [|c n']; [congruence|].
  rewrite replace_all_go_split by lia. reflexivity.
Qed.

(** replace_first: the first occurrence is replaced, the text before it contains none *)
Theorem replace_first_spec : forall s needle instead,
  (exists a b, s = a ++ needle ++ b /\ replace_first s needle instead = a ++ instead ++ b /\
               (forall i, (i < length a)%nat -> prefixb needle (skipn i s) = false)) \/
  (replace_first s needle instead = s /\ forall i, (i <= length s)%nat -> prefixb needle (skipn i s) = false).
Proof.
  intros s needle instead. induction s as [|c rest IH].
  - cbn [replace_first]. destruct (prefixb needle []) eqn:E.
    + left. exists [], []. apply prefixb_spec in E. destruct E as [t Ht]. symmetry in Ht.
      apply app_eq_nil in Ht. destruct Ht as [-> ->]. cbn. repeat split; try reflexivity. intros i Hi. lia.
    + right. split; [reflexivity|]. intros i Hi. cbn [length] in Hi. assert (i = 0%nat) by lia. now subst.
  - cbn [replace_first]. destruct (prefixb needle (c :: rest)) eqn:E.
    + left. pose proof E as E'. apply prefixb_spec in E'. destruct E' as [t Ht]. exists [], t. cbn [app length].
      split; [exact Ht|]. split.
      * rewrite Ht at 1. rewrite skipn_app, skipn_all, Nat.sub_diag. reflexivity.
      * intros i Hi. lia.
    + destruct IH as [[a [b [Hs [Hr Hno]]]] | [Hr Hno]].
      * left. exists (c :: a), b. cbn [app length]. rewrite Hs at 1. rewrite Hr. repeat split; try reflexivity.
        intros [|i] Hi; [exact E | cbn [skipn]; apply Hno; lia].
      * right. rewrite Hr. split; [reflexivity|]. intros [|i] Hi; [exact E | cbn [skipn]; apply Hno; cbn [length] in Hi; lia].
Qed.

(** * split_quoted (join_quoted v) = v *)
Section Quoted.
  Variables sep quote escape : N.
  Hypothesis Hsq : sep <> quote.
  Hypothesis Hqe : quote <> escape.
  Hypothesis Hq_nrt : quote <> 110 /\ quote <> 114 /\ quote <> 116.
  Hypothesis He_nrt : escape <> 110 /\ escape <> 114 /\ escape <> 116.

  Let go := sq_go sep quote escape.

  Lemma neqb : forall a b : N, a <> b -> (a =? b) = false.
  Proof. intros a b H. now apply N.eqb_neq. Qed.

  Lemma sq_escape_char : forall c entry rest,
    go (jq_escape quote escape c ++ rest) SqQuoted entry = go rest SqQuoted (entry ++ [c]).
  Proof.
    intros c entry rest. unfold jq_escape, go.
    destruct Hq_nrt as (Hq1 & Hq2 & Hq3). destruct He_nrt as (He1 & He2 & He3).
    destruct (c =? quote) eqn:Eq; [|destruct (c =? escape) eqn:Ee]; cbn [orb].
    - apply N.eqb_eq in Eq. subst c. cbn [app sq_go].
      rewrite (neqb escape quote) by congruence. rewrite N.eqb_refl. rewrite N.eqb_refl. reflexivity.
    - apply N.eqb_eq in Ee. subst c. cbn [app sq_go].
      rewrite (neqb escape quote) by congruence. rewrite N.eqb_refl. reflexivity.
    - destruct (c =? 10) eqn:E10; [|destruct (c =? 13) eqn:E13; [|destruct (c =? 9) eqn:E9]].
      + apply N.eqb_eq in E10. subst c. cbn [app sq_go].
        rewrite (neqb escape quote) by congruence. rewrite N.eqb_refl.
        rewrite (neqb 110 quote) by congruence. rewrite (neqb 110 escape) by congruence. reflexivity.
      + apply N.eqb_eq in E13. subst c. cbn [app sq_go].
        rewrite (neqb escape quote) by congruence. rewrite N.eqb_refl.
        rewrite (neqb 114 quote) by congruence. rewrite (neqb 114 escape) by congruence. reflexivity.
      + apply N.eqb_eq in E9. subst c. cbn [app sq_go].
        rewrite (neqb escape quote) by congruence. rewrite N.eqb_refl.
        rewrite (neqb 116 quote) by congruence. rewrite (neqb 116 escape) by congruence. reflexivity.
      + cbn [app sq_go]. rewrite Eq, Ee. reflexivity.
  Qed.

  Lemma sq_escape_loop : forall s entry rest,
    go (flat_map (jq_escape quote escape) s ++ rest) SqQuoted entry = go rest SqQuoted (entry ++ s).
  Proof.
    induction s as [|c s IH]; intros entry rest.
    - now rewrite app_nil_r.
    - cbn [flat_map]. rewrite <- app_assoc. rewrite sq_escape_char. rewrite IH. now rewrite <- app_assoc.
  Qed.

  Lemma sq_plain_loop : forall s entry rest, memb sep s = false ->
    go (s ++ rest) SqPlain entry = go rest SqPlain (entry ++ s).
  Proof.
    induction s as [|c s IH]; intros entry rest Hn.
    - now rewrite app_nil_r.
    - unfold memb in Hn. cbn [existsb] in Hn. apply orb_false_iff in Hn. destruct Hn as [Hc Hn].
      unfold go in *. cbn [app sq_go]. rewrite N.eqb_sym in Hc. rewrite Hc. rewrite IH by exact Hn. now rewrite <- app_assoc.
  Qed.

  Definition field := jq_field_with (jq_needs_quote sep quote) quote escape.

  (** a written field, at the end of the text or followed by the separator, is read back verbatim *)
  Lemma sq_field_end : forall s, go (field s) SqOut [] = Some [s].
  Proof.
    intros s. unfold field, jq_field_with. destruct (jq_needs_quote sep quote s) eqn:En.
    - unfold go. cbn [sq_go]. rewrite (neqb quote sep) by congruence. rewrite N.eqb_refl.
      fold go. rewrite sq_escape_loop. unfold go. cbn [app sq_go]. rewrite N.eqb_refl. reflexivity.
    - destruct s as [|c s']; [discriminate|]. cbn [jq_needs_quote] in En. apply orb_false_iff in En. destruct En as [Hcq Hm].
      pose proof Hm as Hm'. unfold memb in Hm'. cbn [existsb] in Hm'. apply orb_false_iff in Hm'. destruct Hm' as [Hcs Hm'].
      unfold go. cbn [sq_go]. rewrite N.eqb_sym in Hcs. rewrite Hcs, Hcq. fold go.
      rewrite <- (app_nil_r s') at 1. rewrite sq_plain_loop by exact Hm'. reflexivity.
  Qed.

  Lemma sq_field_sep : forall s rest, go (field s ++ sep :: rest) SqOut [] = ocons s (go rest SqOut []).
  Proof.
    intros s rest. unfold field, jq_field_with. destruct (jq_needs_quote sep quote s) eqn:En.
    - unfold go. cbn [app sq_go]. rewrite (neqb quote sep) by congruence. rewrite N.eqb_refl.
      fold go. rewrite <- app_assoc. rewrite sq_escape_loop. unfold go. cbn [app sq_go]. rewrite !N.eqb_refl. reflexivity.
    - destruct s as [|c s']; [discriminate|]. cbn [jq_needs_quote] in En. apply orb_false_iff in En. destruct En as [Hcq Hm].
      pose proof Hm as Hm'. unfold memb in Hm'. cbn [existsb] in Hm'. apply orb_false_iff in Hm'. destruct Hm' as [Hcs Hm'].
      unfold go. cbn [app sq_go]. rewrite N.eqb_sym in Hcs. rewrite Hcs, Hcq. fold go.
      rewrite sq_plain_loop by exact Hm'. unfold go. cbn [app sq_go]. rewrite N.eqb_refl. reflexivity.
  Qed.

  Lemma sq_fields : forall ss s,
    go (field s ++ flat_map (fun t => sep :: field t) ss) SqOut [] = Some (s :: ss).
  Proof.
    induction ss as [|t ss IH]; intros s.
    - cbn [flat_map]. rewrite app_nil_r. apply sq_field_end.
    - cbn [flat_map]. cbn [app]. rewrite sq_field_sep. rewrite IH. reflexivity.
  Qed.

  Theorem split_join_quoted_sec : forall v, split_quoted (join_quoted v sep quote escape) sep quote escape = Some v.
  Proof.
    intros [|s ss]; [reflexivity|]. unfold split_quoted, join_quoted, join_quoted_with. apply sq_fields.
  Qed.
End Quoted.

Theorem split_join_quoted : forall v sep quote escape,
  sep <> quote -> quote <> escape ->
  quote <> 110 /\ quote <> 114 /\ quote <> 116 -> escape <> 110 /\ escape <> 114 /\ escape <> 116 ->
  split_quoted (join_quoted v sep quote escape) sep quote escape = Some v.
Proof. intros. now apply split_join_quoted_sec. Qed.

(** * the code as shipped in 704fd0b violates the same statements: concrete witnesses *)
Lemma split_str_shipped_refuted :
  split_str_shipped [44] [97; 44] npos = Some [[97; 44]] /\ split_str [44] [97; 44] npos = [[97]; []] /\
  split_str_shipped [97; 97] [97; 97; 97; 97] npos = None /\ split_str [97; 97] [97; 97; 97; 97] npos = [[]; []; []].
Proof. vm_compute. repeat split; reflexivity. Qed.

Lemma join_quoted_shipped_refuted :
  split_quoted (join_quoted_shipped [[]; [98]] 32 34 92) 32 34 92 = Some [[98]] /\
  split_quoted (join_quoted_shipped [[34; 97]] 32 34 92) 32 34 92 = None /\
  split_quoted (join_quoted [[]; [98]] 32 34 92) 32 34 92 = Some [[]; [98]] /\
  split_quoted (join_quoted [[34; 97]] 32 34 92) 32 34 92 = Some [[34; 97]].
Proof. vm_compute. repeat split; reflexivity. Qed.

(** the hypotheses of the round-trip theorems are satisfiable by non-trivial inputs *)
Example split_join_hyps :
  cleanb [44; 32] [[97; 44]; []; [32; 98]] = true /\
  split_str [44; 32] (join [44; 32] [[97; 44]; []; [32; 98]]) npos = [[97; 44]; []; [32; 98]] /\
  cleanb [97; 97] [[97]; [98]] = false /\
  split_quoted (join_quoted [[]; [34; 32; 92; 10]; [97]] 32 34 92) 32 34 92 = Some [[]; [34; 32; 92; 10]; [97]].
Proof. vm_compute. repeat split; reflexivity. Qed.

(** limit = 0: nothing is returned; empty separator: every character is a part of its own, the limit is honoured *)
Lemma split_limit_zero : forall sepc seps str, split_char sepc str 0 = [] /\ split_str seps str 0 = [].
Proof. intros. split; reflexivity. Qed.

Lemma join_empty_singletons : forall l : bytes, join [] (map (fun c => [c]) l) = l.
Proof.
  induction l as [|c r IH]; [reflexivity|]. cbn [map]. destruct r as [|d r']; [reflexivity|].
  rewrite join_cons_ne by discriminate. rewrite IH. reflexivity.
Qed.

Lemma join_split_empty_go : forall limit str cnt, join [] (split_empty_go str cnt limit) = str.
Proof.
  intros limit str. induction str as [|c rest IH]; intros cnt; cbn [split_empty_go]; [reflexivity|].
  destruct (limit <=? cnt + 1); [apply join_single|].
  destruct rest as [|d rest']; [reflexivity|].
  rewrite join_cons_ne.
  - rewrite IH. reflexivity.
  - cbn [split_empty_go]. destruct (limit <=? cnt + 1 + 1); discriminate.
Qed.

Lemma split_str_empty_shipped_refuted :
  split_str_empty_shipped [97; 98; 99; 100; 101; 102] 2 = [[97]; [98]; [99]; [100]; [101]; [102]] /\
  split_str [] [97; 98; 99; 100; 101; 102] 2 = [[97]; [98; 99; 100; 101; 102]].
Proof. vm_compute. split; reflexivity. Qed.
