(** C19 — models of split.cpp, join.cpp (join_generic.hpp), join_quoted.cpp, split_quoted.cpp, replace.cpp.
    Definitions only; proofs are in SplitProofs.v.  [std::string::size_type] values are [N]; [npos] = 2^64-1. *)
From Coq Require Import NArith List Bool.
From TLXV Require Import C19.Bytes C19.Codec.
Import ListNotations.
Open Scope N_scope.

Definition npos : N := 18446744073709551615.

(** * split(char sep, str, limit)   (split.cpp:67-94)
    [cur] = the range [last, it) ; [cnt] = into->size() *)
Fixpoint split_char_go (sep : N) (str cur : bytes) (cnt limit : N) : list bytes :=
  match str with
  | [] => [cur]
  | c :: rest =>
      if c =? sep then
        if limit <=? cnt + 1 then [cur ++ c :: rest]
        else cur :: split_char_go sep rest [] (cnt + 1) limit
      else split_char_go sep rest (cur ++ [c]) cnt limit
  end.

Definition split_char (sep : N) (str : bytes) (limit : N) : list bytes :=
  if limit =? 0 then [] else split_char_go sep str [] 0 limit.

(** * split(string_view sep, str, limit)   (split.cpp:96-137, with fixes/C19/01 and 02 applied)
    [skip] > 0 : the iterator is being moved behind a separator that was just matched
    ([it = last - 1; ++it]); no match is attempted there. *)
Fixpoint split_str_go (sep str : bytes) (skip : nat) (cur : bytes) (cnt limit : N) : list bytes :=
  match str with
  | [] => [cur]
  | c :: rest =>
      match skip with
      | S k => split_str_go sep rest k cur cnt limit
      | O =>
          if prefixb sep str then
            if limit <=? cnt + 1 then [cur ++ str]
            else cur :: split_str_go sep rest (length sep - 1) [] (cnt + 1) limit
          else split_str_go sep rest 0 (cur ++ [c]) cnt limit
      end
  end.

(** empty separator (split.cpp:105-120, with fixes/C19/11 applied): every character is a part of its own until
    limit - 1 parts have been emitted; the rest of the string is the last part *)
Fixpoint split_empty_go (str : bytes) (cnt limit : N) : list bytes :=
  match str with
  | [] => []
  | c :: rest =>
      if limit <=? cnt + 1 then [str]
      else [c] :: split_empty_go rest (cnt + 1) limit
  end.

Definition split_str (sep str : bytes) (limit : N) : list bytes :=
  if limit =? 0 then []
  else match sep with
       | [] => split_empty_go str 0 limit
       | _ => split_str_go sep str 0 [] 0 limit
       end.

(** the empty-separator branch as shipped in 704fd0b: the limit is not consulted *)
Definition split_str_empty_shipped (str : bytes) (limit : N) : list bytes :=
  if limit =? 0 then [] else map (fun c => [c]) str.

(** min_fields overloads: [into->resize(min_fields)] when shorter *)
Definition pad_fields (l : list bytes) (min_fields : N) : list bytes :=
  if N.of_nat (length l) <? min_fields then l ++ repeat [] (N.to_nat min_fields - length l) else l.
Definition split_char_min sep str min_fields limit := pad_fields (split_char sep str limit) min_fields.
Definition split_str_min sep str min_fields limit := pad_fields (split_str sep str limit) min_fields.

(** the loop as shipped in 704fd0b: [for (; it + sep.size() < str.end(); ++it)], no skipping after a match;
    [None] = std::length_error from std::string(last, it) with last > it.  [n] = fuel (S (length str) suffices). *)
Fixpoint split_str_shipped_go (sep str : bytes) (n it last : nat) (acc : list bytes) (limit : N) : option (list bytes) :=
  match n with
  | O => None
  | S n' =>
      if Nat.ltb (it + length sep) (length str) then
        if prefixb sep (skipn it str) then
          if limit <=? N.of_nat (length acc) + 1 then Some (acc ++ [skipn last str])
          else if Nat.ltb it last then None
          else split_str_shipped_go sep str n' (S it) (it + length sep) (acc ++ [firstn (it - last) (skipn last str)]) limit
        else split_str_shipped_go sep str n' (S it) last acc limit
      else Some (acc ++ [skipn last str])
  end.

Definition split_str_shipped (sep str : bytes) (limit : N) : option (list bytes) :=
  if limit =? 0 then Some []
  else match sep with
       | [] => Some (map (fun c => [c]) str)
       | _ => split_str_shipped_go sep str (S (length str)) 0 0 [] limit
       end.

(** * join (join_generic.hpp:39-55): first element, then glue + element *)
Definition join (glue : bytes) (parts : list bytes) : bytes :=
  match parts with
  | [] => []
  | p :: ps => p ++ flat_map (fun q => glue ++ q) ps
  end.
Definition join_char (glue : N) (parts : list bytes) : bytes := join [glue] parts.

(** * join_quoted (join_quoted.cpp:18-66, with fixes/C19/03 applied) *)
Definition jq_escape (quote escape c : N) : bytes :=
  if (c =? quote) || (c =? escape) then [escape; c]
  else if c =? 10 then [escape; 110]
  else if c =? 13 then [escape; 114]
  else if c =? 9 then [escape; 116]
  else [c].

Definition jq_needs_quote (sep quote : N) (s : bytes) : bool :=
  match s with
  | [] => true
  | c :: _ => (c =? quote) || memb sep s
  end.

Definition jq_field_with (needs : bytes -> bool) (quote escape : N) (s : bytes) : bytes :=
  if needs s then quote :: flat_map (jq_escape quote escape) s ++ [quote] else s.

Definition join_quoted_with (needs : bytes -> bool) (strs : list bytes) (sep quote escape : N) : bytes :=
  match strs with
  | [] => []
  | s :: ss => jq_field_with needs quote escape s ++ flat_map (fun t => sep :: jq_field_with needs quote escape t) ss
  end.

Definition join_quoted (strs : list bytes) (sep quote escape : N) : bytes :=
  join_quoted_with (jq_needs_quote sep quote) strs sep quote escape.

(** as shipped in 704fd0b: a field is quoted only if it contains the separator *)
Definition join_quoted_shipped (strs : list bytes) (sep quote escape : N) : bytes :=
  join_quoted_with (memb sep) strs sep quote escape.

(** * split_quoted (split_quoted.cpp:20-140).  [None] = std::runtime_error *)
Inductive sq_state := SqOut | SqQuoted | SqAfterQuote | SqEscape | SqPlain.

Fixpoint sq_go (sep quote escape : N) (inp : bytes) (st : sq_state) (entry : bytes) : option (list bytes) :=
  match inp with
  | [] =>
      match st with
      | SqOut => Some []
      | SqQuoted => None               (* unmatched end quote *)
      | SqAfterQuote => Some [entry]   (* last quote and end-of-line *)
      | SqEscape => None               (* escape as last character *)
      | SqPlain => Some [entry]
      end
  | c :: rest =>
      match st with
      | SqOut =>
          if c =? sep then sq_go sep quote escape rest SqOut entry
          else if c =? quote then sq_go sep quote escape rest SqQuoted entry
          else sq_go sep quote escape rest SqPlain (entry ++ [c])
      | SqQuoted =>
          if c =? quote then sq_go sep quote escape rest SqAfterQuote entry
          else if c =? escape then sq_go sep quote escape rest SqEscape entry
          else sq_go sep quote escape rest SqQuoted (entry ++ [c])
      | SqAfterQuote =>
          if c =? sep then ocons entry (sq_go sep quote escape rest SqOut [])
          else None                    (* extra quote enclosed in entry *)
      | SqEscape =>
          if c =? quote then sq_go sep quote escape rest SqQuoted (entry ++ [c])
          else if c =? escape then sq_go sep quote escape rest SqQuoted (entry ++ [c])
          else if c =? 110 then sq_go sep quote escape rest SqQuoted (entry ++ [10])
          else if c =? 114 then sq_go sep quote escape rest SqQuoted (entry ++ [13])
          else if c =? 116 then sq_go sep quote escape rest SqQuoted (entry ++ [9])
          else None                    (* escape followed by unknown character *)
      | SqPlain =>
          if c =? sep then ocons entry (sq_go sep quote escape rest SqOut [])
          else sq_go sep quote escape rest SqPlain (entry ++ [c])
      end
  end.

Definition split_quoted (str : bytes) (sep quote escape : N) : option (list bytes) :=
  sq_go sep quote escape str SqOut [].

(** * replace_first / replace_all (replace.cpp).  std::string::find is modelled by its specification
    (leftmost occurrence at or after the start position). *)
Fixpoint replace_first (s needle instead : bytes) : bytes :=
  if prefixb needle s then instead ++ skipn (length needle) s
  else match s with
       | [] => []
       | c :: rest => c :: replace_first rest needle instead
       end.

Fixpoint replace_first_char (s : bytes) (needle instead : N) : bytes :=
  match s with
  | [] => []
  | c :: rest => if c =? needle then instead :: rest else c :: replace_first_char rest needle instead
  end.

(** [skip] > 0 : inside the needle occurrence that was just replaced (search resumes at
    [lastpos = thispos + instead.size()], i.e. behind the inserted text).  Needle non-empty. *)
Fixpoint replace_all_go (needle instead s : bytes) (skip : nat) : bytes :=
  match s with
  | [] => []
  | c :: rest =>
      match skip with
      | S k => replace_all_go needle instead rest k
      | O => if prefixb needle s then instead ++ replace_all_go needle instead rest (length needle - 1)
             else c :: replace_all_go needle instead rest 0
      end
  end.

Definition replace_all (s needle instead : bytes) : bytes := replace_all_go needle instead s 0.

Definition replace_all_char (s : bytes) (needle instead : N) : bytes :=
  map (fun c => if c =? needle then instead else c) s.

(** * hypothesis of the split/join round trip, as a boolean: in [join sep parts] no occurrence of [sep]
    begins inside a part (neither contained in it nor straddling its end) *)
Fixpoint no_early_matchb (sep p tail : bytes) : bool :=
  match p with
  | [] => true
  | _ :: p' => negb (prefixb sep (p ++ tail)) && no_early_matchb sep p' tail
  end.

Fixpoint cleanb (sep : bytes) (parts : list bytes) : bool :=
  match parts with
  | [] => true
  | p :: ps =>
      match ps with
      | [] => no_early_matchb sep p []
      | _ :: _ => no_early_matchb sep p (sep ++ join sep ps) && cleanb sep ps
      end
  end.
