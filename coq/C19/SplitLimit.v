(** C19 — split with a limit = the unlimited split whose surplus pieces are glued back together
    ("at most [limit] parts are returned; the last one is the unsplit remainder"). *)
From Coq Require Import NArith List Bool Lia PeanoNat.
From TLXV Require Import C19.Bytes C19.Codec C19.Split C19.SplitProofs.
Import ListNotations.
Open Scope N_scope.

(** reference: keep the first [k-1] pieces, join the others with the separator *)
Definition limit_spec (joinf : list bytes -> bytes) (ps : list bytes) (k : nat) : list bytes :=
  if Nat.leb (length ps) k then ps else firstn (k - 1) ps ++ [joinf (skipn (k - 1) ps)].

Lemma limit_spec_cons : forall J x X k, (1 <= k)%nat ->
  limit_spec J (x :: X) (S k) = x :: limit_spec J X k.
Proof.
  intros J x X k Hk. unfold limit_spec. cbn [length]. change (Nat.leb (S (length X)) (S k)) with (Nat.leb (length X) k).
  destruct (Nat.leb (length X) k); [reflexivity|].
  replace (S k - 1)%nat with (S (k - 1)) by lia. reflexivity.
Qed.

Lemma limit_spec_one : forall J x X, X <> [] -> limit_spec J (x :: X) 1 = [J (x :: X)].
Proof. intros J x [|y X] H; [congruence | reflexivity]. Qed.

Lemma limit_spec_single : forall J x k, (1 <= k)%nat -> limit_spec J [x] k = [x].
Proof. intros J x k Hk. unfold limit_spec. cbn [length]. destruct k; [lia | reflexivity]. Qed.

(** * split(char) *)
Lemma split_char_go_limit : forall sep big limit str cur cnt cnt',
  cnt < limit -> cnt' + N.of_nat (length str) < big ->
  split_char_go sep str cur cnt limit =
  limit_spec (join_char sep) (split_char_go sep str cur cnt' big) (N.to_nat (limit - cnt)).
Proof.
  intros sep big limit str. induction str as [|c rest IH]; intros cur cnt cnt' Hl Hb; cbn [split_char_go].
  - rewrite limit_spec_single by lia. reflexivity.
  - cbn [length] in Hb. destruct (c =? sep) eqn:E.
    + apply N.eqb_eq in E. subst c.
      assert (Hbig : (big <=? cnt' + 1) = false) by (apply N.leb_gt; lia). rewrite Hbig.
      destruct (N.leb_spec limit (cnt + 1)) as [L|L].
      * replace (N.to_nat (limit - cnt)) with 1%nat by lia.
        rewrite limit_spec_one by apply split_char_go_ne.
        unfold join_char. rewrite join_cons_ne by apply split_char_go_ne.
        fold (join_char sep (split_char_go sep rest [] (cnt' + 1) big)). rewrite join_split_char_go. reflexivity.
      * replace (N.to_nat (limit - cnt)) with (S (N.to_nat (limit - (cnt + 1)))) by lia.
        rewrite limit_spec_cons by lia. rewrite <- (IH [] (cnt + 1) (cnt' + 1)) by lia. reflexivity.
    + apply IH; lia.
Qed.

Theorem split_char_limit : forall sep s limit big, 1 <= limit -> N.of_nat (length s) < big ->
  split_char sep s limit = limit_spec (join_char sep) (split_char sep s big) (N.to_nat limit).
Proof.
  intros sep s limit big Hl Hb. unfold split_char.
  assert (H0 : (limit =? 0) = false) by (apply N.eqb_neq; lia).
  assert (H1 : (big =? 0) = false) by (apply N.eqb_neq; lia). rewrite H0, H1.
  rewrite (split_char_go_limit sep big limit s [] 0 0) by lia. now rewrite N.sub_0_r.
Qed.

(** * split(string) *)
Lemma split_str_go_limit : forall sep big limit, sep <> [] -> forall str k cur cnt cnt',
  (k <= length str)%nat -> cnt < limit -> cnt' + N.of_nat (length str) < big ->
  split_str_go sep str k cur cnt limit =
  limit_spec (join sep) (split_str_go sep str k cur cnt' big) (N.to_nat (limit - cnt)).
Proof.
  intros sep big limit Hne str. induction str as [|c rest IH]; intros k cur cnt cnt' Hk Hl Hb; cbn [split_str_go].
  - rewrite limit_spec_single by lia. reflexivity.
  - cbn [length] in Hb, Hk. destruct k as [|k].
    + destruct (prefixb sep (c :: rest)) eqn:Ep.
      * destruct (prefixb_skip_tail sep c rest Hne Ep) as [Hlen Heq].
        assert (Hbig : (big <=? cnt' + 1) = false) by (apply N.leb_gt; lia). rewrite Hbig.
        destruct (N.leb_spec limit (cnt + 1)) as [L|L].
        -- replace (N.to_nat (limit - cnt)) with 1%nat by lia.
           rewrite limit_spec_one by apply split_str_go_ne.
           rewrite join_cons_ne by apply split_str_go_ne.
           rewrite join_split_str_go by assumption. cbn [app]. now rewrite <- Heq.
        -- replace (N.to_nat (limit - cnt)) with (S (N.to_nat (limit - (cnt + 1)))) by lia.
           rewrite limit_spec_cons by lia. rewrite <- (IH (length sep - 1)%nat [] (cnt + 1) (cnt' + 1)) by lia. reflexivity.
      * apply IH; lia.
    + apply IH; lia.
Qed.

Theorem split_str_limit : forall sep s limit big, sep <> [] -> 1 <= limit -> N.of_nat (length s) < big ->
  split_str sep s limit = limit_spec (join sep) (split_str sep s big) (N.to_nat limit).
Proof.
  intros sep s limit big Hne Hl Hb. unfold split_str.
  assert (H0 : (limit =? 0) = false) by (apply N.eqb_neq; lia).
  assert (H1 : (big =? 0) = false) by (apply N.eqb_neq; lia). rewrite H0, H1.
  destruct sep as [|d sep']; [congruence|].
  rewrite (split_str_go_limit (d :: sep') big limit Hne s 0%nat [] 0 0) by lia. now rewrite N.sub_0_r.
Qed.

(** * empty separator: the same law, relative to the one-character pieces *)
Lemma split_empty_go_limit : forall limit str cnt, cnt < limit ->
  split_empty_go str cnt limit = limit_spec (join []) (map (fun c => [c]) str) (N.to_nat (limit - cnt)).
Proof.
  intros limit str. induction str as [|c rest IH]; intros cnt Hl; cbn [split_empty_go map].
  - unfold limit_spec. reflexivity.
  - destruct (N.leb_spec limit (cnt + 1)) as [L|L].
    + replace (N.to_nat (limit - cnt)) with 1%nat by lia.
      destruct rest as [|d rest']; [reflexivity|].
      rewrite limit_spec_one by discriminate.
      change ([c] :: map (fun c0 => [c0]) (d :: rest')) with (map (fun c0 : N => [c0]) (c :: d :: rest')).
      now rewrite join_empty_singletons.
    + replace (N.to_nat (limit - cnt)) with (S (N.to_nat (limit - (cnt + 1)))) by lia.
      rewrite limit_spec_cons by lia. rewrite <- IH by lia. reflexivity.
Qed.

Theorem split_str_empty_limit : forall str limit, 1 <= limit ->
  split_str [] str limit = limit_spec (join []) (map (fun c => [c]) str) (N.to_nat limit) /\
  join [] (split_str [] str limit) = str.
Proof.
  intros str limit H. unfold split_str. assert (H0 : (limit =? 0) = false) by (apply N.eqb_neq; lia). rewrite H0.
  split; [|apply join_split_empty_go]. rewrite split_empty_go_limit by lia. now rewrite N.sub_0_r.
Qed.

(** the unlimited split of any string yields clean parts: together with [join_split_str] and
    [split_str_join] this characterises it as THE decomposition of the string at the leftmost
    non-overlapping occurrences of the separator *)
Lemma no_early_matchb_snoc : forall sep cur c tail,
  no_early_matchb sep cur (c :: tail) = true -> prefixb sep (c :: tail) = false ->
  no_early_matchb sep (cur ++ [c]) tail = true.
Proof.
  intros sep cur. induction cur as [|x cur IH]; intros c tail H Hp; cbn [app no_early_matchb].
  - cbn [app]. now rewrite Hp.
  - cbn [no_early_matchb] in H. apply andb_true_iff in H. destruct H as [H0 H].
    rewrite <- app_assoc. cbn [app]. rewrite <- app_comm_cons in *. rewrite H0. cbn [andb]. now apply IH.
Qed.

Lemma no_early_matchb_at_sep : forall sep cur rest t,
  no_early_matchb sep cur rest = true -> prefixb sep rest = true -> rest = sep ++ t ->
  no_early_matchb sep cur (sep ++ t) = true.
Proof. intros sep cur rest t H _ ->. exact H. Qed.

Lemma cleanb_cons : forall sep p X, X <> [] ->
  cleanb sep (p :: X) = no_early_matchb sep p (sep ++ join sep X) && cleanb sep X.
Proof. intros sep p [|q X] H; [congruence | reflexivity]. Qed.

Lemma split_str_go_clean : forall sep big, sep <> [] -> forall str k cur cnt,
  (k <= length str)%nat -> cnt + N.of_nat (length str) < big ->
  no_early_matchb sep cur (skipn k str) = true ->
  cleanb sep (split_str_go sep str k cur cnt big) = true.
Proof.
  intros sep big Hne str. induction str as [|c rest IH]; intros k cur cnt Hk Hb Hc; cbn [split_str_go].
  - cbn [length] in Hk. assert (k = 0%nat) by lia. subst. exact Hc.
  - cbn [length] in Hb, Hk. destruct k as [|k].
    + cbn [skipn] in Hc. destruct (prefixb sep (c :: rest)) eqn:Ep.
      * destruct (prefixb_skip_tail sep c rest Hne Ep) as [Hlen Heq].
        assert (Hbig : (big <=? cnt + 1) = false) by (apply N.leb_gt; lia). rewrite Hbig.
        rewrite cleanb_cons by apply split_str_go_ne. rewrite join_split_str_go by assumption.
        cbn [app]. rewrite <- Heq. rewrite Hc. cbn [andb]. apply IH; [assumption | lia | reflexivity].
      * apply IH; [lia | lia |]. cbn [skipn]. now apply no_early_matchb_snoc.
    + apply IH; [lia | lia | exact Hc].
Qed.

Theorem split_str_clean : forall sep s big, sep <> [] -> N.of_nat (length s) < big ->
  cleanb sep (split_str sep s big) = true.
Proof.
  intros sep s big Hne Hb. unfold split_str.
  assert (H1 : (big =? 0) = false) by (apply N.eqb_neq; lia). rewrite H1.
  destruct sep as [|d sep']; [congruence|].
  apply split_str_go_clean; [discriminate | lia | lia | reflexivity].
Qed.
