(** C19 — the pure helpers equal their direct reference definitions. *)
From Coq Require Import NArith ZArith List Bool Lia PeanoNat.
From TLXV Require Import C19.Bytes C19.Helpers.
Import ListNotations.
Open Scope N_scope.

(** * to_lower / to_upper *)
Lemma to_lower_char_spec : forall b, b < 256 -> to_lower_char b = lower_spec b.
Proof.
  intros b H. apply N.eqb_eq.
  apply (sweep1_spec 256%nat (fun b => to_lower_char b =? lower_spec b)); [vm_compute; reflexivity | assumption].
Qed.
Lemma to_upper_char_spec : forall b, b < 256 -> to_upper_char b = upper_spec b.
Proof.
  intros b H. apply N.eqb_eq.
  apply (sweep1_spec 256%nat (fun b => to_upper_char b =? upper_spec b)); [vm_compute; reflexivity | assumption].
Qed.

Theorem to_lower_is_spec : forall s, bytes_ok s -> to_lower s = map lower_spec s.
Proof.
  intros s H. unfold to_lower. apply map_ext_in. intros b Hb. apply to_lower_char_spec.
  unfold bytes_ok in H. rewrite Forall_forall in H. now apply H.
Qed.
Theorem to_upper_is_spec : forall s, bytes_ok s -> to_upper s = map upper_spec s.
Proof.
  intros s H. unfold to_upper. apply map_ext_in. intros b Hb. apply to_upper_char_spec.
  unfold bytes_ok in H. rewrite Forall_forall in H. now apply H.
Qed.

(** * compare_icase = sign of strcmp on the lower-cased strings *)
Theorem compare_icase_is_strcmp : forall a b, compare_icase a b = strcmp_sign (to_lower a) (to_lower b).
Proof.
  induction a as [|x a IH]; intros [|y b]; cbn [compare_icase strcmp_sign to_lower map]; try reflexivity.
  destruct (N.eqb_spec (to_lower_char x) (to_lower_char y)) as [E|E].
  - rewrite E, N.compare_refl. apply IH.
  - destruct (N.ltb_spec (to_lower_char x) (to_lower_char y)) as [L|L].
    + apply N.compare_lt_iff in L. now rewrite L.
    + assert (G : to_lower_char y < to_lower_char x) by lia. apply N.compare_gt_iff in G. now rewrite G.
Qed.

Lemma compare_icase_shipped_refuted :
  compare_icase_shipped [97] [97; 98] = 1%Z /\ strcmp_sign (to_lower [97]) (to_lower [97; 98]) = (-1)%Z /\
  compare_icase_shipped [128] [97] = (-1)%Z /\ strcmp_sign (to_lower [128]) (to_lower [97]) = 1%Z.
Proof. vm_compute. repeat split; reflexivity. Qed.

(** * equal_icase / less_icase *)
Theorem equal_icase_spec : forall a b, equal_icase a b = true <-> to_lower a = to_lower b.
Proof.
  intros a b. unfold equal_icase. destruct (Nat.eqb_spec (length a) (length b)) as [L|L].
  - clear L. revert b. induction a as [|x a IH]; intros [|y b]; cbn [all2b to_lower map]; split; intros H; try reflexivity; try discriminate.
    + apply andb_true_iff in H. destruct H as [H1 H2]. apply N.eqb_eq in H1. apply IH in H2. unfold to_lower in H2. now rewrite H1, H2.
    + inversion H as [[H1 H2]]. rewrite H1, N.eqb_refl. cbn [andb]. now apply IH.
  - split; [discriminate|]. intros H. exfalso. apply L. unfold to_lower in H.
    rewrite <- (map_length to_lower_char a), <- (map_length to_lower_char b). now rewrite H.
Qed.

Theorem less_icase_is_strcmp : forall a b,
  less_icase a b = (strcmp_sign (to_lower a) (to_lower b) =? -1)%Z.
Proof.
  induction a as [|x a IH]; intros [|y b]; cbn [less_icase strcmp_sign to_lower map]; try reflexivity.
  destruct (N.compare_spec (to_lower_char x) (to_lower_char y)) as [E|L|G].
  - rewrite E, N.ltb_irrefl. apply IH.
  - apply N.ltb_lt in L. now rewrite L.
  - assert (H1 : (to_lower_char x <? to_lower_char y) = false) by (apply N.ltb_ge; lia).
    apply N.ltb_lt in G. now rewrite H1, G.
Qed.

Corollary less_icase_is_compare_icase : forall a b, less_icase a b = (compare_icase a b =? -1)%Z.
Proof. intros a b. rewrite compare_icase_is_strcmp. apply less_icase_is_strcmp. Qed.

(** * starts_with / ends_with / contains *)
Theorem starts_with_spec : forall s m, starts_with s m = true <-> exists t, s = m ++ t.
Proof.
  intros s m. unfold starts_with. destruct (Nat.ltb_spec (length s) (length m)) as [L|L].
  - split; [discriminate|]. intros [t ->]. rewrite app_length in L. lia.
  - apply prefixb_spec.
Qed.

Theorem ends_with_spec : forall s m, ends_with s m = true <-> exists t, s = t ++ m.
Proof.
  intros s m. unfold ends_with. destruct (Nat.ltb_spec (length s) (length m)) as [L|L].
  - split; [discriminate|]. intros [t ->]. rewrite app_length in L. lia.
  - rewrite prefixb_spec. split.
    + intros [t Ht]. exists (firstn (length s - length m) s).
      assert (Hl : length (skipn (length s - length m) s) = length m) by (rewrite skipn_length; lia).
      rewrite Ht, app_length in Hl. assert (t = []) by (destruct t; [reflexivity | cbn [length] in Hl; lia]). subst t.
      rewrite app_nil_r in Ht. remember (length s - length m)%nat as n.
      transitivity (firstn n s ++ skipn n s); [symmetry; apply firstn_skipn | now rewrite Ht].
    + intros [t ->]. exists []. rewrite app_length. replace (length t + length m - length m)%nat with (length t) by lia.
      rewrite skipn_app, skipn_all, Nat.sub_diag. cbn [skipn app]. now rewrite app_nil_r.
Qed.

Theorem contains_spec : forall s p, contains s p = true <-> exists a b, s = a ++ p ++ b.
Proof.
  intros s p. induction s as [|c r IH]; cbn [contains].
  - rewrite orb_false_r, prefixb_spec. split.
    + intros [t Ht]. exists [], t. exact Ht.
    + intros [a [b H]]. symmetry in H. apply app_eq_nil in H. destruct H as [-> H]. exists b. now rewrite H.
  - rewrite orb_true_iff, prefixb_spec, IH. split.
    + intros [[t Ht] | [a [b Hab]]]; [exists [], t; exact Ht | exists (c :: a), b; now rewrite Hab].
    + intros [[|x a] [b H]].
      * left. exists b. exact H.
      * right. cbn [app] in H. inversion H; subst. now exists a, b.
Qed.

Theorem contains_char_spec : forall s c, contains_char s c = true <-> In c s.
Proof. intros. apply memb_In. Qed.

Lemma prefixb_by_icase : forall m s, prefixb_by icase_eq m s = prefixb (to_lower m) (to_lower s).
Proof.
  induction m as [|x m IH]; intros [|y s]; cbn [prefixb_by prefixb to_lower map]; try reflexivity.
  unfold icase_eq at 1. f_equal. apply IH.
Qed.

Theorem starts_with_icase_spec : forall s m, starts_with_icase s m = starts_with (to_lower s) (to_lower m).
Proof. intros. unfold starts_with_icase, starts_with, to_lower. rewrite !map_length. now rewrite prefixb_by_icase. Qed.

Theorem ends_with_icase_spec : forall s m, ends_with_icase s m = ends_with (to_lower s) (to_lower m).
Proof.
  intros. unfold ends_with_icase, ends_with, to_lower. rewrite !map_length. rewrite prefixb_by_icase.
  unfold to_lower. now rewrite skipn_map.
Qed.

(** * trim family *)
Section Trim.
  Variable drop : bytes.
  Let f := fun c => memb c drop.

  (* right trimming as a recursion from the left *)
  Fixpoint rtrim (s : bytes) : bytes :=
    match s with
    | [] => []
    | c :: r => match rtrim r with
                | [] => if f c then [] else [c]
                | t => c :: t
                end
    end.

  Lemma trim_left_is_spec : forall s, trim_left s drop = trim_left_spec s drop.
  Proof.
    unfold trim_left, trim_left_spec. induction s as [|c r IH]; cbn [find_first_not_of drop_while].
    - reflexivity.
    - fold (f c). destruct (f c); [|reflexivity].
      destruct (find_first_not_of drop r) as [p|]; cbn [option_map skipn]; exact IH.
  Qed.

  Lemma find_last_not_of_nil : forall s, find_last_not_of drop s = None -> rtrim s = [].
  Proof.
    induction s as [|c r IH]; cbn [find_last_not_of rtrim]; [reflexivity|].
    destruct (find_last_not_of drop r) as [p|]; [discriminate|]. rewrite IH by reflexivity.
    fold (f c). destruct (f c); [reflexivity | discriminate].
  Qed.

  Lemma trim_right_is_rtrim : forall s, trim_right s drop = rtrim s.
  Proof.
    unfold trim_right. induction s as [|c r IH]; cbn [find_last_not_of rtrim]; [reflexivity|].
    destruct (find_last_not_of drop r) as [p|] eqn:E.
    - cbn [firstn]. rewrite <- IH. destruct r as [|d r']; [discriminate|]. reflexivity.
    - rewrite (find_last_not_of_nil r E). fold (f c). destruct (f c); reflexivity.
  Qed.

  Lemma drop_while_snoc : forall l c,
    drop_while f (l ++ [c]) = match drop_while f l with [] => if f c then [] else [c] | t => t ++ [c] end.
  Proof.
    induction l as [|x l IH]; intros c; cbn [app drop_while].
    - destruct (f c); reflexivity.
    - destruct (f x); [apply IH | reflexivity].
  Qed.

  Lemma rtrim_is_rev : forall s, rtrim s = rev (drop_while f (rev s)).
  Proof.
    induction s as [|c r IH]; cbn [rtrim rev]; [reflexivity|].
    rewrite drop_while_snoc, IH. destruct (drop_while f (rev r)) as [|x t] eqn:E.
    - cbn [rev]. destruct (f c); reflexivity.
    - cbn [rev]. destruct (rev t ++ [x]) as [|y u] eqn:E2; [destruct (rev t); discriminate|].
      rewrite rev_app_distr. cbn [rev app]. now rewrite E2.
  Qed.

  Theorem trim_right_is_spec : forall s, trim_right s drop = trim_right_spec s drop.
  Proof. intros s. rewrite trim_right_is_rtrim. apply rtrim_is_rev. Qed.

  (* left and right trimming commute *)
  Lemma rtrim_head : forall c r, f c = false -> exists t, rtrim (c :: r) = c :: t.
  Proof.
    intros c r Hc. cbn [rtrim]. destruct (rtrim r) as [|x t]; [rewrite Hc; now exists [] | now exists (x :: t)].
  Qed.

  Lemma rtrim_drop_while : forall s, rtrim (drop_while f s) = drop_while f (rtrim s).
  Proof.
    induction s as [|c r IH]; [reflexivity|]. cbn [drop_while]. destruct (f c) eqn:Hc.
    - rewrite IH. cbn [rtrim]. destruct (rtrim r) as [|x t]; [rewrite Hc; reflexivity|].
      cbn [drop_while]. now rewrite Hc.
    - destruct (rtrim_head c r Hc) as [t Ht]. rewrite Ht. cbn [drop_while]. now rewrite Hc.
  Qed.

  Lemma find_first_not_of_none : forall s, find_first_not_of drop s = None -> drop_while f s = [].
  Proof.
    induction s as [|c r IH]; cbn [find_first_not_of drop_while]; [reflexivity|]. fold (f c).
    destruct (f c); [|discriminate]. destruct (find_first_not_of drop r); [discriminate | intros _; now apply IH].
  Qed.

  Lemma rtrim_idem_nonempty : forall s, rtrim s <> [] -> find_first_not_of drop (rtrim s) <> None.
  Proof.
    (* the last character of a non-empty [rtrim s] is not in [drop] *)
    assert (Hlast : forall s, rtrim s = [] \/ exists t c, rtrim s = t ++ [c] /\ f c = false).
    { induction s as [|c r IH]; [now left|]. cbn [rtrim]. destruct IH as [E | [t [d [E Hd]]]].
      - rewrite E. destruct (f c) eqn:Hc; [now left | right; exists [], c; now split].
      - right. rewrite E. destruct (t ++ [d]) as [|y u] eqn:E2; [destruct t; discriminate|].
        exists (c :: t), d. rewrite <- E2. now split. }
    intros s Hne Hnone. destruct (Hlast s) as [E | [t [c [E Hc]]]]; [contradiction|].
    apply find_first_not_of_none in Hnone. rewrite E in Hnone.
    clear - Hnone Hc. induction t as [|x t IH]; cbn [app drop_while] in Hnone.
    - rewrite Hc in Hnone. discriminate.
    - destruct (f x); [now apply IH | discriminate].
  Qed.

  Theorem trim_inplace_is_spec : forall s, trim_inplace s drop = trim_spec s drop.
  Proof.
    intros s. unfold trim_spec. rewrite <- trim_right_is_spec, trim_right_is_rtrim, <- trim_left_is_spec.
    unfold trim_inplace. pose proof (trim_right_is_rtrim s) as Hr. unfold trim_right in Hr.
    destruct (find_last_not_of drop s) as [pos|] eqn:E.
    - cbv zeta. rewrite Hr. unfold trim_left.
      destruct (find_first_not_of drop (rtrim s)) as [p|] eqn:E2; [reflexivity|].
      exfalso. apply (rtrim_idem_nonempty s); [|exact E2].
      rewrite <- Hr. destruct s; discriminate.
    - rewrite <- Hr. reflexivity.
  Qed.

  Theorem trim_copy_is_spec : forall s, trim_copy s drop = trim_spec s drop.
  Proof.
    intros s. unfold trim_copy, trim_spec. rewrite <- trim_right_is_spec. unfold trim_left_spec. fold f.
    rewrite trim_right_is_rtrim. rewrite <- rtrim_drop_while.
    pose proof (trim_left_is_spec s) as HL. unfold trim_left, trim_left_spec in HL. fold f in HL.
    destruct (find_first_not_of drop s) as [pos|] eqn:E.
    - rewrite HL. rewrite <- trim_right_is_rtrim. unfold trim_right.
      destruct (find_last_not_of drop (drop_while f s)) as [p|] eqn:E2; [reflexivity|].
      (* impossible: the head of [drop_while f s] is not in [drop] *)
      exfalso. rewrite <- HL in E2. clear HL.
      assert (Hhd : exists c t, skipn pos s = c :: t /\ f c = false).
      { clear E2. revert pos E. induction s as [|c r IH]; intros pos E; cbn [find_first_not_of] in E; [discriminate|].
        fold (f c) in E. destruct (f c) eqn:Hc.
        - destruct (find_first_not_of drop r) as [q|] eqn:Eq; [|discriminate]. cbn [option_map] in E. inversion E; subst.
          cbn [skipn]. now apply IH.
        - inversion E; subst. exists c, r. now split. }
      destruct Hhd as [c [t [Hs Hc]]]. rewrite Hs in E2. cbn [find_last_not_of] in E2.
      destruct (find_last_not_of drop t); [discriminate|]. fold (f c) in E2. rewrite Hc in E2. discriminate.
    - rewrite <- HL. reflexivity.
  Qed.
End Trim.

(** * erase_all *)
Lemma erase_runs_rev_filter : forall drop r b, erase_runs_rev drop r b = filter (fun c => negb (memb c drop)) r.
Proof.
  intros drop r. induction r as [|c r IH]; intros b; cbn [erase_runs_rev filter]; [reflexivity|].
  destruct (memb c drop); cbn [negb]; [apply IH | f_equal; apply IH].
Qed.

Lemma filter_rev' : forall (A : Type) (g : A -> bool) l, filter g (rev l) = rev (filter g l).
Proof.
  intros A g l. induction l as [|x l IH]; [reflexivity|]. cbn [rev filter]. rewrite filter_app, IH. cbn [filter].
  destruct (g x); cbn [rev]; [reflexivity | now rewrite app_nil_r].
Qed.

Theorem erase_all_inplace_is_erase_all : forall s drop, erase_all_inplace s drop = erase_all s drop.
Proof.
  intros s drop. unfold erase_all_inplace, erase_all. rewrite erase_runs_rev_filter, filter_rev', rev_involutive. reflexivity.
Qed.

(** [erase_all] keeps exactly the characters not in [drop], in order (it is the [filter]) *)
Theorem erase_all_spec : forall s drop c, In c (erase_all s drop) <-> In c s /\ ~ In c drop.
Proof.
  intros s drop c. unfold erase_all. rewrite filter_In, negb_true_iff.
  split; intros [H1 H2]; split; try assumption.
  - intros Hin. apply memb_In in Hin. congruence.
  - destruct (memb c drop) eqn:E; [|reflexivity]. apply memb_In in E. contradiction.
Qed.

(** * pad: truncate or pad to exactly [len] characters *)
Theorem pad_spec : forall s len c,
  pad s len c = firstn len s ++ repeat c (len - length s) /\ length (pad s len c) = len.
Proof.
  intros s len c. unfold pad. destruct (Nat.le_ge_cases (length s) len) as [L|L].
  - rewrite Nat.min_l by assumption. rewrite firstn_all. rewrite firstn_all2 by assumption.
    split; [reflexivity|]. rewrite app_length, repeat_length. lia.
  - rewrite Nat.min_r by assumption. rewrite firstn_length_le by assumption.
    replace (len - len)%nat with 0%nat by lia. replace (len - length s)%nat with 0%nat by lia.
    split; [reflexivity|]. cbn [repeat]. rewrite app_nil_r. now apply firstn_length_le.
Qed.

Example trim_example : trim_inplace [32; 9; 97; 32; 98; 10] default_drop = [97; 32; 98] /\
                       trim_copy [32; 9; 97; 32; 98; 10] default_drop = [97; 32; 98].
Proof. vm_compute. split; reflexivity. Qed.
