(** C19 — the statements of Properties_C19.v assembled from the lemmas of the proof files
    (so that Properties_C19.v contains statements and [exact] only). *)
From Coq Require Import NArith ZArith List.
From TLXV Require Import C19.Bytes C19.Codec C19.Split C19.Helpers
  C19.CodecProofs C19.SplitProofs C19.SplitLimit C19.HelpersProofs C19.LevProofs.
Import ListNotations.
Open Scope N_scope.

Lemma final_hexdump_roundtrip : forall s, bytes_ok s ->
  parse_hexdump (hexdump s) = Some s /\ parse_hexdump (hexdump_lc s) = Some s.
Proof. intros s H. split; [now apply hexdump_roundtrip | now apply hexdump_lc_roundtrip].
Qed.

Lemma final_hexdump_is_rfc4648 : forall s, bytes_ok s ->
  hexdump s = rfc4648_base16 rfc_base16_alphabet s /\ hexdump_lc s = rfc4648_base16 lc_base16_alphabet s.
Proof. intros s H. split; [now apply hexdump_is_rfc4648 | now apply hexdump_lc_is_base16_lowercase].
Qed.

Lemma final_join_split : forall sep str limit, 1 <= limit ->
  join_char sep (split_char sep str limit) = str /\
  forall seps, seps <> [] -> join seps (split_str seps str limit) = str /\
                             (N.of_nat (length str) < limit -> cleanb seps (split_str seps str limit) = true).
Proof.
  intros sep str limit H. split; [now apply join_split_char|]. intros seps Hs.
  split; [now apply join_split_str | intros Hb; now apply split_str_clean].
Qed.

Lemma final_split_limit : forall str limit big, 1 <= limit -> N.of_nat (length str) < big ->
  (forall sep, split_char sep str limit = limit_spec (join_char sep) (split_char sep str big) (N.to_nat limit)) /\
  (forall sep, sep <> [] -> split_str sep str limit = limit_spec (join sep) (split_str sep str big) (N.to_nat limit)).
Proof. intros str limit big H1 H2. split; intros sep; [now apply split_char_limit | intros Hs; now apply split_str_limit].
Qed.

Lemma final_levenshtein_is_edit_distance : forall a b,
  (edits N.eqb a b (levenshtein a b) /\ (forall n, edits N.eqb a b n -> (levenshtein a b <= n)%nat)) /\
  (edits icase_eq a b (levenshtein_icase a b) /\ (forall n, edits icase_eq a b n -> (levenshtein_icase a b <= n)%nat)).
Proof. intros a b. split; [apply levenshtein_is_edit_distance | apply levenshtein_icase_is_edit_distance].
Qed.

Lemma final_case_conversion : forall s, bytes_ok s ->
  to_lower s = map lower_spec s /\ to_upper s = map upper_spec s.
Proof. intros s H. split; [now apply to_lower_is_spec | now apply to_upper_is_spec].
Qed.

Lemma final_starts_ends_contains : forall s m,
  (starts_with s m = true <-> exists t, s = m ++ t) /\
  (ends_with s m = true <-> exists t, s = t ++ m) /\
  (contains s m = true <-> exists a b, s = a ++ m ++ b) /\
  starts_with_icase s m = starts_with (to_lower s) (to_lower m) /\
  ends_with_icase s m = ends_with (to_lower s) (to_lower m).
Proof.
  intros s m. repeat split; try apply starts_with_spec; try apply ends_with_spec; try apply contains_spec.
  - apply starts_with_icase_spec.
  - apply ends_with_icase_spec.
Qed.

Lemma final_trim_family : forall s drop,
  trim_inplace s drop = trim_spec s drop /\ trim_copy s drop = trim_spec s drop /\
  trim_left s drop = trim_left_spec s drop /\ trim_right s drop = trim_right_spec s drop.
Proof.
  intros s drop. repeat split; [apply trim_inplace_is_spec | apply trim_copy_is_spec | apply trim_left_is_spec | apply trim_right_is_spec].
Qed.

Lemma final_erase_all_and_pad : forall s drop,
  erase_all_inplace s drop = erase_all s drop /\
  (forall c, In c (erase_all s drop) <-> In c s /\ ~ In c drop) /\
  (forall len c, pad s len c = firstn len s ++ repeat c (len - length s) /\ length (pad s len c) = len).
Proof.
  intros s drop. split; [apply erase_all_inplace_is_erase_all|]. split; [intros c; apply erase_all_spec | intros len c; apply pad_spec].
Qed.

Lemma final_equal_less_icase : forall a b,
  (equal_icase a b = true <-> to_lower a = to_lower b) /\
  less_icase a b = (strcmp_sign (to_lower a) (to_lower b) =? -1)%Z /\
  less_icase a b = (compare_icase a b =? -1)%Z.
Proof.
  intros a b. split; [apply equal_icase_spec|]. split; [apply less_icase_is_strcmp | apply less_icase_is_compare_icase].
Qed.

Lemma final_split_degenerate : forall sepc seps str limit,
  split_char sepc str 0 = [] /\ split_str seps str 0 = [] /\
  (1 <= limit -> split_str [] str limit = limit_spec (join []) (map (fun c => [c]) str) (N.to_nat limit) /\
                 join [] (split_str [] str limit) = str).
Proof.
  intros sepc seps str limit. destruct (split_limit_zero sepc seps str) as [H1 H2].
  split; [exact H1|]. split; [exact H2|]. intros H. now apply split_str_empty_limit.
Qed.
