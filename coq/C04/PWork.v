(** C04 — the phase counter of PS5BigSortStep: `pwork_ = parts_` then parts_ jobs each execute
    `if (--pwork_ == 0) next_phase();` (count -> count_finished, distribute -> distribute_finished).
    The decrement is one atomic read-modify-write, so the interleavings are exactly the orders of the decrements. *)
From Coq Require Import List Arith Lia Bool.
Import ListNotations.

Record pst := { pwork : nat; pending : nat; started : nat }.   (* counter, jobs that have not decremented yet, runs of next_phase *)

(** one job performs its decrement (and starts the next phase if it brought the counter to zero) *)
Definition pstep (s : pst) : option pst :=
  match pending s with
  | 0 => None
  | S p => Some {| pwork := pwork s - 1; pending := p;
                  started := started s + (if pwork s - 1 =? 0 then 1 else 0) |}
  end.

Fixpoint prun (n : nat) (s : pst) : option pst :=
  match n with 0 => Some s | S n' => match pstep s with Some s' => prun n' s' | None => None end end.

Definition pinit (k : nat) : pst := {| pwork := k; pending := k; started := 0 |}.

Lemma prun_inv : forall n s s', pwork s = pending s -> prun n s = Some s' ->
  pwork s' = pending s' /\ pending s' + n = pending s /\
  started s' = started s + (if (pending s' =? 0) && (0 <? n) then 1 else 0).
Proof.
  induction n as [|n IH]; intros s s' E H; simpl in H.
  - injection H as <-. repeat split; auto; try lia. replace (0 <? 0) with false by reflexivity. rewrite andb_false_r. lia.
  - unfold pstep in H. destruct (pending s) as [|p] eqn:Ep; [discriminate|].
    assert (P : pwork s - 1 = p) by lia.
    pose proof (fun X => IH _ s' X H) as IH'. simpl in IH'. specialize (IH' P). clear IH. rename IH' into IH. destruct IH as (I1 & I2 & I3).
    repeat split; auto; try lia. rewrite I3, P.
    replace (0 <? S n) with true by reflexivity.
    destruct (Nat.eqb_spec p 0), (Nat.eqb_spec (pending s') 0), n; simpl; lia.
Qed.

(** For k >= 1 jobs and every number n <= k of decrements performed so far (in any order): next_phase() has run
    exactly once if all k jobs have decremented and not at all before; it never runs twice. *)
Theorem pwork_exactly_once_after_all : forall k n s, 1 <= k -> prun n (pinit k) = Some s ->
  n <= k /\ started s = (if n =? k then 1 else 0).
Proof.
  intros k n s Hk H. destruct (prun_inv n (pinit k) s eq_refl H) as (I1 & I2 & I3). simpl in *.
  split; [lia|]. rewrite I3.
  destruct (Nat.eqb_spec n k) as [->|Hne].
  - assert (pending s = 0) as -> by lia. simpl. destruct k; [lia|reflexivity].
  - destruct (Nat.eqb_spec (pending s) 0); [lia|reflexivity].
Qed.
