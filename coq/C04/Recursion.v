(** C04 — the WHOLE recursion of the (parallel and sequential) string sample sort, for ARBITRARY splitters at every
    step, arbitrary thresholds and arbitrary correct small sorters.

    [C04/SampleSort.v] proves one step: classify by the [w]-byte key at [depth], sort every bucket, concatenate.
    The code (PS5BigSortStep::distribute_finished, PS5SmallsortJob::sort_sample_sort / sample_sort_free_work in
    parallel_sample_sort.hpp) does not recurse at the same depth: it uses what the classifier's tree builder
    (sample_sort_tools.hpp, SSTreeBuilder*::recurse) stored in [splitter_lcp]:

      - bucket 2i ("between splitter i-1 and splitter i"): depth + (splitter_lcp[i] & 0x7F), where the low bits are
        clz(splitter[i-1] xor splitter[i]) / 8 = the number of equal leading BYTES of the two adjacent splitter
        keys; splitter_lcp[0] and splitter_lcp[num_splitters] (first and last bucket) are 0;
      - bucket 2i+1 ("equal to splitter i"): finished without any further sorting if splitter_lcp[i] & 0x80, a flag
        that is set iff (splitter[i] & 0xFF) == 0, i.e. the key contains the string terminator; otherwise
        depth + sizeof(key_type).

    Each recursive call therefore relies on ALL strings of its bucket being at least that long and agreeing on
    that many bytes.  This file proves these byte-level facts and, from them and [ps5_step_correct], that every
    execution the recursion can make returns a sorted permutation. *)
From Coq Require Import List Arith Lia Bool Sorting.Sorted Sorting.Permutation.
From TLXV Require Import Common.Order C04.SampleSort.
Import ListNotations.

(** * 1. Bytes of keys *)

Lemma pow256_nz w : 256 ^ w <> 0.
Proof. apply Nat.pow_nonzero. lia. Qed.

Lemma divmod_digit B c r : r < B -> (c * B + r) / B = c /\ (c * B + r) mod B = r.
Proof.
  intros H. split; symmetry.
  - apply (Nat.div_unique _ _ _ r); lia.
  - apply (Nat.mod_unique _ _ c r); lia.
Qed.

(** [key_byte w k i]: the i-th most significant of the [w] base-256 digits of [k] (i < w).  The definition follows
    the recursion of [key_of]; for the sake of statements without side conditions the MOST significant digit is
    not reduced modulo 256, which makes no difference for a key of width w ([key_byte_digit] below). *)
Fixpoint key_byte (w k i : nat) : nat :=
  match w with
  | 0 => 0
  | S w' => match i with
            | 0 => k / 256 ^ w'
            | S i' => key_byte w' (k mod 256 ^ w') i'
            end
  end.

(** number of equal leading bytes of two keys: what clz(a xor b) / 8 computes *)
Fixpoint lcp_keys (w a b : nat) : nat :=
  match w with
  | 0 => 0
  | S w' => if a / 256 ^ w' =? b / 256 ^ w'
            then S (lcp_keys w' (a mod 256 ^ w') (b mod 256 ^ w'))
            else 0
  end.

(** the 0x80 flag of splitter_lcp: (key & 0xFF) == 0 *)
Definition key_has_nul (w k : nat) : bool := k mod 256 =? 0.

Lemma key_of_nil w : key_of w [] = 0.
Proof. destruct w; reflexivity. Qed.

Lemma key_of_cons w c t : key_of (S w) (c :: t) = c * 256 ^ w + key_of w t.
Proof. reflexivity. Qed.

Lemma key_byte_0 w : forall i, key_byte w 0 i = 0.
Proof.
  induction w as [|w IH]; intros i; cbn [key_byte]; auto. destruct i as [|i].
  - apply Nat.div_0_l, pow256_nz.
  - rewrite Nat.mod_0_l by apply pow256_nz. apply IH.
Qed.

(** the bytes of a string's key are the string's bytes, then zeros *)
Theorem key_byte_key_of w : forall s i, bytes_ok s -> i < w -> key_byte w (key_of w s) i = nth i s 0.
Proof.
  induction w as [|w IH]; intros s i Hs Hi; [lia|].
  destruct s as [|c t].
  - rewrite key_of_nil, key_byte_0. destruct i; reflexivity.
  - inversion Hs as [|? ? Hc Ht]; subst. rewrite key_of_cons.
    destruct (divmod_digit (256 ^ w) c (key_of w t) (key_of_bound w t Ht)) as [Hd Hm].
    cbn [key_byte]. destruct i as [|i]; [exact Hd|]. rewrite Hm. cbn [nth]. apply IH; auto. lia.
Qed.

Lemma bytes_ok_nth_zero s : forall i, bytes_ok s -> nth i s 0 = 0 -> length s <= i.
Proof.
  induction s as [|c t IH]; intros i Hs H; cbn [length]; [lia|].
  inversion Hs as [|? ? Hc Ht]; subst. destruct i as [|i]; cbn [nth] in H; [lia|].
  apply IH in H; auto. lia.
Qed.

(** zeros occur only as a suffix of the key of a NUL-free string *)
Theorem key_zero_suffix w s i j : bytes_ok s -> i <= j -> j < w ->
  key_byte w (key_of w s) i = 0 -> key_byte w (key_of w s) j = 0.
Proof.
  intros Hs Hij Hj H. rewrite key_byte_key_of in H by (auto; lia). rewrite key_byte_key_of by (auto; lia).
  apply bytes_ok_nth_zero in H; auto. apply nth_overflow. lia.
Qed.

Lemma lcp_keys_le w : forall a b, lcp_keys w a b <= w.
Proof.
  induction w as [|w IH]; intros a b; cbn [lcp_keys]; auto.
  destruct (a / 256 ^ w =? b / 256 ^ w); [|lia]. specialize (IH (a mod 256 ^ w) (b mod 256 ^ w)). lia.
Qed.

(** [lcp_keys] is exactly the length of the longest common byte prefix *)
Theorem lcp_keys_spec w : forall a b d,
  d <= lcp_keys w a b <-> (d <= w /\ forall i, i < d -> key_byte w a i = key_byte w b i).
Proof.
  induction w as [|w IH]; intros a b d; cbn [lcp_keys].
  - split; [intros H; split; [lia|intros i Hi; lia]|intros [H _]; lia].
  - destruct (Nat.eqb_spec (a / 256 ^ w) (b / 256 ^ w)) as [E|NE].
    + destruct d as [|d]; [split; [intros _; split; [lia|intros i Hi; lia]|lia]|].
      specialize (IH (a mod 256 ^ w) (b mod 256 ^ w) d). split.
      * intros H. assert (d <= lcp_keys w (a mod 256 ^ w) (b mod 256 ^ w)) as H' by lia.
        apply IH in H' as [H1 H2]. split; [lia|]. intros [|i] Hi; cbn [key_byte]; [exact E|]. apply H2. lia.
      * intros [H1 H2]. apply le_n_S. apply IH. split; [lia|]. intros i Hi.
        specialize (H2 (S i)). cbn [key_byte] in H2. apply H2. lia.
    + split; [intros H; assert (d = 0) by lia; subst; split; [lia|intros i Hi; lia]|].
      intros [_ H]. destruct d as [|d]; [lia|]. exfalso. apply NE. specialize (H 0). cbn [key_byte] in H. apply H. lia.
Qed.

Lemma lcp_keys_refl w a : lcp_keys w a a = w.
Proof.
  pose proof (lcp_keys_le w a a). assert (w <= lcp_keys w a a); [|lia].
  apply lcp_keys_spec. split; auto.
Qed.

Lemma lcp_keys_trans w a b c d : d <= lcp_keys w a b -> d <= lcp_keys w a c -> d <= lcp_keys w b c.
Proof.
  rewrite !lcp_keys_spec. intros [H1 H2] [_ H3]. split; auto. intros i Hi. rewrite <- H2, <- H3; auto.
Qed.

(** a number between two keys shares their common byte prefix (pure arithmetic, no assumption on the keys) *)
Lemma lcp_keys_between w : forall a k b, a <= k -> k <= b -> lcp_keys w a b <= lcp_keys w a k.
Proof.
  induction w as [|w IH]; intros a k b Hak Hkb; cbn [lcp_keys]; auto.
  pose proof (pow256_nz w) as HB. set (B := 256 ^ w) in *.
  destruct (Nat.eqb_spec (a / B) (b / B)) as [E|NE]; [|lia].
  pose proof (Nat.div_le_mono a k B HB Hak). pose proof (Nat.div_le_mono k b B HB Hkb).
  assert (a / B = k / B) as E' by lia.
  destruct (Nat.eqb_spec (a / B) (k / B)) as [_|N]; [|contradiction].
  apply le_n_S. apply IH.
  - pose proof (Nat.div_mod a B HB). pose proof (Nat.div_mod k B HB). rewrite <- E' in *. lia.
  - pose proof (Nat.div_mod k B HB). pose proof (Nat.div_mod b B HB). rewrite <- E, E' in *. lia.
Qed.

Theorem key_between_shares_lcp w a k b i :
  a <= k -> k <= b -> i < lcp_keys w a b -> key_byte w k i = key_byte w a i.
Proof.
  intros Hak Hkb Hi. pose proof (lcp_keys_between w a k b Hak Hkb) as H.
  assert (S i <= lcp_keys w a k) as H' by lia. apply lcp_keys_spec in H' as [_ H']. symmetry. apply H'. lia.
Qed.

(** a key STRICTLY above [a] that shares [n] leading bytes with [a] belongs to a string with at least [n] bytes:
    if the string ended inside the shared prefix the rest of its key would be zeros, the smallest possible
    continuation, so the key could not be above [a]. *)
Lemma lcp_lt_length w : forall a x, bytes_ok x -> a < key_of w x -> lcp_keys w a (key_of w x) <= length x.
Proof.
  induction w as [|w IH]; intros a x Hx Hlt; cbn [lcp_keys]; [lia|].
  destruct x as [|c t]; [rewrite key_of_nil in Hlt; lia|].
  inversion Hx as [|? ? Hc Ht]; subst. rewrite key_of_cons in *.
  destruct (divmod_digit (256 ^ w) c (key_of w t) (key_of_bound w t Ht)) as [Hd Hm].
  rewrite Hd, Hm. pose proof (pow256_nz w) as HB. set (B := 256 ^ w) in *.
  destruct (Nat.eqb_spec (a / B) c) as [E|NE]; [|lia].
  cbn [length]. apply le_n_S. apply IH; auto.
  pose proof (Nat.div_mod a B HB) as Ha. rewrite E in Ha. lia.
Qed.

Lemma firstn_nth_ext : forall d x y, bytes_ok x -> bytes_ok y ->
  (forall i, i < d -> nth i x 0 = nth i y 0) -> firstn d x = firstn d y.
Proof.
  induction d as [|d IH]; intros x y Hx Hy H; auto.
  destruct x as [|a x], y as [|b y]; cbn [firstn]; auto.
  - inversion Hy as [|? ? Hb _]; subst. specialize (H 0). cbn [nth] in H. lia.
  - inversion Hx as [|? ? Ha _]; subst. specialize (H 0). cbn [nth] in H. lia.
  - inversion Hx as [|? ? _ Hx']; subst. inversion Hy as [|? ? _ Hy']; subst.
    f_equal; [apply (H 0); lia|]. apply IH; auto. intros i Hi. apply (H (S i)). lia.
Qed.

(** strings whose keys share d leading bytes share d leading bytes (or end together before) *)
Lemma lcp_keys_firstn w x y d : bytes_ok x -> bytes_ok y ->
  d <= lcp_keys w (key_of w x) (key_of w y) -> firstn d x = firstn d y.
Proof.
  intros Hx Hy H. apply lcp_keys_spec in H as [Hd H]. apply firstn_nth_ext; auto.
  intros i Hi. specialize (H i Hi). rewrite !key_byte_key_of in H by (auto; lia). exact H.
Qed.

Lemma key_of_inj w x y : bytes_ok x -> bytes_ok y -> key_of w x = key_of w y -> firstn w x = firstn w y.
Proof.
  intros Hx Hy E. apply (lcp_keys_firstn w); auto. rewrite E, lcp_keys_refl. auto.
Qed.

(** the key's last byte is zero iff fewer than w bytes are left *)
Lemma key_of_mod256 w : forall x, bytes_ok x -> 1 <= w -> (key_of w x mod 256 = 0 <-> length x < w).
Proof.
  induction w as [|w IH]; intros x Hx Hw; [lia|].
  destruct x as [|c t].
  - rewrite key_of_nil. cbn [length]. rewrite Nat.mod_0_l by lia. lia.
  - inversion Hx as [|? ? Hc Ht]; subst. rewrite key_of_cons. cbn [length]. destruct w as [|w].
    + rewrite Nat.pow_0_r. cbn [key_of]. rewrite Nat.mul_1_r, Nat.add_0_r, Nat.mod_small by lia. lia.
    + rewrite Nat.pow_succ_r'.
      replace (c * (256 * 256 ^ w) + key_of (S w) t) with (key_of (S w) t + (c * 256 ^ w) * 256) by lia.
      rewrite Nat.mod_add by lia. rewrite (IH t Ht) by lia. lia.
Qed.

Lemma firstn_add {A} (l : list A) : forall a b, firstn (a + b) l = firstn a l ++ firstn b (skipn a l).
Proof.
  induction l as [|x l IH]; intros a b.
  - now rewrite skipn_nil, !firstn_nil.
  - destruct a as [|a]; cbn [firstn skipn Nat.add app]; auto. now rewrite IH.
Qed.

(** ** The three facts the recursion uses, on strings in the scope of a step *)

(** a key with the terminator flag: the string ends inside the window *)
Theorem key_has_nul_short w depth common x : 1 <= w -> in_scope depth common x ->
  key_has_nul w (key_at w depth x) = true -> length x < depth + w.
Proof.
  intros Hw (Bx & Lx & _) H. unfold key_has_nul, key_at in H. apply Nat.eqb_eq in H.
  apply key_of_mod256 in H; auto using bytes_ok_skipn. rewrite skipn_length in H. lia.
Qed.

(** ... and two strings with the same such key are EQUAL: the equal bucket needs no sorting *)
Theorem key_has_nul_equal w depth common x y : 1 <= w -> in_scope depth common x -> in_scope depth common y ->
  key_at w depth x = key_at w depth y -> key_has_nul w (key_at w depth x) = true -> x = y.
Proof.
  intros Hw Sx Sy E H.
  pose proof (key_has_nul_short w depth common x Hw Sx H) as Lx'.
  rewrite E in H. pose proof (key_has_nul_short w depth common y Hw Sy H) as Ly'.
  destruct Sx as (Bx & Lx & Px), Sy as (By & Ly & Py). unfold key_at in E.
  apply key_of_inj in E; auto using bytes_ok_skipn.
  rewrite !firstn_all2 in E by (rewrite skipn_length; lia).
  rewrite <- (firstn_skipn depth x), <- (firstn_skipn depth y). congruence.
Qed.

(** same key without terminator: both strings cover the window and agree on depth + w bytes *)
Theorem key_no_nul_agree w depth common x y : 1 <= w -> in_scope depth common x -> in_scope depth common y ->
  key_at w depth x = key_at w depth y -> key_has_nul w (key_at w depth x) = false ->
  depth + w <= length x /\ depth + w <= length y /\ firstn (depth + w) x = firstn (depth + w) y.
Proof.
  intros Hw (Bx & Lx & Px) (By & Ly & Py) E H.
  assert (forall z, bytes_ok z -> length z >= depth -> key_has_nul w (key_at w depth z) = false ->
                    depth + w <= length z) as L.
  { intros z Bz Lz Hz. unfold key_has_nul, key_at in Hz. apply Nat.eqb_neq in Hz.
    rewrite key_of_mod256 in Hz by auto using bytes_ok_skipn. rewrite skipn_length in Hz. lia. }
  split; [apply L; auto|]. split; [apply L; auto; now rewrite <- E|].
  rewrite !firstn_add, Px, Py. f_equal. apply key_of_inj; auto using bytes_ok_skipn.
Qed.

(** * 2. Which bucket holds which keys *)

Lemma classify_odd sp k i : classify sp k = 2 * i + 1 -> nth_error sp i = Some k.
Proof.
  unfold classify. cbv zeta. destruct (nth_error sp (count_lt sp k)) as [s|] eqn:E; [|intros H; lia].
  destruct (Nat.eqb_spec s k) as [Es|N]; intros H; [|lia].
  assert (count_lt sp k = i) as Ei by lia. rewrite <- Ei, E. now subst.
Qed.

Lemma classify_even sp k i : Sorted le sp -> classify sp k = 2 * i ->
  (forall j a, nth_error sp j = Some a -> j < i -> a < k) /\
  (forall b, nth_error sp i = Some b -> k < b).
Proof.
  intros Hsp H. unfold classify in H. cbv zeta in H.
  assert (count_lt sp k = i /\ forall b, nth_error sp i = Some b -> b <> k) as [Ei Hne].
  { destruct (nth_error sp (count_lt sp k)) as [s|] eqn:E.
    - destruct (Nat.eqb_spec s k) as [Es|N]; [lia|]. assert (count_lt sp k = i) as Ei by lia.
      split; auto. intros b Hb. rewrite Ei in E. congruence.
    - assert (count_lt sp k = i) as Ei by lia. split; auto. intros b Hb. rewrite Ei in E. congruence. }
  split.
  - intros j a Ha Hj. apply (sorted_count_lt_nth sp k j a Hsp Ha). lia.
  - intros b Hb. pose proof (sorted_count_lt_nth sp k i b Hsp Hb) as [_ B]. specialize (Hne b Hb).
    destruct (Nat.lt_ge_cases b k) as [L|G]; [specialize (B L)|]; lia.
Qed.

Definition bucket_of (w depth : nat) (sp : list nat) (l : list str) (j : nat) : list str :=
  filter (fun s => ps5_cls w depth sp s =? j) l.

Lemma in_bucket_of w depth sp l j x : In x (bucket_of w depth sp l j) <-> In x l /\ ps5_cls w depth sp x = j.
Proof. unfold bucket_of. rewrite filter_In, Nat.eqb_eq. tauto. Qed.

(** the depth increment allowed for the even bucket 2i: the byte lcp of the two splitters that delimit it, 0 for
    the first and the last bucket (splitter_lcp[0] &= 0x80 and splitter_lcp[num_splitters] = 0 in the builders) *)
Definition even_lcp (w : nat) (sp : list nat) (i : nat) : nat :=
  match i with
  | 0 => 0
  | S i' => match nth_error sp i', nth_error sp i with
            | Some a, Some b => lcp_keys w a b
            | _, _ => 0
            end
  end.

(** a set of strings in scope at [depth] that are all long enough and agree on [dd] more bytes is in scope at
    [depth + dd], with its own common prefix *)
Lemma scope_deeper depth common dd (b : list str) :
  Forall (in_scope depth common) b ->
  (forall x, In x b -> dd <= length (skipn depth x)) ->
  (forall x y, In x b -> In y b -> firstn dd (skipn depth x) = firstn dd (skipn depth y)) ->
  exists common', Forall (in_scope (depth + dd) common') b.
Proof.
  intros Hb HL HF. destruct b as [|x0 b']; [exists []; constructor|].
  exists (firstn (depth + dd) x0). apply Forall_forall. intros x Hx.
  rewrite Forall_forall in Hb. destruct (Hb x Hx) as (Bx & Lx & Px).
  destruct (Hb x0 (or_introl eq_refl)) as (B0 & L0 & P0).
  repeat split; auto.
  - specialize (HL x Hx). rewrite skipn_length in HL. lia.
  - rewrite !firstn_add, Px, P0. f_equal. apply HF; auto. left; auto.
Qed.

Lemma bucket_scope w depth common sp l j :
  Forall (in_scope depth common) l -> Forall (in_scope depth common) (bucket_of w depth sp l j).
Proof.
  rewrite !Forall_forall. intros H x Hx. apply in_bucket_of in Hx as [Hx _]. auto.
Qed.

(** the equal bucket of a splitter without terminator may be sorted at depth + w *)
Theorem odd_bucket_scope w depth common sp l i s : 1 <= w ->
  Forall (in_scope depth common) l -> nth_error sp i = Some s -> key_has_nul w s = false ->
  exists common', Forall (in_scope (depth + w) common') (bucket_of w depth sp l (2 * i + 1)).
Proof.
  intros Hw Hl Es Hn. pose proof (bucket_scope w depth common sp l (2 * i + 1) Hl) as Hb.
  assert (forall x, In x (bucket_of w depth sp l (2 * i + 1)) -> in_scope depth common x /\ key_at w depth x = s) as K.
  { intros x Hx. rewrite Forall_forall in Hb. split; [auto|]. apply in_bucket_of in Hx as [_ Hx].
    unfold ps5_cls in Hx. apply classify_odd in Hx. congruence. }
  apply (scope_deeper depth common); auto.
  - intros x Hx. destruct (K x Hx) as [Sx Kx]. rewrite <- Kx in Hn.
    destruct (key_no_nul_agree w depth common x x Hw Sx Sx eq_refl Hn) as [L _]. rewrite skipn_length. lia.
  - intros x y Hx Hy. destruct (K x Hx) as [(Bx & _) Kx], (K y Hy) as [(By & _) Ky].
    apply key_of_inj; auto using bytes_ok_skipn. unfold key_at in *. congruence.
Qed.

(** the equal bucket of a splitter with terminator is sorted as it stands: all its strings are equal *)
Lemma all_equal_sorted (b : list str) :
  (forall x y, In x b -> In y b -> x = y) -> Sorted (sorted_rel lex_ltb) b.
Proof.
  induction b as [|a t IH]; intros H; constructor.
  - apply IH. intros x y Hx Hy. apply H; right; auto.
  - destruct t as [|c t]; constructor. unfold sorted_rel.
    rewrite (H c a) by (simpl; auto). apply (swo_irrefl _ lex_SWO).
Qed.

Theorem nul_bucket_sorted w depth common sp l i s : 1 <= w ->
  Forall (in_scope depth common) l -> nth_error sp i = Some s -> key_has_nul w s = true ->
  Sorted (sorted_rel lex_ltb) (bucket_of w depth sp l (2 * i + 1)).
Proof.
  intros Hw Hl Es Hn. pose proof (bucket_scope w depth common sp l (2 * i + 1) Hl) as Hb.
  rewrite Forall_forall in Hb.
  assert (forall x, In x (bucket_of w depth sp l (2 * i + 1)) -> key_at w depth x = s) as K.
  { intros x Hx. apply in_bucket_of in Hx as [_ Hx]. unfold ps5_cls in Hx. apply classify_odd in Hx. congruence. }
  apply all_equal_sorted. intros x y Hx Hy.
  apply (key_has_nul_equal w depth common); auto.
  - rewrite (K x Hx), (K y Hy). reflexivity.
  - now rewrite (K x Hx).
Qed.

(** the bucket strictly between two splitters may be sorted at depth + dd for every dd up to the splitters' lcp;
    the first and the last bucket at depth *)
Theorem even_bucket_scope w depth common sp l i dd :
  Sorted le sp -> Forall (in_scope depth common) l -> dd <= even_lcp w sp i ->
  exists common', Forall (in_scope (depth + dd) common') (bucket_of w depth sp l (2 * i)).
Proof.
  intros Hsp Hl Hdd. pose proof (bucket_scope w depth common sp l (2 * i) Hl) as Hb.
  assert (dd = 0 \/ exists i' a b, i = S i' /\ nth_error sp i' = Some a /\ nth_error sp i = Some b /\
                                   dd <= lcp_keys w a b) as [Z|(i' & a & b & Ei & Ea & Eb & Hab)].
  { unfold even_lcp in Hdd. destruct i as [|i']; [left; lia|].
    destruct (nth_error sp i') as [a|] eqn:Ea; [|left; lia].
    destruct (nth_error sp (S i')) as [b|] eqn:Eb; [|left; lia].
    right. exists i', a, b. auto. }
  - subst dd. apply (scope_deeper depth common); auto. intros; lia.
  - assert (forall x, In x (bucket_of w depth sp l (2 * i)) ->
              bytes_ok (skipn depth x) /\ a < key_at w depth x /\ dd <= lcp_keys w a (key_at w depth x)) as K.
    { intros x Hx. rewrite Forall_forall in Hb. destruct (Hb x Hx) as (Bx & _).
      apply in_bucket_of in Hx as [_ Hx]. unfold ps5_cls in Hx.
      destruct (classify_even sp (key_at w depth x) i Hsp Hx) as [Hlo Hhi].
      assert (a < key_at w depth x) as La by (apply (Hlo i'); auto; lia).
      specialize (Hhi b Eb).
      pose proof (lcp_keys_between w a (key_at w depth x) b). split; [auto using bytes_ok_skipn|]. split; [auto|]. lia. }
    apply (scope_deeper depth common); auto.
    + intros x Hx. destruct (K x Hx) as (Bx & La & Ld).
      pose proof (lcp_lt_length w a (skipn depth x) Bx La). unfold key_at in Ld. lia.
    + intros x y Hx Hy. destruct (K x Hx) as (Bx & _ & Lx), (K y Hy) as (By & _ & Ly).
      apply (lcp_keys_firstn w); auto. apply (lcp_keys_trans w a); auto.
Qed.

(** * 3. Every execution of the recursion *)

(** [Sorts w depth l out]: the recursion started at [depth] on the strings [l] can return [out].
    - [Sorts_small]: the implementation hands [l] to a small sorter (insertion sort, multikey quicksort, or simply
      leaves a bucket of size <= 1 alone) whenever it likes -- the thresholds are thereby arbitrary -- and the only
      thing assumed of a small sorter is that it returns a sorted permutation;
    - [Sorts_step]: a sample-sort step with ANY sorted splitter list [sp] (the code's splitters depend on an
      address-seeded RNG): bucket j holds the strings classified j, the equal bucket 2i+1 is left as it stands if
      splitter i carries the terminator flag and is otherwise sorted recursively at depth + w, the bucket 2i is
      sorted recursively at depth + d i for ANY d i up to the byte lcp of the delimiting splitters (the code uses
      exactly that lcp; 0 for the first and the last bucket), and the results are concatenated. *)
Inductive Sorts (w : nat) : nat -> list str -> list str -> Prop :=
| Sorts_small depth l out :
    Sorted (sorted_rel lex_ltb) out -> Permutation l out -> Sorts w depth l out
| Sorts_step depth l out (sp : list nat) (d : nat -> nat) (o : nat -> list str) :
    Sorted le sp ->
    (forall i s, nth_error sp i = Some s -> key_has_nul w s = true ->
       o (2 * i + 1) = bucket_of w depth sp l (2 * i + 1)) ->
    (forall i s, nth_error sp i = Some s -> key_has_nul w s = false ->
       Sorts w (depth + w) (bucket_of w depth sp l (2 * i + 1)) (o (2 * i + 1))) ->
    (forall i, i <= length sp -> d i <= even_lcp w sp i) ->
    (forall i, i <= length sp -> Sorts w (depth + d i) (bucket_of w depth sp l (2 * i)) (o (2 * i))) ->
    out = concat (map o (seq 0 (2 * length sp + 1))) ->
    Sorts w depth l out.

(** [ps5_step_correct] wants a total family of correct bucket sorters; outside the buckets that actually occur
    an insertion sort stands in *)
Fixpoint ins (x : str) (l : list str) : list str :=
  match l with
  | [] => [x]
  | y :: t => if lex_ltb x y then x :: y :: t else y :: ins x t
  end.

Definition isort (l : list str) : list str := fold_right ins [] l.

Lemma ins_perm x l : Permutation (x :: l) (ins x l).
Proof.
  induction l as [|y t IH]; cbn [ins]; auto. destruct (lex_ltb x y); auto.
  eapply perm_trans; [apply perm_swap|]. now apply perm_skip.
Qed.

Lemma ins_sorted x l : Sorted (sorted_rel lex_ltb) l -> Sorted (sorted_rel lex_ltb) (ins x l).
Proof.
  induction l as [|y t IH]; intros S; cbn [ins]; [repeat constructor|].
  inversion S as [|? ? St Hd]; subst. destruct (lex_ltb x y) eqn:E.
  - constructor; auto. constructor. unfold sorted_rel. apply (swo_asym _ lex_SWO _ _ E).
  - constructor; [auto|]. destruct t as [|z t]; cbn [ins].
    + constructor. exact E.
    + destruct (lex_ltb x z); constructor; [exact E|]. now inversion Hd.
Qed.

Lemma isort_ok l : Sorted (sorted_rel lex_ltb) (isort l) /\ Permutation l (isort l).
Proof.
  induction l as [|x l [IS IP]]; cbn [isort fold_right]; [split; constructor|]. split.
  - now apply ins_sorted.
  - eapply perm_trans; [apply perm_skip, IP|apply ins_perm].
Qed.

Definition strs_eq_dec : forall a b : list str, {a = b} + {a <> b} :=
  list_eq_dec (list_eq_dec Nat.eq_dec).

(** the step theorem, with bucket results given as a family of lists instead of sorting functions *)
Lemma ps5_step_outputs w depth sp common l (o : nat -> list str) :
  Sorted le sp -> Forall (in_scope depth common) l ->
  (forall j, j < 2 * length sp + 1 ->
     Sorted (sorted_rel lex_ltb) (o j) /\ Permutation (bucket_of w depth sp l j) (o j)) ->
  Sorted (sorted_rel lex_ltb) (concat (map o (seq 0 (2 * length sp + 1)))) /\
  Permutation l (concat (map o (seq 0 (2 * length sp + 1)))).
Proof.
  intros Hsp Hl Ho.
  set (sorter := fun (b : nat) (l' : list str) =>
         if strs_eq_dec l' (bucket_of w depth sp l b)
         then (if b <? 2 * length sp + 1 then o b else isort l')
         else isort l').
  assert (forall b l', Sorted (sorted_rel lex_ltb) (sorter b l') /\ Permutation l' (sorter b l')) as Hsorter.
  { intros b l'. unfold sorter. destruct (strs_eq_dec l' (bucket_of w depth sp l b)) as [->|_]; [|apply isort_ok].
    destruct (Nat.ltb_spec b (2 * length sp + 1)); [auto|apply isort_ok]. }
  pose proof (ps5_step_correct w depth sp common sorter Hsp Hsorter l Hl) as R. cbv zeta in R.
  replace (map o (seq 0 (2 * length sp + 1)))
    with (map (fun b => sorter b (filter (fun s => ps5_cls w depth sp s =? b) l)) (seq 0 (2 * length sp + 1)));
    [exact R|].
  apply map_ext_in. intros b Hb. apply in_seq in Hb. unfold sorter. fold (bucket_of w depth sp l b).
  destruct (strs_eq_dec (bucket_of w depth sp l b) (bucket_of w depth sp l b)) as [_|N]; [|contradiction].
  destruct (Nat.ltb_spec b (2 * length sp + 1)); [reflexivity|lia].
Qed.

(** THE THEOREM: whatever splitters every step draws, wherever the implementation switches to a small sorter,
    the result of the whole recursion is a sorted permutation of its input.  ([common] is generalised in the
    induction: every recursive call has its own common prefix, supplied by [odd_bucket_scope] /
    [even_bucket_scope].)  w >= 1: with a zero-width key every string would land in a "finished" bucket. *)
Theorem ps5_recursion_correct : forall w depth common l out, 1 <= w ->
  Forall (in_scope depth common) l -> Sorts w depth l out ->
  Sorted (sorted_rel lex_ltb) out /\ Permutation l out.
Proof.
  intros w depth common l out Hw Hl HS. revert common Hl.
  induction HS as [depth l out Hso Hpe
                  |depth l out sp d o Hsp Hnul Hrec IHrec Hd Hev IHev Hout]; intros common Hl.
  - auto.
  - subst out. apply (ps5_step_outputs w depth sp common); auto.
    intros j Hj. destruct (Nat.Even_or_Odd j) as [[i ->]|[i ->]].
    + destruct (even_bucket_scope w depth common sp l i (d i) Hsp Hl) as [c' Hc']; [apply Hd; lia|].
      apply (IHev i) with (common := c'); [lia|exact Hc'].
    + destruct (nth_error sp i) as [s|] eqn:Es; [|apply nth_error_None in Es; lia].
      destruct (key_has_nul w s) eqn:Hn.
      * rewrite (Hnul i s Es Hn). split; [|apply Permutation_refl].
        apply (nul_bucket_sorted w depth common sp l i s); auto.
      * destruct (odd_bucket_scope w depth common sp l i s Hw Hl Es Hn) as [c' Hc'].
        apply (IHrec i s Es Hn c' Hc').
Qed.

(** * 4. The definitions mean what they say; a concrete two-level execution *)

(** for a key of width w, [key_byte] is the base-256 digit and the terminator flag is the last byte *)
Lemma key_byte_digit w : forall k i, k < 256 ^ w -> i < w ->
  key_byte w k i = (k / 256 ^ (w - 1 - i)) mod 256.
Proof.
  induction w as [|w IH]; intros k i Hk Hi; [lia|]. cbn [key_byte].
  pose proof (pow256_nz w) as HB. rewrite Nat.pow_succ_r' in Hk.
  destruct i as [|i].
  - replace (S w - 1 - 0) with w by lia. symmetry. apply Nat.mod_small.
    apply Nat.div_lt_upper_bound; auto. lia.
  - replace (S w - 1 - S i) with (w - 1 - i) by lia.
    rewrite IH by (try apply Nat.mod_upper_bound; auto; lia).
    set (e := w - 1 - i). pose proof (pow256_nz e) as HP.
    assert (256 ^ w = 256 ^ e * (256 ^ i * 256)) as EB.
    { replace w with (e + S i) at 1 by (unfold e; lia). rewrite Nat.pow_add_r, Nat.pow_succ_r'. lia. }
    pose proof (Nat.div_mod k (256 ^ w) HB) as Hdm.
    remember (k / 256 ^ w) as q eqn:Eq. remember (k mod 256 ^ w) as r eqn:Er.
    rewrite Hdm, EB.
    replace (256 ^ e * (256 ^ i * 256) * q + r) with ((256 ^ i * 256 * q) * 256 ^ e + r) by lia.
    rewrite Nat.div_add_l by auto.
    replace (256 ^ i * 256 * q + r / 256 ^ e) with (r / 256 ^ e + (256 ^ i * q) * 256) by lia.
    rewrite Nat.mod_add by lia. reflexivity.
Qed.

Lemma key_has_nul_byte w k : 1 <= w -> k < 256 ^ w -> key_has_nul w k = (key_byte w k (w - 1) =? 0).
Proof.
  intros Hw Hk. rewrite key_byte_digit by (auto; lia).
  replace (w - 1 - (w - 1)) with 0 by lia. rewrite Nat.pow_0_r, Nat.div_1_r. reflexivity.
Qed.

Example lcp_keys_example :
  (* "ab\0\0" vs "abc\0", "ab\0\0" vs "b\0\0\0", a key with itself *)
  lcp_keys 2 (1 * 256 + 2) (1 * 256 + 3) = 1 /\ lcp_keys 2 (1 * 256 + 2) (2 * 256) = 0 /\
  lcp_keys 2 515 515 = 2 /\ key_has_nul 2 512 = true /\ key_has_nul 2 513 = false /\
  map (key_byte 2 (key_of 2 [7])) [0; 1] = [7; 0].
Proof. vm_compute. repeat split. Qed.

(** Eleven strings, key width 2.  First step at depth 0 with splitters "b", "ba", "bc" (512, 513, 515):
      bucket 0 "<b" = {a}; bucket 1 "=b" = {b}, terminator flag, left as it stands; bucket 2 empty;
      bucket 3 "=ba" = {bab, ba, baa, baa}, no flag: second step at depth 2 with the splitter "a" (256), whose
        equal bucket {baa, baa} carries the flag and is left as it stands;
      bucket 4 between "ba" and "bc" (lcp 1) = {bba, bb}: small sorter at depth 1;
      bucket 5 "=bc" = {bca, bc}: small sorter at depth 2; bucket 6 = {c}. *)
Definition ex_in : list str :=
  [[2;1;2]; [3]; [2;3;1]; [2]; [2;2;1]; [2;1;1]; [1]; [2;1]; [2;3]; [2;1;1]; [2;2]].
Definition ex_out : list str :=
  [[1]; [2]; [2;1]; [2;1;1]; [2;1;1]; [2;1;2]; [2;2]; [2;2;1]; [2;3]; [2;3;1]; [3]].

Ltac ex_small :=
  apply Sorts_small; [apply (sortedb_Sorted lex_ltb); vm_compute; reflexivity|].

Example ps5_recursion_example : Sorts 2 0 ex_in ex_out.
Proof.
  apply Sorts_step with
    (sp := [512; 513; 515])
    (d := fun i => match i with 1 => 1 | 2 => 1 | _ => 0 end)
    (o := fun j => match j with
                   | 0 => [[1]] | 1 => [[2]]
                   | 3 => [[2;1]; [2;1;1]; [2;1;1]; [2;1;2]]
                   | 4 => [[2;2]; [2;2;1]]
                   | 5 => [[2;3]; [2;3;1]]
                   | 6 => [[3]]
                   | _ => []
                   end).
  - repeat constructor; lia.
  - (* equal buckets with terminator flag: only splitter 0 *)
    intros i s E N. destruct i as [|[|[|[|i]]]]; cbn [nth_error] in E; try discriminate E;
      injection E as <-; vm_compute in N; try discriminate N. vm_compute. reflexivity.
  - (* equal buckets sorted at depth + 2 *)
    intros i s E N. destruct i as [|[|[|[|i]]]]; cbn [nth_error] in E; try discriminate E;
      injection E as <-; vm_compute in N; try discriminate N; vm_compute.
    + (* "=ba": a second sample-sort step, at depth 2 *)
      apply Sorts_step with
        (sp := [256]) (d := fun _ => 0)
        (o := fun j => match j with
                       | 0 => [[2;1]] | 1 => [[2;1;1]; [2;1;1]] | 2 => [[2;1;2]] | _ => []
                       end).
      * repeat constructor.
      * intros i s E' N'. destruct i as [|[|i]]; cbn [nth_error] in E'; try discriminate E'.
        vm_compute. reflexivity.
      * intros i s E' N'. destruct i as [|[|i]]; cbn [nth_error] in E'; try discriminate E'.
        injection E' as <-. vm_compute in N'. discriminate N'.
      * intros i _. lia.
      * intros i Hi. cbn [length] in Hi. destruct i as [|[|i]]; [| |lia]; vm_compute; ex_small; apply Permutation_refl.
      * vm_compute. reflexivity.
    + (* "=bc" *) ex_small. apply perm_swap.
  - intros i Hi. cbn [length] in Hi. destruct i as [|[|[|[|i]]]]; [| | | |lia]; vm_compute; lia.
  - intros i Hi. cbn [length] in Hi. destruct i as [|[|[|[|i]]]]; [| | | |lia]; vm_compute; ex_small.
    + apply Permutation_refl.
    + apply Permutation_refl.
    + apply perm_swap.
    + apply Permutation_refl.
  - vm_compute. reflexivity.
Qed.

(** the theorem applies to it: the hypotheses are satisfiable by a non-trivial execution *)
Example ps5_recursion_example_scope : Forall (in_scope 0 []) ex_in.
Proof.
  unfold ex_in, in_scope, bytes_ok.
  repeat (apply Forall_cons; [split; [repeat (apply Forall_cons; [lia|]); apply Forall_nil|split; [cbn [length]; lia|reflexivity]]|]).
  apply Forall_nil.
Qed.

Example ps5_recursion_example_result : Sorted (sorted_rel lex_ltb) ex_out /\ Permutation ex_in ex_out.
Proof.
  apply (ps5_recursion_correct 2 0 []); [lia|exact ps5_recursion_example_scope|exact ps5_recursion_example].
Qed.

(** The side conditions of [Sorts_step] are not decoration: with a depth increment ABOVE the splitters' lcp
    a step may hand a recursive call strings that do not share that many bytes.  Between "aa" (257) and "bb"
    (514), lcp 0, sit "ab" and "ba"; at depth 1 a correct sub-sort would compare "b" with "a" and emit the two in
    the wrong order.  The scope property that [even_bucket_scope] provides fails for d = 1: *)
Example depth_bound_needed :
  ~ exists common', Forall (in_scope (0 + 1) common') (bucket_of 2 0 [257; 514] [[1;2]; [2;1]] 2).
Proof.
  intros [c H]. vm_compute in H. inversion H as [|? ? (_ & _ & H1) H']; subst.
  inversion H' as [|? ? (_ & _ & H2) _]; subst. discriminate H2.
Qed.
