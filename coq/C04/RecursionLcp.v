(** C04 — the LCP half of the sample-sort recursion: "the LCP variant stores exactly the neighbouring
    longest-common-prefix lengths".

    [C04/Recursion.v] describes every execution of the recursion by its output strings.  Here every execution
    carries its LCP array as well:

      - a small sorter returns a sorted permutation of its bucket TOGETHER WITH the exact LCPs of neighbouring
        output strings (full strings, depth included); entry 0 of every array is unspecified;
      - an equal bucket whose splitter key contains the terminator is left as it stands and
        fill_lcp(depth + lcpKeyDepth(splitter)) stores the same value everywhere, lcpKeyDepth(k) =
        sizeof(key_type) - ctz(k)/8 (ctz(0) = the bit width);
      - when all buckets of a step are finished, ps5_sample_sort_lcp() walks over the NON-EMPTY buckets and
        overwrites the first entry of each one that has a non-empty predecessor by
              depth + lcpKeyType(prevkey, thiskey),        lcpKeyType(a, b) = clz(a xor b) / 8,
        where thiskey is the key at [depth] of the first string of the bucket (for an equal bucket: the
        splitter, asserted equal to that key) and prevkey the key at [depth] of the last string of the preceding
        non-empty bucket (for an equal bucket again the splitter).  The strings are read AFTER the recursion
        (since 8640f30 from the array that holds the sorted output).

    Theorem [ps5_recursion_lcp_correct]: for every execution, the output is a sorted permutation AND
    lcp_out[i] = lcp(out[i-1], out[i]) for every i >= 1. *)
From Coq Require Import List Arith Lia Bool Sorting.Sorted Sorting.Permutation.
From TLXV Require Import Common.Order C04.SampleSort C04.Recursion.
Import ListNotations.

(** * 1. LCP of strings, of keys, and the key depth *)

Fixpoint lcp_str (a b : str) : nat :=
  match a, b with
  | x :: a', y :: b' => if x =? y then S (lcp_str a' b') else 0
  | _, _ => 0
  end.

(** the specification of an LCP array: as long as the output, entry i (i >= 1) is the LCP of output strings
    i-1 and i; entry 0 is unspecified *)
Definition neighbour_lcps (out : list str) (lcp : list nat) : Prop :=
  length lcp = length out /\
  forall i, 1 <= i -> i < length out -> nth i lcp 0 = lcp_str (nth (i - 1) out []) (nth i out []).

(** ctz(k) / 8 for a key of width w, with ctz(0) = 8 * w, and lcpKeyDepth *)
Fixpoint tz_bytes (w k : nat) : nat :=
  match w with
  | 0 => 0
  | S w' => if k mod 256 =? 0 then S (tz_bytes w' (k / 256)) else 0
  end.

Definition key_depth (w k : nat) : nat := w - tz_bytes w k.

Lemma lcp_str_refl x : lcp_str x x = length x.
Proof. induction x as [|c x IH]; cbn [lcp_str length]; auto. now rewrite Nat.eqb_refl, IH. Qed.

Lemma lcp_str_skipn : forall d x y, firstn d x = firstn d y -> d <= length x -> d <= length y ->
  lcp_str x y = d + lcp_str (skipn d x) (skipn d y).
Proof.
  induction d as [|d IH]; intros x y E Lx Ly; auto.
  destruct x as [|a x], y as [|b y]; cbn [length] in *; try lia.
  cbn [firstn] in E. injection E as -> E. cbn [lcp_str skipn]. rewrite Nat.eqb_refl, (IH x y) by (auto; lia). lia.
Qed.

(** the byte LCP of two DIFFERENT keys of NUL-free strings is the LCP of the strings: a common zero byte would
    make the keys equal *)
Lemma lcp_str_keys w : forall x y, bytes_ok x -> bytes_ok y -> key_of w x <> key_of w y ->
  lcp_str x y = lcp_keys w (key_of w x) (key_of w y).
Proof.
  induction w as [|w IH]; intros x y Hx Hy Hne; [exfalso; apply Hne; reflexivity|].
  pose proof (pow256_nz w) as HB.
  destruct x as [|c t], y as [|c' t'].
  - exfalso. apply Hne. reflexivity.
  - inversion Hy as [|? ? Hc' Ht']; subst. rewrite key_of_nil, key_of_cons.
    destruct (divmod_digit (256 ^ w) c' (key_of w t') (key_of_bound w t' Ht')) as [Hd _].
    cbn [lcp_str lcp_keys]. rewrite Nat.div_0_l by auto. rewrite Hd.
    destruct (Nat.eqb_spec 0 c'); [lia|reflexivity].
  - inversion Hx as [|? ? Hc Ht]; subst. rewrite key_of_nil, key_of_cons.
    destruct (divmod_digit (256 ^ w) c (key_of w t) (key_of_bound w t Ht)) as [Hd _].
    cbn [lcp_str lcp_keys]. rewrite Nat.div_0_l by auto. rewrite Hd.
    destruct (Nat.eqb_spec c 0); [lia|reflexivity].
  - inversion Hx as [|? ? Hc Ht]; subst. inversion Hy as [|? ? Hc' Ht']; subst.
    rewrite !key_of_cons in *.
    destruct (divmod_digit (256 ^ w) c (key_of w t) (key_of_bound w t Ht)) as [Hd Hm].
    destruct (divmod_digit (256 ^ w) c' (key_of w t') (key_of_bound w t' Ht')) as [Hd' Hm'].
    cbn [lcp_str lcp_keys]. rewrite Hd, Hm, Hd', Hm'.
    destruct (Nat.eqb_spec c c') as [->|N]; [|reflexivity].
    f_equal. apply IH; auto; intros E; apply Hne; now rewrite E.
Qed.

(** the value written at a bucket boundary is the true LCP of the two neighbouring strings *)
Theorem boundary_lcp w depth common x y : in_scope depth common x -> in_scope depth common y ->
  key_at w depth x <> key_at w depth y ->
  lcp_str x y = depth + lcp_keys w (key_at w depth x) (key_at w depth y).
Proof.
  intros (Bx & Lx & Px) (By & Ly & Py) Hne.
  rewrite (lcp_str_skipn depth x y) by (auto; congruence). f_equal.
  apply lcp_str_keys; auto using bytes_ok_skipn.
Qed.

(** appending a zero byte to the window *)
Lemma key_of_pad w : forall x, length x <= w -> key_of (S w) x = 256 * key_of w x.
Proof.
  induction w as [|w IH]; intros x Hx.
  - destruct x; [reflexivity|cbn [length] in Hx; lia].
  - destruct x as [|c t]; [now rewrite !key_of_nil|]. cbn [length] in Hx.
    rewrite (key_of_cons (S w)), (key_of_cons w), (IH t) by lia. rewrite Nat.pow_succ_r'. lia.
Qed.

Lemma tz_bytes_key_of w : forall x, bytes_ok x -> tz_bytes w (key_of w x) = w - length x.
Proof.
  induction w as [|w IH]; intros x Hx; [reflexivity|].
  destruct (le_lt_dec (length x) w) as [L|G].
  - rewrite key_of_pad by auto. cbn [tz_bytes].
    rewrite (Nat.mul_comm 256), Nat.mod_mul, Nat.div_mul by lia. cbn [Nat.eqb]. rewrite IH by auto. lia.
  - cbn [tz_bytes]. destruct (Nat.eqb_spec (key_of (S w) x mod 256) 0) as [E|_]; [|lia].
    apply key_of_mod256 in E; auto; lia.
Qed.

(** lcpKeyDepth of the key of a string that ends inside the window = the number of bytes left *)
Lemma key_depth_key_of w x : bytes_ok x -> length x <= w -> key_depth w (key_of w x) = length x.
Proof. intros Hx L. unfold key_depth. rewrite tz_bytes_key_of by auto. lia. Qed.

Example key_depth_example :
  map (key_depth 2) [0; 256; 512; 513] = [0; 1; 1; 2] /\ lcp_str [2;1;1] [2;1;2] = 2 /\ lcp_str [2;1] [2;1;1] = 2.
Proof. vm_compute. repeat split. Qed.

(** ** LCP arrays, recursively (for the proofs) *)

(** every entry is the LCP with the predecessor, [p] being the predecessor of the first string *)
Fixpoint lcps_from (p : str) (out : list str) (lc : list nat) : Prop :=
  match out, lc with
  | [], [] => True
  | x :: out', e :: lc' => e = lcp_str p x /\ lcps_from x out' lc'
  | _, _ => False
  end.

Definition lcps_ok (out : list str) (lc : list nat) : Prop :=
  match out, lc with
  | [], [] => True
  | x :: out', _ :: lc' => lcps_from x out' lc'
  | _, _ => False
  end.

Lemma lcps_from_iff : forall out p lc,
  lcps_from p out lc <->
  (length lc = length out /\ forall i, i < length out -> nth i lc 0 = lcp_str (nth i (p :: out) []) (nth i out [])).
Proof.
  induction out as [|x out IH]; intros p lc; destruct lc as [|e lc]; cbn [lcps_from length].
  - split; auto. intros _. split; auto. intros i Hi. lia.
  - split; [tauto|]. intros [H _]. discriminate H.
  - split; [tauto|]. intros [H _]. discriminate H.
  - rewrite IH. split.
    + intros [He [HL H]]. split; [lia|]. intros [|i] Hi; [exact He|]. cbn [nth]. apply H. lia.
    + intros [HL H]. split; [apply (H 0); lia|]. split; [lia|]. intros i Hi. apply (H (S i)). lia.
Qed.

Lemma lcps_ok_iff out lc : lcps_ok out lc <-> neighbour_lcps out lc.
Proof.
  unfold neighbour_lcps. destruct out as [|x out], lc as [|e lc]; cbn [lcps_ok length].
  - split; auto. intros _. split; auto. intros i _ Hi. lia.
  - split; [tauto|]. intros [H _]. discriminate H.
  - split; [tauto|]. intros [H _]. discriminate H.
  - rewrite lcps_from_iff. split.
    + intros [HL H]. split; [lia|]. intros [|i] H1 Hi; [lia|].
      replace (S i - 1) with i by lia. cbn [nth]. apply H. lia.
    + intros [HL H]. split; [lia|]. intros i Hi. specialize (H (S i)).
      replace (S i - 1) with i in H by lia. cbn [nth] in H. apply H; lia.
Qed.

Lemma lcps_from_app : forall ob x lcb q ql,
  lcps_from x ob lcb -> lcps_from (last (x :: ob) []) q ql -> lcps_from x (ob ++ q) (lcb ++ ql).
Proof.
  induction ob as [|y ob IH]; intros x lcb q ql H1 H2; destruct lcb as [|e lcb]; cbn [lcps_from] in H1; try tauto.
  destruct H1 as [He H1]. cbn [app lcps_from]. split; auto.
Qed.

Lemma last_In {A} (l : list A) d : l <> [] -> In (last l d) l.
Proof.
  induction l as [|a l IH]; intros H; [contradiction|].
  destruct l as [|b l]; [left; reflexivity|]. right. apply IH. discriminate.
Qed.

(** all strings equal: the same value everywhere is right *)
Lemma lcps_from_repeat p b v : (forall x, In x b -> x = p) -> v = lcp_str p p ->
  lcps_from p b (repeat v (length b)).
Proof.
  intros H Hv. induction b as [|x b IH]; cbn [length repeat lcps_from]; auto.
  rewrite (H x) by (left; auto). split; auto. apply IH. intros y Hy. apply H. right; auto.
Qed.

(** * 2. The boundary pass of a step *)

Definition set_first (v : nat) (lc : list nat) : list nat :=
  match lc with [] => [] | _ :: t => v :: t end.

(** [stitch w depth prev bs]: bs lists, per bucket, (sorted bucket, thiskey, prevkey-afterwards, the bucket's
    LCP array).  The arrays are concatenated; the first entry of every non-empty bucket that has a non-empty
    predecessor is overwritten ([prev] = prevkey of the last non-empty bucket seen: None during the first loop of
    ps5_sample_sort_lcp, Some during the second). *)
Fixpoint stitch (w depth : nat) (prev : option nat) (bs : list (list str * nat * nat * list nat)) : list nat :=
  match bs with
  | [] => []
  | (ob, fk, lk, lcb) :: rest =>
      match ob with
      | [] => lcb ++ stitch w depth prev rest
      | _ :: _ =>
          (match prev with
           | None => lcb
           | Some pk => set_first (depth + lcp_keys w pk fk) lcb
           end) ++ stitch w depth (Some lk) rest
      end
  end.

(** thiskey / prevkey of bucket j as the code obtains them: the splitter for an equal bucket, the key of the
    first / last string of the sorted bucket otherwise *)
Definition bkt_first_key (w depth : nat) (sp : list nat) (o : nat -> list str) (j : nat) : nat :=
  if Nat.odd j then nth (j / 2) sp 0 else key_at w depth (hd [] (o j)).
Definition bkt_last_key (w depth : nat) (sp : list nat) (o : nat -> list str) (j : nat) : nat :=
  if Nat.odd j then nth (j / 2) sp 0 else key_at w depth (last (o j) []).

Section Stitch.
  Variables (w depth : nat) (o : nat -> list str) (fk lk : nat -> nat) (lc : nat -> list nat).
  Let K := key_at w depth.
  Let Bnd (x y : str) := lcp_str x y = depth + lcp_keys w (K x) (K y).
  Let bs (s n : nat) := map (fun j => (o j, fk j, lk j, lc j)) (seq s n).

  Lemma stitch_seq_from : forall n s p,
    (forall j, s <= j < s + n -> lcps_ok (o j) (lc j)) ->
    (forall j, s <= j < s + n -> o j <> [] -> fk j = K (hd [] (o j)) /\ lk j = K (last (o j) [])) ->
    (forall j1 j2 x y, s <= j1 -> j1 < j2 -> j2 < s + n -> In x (o j1) -> In y (o j2) -> Bnd x y) ->
    (forall j y, s <= j < s + n -> In y (o j) -> Bnd p y) ->
    lcps_from p (concat (map o (seq s n))) (stitch w depth (Some (K p)) (bs s n)).
  Proof.
    induction n as [|n IH]; intros s p Hok Hkeys Hpair Hp; [exact I|].
    unfold bs. cbn [seq map concat stitch]. fold (bs (S s) n).
    pose proof (Hok s ltac:(lia)) as Hs. pose proof (Hkeys s ltac:(lia)) as Ks.
    destruct (o s) as [|x ob] eqn:Eo.
    - destruct (lc s) as [|e lcb]; [|contradiction]. cbn [app].
      apply IH.
      * intros j Hj. apply Hok. lia.
      * intros j Hj. apply Hkeys. lia.
      * intros j1 j2 a b H0 H12 H2. apply Hpair; lia.
      * intros j y Hj. apply Hp. lia.
    - destruct (lc s) as [|e lcb]; [contradiction|]. cbn [lcps_ok] in Hs.
      destruct Ks as [Kf Kl]; [discriminate|]. cbn [hd] in Kf.
      cbn [set_first app lcps_from]. split.
      + rewrite Kf. symmetry. apply (Hp s); [lia|]. rewrite Eo. left; auto.
      + apply lcps_from_app; auto. rewrite Kl.
        assert (In (last (x :: ob) []) (o s)) as Hin by (rewrite Eo; apply last_In; discriminate).
        apply IH.
        * intros j Hj. apply Hok. lia.
        * intros j Hj. apply Hkeys. lia.
        * intros j1 j2 a b H0 H12 H2. apply Hpair; lia.
        * intros j y Hj Hy. apply (Hpair s j); auto; lia.
  Qed.

  Lemma stitch_seq : forall n s,
    (forall j, s <= j < s + n -> lcps_ok (o j) (lc j)) ->
    (forall j, s <= j < s + n -> o j <> [] -> fk j = K (hd [] (o j)) /\ lk j = K (last (o j) [])) ->
    (forall j1 j2 x y, s <= j1 -> j1 < j2 -> j2 < s + n -> In x (o j1) -> In y (o j2) -> Bnd x y) ->
    lcps_ok (concat (map o (seq s n))) (stitch w depth None (bs s n)).
  Proof.
    induction n as [|n IH]; intros s Hok Hkeys Hpair; [exact I|].
    unfold bs. cbn [seq map concat stitch]. fold (bs (S s) n).
    pose proof (Hok s ltac:(lia)) as Hs. pose proof (Hkeys s ltac:(lia)) as Ks.
    destruct (o s) as [|x ob] eqn:Eo.
    - destruct (lc s) as [|e lcb]; [|contradiction]. cbn [app].
      apply IH.
      * intros j Hj. apply Hok. lia.
      * intros j Hj. apply Hkeys. lia.
      * intros j1 j2 a b H0 H12 H2. apply Hpair; lia.
    - destruct (lc s) as [|e lcb]; [contradiction|]. cbn [lcps_ok] in Hs.
      destruct Ks as [_ Kl]; [discriminate|]. cbn [app lcps_ok].
      apply lcps_from_app; auto. rewrite Kl.
      assert (In (last (x :: ob) []) (o s)) as Hin by (rewrite Eo; apply last_In; discriminate).
      apply stitch_seq_from.
      * intros j Hj. apply Hok. lia.
      * intros j Hj. apply Hkeys. lia.
      * intros j1 j2 a b H0 H12 H2. apply Hpair; lia.
      * intros j y Hj Hy. apply (Hpair s j); auto; lia.
  Qed.
End Stitch.

(** * 3. Every execution, with its LCP array *)

(** [SortsL w depth l out lcp]: as [Sorts], with the LCP array [lcp] the execution leaves behind. *)
Inductive SortsL (w : nat) : nat -> list str -> list str -> list nat -> Prop :=
| SortsL_small depth l out lcp :
    Sorted (sorted_rel lex_ltb) out -> Permutation l out -> neighbour_lcps out lcp ->
    SortsL w depth l out lcp
| SortsL_step depth l out lcp (sp : list nat) (d : nat -> nat) (o : nat -> list str) (lc : nat -> list nat) :
    Sorted le sp ->
    (* equal bucket with terminator flag: left as it stands, fill_lcp(depth + lcpKeyDepth(splitter)); the first
       entry is left open (distribute_finished does not fill a bucket of one string) *)
    (forall i s, nth_error sp i = Some s -> key_has_nul w s = true ->
       o (2 * i + 1) = bucket_of w depth sp l (2 * i + 1) /\
       exists e, lc (2 * i + 1) =
                 set_first e (repeat (depth + key_depth w s) (length (bucket_of w depth sp l (2 * i + 1))))) ->
    (forall i s, nth_error sp i = Some s -> key_has_nul w s = false ->
       SortsL w (depth + w) (bucket_of w depth sp l (2 * i + 1)) (o (2 * i + 1)) (lc (2 * i + 1))) ->
    (forall i, i <= length sp -> d i <= even_lcp w sp i) ->
    (forall i, i <= length sp ->
       SortsL w (depth + d i) (bucket_of w depth sp l (2 * i)) (o (2 * i)) (lc (2 * i))) ->
    out = concat (map o (seq 0 (2 * length sp + 1))) ->
    lcp = stitch w depth None
            (map (fun j => (o j, bkt_first_key w depth sp o j, bkt_last_key w depth sp o j, lc j))
                 (seq 0 (2 * length sp + 1))) ->
    SortsL w depth l out lcp.

(** forgetting the LCP arrays gives an execution in the sense of [Sorts] *)
Lemma SortsL_Sorts w depth l out lcp : SortsL w depth l out lcp -> Sorts w depth l out.
Proof.
  induction 1 as [depth l out lcp Hso Hpe _
                 |depth l out lcp sp d o lc Hsp Hnul Hrec IHrec Hd Hev IHev Hout Hlcp].
  - now apply Sorts_small.
  - apply Sorts_step with (sp := sp) (d := d) (o := o); auto.
    intros i s E N. apply (Hnul i s E N).
Qed.

Lemma odd_2i i : Nat.odd (2 * i) = false.
Proof. rewrite Nat.odd_mul. reflexivity. Qed.

Lemma odd_2i1 i : Nat.odd (2 * i + 1) = true /\ (2 * i + 1) / 2 = i.
Proof.
  split.
  - rewrite Nat.odd_add, odd_2i. reflexivity.
  - symmetry. apply (Nat.div_unique _ 2 i 1); lia.
Qed.

(** the terminator bucket: its fill value is the LCP of its (equal) strings *)
Lemma nul_bucket_lcps w depth common sp l i s e : 1 <= w ->
  Forall (in_scope depth common) l -> nth_error sp i = Some s -> key_has_nul w s = true ->
  lcps_ok (bucket_of w depth sp l (2 * i + 1))
          (set_first e (repeat (depth + key_depth w s) (length (bucket_of w depth sp l (2 * i + 1))))).
Proof.
  intros Hw Hl Es Hn. pose proof (bucket_scope w depth common sp l (2 * i + 1) Hl) as Hb.
  rewrite Forall_forall in Hb.
  assert (forall x, In x (bucket_of w depth sp l (2 * i + 1)) -> key_at w depth x = s) as K.
  { intros x Hx. apply in_bucket_of in Hx as [_ Hx]. unfold ps5_cls in Hx. apply classify_odd in Hx. congruence. }
  destruct (bucket_of w depth sp l (2 * i + 1)) as [|x b]; [exact I|].
  cbn [length repeat set_first lcps_ok]. apply lcps_from_repeat.
  - intros y Hy. apply (key_has_nul_equal w depth common); auto using in_cons, in_eq.
    + rewrite (K x), (K y); auto using in_cons, in_eq.
    + rewrite (K y); auto using in_cons.
  - pose proof (Hb x (in_eq _ _)) as Sx. pose proof (K x (in_eq _ _)) as Kx. rewrite <- Kx in Hn.
    pose proof (key_has_nul_short w depth common x Hw Sx Hn) as Lx.
    destruct Sx as (Bx & Lx' & _). rewrite lcp_str_refl, <- Kx. unfold key_at.
    rewrite key_depth_key_of by (auto using bytes_ok_skipn; rewrite skipn_length; lia).
    rewrite skipn_length. lia.
Qed.

(** THE THEOREM *)
Theorem ps5_recursion_lcp_correct : forall w depth common l out lcp, 1 <= w ->
  Forall (in_scope depth common) l -> SortsL w depth l out lcp ->
  Sorted (sorted_rel lex_ltb) out /\ Permutation l out /\ neighbour_lcps out lcp.
Proof.
  intros w depth common l out lcp Hw Hl HS. revert common Hl.
  induction HS as [depth l out lcp Hso Hpe Hlc
                  |depth l out lcp sp d o lc Hsp Hnul Hrec IHrec Hd Hev IHev Hout Hlcp]; intros common Hl.
  - auto.
  - assert (forall j, j < 2 * length sp + 1 ->
              Sorted (sorted_rel lex_ltb) (o j) /\ Permutation (bucket_of w depth sp l j) (o j) /\
              lcps_ok (o j) (lc j)) as Hb.
    { intros j Hj. destruct (Nat.Even_or_Odd j) as [[i ->]|[i ->]].
      - destruct (even_bucket_scope w depth common sp l i (d i) Hsp Hl) as [c' Hc']; [apply Hd; lia|].
        destruct (IHev i ltac:(lia) c' Hc') as (A & B & C). rewrite lcps_ok_iff. auto.
      - destruct (nth_error sp i) as [s|] eqn:Es; [|apply nth_error_None in Es; lia].
        destruct (key_has_nul w s) eqn:Hn.
        + destruct (Hnul i s Es Hn) as [Eo [e El]]. rewrite Eo, El. split; [|split].
          * apply (nul_bucket_sorted w depth common sp l i s); auto.
          * apply Permutation_refl.
          * apply (nul_bucket_lcps w depth common); auto.
        + destruct (odd_bucket_scope w depth common sp l i s Hw Hl Es Hn) as [c' Hc'].
          destruct (IHrec i s Es Hn c' Hc') as (A & B & C). rewrite lcps_ok_iff. auto. }
    destruct (ps5_step_outputs w depth sp common l o Hsp Hl) as [HSo HPe].
    { intros j Hj. destruct (Hb j Hj) as (A & B & _). auto. }
    subst out lcp. split; [exact HSo|]. split; [exact HPe|]. apply lcps_ok_iff.
    (* every string of an output bucket is in scope and classified there *)
    assert (forall j x, j < 2 * length sp + 1 -> In x (o j) ->
              in_scope depth common x /\ ps5_cls w depth sp x = j) as Hin.
    { intros j x Hj Hx. destruct (Hb j Hj) as (_ & P & _).
      apply (Permutation_in _ (Permutation_sym P)) in Hx. apply in_bucket_of in Hx as [Hx Hc].
      rewrite Forall_forall in Hl. auto. }
    apply (stitch_seq w depth o (bkt_first_key w depth sp o) (bkt_last_key w depth sp o) lc).
    + intros j Hj. apply Hb. lia.
    + intros j Hj Hne. unfold bkt_first_key, bkt_last_key.
      destruct (Nat.Even_or_Odd j) as [[i ->]|[i ->]]; [rewrite odd_2i; auto|].
      destruct (odd_2i1 i) as [-> ->].
      assert (forall x, In x (o (2 * i + 1)) -> nth i sp 0 = key_at w depth x) as Kx.
      { intros x Hx. destruct (Hin (2 * i + 1) x ltac:(lia) Hx) as [_ Hc]. unfold ps5_cls in Hc.
        apply classify_odd in Hc. apply nth_error_nth. exact Hc. }
      split; apply Kx.
      * destruct (o (2 * i + 1)); [contradiction|left; reflexivity].
      * apply last_In. exact Hne.
    + intros j1 j2 x y H0 H12 H2 Hx Hy.
      destruct (Hin j1 x ltac:(lia) Hx) as [Sx Cx]. destruct (Hin j2 y ltac:(lia) Hy) as [Sy Cy].
      apply (boundary_lcp w depth common); auto.
      intros E. unfold ps5_cls in Cx, Cy. rewrite E in Cx. lia.
Qed.

(** * 4. The two-level execution of [ps5_recursion_example], with its LCP arrays *)

(** entry 0 is whatever the first small sorter left there (here 0); the others are the neighbouring LCPs of
    a, b, ba, baa, baa, bab, bb, bba, bc, bca, c *)
Definition ex_lcp : list nat := [0; 0; 1; 2; 3; 2; 1; 2; 1; 2; 0].

Ltac ex_small_lcp :=
  apply SortsL_small;
  [apply (sortedb_Sorted lex_ltb); vm_compute; reflexivity
  |
  |apply lcps_ok_iff; vm_compute; repeat split].

Example ps5_recursion_lcp_example : SortsL 2 0 ex_in ex_out ex_lcp.
Proof.
  apply SortsL_step with
    (sp := [512; 513; 515])
    (d := fun i => match i with 1 => 1 | 2 => 1 | _ => 0 end)
    (o := fun j => match j with
                   | 0 => [[1]] | 1 => [[2]]
                   | 3 => [[2;1]; [2;1;1]; [2;1;1]; [2;1;2]]
                   | 4 => [[2;2]; [2;2;1]]
                   | 5 => [[2;3]; [2;3;1]]
                   | 6 => [[3]]
                   | _ => []
                   end)
    (lc := fun j => match j with
                    | 0 => [0] | 1 => [9]          (* one-string terminator bucket: entry untouched *)
                    | 3 => [0; 2; 3; 2]            (* from the second step *)
                    | 4 => [0; 2]
                    | 5 => [0; 2]
                    | 6 => [0]
                    | _ => []
                    end).
  - repeat constructor; lia.
  - intros i s E N. destruct i as [|[|[|[|i]]]]; cbn [nth_error] in E; try discriminate E;
      injection E as <-; vm_compute in N; try discriminate N.
    split; [vm_compute; reflexivity|]. exists 9. vm_compute. reflexivity.
  - intros i s E N. destruct i as [|[|[|[|i]]]]; cbn [nth_error] in E; try discriminate E;
      injection E as <-; vm_compute in N; try discriminate N; vm_compute.
    + (* "=ba": second step at depth 2, splitter "a"; its equal bucket {baa, baa} is filled with 2 + 1 *)
      apply SortsL_step with
        (sp := [256]) (d := fun _ => 0)
        (o := fun j => match j with
                       | 0 => [[2;1]] | 1 => [[2;1;1]; [2;1;1]] | 2 => [[2;1;2]] | _ => []
                       end)
        (lc := fun j => match j with 0 => [0] | 1 => [3; 3] | 2 => [0] | _ => [] end).
      * repeat constructor.
      * intros i s E' N'. destruct i as [|[|i]]; cbn [nth_error] in E'; try discriminate E'.
        injection E' as <-. split; [vm_compute; reflexivity|]. exists 3. vm_compute. reflexivity.
      * intros i s E' N'. destruct i as [|[|i]]; cbn [nth_error] in E'; try discriminate E'.
        injection E' as <-. vm_compute in N'. discriminate N'.
      * intros i _. lia.
      * intros i Hi. cbn [length] in Hi. destruct i as [|[|i]]; [| |lia]; vm_compute; ex_small_lcp; apply Permutation_refl.
      * vm_compute. reflexivity.
      * vm_compute. reflexivity.
    + ex_small_lcp. apply perm_swap.
  - intros i Hi. cbn [length] in Hi. destruct i as [|[|[|[|i]]]]; [| | | |lia]; vm_compute; lia.
  - intros i Hi. cbn [length] in Hi. destruct i as [|[|[|[|i]]]]; [| | | |lia]; vm_compute; ex_small_lcp.
    + apply Permutation_refl.
    + apply Permutation_refl.
    + apply perm_swap.
    + apply Permutation_refl.
  - vm_compute. reflexivity.
  - vm_compute. reflexivity.
Qed.

Example ps5_recursion_lcp_example_result :
  Sorted (sorted_rel lex_ltb) ex_out /\ Permutation ex_in ex_out /\ neighbour_lcps ex_out ex_lcp.
Proof.
  apply (ps5_recursion_lcp_correct 2 0 []);
    [lia|exact ps5_recursion_example_scope|exact ps5_recursion_lcp_example].
Qed.

(** the boundary value is NOT the LCP when the two keys are equal (two strings that differ only beyond the
    window): the pass may only be applied across buckets, as the code does *)
Example boundary_needs_distinct_keys :
  lcp_str [1;2;3] [1;2;4] = 2 /\ 0 + lcp_keys 1 (key_at 1 0 [1;2;3]) (key_at 1 0 [1;2;4]) = 1.
Proof. vm_compute. split; reflexivity. Qed.
