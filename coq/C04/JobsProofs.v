(** C04 — safety of the sub-step protocol for every interleaving and every recursion tree. *)
From Coq Require Import List Arith Lia Bool.
From TLXV Require Import C04.Jobs.
Import ListNotations.

Definition counting (p : pc) : bool := match p with Del | Dead => false | _ => true end.
Definition is_kid (s : nat) (x : stp) : bool :=
  match par x with Some p => (p =? s) && counting (spc x) | None => false end.
Definition kids (st : state) (s : nat) : nat := length (filter (is_kid s) st).
Definition own (p : pc) : nat := match p with Body => 1 | Added => 2 | _ => 0 end.
Definition late (p : pc) : bool := match p with AllDone | Notify | Del | Dead => true | _ => false end.
Definition b2n (b : bool) : nat := if b then 1 else 0.

(** * list lemmas *)
Lemma upd_length {A} (l : list A) i x : length (upd l i x) = length l.
Proof. revert i; induction l as [|y t IH]; intros [|i]; simpl; auto. Qed.

Lemma get_upd_eq st i x : i < length st -> get (upd st i x) i = x.
Proof. unfold get. revert i; induction st as [|y t IH]; intros [|i]; simpl; intros; try lia; auto. apply IH; lia. Qed.

Lemma get_upd_neq st i j x : i <> j -> get (upd st i x) j = get st j.
Proof. unfold get. revert i j; induction st as [|y t IH]; intros [|i] [|j]; simpl; intros; auto; try lia. Qed.

Lemma get_app_l st x s : s < length st -> get (st ++ [x]) s = get st s.
Proof. intros. unfold get. now rewrite app_nth1. Qed.

Lemma get_app_r st x : get (st ++ [x]) (length st) = x.
Proof. unfold get. rewrite app_nth2, Nat.sub_diag by lia. reflexivity. Qed.

Lemma kids_upd st i x s : i < length st ->
  kids (upd st i x) s + b2n (is_kid s (get st i)) = kids st s + b2n (is_kid s x).
Proof.
  unfold kids, get. revert i; induction st as [|y t IH]; intros [|i] Hi; simpl in *; try lia.
  - destruct (is_kid s x), (is_kid s y); simpl; lia.
  - specialize (IH i ltac:(lia)). destruct (is_kid s y); simpl; lia.
Qed.

Lemma kids_app st x s : kids (st ++ [x]) s = kids st s + b2n (is_kid s x).
Proof. unfold kids. rewrite filter_app, app_length. simpl. destruct (is_kid s x); simpl; lia. Qed.

Lemma pc_eqb_eq a b : pc_eqb a b = true <-> a = b.
Proof. destruct a, b; simpl; split; intros; congruence. Qed.

(** * the invariant *)
Definition ok (st : state) (s : nat) : Prop :=
  let x := get st s in
  cnt x = own (spc x) + kids st s /\
  (late (spc x) = true \/ spc x = Start -> kids st s = 0) /\
  (spc x = Waiting -> 0 < kids st s) /\
  (forall p, par x = Some p -> p < s).

Definition Inv (st : state) : Prop := forall s, s < length st -> ok st s.

Lemma Inv_nil : Inv [].
Proof. intros s H. simpl in H. lia. Qed.

(** a live child pins its parent into a pc that still holds or awaits handles *)
Lemma kid_parent st c p : Inv st -> c < length st -> par (get st c) = Some p ->
  counting (spc (get st c)) = true ->
  p < length st /\ 0 < kids st p /\
  (spc (get st p) = Body \/ spc (get st p) = Added \/ spc (get st p) = Waiting).
Proof.
  intros HI Hc Hp Hcount.
  assert (p < c) as Hlt by (apply (HI c Hc); assumption).
  assert (0 < kids st p) as Hk.
  { unfold kids. clear HI Hlt. unfold get in *. revert c Hc Hp Hcount.
    induction st as [|y t IH]; intros [|c] Hc Hp Hcount; simpl in *; try lia.
    - unfold is_kid. rewrite Hp, Nat.eqb_refl, Hcount. simpl. lia.
    - specialize (IH c ltac:(lia) Hp Hcount). destruct (is_kid p y); simpl; lia. }
  split; [lia|split; [exact Hk|]].
  destruct (HI p ltac:(lia)) as (Ha & Hb & _ & _).
  destruct (spc (get st p)) eqn:E; auto; exfalso;
    (assert (kids st p = 0) by (apply Hb; simpl; auto)); lia.
Qed.

Ltac inv_at HI s Hs := let Ha := fresh "Ha" in let Hb := fresh "Hb" in let Hc := fresh "Hc" in let Hd := fresh "Hd" in
  destruct (HI s Hs) as (Ha & Hb & Hc & Hd).

(** generic preservation: updating one step whose parent is unchanged *)
Lemma ok_other st i x s :
  i < length st -> s < length st -> s <> i -> ok st s ->
  par x = par (get st i) -> counting (spc x) = counting (spc (get st i)) ->
  ok (upd st i x) s.
Proof.
  intros Hi Hs Hne (Ha & Hb & Hc & Hd) Hp Hcn. unfold ok. rewrite get_upd_neq by auto.
  assert (kids (upd st i x) s = kids st s) as K.
  { pose proof (kids_upd st i x s Hi) as E. unfold is_kid in E. rewrite Hp, Hcn in E. lia. }
  rewrite K. auto.
Qed.

(** * preservation by every event *)
Theorem lstep_safe st e : Inv st -> match lstep st e with Ok st' => Inv st' | NotEnabled => True | Error => False end.
Proof.
  intros HI. destruct e as [[p|]|s|s|s|s|s|s]; simpl.
  - (* create child *)
    destruct (p <? length st) eqn:Hp; simpl; auto. apply Nat.ltb_lt in Hp.
    destruct (pc_eqb (spc (get st p)) Added) eqn:Epc; auto. apply pc_eqb_eq in Epc.
    inv_at HI p Hp. rewrite Epc in *. simpl in *.
    set (xp := set_pc (get st p) Body). set (nw := {| par := Some p; cnt := 0; spc := Start |}).
    intros s Hs. rewrite app_length, upd_length in Hs. simpl in Hs.
    assert (Kapp : forall q, kids (upd st p xp ++ [nw]) q = kids st q + b2n (q =? p)).
    { intros q. rewrite kids_app. pose proof (kids_upd st p xp q Hp) as E.
      unfold is_kid in *. simpl in *. rewrite Epc in E. simpl in E.
      rewrite (Nat.eqb_sym p q). destruct (q =? p); simpl; lia. }
    unfold ok. destruct (Nat.eq_dec s (length st)) as [->|Hne].
    + assert (get (upd st p xp ++ [nw]) (length st) = nw) as Gn.
      { rewrite <- (upd_length st p xp). apply get_app_r. }
      rewrite Gn. simpl. rewrite Kapp.
      assert (kids st (length st) = 0) as K0.
      { unfold kids. apply length_zero_iff_nil.
        destruct (filter (is_kid (length st)) st) as [|y t] eqn:F; auto. exfalso.
        assert (In y (filter (is_kid (length st)) st)) as Hin by (rewrite F; left; auto).
        apply filter_In in Hin as [Hin Hk]. apply (In_nth _ _ dflt) in Hin as (c & Hc' & <-).
        unfold is_kid in Hk. destruct (par (nth c st dflt)) as [q|] eqn:Eq; [|discriminate].
        apply andb_true_iff in Hk as [Hq _]. apply Nat.eqb_eq in Hq. subst q.
        pose proof (HI c Hc') as (_ & _ & _ & Hlt). specialize (Hlt _ Eq). lia. }
      rewrite K0. replace (length st =? p) with false by (symmetry; apply Nat.eqb_neq; lia). simpl.
      repeat split; auto; try lia; try discriminate. intros q [= <-]. lia.
    + assert (s < length st) as Hs' by lia.
      rewrite get_app_l by (rewrite upd_length; lia). rewrite Kapp.
      destruct (Nat.eq_dec s p) as [->|Hnp].
      * rewrite get_upd_eq by auto. unfold xp in *. simpl. rewrite Nat.eqb_refl. simpl.
        repeat split; try lia; try (intros [H|H]; discriminate); try discriminate. exact Hd.
      * rewrite get_upd_neq by auto. replace (s =? p) with false by (symmetry; apply Nat.eqb_neq; lia).
        simpl. rewrite Nat.add_0_r. apply (HI s Hs').
  - (* create root *)
    destruct st; auto. intros s Hs. simpl in Hs. assert (s = 0) by lia. subst.
    unfold ok, get, kids; simpl. repeat split; auto; try lia; try discriminate.
  - (* touch *)
    destruct ((s <? length st) && touchable (spc (get st s))); auto.
  - (* add *)
    destruct (s <? length st) eqn:Hs; auto. apply Nat.ltb_lt in Hs. inv_at HI s Hs.
    destruct (spc (get st s)) eqn:Epc; auto; cbn [own late] in *.
    + (* Start -> Body *)
      intros q Hq. rewrite upd_length in Hq.
      destruct (Nat.eq_dec q s) as [->|Hne].
      * unfold ok. rewrite get_upd_eq by auto. simpl.
        pose proof (kids_upd st s (set_cnt_pc (get st s) (S (cnt (get st s))) Body) s Hs) as E.
        unfold is_kid in E. simpl in E. rewrite Epc in E. simpl in E.
        assert (kids st s = 0) by (apply Hb; auto).
        repeat split; try lia; try (intros [H'|H']; discriminate); try discriminate. exact Hd.
      * apply ok_other; auto; simpl; rewrite ?Epc; auto.
    + (* Body -> Added *)
      intros q Hq. rewrite upd_length in Hq.
      destruct (Nat.eq_dec q s) as [->|Hne].
      * unfold ok. rewrite get_upd_eq by auto. simpl.
        pose proof (kids_upd st s (set_cnt_pc (get st s) (S (cnt (get st s))) Added) s Hs) as E.
        unfold is_kid in E. simpl in E. rewrite Epc in E. simpl in E.
        repeat split; try lia; try (intros [H'|H']; discriminate); try discriminate. exact Hd.
      * apply ok_other; auto; simpl; rewrite ?Epc; auto.
  - (* done *)
    destruct (s <? length st) eqn:Hs; simpl; auto. apply Nat.ltb_lt in Hs.
    destruct (pc_eqb (spc (get st s)) Body) eqn:Epc; auto. apply pc_eqb_eq in Epc.
    inv_at HI s Hs. rewrite Epc in *. simpl in *.
    destruct (cnt (get st s)) as [|c] eqn:Ec; [lia|].
    intros q Hq. rewrite upd_length in Hq.
    set (x' := set_cnt_pc (get st s) c (if c =? 0 then AllDone else Waiting)).
    destruct (Nat.eq_dec q s) as [->|Hne].
    + unfold ok. rewrite get_upd_eq by auto.
      pose proof (kids_upd st s x' s Hs) as E. unfold is_kid, x' in E. simpl in E. rewrite Epc in E.
      assert (counting (if c =? 0 then AllDone else Waiting) = true) as Cn by (destruct (c =? 0); reflexivity).
      rewrite Cn in E. simpl in E.
      unfold x'. simpl. destruct (Nat.eqb_spec c 0) as [->|Hc0]; simpl.
      * repeat split; try lia; try discriminate. exact Hd.
      * repeat split; try lia; try (intros [H'|H']; discriminate). exact Hd.
    + apply ok_other; auto; unfold x'; simpl; rewrite ?Epc; auto. destruct (c =? 0); reflexivity.
  - (* alldone *)
    destruct (s <? length st) eqn:Hs; simpl; auto. apply Nat.ltb_lt in Hs.
    destruct (pc_eqb (spc (get st s)) AllDone) eqn:Epc; auto. apply pc_eqb_eq in Epc.
    inv_at HI s Hs. rewrite Epc in *. simpl in *.
    intros q Hq. rewrite upd_length in Hq.
    destruct (Nat.eq_dec q s) as [->|Hne].
    + unfold ok. rewrite get_upd_eq by auto. simpl.
      pose proof (kids_upd st s (set_pc (get st s) Notify) s Hs) as E. unfold is_kid in E. simpl in E.
      rewrite Epc in E. simpl in E.
      assert (kids st s = 0) by (apply Hb; auto).
      repeat split; try lia; try discriminate. exact Hd.
    + apply ok_other; auto; simpl; rewrite ?Epc; auto.
  - (* notify parent *)
    destruct (s <? length st) eqn:Hs; simpl; auto. apply Nat.ltb_lt in Hs.
    destruct (pc_eqb (spc (get st s)) Notify) eqn:Epc; auto. apply pc_eqb_eq in Epc.
    inv_at HI s Hs. rewrite Epc in *. simpl in *.
    assert (Ks : kids st s = 0) by (apply Hb; auto).
    destruct (par (get st s)) as [p|] eqn:Ep.
    + (* has a parent *)
      assert (counting (spc (get st s)) = true) as Cn by (rewrite Epc; reflexivity).
      destruct (kid_parent st s p HI Hs Ep Cn) as (Hp & Hkp & Hpcp).
      assert (p < s) as Hlt by (apply Hd; auto).
      destruct (HI p Hp) as (Pa & Pb & Pc & Pd).
      (* effect on kids: s stops counting for p *)
      assert (Kall : forall x' q, par x' = par (get st p) -> counting (spc x') = counting (spc (get st p)) ->
                 kids (upd (upd st p x') s (set_pc (get st s) Del)) q + b2n (q =? p) = kids st q).
      { intros x' q Hpx Hcx.
        pose proof (kids_upd (upd st p x') s (set_pc (get st s) Del) q ltac:(rewrite upd_length; lia)) as E1.
        rewrite get_upd_neq in E1 by lia.
        pose proof (kids_upd st p x' q Hp) as E2.
        unfold is_kid in E1, E2. rewrite Hpx, Hcx in E2. simpl in E1.
        rewrite Ep, Epc in E1. simpl in E1. rewrite andb_false_r, andb_true_r in E1. simpl in E1.
        rewrite (Nat.eqb_sym q p). destruct (p =? q); simpl in *; lia. }
      destruct Hpcp as [E|[E|E]]; rewrite E in *; simpl in *.
      * (* parent in Body: counter >= 2 *)
        destruct (cnt (get st p)) as [|[|c]] eqn:Ec; try lia.
        intros q Hq. rewrite !upd_length in Hq.
        set (xp := set_cnt_pc (get st p) (S c) Body).
        specialize (Kall xp). unfold ok.
        destruct (Nat.eq_dec q s) as [->|Hqs].
        -- rewrite get_upd_eq by (rewrite upd_length; lia). simpl.
           specialize (Kall s eq_refl ltac:(simpl; rewrite ?E; reflexivity)).
           replace (s =? p) with false in Kall by (symmetry; apply Nat.eqb_neq; lia). simpl in Kall.
           repeat split; try lia; try discriminate. rewrite ?Ep. exact Hd.
        -- rewrite get_upd_neq by auto. destruct (Nat.eq_dec q p) as [->|Hqp].
           ++ rewrite get_upd_eq by auto. unfold xp in *. simpl.
              specialize (Kall p eq_refl ltac:(simpl; rewrite ?E; reflexivity)).
              rewrite Nat.eqb_refl in Kall. simpl in Kall.
              repeat split; try lia; try (intros [H'|H']; discriminate); try discriminate. exact Pd.
           ++ rewrite get_upd_neq by auto.
              specialize (Kall q eq_refl ltac:(simpl; rewrite ?E; reflexivity)).
              replace (q =? p) with false in Kall by (symmetry; apply Nat.eqb_neq; lia). simpl in Kall.
              rewrite Nat.add_0_r in Kall. rewrite Kall. apply (HI q Hq).
      * (* parent in Added: counter >= 3 *)
        destruct (cnt (get st p)) as [|[|c]] eqn:Ec; try lia.
        intros q Hq. rewrite !upd_length in Hq.
        set (xp := set_cnt_pc (get st p) (S c) Added).
        specialize (Kall xp). unfold ok.
        destruct (Nat.eq_dec q s) as [->|Hqs].
        -- rewrite get_upd_eq by (rewrite upd_length; lia). simpl.
           specialize (Kall s eq_refl ltac:(simpl; rewrite ?E; reflexivity)).
           replace (s =? p) with false in Kall by (symmetry; apply Nat.eqb_neq; lia). simpl in Kall.
           repeat split; try lia; try discriminate. rewrite ?Ep. exact Hd.
        -- rewrite get_upd_neq by auto. destruct (Nat.eq_dec q p) as [->|Hqp].
           ++ rewrite get_upd_eq by auto. unfold xp in *. simpl.
              specialize (Kall p eq_refl ltac:(simpl; rewrite ?E; reflexivity)).
              rewrite Nat.eqb_refl in Kall. simpl in Kall.
              repeat split; try lia; try (intros [H'|H']; discriminate); try discriminate. exact Pd.
           ++ rewrite get_upd_neq by auto.
              specialize (Kall q eq_refl ltac:(simpl; rewrite ?E; reflexivity)).
              replace (q =? p) with false in Kall by (symmetry; apply Nat.eqb_neq; lia). simpl in Kall.
              rewrite Nat.add_0_r in Kall. rewrite Kall. apply (HI q Hq).
      * (* parent Waiting *)
        destruct (cnt (get st p)) as [|c] eqn:Ec; try lia.
        intros q Hq. rewrite !upd_length in Hq.
        set (xp := set_cnt_pc (get st p) c (if c =? 0 then AllDone else Waiting)).
        assert (counting (spc xp) = true) as Cx
          by (unfold xp; simpl; destruct (c =? 0); reflexivity).
        specialize (Kall xp). unfold ok.
        destruct (Nat.eq_dec q s) as [->|Hqs].
        -- rewrite get_upd_eq by (rewrite upd_length; lia). simpl.
           specialize (Kall s eq_refl Cx).
           replace (s =? p) with false in Kall by (symmetry; apply Nat.eqb_neq; lia). simpl in Kall.
           repeat split; try lia; try discriminate. rewrite ?Ep. exact Hd.
        -- rewrite get_upd_neq by auto. destruct (Nat.eq_dec q p) as [->|Hqp].
           ++ rewrite get_upd_eq by auto. unfold xp in *. simpl.
              specialize (Kall p eq_refl Cx).
              rewrite Nat.eqb_refl in Kall. simpl in Kall.
              destruct (Nat.eqb_spec c 0) as [->|Hc0]; simpl.
              ** repeat split; try lia; try discriminate. exact Pd.
              ** repeat split; try lia; try (intros [H'|H']; discriminate). exact Pd.
           ++ rewrite get_upd_neq by auto.
              specialize (Kall q eq_refl Cx).
              replace (q =? p) with false in Kall by (symmetry; apply Nat.eqb_neq; lia). simpl in Kall.
              rewrite Nat.add_0_r in Kall. rewrite Kall. apply (HI q Hq).
    + (* root *)
      intros q Hq. rewrite upd_length in Hq.
      destruct (Nat.eq_dec q s) as [->|Hne].
      * unfold ok. rewrite get_upd_eq by auto. simpl.
        pose proof (kids_upd st s (set_pc (get st s) Del) s Hs) as E. unfold is_kid in E. simpl in E.
        rewrite Ep in E. simpl in E.
        repeat split; try lia; try discriminate. rewrite ?Ep. exact Hd.
      * unfold ok. rewrite get_upd_neq by auto.
        pose proof (kids_upd st s (set_pc (get st s) Del) q Hs) as E. unfold is_kid in E. simpl in E.
        rewrite Ep in E. simpl in E. rewrite !Nat.add_0_r in E. rewrite E. apply (HI q Hq).
  - (* delete *)
    destruct (s <? length st) eqn:Hs; simpl; auto. apply Nat.ltb_lt in Hs.
    destruct (pc_eqb (spc (get st s)) Del) eqn:Epc; auto. apply pc_eqb_eq in Epc.
    inv_at HI s Hs. rewrite Epc in *. simpl in *.
    intros q Hq. rewrite upd_length in Hq.
    destruct (Nat.eq_dec q s) as [->|Hne].
    + unfold ok. rewrite get_upd_eq by auto. simpl.
      pose proof (kids_upd st s (set_pc (get st s) Dead) s Hs) as E. unfold is_kid in E. simpl in E.
      rewrite Epc in E. simpl in E. rewrite ?andb_false_r in E.
      assert (kids st s = 0) as K0 by (apply Hb; auto).
      destruct (par (get st s)); simpl in E; repeat split; try lia; try discriminate; exact Hd.
    + apply ok_other; auto; simpl; rewrite ?Epc; auto.
Qed.

(** * Safety for every trace: the real code never decrements a zero counter, never notifies or touches a
      deleted step and never starts substep_all_done() while the body still holds its handle. *)
Theorem run_safe : forall tr st, Inv st -> run st tr <> Error /\ (forall st', run st tr = Ok st' -> Inv st').
Proof.
  induction tr as [|e tr IH]; intros st HI; simpl.
  - split; [discriminate|]. intros st' [= <-]. exact HI.
  - pose proof (lstep_safe st e HI) as S. destruct (lstep st e) as [st1| |]; try contradiction.
    + apply IH. exact S.
    + split; [discriminate|discriminate].
Qed.

Corollary protocol_safe : forall tr, run [] tr <> Error.
Proof. intros tr. apply (run_safe tr [] Inv_nil). Qed.

(** In every reachable state a step whose substep_all_done() has started (or which is deleted) has no
    live sub-step: all-done comes after every child's all-done and deletion. *)
Corollary alldone_after_children : forall tr st s c,
  run [] tr = Ok st -> s < length st -> c < length st ->
  late (spc (get st s)) = true -> par (get st c) = Some s -> counting (spc (get st c)) = false.
Proof.
  intros tr st s c Hr Hs Hc Hl Hp.
  destruct (run_safe tr [] Inv_nil) as [_ HI]. specialize (HI _ Hr).
  destruct (counting (spc (get st c))) eqn:Cn; auto. exfalso.
  destruct (kid_parent st c s HI Hc Hp Cn) as (_ & _ & [E|[E|E]]); rewrite E in Hl; discriminate.
Qed.

(** * Quiescence: a reachable state in which no event is enabled has every step deleted (termination
      of the bookkeeping: nothing is left waiting forever and nothing leaks). *)
Lemma quiescent_all_dead st :
  Inv st -> (forall e, enabled st e = false) -> forall s, s < length st -> spc (get st s) = Dead.
Proof.
  intros HI Q.
  (* strong induction from the highest index down: a Waiting step has a live child with larger index *)
  assert (forall n s, length st - s <= n -> s < length st -> spc (get st s) = Dead) as H.
  { induction n as [|n IHn]; intros s Hn Hs; [lia|].
    destruct (spc (get st s)) eqn:E; auto; exfalso.
    - specialize (Q (EAdd s)). unfold enabled in Q. simpl in Q.
      apply Nat.ltb_lt in Hs. rewrite Hs, E in Q. discriminate.
    - specialize (Q (EAdd s)). unfold enabled in Q. simpl in Q.
      apply Nat.ltb_lt in Hs. rewrite Hs, E in Q. discriminate.
    - specialize (Q (ECreate (Some s))). unfold enabled in Q. simpl in Q.
      apply Nat.ltb_lt in Hs. rewrite Hs, E in Q. simpl in Q. discriminate.
    - (* Waiting: there is a counting child c > s; by induction it is Dead: contradiction *)
      destruct (HI s Hs) as (_ & _ & Hc & _). specialize (Hc E).
      unfold kids in Hc. destruct (filter (is_kid s) st) as [|y t] eqn:F; [simpl in Hc; lia|].
      assert (In y (filter (is_kid s) st)) as Hin by (rewrite F; left; auto).
      apply filter_In in Hin as [Hin Hk]. apply (In_nth _ _ dflt) in Hin as (c & Hc' & <-).
      unfold is_kid in Hk. destruct (par (nth c st dflt)) as [q|] eqn:Eq; [|discriminate].
      apply andb_true_iff in Hk as [Hq Hcn]. apply Nat.eqb_eq in Hq. subst q.
      pose proof (HI c Hc') as (_ & _ & _ & Hlt). specialize (Hlt _ Eq).
      assert (spc (get st c) = Dead) as D by (apply IHn; lia).
      unfold get in D. rewrite D in Hcn. discriminate.
    - specialize (Q (EAllDone s)). unfold enabled in Q. simpl in Q.
      apply Nat.ltb_lt in Hs. rewrite Hs, E in Q. simpl in Q. discriminate.
    - (* Notify is always enabled (it may only be an Error, which counts as enabled) *)
      specialize (Q (ENotify s)). unfold enabled in Q. simpl in Q.
      apply Nat.ltb_lt in Hs. rewrite Hs, E in Q. simpl in Q.
      destruct (par (get st s)); [|discriminate].
      destruct (spc (get st n0)), (cnt (get st n0)) as [|[|?]]; discriminate.
    - specialize (Q (EDelete s)). unfold enabled in Q. simpl in Q.
      apply Nat.ltb_lt in Hs. rewrite Hs, E in Q. simpl in Q. discriminate. }
  intros s Hs. apply (H (length st) s); lia.
Qed.

Theorem quiescent_means_all_deleted : forall tr st,
  run [] tr = Ok st -> (forall e, enabled st e = false) -> all_dead st = true.
Proof.
  intros tr st Hr Q. destruct (run_safe tr [] Inv_nil) as [_ HI]. specialize (HI _ Hr).
  unfold all_dead. apply forallb_forall. intros x Hin.
  apply (In_nth _ _ dflt) in Hin as (s & Hs & <-).
  pose proof (quiescent_all_dead st HI Q s Hs) as D. unfold get in D. rewrite D. reflexivity.
Qed.

(** * all-done and delete happen at most once per step *)
Lemma run_app st tr1 tr2 : run st (tr1 ++ tr2) = match run st tr1 with Ok st' => run st' tr2 | r => r end.
Proof. revert st; induction tr1 as [|e t IH]; intros st; simpl; auto. destruct (lstep st e); auto. Qed.

(** pcs only move forward: Start < Body/Added < Waiting < AllDone < Notify < Del < Dead *)
Definition rank (p : pc) : nat :=
  match p with Start => 0 | Body => 1 | Added => 1 | Waiting => 2 | AllDone => 3 | Notify => 4 | Del => 5 | Dead => 6 end.

Lemma lstep_rank st e st' s : lstep st e = Ok st' -> s < length st ->
  length st <= length st' /\ rank (spc (get st s)) <= rank (spc (get st' s)) /\
  (is_alldone s e = true -> rank (spc (get st s)) = 3 /\ rank (spc (get st' s)) = 4) /\
  (is_delete s e = true -> rank (spc (get st s)) = 5 /\ rank (spc (get st' s)) = 6).
Proof.
  intros H Hs. destruct e as [[p|]|q|q|q|q|q|q]; simpl in *.
  - destruct ((p <? length st) && pc_eqb (spc (get st p)) Added) eqn:C; [|discriminate].
    apply andb_true_iff in C as [Hp Epc]. apply Nat.ltb_lt in Hp. apply pc_eqb_eq in Epc.
    injection H as <-. rewrite app_length, upd_length. split; [lia|].
    rewrite get_app_l by (rewrite upd_length; lia).
    split; [|split; discriminate].
    destruct (Nat.eq_dec p s) as [->|Hne]; [rewrite get_upd_eq by auto; simpl; rewrite Epc; simpl; lia|rewrite get_upd_neq by auto; lia].
  - destruct st; [simpl in Hs; lia|discriminate].
  - destruct ((q <? length st) && touchable (spc (get st q))); [|discriminate]. injection H as <-.
    repeat split; try lia; discriminate.
  - destruct (q <? length st) eqn:Hq; [|discriminate]. apply Nat.ltb_lt in Hq.
    destruct (spc (get st q)) eqn:Epc; try discriminate; injection H as <-; rewrite upd_length;
      (split; [lia|]); (split; [|split; discriminate]);
      (destruct (Nat.eq_dec q s) as [->|Hne]; [rewrite get_upd_eq by auto; simpl; rewrite Epc; simpl; lia|rewrite get_upd_neq by auto; lia]).
  - destruct ((q <? length st) && pc_eqb (spc (get st q)) Body) eqn:C; [|discriminate].
    apply andb_true_iff in C as [Hq Epc]. apply Nat.ltb_lt in Hq. apply pc_eqb_eq in Epc.
    destruct (cnt (get st q)) as [|c]; [discriminate|]. injection H as <-. rewrite upd_length.
    split; [lia|]. split; [|split; discriminate].
    destruct (Nat.eq_dec q s) as [->|Hne]; [rewrite get_upd_eq by auto; simpl; rewrite Epc; destruct (c =? 0); simpl; lia|rewrite get_upd_neq by auto; lia].
  - destruct ((q <? length st) && pc_eqb (spc (get st q)) AllDone) eqn:C; [|discriminate].
    apply andb_true_iff in C as [Hq Epc]. apply Nat.ltb_lt in Hq. apply pc_eqb_eq in Epc.
    injection H as <-. rewrite upd_length. split; [lia|].
    destruct (Nat.eq_dec q s) as [->|Hne].
    + rewrite get_upd_eq by auto. simpl. rewrite Epc. simpl. repeat split; try lia; discriminate.
    + rewrite get_upd_neq by auto. split; [lia|]. split; [|discriminate].
      intros E. apply Nat.eqb_eq in E. congruence.
  - destruct ((q <? length st) && pc_eqb (spc (get st q)) Notify) eqn:C; [|discriminate].
    apply andb_true_iff in C as [Hq Epc]. apply Nat.ltb_lt in Hq. apply pc_eqb_eq in Epc.
    destruct (par (get st q)) as [p|] eqn:Ep.
    + assert (forall xp, (rank (spc (get st p)) <= rank (spc xp)) -> p < length st \/ True ->
              length st <= length (upd (upd st p xp) q (set_pc (get st q) Del)) /\
              rank (spc (get st s)) <= rank (spc (get (upd (upd st p xp) q (set_pc (get st q) Del)) s))) as G.
      { intros xp Hr _. rewrite !upd_length. split; [lia|].
        destruct (Nat.eq_dec q s) as [->|Hne].
        - destruct (Nat.lt_ge_cases s (length (upd st p xp))) as [L|L].
          + rewrite get_upd_eq by auto. simpl. rewrite Epc. simpl. lia.
          + rewrite upd_length in L. lia.
        - rewrite get_upd_neq by auto. destruct (Nat.eq_dec p s) as [->|Hnp].
          + rewrite get_upd_eq by auto. exact Hr.
          + rewrite get_upd_neq by auto. lia. }
      destruct (spc (get st p)) eqn:Epp, (cnt (get st p)) as [|[|c]] eqn:Ecp; try discriminate;
        injection H as <-;
        match goal with |- context [upd (upd st p ?xp) _ _] =>
          destruct (G xp) as [G1 G2]; [simpl; rewrite ?Epp; simpl; try lia; auto|auto|] end;
        (split; [exact G1|split; [exact G2|split; discriminate]]).
    + injection H as <-. rewrite upd_length. split; [lia|]. split; [|split; discriminate].
      destruct (Nat.eq_dec q s) as [->|Hne]; [rewrite get_upd_eq by auto; simpl; rewrite Epc; simpl; lia|rewrite get_upd_neq by auto; lia].
  - destruct ((q <? length st) && pc_eqb (spc (get st q)) Del) eqn:C; [|discriminate].
    apply andb_true_iff in C as [Hq Epc]. apply Nat.ltb_lt in Hq. apply pc_eqb_eq in Epc.
    injection H as <-. rewrite upd_length. split; [lia|].
    destruct (Nat.eq_dec q s) as [->|Hne].
    + rewrite get_upd_eq by auto. simpl. rewrite Epc. simpl. repeat split; try lia; discriminate.
    + rewrite get_upd_neq by auto. split; [lia|]. split; [discriminate|].
      intros E. apply Nat.eqb_eq in E. congruence.
Qed.

(** rank of a step that may not exist yet *)
Definition rank_at (st : state) (s : nat) : nat := if s <? length st then rank (spc (get st s)) else 0.

Lemma lstep_rank_at st e st' s : lstep st e = Ok st' ->
  rank_at st s <= rank_at st' s /\
  (is_alldone s e = true -> rank_at st s = 3 /\ rank_at st' s = 4) /\
  (is_delete s e = true -> rank_at st s = 5 /\ rank_at st' s = 6).
Proof.
  intros H. unfold rank_at. destruct (Nat.ltb_spec s (length st)) as [Hs|Hs].
  - destruct (lstep_rank st e st' s H Hs) as (L & R & A & D).
    replace (s <? length st') with true by (symmetry; apply Nat.ltb_lt; lia). auto.
  - split; [lia|]. split; intros E; exfalso.
    + destruct e; simpl in *; try discriminate. apply Nat.eqb_eq in E. subst.
      replace (s0 <? length st) with false in H by (symmetry; apply Nat.ltb_ge; lia). simpl in H. discriminate.
    + destruct e; simpl in *; try discriminate. apply Nat.eqb_eq in E. subst.
      replace (s0 <? length st) with false in H by (symmetry; apply Nat.ltb_ge; lia). simpl in H. discriminate.
Qed.

Lemma once_gen : forall tr st st' s, run st tr = Ok st' ->
  count_ev (is_alldone s) tr <= (if rank_at st s <=? 3 then 1 else 0) /\
  count_ev (is_delete s) tr <= (if rank_at st s <=? 5 then 1 else 0).
Proof.
  induction tr as [|e tr IH]; intros st st' s Hr; simpl in *.
  - split; destruct (_ <=? _); lia.
  - destruct (lstep st e) as [st1| |] eqn:El; try discriminate.
    destruct (lstep_rank_at st e st1 s El) as (M & A & D).
    destruct (IH st1 st' s Hr) as (IA & ID).
    split.
    + destruct (is_alldone s e) eqn:Ea.
      * destruct (A eq_refl) as [R1 R2]. rewrite R1. rewrite R2 in IA. simpl in *. lia.
      * simpl. destruct (Nat.leb_spec (rank_at st s) 3), (Nat.leb_spec (rank_at st1 s) 3); lia.
    + destruct (is_delete s e) eqn:Ed.
      * destruct (D eq_refl) as [R1 R2]. rewrite R1. rewrite R2 in ID. simpl in *. lia.
      * simpl. destruct (Nat.leb_spec (rank_at st s) 5), (Nat.leb_spec (rank_at st1 s) 5); lia.
Qed.

(** substep_all_done() and `delete this` run at most once per step, in every interleaving *)
Theorem alldone_and_delete_at_most_once : forall tr st s,
  run [] tr = Ok st -> count_ev (is_alldone s) tr <= 1 /\ count_ev (is_delete s) tr <= 1.
Proof. intros tr st s H. destruct (once_gen tr [] st s H) as [A D]. simpl in *. lia. Qed.

(** and in a quiescent reachable state each has run exactly once (every step reached Dead through them) *)

(** * The shipped distribute_finished() (touch after the body's own substep_notify_done) is unsafe *)
Lemma shipped_refuted :
  run_shipped [] [ECreate None; EAdd 0; EDone 0; EAllDone 0; ENotify 0; EDelete 0; ETouch 0] = Error.
Proof. vm_compute. reflexivity. Qed.

(** the same interleaving is simply not a behaviour of the repaired code: the late touch is not enabled *)
Lemma fixed_rejects_late_touch :
  run [] [ECreate None; EAdd 0; EDone 0; EAllDone 0; ENotify 0; EDelete 0; ETouch 0] = NotEnabled.
Proof. vm_compute. reflexivity. Qed.

(** non-vacuity: a two-level recursion with three steps runs to completion and ends all dead *)
Example run_example :
  exists st, run [] [ECreate None; ETouch 0; EAdd 0; EAdd 0; ECreate (Some 0); EAdd 0; ECreate (Some 0); EDone 0;
                     EAdd 1; EDone 1; EAdd 2; EAllDone 1; EAdd 2; ECreate (Some 2); EDone 2; ENotify 1; EDelete 1;
                     ETouch 3; EAdd 3; EDone 3; EAllDone 3; ENotify 3; EAllDone 2; EDelete 3; ENotify 2; EAllDone 0; EDelete 2;
                     ENotify 0; EDelete 0] = Ok st /\ all_dead st = true.
Proof. eexists. vm_compute. split; reflexivity. Qed.
