(** C04 — the sub-step bookkeeping protocol of tlx/sort/strings/parallel_sample_sort.hpp
    (PS5SortStep::substep_add / substep_notify_done / substep_all_done / delete this).

    One record per sort step (PS5SmallsortJob or PS5BigSortStep object): its parent step, its
    substep_working_ counter and a program counter describing where the (unique) piece of code that may
    touch the object currently is:

      Start    object created, job enqueued / running before the anonymous substep_add()
               (for a PS5BigSortStep this covers the sample / count / distribute phases)
      Body     holds the anonymous handle; may create further sub-steps
      Added    substep_add() executed for a sub-step that is about to be created (ctx.enqueue)
      Waiting  the body released its handle, sub-steps still running; nobody touches the object
      AllDone  the counter reached zero: substep_all_done() runs (LCP computation touches the object)
      Notify   about to call pstep_->substep_notify_done()
      Del      about to `delete this`
      Dead     deleted

    Events are the hook events of the real code (see checks/C04.py); any thread may execute any enabled event,
    so the reachable states cover every interleaving of any number of workers, for every recursion tree
    (sub-step creation is non-deterministic).  [Error] = the real code would touch a deleted step,
    decrement a zero counter, or start substep_all_done() while the body is still running. *)
From Coq Require Import List Arith Lia Bool.
Import ListNotations.

Inductive pc := Start | Body | Added | Waiting | AllDone | Notify | Del | Dead.

Record stp := { par : option nat; cnt : nat; spc : pc }.
Definition state := list stp.

Inductive ev :=
| ECreate (p : option nat)   (* new step object with parent p (None: the root step) *)
| ETouch (s : nat)           (* any read/write of the step object's members *)
| EAdd (s : nat)             (* substep_add() *)
| EDone (s : nat)            (* the body's own substep_notify_done() *)
| EAllDone (s : nat)         (* substep_all_done() entered: LCP computation *)
| ENotify (s : nat)          (* pstep_->substep_notify_done() from substep_all_done() of s *)
| EDelete (s : nat).         (* delete this *)

Inductive res := Ok (st : state) | NotEnabled | Error.

Fixpoint upd {A} (l : list A) (i : nat) (x : A) : list A :=
  match l with
  | [] => []
  | y :: t => match i with 0 => x :: t | S i' => y :: upd t i' x end
  end.

Definition dflt : stp := {| par := None; cnt := 0; spc := Dead |}.
Definition get (st : state) (s : nat) : stp := nth s st dflt.
Definition set_pc (x : stp) (p : pc) : stp := {| par := par x; cnt := cnt x; spc := p |}.
Definition set_cnt_pc (x : stp) (c : nat) (p : pc) : stp := {| par := par x; cnt := c; spc := p |}.

Definition pc_eqb (a b : pc) : bool :=
  match a, b with
  | Start, Start | Body, Body | Added, Added | Waiting, Waiting | AllDone, AllDone
  | Notify, Notify | Del, Del | Dead, Dead => true
  | _, _ => false
  end.

Definition touchable (p : pc) : bool :=
  match p with Start | Body | Added | AllDone => true | _ => false end.

Definition lstep (st : state) (e : ev) : res :=
  match e with
  | ECreate None =>
      match st with [] => Ok [{| par := None; cnt := 0; spc := Start |}] | _ => NotEnabled end
  | ECreate (Some p) =>
      if (p <? length st) && pc_eqb (spc (get st p)) Added
      then Ok (upd st p (set_pc (get st p) Body) ++ [{| par := Some p; cnt := 0; spc := Start |}])
      else NotEnabled
  | ETouch s =>
      if (s <? length st) && touchable (spc (get st s)) then Ok st else NotEnabled
  | EAdd s =>
      if s <? length st then
        match spc (get st s) with
        | Start => Ok (upd st s (set_cnt_pc (get st s) (S (cnt (get st s))) Body))
        | Body => Ok (upd st s (set_cnt_pc (get st s) (S (cnt (get st s))) Added))
        | _ => NotEnabled
        end
      else NotEnabled
  | EDone s =>
      if (s <? length st) && pc_eqb (spc (get st s)) Body then
        match cnt (get st s) with
        | 0 => Error                                     (* counter underflow *)
        | S c => Ok (upd st s (set_cnt_pc (get st s) c (if c =? 0 then AllDone else Waiting)))
        end
      else NotEnabled
  | EAllDone s =>
      if (s <? length st) && pc_eqb (spc (get st s)) AllDone
      then Ok (upd st s (set_pc (get st s) Notify)) else NotEnabled
  | ENotify s =>
      if (s <? length st) && pc_eqb (spc (get st s)) Notify then
        match par (get st s) with
        | None => Ok (upd st s (set_pc (get st s) Del))
        | Some p =>
            let x := get st p in
            match spc x, cnt x with
            | Dead, _ => Error                           (* parent already deleted: use after free *)
            | _, 0 => Error                              (* counter underflow *)
            | Waiting, S c =>
                Ok (upd (upd st p (set_cnt_pc x c (if c =? 0 then AllDone else Waiting))) s (set_pc (get st s) Del))
            | (Body | Added), S (S c) =>                 (* parent's body still holds its handle *)
                Ok (upd (upd st p (set_cnt_pc x (S c) (spc x))) s (set_pc (get st s) Del))
            | _, _ => Error                              (* would zero the counter of a running body / all-done twice *)
            end
        end
      else NotEnabled
  | EDelete s =>
      if (s <? length st) && pc_eqb (spc (get st s)) Del
      then Ok (upd st s (set_pc (get st s) Dead)) else NotEnabled
  end.

Fixpoint run (st : state) (tr : list ev) : res :=
  match tr with
  | [] => Ok st
  | e :: t => match lstep st e with Ok st' => run st' t | r => r end
  end.

(** Variant describing the shipped (704fd0b) PS5BigSortStep::distribute_finished(): the body touches the
    object once more AFTER its own substep_notify_done().  [ETouch] is then possible in every later pc. *)
Definition lstep_shipped (st : state) (e : ev) : res :=
  match e with
  | ETouch s =>
      if s <? length st then
        match spc (get st s) with
        | Dead => Error                                  (* heap-use-after-free *)
        | _ => Ok st
        end
      else NotEnabled
  | _ => lstep st e
  end.

Fixpoint run_shipped (st : state) (tr : list ev) : res :=
  match tr with
  | [] => Ok st
  | e :: t => match lstep_shipped st e with Ok st' => run_shipped st' t | r => r end
  end.

(** enabledness, for the quiescence theorem *)
Definition enabled (st : state) (e : ev) : bool :=
  match lstep st e with NotEnabled => false | _ => true end.

Definition all_dead (st : state) : bool := forallb (fun x => pc_eqb (spc x) Dead) st.

(** the "all sub-steps done" event of step s is recorded in the trace as [EAllDone s] *)
Fixpoint count_ev (f : ev -> bool) (tr : list ev) : nat :=
  match tr with [] => 0 | e :: t => (if f e then 1 else 0) + count_ev f t end.
Definition is_alldone (s : nat) (e : ev) : bool := match e with EAllDone s' => s =? s' | _ => false end.
Definition is_delete (s : nat) (e : ev) : bool := match e with EDelete s' => s =? s' | _ => false end.
