(** C04 — the functional content of one sample-sort step, for ARBITRARY splitters.

    The real code samples with an address-seeded RNG, so the splitters are unpredictable: they are a
    universally quantified parameter here.  A step classifies every string by the [w]-byte key at [depth]
    into 2k+1 buckets ("< s_0", "= s_0", "between s_0 and s_1", ..., "> s_{k-1}"), distributes, and lets
    sub-steps sort every bucket.  Theorem: for every sorted splitter list and every family of correct bucket
    sorters, the concatenation of the sorted buckets is a sorted permutation of the input. *)
From Coq Require Import List Arith Lia Bool Sorting.Sorted Sorting.Permutation.
From TLXV Require Import Common.Order.
Import ListNotations.

(** * Distribution sort with any monotone classifier *)
Section Distribution.
  Context {A : Type} (ltb : A -> A -> bool) (HS : SWO ltb).
  Variable cls : A -> nat.
  Variable nb : nat.                      (* number of buckets *)
  Hypothesis cls_range : forall x, cls x < nb.
  (** monotone: x <= y  ->  cls x <= cls y *)
  Hypothesis cls_mono : forall x y, ltb y x = false -> cls x <= cls y.

  Definition bucket (l : list A) (b : nat) : list A := filter (fun x => cls x =? b) l.
  Definition buckets (l : list A) : list (list A) := map (bucket l) (seq 0 nb).

  (** any family of per-bucket sorters (the sub-steps): each returns a sorted permutation *)
  Variable sorter : nat -> list A -> list A.
  Hypothesis sorter_ok : forall b l, Sorted (sorted_rel ltb) (sorter b l) /\ Permutation l (sorter b l).

  Definition step_result (l : list A) : list A :=
    concat (map (fun b => sorter b (bucket l b)) (seq 0 nb)).

  Lemma perm_buckets_from (l : list A) : forall n s,
    (forall x, In x l -> s <= cls x < s + n) ->
    Permutation l (concat (map (bucket l) (seq s n))).
  Proof.
    intros n. revert l. induction n as [|n IH]; intros l s Hr; simpl.
    - destruct l as [|x l]; auto. specialize (Hr x (or_introl eq_refl)). lia.
    - (* split l into bucket s and the rest *)
      assert (Permutation l (bucket l s ++ filter (fun x => negb (cls x =? s)) l)) as P.
      { unfold bucket. clear. induction l as [|x l IHl]; simpl; auto.
        destruct (cls x =? s); simpl; [now apply perm_skip|].
        eapply perm_trans; [apply perm_skip, IHl|]. apply Permutation_middle. }
      eapply perm_trans; [exact P|]. apply Permutation_app_head.
      set (r := filter (fun x => negb (cls x =? s)) l).
      assert (forall b, s < b -> bucket l b = bucket r b) as E.
      { intros b Hb. unfold bucket, r. clear -Hb. induction l as [|x l IHl]; simpl; auto.
        destruct (cls x =? s) eqn:E1; simpl.
        - apply Nat.eqb_eq in E1. replace (cls x =? b) with false by (symmetry; apply Nat.eqb_neq; lia). exact IHl.
        - destruct (cls x =? b); simpl; now rewrite IHl. }
      replace (map (bucket l) (seq (S s) n)) with (map (bucket r) (seq (S s) n)).
      + apply IH. intros x Hx. unfold r in Hx. apply filter_In in Hx as [Hx Hn].
        specialize (Hr x Hx). apply negb_true_iff, Nat.eqb_neq in Hn. lia.
      + apply map_ext_in. intros b Hb. apply in_seq in Hb. symmetry. apply E. lia.
  Qed.

  Lemma step_perm l : Permutation l (step_result l).
  Proof.
    eapply perm_trans; [apply (perm_buckets_from l nb 0)|].
    - intros x _. pose proof (cls_range x). lia.
    - unfold step_result. generalize (seq 0 nb). intros bs. induction bs as [|b bs IH]; simpl; auto.
      apply Permutation_app; auto. apply sorter_ok.
  Qed.

  (** sortedness: inside a bucket by the sorter, across buckets by monotonicity *)
  Lemma sorted_app (l1 l2 : list A) :
    Sorted (sorted_rel ltb) l1 -> Sorted (sorted_rel ltb) l2 ->
    (forall x y, In x l1 -> In y l2 -> ltb y x = false) ->
    Sorted (sorted_rel ltb) (l1 ++ l2).
  Proof.
    intros S1 S2 H. induction l1 as [|a l1 IH]; simpl; auto.
    inversion S1 as [|? ? S1' Hd]; subst. constructor.
    - apply IH; auto. intros x y Hx Hy. apply H; [right|]; auto.
    - destruct l1 as [|b l1]; simpl.
      + destruct l2 as [|c l2]; constructor. apply H; left; auto.
      + inversion Hd; subst. constructor. assumption.
  Qed.

  Lemma step_sorted_from l : forall n s,
    Sorted (sorted_rel ltb) (concat (map (fun b => sorter b (bucket l b)) (seq s n))) /\
    (forall y, In y (concat (map (fun b => sorter b (bucket l b)) (seq s n))) -> s <= cls y).
  Proof.
    induction n as [|n IH]; intros s; simpl.
    - split; [constructor|intros y []].
    - destruct (IH (S s)) as [Ss Hs]. split.
      + apply sorted_app; [apply sorter_ok|exact Ss|].
        intros x y Hx Hy. specialize (Hs y Hy).
        assert (cls x = s) as Cx.
        { destruct (sorter_ok s (bucket l s)) as [_ P].
          apply (Permutation_in _ (Permutation_sym P)) in Hx. unfold bucket in Hx.
          apply filter_In in Hx as [_ Hx]. now apply Nat.eqb_eq in Hx. }
        (* cls x = s < S s <= cls y, hence not (y < x): otherwise y <= x gives cls y <= cls x *)
        destruct (ltb y x) eqn:E; auto. exfalso.
        pose proof (swo_asym _ HS _ _ E) as E'. pose proof (cls_mono y x E'). lia.
      + intros y Hy. apply in_app_or in Hy as [Hy|Hy].
        * destruct (sorter_ok s (bucket l s)) as [_ P].
          apply (Permutation_in _ (Permutation_sym P)) in Hy. unfold bucket in Hy.
          apply filter_In in Hy as [_ Hy]. apply Nat.eqb_eq in Hy. lia.
        * specialize (Hs y Hy). lia.
  Qed.

  Theorem step_correct l :
    Sorted (sorted_rel ltb) (step_result l) /\ Permutation l (step_result l).
  Proof. split; [apply (step_sorted_from l nb 0)|apply step_perm]. Qed.
End Distribution.

(** * The PS5 classifier: bucket index from a sorted splitter list, on keys = natural numbers *)
(** [classify sp key]: i = number of splitters smaller than key; bucket 2i+1 if splitter i equals key, else 2i.
    (This is what SSClassify*::classify computes with its binary splitter tree and equality checks.) *)
Fixpoint count_lt (sp : list nat) (key : nat) : nat :=
  match sp with [] => 0 | s :: t => (if s <? key then 1 else 0) + count_lt t key end.

Definition classify (sp : list nat) (key : nat) : nat :=
  let i := count_lt sp key in
  match nth_error sp i with
  | Some s => if s =? key then 2 * i + 1 else 2 * i
  | None => 2 * i
  end.

Lemma count_lt_le sp key : count_lt sp key <= length sp.
Proof. induction sp as [|s t IH]; simpl; auto. destruct (s <? key); lia. Qed.

Lemma classify_range sp key : classify sp key < 2 * length sp + 1.
Proof.
  unfold classify. pose proof (count_lt_le sp key).
  destruct (nth_error sp (count_lt sp key)) eqn:E.
  - assert (count_lt sp key < length sp) by (apply nth_error_Some; congruence).
    destruct (n =? key); lia.
  - lia.
Qed.

Lemma count_lt_mono sp k1 k2 : k1 <= k2 -> count_lt sp k1 <= count_lt sp k2.
Proof.
  intros H. induction sp as [|s t IH]; simpl; auto.
  destruct (Nat.ltb_spec s k1), (Nat.ltb_spec s k2); lia.
Qed.

(** in a sorted list the first [count_lt] entries are exactly the smaller ones *)
Lemma sorted_count_lt_nth sp key i s :
  Sorted le sp -> nth_error sp i = Some s -> (i < count_lt sp key <-> s < key).
Proof.
  intros S. apply Sorting.Sorted.Sorted_StronglySorted in S; [|intros ? ? ?; lia].
  revert i. induction S as [|a t St IH Hall]; intros i E; [destruct i; discriminate|].
  destruct i as [|i]; simpl in *.
  - injection E as ->. destruct (Nat.ltb_spec s key); [lia|].
    assert (count_lt t key = 0) as Z.
    { clear -Hall H. induction t as [|b t IHt]; simpl; auto. inversion Hall; subst.
      destruct (Nat.ltb_spec b key); [lia|]. now apply IHt. }
    lia.
  - specialize (IH i E). destruct (Nat.ltb_spec a key) as [Ha|Ha].
    + rewrite <- IH. lia.
    + (* a >= key, all later >= a: none smaller *)
      assert (key <= s) by (rewrite Forall_forall in Hall; apply nth_error_In in E; specialize (Hall _ E); lia).
      assert (count_lt t key = 0) as Z.
      { clear -Hall Ha. induction t as [|b t IHt]; simpl; auto. inversion Hall; subst.
        destruct (Nat.ltb_spec b key); [lia|]. now apply IHt. }
      lia.
Qed.

Theorem classify_mono sp k1 k2 : Sorted le sp -> k1 <= k2 -> classify sp k1 <= classify sp k2.
Proof.
  intros S H. unfold classify.
  pose proof (count_lt_mono sp k1 k2 H) as M.
  destruct (Nat.eq_dec (count_lt sp k1) (count_lt sp k2)) as [E|NE].
  - rewrite <- E. destruct (nth_error sp (count_lt sp k1)) as [s|] eqn:En; [|lia].
    destruct (Nat.eqb_spec s k1) as [E1|N1]; destruct (Nat.eqb_spec s k2) as [E2|N2]; try lia.
    (* s = k1 < k2 and splitter index i not counted for k2: contradiction *)
    exfalso. pose proof (sorted_count_lt_nth sp k2 _ _ S En) as [_ B]. rewrite <- E in B.
    assert (s < k2) as L by lia. specialize (B L). lia.
  - assert (count_lt sp k1 < count_lt sp k2) by lia.
    destruct (nth_error sp (count_lt sp k1)) as [s|]; destruct (nth_error sp (count_lt sp k2)) as [t|];
      repeat match goal with |- context [if ?b then _ else _] => destruct b end; lia.
Qed.

(** * Keys of strings: the w-byte big-endian window at [depth], zero padded (get_key_at) *)
Definition str := list nat.          (* bytes 1..255; 0 never occurs inside a string *)

Fixpoint lex_ltb (a b : str) : bool :=
  match a, b with
  | [], [] => false
  | [], _ :: _ => true
  | _ :: _, [] => false
  | x :: a', y :: b' => (x <? y) || ((x =? y) && lex_ltb a' b')
  end.

Lemma lex_SWO : SWO lex_ltb.
Proof.
  constructor.
  - induction x as [|a x IH]; simpl; auto. now rewrite Nat.ltb_irrefl, Nat.eqb_refl, IH.
  - induction x as [|a x IH]; intros [|b y] [|c z]; simpl; auto; try discriminate.
    rewrite !orb_true_iff, !andb_true_iff, !Nat.ltb_lt, !Nat.eqb_eq.
    intros [H1|[H1 H1']] [H2|[H2 H2']]; try (left; lia). right. split; [lia|]. eapply IH; eauto.
  - induction x as [|a x IH]; intros [|b y] [|c z]; simpl; auto; try discriminate.
    rewrite !orb_true_iff, !andb_true_iff, !Nat.ltb_lt, !Nat.eqb_eq.
    intros [H1|[H1 H1']].
    + destruct (Nat.lt_trichotomy a c) as [L|[E|G]]; [left; left; lia|subst|right; left; lia].
      right. left. lia.
    + subst. destruct (Nat.lt_trichotomy b c) as [L|[E|G]]; [left; left; lia|subst|right; left; lia].
      destruct (IH y z H1') as [X|X]; [left|right]; right; auto.
Qed.

(** key: fold the next [w] bytes (0 past the end) into a base-256 number *)
Fixpoint key_of (w : nat) (s : str) : nat :=
  match w with
  | 0 => 0
  | S w' => match s with
            | [] => 0
            | c :: t => c * 256 ^ w' + key_of w' t
            end
  end.

Definition key_at (w depth : nat) (s : str) : nat := key_of w (skipn depth s).

Definition bytes_ok (s : str) : Prop := Forall (fun c => 0 < c < 256) s.

Lemma key_of_bound w s : bytes_ok s -> key_of w s < 256 ^ w.
Proof.
  revert s; induction w as [|w IH]; intros s Hs; simpl; [lia|].
  destruct s as [|c t]; [pose proof (Nat.pow_nonzero 256 w); lia|].
  inversion Hs as [|? ? Hc Ht]; subst. specialize (IH t Ht). nia.
Qed.

(** lexicographic order implies key order *)
Lemma key_of_mono w a b : bytes_ok a -> bytes_ok b -> lex_ltb b a = false -> key_of w a <= key_of w b.
Proof.
  revert a b; induction w as [|w IH]; intros a b Ha Hb H; simpl; auto.
  destruct a as [|x a], b as [|y b]; simpl in *; try lia; try discriminate.
  inversion Ha as [|? ? Hx Hat]; subst. inversion Hb as [|? ? Hy Hbt]; subst.
  apply orb_false_iff in H as [H1 H2]. apply Nat.ltb_ge in H1.
  destruct (Nat.eq_dec x y) as [->|Hne].
  - rewrite Nat.eqb_refl in H2. simpl in H2. specialize (IH a b Hat Hbt H2). lia.
  - assert (x < y) as Hlt by lia. pose proof (key_of_bound w a Hat). nia.
Qed.

Lemma bytes_ok_skipn d s : bytes_ok s -> bytes_ok (skipn d s).
Proof. revert s; induction d; intros [|c s] H; simpl; auto. inversion H; auto. Qed.

Lemma lex_skipn_common d : forall a b, firstn d a = firstn d b -> length a >= d -> length b >= d ->
  lex_ltb b a = lex_ltb (skipn d b) (skipn d a).
Proof.
  induction d as [|d IH]; intros a b E La Lb; simpl; auto.
  destruct a as [|x a], b as [|y b]; simpl in *; try lia.
  injection E as -> E. rewrite Nat.ltb_irrefl, Nat.eqb_refl. simpl. apply IH; auto; lia.
Qed.

(** * One PS5 step on strings that share their first [depth] bytes *)
Section PS5Step.
  Variables (w depth : nat) (splitters : list nat).
  Hypothesis Hsp : Sorted le splitters.

  Definition ps5_cls (s : str) : nat := classify splitters (key_at w depth s).

  (** the input set of a step: NUL-free strings, all at least [depth] long and agreeing on the first [depth] bytes
      (strings shorter than depth never reach a step at that depth: they were final in an "equal" bucket) *)
  Variable common : str.
  Definition in_scope (s : str) : Prop := bytes_ok s /\ length s >= depth /\ firstn depth s = common.

  Lemma ps5_cls_mono x y : in_scope x -> in_scope y -> lex_ltb y x = false -> ps5_cls x <= ps5_cls y.
  Proof.
    intros (Bx & Lx & Px) (By & Ly & Py) H. unfold ps5_cls, key_at.
    apply classify_mono; auto. apply key_of_mono; try apply bytes_ok_skipn; auto.
    rewrite <- (lex_skipn_common depth x y); auto. congruence.
  Qed.
End PS5Step.

(** Putting it together: the result of a step = concatenation of the sub-steps' results is a sorted
    permutation, for all splitters, any key width, any depth, provided the sub-steps are correct.
    (Distribution needs monotonicity only on the strings actually present: the classifier is extended by an
    arbitrary in-range value elsewhere, which is irrelevant because only elements of the input are classified.) *)
Theorem ps5_step_correct (w depth : nat) (splitters : list nat) (common : str)
        (sorter : nat -> list str -> list str) :
  Sorted le splitters ->
  (forall b l, Sorted (sorted_rel lex_ltb) (sorter b l) /\ Permutation l (sorter b l)) ->
  forall l, Forall (in_scope depth common) l ->
    let res := concat (map (fun b => sorter b (filter (fun s => ps5_cls w depth splitters s =? b) l))
                           (seq 0 (2 * length splitters + 1))) in
    Sorted (sorted_rel lex_ltb) res /\ Permutation l res.
Proof.
  intros Hsp Hsort l Hl res.
  (* restrict attention to the elements of l: sortedness across buckets only compares elements of l *)
  split.
  - (* Sorted *)
    unfold res.
    assert (G : forall n s,
      Sorted (sorted_rel lex_ltb)
        (concat (map (fun b => sorter b (filter (fun x => ps5_cls w depth splitters x =? b) l)) (seq s n))) /\
      (forall y, In y (concat (map (fun b => sorter b (filter (fun x => ps5_cls w depth splitters x =? b) l)) (seq s n))) ->
                 In y l /\ s <= ps5_cls w depth splitters y)).
    { induction n as [|n IH]; intros s; simpl.
      - split; [constructor|intros y []].
      - destruct (IH (S s)) as [Ss Hs]. split.
        + apply (sorted_app lex_ltb); [apply Hsort|exact Ss|].
          intros x y Hx Hy. destruct (Hs y Hy) as [Hyl Hyc].
          destruct (Hsort s (filter (fun x0 => ps5_cls w depth splitters x0 =? s) l)) as [_ P].
          apply (Permutation_in _ (Permutation_sym P)) in Hx. apply filter_In in Hx as [Hxl Hx].
          apply Nat.eqb_eq in Hx.
          destruct (lex_ltb y x) eqn:E; auto. exfalso.
          pose proof (swo_asym _ lex_SWO _ _ E) as E'.
          rewrite Forall_forall in Hl.
          pose proof (ps5_cls_mono w depth splitters Hsp common y x (Hl _ Hyl) (Hl _ Hxl) E'). lia.
        + intros y Hy. apply in_app_or in Hy as [Hy|Hy].
          * destruct (Hsort s (filter (fun x0 => ps5_cls w depth splitters x0 =? s) l)) as [_ P].
            apply (Permutation_in _ (Permutation_sym P)) in Hy. apply filter_In in Hy as [Hyl Hy].
            apply Nat.eqb_eq in Hy. split; auto. lia.
          * destruct (Hs y Hy). split; auto. lia. }
    apply (G (2 * length splitters + 1) 0).
  - (* Permutation: does not need monotonicity *)
    unfold res.
    eapply perm_trans; [apply (perm_buckets_from (ps5_cls w depth splitters) l (2 * length splitters + 1) 0)|].
    + intros x _. unfold ps5_cls. pose proof (classify_range splitters (key_at w depth x)). lia.
    + generalize (seq 0 (2 * length splitters + 1)). intros bs. induction bs as [|b bs IH]; simpl; auto.
      apply Permutation_app; auto. apply Hsort.
Qed.

(** non-vacuity / sanity *)
Example classify_example : map (classify [10; 20; 20; 30]) [5; 10; 15; 20; 25; 30; 35] = [0; 1; 2; 3; 6; 7; 8].
Proof. reflexivity. Qed.
