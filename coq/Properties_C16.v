(** C16 — RingBuffer is a bounded deque; element lifetimes are exact.
    Statements only; proofs live in C16/RingProofs.v and C16/RingRefine.v. *)
From Coq Require Import List.
From TLXV Require Import C16.Ring C16.RingProofs C16.RingRefine C16.SVec.
From TLXV Require C16.SVecProofs.
From TLXV Require C16.Mask.
From Coq Require Import NArith.
Import ListNotations.

(** For every history over three buffer variables (allocate, deallocate, pushes and pops at both ends,
    clear, copy/move construction and assignment, queries) that respects the documented preconditions
    ([valid]: a push needs a free place within max_size, a pop a non-empty buffer, allocate an unallocated
    buffer; sources and destinations of copies, moves and assignments may be in any state, incl.
    default-constructed, moved-from and deallocated -- these cases exposed the stale capacity_ and
    zero-size-block defects refuted below):
    every query answers exactly as the bounded-deque specification, and the lifetime ledger never
    records a construct-over-live, a destroy-of-raw or, after final destruction, a leaked element. *)
Theorem C16_ring_refines_deque : forall ops,
  valid [SNone; SNone; SNone] ops = true ->
  snd (run init_state ops) = snd (srun [SNone; SNone; SNone] ops) /\
  final_bad (fst (run init_state ops)) = false.
Proof. exact ring_refines_deque. Qed.
Print Assumptions C16_ring_refines_deque.

(** Slot-level statement: a slot is constructed iff it lies in the circular interval [begin, end),
    preserved by push_back (the other operations: RingProofs.push_front_ok, pop_front_ok, pop_back_ok,
    clear_ok, copy_assign_ok, copy_construct_ok). *)
Theorem C16_push_back_slots : forall r d l v,
  data r = Some d -> Inv r -> Abs r l -> size r + 1 <= max_size r ->
  bad (push_back r v) = false /\ Inv (buf (push_back r v)) /\ Abs (buf (push_back r v)) (l ++ [v]).
Proof. intros r d l v Hd HI HA Hf. destruct (push_back_ok r d l Hd HI HA v Hf) as (? & ? & ? & _). auto. Qed.
Print Assumptions C16_push_back_slots.

Theorem C16_pop_back_slots : forall r d l,
  data r = Some d -> Inv r -> Abs r l -> 0 < size r ->
  bad (pop_back r) = false /\ Inv (buf (pop_back r)) /\ Abs (buf (pop_back r)) (removelast l).
Proof. intros r d l Hd HI HA Hf. destruct (pop_back_ok r d l Hd HI HA Hf) as (? & ? & ? & _). auto. Qed.
Print Assumptions C16_pop_back_slots.

(** The shipped (704fd0b) pop_back and allocate violate the same statements: concrete witnesses. *)
Theorem C16_pop_back_shipped_refuted :
  exists r, let r1 := buf (push_back (buf (push_back (make 3) 1)) 2) in
            r = buf (pop_back_shipped r1) /\ destruct_ring r = true /\
            destruct_ring (buf (pop_back r1)) = false.
Proof. exact pop_back_shipped_refuted. Qed.
Print Assumptions C16_pop_back_shipped_refuted.

Theorem C16_allocate_shipped_refuted :
  let r0 := buf (allocate empty_ring 7) in
  let cyc r := buf (pop_front (buf (push_back r 9))) in
  let r5 := cyc (cyc (cyc (cyc (cyc r0)))) in
  let rd := buf (deallocate r5) in
  rbegin (buf (allocate_shipped rd 1)) = 5 /\ cap (buf (allocate_shipped rd 1)) = 2 /\
  bad (push_back (buf (allocate_shipped rd 1)) 1) = true /\
  bad (push_back (buf (allocate rd 1)) 1) = false.
Proof. exact allocate_shipped_refuted. Qed.
Print Assumptions C16_allocate_shipped_refuted.

Theorem C16_deallocate_shipped_refuted :
  let a0 := buf (push_back (make 3) 1) in
  let c := buf (push_back (make 3) 2) in
  data (buf (deallocate_shipped a0)) = None /\ cap (buf (deallocate_shipped a0)) = cap c /\
  bad (copy_assign (buf (deallocate_shipped a0)) c) = true /\
  bad (copy_assign (buf (deallocate a0)) c) = false /\
  contents (buf (copy_assign (buf (deallocate a0)) c)) = [Some 2].
Proof. exact deallocate_shipped_refuted. Qed.
Print Assumptions C16_deallocate_shipped_refuted.

Theorem C16_copy_unallocated_shipped_refuted :
  data (buf (copy_construct_shipped empty_ring)) = Some [] /\
  bad (allocate (buf (copy_construct_shipped empty_ring)) 3) = true /\
  bad (allocate (buf (copy_construct empty_ring)) 3) = false /\
  bad (allocate (buf (copy_assign_shipped (make 3) empty_ring)) 2) = true /\
  bad (allocate (buf (copy_assign (make 3) empty_ring)) 2) = false.
Proof. exact copy_unallocated_shipped_refuted. Qed.
Print Assumptions C16_copy_unallocated_shipped_refuted.

(** SimpleVector (Normal mode): for every history over three variables (construction with a size, resize,
    element writes, destroy(), move construction / assignment, swap, queries) the answers are those of plain lists
    (resize keeps the first min(old,new) elements and default-constructs the rest), no storage block is released
    twice or touched after release, and destroying the variables releases every block: each new T[n] is matched
    by exactly one delete[], so every element is constructed and destroyed exactly once. *)
Theorem C16_svec_refines_lists : forall ops,
  SVecProofs.svalid [[]; []; []] ops = true ->
  snd (vrun vinit ops) = snd (SVecProofs.srun [[]; []; []] ops) /\
  hbad (vheap (fst (vrun vinit ops))) = false /\
  vfinal_ok (fst (vrun vinit ops)) = true.
Proof. exact SVecProofs.svec_refines_lists. Qed.
Print Assumptions C16_svec_refines_lists.

(** Index arithmetic: the C++ computes every index as [x & mask_] on size_t (64-bit, wrapping), with
    capacity_ = 2^k and mask_ = capacity_ - 1; the model writes [x mod cap].  With the wrap-around made
    explicit (and64 = &, add64 a b = (a + b) mod 2^64, sub64 a b = (a + 2^64 - b) mod 2^64), each C++
    expression -- masking, [++end_ &= mask_], [--begin_ &= mask_] (through 2^64-1 at 0),
    [(end_ - begin_) & mask_], [(begin_ + i) & mask_], [(end_ - 1) & mask_] -- equals the model's, for every
    capacity the model's constructor creates (rup2 (m+1), a power of two) that fits size_t (<= 2^63). *)
Theorem C16_mask_arithmetic : forall m cap mask,
  cap = N.of_nat (rup2 (m + 1)) -> (cap <= 2 ^ 63)%N -> mask = (cap - 1)%N ->
  (forall x, Mask.and64 x mask = x mod cap)%N /\
  (forall x, x < cap -> Mask.and64 (Mask.add64 x 1) mask = (x + 1) mod cap)%N /\
  (forall x, x < cap -> Mask.and64 (Mask.sub64 x 1) mask = (x + cap - 1) mod cap)%N /\
  (forall e b, e < cap -> b < cap -> Mask.and64 (Mask.sub64 e b) mask = (e + cap - b) mod cap)%N /\
  (forall b i, b < cap -> i < cap -> Mask.and64 (Mask.add64 b i) mask = (b + i) mod cap)%N /\
  (forall e, e < cap -> Mask.and64 (Mask.sub64 e 1) mask = (e + cap - 1) mod cap)%N.
Proof. exact Mask.mask_arithmetic_rup2. Qed.
Print Assumptions C16_mask_arithmetic.
