From TLXV Require Import C05.AutoDefs C05.StableMerge C05.Model C09.LoserTree C05.C09Model.
Require Extraction. Require ExtrOcamlBasic.
Extraction Language OCaml.
Extraction "../ocaml/gen/C05_model.ml" Model.ref_mwm C09Model.c9_obs StableMerge.msteps StableMerge.total.
