From TLXV Require Import C05.AutoDefs C05.StableMerge C05.Model.
Require Extraction. Require ExtrOcamlBasic.
Extraction Language OCaml.
Extraction "../ocaml/gen/C05_model.ml" Model.ref_mwm StableMerge.msteps StableMerge.total.
