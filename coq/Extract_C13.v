From TLXV Require Import C13.DAry C13.Addr C13.Radix.
Require Extraction. Require ExtrOcamlBasic.
Extraction Language OCaml.
Extraction "../ocaml/gen/C13_model.ml" DAry.trun DAry.tstep DAry.tobs Addr.arun Addr.astep Addr.aobs Addr.ainit Radix.rrun Radix.rstep Radix.rinit Radix.num_buckets.
