(** Strict weak orders given as a boolean "less" — the shape of a C++ comparator. *)
From Coq Require Import List Bool Arith Lia Sorting.Sorted Sorting.Permutation.
Import ListNotations.

Section SWO.
  Context {A : Type}.
  Variable ltb : A -> A -> bool.

  (** The C++ "strict weak ordering" requirements. *)
  Record SWO : Prop := {
    swo_irrefl : forall x, ltb x x = false;
    swo_trans : forall x y z, ltb x y = true -> ltb y z = true -> ltb x z = true;
    (* negative transitivity, equivalent to transitivity of incomparability given the above *)
    swo_negtrans : forall x y z, ltb x y = true -> ltb x z = true \/ ltb z y = true
  }.

  Definition leb (x y : A) : bool := negb (ltb y x).
  Definition eqv (x y : A) : bool := negb (ltb x y) && negb (ltb y x).

  Hypothesis H : SWO.

  Lemma swo_asym x y : ltb x y = true -> ltb y x = false.
  Proof.
    intros Hxy. destruct (ltb y x) eqn:Hyx; [|reflexivity].
    pose proof (swo_trans H _ _ _ Hxy Hyx) as C. rewrite (swo_irrefl H) in C. discriminate.
  Qed.

  Lemma leb_refl x : leb x x = true.
  Proof. unfold leb. now rewrite (swo_irrefl H). Qed.

  Lemma leb_total x y : leb x y = true \/ leb y x = true.
  Proof.
    unfold leb. destruct (ltb y x) eqn:E; [right|left; reflexivity].
    now rewrite (swo_asym _ _ E).
  Qed.

  Lemma leb_trans x y z : leb x y = true -> leb y z = true -> leb x z = true.
  Proof.
    unfold leb. intros Hxy Hyz. destruct (ltb z x) eqn:E; [|reflexivity].
    destruct (swo_negtrans H _ _ y E) as [C|C]; rewrite C in *; discriminate.
  Qed.

  Lemma ltb_leb x y : ltb x y = true -> leb x y = true.
  Proof. intros E. unfold leb. now rewrite (swo_asym _ _ E). Qed.

  Lemma ltb_leb_trans x y z : ltb x y = true -> leb y z = true -> ltb x z = true.
  Proof.
    unfold leb. intros Hxy Hyz. destruct (swo_negtrans H _ _ z Hxy) as [C|C]; [exact C|].
    rewrite C in Hyz. discriminate.
  Qed.

  Lemma leb_ltb_trans x y z : leb x y = true -> ltb y z = true -> ltb x z = true.
  Proof.
    unfold leb. intros Hxy Hyz. destruct (swo_negtrans H _ _ x Hyz) as [C|C]; [|exact C].
    rewrite C in Hxy. discriminate.
  Qed.

  Lemma not_leb_ltb x y : leb x y = false -> ltb y x = true.
  Proof. unfold leb. now destruct (ltb y x). Qed.

  Lemma eqv_refl x : eqv x x = true.
  Proof. unfold eqv. now rewrite (swo_irrefl H). Qed.

  Lemma eqv_sym x y : eqv x y = eqv y x.
  Proof. unfold eqv. now rewrite andb_comm. Qed.

  Lemma eqv_trans x y z : eqv x y = true -> eqv y z = true -> eqv x z = true.
  Proof.
    unfold eqv. rewrite !andb_true_iff, !negb_true_iff. intros [a b] [c d]. split.
    - destruct (ltb x z) eqn:E; [|reflexivity]. destruct (swo_negtrans H _ _ y E); congruence.
    - destruct (ltb z x) eqn:E; [|reflexivity]. destruct (swo_negtrans H _ _ y E); congruence.
  Qed.

  (** Sortedness as used by every property: adjacent elements are not out of order. *)
  Definition sorted_rel (x y : A) : Prop := ltb y x = false.

  Lemma sorted_rel_leb x y : sorted_rel x y <-> leb x y = true.
  Proof. unfold sorted_rel, leb. destruct (ltb y x); simpl; intuition congruence. Qed.

  Lemma Sorted_StronglySorted l : Sorted sorted_rel l -> StronglySorted sorted_rel l.
  Proof.
    apply Sorted_StronglySorted. intros x y z Hxy Hyz.
    apply sorted_rel_leb. eapply leb_trans; apply sorted_rel_leb; eassumption.
  Qed.

  (** Boolean decision of sortedness. *)
  Fixpoint sortedb (l : list A) : bool :=
    match l with
    | [] => true
    | x :: r => match r with [] => true | y :: _ => negb (ltb y x) && sortedb r end
    end.

  Lemma sortedb_Sorted l : sortedb l = true <-> Sorted sorted_rel l.
  Proof.
    induction l as [|x r IH]; [simpl; intuition constructor|].
    destruct r as [|y r'].
    - simpl. split; [intros _; repeat constructor|reflexivity].
    - change (sortedb (x :: y :: r')) with (negb (ltb y x) && sortedb (y :: r')).
      rewrite andb_true_iff, negb_true_iff. split.
      + intros [a b]. constructor; [now apply IH|constructor; exact a].
      + intros S. inversion S as [|? ? S' Hd]; subst. inversion Hd; subst. split; [assumption|now apply IH].
  Qed.
End SWO.

Arguments SWO {A} ltb.
Arguments leb {A} ltb x y.
Arguments eqv {A} ltb x y.
Arguments sorted_rel {A} ltb x y.
Arguments sortedb {A} ltb l.

(** Standard instances. *)
Lemma SWO_nat : SWO Nat.ltb.
Proof.
  constructor; intros.
  - apply Nat.ltb_irrefl.
  - rewrite Nat.ltb_lt in *. lia.
  - rewrite !Nat.ltb_lt in *. lia.
Qed.

Definition bool_ltb (a b : bool) : bool := negb a && b.
Lemma SWO_bool : SWO bool_ltb.
Proof. constructor; intros; destruct x; try destruct y; try destruct z; simpl in *; auto. Qed.

(** A comparator reversed (std::greater) is again a strict weak order. *)
Lemma SWO_flip {A} (ltb : A -> A -> bool) : SWO ltb -> SWO (fun x y => ltb y x).
Proof.
  intros H. constructor; intros.
  - apply (swo_irrefl _ H).
  - eapply (swo_trans _ H); eassumption.
  - destruct (swo_negtrans _ H _ _ z H0); auto.
Qed.

(** Lifting through a key projection. *)
Lemma SWO_on {A B} (ltb : B -> B -> bool) (f : A -> B) : SWO ltb -> SWO (fun x y => ltb (f x) (f y)).
Proof.
  intros H. constructor; intros.
  - apply (swo_irrefl _ H).
  - eapply (swo_trans _ H); eassumption.
  - apply (swo_negtrans _ H); assumption.
Qed.
