(** C10 -- liveness, part 4 (repaired code, no spurious wake-ups): loop_until_terminate.
    No quiescent state has a thread blocked in loop_until_terminate while terminate_ && busy_ == 0. *)
From Coq Require Import List Arith Bool Lia Permutation.
From TLXV Require Import C10.Pool C10.PoolLemmas C10.PoolSafety C10.PoolWait C10.PoolCands C10.PoolLive C10.PoolLive2 C10.PoolLive3.
Import ListNotations.

(** will notify_all(cv_finished_): a worker after --busy_, or a thread inside terminate() after the store *)
Definition pendT (ts : tstate) : bool :=
  pendF ts || match cur_api ts with Some QTerm2 | Some QTerm3 => true | _ => false end.
Definition altw (a : api) : bool := match a with QLT2 | QLT3 => true | _ => false end.
Definition ltw (ts : tstate) : bool := match cur_api ts with Some a => altw a | None => false end.
Definition lt2 (ts : tstate) : bool := match cur_api ts with Some QLT2 => true | _ => false end.

Ltac conts L :=
  unfold main_ctor, main_spawnc, main_ops, main_joinc, main_joinw, client_next, job_next in L;
  repeat match type of L with
         | context [if ?b then _ else _] => destruct b
         | context [match ?l with [] => _ | _ => _ end] => destruct l as [|[] ?]
         end.

Lemma api_lt_keep sp t s a e s' oa :
  api_step true sp t s a e = Some (s', oa) ->
  (term s = false \/ busy s <> 0 \/ a = QTerm2 \/ a = QTerm3) ->
  (term s' = false \/ busy s' <> 0 \/ oa = Some QTerm2 \/ oa = Some QTerm3) \/ (wsF s' = [] /\ ahold a = true /\ oa = Some QTerm4).
Proof.
  intros H P. unfold api_step in H. unfold_ops H.
  destruct a; inv_some H; cbn in *; auto;
    try (destruct P as [P|[P|[P|P]]]; try discriminate P; auto; fail).
Qed.

Lemma api_lt_new fx sp t s a e s' a' :
  api_step fx sp t s a e = Some (s', Some a') -> altw a' = true ->
  a = QLT2 \/ term s' = false \/ busy s' <> 0.
Proof.
  intros H L. unfold api_step in H. unfold_ops H.
  destruct a; inv_some H; try discriminate L; cbn; beq; subst; auto.
Qed.

Section Local4.
  Variables (cfg : config) (sp : bool) (fin : nat -> bool) (t : nat).

  Ltac api_ctx H :=
    match type of H with
    | context [api_step ?a ?b ?c ?d ?e ?f] => destruct (api_step a b c d e f) as [[? [?|]]|] eqn:Hapi; inversion H; subst; clear H
    end.

  Lemma tstep_lt_keep s ts e s' ts' spw :
    tstep cfg true sp fin t s ts e = Some (s', ts', spw) ->
    (term s = false \/ busy s <> 0 \/ pendT ts = true \/ mterm ts = true) ->
    (term s' = false \/ busy s' <> 0 \/ pendT ts' = true \/ mterm ts' = true) \/ (wsF s' = [] /\ hold ts = true /\ ltw ts' = false).
  Proof.
    intros H P.
    destruct ts as [| |p|tk j|tk j|tk j a r|tk j|a r| |p|a r]; cbn [tstep] in H; try discriminate.
    - unfold_ops H. destruct p; inv_some H; cbn in *; beq; subst;
        try (left; destruct P as [P|[P|[P|P]]]; try discriminate P; auto; fail);
        try (left; right; right; left; reflexivity);
        try (left; right; left; lia);
        try (right; repeat split; reflexivity).
      all: left; destruct P as [P|[P|[P|P]]]; try discriminate P; auto; right; left; lia.
    - unfold_ops H. inv_some H. cbn in *. left. destruct P as [P|[P|[P|P]]]; try discriminate P; auto.
    - inv_some H. left. destruct P as [P|[P|[P|P]]]; try discriminate P; auto.
    - assert (P' : term s = false \/ busy s <> 0 \/ a = QTerm2 \/ a = QTerm3).
      { destruct P as [P|[P|[P|P]]]; auto; try discriminate P. cbn in P. destruct a; try discriminate P; auto. }
      api_ctx H; destruct (api_lt_keep _ _ _ _ _ _ _ Hapi P') as [[Q|[Q|[Q|Q]]]|(Q1 & Q2 & Q3)]; auto; try discriminate;
        try (inversion Q; subst; left; right; right; left; reflexivity).
      inversion Q3; subst. right. repeat split; auto.
    - inv_some H. cbn in *. left. destruct P as [P|[P|[P|P]]]; try discriminate P; auto.
    - assert (P' : term s = false \/ busy s <> 0 \/ a = QTerm2 \/ a = QTerm3).
      { destruct P as [P|[P|[P|P]]]; auto; try discriminate P. cbn in P. destruct a; try discriminate P; auto. }
      api_ctx H; destruct (api_lt_keep _ _ _ _ _ _ _ Hapi P') as [[Q|[Q|[Q|Q]]]|(Q1 & Q2 & Q3)]; auto; try discriminate;
        try (inversion Q; subst; left; right; right; left; reflexivity).
      inversion Q3; subst. right. repeat split; auto.
    - inv_some H. left. destruct P as [P|[P|[P|P]]]; try discriminate P; auto.
    - unfold_ops H. destruct p; inv_some H; cbn in *; left;
        try (destruct P as [P|[P|[P|P]]]; try discriminate P; auto; fail);
        try (right; right; right; reflexivity).
      all: right; right; right; unfold main_joinw; match goal with |- context [if ?b then _ else _] => destruct b end; reflexivity.
    - assert (P' : term s = false \/ busy s <> 0 \/ a = QTerm2 \/ a = QTerm3).
      { destruct P as [P|[P|[P|P]]]; auto; try discriminate P. cbn in P. destruct a; try discriminate P; auto. }
      api_ctx H; destruct (api_lt_keep _ _ _ _ _ _ _ Hapi P') as [[Q|[Q|[Q|Q]]]|(Q1 & Q2 & Q3)]; auto; try discriminate;
        try (inversion Q; subst; left; right; right; left; reflexivity).
      inversion Q3; subst. right. repeat split; auto.
  Qed.

  Lemma tstep_lt_new fx s ts e s' ts' spw :
    tstep cfg fx sp fin t s ts e = Some (s', ts', spw) -> ltw ts' = true ->
    lt2 ts = true \/ term s' = false \/ busy s' <> 0.
  Proof.
    intros H L.
    destruct ts as [| |p|tk j|tk j|tk j a r|tk j|a r| |p|a r]; cbn [tstep] in H; try discriminate.
    - destruct p; inv_some H; discriminate L.
    - inv_some H; discriminate L.
    - inv_some H. conts L; discriminate L.
    - api_ctx H.
      + destruct (api_lt_new _ _ _ _ _ _ _ _ Hapi L) as [->|Q]; auto.
      + conts L; discriminate L.
    - inv_some H; discriminate L.
    - api_ctx H.
      + destruct (api_lt_new _ _ _ _ _ _ _ _ Hapi L) as [->|Q]; auto.
      + conts L; discriminate L.
    - inv_some H; discriminate L.
    - destruct p; inv_some H; try discriminate L; conts L; discriminate L.
    - api_ctx H.
      + destruct (api_lt_new _ _ _ _ _ _ _ _ Hapi L) as [->|Q]; auto.
      + conts L; discriminate L.
  Qed.
End Local4.

(** * Which client threads can be alive, as a function of the main thread's program counter *)
Definition cbound (cfg : config) (ts0 : tstate) : nat * nat :=
  match ts0 with
  | TM (M1 k) => (0, k)
  | TMO _ _ => (0, length (clients cfg))
  | TM (M2 k) => (k, length (clients cfg))
  | _ => (0, 0)
  end.
Definition in_bound (cfg : config) (ts0 : tstate) (u : nat) : Prop :=
  nworkers cfg + 1 + fst (cbound cfg ts0) <= u < nworkers cfg + 1 + snd (cbound cfg ts0).

Lemma incl_joinc cfg j u : nworkers cfg + 1 + j <= u < nworkers cfg + 1 + length (clients cfg) -> in_bound cfg (main_joinc cfg j) u.
Proof.
  unfold main_joinc, in_bound. destruct (Nat.ltb j (length (clients cfg))) eqn:E; cbn; [lia|]. apply Nat.ltb_ge in E. lia.
Qed.
Lemma incl_ops cfg r u : nworkers cfg + 1 <= u < nworkers cfg + 1 + length (clients cfg) -> in_bound cfg (main_ops cfg r) u.
Proof. destruct r as [|[] r]; cbn [main_ops]; try (unfold in_bound; cbn; lia). intros H. apply incl_joinc. lia. Qed.
Lemma incl_spawnc cfg j u : j <= length (clients cfg) -> nworkers cfg + 1 <= u < nworkers cfg + 1 + j -> in_bound cfg (main_spawnc cfg j) u.
Proof.
  intros Hj H. unfold main_spawnc. destruct (Nat.ltb j (length (clients cfg))) eqn:E.
  - unfold in_bound; cbn; lia.
  - apply Nat.ltb_ge in E. apply incl_ops. lia.
Qed.
Lemma main_spawnc_M1 cfg j k : main_spawnc cfg j = TM (M1 k) -> k = j /\ j < length (clients cfg).
Proof.
  unfold main_spawnc. destruct (Nat.ltb j (length (clients cfg))) eqn:E.
  - intros H. inversion H; subst. split; [reflexivity | now apply Nat.ltb_lt].
  - unfold main_ops, main_joinc. intros H. conts H; discriminate H.
Qed.
Lemma main_ctor_M1 cfg j k : main_ctor cfg j = TM (M1 k) -> k < length (clients cfg).
Proof.
  unfold main_ctor. destruct (Nat.ltb j (nworkers cfg)); [discriminate|]. intros H. apply main_spawnc_M1 in H. lia.
Qed.
Lemma main_ops_not_M1 cfg r k : main_ops cfg r <> TM (M1 k).
Proof. intros H. conts H; discriminate H. Qed.
Lemma main_joinc_not_M1 cfg j k : main_joinc cfg j <> TM (M1 k).
Proof. intros H. conts H; discriminate H. Qed.
Lemma main_joinw_not_M1 cfg j k : main_joinw cfg j <> TM (M1 k).
Proof. intros H. conts H; discriminate H. Qed.

Record CInv (cfg : config) (s : state) : Prop := {
  c_bound : forall u, role_of (get (thr s) u) = RClient -> in_bound cfg (get (thr s) 0) u;
  c_m1k : forall k, get (thr s) 0 = TM (M1 k) -> k < length (clients cfg)
}.

Lemma cinv_init cfg : CInv cfg (init cfg).
Proof.
  constructor.
  - intros [|[|u]] H; cbn in H; try discriminate H. rewrite role_main_ctor in H. discriminate.
  - intros k H. cbn in H. eapply main_ctor_M1; eauto.
Qed.

Local Opaque set.
Lemma cinv_step cfg fx sp s te s' : RInv cfg s -> CInv cfg s -> lstep_gen cfg fx sp s te = Some s' -> CInv cfg s'.
Proof.
  intros HR [C1 C2] H. destruct te as [t e]. unfold lstep_gen in H.
  destruct (tstep cfg fx sp (fun u => is_fin (get (thr s) u)) t (shr s) (get (thr s) t) e) as [[[sh' ts'] spw]|] eqn:Ht; [|discriminate].
  destruct (tstep_role _ _ _ _ _ _ _ _ _ _ _ Ht) as (Hr & Hn).
  assert (RC : role_of ts' = RClient -> role_of (get (thr s) t) = RClient).
  { intros E. destruct Hr as [Hr|(-> & _)]; [congruence | discriminate E]. }
  destruct (get (thr s) t) as [| |p|tk j|tk j|tk j a r|tk j|a r| |p|a r] eqn:Ets; try (exfalso; apply Hn; reflexivity).
  8: { (* main thread outside its API calls *)
    assert (t = 0) by (apply (r_mainu _ _ HR); now rewrite Ets). subst t.
    pose proof (tstep_main _ _ _ _ _ _ _ _ _ _ _ Ht) as M.
    assert (NOC : (forall u, ~ in_bound cfg (TM p) u) -> forall u, role_of (get (thr s) u) <> RClient).
    { intros N u E. apply (N u). rewrite <- Ets. now apply C1. }
    destruct p as [k|k|k| | | | |k|]; try contradiction.
    - (* spawn worker *)
      destruct M as (-> & -> & ->). destruct (is_none (get (thr s) (S k))); [|discriminate]. inversion H; subst; clear H.
      assert (N : forall u, role_of (get (thr s) u) <> RClient) by (apply NOC; intros u; unfold in_bound; cbn; lia).
      constructor; cbn [shr thr].
      + intros u. rewrite !get_set. destruct (Nat.eqb_spec (S k) u); [discriminate|].
        destruct (Nat.eqb_spec 0 u); [rewrite role_main_ctor; discriminate|]. intros E. now apply N in E.
      + intros k'. rewrite (get_set_neq (S k) _ 0) by lia. rewrite get_set_eq. apply main_ctor_M1.
    - (* spawn client *)
      destruct M as (-> & (v & -> & Hv) & ->). destruct (is_none (get (thr s) (nworkers cfg + 1 + k))); [|discriminate].
      inversion H; subst; clear H. pose proof (C2 k Ets) as Hk.
      constructor; cbn [shr thr].
      + intros u. rewrite (get_set_neq (nworkers cfg + 1 + k) _ 0) by lia. rewrite (get_set_eq 0).
        rewrite get_set. destruct (Nat.eqb_spec (nworkers cfg + 1 + k) u) as [<-|Hne].
        * intros _. apply incl_spawnc; lia.
        * rewrite get_set. destruct (Nat.eqb_spec 0 u); [rewrite role_main_spawnc; discriminate|].
          intros E. apply C1 in E. rewrite Ets in E. unfold in_bound in E. cbn in E. apply incl_spawnc; lia.
      + intros k'. rewrite (get_set_neq (nworkers cfg + 1 + k) _ 0) by lia. rewrite get_set_eq. intros E. apply main_spawnc_M1 in E. lia.
    - (* join client *)
      destruct M as (-> & -> & -> & F). inversion H; subst; clear H.
      constructor; cbn [shr thr].
      + intros u. rewrite get_set_eq. rewrite get_set. destruct (Nat.eqb_spec 0 u); [rewrite role_main_joinc; discriminate|].
        intros E. pose proof (C1 u E) as B. rewrite Ets in B. unfold in_bound in B. cbn in B.
        assert (u <> nworkers cfg + 1 + k). { intros ->. destruct (get (thr s) (nworkers cfg + 1 + k)); try discriminate F. discriminate E. }
        apply incl_joinc. lia.
      + intros k'. rewrite get_set_eq. intros E. exfalso. eapply main_joinc_not_M1; eauto.
    - destruct M as (-> & -> & _). inversion H; subst; clear H.
      assert (N : forall u, role_of (get (thr s) u) <> RClient) by (apply NOC; intros u; unfold in_bound; cbn; lia).
      constructor; cbn [shr thr]; [|intros k'; rewrite get_set_eq; discriminate].
      intros u. rewrite get_set. destruct (Nat.eqb_spec 0 u); [discriminate|]. intros E. now apply N in E.
    - destruct M as (-> & -> & _). inversion H; subst; clear H.
      assert (N : forall u, role_of (get (thr s) u) <> RClient) by (apply NOC; intros u; unfold in_bound; cbn; lia).
      constructor; cbn [shr thr]; [|intros k'; rewrite get_set_eq; discriminate].
      intros u. rewrite get_set. destruct (Nat.eqb_spec 0 u); [discriminate|]. intros E. now apply N in E.
    - destruct M as (-> & -> & _). inversion H; subst; clear H.
      assert (N : forall u, role_of (get (thr s) u) <> RClient) by (apply NOC; intros u; unfold in_bound; cbn; lia).
      constructor; cbn [shr thr]; [|intros k'; rewrite get_set_eq; discriminate].
      intros u. rewrite get_set. destruct (Nat.eqb_spec 0 u); [discriminate|]. intros E. now apply N in E.
    - destruct M as (-> & -> & _). inversion H; subst; clear H.
      assert (N : forall u, role_of (get (thr s) u) <> RClient) by (apply NOC; intros u; unfold in_bound; cbn; lia).
      constructor; cbn [shr thr]; [|intros k'; rewrite get_set_eq; intros E; exfalso; eapply main_joinw_not_M1; eauto].
      intros u. rewrite get_set. destruct (Nat.eqb_spec 0 u); [rewrite role_main_joinw; discriminate|]. intros E. now apply N in E.
    - destruct M as (-> & -> & -> & _). inversion H; subst; clear H.
      assert (N : forall u, role_of (get (thr s) u) <> RClient) by (apply NOC; intros u; unfold in_bound; cbn; lia).
      constructor; cbn [shr thr]; [|intros k'; rewrite get_set_eq; intros E; exfalso; eapply main_joinw_not_M1; eauto].
      intros u. rewrite get_set. destruct (Nat.eqb_spec 0 u); [rewrite role_main_joinw; discriminate|]. intros E. now apply N in E. }
  (* all other threads: no spawn *)
  all: assert (spw = None) by (eapply tstep_nomain_spawn; eauto; discriminate); subst spw; inversion H; subst; clear H.
  (* TMO: thread 0, continues its own operations or goes on to join the clients *)
  8: { assert (t = 0) by (apply (r_mainu _ _ HR); now rewrite Ets). subst t.
       assert (B : forall u, role_of (get (thr s) u) = RClient -> nworkers cfg + 1 <= u < nworkers cfg + 1 + length (clients cfg)).
       { intros u E. pose proof (C1 u E) as B. rewrite Ets in B. unfold in_bound in B. cbn in B. lia. }
       constructor; cbn [shr thr].
       - intros u. rewrite get_set_eq. rewrite get_set. destruct (Nat.eqb_spec 0 u) as [<-|Hne].
         + intros E. apply RC in E. discriminate E.
         + intros E. apply B in E. destruct (tstep_tmo _ _ _ _ _ _ _ _ _ _ _ _ Ht) as [(a' & ->)| ->]; [unfold in_bound; cbn; lia | now apply incl_ops].
       - intros k'. rewrite get_set_eq. intros E. destruct (tstep_tmo _ _ _ _ _ _ _ _ _ _ _ _ Ht) as [(a' & X)|X]; rewrite X in E; [discriminate|].
         exfalso. eapply main_ops_not_M1; eauto. }
  (* workers and clients *)
  all: assert (T0 : t <> 0) by (intros ->; pose proof (r_main0 _ _ HR) as X; rewrite Ets in X; discriminate X).
  all: constructor; cbn [shr thr]; rewrite (get_set_neq t _ 0) by auto; auto.
  all: intros u; rewrite get_set; destruct (Nat.eqb_spec t u) as [<-|Hne]; [|apply C1].
  all: intros E; apply RC in E; try discriminate E; apply C1; rewrite Ets; exact E.
Qed.

Lemma cinv_reachable cfg fx sp s : 1 <= nworkers cfg -> reachable_gen cfg fx sp s -> CInv cfg s.
Proof.
  intros HW. induction 1 as [|s te s' R IH H|s te s' R IH H]; [apply cinv_init| |].
  - eapply cinv_step; eauto. eapply rinv_reachable; eauto.
  - destruct te as [t e]. destruct (xstep_inv _ _ _ _ H) as (Et & _). destruct IH as [C1 C2]. constructor; rewrite Et; auto.
Qed.
Local Transparent set.

(** * The invariant for loop_until_terminate *)
Lemma lt2_ltw ts : lt2 ts = true -> ltw ts = true.
Proof. unfold lt2, ltw. destruct (cur_api ts) as [[]|]; cbn; congruence. Qed.
Lemma waits_lt_ltw ts : waits_lt ts = true -> ltw ts = true.
Proof. unfold waits_lt, ltw. destruct (cur_api ts) as [[]|]; cbn; congruence. Qed.
Lemma lt2_hold ts : lt2 ts = true -> hold ts = true.
Proof. unfold lt2. destruct ts; cbn; try discriminate; match goal with a : api |- _ => destruct a; cbn; congruence end. Qed.
Lemma waits_lt_slp ts : waits_lt ts = true -> slp ts = Some CF.
Proof. unfold waits_lt. destruct ts; cbn; try discriminate; match goal with a : api |- _ => destruct a; cbn; congruence end. Qed.

Definition LTInv (s : state) : Prop :=
  (exists u, (waits_lt (get (thr s) u) = true /\ In u (wsF (shr s))) \/ lt2 (get (thr s) u) = true) ->
  term (shr s) = false \/ busy (shr s) <> 0 \/ (exists w, pendT (get (thr s) w) = true) \/ (exists w, mterm (get (thr s) w) = true).

Lemma ltinv_init cfg : LTInv (init cfg).
Proof. intros _. now left. Qed.

Lemma ltinv_tstep cfg sp fin t s e sh' ts' spw :
  Inv s -> LTInv s -> tstep cfg true sp fin t (shr s) (get (thr s) t) e = Some (sh', ts', spw) ->
  LTInv {| shr := sh'; thr := set (thr s) t ts' |}.
Proof.
  intros HI L2 H. pose proof (i_mutex _ HI) as I1.
  set (ts := get (thr s) t) in *.
  assert (G : forall u, u <> t -> get (set (thr s) t ts') u = get (thr s) u) by (intros; apply get_set_neq; congruence).
  assert (Gt : get (set (thr s) t ts') t = ts') by apply get_set_eq.
  assert (HO : forall u, u <> t -> hold (get (thr s) u) = true -> hold ts = false /\ owner (shr s) <> None).
  { intros u Hne Hu. rewrite I1 in Hu. apply owned_true in Hu. split; [|congruence].
    unfold ts. rewrite I1, (owned_some _ _ _ Hu). apply Nat.eqb_neq. congruence. }
  unfold LTInv. cbn [shr thr].
  intros (u & Hu).
  pose proof (ws_eff_sub _ _ _ _ _ _ (tstep_ws _ _ _ _ _ _ _ _ _ _ _ H)) as SUB.
  assert (D : (term sh' = false \/ busy sh' <> 0) \/
              (exists u0, (waits_lt (get (thr s) u0) = true /\ In u0 (wsF (shr s))) \/ lt2 (get (thr s) u0) = true)).
  { destruct (Nat.eq_dec u t) as [->|Hne].
    - rewrite Gt in Hu. assert (L : ltw ts' = true) by (destruct Hu as [(Hu & _)|Hu]; [now apply waits_lt_ltw | now apply lt2_ltw]).
      destruct (tstep_lt_new _ _ _ _ _ _ _ _ _ _ _ H L) as [Q|Q]; [right; exists t; now right | left; tauto].
    - rewrite G in Hu by auto. right. exists u. destruct Hu as [(Hu1 & Hu2)|Hu]; [left; split; auto | now right].
      apply (SUB CF u Hne Hu2). }
  destruct D as [D|D]; [tauto|].
  assert (KEEP : (term (shr s) = false \/ busy (shr s) <> 0 \/ pendT ts = true \/ mterm ts = true) ->
                 term sh' = false \/ busy sh' <> 0 \/ (exists w, pendT (get (set (thr s) t ts') w) = true) \/
                 (exists w, mterm (get (set (thr s) t ts') w) = true)).
  { intros P'. destruct (tstep_lt_keep _ _ _ _ _ _ _ _ _ _ H P') as [[Q|[Q|[Q|Q]]]|(Q1 & Q2 & Q3)]; auto.
    - right; right; left. exists t. now rewrite Gt.
    - right; right; right. exists t. now rewrite Gt.
    - exfalso. destruct (Nat.eq_dec u t) as [->|Hne].
      + rewrite Gt in Hu. destruct Hu as [(Hu & _)|Hu]; [apply waits_lt_ltw in Hu | apply lt2_ltw in Hu]; congruence.
      + rewrite G in Hu by auto. destruct Hu as [(_ & Hu)|Hu]; [rewrite Q1 in Hu; destruct Hu|].
        destruct (HO u Hne (lt2_hold _ Hu)) as (X & _). congruence. }
  destruct (L2 D) as [P|[P|[(w & P)|(w & P)]]].
  - apply KEEP; auto.
  - apply KEEP; auto.
  - destruct (Nat.eq_dec w t) as [->|Hne]; [apply KEEP; auto | right; right; left; exists w; now rewrite G].
  - destruct (Nat.eq_dec w t) as [->|Hne]; [apply KEEP; auto | right; right; right; exists w; now rewrite G].
Qed.

Lemma tstep_spawn_lt cfg fx sp fin t s ts e s' ts' u tsu :
  tstep cfg fx sp fin t s ts e = Some (s', ts', Some (u, tsu)) -> ltw tsu = false /\ pendT tsu = false /\ mterm tsu = false.
Proof.
  intros H.
  destruct ts as [| |p|tk j|tk j|tk j a r|tk j|a r| |p|a r]; cbn [tstep] in H; try discriminate;
    try (destruct p); try solve [inv_some H].
  all: try (match type of H with context [api_step ?a ?b ?c ?d ?e ?f] => destruct (api_step a b c d e f) as [[? [?|]]|]; discriminate end).
  all: inv_some H; repeat split; try reflexivity.
  all: match goal with |- _ (client_next ?r) = _ => destruct r as [|[] ?]; reflexivity end.
Qed.

Lemma ltinv_spawn sh l u v : LTInv {| shr := sh; thr := l |} -> get l u = TNone ->
  ltw v = false -> pendT v = false -> mterm v = false -> LTInv {| shr := sh; thr := set l u v |}.
Proof.
  unfold LTInv. cbn [shr thr]. intros L2 Hu V1 V2 V3 (w & Hw). rewrite get_set in Hw. destruct (Nat.eqb_spec u w) as [->|Hne].
  - exfalso. destruct Hw as [(Hw & _)|Hw]; [apply waits_lt_ltw in Hw | apply lt2_ltw in Hw]; congruence.
  - destruct (L2 (ex_intro _ w Hw)) as [P|[P|[(x & P)|(x & P)]]]; auto.
    + right; right; left. exists x. rewrite get_set. destruct (Nat.eqb_spec u x) as [->|]; auto. rewrite Hu in P. discriminate.
    + right; right; right. exists x. rewrite get_set. destruct (Nat.eqb_spec u x) as [->|]; auto. rewrite Hu in P. discriminate.
Qed.

Lemma ltinv_step cfg sp s te s' : Inv s -> LTInv s -> lstep cfg sp s te = Some s' -> LTInv s'.
Proof.
  intros HI HL H. destruct te as [t e]. unfold lstep, lstep_gen in H.
  destruct (tstep cfg true sp (fun u => is_fin (get (thr s) u)) t (shr s) (get (thr s) t) e) as [[[sh' ts'] spw]|] eqn:Ht; [|discriminate].
  pose proof (ltinv_tstep _ _ _ _ _ _ _ _ _ HI HL Ht) as HL'.
  destruct spw as [[u tsu]|].
  - destruct (is_none (get (thr s) u)) eqn:Hn; [|discriminate]. inversion H; subst; clear H.
    destruct (tstep_spawn_lt _ _ _ _ _ _ _ _ _ _ _ _ Ht) as (V1 & V2 & V3).
    apply ltinv_spawn; auto.
    assert (Hu : get (thr s) u = TNone) by (destruct (get (thr s) u); try discriminate; reflexivity).
    rewrite get_set. destruct (Nat.eqb_spec t u) as [->|]; [|exact Hu].
    exfalso. apply (tstep_not_none _ _ _ _ _ _ _ _ _ Ht). exact Hu.
  - inversion H; subst. exact HL'.
Qed.

Lemma ltinv_reachable cfg sp s : reachable cfg sp s -> LTInv s.
Proof.
  induction 1 as [|s te s' R IH H|s te s' R IH H]; [apply ltinv_init| |].
  - eapply ltinv_step; eauto. eapply inv_reachable; eauto.
  - pose proof (xstep_ws_sub _ _ _ H CF) as SUB. destruct te as [t e]. cbn [ws] in SUB.
    destruct (xstep_inv _ _ _ _ H) as (Et & _ & (_ & B & _ & _ & T & _) & _).
    unfold LTInv in *. rewrite Et, B, T. intros (u & Hu). apply IH. exists u. destruct Hu as [(A1 & A2)|A]; auto.
Qed.

(** * The theorem *)
Lemma pendT_enabled cfg sp s w :
  Inv s -> pendT (get (thr s) w) = true -> owner (shr s) = None -> exists e s', lstep_gen cfg true sp s (w, e) = Some s'.
Proof.
  intros HI Hp Ho. unfold pendT in Hp. apply orb_true_iff in Hp. destruct Hp as [Hp|Hp]; [eapply pendF_enabled; eauto|].
  exfalso. assert (Hh : hold (get (thr s) w) = true).
  { destruct (get (thr s) w) as [| |?| | |? ? a ?| |a ?| |?|a ?]; cbn in Hp; try discriminate Hp; destruct a; try discriminate Hp; reflexivity. }
  rewrite (free_not_hold _ _ HI Ho) in Hh. discriminate.
Qed.

(** No quiescent state has a thread blocked in loop_until_terminate whose predicate holds. *)
Theorem no_lost_wakeup_lt cfg s u :
  1 <= nworkers cfg -> reachable cfg false s -> quiescent cfg true false s ->
  waits_lt (get (thr s) u) = true -> lt_pred (shr s) = false.
Proof.
  intros HWk R Q Hu. destruct (lt_pred (shr s)) eqn:P; [exfalso|reflexivity].
  unfold lt_pred in P. apply andb_true_iff in P. destruct P as (P1 & P2). apply Nat.eqb_eq in P2.
  pose proof (inv_reachable _ _ _ _ R) as HI. pose proof (ltinv_reachable _ _ _ R) as HL. pose proof (winv_reachable _ _ _ _ R) as HW.
  pose proof (rinv_reachable _ _ _ _ HWk R) as HR. pose proof (cinv_reachable _ _ _ _ HWk R) as HC.
  pose proof (jinv_reachable _ _ _ _ R) as HJ.
  pose proof (quiescent_free _ _ _ R Q) as Ho.
  destruct (w_slp _ HW CF u (waits_lt_slp _ Hu)) as [Hin|Hin].
  - destruct HL as [X|[X|[(w & X)|(w & X)]]]; try congruence.
    + exists u. left. split; assumption.
    + destruct (pendT_enabled cfg false s w HI X Ho) as (e & s' & E). rewrite (Q w e) in E. discriminate.
    + (* the main thread is in the destructor: then no client is alive and the main thread is not waiting *)
      assert (w = 0). { apply (r_mainu _ _ HR). destruct (get (thr s) w) as [| |?| | | | | | |p|]; try discriminate X. reflexivity. }
      subst w.
      assert (RU : role_of (get (thr s) u) = RClient \/ role_of (get (thr s) u) = RMain \/ role_of (get (thr s) u) = RWorker).
      { destruct (get (thr s) u); cbn in Hu; try discriminate Hu; cbn; auto. }
      destruct RU as [RU|[RU|RU]].
      * pose proof (c_bound _ _ HC u RU) as B. unfold in_bound in B.
        destruct (get (thr s) 0) as [| |?| | | | | | |p|]; try discriminate X. destruct p; try discriminate X; cbn in B; lia.
      * apply (r_mainu _ _ HR) in RU. subst u. destruct (get (thr s) 0) as [| |?| | | | | | |p|]; try discriminate X. discriminate Hu.
      * pose proof (j_ok _ HJ u) as JK. destruct (get (thr s) u) as [| |?| | |? ? a ?| | | | |]; try discriminate RU; try discriminate Hu.
        cbn in Hu, JK. destruct a; try discriminate Hu; discriminate JK.
  - destruct (waiter_enabled cfg true false s u CF (waits_lt_slp _ Hu) Hin Ho) as (s' & E). rewrite (Q u _) in E. discriminate.
Qed.

(** * Quiescent states: no job is running; an un-terminated pool has an empty queue and no thread is left
      in loop_until_empty *)
Lemma busyr_is_worker ts : busyr ts = true -> is_worker ts = true.
Proof. destruct ts as [| |p| | | | | | |p|]; cbn; try discriminate; auto. Qed.
Lemma busyr_not_w5 ts : busyr ts = true -> ts <> TW W5.
Proof. intros H ->. discriminate H. Qed.

Lemma cnt_ex P l : cnt P l <> 0 -> exists u, P (get l u) = true.
Proof.
  unfold cnt. intros H. destruct (filter P l) as [|x r] eqn:F; [cbn in H; congruence|].
  assert (Hx : In x (filter P l)) by (rewrite F; now left). apply filter_In in Hx. destruct Hx as (Hx & Px).
  destruct (In_nth _ _ TNone Hx) as (u & _ & Eu). exists u. unfold get. now rewrite Eu.
Qed.

Theorem quiescent_no_running_job cfg s :
  reachable cfg false s -> quiescent cfg true false s -> no_blocked_job s -> busy (shr s) = 0.
Proof.
  intros R Q NB. pose proof (inv_reachable _ _ _ _ R) as HI. pose proof (winv_reachable _ _ _ _ R) as HW.
  pose proof (quiescent_free _ _ _ R Q) as Ho.
  destruct (Nat.eq_dec (busy (shr s)) 0) as [|Hne]; auto. exfalso.
  rewrite (i_busy _ HI) in Hne. destruct (cnt_ex _ _ Hne) as (u & Hu).
  assert (Hn : ~ In u (wsJ (shr s))).
  { intros Hin. destruct (w_in _ HW CJ u Hin) as (A & _). apply slp_CJ_w5 in A. now apply (busyr_not_w5 _ Hu). }
  destruct (worker_enabled cfg s u R Ho (busyr_is_worker _ Hu) Hn (NB u)) as (e & s' & E).
  unfold lstep in E. rewrite (Q u e) in E. discriminate.
Qed.

Theorem quiescent_unterminated cfg s :
  1 <= nworkers cfg -> reachable cfg false s -> quiescent cfg true false s -> no_blocked_job s -> term (shr s) = false ->
  queue (shr s) = [] /\ busy (shr s) = 0 /\ forall u, waits_le (get (thr s) u) = false.
Proof.
  intros HWk R Q NB T.
  pose proof (inv_reachable _ _ _ _ R) as HI. pose proof (winv_reachable _ _ _ _ R) as HW. pose proof (jinv_reachable _ _ _ _ R) as HJ.
  pose proof (rinv_reachable _ _ _ _ HWk R) as HR.
  pose proof (quiescent_free _ _ _ R Q) as Ho.
  pose proof (quiescent_no_running_job _ _ R Q NB) as B.
  assert (NH : forall w, hold (get (thr s) w) = true -> False).
  { intros w Hh. rewrite (free_not_hold _ _ HI Ho) in Hh. discriminate. }
  assert (WE : forall w, is_worker (get (thr s) w) = true -> ~ In w (wsJ (shr s)) -> False).
  { intros w A Hn. destruct (worker_enabled cfg s w R Ho A Hn (NB w)) as (e & s' & E). unfold lstep in E. rewrite (Q w e) in E. discriminate. }
  assert (QE : queue (shr s) = []).
  { destruct (queue (shr s)) as [|q0 qr] eqn:Eq; auto. exfalso.
    assert (Qne : queue (shr s) <> []) by (rewrite Eq; discriminate).
    destruct (j_queue _ HJ Qne T) as [(w & P)|[(w & P1 & P2)|P]].
    - apply (NH w). now apply enq1_hold.
    - apply (WE w); auto. now apply actw_is_worker.
    - destruct (r_wf _ _ HR 1) as [[A|A]|(k & A & A')]; [lia| | |].
      + apply (WE 1); [now apply role_worker_is_worker | rewrite P; intros []].
      + rewrite (r_wfin _ _ HR 1) in T; [discriminate | lia | exact A].
      + assert (k = 0) by lia. subst k. destruct (r_ctor _ _ HR 0 A) as (_ & N).
        assert (E : lstep_gen cfg true false s (0, ESpawn 1) <> None).
        { unfold lstep_gen. rewrite A. cbn [tstep]. rewrite Nat.eqb_refl. rewrite (N 1) by lia. cbn. discriminate. }
        apply E. apply Q. }
  repeat split; auto.
  intros u. destruct (waits_le (get (thr s) u)) eqn:Hu; auto.
  pose proof (no_lost_wakeup_le _ _ _ R Q Hu) as X. unfold le_pred, qempty in X. rewrite QE, B in X. discriminate.
Qed.
