(** C10 -- liveness (no lost wake-up) for the REPAIRED code, in the semantics without spurious wake-ups:
    invariants "whenever a waiter's predicate may have become true, somebody is still going to notify",
    enabledness lemmas, and the analysis of quiescent states. *)
From Coq Require Import List Arith Bool Lia Permutation.
From TLXV Require Import C10.Pool C10.PoolLemmas C10.PoolSafety C10.PoolWait C10.PoolCands.
Import ListNotations.

(** * More abstractions *)
(** has decremented busy_, will notify_all(cv_finished_) *)
Definition pendF (ts : tstate) : bool := match ts with TW WD2 | TW WD3 => true | _ => false end.
Definition alew (a : api) : bool := match a with QLE2 | QLE3 => true | _ => false end.
Definition lew (ts : tstate) : bool := match cur_api ts with Some a => alew a | None => false end.
Definition le2 (ts : tstate) : bool := match cur_api ts with Some QLE2 => true | _ => false end.
Definition w10 (ts : tstate) : bool := match ts with TW W10 => true | _ => false end.

Lemma lew_job_next tk j r : lew (job_next tk j r) = false.
Proof. destruct r as [|[] r]; reflexivity. Qed.
Lemma lew_client_next r : lew (client_next r) = false.
Proof. destruct r as [|[] r]; reflexivity. Qed.
Lemma lew_main_joinw cfg k : lew (main_joinw cfg k) = false.
Proof. unfold main_joinw. destruct (Nat.ltb k (nworkers cfg)); reflexivity. Qed.
Lemma lew_main_joinc cfg k : lew (main_joinc cfg k) = false.
Proof. unfold main_joinc. destruct (Nat.ltb k (length (clients cfg))); reflexivity. Qed.
Lemma lew_main_ops cfg r : lew (main_ops cfg r) = false.
Proof. destruct r as [|[] r]; cbn; try apply lew_main_joinc; reflexivity. Qed.
Lemma lew_main_spawnc cfg k : lew (main_spawnc cfg k) = false.
Proof. unfold main_spawnc. destruct (Nat.ltb k (length (clients cfg))); [reflexivity | apply lew_main_ops]. Qed.
Lemma lew_main_ctor cfg k : lew (main_ctor cfg k) = false.
Proof. unfold main_ctor. destruct (Nat.ltb k (nworkers cfg)); [reflexivity | apply lew_main_spawnc]. Qed.

Lemma pendF_job_next tk j r : pendF (job_next tk j r) = false.
Proof. destruct r as [|[] r]; reflexivity. Qed.
Lemma pendF_client_next r : pendF (client_next r) = false.
Proof. destruct r as [|[] r]; reflexivity. Qed.
Lemma pendF_main_ops cfg r : pendF (main_ops cfg r) = false.
Proof. destruct r as [|[] r]; cbn; try reflexivity. unfold main_joinc. destruct (Nat.ltb 0 (length (clients cfg))); reflexivity. Qed.

(** * loop_until_empty: local facts *)
Lemma api_le_keep fx sp t s a e s' oa :
  api_step fx sp t s a e = Some (s', oa) ->
  (queue s <> [] \/ busy s <> 0) -> (queue s' <> [] \/ busy s' <> 0).
Proof.
  intros H P. destruct (api_counts _ _ _ _ _ _ _ _ H) as (-> & _ & _ & _ & _ & [(-> & _)|(j & -> & _)]); auto.
  left. destruct (queue s); discriminate.
Qed.

Lemma api_le_new fx sp t s a e s' a' :
  api_step fx sp t s a e = Some (s', Some a') -> alew a' = true ->
  a = QLE2 \/ queue s' <> [] \/ busy s' <> 0.
Proof.
  intros H L. unfold api_step in H. unfold_ops H.
  destruct a; inv_some H; try discriminate L; cbn; beq; subst; auto.
  right; left. now apply qempty_false.
Qed.

Section LocalLive.
  Variables (cfg : config) (sp : bool) (fin : nat -> bool) (t : nat).

  Ltac api_ctx H :=
    match type of H with
    | context [api_step ?a ?b ?c ?d ?e ?f] => destruct (api_step a b c d e f) as [[? [?|]]|] eqn:Hapi; inversion H; subst; clear H
    end.

  (** repaired code only: the thread that made the predicate true (or found it true) keeps the obligation
      to notify until it has executed notify_all, which empties the wait set *)
  Lemma tstep_le_keep s ts e s' ts' spw :
    tstep cfg true sp fin t s ts e = Some (s', ts', spw) ->
    (queue s <> [] \/ busy s <> 0 \/ pendF ts = true) ->
    (queue s' <> [] \/ busy s' <> 0 \/ pendF ts' = true) \/ (wsF s' = [] /\ hold ts = true /\ lew ts' = false).
  Proof.
    intros H P.
    destruct ts as [| |p|tk j|tk j|tk j a r|tk j|a r| |p|a r]; cbn [tstep] in H; try discriminate.
    - unfold_ops H. destruct p; inv_some H; cbn in *; beq; subst;
        try (left; destruct P as [P|[P|P]]; [auto | auto | discriminate P]; fail);
        try (left; right; right; reflexivity);
        try (left; right; left; lia);
        try (right; repeat split; reflexivity).
      all: left; destruct P as [P|[P|P]]; try discriminate P; auto; right; left; lia.
    - unfold_ops H. inv_some H. cbn in *. left. destruct P as [P|[P|P]]; [auto | auto | discriminate P].
    - inv_some H. left. destruct P as [P|[P|P]]; [auto | auto | discriminate P].
    - api_ctx H; left; destruct P as [P|[P|P]]; try discriminate P;
        destruct (api_le_keep _ _ _ _ _ _ _ _ Hapi) as [Q|Q]; auto.
    - inv_some H. cbn in *. left. destruct P as [P|[P|P]]; [auto | auto | discriminate P].
    - api_ctx H; left; destruct P as [P|[P|P]]; try discriminate P;
        destruct (api_le_keep _ _ _ _ _ _ _ _ Hapi) as [Q|Q]; auto.
    - inv_some H. left. destruct P as [P|[P|P]]; [auto | auto | discriminate P].
    - unfold_ops H. destruct p; inv_some H; cbn in *; left; destruct P as [P|[P|P]]; try discriminate P; auto.
    - api_ctx H; left; destruct P as [P|[P|P]]; try discriminate P;
        destruct (api_le_keep _ _ _ _ _ _ _ _ Hapi) as [Q|Q]; auto.
  Qed.

  Lemma tstep_le_new fx s ts e s' ts' spw :
    tstep cfg fx sp fin t s ts e = Some (s', ts', spw) -> lew ts' = true ->
    le2 ts = true \/ queue s' <> [] \/ busy s' <> 0.
  Proof.
    intros H L.
    destruct ts as [| |p|tk j|tk j|tk j a r|tk j|a r| |p|a r]; cbn [tstep] in H; try discriminate.
    - destruct p; inv_some H; discriminate L.
    - inv_some H; discriminate L.
    - inv_some H. rewrite lew_job_next in L. discriminate.
    - api_ctx H.
      + destruct (api_le_new _ _ _ _ _ _ _ _ Hapi L) as [->|Q]; auto.
      + rewrite lew_job_next in L. discriminate.
    - inv_some H; discriminate L.
    - api_ctx H.
      + destruct (api_le_new _ _ _ _ _ _ _ _ Hapi L) as [->|Q]; auto.
      + rewrite lew_client_next in L. discriminate.
    - inv_some H; discriminate L.
    - destruct p; inv_some H;
        rewrite ?lew_main_ctor, ?lew_main_spawnc, ?lew_main_joinc, ?lew_main_joinw in L; discriminate L.
    - api_ctx H.
      + destruct (api_le_new _ _ _ _ _ _ _ _ Hapi L) as [->|Q]; auto.
      + rewrite lew_main_ops in L. discriminate.
  Qed.

  (** the pop happens only from a state with a non-empty queue seen under the lock *)
  Lemma tstep_w10 fx s ts e s' ts' spw :
    tstep cfg fx sp fin t s ts e = Some (s', ts', spw) -> w10 ts' = true -> queue s' <> [].
  Proof.
    intros H L.
    destruct ts as [| |p|tk j|tk j|tk j a r|tk j|a r| |p|a r]; cbn [tstep] in H; try discriminate.
    - unfold_ops H. destruct p; inv_some H; try discriminate L; cbn.
      match goal with H : qempty _ = false |- _ => apply qempty_false in H; exact H end.
    - inv_some H; discriminate L.
    - inv_some H. destruct (jobprog cfg j) as [|[] ?]; discriminate L.
    - api_ctx H; [discriminate L | destruct r as [|[] ?]; discriminate L].
    - inv_some H; discriminate L.
    - api_ctx H; [discriminate L | destruct r as [|[] ?]; discriminate L].
    - inv_some H; discriminate L.
    - destruct p; inv_some H; try discriminate L;
        unfold main_ctor, main_spawnc, main_ops, main_joinc, main_joinw in L;
        repeat match type of L with context [if ?b then _ else _] => destruct b end;
        try discriminate L; destruct (mainops cfg) as [|[] ?]; try discriminate L;
        repeat match type of L with context [if ?b then _ else _] => destruct b end; discriminate L.
    - api_ctx H; [discriminate L|]. destruct r as [|[] ?]; try discriminate L. cbn in L.
      unfold main_joinc in L. destruct (Nat.ltb 0 (length (clients cfg))); discriminate L.
  Qed.
End LocalLive.

(** * Enabledness *)

Lemma lstep_of_tstep cfg fx sp s t e s' ts' :
  tstep cfg fx sp (fun u => is_fin (get (thr s) u)) t (shr s) (get (thr s) t) e = Some (s', ts', None) ->
  lstep_gen cfg fx sp s (t, e) = Some {| shr := s'; thr := set (thr s) t ts' |}.
Proof. intros H. unfold lstep_gen. now rewrite H. Qed.

Ltac goal_ops := unfold do_lock, do_unlock, do_wb, do_we, do_n1, do_na, free, owned.
Ltac try_ev Ho ev := solve [exists ev; cbn; goal_ops; cbn; rewrite ?Ho, ?Nat.eqb_refl; cbn; rewrite ?Nat.eqb_refl; cbn; eauto].

Lemma api_holder sp t s a :
  ahold a = true -> owner s = Some t -> exists e s' oa, api_step true sp t s a e = Some (s', oa).
Proof.
  intros Hh Ho. destruct a; try discriminate Hh.
  - destruct (wsJ s) as [|u l] eqn:E.
    + exists (EN1 CJ None). cbn. unfold do_n1. cbn. rewrite E. eauto.
    + exists (EN1 CJ (Some u)). cbn. unfold do_n1. cbn. rewrite E. cbn. rewrite Nat.eqb_refl. cbn. eauto.
  - try_ev Ho EUnlock.
  - try_ev Ho (EAS ATerm 1).
  - try_ev Ho (ENA CJ).
  - try_ev Ho (ENA CF).
  - try_ev Ho EUnlock.
  - destruct (qempty s) eqn:Q.
    + exists (EAL ABusy (busy s)). cbn. rewrite Q, Nat.eqb_refl. cbn. eauto.
    + exists (EWB CF). cbn. rewrite Q. goal_ops. rewrite Ho, Nat.eqb_refl. eauto.
  - try_ev Ho (EWB CF).
  - exists (EUnlockR (length (ended s))). cbn. rewrite Nat.eqb_refl. goal_ops. rewrite Ho, Nat.eqb_refl. eauto.
  - try_ev Ho (EAL ATerm (b2n (term s))).
  - try_ev Ho (EAL ABusy (busy s)).
  - try_ev Ho (EWB CF).
  - try_ev Ho EUnlock.
Qed.

Lemma tstep_holder cfg sp fin t s ts :
  hold ts = true -> owner s = Some t -> (ts = TW W6 -> 1 <= idle s) -> (ts = TW W10 -> queue s <> []) ->
  exists e s' ts', tstep cfg true sp fin t s ts e = Some (s', ts', None).
Proof.
  intros Hh Ho Hi Hq.
  destruct ts as [| |p|tk j|tk j|tk j a r|tk j|a r| |p|a r]; try discriminate Hh.
  - destruct p; try discriminate Hh.
    + try_ev Ho (EAL ATerm (b2n (term s))).
    + try_ev Ho (EAR AIdle (idle s) (S (idle s))).
    + try_ev Ho (EAL ATerm (b2n (term s))).
    + try_ev Ho (EWB CJ).
    + assert (E : Nat.leb 1 (idle s) = true) by (apply Nat.leb_le; auto).
      exists (EAR AIdle (idle s) (idle s - 1)). cbn [tstep]. rewrite !Nat.eqb_refl, E. cbn. eauto.
    + try_ev Ho (EAL ATerm (b2n (term s))).
    + try_ev Ho EUnlock.
    + exists (EAR ABusy (busy s) (S (busy s))). cbn [tstep]. rewrite !Nat.eqb_refl. cbn [andb].
      destruct (queue s) as [|[tk j] q] eqn:E; [exfalso; now apply Hq|]. eauto.
    + try_ev Ho (ENA CF).
  - try_ev Ho EUnlock.
  - destruct (api_holder sp t s a Hh Ho) as (e & s' & [a'|] & E); exists e; cbn [tstep]; rewrite E; eauto.
  - destruct (api_holder sp t s a Hh Ho) as (e & s' & [a'|] & E); exists e; cbn [tstep]; rewrite E; eauto.
  - destruct p; try discriminate Hh.
    + try_ev Ho (EAS ATerm 1).
    + try_ev Ho (ENA CJ).
    + try_ev Ho EUnlock.
  - destruct (api_holder sp t s a Hh Ho) as (e & s' & [a'|] & E); exists e; cbn [tstep]; rewrite E; eauto.
Qed.

(** * Invariants of the repaired code *)
Lemma le2_lew ts : le2 ts = true -> lew ts = true.
Proof. unfold le2, lew. destruct (cur_api ts) as [[]|]; cbn; congruence. Qed.
Lemma waits_le_lew ts : waits_le ts = true -> lew ts = true.
Proof. unfold waits_le, lew. destruct (cur_api ts) as [[]|]; cbn; congruence. Qed.
Lemma le2_hold ts : le2 ts = true -> hold ts = true.
Proof. unfold le2. destruct ts; cbn; try discriminate; match goal with a : api |- _ => destruct a; cbn; congruence end. Qed.
Lemma w10_hold ts : w10 ts = true -> hold ts = true.
Proof. destruct ts as [| |p| | | | | | |p|]; cbn; try discriminate; destruct p; cbn; congruence. Qed.
Lemma waits_le_slp ts : waits_le ts = true -> slp ts = Some CF.
Proof. unfold waits_le. destruct ts; cbn; try discriminate; match goal with a : api |- _ => destruct a; cbn; congruence end. Qed.

Lemma ws_eff_sub sp t s s' sl sl' : ws_eff sp t s s' sl sl' -> forall c u, u <> t -> In u (ws c s') -> In u (ws c s).
Proof.
  intros [E1 E2 E3 E4 E5|c E1 E2 E3 E4 E5 E6|c E1 E2 E3 E4 E5 E6 E7|c Esp E1 E2 E3 E4 E5 E6|c v E1 E2 E3 E4 E5 E6|c E1 E2 E3 E4 E5] c0 u Hne Hu.
  - destruct c0; cbn [ws] in *; congruence.
  - destruct (cv_cases c c0) as [->| ->]; [|congruence]. rewrite E3 in Hu. apply in_app_or in Hu. destruct Hu as [|[|[]]]; congruence.
  - destruct c0; cbn [ws] in *; congruence.
  - destruct (cv_cases c c0) as [->| ->]; [|congruence]. rewrite E4 in Hu. apply In_rem in Hu. tauto.
  - destruct (cv_cases c c0) as [->| ->]; [|congruence]. rewrite E4 in Hu. apply In_rem in Hu. tauto.
  - destruct (cv_cases c c0) as [->| ->]; [|congruence]. rewrite E3 in Hu. destruct Hu.
Qed.

Record LInv (s : state) : Prop := {
  l_w10 : forall u, w10 (get (thr s) u) = true -> queue (shr s) <> [];
  l_le : (exists u, (waits_le (get (thr s) u) = true /\ In u (wsF (shr s))) \/ le2 (get (thr s) u) = true) ->
         queue (shr s) <> [] \/ busy (shr s) <> 0 \/ exists w, pendF (get (thr s) w) = true
}.

Lemma linv_init cfg : LInv (init cfg).
Proof.
  constructor; cbn [init shr thr].
  - intros [|u] H; cbn in H; [|destruct u; discriminate H].
    exfalso. unfold main_ctor, main_spawnc, main_ops, main_joinc in H.
    repeat match type of H with context [if ?b then _ else _] => destruct b end; try discriminate H;
      destruct (mainops cfg) as [|[] ?]; try discriminate H;
      repeat match type of H with context [if ?b then _ else _] => destruct b end; discriminate H.
  - intros (u & [(_ & [])|H]). destruct u as [|u]; cbn in H; [|destruct u; discriminate H].
    apply le2_lew in H. rewrite lew_main_ctor in H. discriminate.
Qed.

Lemma linv_tstep cfg sp fin t s e sh' ts' spw :
  Inv s -> LInv s -> tstep cfg true sp fin t (shr s) (get (thr s) t) e = Some (sh', ts', spw) ->
  LInv {| shr := sh'; thr := set (thr s) t ts' |}.
Proof.
  intros HI [L1 L2] H. pose proof (i_mutex _ HI) as I1.
  set (ts := get (thr s) t) in *.
  assert (G : forall u, u <> t -> get (set (thr s) t ts') u = get (thr s) u) by (intros; apply get_set_neq; congruence).
  assert (Gt : get (set (thr s) t ts') t = ts') by apply get_set_eq.
  assert (HO : forall u, u <> t -> hold (get (thr s) u) = true -> hold ts = false /\ owner (shr s) <> None).
  { intros u Hne Hu. rewrite I1 in Hu. apply owned_true in Hu. split; [|congruence].
    unfold ts. rewrite I1, (owned_some _ _ _ Hu). apply Nat.eqb_neq. congruence. }
  constructor; cbn [shr thr].
  - intros u. destruct (Nat.eq_dec u t) as [->|Hne].
    + rewrite Gt. intros L. eapply tstep_w10; eauto.
    + rewrite G by auto. intros L. destruct (HO u Hne (w10_hold _ L)) as (Hh & Ho).
      destruct (tstep_stable _ _ _ _ _ _ _ _ _ _ _ H Hh Ho) as (-> & _). now apply (L1 u).
  - intros (u & Hu).
    pose proof (ws_eff_sub _ _ _ _ _ _ (tstep_ws _ _ _ _ _ _ _ _ _ _ _ H)) as SUB.
    (* either the shared part holds in the new state, or the premise held before *)
    assert (D : (queue sh' <> [] \/ busy sh' <> 0) \/
                (exists u0, (waits_le (get (thr s) u0) = true /\ In u0 (wsF (shr s))) \/ le2 (get (thr s) u0) = true)).
    { destruct (Nat.eq_dec u t) as [->|Hne].
      - rewrite Gt in Hu. assert (L : lew ts' = true) by (destruct Hu as [(Hu & _)|Hu]; [now apply waits_le_lew | now apply le2_lew]).
        destruct (tstep_le_new _ _ _ _ _ _ _ _ _ _ _ H L) as [Q|Q]; [right; exists t; now right | left; tauto].
      - rewrite G in Hu by auto. right. exists u. destruct Hu as [(Hu1 & Hu2)|Hu]; [left; split; auto | now right].
        apply (SUB CF u Hne Hu2). }
    destruct D as [D|D]; [tauto|].
    destruct (L2 D) as [P|[P|(w & P)]].
    3: destruct (Nat.eq_dec w t) as [->|Hne]; [|right; right; exists w; now rewrite G].
    all: assert (P' : queue (shr s) <> [] \/ busy (shr s) <> 0 \/ pendF ts = true) by tauto;
      destruct (tstep_le_keep _ _ _ _ _ _ _ _ _ _ H P') as [[Q|[Q|Q]]|(Q1 & Q2 & Q3)]; auto;
      try (right; right; exists t; now rewrite Gt).
    all: exfalso; destruct (Nat.eq_dec u t) as [->|Hne];
      [ rewrite Gt in Hu; destruct Hu as [(Hu & _)|Hu]; [apply waits_le_lew in Hu | apply le2_lew in Hu]; congruence
      | rewrite G in Hu by auto; destruct Hu as [(_ & Hu)|Hu]; [rewrite Q1 in Hu; destruct Hu
        | destruct (HO u Hne (le2_hold _ Hu)) as (X & _); congruence ] ].
Qed.

Lemma tstep_spawn_live cfg fx sp fin t s ts e s' ts' u tsu :
  tstep cfg fx sp fin t s ts e = Some (s', ts', Some (u, tsu)) -> w10 tsu = false /\ lew tsu = false /\ pendF tsu = false.
Proof.
  intros H.
  destruct ts as [| |p|tk j|tk j|tk j a r|tk j|a r| |p|a r]; cbn [tstep] in H; try discriminate;
    try (destruct p); try solve [inv_some H].
  all: try (match type of H with context [api_step ?a ?b ?c ?d ?e ?f] => destruct (api_step a b c d e f) as [[? [?|]]|]; discriminate end).
  all: inv_some H; repeat split; try reflexivity; try apply lew_client_next; try apply pendF_client_next.
  all: match goal with |- w10 (client_next ?r) = false => destruct r as [|[] ?]; reflexivity end.
Qed.

Lemma linv_spawn sh l u v : LInv {| shr := sh; thr := l |} -> get l u = TNone ->
  w10 v = false -> lew v = false -> pendF v = false -> LInv {| shr := sh; thr := set l u v |}.
Proof.
  intros [L1 L2] Hu V1 V2 V3. cbn [shr thr] in *. constructor; cbn [shr thr].
  - intros w. rewrite get_set. destruct (Nat.eqb_spec u w) as [->|]; [congruence | apply L1].
  - intros (w & Hw). rewrite get_set in Hw. destruct (Nat.eqb_spec u w) as [->|Hne].
    + exfalso. destruct Hw as [(Hw & _)|Hw]; [apply waits_le_lew in Hw | apply le2_lew in Hw]; congruence.
    + destruct (L2 (ex_intro _ w Hw)) as [P|[P|(x & P)]]; auto. right; right. exists x.
      rewrite get_set. destruct (Nat.eqb_spec u x) as [->|]; auto. rewrite Hu in P. discriminate.
Qed.

Lemma linv_step cfg sp s te s' : Inv s -> LInv s -> lstep cfg sp s te = Some s' -> LInv s'.
Proof.
  intros HI HL H. destruct te as [t e]. unfold lstep, lstep_gen in H.
  destruct (tstep cfg true sp (fun u => is_fin (get (thr s) u)) t (shr s) (get (thr s) t) e) as [[[sh' ts'] spw]|] eqn:Ht; [|discriminate].
  pose proof (linv_tstep _ _ _ _ _ _ _ _ _ HI HL Ht) as HL'.
  destruct spw as [[u tsu]|].
  - destruct (is_none (get (thr s) u)) eqn:Hn; [|discriminate]. inversion H; subst; clear H.
    destruct (tstep_spawn_live _ _ _ _ _ _ _ _ _ _ _ _ Ht) as (V1 & V2 & V3).
    apply linv_spawn; auto.
    assert (Hu : get (thr s) u = TNone) by (destruct (get (thr s) u); try discriminate; reflexivity).
    rewrite get_set. destruct (Nat.eqb_spec t u) as [->|]; [|exact Hu].
    exfalso. apply (tstep_not_none _ _ _ _ _ _ _ _ _ Ht). exact Hu.
  - inversion H; subst. exact HL'.
Qed.

Lemma linv_xstep s te s' : LInv s -> xstep s te = Some s' -> LInv s'.
Proof.
  intros [L1 L2] H. pose proof (xstep_ws_sub _ _ _ H CF) as SUB. destruct te as [t e].
  destruct (xstep_inv _ _ _ _ H) as (Et & _ & (Q & B & _) & _). cbn [ws] in SUB.
  constructor; rewrite Et, ?Q, ?B; auto.
  intros (u & Hu). apply L2. exists u. destruct Hu as [(A1 & A2)|A]; auto.
Qed.

Lemma linv_reachable cfg sp s : reachable cfg sp s -> LInv s.
Proof.
  induction 1 as [|s te s' R IH H|s te s' R IH H]; [apply linv_init| |eapply linv_xstep; eauto].
  eapply linv_step; eauto. eapply inv_reachable; eauto.
Qed.

(** * Quiescent states of the repaired code *)
Lemma quiescent_free cfg sp s : reachable cfg sp s -> quiescent cfg true sp s -> owner (shr s) = None.
Proof.
  intros R Q. pose proof (inv_reachable _ _ _ _ R) as HI. pose proof (linv_reachable _ _ _ R) as HL.
  destruct (owner (shr s)) as [v|] eqn:Ho; [exfalso|reflexivity].
  assert (Hh : hold (get (thr s) v) = true) by (rewrite (i_mutex _ HI), (owned_some _ _ _ Ho); apply Nat.eqb_refl).
  destruct (tstep_holder cfg sp (fun u => is_fin (get (thr s) u)) v (shr s) (get (thr s) v) Hh Ho) as (e & s' & ts' & E).
  - intros E. rewrite (i_idle _ HI). eapply cnt_pos with (u := v); [rewrite E|]; reflexivity.
  - intros E. apply (l_w10 _ HL v). now rewrite E.
  - apply lstep_of_tstep in E. rewrite (Q v e) in E. discriminate.
Qed.

Lemma waiter_enabled cfg fx sp s u c :
  slp (get (thr s) u) = Some c -> In u (woken (shr s)) -> owner (shr s) = None ->
  exists s', lstep_gen cfg fx sp s (u, EWE c false) = Some s'.
Proof.
  intros Hs Hw Ho. apply mem_In in Hw.
  assert (E : do_we sp c false u (shr s) = Some (set_owner (Some u) (set_woken (rem u (woken (shr s))) (shr s)))).
  { unfold do_we, free. now rewrite Ho, Hw. }
  unfold lstep_gen. destruct (get (thr s) u) as [| |p|tk j|tk j|tk j a r|tk j|a r| |p|a r] eqn:Et; try discriminate Hs.
  - destruct p; try discriminate Hs. inversion Hs; subst c. cbn [tstep]. rewrite E. eauto.
  - destruct a; try discriminate Hs; inversion Hs; subst c; cbn [tstep api_step]; rewrite E; eauto.
  - destruct a; try discriminate Hs; inversion Hs; subst c; cbn [tstep api_step]; rewrite E; eauto.
  - destruct a; try discriminate Hs; inversion Hs; subst c; cbn [tstep api_step]; rewrite E; eauto.
Qed.

Lemma pendF_enabled cfg sp s w :
  Inv s -> pendF (get (thr s) w) = true -> owner (shr s) = None -> exists e s', lstep_gen cfg true sp s (w, e) = Some s'.
Proof.
  intros HI Hp Ho. destruct (get (thr s) w) as [| |p| | | | | | | |] eqn:Et; try discriminate Hp.
  destruct p; try discriminate Hp.
  - exists ELock. unfold lstep_gen. rewrite Et. cbn [tstep]. unfold do_lock, free. rewrite Ho. eauto.
  - exfalso. pose proof (i_mutex _ HI w) as E. rewrite Et in E. cbn in E. rewrite (owned_none _ _ Ho) in E. discriminate.
Qed.

(** No quiescent state has a thread blocked in loop_until_empty whose predicate holds. *)
Theorem no_lost_wakeup_le cfg s u :
  reachable cfg false s -> quiescent cfg true false s -> waits_le (get (thr s) u) = true -> le_pred (shr s) = false.
Proof.
  intros R Q Hu. destruct (le_pred (shr s)) eqn:P; [exfalso|reflexivity].
  unfold le_pred in P. apply andb_true_iff in P. destruct P as (P1 & P2). apply qempty_true in P1. apply Nat.eqb_eq in P2.
  pose proof (inv_reachable _ _ _ _ R) as HI. pose proof (linv_reachable _ _ _ R) as HL. pose proof (winv_reachable _ _ _ _ R) as HW.
  pose proof (quiescent_free _ _ _ R Q) as Ho.
  destruct (w_slp _ HW CF u (waits_le_slp _ Hu)) as [Hin|Hin].
  - destruct (l_le _ HL) as [X|[X|(w & X)]]; try congruence.
    + exists u. left. split; assumption.
    + destruct (pendF_enabled cfg false s w HI X Ho) as (e & s' & E). rewrite (Q w e) in E. discriminate.
  - destruct (waiter_enabled cfg true false s u CF (waits_le_slp _ Hu) Hin Ho) as (s' & E). rewrite (Q u _) in E. discriminate.
Qed.
