(** C10 -- what terminate() / the destructor promise about QUEUED jobs: once terminate_ is set no further job is
    started (popped).  Hence terminate(), loop_until_terminate and the destructor wait only for the jobs that are already
    running ("return once the running jobs finish"), never for the backlog.  Holds for both code variants, with spurious
    wake-ups. *)
From Coq Require Import List Arith Bool Lia.
From TLXV Require Import C10.Pool C10.PoolLemmas C10.PoolSafety C10.PoolWait C10.PoolCands C10.PoolLive C10.PoolLive2.
Import ListNotations.

Section LocalT.
  Variables (cfg : config) (fx sp : bool) (fin : nat -> bool) (t : nat).

  Ltac api_ctx H :=
    match type of H with
    | context [api_step ?a ?b ?c ?d ?e ?f] => destruct (api_step a b c d e f) as [[? [?|]]|] eqn:Hapi; inversion H; subst; clear H
    end.
  Ltac conts L :=
    unfold main_ctor, main_spawnc, main_ops, main_joinc, main_joinw, client_next, job_next in L;
    repeat match type of L with
           | context [if ?b then _ else _] => destruct b
           | context [match ?l with [] => _ | _ => _ end] => destruct l as [|[] ?]
           end.

  (** the worker reaches the pop only after having read terminate_ = false under the mutex *)
  Lemma tstep_w10t s ts e s' ts' spw :
    tstep cfg fx sp fin t s ts e = Some (s', ts', spw) -> w10 ts' = true -> term s' = false.
  Proof.
    intros H L.
    destruct ts as [| |p|tk j|tk j|tk j a r|tk j|a r| |p|a r]; cbn [tstep] in H; try discriminate.
    - unfold_ops H. destruct p; inv_some H; try discriminate L; cbn; auto.
    - inv_some H; discriminate L.
    - inv_some H. conts L; discriminate L.
    - api_ctx H; [discriminate L | conts L; discriminate L].
    - inv_some H; discriminate L.
    - api_ctx H; [discriminate L | conts L; discriminate L].
    - inv_some H; discriminate L.
    - destruct p; inv_some H; try discriminate L; conts L; discriminate L.
    - api_ctx H; [discriminate L|]. conts L; discriminate L.
  Qed.

  (** only the step of a worker at the pop changes [started] *)
  Lemma tstep_pop s ts e s' ts' spw :
    tstep cfg fx sp fin t s ts e = Some (s', ts', spw) -> started s' <> started s -> w10 ts = true.
  Proof.
    intros H N.
    destruct ts as [| |p|tk j|tk j|tk j a r|tk j|a r| |p|a r]; cbn [tstep] in H; try discriminate.
    - unfold_ops H. destruct p; inv_some H; cbn in N; try congruence; reflexivity.
    - unfold_ops H. inv_some H; cbn in N; congruence.
    - inv_some H; congruence.
    - api_ctx H; destruct (api_counts _ _ _ _ _ _ _ _ Hapi) as (_ & _ & _ & E & _); congruence.
    - inv_some H; cbn in N; congruence.
    - api_ctx H; destruct (api_counts _ _ _ _ _ _ _ _ Hapi) as (_ & _ & _ & E & _); congruence.
    - inv_some H; congruence.
    - unfold_ops H. destruct p; inv_some H; cbn in N; congruence.
    - api_ctx H; destruct (api_counts _ _ _ _ _ _ _ _ Hapi) as (_ & _ & _ & E & _); congruence.
  Qed.
End LocalT.

Definition TInv (s : state) : Prop := forall u, w10 (get (thr s) u) = true -> term (shr s) = false.

Lemma tinv_init cfg : TInv (init cfg).
Proof. intros u _. reflexivity. Qed.

Lemma tinv_step cfg fx sp s te s' : Inv s -> TInv s -> lstep_gen cfg fx sp s te = Some s' -> TInv s'.
Proof.
  intros HI HT H. destruct te as [t e]. unfold lstep_gen in H.
  destruct (tstep cfg fx sp (fun u => is_fin (get (thr s) u)) t (shr s) (get (thr s) t) e) as [[[sh' ts'] spw]|] eqn:Ht; [|discriminate].
  pose proof (i_mutex _ HI) as I1.
  assert (T1 : TInv {| shr := sh'; thr := set (thr s) t ts' |}).
  { intros u. cbn [shr thr]. rewrite get_set. destruct (Nat.eqb_spec t u) as [<-|Hne].
    - intros L. eapply tstep_w10t; eauto.
    - intros L. pose proof (w10_hold _ L) as Hu. rewrite I1 in Hu. apply owned_true in Hu.
      assert (Hh : hold (get (thr s) t) = false) by (rewrite I1, (owned_some _ _ _ Hu); apply Nat.eqb_neq; congruence).
      assert (Ho : owner (shr s) <> None) by congruence.
      destruct (tstep_stable _ _ _ _ _ _ _ _ _ _ _ Ht Hh Ho) as (_ & _ & -> & _). now apply (HT u). }
  destruct spw as [[u tsu]|].
  - destruct (is_none (get (thr s) u)); [|discriminate]. inversion H; subst; clear H.
    destruct (tstep_spawn_live _ _ _ _ _ _ _ _ _ _ _ _ Ht) as (V1 & _).
    intros w. cbn [shr thr]. rewrite get_set. destruct (Nat.eqb_spec u w) as [->|]; [congruence|]. apply (T1 w).
  - inversion H; subst. exact T1.
Qed.

Lemma tinv_reachable cfg fx sp s : reachable_gen cfg fx sp s -> TInv s.
Proof.
  induction 1 as [|s te s' R IH H|s te s' R IH H]; [apply tinv_init| |].
  - eapply tinv_step; eauto. eapply inv_reachable; eauto.
  - destruct te as [t e]. destruct (xstep_inv _ _ _ _ H) as (Et & _ & (_ & _ & _ & _ & T & _) & _).
    intros u. rewrite Et, T. apply IH.
Qed.

(** No job is started (popped) once terminate_ is set -- by terminate() or by the destructor. *)
Theorem no_job_started_after_terminate cfg fx sp s te s' :
  reachable_gen cfg fx sp s -> lstep_gen cfg fx sp s te = Some s' -> started (shr s') <> started (shr s) -> term (shr s) = false.
Proof.
  intros R H N. destruct te as [t e]. unfold lstep_gen in H.
  destruct (tstep cfg fx sp (fun u => is_fin (get (thr s) u)) t (shr s) (get (thr s) t) e) as [[[sh' ts'] spw]|] eqn:Ht; [|discriminate].
  assert (E : shr s' = sh').
  { destruct spw as [[u tsu]|]; [destruct (is_none (get (thr s) u)); [|discriminate]|]; inversion H; reflexivity. }
  rewrite E in N. apply (tinv_reachable _ _ _ _ R t). eapply tstep_pop; eauto.
Qed.
