(** C10 -- safety: the inductive invariant of the thread-pool LTS (both code variants, with and without
    spurious wake-ups), and from it: a job is popped at most once; loop_until_empty returns only from
    states with an empty queue and no running job, where done_ = number of ended jobs = number of
    enqueued jobs and every enqueued job has ended. *)
From Coq Require Import List Arith Bool Lia Permutation.
From TLXV Require Import C10.Pool C10.PoolLemmas.
Import ListNotations.

(** * Local facts about one API step *)
Lemma api_mutex fx sp t s a e s' oa :
  api_step fx sp t s a e = Some (s', oa) ->
  (ahold a = true -> owner s = Some t) ->
  owner s' = (if ohold oa then Some t else if ahold a then None else owner s) /\
  (ahold a = false -> ohold oa = true -> owner s = None).
Proof.
  intros H Hpre. unfold api_step in H. unfold_ops H.
  destruct a; inv_some H; cbn in *; beq; subst;
    (split; [try (rewrite Hpre by reflexivity); try reflexivity; try congruence
            | try congruence; intros; try congruence; try reflexivity]).
Qed.

Lemma api_counts fx sp t s a e s' oa :
  api_step fx sp t s a e = Some (s', oa) ->
  busy s' = busy s /\ idle s' = idle s /\ done s' = done s /\ started s' = started s /\ ended s' = ended s /\
  ((queue s' = queue s /\ npushed s' = npushed s) \/
   (exists j, queue s' = queue s ++ [(npushed s, j)] /\ npushed s' = S (npushed s))).
Proof.
  intros H. unfold api_step in H. unfold_ops H.
  destruct a; inv_some H; cbn; repeat split; try (left; split; reflexivity).
  right. eexists. split; reflexivity.
Qed.

Lemma api_le4 fx sp t s a e s' oa :
  api_step fx sp t s a e = Some (s', oa) -> oa = Some QLE4 -> queue s' = [] /\ busy s' = 0.
Proof.
  intros H Hoa. unfold api_step in H. unfold_ops H.
  destruct a; inv_some H; try discriminate; cbn; beq; subst.
  split; [now apply qempty_true | congruence].
Qed.

Lemma api_stable fx sp t s a e s' oa :
  api_step fx sp t s a e = Some (s', oa) -> ahold a = false -> owner s <> None -> s' = s.
Proof.
  intros H Hh Ho. unfold api_step in H. unfold_ops H.
  destruct a; try discriminate Hh; inv_some H; try reflexivity; congruence.
Qed.

Lemma api_term fx sp t s a e s' oa :
  api_step fx sp t s a e = Some (s', oa) -> term s = true -> term s' = true.
Proof.
  intros H Ht. unfold api_step in H. unfold_ops H.
  destruct a; inv_some H; cbn; auto; congruence.
Qed.

(** * Local facts about one thread step *)
Section Local.
  Variables (cfg : config) (fx sp : bool) (fin : nat -> bool) (t : nat).

  Ltac api_ctx H :=
    match type of H with
    | context [api_step ?a ?b ?c ?d ?e ?f] => destruct (api_step a b c d e f) as [[? [?|]]|] eqn:Hapi; inversion H; subst; clear H
    end.

  Lemma tstep_mutex s ts e s' ts' spw :
    tstep cfg fx sp fin t s ts e = Some (s', ts', spw) ->
    (hold ts = true -> owner s = Some t) ->
    owner s' = (if hold ts' then Some t else if hold ts then None else owner s) /\
    (hold ts = false -> hold ts' = true -> owner s = None).
  Proof.
    intros H Hpre.
    destruct ts as [| |p|tk j|tk j|tk j a r|tk j|a r| |p|a r]; cbn [tstep] in H; try discriminate.
    - unfold_ops H. destruct p; inv_some H; cbn in *; beq; subst;
        (split; [try (rewrite Hpre by reflexivity); try reflexivity; try congruence
                | try congruence; intros; try congruence; try reflexivity]).
    - unfold_ops H. inv_some H. cbn. split; [reflexivity | congruence].
    - inv_some H. cbn. destruct (abs_job_next tk j (jobprog cfg j)) as (-> & _). cbn. split; [reflexivity | congruence].
    - api_ctx H; destruct (api_mutex _ _ _ _ _ _ _ _ Hapi Hpre) as (E1 & E2); cbn [hold ohold] in *.
      + split; assumption.
      + destruct (abs_job_next tk j r) as (-> & _). split; [assumption | congruence].
    - inv_some H. cbn. split; [reflexivity | congruence].
    - api_ctx H; destruct (api_mutex _ _ _ _ _ _ _ _ Hapi Hpre) as (E1 & E2); cbn [hold ohold] in *.
      + split; assumption.
      + destruct (inert_client_next r) as (-> & _). split; [assumption | congruence].
    - inv_some H. cbn. split; [reflexivity | congruence].
    - unfold_ops H. destruct p; inv_some H; cbn in *; beq; subst;
        try (destruct (inert_main_ctor cfg (S k)) as (-> & _));
        try (destruct (inert_main_spawnc cfg (S k)) as (-> & _));
        try (destruct (inert_main_joinc cfg (S k)) as (-> & _));
        try (destruct (inert_main_joinw cfg (S k)) as (-> & _));
        try (destruct (inert_main_joinw cfg 0) as (-> & _));
        (split; [try (rewrite Hpre by reflexivity); try reflexivity; try congruence
                | try congruence; intros; try congruence; try reflexivity]).
    - api_ctx H; destruct (api_mutex _ _ _ _ _ _ _ _ Hapi Hpre) as (E1 & E2); cbn [hold ohold] in *.
      + split; assumption.
      + destruct (inert_main_ops cfg r) as (-> & _). split; [assumption | congruence].
  Qed.

  Definition tick_eff (s s' : shared) (ts ts' : tstate) : Prop :=
    (queue s' = queue s /\ npushed s' = npushed s /\ started s' = started s /\ ended s' = ended s /\ runl ts' = runl ts) \/
    (exists j, queue s' = queue s ++ [(npushed s, j)] /\ npushed s' = S (npushed s) /\ started s' = started s /\
               ended s' = ended s /\ runl ts' = runl ts) \/
    (exists tk j, queue s = (tk, j) :: queue s' /\ npushed s' = npushed s /\ started s' = tk :: started s /\
                  ended s' = ended s /\ runl ts = [] /\ runl ts' = [tk]) \/
    (exists tk, queue s' = queue s /\ npushed s' = npushed s /\ started s' = started s /\ ended s' = tk :: ended s /\
                runl ts = [tk] /\ runl ts' = []).

  Lemma tick_eff_api s s' ts ts' :
    started s' = started s -> ended s' = ended s -> runl ts' = runl ts ->
    ((queue s' = queue s /\ npushed s' = npushed s) \/
     (exists j, queue s' = queue s ++ [(npushed s, j)] /\ npushed s' = S (npushed s))) ->
    tick_eff s s' ts ts'.
  Proof.
    intros E1 E2 E3 [(E4 & E5)|(j & E4 & E5)]; [left | right; left; exists j]; repeat split; assumption.
  Qed.

  Lemma tstep_tickets s ts e s' ts' spw :
    tstep cfg fx sp fin t s ts e = Some (s', ts', spw) -> tick_eff s s' ts ts'.
  Proof.
    intros H.
    destruct ts as [| |p|tk j|tk j|tk j a r|tk j|a r| |p|a r]; cbn [tstep] in H; try discriminate.
    - unfold_ops H. destruct p; inv_some H; try (left; repeat split; reflexivity).
      right; right; left. do 2 eexists. cbn. repeat split; eassumption.
    - unfold_ops H. inv_some H. left; repeat split; reflexivity.
    - inv_some H. left. cbn. destruct (abs_job_next tk j (jobprog cfg j)) as (_ & _ & -> & _). repeat split; reflexivity.
    - api_ctx H; destruct (api_counts _ _ _ _ _ _ _ _ Hapi) as (_ & _ & _ & E1 & E2 & E3);
        apply tick_eff_api; auto.
      destruct (abs_job_next tk j r) as (_ & _ & -> & _). reflexivity.
    - inv_some H. right; right; right. exists tk. cbn. repeat split; reflexivity.
    - api_ctx H; destruct (api_counts _ _ _ _ _ _ _ _ Hapi) as (_ & _ & _ & E1 & E2 & E3);
        apply tick_eff_api; auto.
      destruct (inert_client_next r) as (_ & _ & -> & _). reflexivity.
    - inv_some H. left; repeat split; reflexivity.
    - unfold_ops H. destruct p; inv_some H; left; cbn;
        try (destruct (inert_main_ctor cfg (S k)) as (_ & _ & -> & _));
        try (destruct (inert_main_spawnc cfg (S k)) as (_ & _ & -> & _));
        try (destruct (inert_main_joinc cfg (S k)) as (_ & _ & -> & _));
        try (destruct (inert_main_joinw cfg (S k)) as (_ & _ & -> & _));
        try (destruct (inert_main_joinw cfg 0) as (_ & _ & -> & _)); repeat split; reflexivity.
    - api_ctx H; destruct (api_counts _ _ _ _ _ _ _ _ Hapi) as (_ & _ & _ & E1 & E2 & E3);
        apply tick_eff_api; auto.
      destruct (inert_main_ops cfg r) as (_ & _ & -> & _). reflexivity.
  Qed.

  Lemma tstep_counts s ts e s' ts' spw :
    tstep cfg fx sp fin t s ts e = Some (s', ts', spw) ->
    busy s' + b2n (busyr ts) = busy s + b2n (busyr ts') /\
    idle s' + b2n (idler ts) = idle s + b2n (idler ts') /\
    done s' + b2n (incd ts') + length (ended s) = done s + b2n (incd ts) + length (ended s').
  Proof.
    intros H.
    destruct ts as [| |p|tk j|tk j|tk j a r|tk j|a r| |p|a r]; cbn [tstep] in H; try discriminate.
    - unfold_ops H. destruct p; inv_some H; cbn; beq; subst; repeat split; lia.
    - unfold_ops H. inv_some H. cbn. repeat split; lia.
    - inv_some H. destruct (abs_job_next tk j (jobprog cfg j)) as (_ & -> & _ & -> & -> & _). cbn. repeat split; lia.
    - api_ctx H; destruct (api_counts _ _ _ _ _ _ _ _ Hapi) as (-> & -> & -> & _ & -> & _); cbn.
      + repeat split; lia.
      + destruct (abs_job_next tk j r) as (_ & -> & _ & -> & -> & _). cbn. repeat split; lia.
    - inv_some H. cbn. repeat split; lia.
    - api_ctx H; destruct (api_counts _ _ _ _ _ _ _ _ Hapi) as (-> & -> & -> & _ & -> & _); cbn.
      + repeat split; lia.
      + destruct (inert_client_next r) as (_ & -> & _ & -> & -> & _). cbn. repeat split; lia.
    - inv_some H. cbn. repeat split; lia.
    - unfold_ops H. destruct p; inv_some H; cbn;
        try (destruct (inert_main_ctor cfg (S k)) as (_ & -> & _ & -> & -> & _));
        try (destruct (inert_main_spawnc cfg (S k)) as (_ & -> & _ & -> & -> & _));
        try (destruct (inert_main_joinc cfg (S k)) as (_ & -> & _ & -> & -> & _));
        try (destruct (inert_main_joinw cfg (S k)) as (_ & -> & _ & -> & -> & _));
        try (destruct (inert_main_joinw cfg 0) as (_ & -> & _ & -> & -> & _)); cbn; repeat split; lia.
    - api_ctx H; destruct (api_counts _ _ _ _ _ _ _ _ Hapi) as (-> & -> & -> & _ & -> & _); cbn.
      + repeat split; lia.
      + destruct (inert_main_ops cfg r) as (_ & -> & _ & -> & -> & _). cbn. repeat split; lia.
  Qed.

  Lemma tstep_le4 s ts e s' ts' spw :
    tstep cfg fx sp fin t s ts e = Some (s', ts', spw) -> le4 ts' = true -> queue s' = [] /\ busy s' = 0.
  Proof.
    intros H L.
    destruct ts as [| |p|tk j|tk j|tk j a r|tk j|a r| |p|a r]; cbn [tstep] in H; try discriminate.
    - unfold_ops H. destruct p; inv_some H; discriminate L.
    - unfold_ops H. inv_some H. discriminate L.
    - inv_some H. destruct (abs_job_next tk j (jobprog cfg j)) as (_ & _ & _ & _ & _ & E). congruence.
    - api_ctx H.
      + unfold le4 in L. cbn in L. destruct a0; try discriminate L. eapply api_le4; eauto.
      + destruct (abs_job_next tk j r) as (_ & _ & _ & _ & _ & E). congruence.
    - inv_some H. discriminate L.
    - api_ctx H.
      + unfold le4 in L. cbn in L. destruct a0; try discriminate L. eapply api_le4; eauto.
      + destruct (inert_client_next r) as (_ & _ & _ & _ & _ & E). congruence.
    - inv_some H. discriminate L.
    - unfold_ops H. destruct p; inv_some H;
        try (pose proof (inert_main_ctor cfg (S k)) as (_ & _ & _ & _ & _ & E1));
        try (pose proof (inert_main_spawnc cfg (S k)) as (_ & _ & _ & _ & _ & E2));
        try (pose proof (inert_main_joinc cfg (S k)) as (_ & _ & _ & _ & _ & E3));
        try (pose proof (inert_main_joinw cfg (S k)) as (_ & _ & _ & _ & _ & E4));
        try (pose proof (inert_main_joinw cfg 0) as (_ & _ & _ & _ & _ & E5)); try congruence; discriminate L.
    - api_ctx H.
      + unfold le4 in L. cbn in L. destruct a0; try discriminate L. eapply api_le4; eauto.
      + destruct (inert_main_ops cfg r) as (_ & _ & _ & _ & _ & E). congruence.
  Qed.

  (** a thread that does not hold the mutex, stepping while the mutex is taken, cannot touch the queue,
      cannot raise busy_, cannot change terminate_ or the wait sets *)
  Lemma tstep_stable s ts e s' ts' spw :
    tstep cfg fx sp fin t s ts e = Some (s', ts', spw) -> hold ts = false -> owner s <> None ->
    queue s' = queue s /\ busy s' <= busy s /\ term s' = term s /\ wsJ s' = wsJ s /\ wsF s' = wsF s /\ woken s' = woken s /\
    npushed s' = npushed s /\ owner s' = owner s.
  Proof.
    intros H Hh Ho.
    destruct ts as [| |p|tk j|tk j|tk j a r|tk j|a r| |p|a r]; cbn [tstep] in H; try discriminate.
    - unfold_ops H. destruct p; cbn in Hh; try discriminate Hh; inv_some H; cbn; beq; subst; try congruence; repeat split; lia.
    - inv_some H. repeat split; lia.
    - api_ctx H; rewrite (api_stable _ _ _ _ _ _ _ _ Hapi Hh Ho); repeat split; lia.
    - inv_some H. cbn. repeat split; lia.
    - api_ctx H; rewrite (api_stable _ _ _ _ _ _ _ _ Hapi Hh Ho); repeat split; lia.
    - inv_some H. repeat split; lia.
    - unfold_ops H. destruct p; cbn in Hh; try discriminate Hh; inv_some H; cbn; try congruence; repeat split; lia.
    - api_ctx H; rewrite (api_stable _ _ _ _ _ _ _ _ Hapi Hh Ho); repeat split; lia.
  Qed.

  Lemma tstep_spawn s ts e s' ts' u tsu :
    tstep cfg fx sp fin t s ts e = Some (s', ts', Some (u, tsu)) -> inert tsu /\ u <> 0.
  Proof.
    intros H.
    destruct ts as [| |p|tk j|tk j|tk j a r|tk j|a r| |p|a r]; cbn [tstep] in H; try discriminate.
    - destruct p; inv_some H.
    - inv_some H.
    - inv_some H.
    - api_ctx H.
    - inv_some H.
    - api_ctx H.
    - inv_some H.
    - destruct p; inv_some H; beq; subst.
      + split; [repeat split | lia].
      + split; [apply inert_client_next | lia].
    - api_ctx H.
  Qed.

  Lemma tstep_term s ts e s' ts' spw :
    tstep cfg fx sp fin t s ts e = Some (s', ts', spw) -> term s = true -> term s' = true.
  Proof.
    intros H Ht.
    destruct ts as [| |p|tk j|tk j|tk j a r|tk j|a r| |p|a r]; cbn [tstep] in H; try discriminate.
    - unfold_ops H. destruct p; inv_some H; cbn; auto; congruence.
    - unfold_ops H. inv_some H; cbn; auto.
    - inv_some H; auto.
    - api_ctx H; eapply api_term; eauto.
    - inv_some H; cbn; auto.
    - api_ctx H; eapply api_term; eauto.
    - inv_some H; auto.
    - unfold_ops H. destruct p; inv_some H; cbn; auto.
    - api_ctx H; eapply api_term; eauto.
  Qed.
End Local.

(** * The global invariant *)
Record Inv (s : state) : Prop := {
  i_mutex : forall u, hold (get (thr s) u) = owned u (shr s);
  i_nodup : NoDup (map fst (queue (shr s)) ++ started (shr s));
  i_range : forall k, In k (map fst (queue (shr s)) ++ started (shr s)) <-> k < npushed (shr s);
  i_run : Permutation (started (shr s)) (ended (shr s) ++ collect runl (thr s));
  i_busy : busy (shr s) = cnt busyr (thr s);
  i_idle : idle (shr s) = cnt idler (thr s);
  i_done : done (shr s) + cnt incd (thr s) = length (ended (shr s));
  i_le4 : forall u, le4 (get (thr s) u) = true -> queue (shr s) = [] /\ busy (shr s) = 0
}.

Lemma inv_init cfg : Inv (init cfg).
Proof.
  destruct (inert_main_ctor cfg 0) as (H1 & H2 & H3 & H4 & H5 & H6).
  constructor; cbn.
  - intros [|u]; cbn; [exact H1 | destruct u; reflexivity].
  - constructor.
  - intros k. split; [intros [] | lia].
  - rewrite H3. reflexivity.
  - unfold cnt. cbn. now rewrite H2.
  - unfold cnt. cbn. now rewrite H5.
  - unfold cnt. cbn. now rewrite H4.
  - intros [|u]; cbn; [congruence | destruct u; discriminate].
Qed.

Lemma cnt_spawn P l u v : get l u = TNone -> P TNone = false -> P v = false -> cnt P (set l u v) = cnt P l.
Proof. intros Hu HN Hv. pose proof (cnt_set P HN u l v) as E. rewrite Hu, HN, Hv in E. cbn in E. lia. Qed.

Lemma collect_spawn f l u v : get l u = TNone -> f TNone = [] -> f v = [] -> Permutation (collect f (set l u v)) (collect f l).
Proof. intros Hu HN Hv. pose proof (collect_set f HN u l v) as E. rewrite Hu, HN, Hv in E. exact E. Qed.

Lemma inv_spawn sh l u v : Inv {| shr := sh; thr := l |} -> get l u = TNone -> inert v -> Inv {| shr := sh; thr := set l u v |}.
Proof.
  intros [I1 I2 I3 I4 I5 I6 I7 I8] Hu (H1 & H2 & H3 & H4 & H5 & H6). cbn [shr thr] in *.
  constructor; cbn [shr thr]; auto.
  - intros w. rewrite get_set. destruct (Nat.eqb_spec u w) as [->|]; [|apply I1].
    rewrite H1. rewrite <- (I1 w), Hu. reflexivity.
  - rewrite collect_spawn; auto.
  - rewrite cnt_spawn; auto.
  - rewrite cnt_spawn; auto.
  - rewrite cnt_spawn; auto.
  - intros w. rewrite get_set. destruct (Nat.eqb_spec u w) as [->|]; [congruence | apply I8].
Qed.

Lemma inv_tstep cfg fx sp fin t s e sh' ts' spw :
  Inv s -> tstep cfg fx sp fin t (shr s) (get (thr s) t) e = Some (sh', ts', spw) ->
  Inv {| shr := sh'; thr := set (thr s) t ts' |}.
Proof.
  intros [I1 I2 I3 I4 I5 I6 I7 I8] H.
  set (ts := get (thr s) t) in *.
  assert (Hpre : hold ts = true -> owner (shr s) = Some t).
  { intros Hh. apply owned_true. rewrite <- I1. exact Hh. }
  destruct (tstep_mutex _ _ _ _ _ _ _ _ _ _ _ H Hpre) as (M1 & M2).
  pose proof (tstep_tickets _ _ _ _ _ _ _ _ _ _ _ H) as TK.
  destruct (tstep_counts _ _ _ _ _ _ _ _ _ _ _ H) as (C1 & C2 & C3).
  constructor; cbn [shr thr].
  - (* mutex *)
    intros u. rewrite get_set. destruct (Nat.eqb_spec t u) as [<-|Hne].
    + destruct (hold ts') eqn:Hh'.
      * rewrite (owned_some _ _ _ M1). symmetry. apply Nat.eqb_refl.
      * destruct (hold ts) eqn:Hh.
        -- now rewrite (owned_none _ _ M1).
        -- unfold owned. rewrite M1. fold (owned t (shr s)). rewrite <- I1. symmetry. exact Hh.
    + rewrite I1. destruct (hold ts') eqn:Hh'.
      * rewrite (owned_some _ _ _ M1). destruct (hold ts) eqn:Hh.
        -- rewrite (owned_some _ _ _ (Hpre eq_refl)). reflexivity.
        -- rewrite (owned_none _ _ (M2 eq_refl eq_refl)). symmetry. now apply Nat.eqb_neq.
      * destruct (hold ts) eqn:Hh.
        -- rewrite (owned_some _ _ _ (Hpre eq_refl)), (owned_none _ _ M1). now apply Nat.eqb_neq.
        -- unfold owned. now rewrite M1.
  - (* NoDup *)
    destruct TK as [(E1 & E2 & E3 & E4 & E5)|[(j & E1 & E2 & E3 & E4 & E5)|[(tk & j & E1 & E2 & E3 & E4 & E5 & E6)|(tk & E1 & E2 & E3 & E4 & E5 & E6)]]].
    + now rewrite E1, E3.
    + rewrite E1, E3, map_app. cbn.
      apply (Permutation_NoDup (l := npushed (shr s) :: map fst (queue (shr s)) ++ started (shr s))).
      * rewrite <- app_assoc. cbn. apply Permutation_middle.
      * constructor; auto. rewrite I3. lia.
    + rewrite E1 in I2. cbn in I2. rewrite E3. eapply Permutation_NoDup; [|exact I2]. apply Permutation_middle.
    + now rewrite E1, E3.
  - (* range *)
    intros k.
    destruct TK as [(E1 & E2 & E3 & E4 & E5)|[(j & E1 & E2 & E3 & E4 & E5)|[(tk & j & E1 & E2 & E3 & E4 & E5 & E6)|(tk & E1 & E2 & E3 & E4 & E5 & E6)]]].
    + rewrite E1, E2, E3. apply I3.
    + rewrite E1, E2, E3, map_app. cbn. rewrite <- app_assoc. cbn. rewrite in_app_iff. cbn.
      specialize (I3 k). rewrite in_app_iff in I3. split.
      * intros [Hq|[<-|Hs]]; [|lia|]; assert (k < npushed (shr s)) by (apply I3; auto); lia.
      * intros Hk. destruct (Nat.eq_dec k (npushed (shr s))) as [->|]; [auto|].
        assert (Hk' : k < npushed (shr s)) by lia. apply I3 in Hk'. tauto.
    + rewrite E2, E3. rewrite <- I3. rewrite E1. cbn. rewrite !in_app_iff. cbn. tauto.
    + rewrite E1, E2, E3. apply I3.
  - (* running *)
    pose proof (collect_set runl eq_refl t (thr s) ts') as CS. fold ts in CS.
    destruct TK as [(E1 & E2 & E3 & E4 & E5)|[(j & E1 & E2 & E3 & E4 & E5)|[(tk & j & E1 & E2 & E3 & E4 & E5 & E6)|(tk & E1 & E2 & E3 & E4 & E5 & E6)]]].
    + rewrite E5 in CS. apply Permutation_app_inv_l in CS. now rewrite E3, E4, CS.
    + rewrite E5 in CS. apply Permutation_app_inv_l in CS. now rewrite E3, E4, CS.
    + rewrite E5, E6 in CS. cbn in CS. rewrite E3, E4, CS, I4. apply Permutation_middle.
    + rewrite E5, E6 in CS. cbn in CS. rewrite E3, E4, I4, <- CS. cbn. symmetry. apply Permutation_middle.
  - pose proof (cnt_set busyr eq_refl t (thr s) ts') as E. fold ts in E. lia.
  - pose proof (cnt_set idler eq_refl t (thr s) ts') as E. fold ts in E. lia.
  - pose proof (cnt_set incd eq_refl t (thr s) ts') as E. fold ts in E. lia.
  - (* le4 *)
    intros u. rewrite get_set. destruct (Nat.eqb_spec t u) as [<-|Hne].
    + intros L. eapply tstep_le4; eauto.
    + intros L. destruct (I8 u L) as (Q & B).
      pose proof (le4_hold _ L) as Hu. rewrite I1 in Hu. apply owned_true in Hu.
      assert (Hh : hold ts = false).
      { unfold ts. rewrite I1. rewrite (owned_some _ _ _ Hu). apply Nat.eqb_neq. congruence. }
      assert (Ho : owner (shr s) <> None) by congruence.
      destruct (tstep_stable _ _ _ _ _ _ _ _ _ _ _ H Hh Ho) as (S1 & S2 & _).
      split; [congruence | lia].
Qed.

Lemma tstep_not_none cfg fx sp fin t s ts e r : tstep cfg fx sp fin t s ts e = Some r -> ts <> TNone.
Proof. intros H ->. discriminate H. Qed.

Lemma inv_step cfg fx sp s te s' : Inv s -> lstep_gen cfg fx sp s te = Some s' -> Inv s'.
Proof.
  intros HI H. destruct te as [t e]. unfold lstep_gen in H.
  destruct (tstep cfg fx sp (fun u => is_fin (get (thr s) u)) t (shr s) (get (thr s) t) e) as [[[sh' ts'] spw]|] eqn:Ht; [|discriminate].
  pose proof (inv_tstep _ _ _ _ _ _ _ _ _ _ HI Ht) as HI'.
  destruct spw as [[u tsu]|].
  - destruct (is_none (get (thr s) u)) eqn:Hn; [|discriminate]. inversion H; subst; clear H.
    destruct (tstep_spawn _ _ _ _ _ _ _ _ _ _ _ _ Ht) as (Hin & _).
    apply inv_spawn; auto.
    assert (Hu : get (thr s) u = TNone) by (destruct (get (thr s) u); try discriminate; reflexivity).
    rewrite get_set. destruct (Nat.eqb_spec t u) as [->|]; [|exact Hu].
    exfalso. apply (tstep_not_none _ _ _ _ _ _ _ _ _ Ht). exact Hu.
  - inversion H; subst. exact HI'.
Qed.

(** an extra notification does not touch anything the invariant mentions *)
Lemma inv_xstep s te s' : Inv s -> xstep s te = Some s' -> Inv s'.
Proof.
  intros [I1 I2 I3 I4 I5 I6 I7 I8] H. destruct te as [t e].
  destruct (xstep_inv _ _ _ _ H) as (Et & _ & (Q & B & I & D & T & O & N & S & E & EJ) & _).
  constructor; rewrite ?Et; unfold owned; rewrite ?Q, ?B, ?I, ?D, ?O, ?N, ?S, ?E; auto.
Qed.

Lemma inv_reachable cfg fx sp s : reachable_gen cfg fx sp s -> Inv s.
Proof. induction 1; [apply inv_init | eapply inv_step; eauto | eapply inv_xstep; eauto]. Qed.

(** * Theorems *)
Lemma nodup_app_r (l l' : list nat) : NoDup (l ++ l') -> NoDup l'.
Proof. induction l as [|x l IH]; cbn; auto. intros H. inversion H; auto. Qed.
Lemma nodup_app_l (l l' : list nat) : NoDup (l ++ l') -> NoDup l.
Proof.
  induction l as [|x l IH]; cbn; intros H; [constructor|]. inversion H as [|? ? Hn Hd]; subst.
  constructor; auto. intros Hx. apply Hn. apply in_or_app. now left.
Qed.
(** No ticket (= enqueue instance) is ever popped twice, and only enqueued tickets are popped. *)
Theorem at_most_once cfg fx sp s :
  reachable_gen cfg fx sp s ->
  NoDup (started (shr s)) /\ (forall tk, In tk (started (shr s)) -> tk < npushed (shr s)) /\
  (forall tk, In tk (ended (shr s)) -> In tk (started (shr s))) /\ NoDup (ended (shr s)).
Proof.
  intros R. destruct (inv_reachable _ _ _ _ R) as [I1 I2 I3 I4 I5 I6 I7 I8].
  assert (ND : NoDup (started (shr s))) by (eapply nodup_app_r; eauto).
  repeat split; auto.
  - intros tk Hk. apply I3. apply in_or_app. now right.
  - intros tk Hk. eapply Permutation_in; [symmetry; exact I4|]. apply in_or_app. now left.
  - eapply nodup_app_l. eapply Permutation_NoDup; [exact I4 | exact ND].
Qed.

Lemma nodup_range_length (l : list nat) n : NoDup l -> (forall k, In k l <-> k < n) -> length l = n.
Proof.
  intros ND H. rewrite <- (seq_length n 0). apply Permutation_length.
  apply NoDup_Permutation; auto using seq_NoDup.
  intros k. rewrite H, in_seq. lia.
Qed.

(** The state in which loop_until_empty's predicate has just evaluated to true (the thread is about to
    unlock and return). *)
Theorem empty_means_quiescent_state cfg fx sp s t :
  reachable_gen cfg fx sp s -> le4 (get (thr s) t) = true ->
  queue (shr s) = [] /\ busy (shr s) = 0 /\
  (forall u, runl (get (thr s) u) = []) /\
  done (shr s) = length (ended (shr s)) /\ length (ended (shr s)) = npushed (shr s) /\
  (forall tk, tk < npushed (shr s) -> In tk (ended (shr s))) /\ NoDup (ended (shr s)).
Proof.
  intros R L. destruct (inv_reachable _ _ _ _ R) as [I1 I2 I3 I4 I5 I6 I7 I8].
  destruct (I8 t L) as (Q & B).
  assert (NB : forall u, busyr (get (thr s) u) = false).
  { intros u. destruct (busyr (get (thr s) u)) eqn:E; auto.
    assert (X : busyr TNone = true) by (eapply cnt_zero; eauto; congruence). discriminate X. }
  assert (NR : forall u, runl (get (thr s) u) = []).
  { intros u. destruct (runl (get (thr s) u)) eqn:E; auto.
    assert (X : busyr (get (thr s) u) = true) by (apply runl_busyr; congruence). rewrite NB in X. discriminate. }
  assert (NI : cnt incd (thr s) = 0).
  { destruct (cnt incd (thr s)) eqn:E; auto. exfalso.
    assert (exists u, incd (get (thr s) u) = true) as (u & Hu).
    { unfold cnt in E. destruct (filter incd (thr s)) as [|x r] eqn:F; [discriminate|].
      assert (Hx : In x (filter incd (thr s))) by (rewrite F; now left). apply filter_In in Hx. destruct Hx as (Hx & Px).
      destruct (In_nth _ _ TNone Hx) as (u & _ & Eu). exists u. unfold get. now rewrite Eu. }
    apply incd_busyr in Hu. rewrite NB in Hu. discriminate. }
  rewrite (collect_nil runl (thr s) NR), app_nil_r in I4. rewrite Q in I2, I3. cbn in I2, I3.
  assert (LS : length (started (shr s)) = npushed (shr s)) by (apply nodup_range_length; auto).
  repeat split; auto.
  - lia.
  - rewrite <- (Permutation_length I4). exact LS.
  - intros tk Hk. eapply Permutation_in; [exact I4|]. now apply I3.
  - eapply Permutation_NoDup; eauto.
Qed.

Lemma tstep_unlockr cfg fx sp fin t s ts n r :
  tstep cfg fx sp fin t s ts (EUnlockR n) = Some r -> le4 ts = true /\ n = length (ended s).
Proof.
  intros H.
  destruct ts as [| |p|tk j|tk j|tk j a rr|tk j|a rr| |p|a rr]; cbn [tstep] in H; try discriminate.
  - destruct p; discriminate.
  - destruct a; cbn in H; try discriminate. destruct (Nat.eqb n (length (ended s))) eqn:E; [|discriminate]. beq. auto.
  - destruct a; cbn in H; try discriminate. destruct (Nat.eqb n (length (ended s))) eqn:E; [|discriminate]. beq. auto.
  - destruct p; discriminate.
  - destruct a; cbn in H; try discriminate. destruct (Nat.eqb n (length (ended s))) eqn:E; [|discriminate]. beq. auto.
Qed.

(** Event form: whenever some thread's loop_until_empty returns (event [EUnlockR n], n = number of job
    effects the caller sees), no job is queued or running, every enqueue so far has been executed exactly
    once and has ended, and n = done_ = number of enqueues. *)
Theorem empty_means_quiescent cfg fx sp s t n s' :
  reachable_gen cfg fx sp s -> lstep_gen cfg fx sp s (t, EUnlockR n) = Some s' ->
  queue (shr s) = [] /\ busy (shr s) = 0 /\ (forall u, runl (get (thr s) u) = []) /\
  n = npushed (shr s) /\ done (shr s) = n /\ length (ended (shr s)) = n /\
  (forall tk, tk < npushed (shr s) -> In tk (ended (shr s)) /\ In tk (started (shr s))) /\
  NoDup (started (shr s)) /\ NoDup (ended (shr s)).
Proof.
  intros R H. unfold lstep_gen in H.
  destruct (tstep cfg fx sp (fun u => is_fin (get (thr s) u)) t (shr s) (get (thr s) t) (EUnlockR n)) as [r|] eqn:Ht; [|discriminate].
  destruct (tstep_unlockr _ _ _ _ _ _ _ _ _ Ht) as (L & ->).
  destruct (empty_means_quiescent_state _ _ _ _ _ R L) as (Q & B & NR & D & LE & AE & ND).
  destruct (at_most_once _ _ _ _ R) as (NS & _ & ES & _).
  repeat split; auto; try lia.
Qed.
