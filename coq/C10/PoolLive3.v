(** C10 -- liveness, part 3 (repaired code, no spurious wake-ups): thread roles, the destructor's joins,
    loop_until_terminate. *)
From Coq Require Import List Arith Bool Lia Permutation.
From TLXV Require Import C10.Pool C10.PoolLemmas C10.PoolSafety C10.PoolWait C10.PoolCands C10.PoolLive C10.PoolLive2.
Import ListNotations.

(** * Roles *)
Inductive role := RNone | RMain | RWorker | RClient.
Definition role_of (ts : tstate) : role :=
  match ts with
  | TNone | TFin => RNone
  | TW _ | TWJ0 _ _ | TWJ1 _ _ | TWJ _ _ _ _ | TWJE _ _ => RWorker
  | TC _ _ | TCE => RClient
  | TM _ | TMO _ _ => RMain
  end.
Definition exited (ts : tstate) : bool := match ts with TW W9 | TW W9e => true | _ => false end.
(** the destructor has set terminate_ *)
Definition mterm (ts : tstate) : bool := match ts with TM M5 | TM M6 | TM (M7 _) | TM M8 => true | _ => false end.

Lemma role_main_joinw cfg k : role_of (main_joinw cfg k) = RMain.
Proof. unfold main_joinw. destruct (Nat.ltb k (nworkers cfg)); reflexivity. Qed.
Lemma role_main_joinc cfg k : role_of (main_joinc cfg k) = RMain.
Proof. unfold main_joinc. destruct (Nat.ltb k (length (clients cfg))); reflexivity. Qed.
Lemma role_main_ops cfg r : role_of (main_ops cfg r) = RMain.
Proof. destruct r as [|[] r]; cbn; try apply role_main_joinc; reflexivity. Qed.
Lemma role_main_spawnc cfg k : role_of (main_spawnc cfg k) = RMain.
Proof. unfold main_spawnc. destruct (Nat.ltb k (length (clients cfg))); [reflexivity | apply role_main_ops]. Qed.
Lemma role_main_ctor cfg k : role_of (main_ctor cfg k) = RMain.
Proof. unfold main_ctor. destruct (Nat.ltb k (nworkers cfg)); [reflexivity | apply role_main_spawnc]. Qed.
Lemma role_job_next tk j r : role_of (job_next tk j r) = RWorker.
Proof. destruct r as [|[] r]; reflexivity. Qed.
Lemma role_client_next r : role_of (client_next r) = RClient.
Proof. destruct r as [|[] r]; reflexivity. Qed.

Lemma main_spawnc_not_ctor cfg j k : main_spawnc cfg j <> TM (M0 k).
Proof.
  unfold main_spawnc, main_ops, main_joinc.
  repeat match goal with
         | |- context [if ?b then _ else _] => destruct b
         | |- context [match ?l with [] => _ | _ => _ end] => destruct l as [|[] ?]
         end; discriminate.
Qed.
Lemma main_ctor_M0 cfg j k : main_ctor cfg j = TM (M0 k) -> k = j /\ j < nworkers cfg.
Proof.
  unfold main_ctor. destruct (Nat.ltb j (nworkers cfg)) eqn:E.
  - intros H. inversion H; subst. split; [reflexivity | now apply Nat.ltb_lt].
  - intros H. exfalso. eapply main_spawnc_not_ctor; eauto.
Qed.
Lemma main_joinw_M7 cfg j k : main_joinw cfg j = TM (M7 k) -> k = j /\ j < nworkers cfg.
Proof.
  unfold main_joinw. destruct (Nat.ltb j (nworkers cfg)) eqn:E; intros H; inversion H; subst. split; [reflexivity | now apply Nat.ltb_lt].
Qed.

Section Local3.
  Variables (cfg : config) (fx sp : bool) (fin : nat -> bool) (t : nat).

  Ltac api_ctx H :=
    match type of H with
    | context [api_step ?a ?b ?c ?d ?e ?f] => destruct (api_step a b c d e f) as [[? [?|]]|] eqn:Hapi; inversion H; subst; clear H
    end.

  Lemma tstep_role s ts e s' ts' spw :
    tstep cfg fx sp fin t s ts e = Some (s', ts', spw) ->
    (role_of ts' = role_of ts \/ (ts' = TFin /\ (ts = TW W9e \/ ts = TCE))) /\ role_of ts <> RNone.
  Proof.
    intros H.
    destruct ts as [| |p|tk j|tk j|tk j a r|tk j|a r| |p|a r]; cbn [tstep] in H; try discriminate; (split; [|discriminate]).
    - destruct p; inv_some H; auto.
    - inv_some H; auto.
    - inv_some H. left. apply role_job_next.
    - api_ctx H; left; [reflexivity | apply role_job_next].
    - inv_some H; auto.
    - api_ctx H; left; [reflexivity | apply role_client_next].
    - inv_some H; auto.
    - destruct p; inv_some H; left; cbn [role_of];
        rewrite ?role_main_ctor, ?role_main_spawnc, ?role_main_joinc, ?role_main_joinw; reflexivity.
    - api_ctx H; left; [reflexivity | apply role_main_ops].
  Qed.

  (** the events of the main thread outside its own API calls *)
  Lemma tstep_main s p e s' ts' spw :
    tstep cfg fx sp fin t s (TM p) e = Some (s', ts', spw) ->
    match p with
    | M0 k => ts' = main_ctor cfg (S k) /\ spw = Some (S k, TW W0) /\ s' = s
    | M1 k => ts' = main_spawnc cfg (S k) /\ (exists v, spw = Some (nworkers cfg + 1 + k, v) /\ role_of v = RClient) /\ s' = s
    | M2 k => ts' = main_joinc cfg (S k) /\ spw = None /\ s' = s /\ fin (nworkers cfg + 1 + k) = true
    | M3 => ts' = TM M4 /\ spw = None /\ term s' = term s
    | M4 => ts' = TM M5 /\ spw = None /\ term s' = true
    | M5 => ts' = TM M6 /\ spw = None /\ term s' = term s
    | M6 => ts' = main_joinw cfg 0 /\ spw = None /\ term s' = term s
    | M7 k => ts' = main_joinw cfg (S k) /\ spw = None /\ s' = s /\ fin (S k) = true
    | M8 => False
    end.
  Proof.
    intros H. cbn [tstep] in H. unfold_ops H.
    destruct p; inv_some H; beq; subst; repeat split; auto.
    eexists. split; [reflexivity | apply role_client_next].
  Qed.

  Lemma tstep_nomain_spawn s ts e s' ts' spw :
    tstep cfg fx sp fin t s ts e = Some (s', ts', spw) -> (forall p, ts <> TM p) -> spw = None.
  Proof.
    intros H N.
    destruct ts as [| |p|tk j|tk j|tk j a r|tk j|a r| |p|a r]; cbn [tstep] in H; try discriminate.
    - destruct p; inv_some H; reflexivity.
    - inv_some H; reflexivity.
    - inv_some H; reflexivity.
    - api_ctx H; reflexivity.
    - inv_some H; reflexivity.
    - api_ctx H; reflexivity.
    - inv_some H; reflexivity.
    - exfalso. now apply (N p).
    - api_ctx H; reflexivity.
  Qed.

  Lemma tstep_exited s ts e s' ts' spw :
    tstep cfg fx sp fin t s ts e = Some (s', ts', spw) -> (exited ts = true -> term s = true) ->
    exited ts' = true -> term s' = true.
  Proof.
    intros H P X.
    assert (RW : role_of ts' = RWorker) by (destruct ts'; try discriminate X; reflexivity).
    destruct (tstep_role _ _ _ _ _ _ H) as ([R|(R & _)] & _); [|subst; discriminate X].
    rewrite RW in R.
    destruct ts as [| |p|tk j|tk j|tk j a r|tk j|a r| |p|a r]; cbn [tstep] in H; try discriminate; try discriminate R.
    - unfold_ops H. destruct p; inv_some H; cbn in *; try discriminate X; auto.
      all: repeat match type of X with context [if ?b then _ else _] => destruct b eqn:? end; try discriminate X; auto.
    - inv_some H; discriminate X.
    - inv_some H. destruct (jobprog cfg j) as [|[] ?]; discriminate X.
    - api_ctx H; [discriminate X | destruct r as [|[] ?]; discriminate X].
    - inv_some H; discriminate X.
  Qed.

  Lemma tstep_wfin s ts e s' spw :
    tstep cfg fx sp fin t s ts e = Some (s', TFin, spw) -> role_of ts = RWorker -> exited ts = true /\ s' = s.
  Proof.
    intros H R.
    destruct ts as [| |p|tk j|tk j|tk j a r|tk j|a r| |p|a r]; cbn [tstep] in H; try discriminate; try discriminate R.
    - destruct p; inv_some H. auto.
    - inv_some H.
    - inv_some H. destruct (jobprog cfg j) as [|[] ?]; discriminate.
    - api_ctx H. destruct r as [|[] ?]; discriminate.
    - inv_some H.
  Qed.
End Local3.

(** * The role invariant *)
Record RInv (cfg : config) (s : state) : Prop := {
  r_main0 : role_of (get (thr s) 0) = RMain;
  r_mainu : forall u, role_of (get (thr s) u) = RMain -> u = 0;
  r_worker : forall u, role_of (get (thr s) u) = RWorker -> 1 <= u <= nworkers cfg;
  r_client : forall u, role_of (get (thr s) u) = RClient -> nworkers cfg < u;
  r_ctor : forall k, get (thr s) 0 = TM (M0 k) -> k < nworkers cfg /\ forall u, k < u -> get (thr s) u = TNone;
  r_wf : forall u, 1 <= u <= nworkers cfg ->
         (role_of (get (thr s) u) = RWorker \/ get (thr s) u = TFin) \/ exists k, get (thr s) 0 = TM (M0 k) /\ k < u;
  r_exit : forall u, exited (get (thr s) u) = true -> term (shr s) = true;
  r_wfin : forall u, 1 <= u <= nworkers cfg -> get (thr s) u = TFin -> term (shr s) = true;
  r_mterm : mterm (get (thr s) 0) = true -> term (shr s) = true;
  r_join : forall k, get (thr s) 0 = TM (M7 k) -> k < nworkers cfg
}.

Ltac conts_goal :=
  unfold main_ctor, main_spawnc, main_ops, main_joinc, main_joinw, client_next, job_next;
  repeat match goal with
         | |- context [if ?b then _ else _] => destruct b
         | |- context [match ?l with [] => _ | _ => _ end] => destruct l as [|[] ?]
         end.

Lemma main_pre_facts cfg ts :
  (exists k, ts = main_ctor cfg k) \/ (exists k, ts = main_spawnc cfg k) \/ (exists r, ts = main_ops cfg r) \/ (exists k, ts = main_joinc cfg k) ->
  mterm ts = false /\ (forall k, ts <> TM (M7 k)) /\ exited ts = false /\ ts <> TFin.
Proof.
  intros [(k & ->)|[(k & ->)|[(r & ->)|(k & ->)]]]; (split; [|split; [intros k0|split]]); conts_goal; try reflexivity; discriminate.
Qed.
Lemma main_post_facts cfg ts :
  (exists r, ts = main_ops cfg r) \/ (exists k, ts = main_joinc cfg k) \/ (exists k, ts = main_joinw cfg k) ->
  (forall k, ts <> TM (M0 k)) /\ exited ts = false /\ ts <> TFin.
Proof.
  intros [(r & ->)|[(k & ->)|(k & ->)]]; (split; [intros k0|split]); conts_goal; try reflexivity; discriminate.
Qed.

Lemma rinv_init cfg : 1 <= nworkers cfg -> RInv cfg (init cfg).
Proof.
  intros HW. assert (G : forall u, u <> 0 -> get (thr (init cfg)) u = TNone) by (intros [|[|u]] Hu; try congruence; reflexivity).
  assert (G0 : get (thr (init cfg)) 0 = main_ctor cfg 0) by reflexivity.
  destruct (main_pre_facts cfg (main_ctor cfg 0)) as (F1 & F2 & F3 & F4); [left; eauto|].
  constructor.
  - rewrite G0. apply role_main_ctor.
  - intros u Hu. destruct (Nat.eq_dec u 0); auto. rewrite G in Hu by auto. discriminate.
  - intros u Hu. destruct (Nat.eq_dec u 0) as [->|]; [rewrite G0, role_main_ctor in Hu; discriminate | rewrite G in Hu by auto; discriminate].
  - intros u Hu. destruct (Nat.eq_dec u 0) as [->|]; [rewrite G0, role_main_ctor in Hu; discriminate | rewrite G in Hu by auto; discriminate].
  - intros k Hk. rewrite G0 in Hk. apply main_ctor_M0 in Hk. destruct Hk as (-> & Hk). split; auto. intros u Hu. apply G. lia.
  - intros u Hu. right. exists 0. split; [|lia]. rewrite G0. unfold main_ctor. replace (Nat.ltb 0 (nworkers cfg)) with true; auto.
    symmetry. apply Nat.ltb_lt. lia.
  - intros u Hu. destruct (Nat.eq_dec u 0) as [->|]; [rewrite G0 in Hu; congruence | rewrite G in Hu by auto; discriminate].
  - intros u Hu E. rewrite G in E by lia. discriminate.
  - rewrite G0. congruence.
  - intros k Hk. rewrite G0 in Hk. exfalso. eapply F2; eauto.
Qed.

(** a step that changes only the stepping thread's state and spawns nothing *)
Lemma rinv_upd cfg s t sh' ts' :
  RInv cfg s ->
  role_of (get (thr s) t) <> RNone ->
  (role_of ts' = role_of (get (thr s) t) \/ (ts' = TFin /\ (get (thr s) t = TW W9e \/ get (thr s) t = TCE))) ->
  (forall k, get (thr s) t <> TM (M0 k)) -> (forall k, ts' <> TM (M0 k)) ->
  (term (shr s) = true -> term sh' = true) ->
  (exited ts' = true -> term sh' = true) ->
  (mterm ts' = true -> term sh' = true) ->
  (forall k, ts' = TM (M7 k) -> k < nworkers cfg) ->
  RInv cfg {| shr := sh'; thr := set (thr s) t ts' |}.
Proof.
  intros [R1 R2 R3 R4 R5 R6 R7 R8 R9 R10] Hn Hr Hc Hc' Ht He Hm Hj.
  set (ts := get (thr s) t) in *.
  assert (G : forall u, u <> t -> get (set (thr s) t ts') u = get (thr s) u) by (intros; apply get_set_neq; congruence).
  assert (Gt : get (set (thr s) t ts') t = ts') by apply get_set_eq.
  assert (RR : forall r, r <> RNone -> role_of ts' = r -> role_of ts = r).
  { intros r Hr0 E. destruct Hr as [Hr|(-> & _)]; [congruence | cbn in E; congruence]. }
  constructor; cbn [shr thr].
  - destruct (Nat.eq_dec 0 t) as [<-|Hne]; [|now rewrite G by auto].
    rewrite Gt. destruct Hr as [Hr|(_ & [Hr|Hr])]; [unfold ts in Hr; congruence | |]; fold ts in R1; rewrite Hr in R1; discriminate.
  - intros u. destruct (Nat.eq_dec u t) as [->|Hne]; [rewrite Gt; intros E; apply R2; apply RR; [discriminate|auto] | rewrite G by auto; apply R2].
  - intros u. destruct (Nat.eq_dec u t) as [->|Hne]; [rewrite Gt; intros E; apply R3; apply RR; [discriminate|auto] | rewrite G by auto; apply R3].
  - intros u. destruct (Nat.eq_dec u t) as [->|Hne]; [rewrite Gt; intros E; apply R4; apply RR; [discriminate|auto] | rewrite G by auto; apply R4].
  - intros k. destruct (Nat.eq_dec 0 t) as [<-|Hne]; [rewrite Gt; intros E; exfalso; eapply Hc'; eauto|].
    rewrite G by auto. intros E. destruct (R5 k E) as (A & B). split; auto. intros u Hu.
    destruct (Nat.eq_dec u t) as [->|Hu']; [|rewrite G by auto; auto].
    exfalso. apply Hn. fold ts. unfold ts. rewrite (B t Hu). reflexivity.
  - intros u Hu. destruct (Nat.eq_dec u t) as [->|Hne].
    + left. rewrite Gt. destruct (R6 t Hu) as [[A|A]|(k & A & B)].
      * destruct Hr as [Hr|(-> & _)]; [left; fold ts in A; congruence | now right].
      * exfalso. apply Hn. fold ts in A. unfold ts in *. rewrite A. reflexivity.
      * exfalso. apply Hn. destruct (R5 k A) as (_ & C). fold ts. unfold ts. rewrite (C t B). reflexivity.
    + rewrite G by auto. destruct (R6 u Hu) as [A|(k & A & B)]; [now left|]. right. exists k. split; auto.
      destruct (Nat.eq_dec 0 t) as [<-|H0]; [exfalso; eapply Hc; eauto | now rewrite G by auto].
  - intros u. destruct (Nat.eq_dec u t) as [->|Hne]; [rewrite Gt; auto | rewrite G by auto; intros E; apply Ht; eapply R7; eauto].
  - intros u Hu. destruct (Nat.eq_dec u t) as [->|Hne].
    + rewrite Gt. intros ->. destruct Hr as [Hr|(_ & [Hr|Hr])].
      * exfalso. apply Hn. fold ts. cbn in Hr. congruence.
      * apply Ht. apply (R7 t). fold ts. now rewrite Hr.
      * exfalso. assert (nworkers cfg < t) by (apply R4; fold ts; now rewrite Hr). lia.
    + rewrite G by auto. intros E. apply Ht. eapply R8; eauto.
  - destruct (Nat.eq_dec 0 t) as [<-|Hne]; [rewrite Gt; auto | rewrite G by auto; intros E; apply Ht; auto].
  - intros k. destruct (Nat.eq_dec 0 t) as [<-|Hne]; [rewrite Gt; auto | rewrite G by auto; apply R10].
Qed.

Lemma rinv_add_client cfg sh l u v :
  RInv cfg {| shr := sh; thr := l |} -> get l u = TNone -> (forall k, get l 0 <> TM (M0 k)) ->
  role_of v = RClient -> nworkers cfg < u ->
  RInv cfg {| shr := sh; thr := set l u v |}.
Proof.
  intros [R1 R2 R3 R4 R5 R6 R7 R8 R9 R10] Hu Hc Hv Hw. cbn [shr thr] in *.
  assert (G : forall w, w <> u -> get (set l u v) w = get l w) by (intros; apply get_set_neq; congruence).
  assert (Gu : get (set l u v) u = v) by apply get_set_eq.
  assert (U0 : 0 <> u) by lia.
  constructor; cbn [shr thr]; rewrite ?(G 0) by auto; auto.
  - intros w. destruct (Nat.eq_dec w u) as [->|Hne]; [rewrite Gu; congruence | rewrite G by auto; apply R2].
  - intros w. destruct (Nat.eq_dec w u) as [->|Hne]; [rewrite Gu; congruence | rewrite G by auto; apply R3].
  - intros w. destruct (Nat.eq_dec w u) as [->|Hne]; [rewrite Gu; auto | rewrite G by auto; apply R4].
  - intros k E. exfalso. eapply Hc; eauto.
  - intros w Hw'. rewrite G by lia. destruct (R6 w Hw') as [A|(k & A & _)]; [now left | exfalso; eapply Hc; eauto].
  - intros w. destruct (Nat.eq_dec w u) as [->|Hne]; [rewrite Gu; destruct v; try discriminate Hv; discriminate | rewrite G by auto; apply R7].
  - intros w Hw'. rewrite G by lia. apply R8; auto.
Qed.

Lemma rinv_spawn_worker cfg s k :
  RInv cfg s -> get (thr s) 0 = TM (M0 k) ->
  RInv cfg {| shr := shr s; thr := set (set (thr s) 0 (main_ctor cfg (S k))) (S k) (TW W0) |}.
Proof.
  intros [R1 R2 R3 R4 R5 R6 R7 R8 R9 R10] E.
  destruct (R5 k E) as (Hk & HN).
  set (l' := set (set (thr s) 0 (main_ctor cfg (S k))) (S k) (TW W0)).
  assert (G0 : get l' 0 = main_ctor cfg (S k)) by (unfold l'; rewrite get_set_neq by lia; apply get_set_eq).
  assert (Gk : get l' (S k) = TW W0) by (unfold l'; apply get_set_eq).
  assert (G : forall u, u <> 0 -> u <> S k -> get l' u = get (thr s) u).
  { intros u A B. unfold l'. rewrite get_set_neq by congruence. apply get_set_neq. congruence. }
  destruct (main_pre_facts cfg (main_ctor cfg (S k))) as (F1 & F2 & F3 & F4); [left; eauto|].
  constructor; cbn [shr thr]; fold l'.
  - rewrite G0. apply role_main_ctor.
  - intros u. destruct (Nat.eq_dec u 0) as [->|H0]; auto. destruct (Nat.eq_dec u (S k)) as [->|H1]; [rewrite Gk; discriminate|].
    rewrite G by auto. apply R2.
  - intros u. destruct (Nat.eq_dec u 0) as [->|H0]; [rewrite G0, role_main_ctor; discriminate|].
    destruct (Nat.eq_dec u (S k)) as [->|H1]; [intros _; lia|]. rewrite G by auto. apply R3.
  - intros u. destruct (Nat.eq_dec u 0) as [->|H0]; [rewrite G0, role_main_ctor; discriminate|].
    destruct (Nat.eq_dec u (S k)) as [->|H1]; [rewrite Gk; discriminate|]. rewrite G by auto. apply R4.
  - intros k'. rewrite G0. intros X. apply main_ctor_M0 in X. destruct X as (-> & X). split; auto.
    intros u Hu. rewrite G by lia. apply HN. lia.
  - intros u Hu. destruct (Nat.eq_dec u (S k)) as [->|H1]; [left; left; now rewrite Gk|].
    destruct (Nat.lt_ge_cases u (S k)) as [Hlt|Hge].
    + rewrite G by lia. destruct (R6 u Hu) as [A|(k' & A & B)]; [now left|]. rewrite E in A. inversion A; subst. lia.
    + right. exists (S k). split; [|lia]. rewrite G0. unfold main_ctor.
      replace (Nat.ltb (S k) (nworkers cfg)) with true; auto. symmetry. apply Nat.ltb_lt. lia.
  - intros u. destruct (Nat.eq_dec u 0) as [->|H0]; [rewrite G0; congruence|].
    destruct (Nat.eq_dec u (S k)) as [->|H1]; [rewrite Gk; discriminate|]. rewrite G by auto. apply R7.
  - intros u Hu. destruct (Nat.eq_dec u (S k)) as [->|H1]; [rewrite Gk; discriminate|]. rewrite G by lia. apply R8; auto.
  - rewrite G0. congruence.
  - intros k'. rewrite G0. intros X. exfalso. eapply F2; eauto.
Qed.

Lemma tstep_tmo cfg fx sp fin t s a r e s' ts' spw :
  tstep cfg fx sp fin t s (TMO a r) e = Some (s', ts', spw) -> (exists a', ts' = TMO a' r) \/ ts' = main_ops cfg r.
Proof.
  intros H. cbn [tstep] in H. destruct (api_step fx sp t s a e) as [[? [?|]]|]; inversion H; subst; eauto.
Qed.

Ltac rfin :=
  first [ solve [left; cbn; first [apply role_main_spawnc | apply role_main_joinc | apply role_main_joinw | reflexivity]]
        | solve [intros k0; apply main_spawnc_not_ctor]
        | solve [intros k0 X; exfalso; match goal with F : forall k, _ <> TM (M7 k) |- _ => eapply F; eauto end]
        | solve [intros k0 X; apply main_joinw_M7 in X; lia]
        | solve [intros k0; match goal with P : forall k, _ <> TM (M0 k) |- _ => apply P end]
        | solve [intros _; match goal with T : term _ = term _ |- _ => rewrite T end;
                 match goal with HR : RInv _ _, E : get _ 0 = _ |- _ => apply (r_mterm _ _ HR); rewrite E; reflexivity end]
        | solve [intros _; match goal with HR : RInv _ _, E : get _ 0 = _ |- _ => apply (r_mterm _ _ HR); rewrite E; reflexivity end]
        | solve [auto] ].

Lemma rinv_step cfg fx sp s te s' : RInv cfg s -> lstep_gen cfg fx sp s te = Some s' -> RInv cfg s'.
Proof.
  intros HR H. destruct te as [t e]. unfold lstep_gen in H.
  destruct (tstep cfg fx sp (fun u => is_fin (get (thr s) u)) t (shr s) (get (thr s) t) e) as [[[sh' ts'] spw]|] eqn:Ht; [|discriminate].
  destruct (tstep_role _ _ _ _ _ _ _ _ _ _ _ Ht) as (Hr & Hn).
  pose proof (tstep_term _ _ _ _ _ _ _ _ _ _ _ Ht) as Hterm.
  pose proof (tstep_exited _ _ _ _ _ _ _ _ _ _ _ Ht (r_exit _ _ HR t)) as Hex.
  destruct (get (thr s) t) as [| |p|tk j|tk j|tk j a r|tk j|a r| |p|a r] eqn:Ets;
    try (exfalso; apply Hn; reflexivity).
  8: { (* main thread outside its API calls *)
    assert (t = 0) by (apply (r_mainu _ _ HR); now rewrite Ets). subst t.
    pose proof (tstep_main _ _ _ _ _ _ _ _ _ _ _ Ht) as M.
    destruct p as [k|k|k| | | | |k|]; try contradiction.
    - destruct M as (-> & -> & ->). destruct (is_none (get (thr s) (S k))); [|discriminate]. inversion H; subst.
      now apply rinv_spawn_worker.
    - destruct M as (-> & (v & -> & Hv) & ->). destruct (is_none (get (thr s) (nworkers cfg + 1 + k))) eqn:Hnone; [|discriminate].
      inversion H; subst; clear H.
      assert (Hu : get (thr s) (nworkers cfg + 1 + k) = TNone) by (destruct (get (thr s) (nworkers cfg + 1 + k)); try discriminate; reflexivity).
      destruct (main_pre_facts cfg (main_spawnc cfg (S k))) as (F1 & F2 & F3 & F4); [right; left; eauto|].
      apply (rinv_add_client cfg (shr s) (set (thr s) 0 (main_spawnc cfg (S k))) (nworkers cfg + 1 + k) v); auto; try lia.
      + apply (rinv_upd cfg s 0 (shr s) (main_spawnc cfg (S k))); auto; rewrite ?Ets; try discriminate; try congruence; rfin.
      + rewrite get_set_neq by lia. exact Hu.
      + intros k0. rewrite get_set_eq. apply main_spawnc_not_ctor.
    - destruct M as (-> & -> & -> & _). inversion H; subst; clear H.
      destruct (main_pre_facts cfg (main_joinc cfg (S k))) as (F1 & F2 & F3 & F4); [right; right; right; eauto|].
      destruct (main_post_facts cfg (main_joinc cfg (S k))) as (P1 & _); [right; left; eauto|].
      apply (rinv_upd cfg s 0 (shr s) (main_joinc cfg (S k))); auto; rewrite ?Ets; try discriminate; try congruence; rfin.
    - destruct M as (-> & -> & T). inversion H; subst; clear H.
      apply (rinv_upd cfg s 0 sh' (TM M4)); auto; rewrite ?Ets; try discriminate; try congruence; rfin.
    - destruct M as (-> & -> & T). inversion H; subst; clear H.
      apply (rinv_upd cfg s 0 sh' (TM M5)); auto; rewrite ?Ets; try discriminate; try congruence; rfin.
    - destruct M as (-> & -> & T). inversion H; subst; clear H.
      apply (rinv_upd cfg s 0 sh' (TM M6)); auto; rewrite ?Ets; try discriminate; try congruence; rfin.
    - destruct M as (-> & -> & T). inversion H; subst; clear H.
      destruct (main_post_facts cfg (main_joinw cfg 0)) as (P1 & P2 & P3); [right; right; eauto|].
      apply (rinv_upd cfg s 0 sh' (main_joinw cfg 0)); auto; rewrite ?Ets; try discriminate; try congruence; rfin.
    - destruct M as (-> & -> & -> & _). inversion H; subst; clear H.
      destruct (main_post_facts cfg (main_joinw cfg (S k))) as (P1 & P2 & P3); [right; right; eauto|].
      apply (rinv_upd cfg s 0 (shr s) (main_joinw cfg (S k))); auto; rewrite ?Ets; try discriminate; try congruence; rfin. }
  (* all other threads: no spawn *)
  all: assert (spw = None) by (eapply tstep_nomain_spawn; eauto; discriminate); subst spw; inversion H; subst; clear H.
  all: apply (rinv_upd cfg s t sh' ts'); auto; rewrite ?Ets; try discriminate; auto.
  all: try (intros k X; subst ts'; destruct Hr as [Hr|(Hr & _)]; discriminate Hr).
  all: try (intros X; exfalso; destruct ts' as [| |q| | | | | | |q|]; try discriminate X; destruct Hr as [Hr|(Hr & _)]; discriminate Hr).
  all: destruct (tstep_tmo _ _ _ _ _ _ _ _ _ _ _ _ Ht) as [(a' & E')|E']; subst ts'; try discriminate.
  all: destruct (main_pre_facts cfg (main_ops cfg r)) as (F1 & F2 & F3 & F4); [right; right; left; eauto|].
  all: destruct (main_post_facts cfg (main_ops cfg r)) as (P1 & P2 & P3); [left; eauto|].
  all: try congruence; try (intros k X; exfalso; eapply F2; eauto); auto.
Qed.

Lemma rinv_reachable cfg fx sp s : 1 <= nworkers cfg -> reachable_gen cfg fx sp s -> RInv cfg s.
Proof.
  intros HW. induction 1 as [|s te s' R IH H|s te s' R IH H]; [now apply rinv_init | eapply rinv_step; eauto|].
  destruct te as [t e]. destruct (xstep_inv _ _ _ _ H) as (Et & _ & (_ & _ & _ & _ & T & _) & _).
  destruct IH as [R1 R2 R3 R4 R5 R6 R7 R8 R9 R10]. constructor; rewrite Et, ?T; auto.
Qed.

Lemma role_worker_is_worker ts : role_of ts = RWorker -> is_worker ts = true.
Proof. destruct ts; cbn; congruence. Qed.

(** In a quiescent state of a terminated pool every worker thread has ended. *)
Lemma terminated_workers_end cfg s u :
  1 <= nworkers cfg -> reachable cfg false s -> quiescent cfg true false s -> no_blocked_job s -> term (shr s) = true ->
  role_of (get (thr s) u) = RWorker -> False.
Proof.
  intros HW R Q NB T Hu.
  pose proof (inv_reachable _ _ _ _ R) as HI. pose proof (jinv_reachable _ _ _ _ R) as HJ.
  pose proof (quiescent_free _ _ _ R Q) as Ho.
  assert (Hn : ~ In u (wsJ (shr s))).
  { intros Hin. destruct (j_sleep _ HJ (ex_intro _ u Hin)) as [X|(w & P)]; [congruence|].
    apply pendJ_hold in P. rewrite (free_not_hold _ _ HI Ho) in P. discriminate. }
  destruct (worker_enabled cfg s u R Ho (role_worker_is_worker _ Hu) Hn (NB u)) as (e & s' & E).
  unfold lstep in E. rewrite (Q u e) in E. discriminate.
Qed.

(** The destructor (and therefore the whole main program after the clients are joined) is never stuck once the
    running jobs finish: no quiescent state in which no job body is blocked in a rendezvous has the main thread
    blocked in threads_[k].join(). *)
Theorem destructor_not_stuck cfg s u :
  1 <= nworkers cfg -> reachable cfg false s -> quiescent cfg true false s -> no_blocked_job s -> in_dtor_join (get (thr s) u) = false.
Proof.
  intros HW R Q NB. destruct (in_dtor_join (get (thr s) u)) eqn:D; [exfalso|reflexivity].
  pose proof (rinv_reachable _ _ _ _ HW R) as HR.
  destruct (get (thr s) u) as [| |?| | | | | | |p|] eqn:Eu; try discriminate D. destruct p as [| | | | | | |k|]; try discriminate D.
  assert (u = 0) by (apply (r_mainu _ _ HR); now rewrite Eu). subst u.
  pose proof (r_join _ _ HR k Eu) as Hk.
  assert (T : term (shr s) = true) by (apply (r_mterm _ _ HR); now rewrite Eu).
  destruct (r_wf _ _ HR (S k)) as [[A|A]|(k' & A & _)]; [lia| | |congruence].
  - eapply terminated_workers_end; eauto.
  - assert (E : lstep_gen cfg true false s (0, EJoin (S k)) <> None).
    { unfold lstep_gen. rewrite Eu. cbn [tstep]. rewrite Nat.eqb_refl, A. cbn. discriminate. }
    apply E. apply Q.
Qed.
