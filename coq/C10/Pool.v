(** C10 -- tlx::ThreadPool as a labelled transition system.

    One event = one token logged by the deterministic scheduler shim (harness/sched/verif_sched.hpp) when
    the REAL tlx/thread_pool.cpp runs under it:  lock / unlock of mutex_, wait-begin / wait-end and
    notify_one / notify_all of cv_jobs_ (CJ) and cv_finished_ (CF), every load / store / read-modify-write
    of the atomics busy_ idle_ done_ terminate_, thread spawn / join / end, and the user events of the
    harness (job body start / end, call markers, return of loop_until_empty).  Statements that are not
    shim operations (jobs_.emplace_back, jobs_.empty(), jobs_.pop_front()) are atomic with the preceding
    shim event of the same thread (no scheduling point in between) and are modelled there.

    The per-thread program counters follow tlx/thread_pool.cpp statement by statement; see [wpc] (worker()),
    [api] (enqueue, terminate, loop_until_empty, loop_until_terminate, done) and [mpc] (constructor,
    destructor, and the harness' main program).

    [fx] selects the repaired code ([true]: cv_finished_.notify_all() in worker() and terminate(),
    fixes/C10/01-threadpool-notify-all.patch) or the shipped code ([false]: notify_one()).
    [sp] selects the semantics with ([true]) or without ([false]) spurious condition-variable wake-ups. *)
From Coq Require Import List Arith Bool.
Import ListNotations.

(** * Events *)
Inductive cv := CJ | CF.                        (* c0 = cv_jobs_, c1 = cv_finished_ *)
Inductive av := ABusy | AIdle | ADone | ATerm.  (* a0 = busy_, a1 = idle_, a2 = done_, a3 = terminate_ *)
Inductive utag := UJS | UJE | UENQ | ULE | ULT | UTERM | UWD.

Inductive ev :=
| ELock | EUnlock
| EUnlockR (n : nat)                 (* U:m0 immediately followed by the note US:LER:n of the same thread *)
| EWB (c : cv) | EWE (c : cv) (spur : bool)
| EN1 (c : cv) (w : option nat) | ENA (c : cv)
| EAL (a : av) (v : nat) | EAS (a : av) (v : nat) | EAR (a : av) (o n : nat)
| ESpawn (u : nat) | EJoin (u : nat) | EEnd
| EUser (g : utag) (x : nat).

(** * Programs (the parameters of a scenario) *)
Inductive cop := CEnq (j : nat) | CLoopEmpty | CLoopTerm | CTerminate | CDone.   (* client operations *)
Inductive jop := JEnq (j : nat) | JTerm | JWait (j : nat).   (* what a job body may do; JWait j = block until the body of job j has ended *)

Record config := {
  nworkers : nat;
  jobprog : nat -> list jop;        (* body of job id j *)
  clients : list (list cop);        (* programs of the client threads, thread ids nworkers+1 ... *)
  mainops : list cop                (* operations of the main thread between spawning and joining the clients *)
}.

(** * Program counters *)
(** Inside one API call. *)
Inductive api :=
| QEnqC (j : nat)   (* note ENQ j *)
| QEnq0 (j : nat)   (* unique_lock: Lock; then jobs_.emplace_back *)
| QEnq1             (* cv_jobs_.notify_one()  [notify_all() is accepted as well] *)
| QEnq2             (* ~unique_lock: Unlock *)
| QTermC | QTerm0   (* note TERM; Lock *)
| QTerm1            (* terminate_ = true *)
| QTerm2            (* cv_jobs_.notify_all() *)
| QTerm3            (* cv_finished_.notify_one()  [fixed: notify_all()] *)
| QTerm4            (* Unlock *)
| QLEC | QLE0       (* note LE; Lock *)
| QLE1              (* predicate: jobs_.empty() && busy_ == 0 *)
| QLE2              (* predicate false after loading busy_: wait-begin *)
| QLE3              (* in wait: wait-end *)
| QLE4              (* predicate true: fence (no-op), Unlock, return *)
| QLTC | QLT0       (* note LT; Lock *)
| QLT1              (* predicate: load terminate_ *)
| QLT1b             (* ... && busy_ == 0 *)
| QLT2 | QLT3 | QLT4
| QDone             (* done(): load done_ *)
| QWait (j : nat).  (* (job body only) rendezvous: blocked until the body of job id j has ended; then user event WD j *)

(** worker(), outside the job body. *)
Inductive wpc :=
| W0      (* unique_lock lock(mutex_) *)
| W1      (* if (!terminate_ && jobs_.empty()) : load terminate_ *)
| W2      (* ++idle_ *)
| W3      (* cv_jobs_.wait predicate: terminate_ || !jobs_.empty() *)
| W4      (* wait-begin *)
| W5      (* wait-end *)
| W6      (* --idle_ *)
| W8      (* if (terminate_) break; if (!jobs_.empty()) *)
| W9      (* after break: ~unique_lock *)
| W9e     (* thread end *)
| W10     (* ++busy_; then job = jobs_.front(); jobs_.pop_front() *)
| WD0     (* after the job: ++done_ *)
| WD1     (* --busy_ *)
| WD2     (* lock.lock() *)
| WD3.    (* cv_finished_.notify_one()  [fixed: notify_all()] *)

(** main thread: constructor, harness program, destructor. *)
Inductive mpc :=
| M0 (k : nat)     (* constructor: spawn worker k+1 *)
| M1 (k : nat)     (* spawn client k *)
| M2 (k : nat)     (* join client k *)
| M3               (* ~ThreadPool: Lock *)
| M4               (* terminate_ = true *)
| M5               (* cv_jobs_.notify_all() *)
| M6               (* lock.unlock() *)
| M7 (k : nat)     (* threads_[k].join() *)
| M8.              (* done *)

Inductive tstate :=
| TNone                                            (* no such thread (yet) *)
| TFin                                             (* thread ended *)
| TW (p : wpc)
| TWJ0 (tk j : nat)                                (* job popped, lock.unlock() *)
| TWJ1 (tk j : nat)                                (* job(): user event JS *)
| TWJ (tk j : nat) (a : api) (rest : list jop)     (* inside the job body, inside an API call *)
| TWJE (tk j : nat)                                (* end of the job body: user event JE *)
| TC (a : api) (rest : list cop)                   (* client inside an API call *)
| TCE                                              (* client: thread end *)
| TM (p : mpc)
| TMO (a : api) (rest : list cop).                 (* main thread running its own operations *)

(** * Shared state *)
Record shared := {
  queue : list (nat * nat);     (* jobs_ : (ticket, job id); ticket = serial number of the enqueue *)
  busy : nat; idle : nat; done : nat; term : bool;
  owner : option nat;           (* mutex_ *)
  wsJ : list nat;               (* threads blocked in cv_jobs_.wait, not yet notified *)
  wsF : list nat;               (* same for cv_finished_ *)
  woken : list nat;             (* notified, have to re-acquire the mutex *)
  npushed : nat;                (* history: number of enqueues so far *)
  started : list nat;           (* history: tickets popped by a worker *)
  ended : list nat;             (* history: tickets whose job body has ended *)
  endedj : list nat             (* history: job ids whose body has ended (what a rendezvous waits for) *)
}.

Definition sh0 : shared :=
  {| queue := []; busy := 0; idle := 0; done := 0; term := false; owner := None;
     wsJ := []; wsF := []; woken := []; npushed := 0; started := []; ended := []; endedj := [] |}.

Definition set_owner o s := {| queue := queue s; busy := busy s; idle := idle s; done := done s; term := term s; owner := o;
  wsJ := wsJ s; wsF := wsF s; woken := woken s; npushed := npushed s; started := started s; ended := ended s; endedj := endedj s |}.
Definition set_busy n s := {| queue := queue s; busy := n; idle := idle s; done := done s; term := term s; owner := owner s;
  wsJ := wsJ s; wsF := wsF s; woken := woken s; npushed := npushed s; started := started s; ended := ended s; endedj := endedj s |}.
Definition set_idle n s := {| queue := queue s; busy := busy s; idle := n; done := done s; term := term s; owner := owner s;
  wsJ := wsJ s; wsF := wsF s; woken := woken s; npushed := npushed s; started := started s; ended := ended s; endedj := endedj s |}.
Definition set_done n s := {| queue := queue s; busy := busy s; idle := idle s; done := n; term := term s; owner := owner s;
  wsJ := wsJ s; wsF := wsF s; woken := woken s; npushed := npushed s; started := started s; ended := ended s; endedj := endedj s |}.
Definition set_term b s := {| queue := queue s; busy := busy s; idle := idle s; done := done s; term := b; owner := owner s;
  wsJ := wsJ s; wsF := wsF s; woken := woken s; npushed := npushed s; started := started s; ended := ended s; endedj := endedj s |}.
Definition set_ws c l s := {| queue := queue s; busy := busy s; idle := idle s; done := done s; term := term s; owner := owner s;
  wsJ := match c with CJ => l | CF => wsJ s end; wsF := match c with CJ => wsF s | CF => l end;
  woken := woken s; npushed := npushed s; started := started s; ended := ended s; endedj := endedj s |}.
Definition set_woken l s := {| queue := queue s; busy := busy s; idle := idle s; done := done s; term := term s; owner := owner s;
  wsJ := wsJ s; wsF := wsF s; woken := l; npushed := npushed s; started := started s; ended := ended s; endedj := endedj s |}.
Definition push j s := {| queue := queue s ++ [(npushed s, j)]; busy := busy s; idle := idle s; done := done s; term := term s;
  owner := owner s; wsJ := wsJ s; wsF := wsF s; woken := woken s; npushed := S (npushed s); started := started s; ended := ended s; endedj := endedj s |}.
Definition pop_to q tk s := {| queue := q; busy := busy s; idle := idle s; done := done s; term := term s;
  owner := owner s; wsJ := wsJ s; wsF := wsF s; woken := woken s; npushed := npushed s; started := tk :: started s; ended := ended s; endedj := endedj s |}.
Definition add_ended tk j s := {| queue := queue s; busy := busy s; idle := idle s; done := done s; term := term s;
  owner := owner s; wsJ := wsJ s; wsF := wsF s; woken := woken s; npushed := npushed s; started := started s; ended := tk :: ended s; endedj := j :: endedj s |}.

Definition ws c s := match c with CJ => wsJ s | CF => wsF s end.
Definition mem (t : nat) (l : list nat) : bool := existsb (Nat.eqb t) l.
Definition rem (t : nat) (l : list nat) : list nat := filter (fun x => negb (Nat.eqb t x)) l.
Definition owned (t : nat) (s : shared) : bool := match owner s with Some u => Nat.eqb u t | None => false end.
Definition free (s : shared) : bool := match owner s with Some _ => false | None => true end.
Definition b2n (b : bool) : nat := if b then 1 else 0.
Definition qempty (s : shared) : bool := match queue s with [] => true | _ => false end.

(** mutex / condition variable / atomics: the semantics of DESIGN.md section 4.1 *)
Definition do_lock t s := if free s then Some (set_owner (Some t) s) else None.
Definition do_unlock t s := if owned t s then Some (set_owner None s) else None.
Definition do_wb c t s := if owned t s then Some (set_ws c (ws c s ++ [t]) (set_owner None s)) else None.
Definition do_we (sp : bool) c (spur : bool) t s :=
  if free s then
    if spur then (if sp && mem t (ws c s) then Some (set_owner (Some t) (set_ws c (rem t (ws c s)) s)) else None)
    else (if mem t (woken s) then Some (set_owner (Some t) (set_woken (rem t (woken s)) s)) else None)
  else None.
Definition do_n1 c (w : option nat) s :=
  match w with
  | None => match ws c s with [] => Some s | _ => None end
  | Some u => if mem u (ws c s) then Some (set_woken (u :: woken s) (set_ws c (rem u (ws c s)) s)) else None
  end.
Definition do_na c s := set_woken (ws c s ++ woken s) (set_ws c [] s).

(** * API calls: [api_step] returns the new shared state and the next pc ([None] = the call returned). *)
Definition api_step (fx sp : bool) (t : nat) (s : shared) (a : api) (e : ev) : option (shared * option api) :=
  match a with
  | QEnqC j => match e with EUser UENQ x => if Nat.eqb x j then Some (s, Some (QEnq0 j)) else None | _ => None end
  | QEnq0 j => match e with ELock => match do_lock t s with Some s' => Some (push j s', Some QEnq1) | None => None end | _ => None end
  | QEnq1 => match e with
             | EN1 CJ w => match do_n1 CJ w s with Some s' => Some (s', Some QEnq2) | None => None end
             | ENA CJ => Some (do_na CJ s, Some QEnq2)      (* an implementation may wake all idle workers instead of one *)
             | _ => None end
  | QEnq2 => match e with EUnlock => match do_unlock t s with Some s' => Some (s', None) | None => None end | _ => None end
  | QTermC => match e with EUser UTERM x => if Nat.eqb x 0 then Some (s, Some QTerm0) else None | _ => None end
  | QTerm0 => match e with ELock => match do_lock t s with Some s' => Some (s', Some QTerm1) | None => None end | _ => None end
  | QTerm1 => match e with EAS ATerm 1 => Some (set_term true s, Some QTerm2) | _ => None end
  | QTerm2 => match e with ENA CJ => Some (do_na CJ s, Some QTerm3) | _ => None end
  | QTerm3 => match e with
              | ENA CF => if fx then Some (do_na CF s, Some QTerm4) else None
              | EN1 CF w => if fx then None else match do_n1 CF w s with Some s' => Some (s', Some QTerm4) | None => None end
              | _ => None end
  | QTerm4 => match e with EUnlock => match do_unlock t s with Some s' => Some (s', None) | None => None end | _ => None end
  | QLEC => match e with EUser ULE x => if Nat.eqb x 0 then Some (s, Some QLE0) else None | _ => None end
  | QLE0 => match e with ELock => match do_lock t s with Some s' => Some (s', Some QLE1) | None => None end | _ => None end
  | QLE1 => match e with
            | EAL ABusy v => if qempty s && Nat.eqb v (busy s) then Some (s, Some (if Nat.eqb v 0 then QLE4 else QLE2)) else None
            | EWB CF => if qempty s then None else match do_wb CF t s with Some s' => Some (s', Some QLE3) | None => None end
            | _ => None end
  | QLE2 => match e with EWB CF => match do_wb CF t s with Some s' => Some (s', Some QLE3) | None => None end | _ => None end
  | QLE3 => match e with EWE CF spur => match do_we sp CF spur t s with Some s' => Some (s', Some QLE1) | None => None end | _ => None end
  | QLE4 => match e with EUnlockR n => if Nat.eqb n (length (ended s)) then
                                        match do_unlock t s with Some s' => Some (s', None) | None => None end else None
                    | _ => None end
  | QLTC => match e with EUser ULT x => if Nat.eqb x 0 then Some (s, Some QLT0) else None | _ => None end
  | QLT0 => match e with ELock => match do_lock t s with Some s' => Some (s', Some QLT1) | None => None end | _ => None end
  | QLT1 => match e with EAL ATerm v => if Nat.eqb v (b2n (term s)) then Some (s, Some (if term s then QLT1b else QLT2)) else None | _ => None end
  | QLT1b => match e with EAL ABusy v => if Nat.eqb v (busy s) then Some (s, Some (if Nat.eqb v 0 then QLT4 else QLT2)) else None | _ => None end
  | QLT2 => match e with EWB CF => match do_wb CF t s with Some s' => Some (s', Some QLT3) | None => None end | _ => None end
  | QLT3 => match e with EWE CF spur => match do_we sp CF spur t s with Some s' => Some (s', Some QLT1) | None => None end | _ => None end
  | QLT4 => match e with EUnlock => match do_unlock t s with Some s' => Some (s', None) | None => None end | _ => None end
  | QDone => match e with EAL ADone v => if Nat.eqb v (done s) then Some (s, None) else None | _ => None end
  | QWait j => match e with EUser UWD x => if Nat.eqb x j && mem j (endedj s) then Some (s, None) else None | _ => None end
  end.

Definition api_of_cop (o : cop) : api :=
  match o with CEnq j => QEnqC j | CLoopEmpty => QLEC | CLoopTerm => QLTC | CTerminate => QTermC | CDone => QDone end.
Definition api_of_jop (o : jop) : api := match o with JEnq j => QEnqC j | JTerm => QTermC | JWait j => QWait j end.

(** * Control flow between API calls *)
Definition job_next (tk j : nat) (rest : list jop) : tstate :=
  match rest with [] => TWJE tk j | o :: r => TWJ tk j (api_of_jop o) r end.
Definition client_next (rest : list cop) : tstate :=
  match rest with [] => TCE | o :: r => TC (api_of_cop o) r end.

Section Main.
  Variable cfg : config.
  Let W := nworkers cfg.
  Let C := length (clients cfg).
  Definition main_joinw (k : nat) : tstate := if Nat.ltb k W then TM (M7 k) else TM M8.
  Definition main_joinc (k : nat) : tstate := if Nat.ltb k C then TM (M2 k) else TM M3.
  Definition main_ops (rest : list cop) : tstate :=
    match rest with [] => main_joinc 0 | o :: r => TMO (api_of_cop o) r end.
  Definition main_spawnc (k : nat) : tstate := if Nat.ltb k C then TM (M1 k) else main_ops (mainops cfg).
  Definition main_ctor (k : nat) : tstate := if Nat.ltb k W then TM (M0 k) else main_spawnc 0.
End Main.

(** * One step of one thread.  [fin u] tells whether thread u has ended (for join).
      Result: new shared state, new state of the thread, and possibly a spawned thread. *)
Definition tstep (cfg : config) (fx sp : bool) (fin : nat -> bool) (t : nat) (s : shared) (ts : tstate) (e : ev)
  : option (shared * tstate * option (nat * tstate)) :=
  match ts with
  | TNone | TFin => None
  | TW W0 => match e with ELock => match do_lock t s with Some s' => Some (s', TW W1, None) | None => None end | _ => None end
  | TW W1 => match e with EAL ATerm v => if Nat.eqb v (b2n (term s)) then
                 Some (s, TW (if negb (term s) && qempty s then W2 else W8), None) else None | _ => None end
  | TW W2 => match e with EAR AIdle o n => if Nat.eqb o (idle s) && Nat.eqb n (S o) then Some (set_idle n s, TW W3, None) else None | _ => None end
  | TW W3 => match e with EAL ATerm v => if Nat.eqb v (b2n (term s)) then
                 Some (s, TW (if term s || negb (qempty s) then W6 else W4), None) else None | _ => None end
  | TW W4 => match e with EWB CJ => match do_wb CJ t s with Some s' => Some (s', TW W5, None) | None => None end | _ => None end
  | TW W5 => match e with EWE CJ spur => match do_we sp CJ spur t s with Some s' => Some (s', TW W3, None) | None => None end | _ => None end
  | TW W6 => match e with EAR AIdle o n => if Nat.eqb o (idle s) && Nat.leb 1 o && Nat.eqb n (o - 1) then Some (set_idle n s, TW W8, None) else None | _ => None end
  | TW W8 => match e with EAL ATerm v => if Nat.eqb v (b2n (term s)) then
                 Some (s, TW (if term s then W9 else if qempty s then W1 else W10), None) else None | _ => None end
  | TW W9 => match e with EUnlock => match do_unlock t s with Some s' => Some (s', TW W9e, None) | None => None end | _ => None end
  | TW W9e => match e with EEnd => Some (s, TFin, None) | _ => None end
  | TW W10 => match e with EAR ABusy o n => if Nat.eqb o (busy s) && Nat.eqb n (S o) then
                 match queue s with (tk, j) :: q => Some (pop_to q tk (set_busy n s), TWJ0 tk j, None) | [] => None end else None | _ => None end
  | TWJ0 tk j => match e with EUnlock => match do_unlock t s with Some s' => Some (s', TWJ1 tk j, None) | None => None end | _ => None end
  | TWJ1 tk j => match e with EUser UJS x => if Nat.eqb x j then Some (s, job_next tk j (jobprog cfg j), None) else None | _ => None end
  | TWJ tk j a rest => match api_step fx sp t s a e with
                       | Some (s', Some a') => Some (s', TWJ tk j a' rest, None)
                       | Some (s', None) => Some (s', job_next tk j rest, None)
                       | None => None end
  | TWJE tk j => match e with EUser UJE x => if Nat.eqb x j then Some (add_ended tk j s, TW WD0, None) else None | _ => None end
  | TW WD0 => match e with EAR ADone o n => if Nat.eqb o (done s) && Nat.eqb n (S o) then Some (set_done n s, TW WD1, None) else None | _ => None end
  | TW WD1 => match e with EAR ABusy o n => if Nat.eqb o (busy s) && Nat.leb 1 o && Nat.eqb n (o - 1) then Some (set_busy n s, TW WD2, None) else None | _ => None end
  | TW WD2 => match e with ELock => match do_lock t s with Some s' => Some (s', TW WD3, None) | None => None end | _ => None end
  | TW WD3 => match e with
              | ENA CF => if fx then Some (do_na CF s, TW W1, None) else None
              | EN1 CF w => if fx then None else match do_n1 CF w s with Some s' => Some (s', TW W1, None) | None => None end
              | _ => None end
  | TC a rest => match api_step fx sp t s a e with
                 | Some (s', Some a') => Some (s', TC a' rest, None)
                 | Some (s', None) => Some (s', client_next rest, None)
                 | None => None end
  | TCE => match e with EEnd => Some (s, TFin, None) | _ => None end
  | TM (M0 k) => match e with ESpawn u => if Nat.eqb u (S k) then Some (s, main_ctor cfg (S k), Some (u, TW W0)) else None | _ => None end
  | TM (M1 k) => match e with ESpawn u => if Nat.eqb u (nworkers cfg + 1 + k) then
                     Some (s, main_spawnc cfg (S k), Some (u, client_next (nth k (clients cfg) []))) else None | _ => None end
  | TMO a rest => match api_step fx sp t s a e with
                  | Some (s', Some a') => Some (s', TMO a' rest, None)
                  | Some (s', None) => Some (s', main_ops cfg rest, None)
                  | None => None end
  | TM (M2 k) => match e with EJoin u => if Nat.eqb u (nworkers cfg + 1 + k) && fin u then Some (s, main_joinc cfg (S k), None) else None | _ => None end
  | TM M3 => match e with ELock => match do_lock t s with Some s' => Some (s', TM M4, None) | None => None end | _ => None end
  | TM M4 => match e with EAS ATerm 1 => Some (set_term true s, TM M5, None) | _ => None end
  | TM M5 => match e with ENA CJ => Some (do_na CJ s, TM M6, None) | _ => None end
  | TM M6 => match e with EUnlock => match do_unlock t s with Some s' => Some (s', main_joinw cfg 0, None) | None => None end | _ => None end
  | TM (M7 k) => match e with EJoin u => if Nat.eqb u (S k) && fin u then Some (s, main_joinw cfg (S k), None) else None | _ => None end
  | TM M8 => None
  end.

(** * Thread table: a list indexed by thread id, [TNone] beyond its end. *)
Definition get (l : list tstate) (t : nat) : tstate := nth t l TNone.
Fixpoint set (l : list tstate) (t : nat) (v : tstate) : list tstate :=
  match t, l with
  | 0, [] => [v]
  | 0, _ :: r => v :: r
  | S t', [] => TNone :: set [] t' v
  | S t', x :: r => x :: set r t' v
  end.

Record state := { shr : shared; thr : list tstate }.

Definition is_fin (ts : tstate) : bool := match ts with TFin => true | _ => false end.
Definition is_none (ts : tstate) : bool := match ts with TNone => true | _ => false end.

Definition lstep_gen (cfg : config) (fx sp : bool) (s : state) (te : nat * ev) : option state :=
  let (t, e) := te in
  match tstep cfg fx sp (fun u => is_fin (get (thr s) u)) t (shr s) (get (thr s) t) e with
  | Some (s', ts', None) => Some {| shr := s'; thr := set (thr s) t ts' |}
  | Some (s', ts', Some (u, tsu)) =>
      if is_none (get (thr s) u) then Some {| shr := s'; thr := set (set (thr s) t ts') u tsu |} else None
  | None => None
  end.

(** The model of the code as repaired (used by the correspondence run) and of the code as shipped. *)
Definition lstep (cfg : config) (sp : bool) := lstep_gen cfg true sp.
Definition lstep_shipped (cfg : config) (sp : bool) := lstep_gen cfg false sp.

Definition init (cfg : config) : state := {| shr := sh0; thr := [main_ctor cfg 0] |}.

(** run a trace; [None] = some event was not accepted *)
Fixpoint run_gen (cfg : config) (fx sp : bool) (s : state) (tr : list (nat * ev)) : option state :=
  match tr with
  | [] => Some s
  | te :: r => match lstep_gen cfg fx sp s te with Some s' => run_gen cfg fx sp s' r | None => None end
  end.

(** * Extra notifications.  A correct implementation may issue additional notify_one / notify_all calls on either condition
      variable at any point (e.g. the destructor also notifying cv_finished_, a worker passing a wake-up on to another idle
      worker): a notification that wakes nobody, or wakes a waiter that re-checks its predicate, is harmless.  They are not part
      of [lstep_gen] (which follows one implementation), but of the reachability relation all theorems quantify over: any thread
      that is alive and not blocked may perform one without changing its program counter. *)
Definition can_xnotify (ts : tstate) : bool :=
  match ts with
  | TNone | TFin | TM M8 | TM (M2 _) | TM (M7 _) | TW W5 => false
  | TWJ _ _ a _ | TC a _ | TMO a _ => match a with QLE3 | QLT3 | QWait _ => false | _ => true end
  | _ => true
  end.
Definition xnotify (sh : shared) (e : ev) : option shared :=
  match e with ENA c => Some (do_na c sh) | EN1 c w => do_n1 c w sh | _ => None end.
Definition xstep (s : state) (te : nat * ev) : option state :=
  let (t, e) := te in
  if can_xnotify (get (thr s) t) then
    match xnotify (shr s) e with Some sh' => Some {| shr := sh'; thr := thr s |} | None => None end
  else None.

Inductive reachable_gen (cfg : config) (fx sp : bool) : state -> Prop :=
| reach_init : reachable_gen cfg fx sp (init cfg)
| reach_step : forall s te s', reachable_gen cfg fx sp s -> lstep_gen cfg fx sp s te = Some s' -> reachable_gen cfg fx sp s'
| reach_xnotify : forall s te s', reachable_gen cfg fx sp s -> xstep s te = Some s' -> reachable_gen cfg fx sp s'.
Definition reachable cfg sp := reachable_gen cfg true sp.

(** * Enabledness (used by the driver to cross-check rest states, and by the liveness theorems).
      [cands] lists, for a thread, the events it could perform next (values read from the current state; for
      notify_one every possible woken thread); the thread is enabled iff one of them is accepted. *)
Definition n1_cands c (s : shared) : list ev := EN1 c None :: map (fun u => EN1 c (Some u)) (ws c s).
Definition api_cands (s : shared) (a : api) : list ev :=
  match a with
  | QEnqC j => [EUser UENQ j] | QEnq0 _ => [ELock] | QEnq1 => ENA CJ :: n1_cands CJ s | QEnq2 => [EUnlock]
  | QTermC => [EUser UTERM 0] | QTerm0 => [ELock] | QTerm1 => [EAS ATerm 1] | QTerm2 => [ENA CJ]
  | QTerm3 => ENA CF :: n1_cands CF s | QTerm4 => [EUnlock]
  | QLEC => [EUser ULE 0] | QLE0 => [ELock] | QLE1 => [EAL ABusy (busy s); EWB CF] | QLE2 => [EWB CF]
  | QLE3 => [EWE CF false; EWE CF true] | QLE4 => [EUnlockR (length (ended s))]
  | QLTC => [EUser ULT 0] | QLT0 => [ELock] | QLT1 => [EAL ATerm (b2n (term s))] | QLT1b => [EAL ABusy (busy s)]
  | QLT2 => [EWB CF] | QLT3 => [EWE CF false; EWE CF true] | QLT4 => [EUnlock]
  | QDone => [EAL ADone (done s)]
  | QWait j => [EUser UWD j]
  end.
Definition cands (cfg : config) (s : shared) (ts : tstate) : list ev :=
  match ts with
  | TNone | TFin | TM M8 => []
  | TW W0 | TW WD2 | TM M3 => [ELock]
  | TW W1 | TW W3 | TW W8 => [EAL ATerm (b2n (term s))]
  | TW W2 => [EAR AIdle (idle s) (S (idle s))]
  | TW W4 => [EWB CJ]
  | TW W5 => [EWE CJ false; EWE CJ true]
  | TW W6 => [EAR AIdle (idle s) (idle s - 1)]
  | TW W9 | TWJ0 _ _ | TM M6 => [EUnlock]
  | TW W9e | TCE => [EEnd]
  | TW W10 => [EAR ABusy (busy s) (S (busy s))]
  | TWJ1 _ j => [EUser UJS j]
  | TWJ _ _ a _ | TC a _ | TMO a _ => api_cands s a
  | TWJE _ j => [EUser UJE j]
  | TW WD0 => [EAR ADone (done s) (S (done s))]
  | TW WD1 => [EAR ABusy (busy s) (busy s - 1)]
  | TW WD3 => ENA CF :: n1_cands CF s
  | TM (M0 k) => [ESpawn (S k)]
  | TM (M1 k) => [ESpawn (nworkers cfg + 1 + k)]
  | TM (M2 k) => [EJoin (nworkers cfg + 1 + k)]
  | TM M4 => [EAS ATerm 1]
  | TM M5 => [ENA CJ]
  | TM (M7 k) => [EJoin (S k)]
  end.
Definition accepts cfg fx sp (s : state) (t : nat) (e : ev) : bool :=
  match lstep_gen cfg fx sp s (t, e) with Some _ => true | None => false end.
Definition enabledb cfg fx sp (s : state) (t : nat) : bool :=
  existsb (accepts cfg fx sp s t) (cands cfg (shr s) (get (thr s) t)).
Definition quiescentb cfg fx sp (s : state) : bool :=
  forallb (fun t => negb (enabledb cfg fx sp s t)) (seq 0 (length (thr s))).

(** * What a thread is blocked in (for the classification of rest states). *)
Definition cur_api (ts : tstate) : option api :=
  match ts with TWJ _ _ a _ | TC a _ | TMO a _ => Some a | _ => None end.
Definition waits_le (ts : tstate) : bool := match cur_api ts with Some QLE3 => true | _ => false end.
Definition waits_lt (ts : tstate) : bool := match cur_api ts with Some QLT3 => true | _ => false end.
Definition waits_job (ts : tstate) : bool := match ts with TW W5 => true | _ => false end.
Definition in_dtor_join (ts : tstate) : bool := match ts with TM (M7 _) => true | _ => false end.
Definition le_pred (s : shared) : bool := qempty s && Nat.eqb (busy s) 0.
Definition lt_pred (s : shared) : bool := term s && Nat.eqb (busy s) 0.

(** A rest state the property forbids: a waiter whose predicate holds, an idle worker although the
    un-terminated pool has queued jobs (or although the pool is terminated), a destructor stuck in join. *)
Definition stranded (s : state) (t : nat) : bool :=
  let ts := get (thr s) t in
  (waits_le ts && le_pred (shr s)) || (waits_lt ts && lt_pred (shr s)) ||
  (waits_job ts && (term (shr s) || negb (qempty (shr s)))) || in_dtor_join ts.
Definition some_stranded (s : state) : bool := existsb (stranded s) (seq 0 (length (thr s))).
