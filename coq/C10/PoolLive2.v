(** C10 -- liveness, part 2 (repaired code, no spurious wake-ups): idle workers.
    No quiescent state has an idle worker while the pool is terminated, or while the un-terminated pool has
    queued jobs. *)
From Coq Require Import List Arith Bool Lia Permutation.
From TLXV Require Import C10.Pool C10.PoolLemmas C10.PoolSafety C10.PoolWait C10.PoolCands C10.PoolLive.
Import ListNotations.

(** * Abstractions *)
Definition w4 (ts : tstate) : bool := match ts with TW W4 => true | _ => false end.
Definition is_worker (ts : tstate) : bool :=
  match ts with TW _ | TWJ0 _ _ | TWJ1 _ _ | TWJ _ _ _ _ | TWJE _ _ => true | _ => false end.
(** a worker that has not left the loop *)
Definition actw (ts : tstate) : bool :=
  match ts with TW W9 | TW W9e => false | TW _ | TWJ0 _ _ | TWJ1 _ _ | TWJ _ _ _ _ | TWJE _ _ => true | _ => false end.
Definition enq1 (ts : tstate) : bool := match cur_api ts with Some QEnq1 => true | _ => false end.
(** has set terminate_, will notify_all(cv_jobs_) *)
Definition pendJ (ts : tstate) : bool :=
  match ts with TM M5 => true | _ => match cur_api ts with Some QTerm2 => true | _ => false end end.
Definition japi (a : api) : bool :=
  match a with QEnqC _ | QEnq0 _ | QEnq1 | QEnq2 | QTermC | QTerm0 | QTerm1 | QTerm2 | QTerm3 | QTerm4 | QWait _ => true | _ => false end.
Definition jok (ts : tstate) : bool := match ts with TWJ _ _ a _ => japi a | _ => true end.

Lemma jok_job_next tk j r : jok (job_next tk j r) = true.
Proof. destruct r as [|[] r]; reflexivity. Qed.
Lemma actw_job_next tk j r : actw (job_next tk j r) = true.
Proof. destruct r as [|[] r]; reflexivity. Qed.

(** * Local facts *)
Lemma api_japi fx sp t s a e s' a' : api_step fx sp t s a e = Some (s', Some a') -> japi a = true -> japi a' = true.
Proof.
  intros H J. unfold api_step in H. unfold_ops H. destruct a; try discriminate J; inv_some H; reflexivity.
Qed.

Section Local2.
  Variables (cfg : config) (fx sp : bool) (fin : nat -> bool) (t : nat).

  Ltac api_ctx H :=
    match type of H with
    | context [api_step ?a ?b ?c ?d ?e ?f] => destruct (api_step a b c d e f) as [[? [?|]]|] eqn:Hapi; inversion H; subst; clear H
    end.
  (* the thread state after the step is one of the "continuation" states: unfold them *)
  Ltac conts L :=
    unfold main_ctor, main_spawnc, main_ops, main_joinc, main_joinw, client_next, job_next in L;
    repeat match type of L with
           | context [if ?b then _ else _] => destruct b
           | context [match ?l with [] => _ | _ => _ end] => destruct l as [|[] ?]
           end.

  Lemma tstep_jok s ts e s' ts' spw :
    tstep cfg fx sp fin t s ts e = Some (s', ts', spw) -> jok ts = true -> jok ts' = true.
  Proof.
    intros H J.
    destruct ts as [| |p|tk j|tk j|tk j a r|tk j|a r| |p|a r]; cbn [tstep] in H; try discriminate.
    - destruct p; inv_some H; reflexivity.
    - inv_some H; reflexivity.
    - inv_some H. apply jok_job_next.
    - api_ctx H; [eapply api_japi; eauto | apply jok_job_next].
    - inv_some H; reflexivity.
    - api_ctx H; [reflexivity | destruct r as [|[] ?]; reflexivity].
    - inv_some H; reflexivity.
    - destruct p; inv_some H; try reflexivity.
      all: match goal with |- jok ?x = true => assert (L : jok x = jok x) by reflexivity; revert L; generalize (jok x) at 1 3 end;
        intros b L; conts L; cbn in L; congruence.
    - api_ctx H; [reflexivity|]. match goal with |- jok ?x = true => assert (L : jok x = jok x) by reflexivity; revert L; generalize (jok x) at 1 3 end.
      intros b L; conts L; cbn in L; congruence.
  Qed.

  (** going to sleep on cv_jobs_ happens only from W4, where the predicate was false *)
  Lemma tstep_w4 s ts e s' ts' spw :
    tstep cfg fx sp fin t s ts e = Some (s', ts', spw) -> w4 ts' = true -> term s' = false /\ queue s' = [].
  Proof.
    intros H L.
    destruct ts as [| |p|tk j|tk j|tk j a r|tk j|a r| |p|a r]; cbn [tstep] in H; try discriminate.
    - unfold_ops H. destruct p; inv_some H; try discriminate L; cbn.
      match goal with H : _ || _ = false |- _ => apply orb_false_iff in H; destruct H as (H1 & H2) end.
      split; auto. apply negb_false_iff in H2. now apply qempty_true.
    - inv_some H; discriminate L.
    - inv_some H. conts L; discriminate L.
    - api_ctx H; [discriminate L | conts L; discriminate L].
    - inv_some H; discriminate L.
    - api_ctx H; [discriminate L | conts L; discriminate L].
    - inv_some H; discriminate L.
    - destruct p; inv_some H; try discriminate L; conts L; discriminate L.
    - api_ctx H; [discriminate L|]. conts L; discriminate L.
  Qed.

  Lemma tstep_sleepJ s ts e s' ts' spw :
    tstep cfg fx sp fin t s ts e = Some (s', ts', spw) -> slp ts = None -> slp ts' = Some CJ ->
    w4 ts = true /\ term s' = term s /\ queue s' = queue s.
  Proof.
    intros H L0 L.
    destruct ts as [| |p|tk j|tk j|tk j a r|tk j|a r| |p|a r]; cbn [tstep] in H; try discriminate.
    - unfold_ops H. destruct p; inv_some H; try discriminate L; try discriminate L0. cbn. auto.
    - inv_some H; discriminate L.
    - inv_some H. rewrite slp_job_next in L. discriminate.
    - api_ctx H; [|rewrite slp_job_next in L; discriminate]. cbn in L. destruct a0; discriminate L.
    - inv_some H; discriminate L.
    - api_ctx H; [|rewrite slp_client_next in L; discriminate]. cbn in L. destruct a0; discriminate L.
    - inv_some H; discriminate L.
    - destruct p; inv_some H; rewrite ?slp_main_ctor, ?slp_main_spawnc, ?slp_main_joinc, ?slp_main_joinw in L; discriminate L.
    - api_ctx H; [|rewrite slp_main_ops in L; discriminate]. cbn in L. destruct a0; discriminate L.
  Qed.

  Lemma api_pendJ s a e s' oa :
    api_step fx sp t s a e = Some (s', oa) ->
    (term s = false \/ a = QTerm2) ->
    (term s' = false \/ oa = Some QTerm2) \/ wsJ s' = [].
  Proof.
    intros H P. unfold api_step in H. unfold_ops H.
    destruct a; inv_some H; cbn; auto; destruct P as [P|P]; try discriminate P; auto.
  Qed.

  Lemma tstep_pendJ s ts e s' ts' spw :
    tstep cfg fx sp fin t s ts e = Some (s', ts', spw) ->
    (term s = false \/ pendJ ts = true) ->
    (term s' = false \/ pendJ ts' = true) \/ wsJ s' = [].
  Proof.
    intros H P.
    destruct ts as [| |p|tk j|tk j|tk j a r|tk j|a r| |p|a r]; cbn [tstep] in H; try discriminate.
    - unfold_ops H. destruct p; inv_some H; cbn; destruct P as [P|P]; try discriminate P; auto.
    - unfold_ops H. inv_some H; cbn; destruct P as [P|P]; try discriminate P; auto.
    - inv_some H; destruct P as [P|P]; try discriminate P; auto.
    - assert (P' : term s = false \/ a = QTerm2) by (destruct P as [P|P]; auto; cbn in P; destruct a; try discriminate P; auto).
      api_ctx H; destruct (api_pendJ _ _ _ _ _ Hapi P') as [[Q|Q]|Q]; auto; try discriminate Q.
      inversion Q; subst. left; right; reflexivity.
    - inv_some H; cbn; destruct P as [P|P]; try discriminate P; auto.
    - assert (P' : term s = false \/ a = QTerm2) by (destruct P as [P|P]; auto; cbn in P; destruct a; try discriminate P; auto).
      api_ctx H; destruct (api_pendJ _ _ _ _ _ Hapi P') as [[Q|Q]|Q]; auto; try discriminate Q.
      inversion Q; subst. left; right; reflexivity.
    - inv_some H; destruct P as [P|P]; try discriminate P; auto.
    - unfold_ops H. destruct p; inv_some H; cbn; destruct P as [P|P]; try discriminate P; auto.
    - assert (P' : term s = false \/ a = QTerm2) by (destruct P as [P|P]; auto; cbn in P; destruct a; try discriminate P; auto).
      api_ctx H; destruct (api_pendJ _ _ _ _ _ Hapi P') as [[Q|Q]|Q]; auto; try discriminate Q.
      inversion Q; subst. left; right; reflexivity.
  Qed.

  Lemma tstep_actw s ts e s' ts' spw :
    tstep cfg fx sp fin t s ts e = Some (s', ts', spw) -> actw ts = true -> term s = false -> actw ts' = true.
  Proof.
    intros H A T.
    destruct ts as [| |p|tk j|tk j|tk j a r|tk j|a r| |p|a r]; cbn [tstep] in H; try discriminate A.
    - destruct p; try discriminate A; inv_some H; try reflexivity; try congruence.
      all: repeat match goal with |- context [if ?b then _ else _] => destruct b end; reflexivity.
    - inv_some H; reflexivity.
    - inv_some H. apply actw_job_next.
    - api_ctx H; [reflexivity | apply actw_job_next].
    - inv_some H; reflexivity.
  Qed.

  Lemma api_enq1 s a e s' oa :
    api_step fx sp t s a e = Some (s', oa) -> a = QEnq1 ->
    oa = Some QEnq2 /\ queue s' = queue s /\ term s' = term s /\
    ((exists v, In v (wsJ s) /\ wsJ s' = rem v (wsJ s)) \/ wsJ s' = []).
  Proof.
    intros H ->. cbn in H. destruct e; try discriminate H; destruct c; try discriminate H.
    - unfold do_n1 in H. destruct w as [v|].
      + cbn [ws] in H. destruct (mem v (wsJ s)) eqn:M; [|discriminate]. inversion H; subst. cbn. repeat split; auto.
        left. exists v. split; auto. now apply mem_In.
      + cbn [ws] in H. destruct (wsJ s) eqn:E; [|discriminate]. inversion H; subst. repeat split; auto.
    - inversion H; subst. cbn. repeat split; auto.
  Qed.

  Lemma api_push s a e s' oa :
    api_step fx sp t s a e = Some (s', oa) -> queue s = [] -> queue s' <> [] -> oa = Some QEnq1.
  Proof.
    intros H Q Q'. unfold api_step in H. unfold_ops H.
    destruct a; inv_some H; cbn in Q'; try congruence; reflexivity.
  Qed.

  Lemma tstep_enq1 s ts e s' ts' spw :
    tstep cfg fx sp fin t s ts e = Some (s', ts', spw) -> enq1 ts = true ->
    queue s' = queue s /\ term s' = term s /\
    ((exists v, In v (wsJ s) /\ wsJ s' = rem v (wsJ s)) \/ wsJ s' = []).
  Proof.
    intros H L. unfold enq1 in L.
    destruct ts as [| |p|tk j|tk j|tk j a r|tk j|a r| |p|a r]; cbn [tstep] in H; try discriminate L;
      cbn in L; destruct a; try discriminate L;
      api_ctx H; destruct (api_enq1 _ _ _ _ _ Hapi eq_refl) as (_ & Q); exact Q.
  Qed.

  Lemma tstep_push s ts e s' ts' spw :
    tstep cfg fx sp fin t s ts e = Some (s', ts', spw) -> queue s = [] -> queue s' <> [] -> enq1 ts' = true.
  Proof.
    intros H Q Q'.
    destruct ts as [| |p|tk j|tk j|tk j a r|tk j|a r| |p|a r]; cbn [tstep] in H; try discriminate.
    - unfold_ops H. destruct p; inv_some H; cbn in Q'; congruence.
    - unfold_ops H. inv_some H; cbn in Q'; congruence.
    - inv_some H; congruence.
    - api_ctx H; pose proof (api_push _ _ _ _ _ Hapi Q Q') as E; inversion E; subst; reflexivity.
    - inv_some H; cbn in Q'; congruence.
    - api_ctx H; pose proof (api_push _ _ _ _ _ Hapi Q Q') as E; inversion E; subst; reflexivity.
    - inv_some H; congruence.
    - unfold_ops H. destruct p; inv_some H; cbn in Q'; congruence.
    - api_ctx H; pose proof (api_push _ _ _ _ _ Hapi Q Q') as E; inversion E; subst; reflexivity.
  Qed.
End Local2.

(** * The invariant *)
Lemma slp_CJ_w5 ts : slp ts = Some CJ -> ts = TW W5.
Proof.
  destruct ts as [| |p| | |? ? a ?| |a ?| |p|a ?]; cbn; try discriminate; try (destruct a; discriminate).
  destruct p; try discriminate. reflexivity.
Qed.
Lemma w4_hold ts : w4 ts = true -> hold ts = true.
Proof. destruct ts as [| |p| | | | | | |p|]; cbn; try discriminate; destruct p; cbn; congruence. Qed.
Lemma nil_of_no_elem (l : list nat) : (forall u, ~ In u l) -> l = [].
Proof. destruct l as [|x l]; auto. intros H. exfalso. apply (H x). now left. Qed.

Record JInv (s : state) : Prop := {
  j_ok : forall u, jok (get (thr s) u) = true;
  j_w4 : forall u, w4 (get (thr s) u) = true -> term (shr s) = false /\ queue (shr s) = [];
  j_sleep : (exists u, In u (wsJ (shr s))) -> term (shr s) = false \/ exists w, pendJ (get (thr s) w) = true;
  j_queue : queue (shr s) <> [] -> term (shr s) = false ->
            (exists w, enq1 (get (thr s) w) = true) \/
            (exists w, actw (get (thr s) w) = true /\ ~ In w (wsJ (shr s))) \/ wsJ (shr s) = []
}.

Lemma jinv_init cfg : JInv (init cfg).
Proof.
  constructor; cbn [init shr thr sh0 wsJ queue].
  - intros [|u]; cbn; [|destruct u; reflexivity].
    assert (L : jok (main_ctor cfg 0) = jok (main_ctor cfg 0)) by reflexivity. revert L. generalize (jok (main_ctor cfg 0)) at 1 3.
    intros b L. unfold main_ctor, main_spawnc, main_ops, main_joinc in L.
    repeat match type of L with
           | context [if ?b then _ else _] => destruct b
           | context [match ?l with [] => _ | _ => _ end] => destruct l as [|[] ?]
           end; cbn in L; congruence.
  - intros [|u] H; cbn in H; [|destruct u; discriminate H]. exfalso.
    unfold main_ctor, main_spawnc, main_ops, main_joinc in H.
    repeat match type of H with
           | context [if ?b then _ else _] => destruct b
           | context [match ?l with [] => _ | _ => _ end] => destruct l as [|[] ?]
           end; discriminate H.
  - intros (u & []).
  - congruence.
Qed.

Lemma jinv_tstep cfg fx sp fin t s e sh' ts' spw :
  Inv s -> WInv s -> JInv s -> tstep cfg fx sp fin t (shr s) (get (thr s) t) e = Some (sh', ts', spw) ->
  JInv {| shr := sh'; thr := set (thr s) t ts' |}.
Proof.
  intros HI HW [J1 J2 J3 J4] H. pose proof (i_mutex _ HI) as I1.
  pose proof (winv_tstep _ _ _ _ _ _ _ _ _ _ HW H) as HW'.
  set (ts := get (thr s) t) in *.
  assert (G : forall u, u <> t -> get (set (thr s) t ts') u = get (thr s) u) by (intros; apply get_set_neq; congruence).
  assert (Gt : get (set (thr s) t ts') t = ts') by apply get_set_eq.
  assert (HO : forall u, u <> t -> hold (get (thr s) u) = true -> hold ts = false /\ owner (shr s) <> None).
  { intros u Hne Hu. rewrite I1 in Hu. apply owned_true in Hu. split; [|congruence].
    unfold ts. rewrite I1, (owned_some _ _ _ Hu). apply Nat.eqb_neq. congruence. }
  pose proof (tstep_ws _ _ _ _ _ _ _ _ _ _ _ H) as WS. fold ts in WS.
  pose proof (ws_eff_sub _ _ _ _ _ _ WS) as SUB.
  (* the stepping thread is in the jobs wait set afterwards only if it came from W4 *)
  assert (TS : In t (wsJ sh') -> w4 ts = true /\ term sh' = term (shr s) /\ queue sh' = queue (shr s)).
  { intros Hin. destruct (w_in _ HW' CJ t Hin) as (A & _). cbn [shr thr] in A. rewrite Gt in A.
    destruct (slp ts) as [c|] eqn:Es; [exfalso; destruct WS; congruence|].
    eapply tstep_sleepJ; eauto. }
  constructor; cbn [shr thr].
  - intros u. destruct (Nat.eq_dec u t) as [->|Hne]; [rewrite Gt; eapply tstep_jok; eauto; apply J1 | rewrite G by auto; apply J1].
  - intros u. destruct (Nat.eq_dec u t) as [->|Hne].
    + rewrite Gt. intros L. eapply tstep_w4; eauto.
    + rewrite G by auto. intros L. destruct (HO u Hne (w4_hold _ L)) as (Hh & Ho).
      destruct (tstep_stable _ _ _ _ _ _ _ _ _ _ _ H Hh Ho) as (-> & _ & -> & _). now apply (J2 u).
  - intros (u & Hu). destruct (Nat.eq_dec u t) as [->|Hne].
    + destruct (TS Hu) as (A & B & _). left. rewrite B. now apply (J2 t).
    + assert (Hold : exists u0, In u0 (wsJ (shr s))) by (exists u; apply (SUB CJ u Hne Hu)).
      destruct (J3 Hold) as [P|(w & P)].
      * destruct (tstep_pendJ _ _ _ _ _ _ _ _ _ _ _ H (or_introl P)) as [[Q|Q]|Q]; auto.
        -- right. exists t. now rewrite Gt.
        -- rewrite Q in Hu. destruct Hu.
      * destruct (Nat.eq_dec w t) as [->|Hw]; [|right; exists w; now rewrite G].
        destruct (tstep_pendJ _ _ _ _ _ _ _ _ _ _ _ H (or_intror P)) as [[Q|Q]|Q]; auto.
        -- right. exists t. now rewrite Gt.
        -- rewrite Q in Hu. destruct Hu.
  - intros Q' T'.
    assert (T : term (shr s) = false).
    { destruct (term (shr s)) eqn:E; auto. rewrite (tstep_term _ _ _ _ _ _ _ _ _ _ _ H E) in T'. discriminate. }
    assert (NT : ~ (In t (wsJ sh') /\ queue (shr s) <> [])).
    { intros (A & B). destruct (TS A) as (C & _). destruct (J2 t C) as (_ & D). contradiction. }
    destruct (queue (shr s)) as [|q0 qr] eqn:Q.
    { left. exists t. rewrite Gt. eapply tstep_push; eauto. }
    assert (Qne : queue (shr s) <> []) by (rewrite Q; discriminate).
    rewrite <- Q in *. clear Q.
    destruct (J4 Qne T) as [(w & P)|[(w & P1 & P2)|P]].
    + destruct (Nat.eq_dec w t) as [->|Hw]; [|left; exists w; now rewrite G].
      destruct (tstep_enq1 _ _ _ _ _ _ _ _ _ _ _ H P) as (_ & _ & [(v & V1 & V2)|V2]).
      * right; left. exists v. destruct (w_in _ HW CJ v V1) as (A & _). apply slp_CJ_w5 in A.
        assert (v <> t). { intros ->. rewrite A in P. discriminate. }
        rewrite G by auto. rewrite A. split; [reflexivity|]. rewrite V2. rewrite In_rem. tauto.
      * right; right. exact V2.
    + right; left. exists w. destruct (Nat.eq_dec w t) as [->|Hw].
      * rewrite Gt. split; [eapply tstep_actw; eauto|]. intros A. apply NT. auto.
      * rewrite G by auto. split; auto. intros A. apply P2. apply (SUB CJ w Hw A).
    + right; right. apply nil_of_no_elem. intros u Hu. destruct (Nat.eq_dec u t) as [->|Hne].
      * apply NT. auto.
      * apply (SUB CJ u Hne) in Hu. cbn [ws] in Hu. rewrite P in Hu. destruct Hu.
Qed.

Lemma tstep_spawn_j cfg fx sp fin t s ts e s' ts' u tsu :
  tstep cfg fx sp fin t s ts e = Some (s', ts', Some (u, tsu)) -> jok tsu = true /\ w4 tsu = false.
Proof.
  intros H.
  destruct ts as [| |p|tk j|tk j|tk j a r|tk j|a r| |p|a r]; cbn [tstep] in H; try discriminate;
    try (destruct p); try solve [inv_some H].
  all: try (match type of H with context [api_step ?a ?b ?c ?d ?e ?f] => destruct (api_step a b c d e f) as [[? [?|]]|]; discriminate end).
  all: inv_some H; split; try reflexivity.
  all: match goal with |- _ (client_next ?r) = _ => destruct r as [|[] ?]; reflexivity end.
Qed.

Lemma jinv_spawn sh l u v : JInv {| shr := sh; thr := l |} -> get l u = TNone -> jok v = true -> w4 v = false ->
  JInv {| shr := sh; thr := set l u v |}.
Proof.
  intros [J1 J2 J3 J4] Hu V1 V2. cbn [shr thr] in *.
  assert (K : forall (P : tstate -> bool) w, P TNone = false -> P (get l w) = true -> P (get (set l u v) w) = true).
  { intros P w PN Hw. rewrite get_set. destruct (Nat.eqb_spec u w) as [->|]; auto. rewrite Hu in Hw. congruence. }
  constructor; cbn [shr thr].
  - intros w. rewrite get_set. destruct (Nat.eqb_spec u w); auto.
  - intros w. rewrite get_set. destruct (Nat.eqb_spec u w) as [->|]; [congruence | apply J2].
  - intros Hq. destruct (J3 Hq) as [P|(w & P)]; [now left|]. right. exists w. now apply K.
  - intros Q T. destruct (J4 Q T) as [(w & P)|[(w & P1 & P2)|P]].
    + left. exists w. now apply K.
    + right; left. exists w. split; auto.
    + right; right. exact P.
Qed.

Lemma jinv_step cfg fx sp s te s' : Inv s -> WInv s -> JInv s -> lstep_gen cfg fx sp s te = Some s' -> JInv s'.
Proof.
  intros HI HW HJ H. destruct te as [t e]. unfold lstep_gen in H.
  destruct (tstep cfg fx sp (fun u => is_fin (get (thr s) u)) t (shr s) (get (thr s) t) e) as [[[sh' ts'] spw]|] eqn:Ht; [|discriminate].
  pose proof (jinv_tstep _ _ _ _ _ _ _ _ _ _ HI HW HJ Ht) as HJ'.
  destruct spw as [[u tsu]|].
  - destruct (is_none (get (thr s) u)) eqn:Hn; [|discriminate]. inversion H; subst; clear H.
    destruct (tstep_spawn_j _ _ _ _ _ _ _ _ _ _ _ _ Ht) as (V1 & V2).
    apply jinv_spawn; auto.
    assert (Hu : get (thr s) u = TNone) by (destruct (get (thr s) u); try discriminate; reflexivity).
    rewrite get_set. destruct (Nat.eqb_spec t u) as [->|]; [|exact Hu].
    exfalso. apply (tstep_not_none _ _ _ _ _ _ _ _ _ Ht). exact Hu.
  - inversion H; subst. exact HJ'.
Qed.

Lemma jinv_xstep s te s' : JInv s -> xstep s te = Some s' -> JInv s'.
Proof.
  intros [J1 J2 J3 J4] H. pose proof (xstep_ws_sub _ _ _ H CJ) as SUB. destruct te as [t e]. cbn [ws] in SUB.
  destruct (xstep_inv _ _ _ _ H) as (Et & _ & (Q & _ & _ & _ & T & _) & _).
  constructor; rewrite Et, ?Q, ?T; auto.
  - intros (u & Hu). apply J3. exists u. auto.
  - intros Qn Tn. destruct (J4 Qn Tn) as [P|[(w & P1 & P2)|P]]; auto.
    + right; left. exists w. split; auto.
    + right; right. apply nil_of_no_elem. intros u Hu. apply SUB in Hu. rewrite P in Hu. destruct Hu.
Qed.

Lemma jinv_reachable cfg fx sp s : reachable_gen cfg fx sp s -> JInv s.
Proof.
  induction 1 as [|s te s' R IH H|s te s' R IH H]; [apply jinv_init| |eapply jinv_xstep; eauto].
  eapply jinv_step; eauto; [eapply inv_reachable | eapply winv_reachable]; eauto.
Qed.

(** * Enabledness of threads that are neither waiting nor joining, when the mutex is free *)
Ltac goal_ops := unfold do_lock, do_unlock, do_wb, do_we, do_n1, do_na, free, owned.
Ltac try_ev Ho ev := solve [exists ev; cbn; goal_ops; cbn; rewrite ?Ho, ?Nat.eqb_refl; cbn; rewrite ?Nat.eqb_refl; cbn; eauto].

(** blocked in a rendezvous: inside a job body, waiting for a job whose body has not ended *)
Definition awaitb (s : shared) (a : api) : bool := match a with QWait j => negb (mem j (endedj s)) | _ => false end.
Definition blockedw (s : shared) (ts : tstate) : bool := match cur_api ts with Some a => awaitb s a | None => false end.

Lemma api_free_enabled fx sp t s a :
  ahold a = false -> aslp a = None -> awaitb s a = false -> owner s = None -> exists e s' oa, api_step fx sp t s a e = Some (s', oa).
Proof.
  intros Hh Hs Hb Ho. destruct a; try discriminate Hh; try discriminate Hs.
  - try_ev Ho (EUser UENQ j).
  - try_ev Ho ELock.
  - try_ev Ho (EUser UTERM 0).
  - try_ev Ho ELock.
  - try_ev Ho (EUser ULE 0).
  - try_ev Ho ELock.
  - try_ev Ho (EUser ULT 0).
  - try_ev Ho ELock.
  - try_ev Ho (EAL ADone (done s)).
  - cbn in Hb. apply negb_false_iff in Hb. exists (EUser UWD j). cbn. rewrite Nat.eqb_refl, Hb. cbn. eauto.
Qed.

(** a worker that is neither waiting on a condition variable nor blocked in a rendezvous always has an enabled
    event when the mutex is free *)
Lemma worker_free_enabled cfg fx sp fin t s ts :
  is_worker ts = true -> hold ts = false -> slp ts = None -> blockedw s ts = false -> owner s = None -> (ts = TW WD1 -> 1 <= busy s) ->
  exists e s' ts', tstep cfg fx sp fin t s ts e = Some (s', ts', None).
Proof.
  intros Hw Hh Hs Hbl Ho Hb.
  destruct ts as [| |p|tk j|tk j|tk j a r|tk j|a r| |p|a r]; try discriminate Hw; try discriminate Hh.
  - destruct p; try discriminate Hh; try discriminate Hs.
    + try_ev Ho ELock.
    + try_ev Ho EEnd.
    + try_ev Ho (EAR ADone (done s) (S (done s))).
    + assert (E : Nat.leb 1 (busy s) = true) by (apply Nat.leb_le; auto).
      exists (EAR ABusy (busy s) (busy s - 1)). cbn [tstep]. rewrite !Nat.eqb_refl, E. cbn. eauto.
    + try_ev Ho ELock.
  - try_ev Ho (EUser UJS j).
  - destruct (api_free_enabled fx sp t s a Hh Hs Hbl Ho) as (e & s' & [a'|] & E); exists e; cbn [tstep]; rewrite E; eauto.
  - try_ev Ho (EUser UJE j).
Qed.

Lemma actw_is_worker ts : actw ts = true -> is_worker ts = true.
Proof. destruct ts as [| |p| | | | | | |p|]; cbn; try discriminate; auto. Qed.
Lemma worker_slp ts c : is_worker ts = true -> jok ts = true -> slp ts = Some c -> c = CJ.
Proof.
  destruct ts as [| |p| | |? ? a ?| |a ?| |p|a ?]; cbn; try discriminate.
  - destruct p; try discriminate. congruence.
  - destruct a; cbn; try discriminate.
Qed.
Lemma pendJ_hold ts : pendJ ts = true -> hold ts = true.
Proof.
  destruct ts as [| |p| | |? ? a ?| |a ?| |p|a ?]; cbn; try discriminate;
    try (destruct p; cbn; try discriminate; auto); try (destruct a; cbn; try discriminate; auto).
Qed.
Lemma enq1_hold ts : enq1 ts = true -> hold ts = true.
Proof.
  unfold enq1. destruct ts as [| |p| | |? ? a ?| |a ?| |p|a ?]; cbn; try discriminate; destruct a; cbn; try discriminate; auto.
Qed.
Lemma waits_job_w5 ts : waits_job ts = true -> ts = TW W5.
Proof. destruct ts as [| |p| | | | | | |p|]; cbn; try discriminate. destruct p; try discriminate. reflexivity. Qed.

Lemma free_not_hold s u : Inv s -> owner (shr s) = None -> hold (get (thr s) u) = false.
Proof. intros HI Ho. rewrite (i_mutex _ HI). now apply owned_none. Qed.

(** A worker that is not in the wait set of cv_jobs_ is enabled in every state with a free mutex. *)
Lemma worker_enabled cfg s w :
  reachable cfg false s -> owner (shr s) = None -> is_worker (get (thr s) w) = true -> ~ In w (wsJ (shr s)) ->
  blockedw (shr s) (get (thr s) w) = false ->
  exists e s', lstep cfg false s (w, e) = Some s'.
Proof.
  intros R Ho Hw Hn Hbl.
  pose proof (inv_reachable _ _ _ _ R) as HI. pose proof (winv_reachable _ _ _ _ R) as HW. pose proof (jinv_reachable _ _ _ _ R) as HJ.
  destruct (slp (get (thr s) w)) as [c|] eqn:Es.
  - assert (c = CJ) by (eapply worker_slp; eauto; apply (j_ok _ HJ)). subst c.
    destruct (w_slp _ HW CJ w Es) as [A|A]; [contradiction|].
    destruct (waiter_enabled cfg true false s w CJ Es A Ho) as (s' & E). eauto.
  - destruct (worker_free_enabled cfg true false (fun u => is_fin (get (thr s) u)) w (shr s) (get (thr s) w) Hw
                (free_not_hold _ _ HI Ho) Es Hbl Ho) as (e & s' & ts' & E).
    + intros E. rewrite (i_busy _ HI). eapply cnt_pos with (u := w); [rewrite E|]; reflexivity.
    + apply lstep_of_tstep in E. eauto.
Qed.

(** "no job body is blocked in a rendezvous" (hypothesis of the statements that need every running job to finish) *)
Definition no_blocked_job (s : state) : Prop := forall u, blockedw (shr s) (get (thr s) u) = false.

(** No quiescent state has an idle worker (blocked in cv_jobs_.wait) while the pool is terminated or
    while jobs are queued -- here under the hypothesis that no job body is blocked in a rendezvous; the statement
    without that hypothesis is [no_stranded_idle_worker] in PoolQueue.v (counting argument). *)
Theorem no_stranded_idle_worker_nowait cfg s u :
  reachable cfg false s -> quiescent cfg true false s -> no_blocked_job s -> waits_job (get (thr s) u) = true ->
  term (shr s) = false /\ queue (shr s) = [].
Proof.
  intros R Q NB Hu.
  pose proof (inv_reachable _ _ _ _ R) as HI. pose proof (winv_reachable _ _ _ _ R) as HW. pose proof (jinv_reachable _ _ _ _ R) as HJ.
  pose proof (quiescent_free _ _ _ R Q) as Ho.
  apply waits_job_w5 in Hu.
  assert (Es : slp (get (thr s) u) = Some CJ) by now rewrite Hu.
  assert (Hin : In u (wsJ (shr s))).
  { destruct (w_slp _ HW CJ u Es) as [A|A]; auto.
    destruct (waiter_enabled cfg true false s u CJ Es A Ho) as (s' & E). rewrite (Q u _) in E. discriminate. }
  assert (NH : forall w, hold (get (thr s) w) = true -> False).
  { intros w Hh. rewrite (free_not_hold _ _ HI Ho) in Hh. discriminate. }
  assert (T : term (shr s) = false).
  { destruct (j_sleep _ HJ (ex_intro _ u Hin)) as [T|(w & P)]; auto. exfalso. apply (NH w). now apply pendJ_hold. }
  split; auto.
  destruct (queue (shr s)) as [|q0 qr] eqn:Eq; auto. exfalso.
  assert (Qne : queue (shr s) <> []) by (rewrite Eq; discriminate).
  destruct (j_queue _ HJ Qne T) as [(w & P)|[(w & P1 & P2)|P]].
  - apply (NH w). now apply enq1_hold.
  - destruct (worker_enabled cfg s w R Ho (actw_is_worker _ P1) P2 (NB w)) as (e & s' & E). unfold lstep in E. rewrite (Q w e) in E. discriminate.
  - rewrite P in Hin. destruct Hin.
Qed.
