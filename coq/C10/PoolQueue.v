(** C10 -- "with a notify_one on EVERY enqueue, a queued job and an idle worker never coexist in a quiescent state",
    also when job bodies block in a rendezvous ([JWait]).  Counting argument: as long as some worker sleeps in
    cv_jobs_.wait and the pool is not terminated,

        #queued jobs + #sleeping workers  <=  #workers in the worker loop (outside a job body) + #threads between the
                                               push and the notify_one of enqueue()

    Every enqueue() takes one worker out of the wait set (if there is one), every pop takes one worker out of the loop.
    In a quiescent state the workers in the loop that do not sleep are enabled, hence a queued job with a sleeping worker
    is impossible.  (A code change that notifies only when the queue becomes non-empty breaks exactly the step
    "notify_one with a non-empty wait set removes a sleeper": the invariant fails, and the rendezvous scenarios of the
    check reach the forbidden rest state on the real code.) *)
From Coq Require Import List Arith Bool Lia Permutation.
From TLXV Require Import C10.Pool C10.PoolLemmas C10.PoolSafety C10.PoolWait C10.PoolCands C10.PoolLive C10.PoolLive2 C10.PoolLive3
  C10.PoolLive4.
Import ListNotations.

(** in the worker loop, outside a job body, not exited (includes a worker inside cv_jobs_.wait) *)
Definition loopw (ts : tstate) : bool := match ts with TW W9 | TW W9e => false | TW _ => true | _ => false end.
Definition aenq1 (a : api) : nat := match a with QEnq1 => 1 | _ => 0 end.
Definition oaenq1 (oa : option api) : nat := match oa with Some a => aenq1 a | None => 0 end.
(** contribution of one thread to the right-hand side *)
Definition lt (ts : tstate) : nat := b2n (loopw ts) + b2n (enq1 ts).

Lemma lt_api_ctx ts a : cur_api ts = Some a -> loopw ts = false -> lt ts = aenq1 a.
Proof. unfold lt, enq1. intros -> ->. destruct a; reflexivity. Qed.

Lemma lt_job_next tk j r : lt (job_next tk j r) = 0.
Proof. destruct r as [|[] r]; reflexivity. Qed.
Lemma lt_client_next r : lt (client_next r) = 0.
Proof. destruct r as [|[] r]; reflexivity. Qed.
Lemma lt_main_joinw cfg k : lt (main_joinw cfg k) = 0.
Proof. conts_goal; reflexivity. Qed.
Lemma lt_main_joinc cfg k : lt (main_joinc cfg k) = 0.
Proof. conts_goal; reflexivity. Qed.
Lemma lt_main_ops cfg r : lt (main_ops cfg r) = 0.
Proof. conts_goal; reflexivity. Qed.
Lemma lt_main_spawnc cfg k : lt (main_spawnc cfg k) = 0.
Proof. conts_goal; reflexivity. Qed.
Lemma lt_main_ctor cfg k : lt (main_ctor cfg k) = 0.
Proof. conts_goal; reflexivity. Qed.

(** * Effect of one step on (queue length, wait set of cv_jobs_, own contribution) *)
Definition qeff (t : nat) (s s' : shared) (w4t : bool) (l l' : nat) : Prop :=
  term s' = true \/
  wsJ s' = [] \/
  (w4t = true /\ wsJ s' = wsJ s ++ [t] /\ queue s' = queue s /\ l' = l) \/
  ((exists v, In v (wsJ s) /\ wsJ s' = rem v (wsJ s)) /\ queue s' = queue s /\ l <= l' + 1) \/
  (wsJ s' = wsJ s /\ length (queue s') + l <= length (queue s) + l').

Ltac qeff_solve :=
  cbn; rewrite ?app_length; cbn;
  first [ left; reflexivity
        | right; left; reflexivity
        | right; right; left; repeat split; reflexivity
        | right; right; right; right; split; [reflexivity | lia]
        | right; right; right; left; split; [eexists; split; [eassumption | reflexivity] | split; [reflexivity | lia]] ].

Lemma api_qeff fx sp t s a e s' oa :
  api_step fx sp t s a e = Some (s', oa) -> qeff t s s' false (aenq1 a) (oaenq1 oa).
Proof.
  intros H. unfold api_step in H. unfold_ops H. unfold qeff.
  destruct a; inv_some H; beq; subst;
    repeat match goal with H : mem _ _ = true |- _ => apply mem_In in H end;
    try qeff_solve.
  all: match goal with H : ws CJ ?s = [] |- _ => cbn [ws] in H; right; left; cbn; exact H end.
Qed.
