(** C10 -- "with a notify_one on EVERY enqueue, a queued job and an idle worker never coexist in a quiescent state",
    also when job bodies block in a rendezvous ([JWait]).  Counting argument: as long as some worker sleeps in
    cv_jobs_.wait and the pool is not terminated,

        #queued jobs + #sleeping workers  <=  #workers in the worker loop (outside a job body) + #threads between the
                                               push and the notify_one of enqueue()

    Every enqueue() takes one worker out of the wait set (if there is one), every pop takes one worker out of the loop.
    In a quiescent state the workers in the loop that do not sleep are enabled, hence a queued job with a sleeping worker
    is impossible.  (A code change that notifies only when the queue becomes non-empty breaks exactly the step
    "notify_one with a non-empty wait set removes a sleeper": the invariant fails, and the rendezvous scenarios of the
    check reach the forbidden rest state on the real code.) *)
From Coq Require Import List Arith Bool Lia Permutation.
From TLXV Require Import C10.Pool C10.PoolLemmas C10.PoolSafety C10.PoolWait C10.PoolCands C10.PoolLive C10.PoolLive2 C10.PoolLive3
  C10.PoolLive4.
Import ListNotations.

(** in the worker loop, outside a job body, not exited (includes a worker inside cv_jobs_.wait) *)
Definition loopw (ts : tstate) : bool := match ts with TW W9 | TW W9e => false | TW _ => true | _ => false end.
Definition aenq1 (a : api) : nat := match a with QEnq1 => 1 | _ => 0 end.
Definition oaenq1 (oa : option api) : nat := match oa with Some a => aenq1 a | None => 0 end.
(** contribution of one thread to the right-hand side *)
Definition lt (ts : tstate) : nat := b2n (loopw ts) + b2n (enq1 ts).

Lemma lt_api_ctx ts a : cur_api ts = Some a -> loopw ts = false -> lt ts = aenq1 a.
Proof. unfold lt, enq1. intros -> ->. destruct a; reflexivity. Qed.

Lemma lt_job_next tk j r : lt (job_next tk j r) = 0.
Proof. destruct r as [|[] r]; reflexivity. Qed.
Lemma lt_client_next r : lt (client_next r) = 0.
Proof. destruct r as [|[] r]; reflexivity. Qed.
Lemma lt_main_joinw cfg k : lt (main_joinw cfg k) = 0.
Proof. conts_goal; reflexivity. Qed.
Lemma lt_main_joinc cfg k : lt (main_joinc cfg k) = 0.
Proof. conts_goal; reflexivity. Qed.
Lemma lt_main_ops cfg r : lt (main_ops cfg r) = 0.
Proof. conts_goal; reflexivity. Qed.
Lemma lt_main_spawnc cfg k : lt (main_spawnc cfg k) = 0.
Proof. conts_goal; reflexivity. Qed.
Lemma lt_main_ctor cfg k : lt (main_ctor cfg k) = 0.
Proof. conts_goal; reflexivity. Qed.

(** * Effect of one step on (queue length, wait set of cv_jobs_, own contribution) *)
Definition qeff (t : nat) (s s' : shared) (w4t : bool) (l l' : nat) : Prop :=
  term s' = true \/
  wsJ s' = [] \/
  (w4t = true /\ wsJ s' = wsJ s ++ [t] /\ queue s' = queue s /\ l' = l) \/
  ((exists v, In v (wsJ s) /\ wsJ s' = rem v (wsJ s)) /\ queue s' = queue s /\ l <= l' + 1) \/
  (wsJ s' = wsJ s /\ length (queue s') + l <= length (queue s) + l').

Ltac qeff_solve :=
  cbn; rewrite ?app_length; cbn;
  first [ left; (reflexivity || assumption)
        | right; left; reflexivity
        | right; right; left; repeat split; reflexivity
        | right; right; right; right; split; [reflexivity | lia]
        | right; right; right; left; split; [eexists; split; [eassumption | reflexivity] | split; [reflexivity | lia]] ].

Lemma api_qeff fx sp t s a e s' oa :
  api_step fx sp t s a e = Some (s', oa) -> qeff t s s' false (aenq1 a) (oaenq1 oa).
Proof.
  intros H. unfold api_step in H. unfold_ops H. unfold qeff.
  destruct a; inv_some H; beq; subst;
    repeat match goal with H : mem _ _ = true |- _ => apply mem_In in H end;
    try qeff_solve.
  all: match goal with H : ws CJ ?s = [] |- _ => cbn [ws] in H; right; left; cbn; exact H end.
Qed.

Lemma qeff_lift t s s' a oa ts ts' :
  qeff t s s' false (aenq1 a) (oaenq1 oa) -> w4 ts = false -> lt ts = aenq1 a -> lt ts' = oaenq1 oa ->
  qeff t s s' (w4 ts) (lt ts) (lt ts').
Proof.
  unfold qeff. intros [H|[H|[(H & _)|[H|H]]]] W -> ->; try discriminate H; auto.
Qed.

Section LocalQ.
  Variables (cfg : config) (fx sp : bool) (fin : nat -> bool) (t : nat).

  Ltac api_ctx H :=
    match type of H with
    | context [api_step ?a ?b ?c ?d ?e ?f] => destruct (api_step a b c d e f) as [[? [?|]]|] eqn:Hapi; inversion H; subst; clear H
    end.

  Lemma tstep_qeff s ts e s' ts' spw :
    tstep cfg fx sp fin t s ts e = Some (s', ts', spw) -> qeff t s s' (w4 ts) (lt ts) (lt ts').
  Proof.
    intros H.
    destruct ts as [| |p|tk j|tk j|tk j a r|tk j|a r| |p|a r]; cbn [tstep] in H; try discriminate.
    - unfold_ops H. unfold qeff. destruct p; inv_some H; beq; subst;
        repeat match goal with H : mem _ _ = true |- _ => apply mem_In in H end;
        repeat match goal with |- context [if ?b then _ else _] => destruct b eqn:? end;
        try qeff_solve.
    - unfold_ops H. unfold qeff. inv_some H. qeff_solve.
    - inv_some H. unfold qeff. rewrite lt_job_next. qeff_solve.
    - api_ctx H; apply api_qeff in Hapi; eapply qeff_lift; eauto; try reflexivity; try apply lt_job_next;
        apply lt_api_ctx; reflexivity.
    - inv_some H. unfold qeff. qeff_solve.
    - api_ctx H; apply api_qeff in Hapi; eapply qeff_lift; eauto; try reflexivity; try apply lt_client_next;
        apply lt_api_ctx; reflexivity.
    - inv_some H. unfold qeff. qeff_solve.
    - unfold_ops H. unfold qeff. destruct p; inv_some H; beq; subst;
        rewrite ?lt_main_ctor, ?lt_main_spawnc, ?lt_main_joinc, ?lt_main_joinw; try qeff_solve.
    - api_ctx H; apply api_qeff in Hapi; eapply qeff_lift; eauto; try reflexivity; try apply lt_main_ops;
        apply lt_api_ctx; reflexivity.
  Qed.
End LocalQ.

(** * Pigeonhole between a duplicate-free list of thread ids and the number of threads with a property *)
Lemma idx_length_gen (P : tstate -> bool) : forall l k,
  length (filter (fun u => P (nth (u - k) l TNone)) (seq k (length l))) = length (filter P l).
Proof.
  induction l as [|x l IH]; intros k; [reflexivity|].
  cbn [length seq filter]. replace (P (nth (k - k) (x :: l) TNone)) with (P x) by (rewrite Nat.sub_diag; reflexivity).
  assert (E : filter (fun u => P (nth (u - k) (x :: l) TNone)) (seq (S k) (length l)) =
              filter (fun u => P (nth (u - S k) l TNone)) (seq (S k) (length l))).
  { apply filter_ext_in. intros u Hu. apply in_seq in Hu. replace (u - k) with (S (u - S k)) by lia. reflexivity. }
  destruct (P x); cbn [length]; rewrite E, IH; reflexivity.
Qed.

Definition idxs (P : tstate -> bool) (l : list tstate) : list nat := filter (fun u => P (get l u)) (seq 0 (length l)).

Lemma idxs_length P l : length (idxs P l) = cnt P l.
Proof.
  unfold idxs, cnt, get. rewrite <- (idx_length_gen P l 0). f_equal. apply filter_ext. intros u. now rewrite Nat.sub_0_r.
Qed.
Lemma idxs_in P l u : P TNone = false -> (In u (idxs P l) <-> P (get l u) = true).
Proof.
  intros PN. unfold idxs. rewrite filter_In, in_seq. split; [tauto|]. intros H. split; auto.
  destruct (Nat.lt_ge_cases u (length l)) as [|Hge]; [lia|]. rewrite (get_beyond _ _ Hge), PN in H. discriminate.
Qed.
Lemma idxs_nodup P l : NoDup (idxs P l).
Proof. unfold idxs. apply NoDup_filter. apply seq_NoDup. Qed.

Lemma pigeon_le P l (wl : list nat) :
  P TNone = false -> NoDup wl -> (forall u, In u wl -> P (get l u) = true) -> length wl <= cnt P l.
Proof.
  intros PN ND H. rewrite <- idxs_length. apply NoDup_incl_length; auto. intros u Hu. apply idxs_in; auto.
Qed.
Lemma pigeon_ge P l (wl : list nat) :
  P TNone = false -> (forall u, P (get l u) = true -> In u wl) -> cnt P l <= length wl.
Proof.
  intros PN H. rewrite <- idxs_length. apply NoDup_incl_length; [apply idxs_nodup|]. intros u Hu. apply H. now apply idxs_in in Hu.
Qed.

Lemma rem_nodup v l : NoDup l -> NoDup (rem v l).
Proof. apply NoDup_filter. Qed.
Lemma rem_length v l : NoDup l -> In v l -> S (length (rem v l)) = length l.
Proof.
  induction l as [|x l IH]; intros ND Hin; [destruct Hin|]. inversion ND as [|? ? Hx ND']; subst.
  unfold rem. cbn [filter]. destruct (Nat.eqb_spec v x) as [->|Hne]; cbn [negb].
  - fold (rem x l). assert (E : rem x l = l).
    { unfold rem. clear IH ND ND' Hin. induction l as [|y l IH]; [reflexivity|]. cbn.
      destruct (Nat.eqb_spec x y) as [->|]; [exfalso; apply Hx; now left|]. cbn. f_equal. apply IH. intros H. apply Hx. now right. }
    now rewrite E.
  - cbn [length]. f_equal. fold (rem v l). apply IH; auto. destruct Hin; congruence.
Qed.

Lemma ws_eff_nodupJ sp t s s' sl sl' :
  ws_eff sp t s s' sl sl' -> NoDup (wsJ s) -> (In t (wsJ s) -> sl <> None) -> NoDup (wsJ s').
Proof.
  intros [E1 E2 E3 E4 E5|c E1 E2 E3 E4 E5 E6|c E1 E2 E3 E4 E5 E6 E7|c Esp E1 E2 E3 E4 E5 E6|c v E1 E2 E3 E4 E5 E6|c E1 E2 E3 E4 E5] ND NT;
    try (destruct c; cbn [ws other] in *); try congruence.
  - rewrite E3. apply (Permutation_NoDup (Permutation_cons_append (wsJ s) t)). constructor; auto. intros X. now apply NT in X.
  - rewrite E4. now apply rem_nodup.
  - rewrite E4. now apply rem_nodup.
  - rewrite E3. constructor.
Qed.

(** * The counting invariant *)
Record QInv (s : state) : Prop := {
  q_nodup : NoDup (wsJ (shr s));
  q_cnt : wsJ (shr s) <> [] -> term (shr s) = false ->
          length (queue (shr s)) + length (wsJ (shr s)) <= cnt loopw (thr s) + cnt enq1 (thr s)
}.

Lemma qinv_init cfg : QInv (init cfg).
Proof. constructor; cbn; [constructor | congruence]. Qed.

Lemma loopw_w5_slp ts : slp ts = Some CJ -> loopw ts = true.
Proof. intros H. apply slp_CJ_w5 in H. now subst. Qed.

Lemma qinv_tstep cfg fx sp fin t s e sh' ts' spw :
  WInv s -> JInv s -> QInv s -> tstep cfg fx sp fin t (shr s) (get (thr s) t) e = Some (sh', ts', spw) ->
  QInv {| shr := sh'; thr := set (thr s) t ts' |}.
Proof.
  intros HW HJ [Q1 Q2] H.
  pose proof (winv_tstep _ _ _ _ _ _ _ _ _ _ HW H) as HW'.
  pose proof (tstep_ws _ _ _ _ _ _ _ _ _ _ _ H) as WS.
  pose proof (tstep_qeff _ _ _ _ _ _ _ _ _ _ _ H) as QE.
  set (ts := get (thr s) t) in *.
  assert (ND' : NoDup (wsJ sh')).
  { eapply ws_eff_nodupJ; eauto. intros Hin. destruct (w_in _ HW CJ t Hin) as (A & _). fold ts in A. congruence. }
  constructor; cbn [shr thr]; [exact ND'|].
  intros NE T'.
  assert (T : term (shr s) = false).
  { destruct (term (shr s)) eqn:E; auto. rewrite (tstep_term _ _ _ _ _ _ _ _ _ _ _ H E) in T'. discriminate. }
  pose proof (cnt_set loopw eq_refl t (thr s) ts') as CL. pose proof (cnt_set enq1 eq_refl t (thr s) ts') as CE. fold ts in CL, CE.
  unfold lt in QE.
  destruct QE as [X|[X|[(X1 & X2 & X3 & X4)|[((v & V1 & V2) & X3 & X4)|(X1 & X2)]]]].
  - congruence.
  - contradiction.
  - (* the worker goes to sleep: the queue is empty; all sleepers are distinct workers in the loop *)
    destruct (j_w4 _ HJ t X1) as (_ & QN). rewrite X3, QN. cbn [length].
    assert (length (wsJ sh') <= cnt loopw (set (thr s) t ts')).
    { apply pigeon_le; auto. intros u Hu. destruct (w_in _ HW' CJ u Hu) as (A & _). cbn [shr thr] in A. now apply loopw_w5_slp. }
    lia.
  - assert (NE0 : wsJ (shr s) <> []) by (intros E0; rewrite E0 in V1; destruct V1).
    specialize (Q2 NE0 T). pose proof (rem_length v _ Q1 V1) as RL. rewrite V2, X3. lia.
  - rewrite X1 in *. specialize (Q2 NE T). lia.
Qed.

Lemma qinv_spawn sh l u v : QInv {| shr := sh; thr := l |} -> get l u = TNone -> QInv {| shr := sh; thr := set l u v |}.
Proof.
  intros [Q1 Q2] Hu. cbn [shr thr] in *. constructor; cbn [shr thr]; auto.
  intros NE T. specialize (Q2 NE T).
  pose proof (cnt_set loopw eq_refl u l v) as CL. pose proof (cnt_set enq1 eq_refl u l v) as CE. rewrite Hu in CL, CE. cbn in CL, CE. lia.
Qed.

Lemma qinv_step cfg fx sp s te s' : WInv s -> JInv s -> QInv s -> lstep_gen cfg fx sp s te = Some s' -> QInv s'.
Proof.
  intros HW HJ HQ H. destruct te as [t e]. unfold lstep_gen in H.
  destruct (tstep cfg fx sp (fun u => is_fin (get (thr s) u)) t (shr s) (get (thr s) t) e) as [[[sh' ts'] spw]|] eqn:Ht; [|discriminate].
  pose proof (qinv_tstep _ _ _ _ _ _ _ _ _ _ HW HJ HQ Ht) as HQ'.
  destruct spw as [[u tsu]|].
  - destruct (is_none (get (thr s) u)) eqn:Hn; [|discriminate]. inversion H; subst; clear H.
    apply qinv_spawn; auto.
    assert (Hu : get (thr s) u = TNone) by (destruct (get (thr s) u); try discriminate; reflexivity).
    rewrite get_set. destruct (Nat.eqb_spec t u) as [->|]; [|exact Hu].
    exfalso. apply (tstep_not_none _ _ _ _ _ _ _ _ _ Ht). exact Hu.
  - inversion H; subst. exact HQ'.
Qed.

Lemma qinv_reachable cfg fx sp s : reachable_gen cfg fx sp s -> QInv s.
Proof.
  induction 1 as [|s te s' R IH H|s te s' R IH H]; [apply qinv_init| |].
  - eapply qinv_step; eauto; [eapply winv_reachable | eapply jinv_reachable]; eauto.
  - (* an extra notification only shrinks the wait set *)
    destruct IH as [Q1 Q2]. destruct te as [t e].
    destruct (xstep_inv _ _ _ _ H) as (Et & _ & (Q & _ & _ & _ & T & _) & [E|[(c & E1 & E2 & E3)|(c & v & V & E1 & E2 & E3)]]).
    + constructor; rewrite ?Et, ?E; auto.
    + destruct c; constructor; rewrite ?Et, ?Q, ?T; cbn [ws] in *.
      * rewrite E1. constructor.
      * rewrite E1. congruence.
      * assert (E4 : wsJ (shr s') = wsJ (shr s)) by (apply (E2 CJ); discriminate). rewrite E4. auto.
      * assert (E4 : wsJ (shr s') = wsJ (shr s)) by (apply (E2 CJ); discriminate). rewrite E4. auto.
    + destruct c; constructor; rewrite ?Et, ?Q, ?T; cbn [ws] in *.
      * rewrite E1. now apply rem_nodup.
      * rewrite E1. intros NE Tn. assert (NE0 : wsJ (shr s) <> []) by (intros X; rewrite X in V; destruct V).
        specialize (Q2 NE0 Tn). pose proof (rem_length v _ Q1 V). lia.
      * assert (E4 : wsJ (shr s') = wsJ (shr s)) by (apply (E2 CJ); discriminate). rewrite E4. auto.
      * assert (E4 : wsJ (shr s') = wsJ (shr s)) by (apply (E2 CJ); discriminate). rewrite E4. auto.
Qed.

(** * The theorem *)
Lemma loopw_is_worker ts : loopw ts = true -> is_worker ts = true.
Proof. destruct ts as [| |p| | | | | | |p|]; cbn; try discriminate; auto. Qed.
Lemma loopw_not_blocked s ts : loopw ts = true -> blockedw s ts = false.
Proof. destruct ts as [| |p| | | | | | |p|]; cbn; try discriminate; auto. Qed.

(** With a notify_one on every enqueue, a queued job and an idle worker never coexist in a quiescent state of an
    un-terminated pool -- whatever the job bodies do, including bodies that block until another job has ended. *)
Theorem no_queued_job_with_idle_worker cfg s u :
  reachable cfg false s -> quiescent cfg true false s -> waits_job (get (thr s) u) = true -> term (shr s) = false ->
  queue (shr s) = [].
Proof.
  intros R Q Hu T.
  pose proof (inv_reachable _ _ _ _ R) as HI. pose proof (winv_reachable _ _ _ _ R) as HW. pose proof (qinv_reachable _ _ _ _ R) as HQ.
  pose proof (quiescent_free _ _ _ R Q) as Ho.
  apply waits_job_w5 in Hu.
  assert (Es : slp (get (thr s) u) = Some CJ) by now rewrite Hu.
  assert (Hin : In u (wsJ (shr s))).
  { destruct (w_slp _ HW CJ u Es) as [A|A]; auto.
    destruct (waiter_enabled cfg true false s u CJ Es A Ho) as (s' & E). rewrite (Q u _) in E. discriminate. }
  assert (NE : wsJ (shr s) <> []) by (intros E0; rewrite E0 in Hin; destruct Hin).
  pose proof (q_cnt _ HQ NE T) as C.
  (* nobody is between push and notify: such a thread holds the mutex *)
  assert (E0 : cnt enq1 (thr s) = 0).
  { destruct (Nat.eq_dec (cnt enq1 (thr s)) 0) as [|Hne]; auto. exfalso. destruct (cnt_ex _ _ Hne) as (w & P).
    apply enq1_hold in P. rewrite (free_not_hold _ _ HI Ho) in P. discriminate. }
  (* every worker in the loop sleeps (otherwise it would be enabled) *)
  assert (LE : cnt loopw (thr s) <= length (wsJ (shr s))).
  { apply pigeon_ge; [reflexivity|]. intros w Hw.
    destruct (in_dec Nat.eq_dec w (wsJ (shr s))) as [|Hn]; auto. exfalso.
    destruct (worker_enabled cfg s w R Ho (loopw_is_worker _ Hw) Hn (loopw_not_blocked _ _ Hw)) as (e & s' & E).
    unfold lstep in E. rewrite (Q w e) in E. discriminate. }
  destruct (queue (shr s)); [reflexivity|]. cbn [length] in C. lia.
Qed.

(** No quiescent state has an idle worker (blocked in cv_jobs_.wait) while the pool is terminated or while jobs are queued. *)
Theorem no_stranded_idle_worker cfg s u :
  reachable cfg false s -> quiescent cfg true false s -> waits_job (get (thr s) u) = true ->
  term (shr s) = false /\ queue (shr s) = [].
Proof.
  intros R Q Hu.
  assert (T : term (shr s) = false).
  { pose proof (inv_reachable _ _ _ _ R) as HI. pose proof (winv_reachable _ _ _ _ R) as HW. pose proof (jinv_reachable _ _ _ _ R) as HJ.
    pose proof (quiescent_free _ _ _ R Q) as Ho. pose proof (waits_job_w5 _ Hu) as Hu'.
    assert (Es : slp (get (thr s) u) = Some CJ) by now rewrite Hu'.
    assert (Hin : In u (wsJ (shr s))).
    { destruct (w_slp _ HW CJ u Es) as [A|A]; auto.
      destruct (waiter_enabled cfg true false s u CJ Es A Ho) as (s' & E). rewrite (Q u _) in E. discriminate. }
    destruct (j_sleep _ HJ (ex_intro _ u Hin)) as [T|(w & P)]; auto. exfalso.
    apply pendJ_hold in P. rewrite (free_not_hold _ _ HI Ho) in P. discriminate. }
  split; auto. eapply no_queued_job_with_idle_worker; eauto.
Qed.
