(** C10 -- basic lemmas: thread table, counting, set operations, and the case-analysis tactic for [tstep]. *)
From Coq Require Import List Arith Bool Lia Permutation.
From TLXV Require Import C10.Pool.
Import ListNotations.

(** * Thread table *)
Lemma nth_nil_none u : nth u (@nil tstate) TNone = TNone.
Proof. destruct u; reflexivity. Qed.

Lemma get_nil u : get [] u = TNone.
Proof. destruct u; reflexivity. Qed.

Lemma get_set_eq : forall t l v, get (set l t v) t = v.
Proof. induction t as [|t IH]; intros [|x l] v; cbn; auto; apply IH. Qed.

Lemma get_set_neq : forall t l u v, t <> u -> get (set l t v) u = get l u.
Proof.
  unfold get. induction t as [|t IH]; intros [|x l] [|u] v Hne; cbn [set nth]; try congruence; auto.
  - destruct u; reflexivity.
  - rewrite (IH [] u v) by congruence. apply nth_nil_none.
Qed.

Lemma get_set : forall t l u v, get (set l t v) u = if Nat.eqb t u then v else get l u.
Proof.
  intros t l u v. destruct (Nat.eqb_spec t u) as [->|Hne]; [apply get_set_eq | now apply get_set_neq].
Qed.

Lemma get_beyond l u : length l <= u -> get l u = TNone.
Proof. intros H. unfold get. now apply nth_overflow. Qed.

(** * Counting and collecting over the thread table *)
Definition cnt (P : tstate -> bool) (l : list tstate) : nat := length (filter P l).
Definition collect (f : tstate -> list nat) (l : list tstate) : list nat := flat_map f l.

Lemma cnt_set : forall P, P TNone = false -> forall t l v,
  cnt P (set l t v) + b2n (P (get l t)) = cnt P l + b2n (P v).
Proof.
  intros P HP. unfold cnt, get. induction t as [|t IH]; intros [|x l] v; cbn [set nth filter].
  - rewrite HP. destruct (P v); reflexivity.
  - destruct (P v), (P x); cbn; lia.
  - rewrite HP. specialize (IH [] v). rewrite nth_nil_none, HP in IH. cbn in IH. cbn. lia.
  - specialize (IH l v). destruct (P x); cbn [length]; lia.
Qed.

Lemma cnt_zero P l : cnt P l = 0 -> forall u, P (get l u) = true -> P TNone = true.
Proof.
  unfold cnt. revert l. induction l as [|x l IH]; intros H u Hu.
  - rewrite get_nil in Hu. exact Hu.
  - cbn in H. destruct (P x) eqn:Hx; [discriminate|]. destruct u; cbn in Hu; [congruence|]. apply (IH H u Hu).
Qed.

Lemma cnt_pos P l u : P (get l u) = true -> P TNone = false -> 1 <= cnt P l.
Proof.
  intros Hu HN. destruct (cnt P l) eqn:E; [|lia].
  pose proof (cnt_zero P l E u Hu). congruence.
Qed.

Lemma collect_set : forall f, f TNone = [] -> forall t l v,
  Permutation (f (get l t) ++ collect f (set l t v)) (f v ++ collect f l).
Proof.
  intros f Hf. unfold collect, get. induction t as [|t IH]; intros [|x l] v; cbn [set nth flat_map].
  - rewrite Hf. reflexivity.
  - apply Permutation_app_swap_app.
  - rewrite Hf. specialize (IH [] v). rewrite nth_nil_none, Hf in IH. cbn in IH. cbn. exact IH.
  - specialize (IH l v). rewrite Permutation_app_swap_app. rewrite IH. apply Permutation_app_swap_app.
Qed.

Lemma collect_nil f l : (forall u, f (get l u) = []) -> collect f l = [].
Proof.
  unfold collect. induction l as [|x l IH]; intros H; cbn; auto.
  rewrite (H 0 : f x = []). cbn. apply IH. intros u. apply (H (S u)).
Qed.

(** * mem / rem *)
Lemma mem_In t l : mem t l = true <-> In t l.
Proof.
  unfold mem. rewrite existsb_exists. split.
  - intros (x & Hx & E). apply Nat.eqb_eq in E. now subst.
  - intros H. exists t. split; auto. apply Nat.eqb_refl.
Qed.

Lemma In_rem u t l : In u (rem t l) <-> In u l /\ u <> t.
Proof.
  unfold rem. rewrite filter_In. split; intros (H1 & H2); split; auto.
  - intros ->. rewrite Nat.eqb_refl in H2. discriminate.
  - apply negb_true_iff. apply Nat.eqb_neq. congruence.
Qed.

(** * Case analysis of a step *)
Ltac break_inner H :=
  match type of H with
  | context [match ?x with _ => _ end] =>
      lazymatch x with
      | context [match _ with _ => _ end] => fail
      | _ => destruct x eqn:?
      end
  end.
Ltac inv_some H := repeat (first [discriminate H | break_inner H]); inversion H; subst; clear H.

Ltac unfold_ops H :=
  unfold do_lock, do_unlock, do_wb, do_we, do_n1, do_na, free, owned in H.

Ltac beq :=
  repeat match goal with
  | H : Nat.eqb _ _ = true |- _ => apply Nat.eqb_eq in H
  | H : Nat.eqb _ _ = false |- _ => apply Nat.eqb_neq in H
  | H : Nat.leb _ _ = true |- _ => apply Nat.leb_le in H
  | H : Nat.ltb _ _ = true |- _ => apply Nat.ltb_lt in H
  | H : Nat.ltb _ _ = false |- _ => apply Nat.ltb_ge in H
  | H : andb _ _ = true |- _ => apply andb_true_iff in H; destruct H
  | H : negb _ = true |- _ => apply negb_true_iff in H
  | H : negb _ = false |- _ => apply negb_false_iff in H
  end.

(** * Abstractions of a thread state *)
Definition ahold (a : api) : bool :=
  match a with
  | QEnq1 | QEnq2 | QTerm1 | QTerm2 | QTerm3 | QTerm4 | QLE1 | QLE2 | QLE4 | QLT1 | QLT1b | QLT2 | QLT4 => true
  | _ => false
  end.
Definition ohold (oa : option api) : bool := match oa with Some a => ahold a | None => false end.

(** holds mutex_ *)
Definition hold (ts : tstate) : bool :=
  match ts with
  | TW W1 | TW W2 | TW W3 | TW W4 | TW W6 | TW W8 | TW W9 | TW W10 | TW WD3 => true
  | TWJ0 _ _ => true
  | TM M4 | TM M5 | TM M6 => true
  | TWJ _ _ a _ | TC a _ | TMO a _ => ahold a
  | _ => false
  end.
(** between ++busy_ and --busy_ *)
Definition busyr (ts : tstate) : bool :=
  match ts with TWJ0 _ _ | TWJ1 _ _ | TWJ _ _ _ _ | TWJE _ _ | TW WD0 | TW WD1 => true | _ => false end.
(** the ticket whose job body has been popped and has not ended *)
Definition runl (ts : tstate) : list nat :=
  match ts with TWJ0 tk _ | TWJ1 tk _ | TWJ tk _ _ _ | TWJE tk _ => [tk] | _ => [] end.
(** between the end of the job body and ++done_ *)
Definition incd (ts : tstate) : bool := match ts with TW WD0 => true | _ => false end.
(** between ++idle_ and --idle_ *)
Definition idler (ts : tstate) : bool := match ts with TW W3 | TW W4 | TW W5 | TW W6 => true | _ => false end.
(** loop_until_empty about to return *)
Definition le4 (ts : tstate) : bool := match cur_api ts with Some QLE4 => true | _ => false end.

Definition inert (ts : tstate) : Prop :=
  hold ts = false /\ busyr ts = false /\ runl ts = [] /\ incd ts = false /\ idler ts = false /\ le4 ts = false.

Lemma inert_none : inert TNone. Proof. repeat split. Qed.
Lemma inert_client_next r : inert (client_next r).
Proof. destruct r as [|[] r]; repeat split. Qed.

Lemma runl_busyr ts : runl ts <> [] -> busyr ts = true.
Proof. destruct ts as [| |p| | | | | | |p|]; cbn; try congruence; destruct p; cbn; congruence. Qed.
Lemma incd_busyr ts : incd ts = true -> busyr ts = true.
Proof. destruct ts as [| |p| | | | | | |p|]; cbn; try congruence; destruct p; cbn; congruence. Qed.

Lemma qempty_true s : qempty s = true -> queue s = [].
Proof. unfold qempty. destruct (queue s); congruence. Qed.
Lemma qempty_false s : qempty s = false -> queue s <> [].
Proof. unfold qempty. destruct (queue s); congruence. Qed.
Lemma owned_true u s : owned u s = true -> owner s = Some u.
Proof. unfold owned. destruct (owner s); [|discriminate]. intros H. apply Nat.eqb_eq in H. now subst. Qed.
Lemma owned_some u t s : owner s = Some t -> owned u s = Nat.eqb t u.
Proof. unfold owned. now intros ->. Qed.
Lemma owned_none u s : owner s = None -> owned u s = false.
Proof. unfold owned. now intros ->. Qed.

Lemma le4_hold ts : le4 ts = true -> hold ts = true.
Proof.
  unfold le4. destruct ts; cbn; try discriminate.
  all: match goal with a : api |- _ => destruct a; cbn; intros; (discriminate || reflexivity) end.
Qed.

Lemma abs_job_next tk j r : hold (job_next tk j r) = false /\ busyr (job_next tk j r) = true /\ runl (job_next tk j r) = [tk] /\
  incd (job_next tk j r) = false /\ idler (job_next tk j r) = false /\ le4 (job_next tk j r) = false.
Proof. destruct r as [|[] r]; repeat split. Qed.
Lemma inert_main_joinw cfg k : inert (main_joinw cfg k).
Proof. unfold main_joinw. destruct (Nat.ltb k (nworkers cfg)); repeat split. Qed.
Lemma inert_main_joinc cfg k : inert (main_joinc cfg k).
Proof. unfold main_joinc. destruct (Nat.ltb k (length (clients cfg))); repeat split. Qed.
Lemma inert_main_ops cfg r : inert (main_ops cfg r).
Proof. destruct r as [|[] r]; cbn; try apply inert_main_joinc; repeat split. Qed.
Lemma inert_main_spawnc cfg k : inert (main_spawnc cfg k).
Proof. unfold main_spawnc. destruct (Nat.ltb k (length (clients cfg))); [repeat split | apply inert_main_ops]. Qed.
Lemma inert_main_ctor cfg k : inert (main_ctor cfg k).
Proof. unfold main_ctor. destruct (Nat.ltb k (nworkers cfg)); [repeat split | apply inert_main_spawnc]. Qed.

(** * Extra notifications ([xstep]) touch only the wait sets *)
Definition same_core (s s' : shared) : Prop :=
  queue s' = queue s /\ busy s' = busy s /\ idle s' = idle s /\ done s' = done s /\ term s' = term s /\ owner s' = owner s /\
  npushed s' = npushed s /\ started s' = started s /\ ended s' = ended s /\ endedj s' = endedj s.

Lemma xstep_inv s t e s' :
  xstep s (t, e) = Some s' ->
  thr s' = thr s /\ can_xnotify (get (thr s) t) = true /\ same_core (shr s) (shr s') /\
  (shr s' = shr s \/
   (exists c, ws c (shr s') = [] /\ (forall c', c' <> c -> ws c' (shr s') = ws c' (shr s)) /\ woken (shr s') = ws c (shr s) ++ woken (shr s)) \/
   (exists c u, In u (ws c (shr s)) /\ ws c (shr s') = rem u (ws c (shr s)) /\ (forall c', c' <> c -> ws c' (shr s') = ws c' (shr s)) /\
                woken (shr s') = u :: woken (shr s))).
Proof.
  unfold xstep. destruct (can_xnotify (get (thr s) t)) eqn:C; [|discriminate].
  destruct e; cbn [xnotify]; try discriminate.
  - (* notify_one *)
    unfold do_n1. destruct w as [u|].
    + destruct (mem u (ws c (shr s))) eqn:M; [|discriminate]. intros H. inversion H; subst; clear H. cbn [shr thr].
      repeat split; try reflexivity. right; right. exists c, u. apply mem_In in M.
      destruct c; cbn; repeat split; auto; intros [] X; try congruence; reflexivity.
    + destruct (ws c (shr s)) eqn:E; [|discriminate]. intros H. inversion H; subst; clear H. cbn [shr thr].
      repeat split; auto.
  - (* notify_all *)
    intros H. inversion H; subst; clear H. cbn [shr thr]. repeat split; try reflexivity.
    right; left. exists c. destruct c; cbn; repeat split; auto; intros [] X; try congruence; reflexivity.
Qed.
