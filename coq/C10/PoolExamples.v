(** C10 -- examples: the hypotheses of the main theorems are satisfiable by non-trivial states.
    The traces were recorded from the REAL repaired tlx/thread_pool.cpp under the deterministic scheduler. *)
From Coq Require Import List Arith Bool.
From TLXV Require Import C10.Pool C10.PoolLemmas C10.PoolCands.
Import ListNotations.

Lemma run_reachable cfg fx sp tr : forall s s', reachable_gen cfg fx sp s -> run_gen cfg fx sp s tr = Some s' -> reachable_gen cfg fx sp s'.
Proof.
  induction tr as [|te tr IH]; intros s s' R H; cbn in H.
  - inversion H; subst; auto.
  - destruct (lstep_gen cfg fx sp s te) as [s1|] eqn:E; [|discriminate]. eapply IH; [|exact H]. eapply reach_step; eauto.
Qed.

(** scenario: 1 worker; job 0 enqueues job 1; client 2: enqueue(0); loop_until_empty; client 3: loop_until_empty *)
Definition ex_trace : list (nat * ev) :=
  [(0, ESpawn 1); (0, ESpawn 2); (2, EUser UENQ 0); (2, ELock); (2, EN1 CJ None);
   (2, EUnlock); (2, EUser ULE 0); (0, ESpawn 3); (2, ELock); (3, EUser ULE 0);
   (2, EWB CF); (1, ELock); (1, EAL ATerm 0); (1, EAL ATerm 0); (1, EAR ABusy 0 1);
   (1, EUnlock); (3, ELock); (1, EUser UJS 0); (1, EUser UENQ 1); (3, EAL ABusy 1);
   (3, EWB CF); (1, ELock); (1, EN1 CJ None); (1, EUnlock); (1, EUser UJE 0);
   (1, EAR ADone 0 1); (1, EAR ABusy 1 0); (1, ELock); (1, ENA CF); (1, EAL ATerm 0);
   (1, EAL ATerm 0); (1, EAR ABusy 0 1); (1, EUnlock); (3, EWE CF false); (3, EAL ABusy 1);
   (3, EWB CF); (1, EUser UJS 1); (1, EUser UJE 1); (2, EWE CF false); (1, EAR ADone 1 2);
   (1, EAR ABusy 1 0); (2, EAL ABusy 0); (2, EUnlockR 2); (2, EEnd); (0, EJoin 2);
   (1, ELock); (1, ENA CF); (1, EAL ATerm 0); (1, EAR AIdle 0 1); (1, EAL ATerm 0);
   (1, EWB CJ); (3, EWE CF false); (3, EAL ABusy 0); (3, EUnlockR 2); (3, EEnd);
   (0, EJoin 3); (0, ELock); (0, EAS ATerm 1); (0, ENA CJ); (0, EUnlock);
   (1, EWE CJ false); (1, EAL ATerm 1); (1, EAR AIdle 1 0); (1, EAL ATerm 1); (1, EUnlock);
   (1, EEnd); (0, EJoin 1)].

(* index of the first return of loop_until_empty: 42, event (2, EUnlockR 2) *)
Definition rest_trace : list (nat * ev) :=
  [(0, ESpawn 1); (1, ELock); (0, ESpawn 2); (1, EAL ATerm 0); (2, EUser ULT 0);
   (1, EAR AIdle 0 1); (1, EAL ATerm 0); (1, EWB CJ); (2, ELock); (2, EAL ATerm 0);
   (2, EWB CF)].

Definition ex_final : state :=
  match run_gen wit_cfg true false (init wit_cfg) ex_trace with Some s => s | None => init wit_cfg end.
Definition ex_before_return : state :=
  match run_gen wit_cfg true false (init wit_cfg) (firstn 42 ex_trace) with Some s => s | None => init wit_cfg end.

(** a complete run of the repaired code: accepted, both jobs executed exactly once, main thread done, state quiescent *)
Example ex_complete_run :
  reachable wit_cfg false ex_final /\ get (thr ex_final) 0 = TM M8 /\ quiescent wit_cfg true false ex_final /\
  started (shr ex_final) = [1; 0] /\ ended (shr ex_final) = [1; 0] /\ done (shr ex_final) = 2.
Proof.
  split; [|split; [|split]].
  - apply (run_reachable wit_cfg true false ex_trace (init wit_cfg)); [apply reach_init | vm_compute; reflexivity].
  - vm_compute. reflexivity.
  - apply quiescentb_sound. vm_compute. reflexivity.
  - vm_compute. auto.
Qed.

(** the hypotheses of C10_empty_means_quiescent: a reachable state in which loop_until_empty returns, with two jobs *)
Example ex_loop_until_empty_returns :
  reachable wit_cfg false ex_before_return /\
  exists s', lstep wit_cfg false ex_before_return (2, EUnlockR 2) = Some s'.
Proof.
  split.
  - apply (run_reachable wit_cfg true false (firstn 42 ex_trace) (init wit_cfg)); [apply reach_init | vm_compute; reflexivity].
  - eexists. vm_compute. reflexivity.
Qed.

(** the hypotheses of the liveness theorems: a reachable, quiescent, non-final state -- a legitimate rest state:
    pool of 1 worker, a client in loop_until_terminate and nobody terminates (worker idle, client waiting with a
    false predicate, main joining the client) *)
Definition rest_cfg : config := {| nworkers := 1; jobprog := fun _ => []; clients := [[CLoopTerm]]; mainops := [] |}.
Definition rest_state : state :=
  match run_gen rest_cfg true false (init rest_cfg) rest_trace with Some s => s | None => init rest_cfg end.
Example ex_legitimate_rest_state :
  reachable rest_cfg false rest_state /\ quiescent rest_cfg true false rest_state /\
  waits_job (get (thr rest_state) 1) = true /\ waits_lt (get (thr rest_state) 2) = true /\ lt_pred (shr rest_state) = false /\
  some_stranded rest_state = false.
Proof.
  split; [|split].
  - apply (run_reachable rest_cfg true false rest_trace (init rest_cfg)); [apply reach_init | vm_compute; reflexivity].
  - apply quiescentb_sound. vm_compute. reflexivity.
  - vm_compute. auto.
Qed.

(** * Rendezvous between job bodies: pool of 2 workers, job 0 blocks until job 1's body has ended; client 3: enqueue(0);
      enqueue(1); loop_until_empty; done().  Trace of the real code (the harness' own rendezvous mutex / condition variable
      events are not part of the LTS: the rendezvous is the single event WD, enabled only when job 1 has ended). *)
Definition rdv_cfg : config :=
  {| nworkers := 2; jobprog := fun j => match j with 0 => [JWait 1] | _ => [] end;
     clients := [[CEnq 0; CEnq 1; CLoopEmpty; CDone]]; mainops := [] |}.
Definition rdv_trace : list (nat * ev) :=
  [(0, ESpawn 1); (0, ESpawn 2); (0, ESpawn 3); (1, ELock); (1, EAL ATerm 0);
   (3, EUser UENQ 0); (1, EAR AIdle 0 1); (1, EAL ATerm 0); (1, EWB CJ); (2, ELock);
   (2, EAL ATerm 0); (2, EAR AIdle 1 2); (2, EAL ATerm 0); (2, EWB CJ); (3, ELock);
   (3, EN1 CJ (Some 2)); (3, EUnlock); (3, EUser UENQ 1); (3, ELock); (3, EN1 CJ (Some 1));
   (3, EUnlock); (3, EUser ULE 0); (3, ELock); (3, EWB CF); (1, EWE CJ false);
   (1, EAL ATerm 0); (1, EAR AIdle 2 1); (1, EAL ATerm 0); (1, EAR ABusy 0 1); (1, EUnlock);
   (1, EUser UJS 0); (2, EWE CJ false); (2, EAL ATerm 0); (2, EAR AIdle 1 0); (2, EAL ATerm 0);
   (2, EAR ABusy 1 2); (2, EUnlock); (2, EUser UJS 1); (2, EUser UJE 1); (2, EAR ADone 0 1);
   (2, EAR ABusy 2 1); (2, ELock); (1, EUser UWD 1); (1, EUser UJE 0); (1, EAR ADone 1 2);
   (2, ENA CF); (2, EAL ATerm 0); (2, EAR AIdle 0 1); (1, EAR ABusy 1 0); (2, EAL ATerm 0);
   (2, EWB CJ); (3, EWE CF false); (3, EAL ABusy 0); (3, EUnlockR 2); (3, EAL ADone 2);
   (3, EEnd); (0, EJoin 3); (0, ELock); (0, EAS ATerm 1); (0, ENA CJ);
   (0, EUnlock); (1, ELock); (1, ENA CF); (1, EAL ATerm 1); (1, EAL ATerm 1);
   (1, EUnlock); (1, EEnd); (0, EJoin 1); (2, EWE CJ false); (2, EAL ATerm 1);
   (2, EAR AIdle 1 0); (2, EAL ATerm 1); (2, EUnlock); (2, EEnd); (0, EJoin 2)].
Definition rdv_final : state :=
  match run_gen rdv_cfg true false (init rdv_cfg) rdv_trace with Some s => s | None => init rdv_cfg end.
Definition rdv_blocked : state :=
  match run_gen rdv_cfg true false (init rdv_cfg) (firstn 31 rdv_trace) with Some s => s | None => init rdv_cfg end.

Example ex_rendezvous :
  reachable rdv_cfg false rdv_final /\ get (thr rdv_final) 0 = TM M8 /\ done (shr rdv_final) = 2 /\
  reachable rdv_cfg false rdv_blocked /\
  (* worker thread 1 is inside job 0, blocked: the rendezvous event is not accepted before job 1 has ended *)
  cur_api (get (thr rdv_blocked) 1) = Some (QWait 1) /\ endedj (shr rdv_blocked) = [] /\
  lstep rdv_cfg false rdv_blocked (1, EUser UWD 1) = None.
Proof.
  split; [apply (run_reachable rdv_cfg true false rdv_trace (init rdv_cfg)); [apply reach_init | vm_compute; reflexivity]|].
  split; [vm_compute; reflexivity|]. split; [vm_compute; reflexivity|].
  split; [apply (run_reachable rdv_cfg true false (firstn 31 rdv_trace) (init rdv_cfg)); [apply reach_init | vm_compute; reflexivity]|].
  vm_compute. auto.
Qed.
