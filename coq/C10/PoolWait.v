(** C10 -- the wait-set invariant: who is in which condition variable's wait set, who has been notified. *)
From Coq Require Import List Arith Bool Lia Permutation.
From TLXV Require Import C10.Pool C10.PoolLemmas C10.PoolSafety.
Import ListNotations.

Definition other (c : cv) : cv := match c with CJ => CF | CF => CJ end.
Lemma cv_eq_dec (c c' : cv) : {c = c'} + {c <> c'}.
Proof. decide equality. Qed.

(** in [wait]: between wait-begin and wait-end *)
Definition aslp (a : api) : option cv := match a with QLE3 | QLT3 => Some CF | _ => None end.
Definition oaslp (oa : option api) : option cv := match oa with Some a => aslp a | None => None end.
Definition slp (ts : tstate) : option cv :=
  match ts with
  | TW W5 => Some CJ
  | TWJ _ _ a _ | TC a _ | TMO a _ => aslp a
  | _ => None
  end.

(** effect of one step on the wait sets, in terms of the stepping thread's wait status before / after *)
Inductive ws_eff (sp : bool) (t : nat) (s s' : shared) (sl sl' : option cv) : Prop :=
| WSsame : sl = None -> sl' = None -> wsJ s' = wsJ s -> wsF s' = wsF s -> woken s' = woken s -> ws_eff sp t s s' sl sl'
| WSwb c : sl = None -> sl' = Some c -> ws c s' = ws c s ++ [t] -> ws (other c) s' = ws (other c) s ->
           woken s' = woken s -> owner s = Some t -> ws_eff sp t s s' sl sl'
| WSwe c : sl = Some c -> sl' = None -> In t (woken s) -> woken s' = rem t (woken s) ->
           wsJ s' = wsJ s -> wsF s' = wsF s -> owner s = None -> ws_eff sp t s s' sl sl'
| WSwes c : sp = true -> sl = Some c -> sl' = None -> In t (ws c s) -> ws c s' = rem t (ws c s) ->
            ws (other c) s' = ws (other c) s -> woken s' = woken s -> ws_eff sp t s s' sl sl'
| WSn1 c u : sl = None -> sl' = None -> In u (ws c s) -> ws c s' = rem u (ws c s) ->
             ws (other c) s' = ws (other c) s -> woken s' = u :: woken s -> ws_eff sp t s s' sl sl'
| WSna c : sl = None -> sl' = None -> ws c s' = [] -> ws (other c) s' = ws (other c) s ->
           woken s' = ws c s ++ woken s -> ws_eff sp t s s' sl sl'.

Lemma api_ws fx sp t s a e s' oa :
  api_step fx sp t s a e = Some (s', oa) -> ws_eff sp t s s' (aslp a) (oaslp oa).
Proof.
  intros H. unfold api_step in H. unfold_ops H.
  destruct a; inv_some H; cbn [aslp oaslp]; beq; subst;
    try (apply WSsame; reflexivity);
    try (match goal with H : mem ?u (ws ?c _) = true |- _ =>
           apply mem_In in H; first [ eapply (WSn1 _ _ _ _ _ _ c u); solve [reflexivity | exact H]
                                    | eapply (WSwes _ _ _ _ _ _ c); solve [reflexivity | exact H] ] end);
    try (match goal with H : mem _ (woken _) = true |- _ => apply mem_In in H; eapply (WSwe _ _ _ _ _ _ CF); solve [reflexivity | exact H | assumption] end);
    try (eapply (WSna _ _ _ _ _ _ CJ); reflexivity);
    try (eapply (WSna _ _ _ _ _ _ CF); reflexivity);
    try (eapply (WSwb _ _ _ _ _ _ CF); solve [reflexivity | cbn; f_equal; assumption]).
Qed.

Lemma slp_job_next tk j r : slp (job_next tk j r) = None.
Proof. destruct r as [|[] r]; reflexivity. Qed.
Lemma slp_client_next r : slp (client_next r) = None.
Proof. destruct r as [|[] r]; reflexivity. Qed.
Lemma slp_main_joinw cfg k : slp (main_joinw cfg k) = None.
Proof. unfold main_joinw. destruct (Nat.ltb k (nworkers cfg)); reflexivity. Qed.
Lemma slp_main_joinc cfg k : slp (main_joinc cfg k) = None.
Proof. unfold main_joinc. destruct (Nat.ltb k (length (clients cfg))); reflexivity. Qed.
Lemma slp_main_ops cfg r : slp (main_ops cfg r) = None.
Proof. destruct r as [|[] r]; cbn; try apply slp_main_joinc; reflexivity. Qed.
Lemma slp_main_spawnc cfg k : slp (main_spawnc cfg k) = None.
Proof. unfold main_spawnc. destruct (Nat.ltb k (length (clients cfg))); [reflexivity | apply slp_main_ops]. Qed.
Lemma slp_main_ctor cfg k : slp (main_ctor cfg k) = None.
Proof. unfold main_ctor. destruct (Nat.ltb k (nworkers cfg)); [reflexivity | apply slp_main_spawnc]. Qed.

Lemma tstep_ws cfg fx sp fin t s ts e s' ts' spw :
  tstep cfg fx sp fin t s ts e = Some (s', ts', spw) -> ws_eff sp t s s' (slp ts) (slp ts').
Proof.
  intros H.
  destruct ts as [| |p|tk j|tk j|tk j a r|tk j|a r| |p|a r]; cbn [tstep] in H; try discriminate.
  - unfold_ops H. destruct p; inv_some H; cbn [slp]; beq; subst;
      try (apply WSsame; reflexivity);
      try (match goal with H : mem ?u (ws ?c _) = true |- _ =>
             apply mem_In in H; first [ eapply (WSn1 _ _ _ _ _ _ c u); solve [reflexivity | exact H]
                                      | eapply (WSwes _ _ _ _ _ _ c); solve [reflexivity | exact H] ] end);
      try (match goal with H : mem _ (woken _) = true |- _ => apply mem_In in H; eapply (WSwe _ _ _ _ _ _ CJ); solve [reflexivity | exact H | assumption] end);
      try (eapply (WSna _ _ _ _ _ _ CF); reflexivity);
      try (eapply (WSwb _ _ _ _ _ _ CJ); solve [reflexivity | cbn; f_equal; assumption]).
  - unfold_ops H. inv_some H. apply WSsame; reflexivity.
  - inv_some H. cbn [slp]. rewrite slp_job_next. apply WSsame; reflexivity.
  - match type of H with context [api_step ?a ?b ?c ?d ?e ?f] => destruct (api_step a b c d e f) as [[? [?|]]|] eqn:Hapi; inversion H; subst; clear H end;
      apply api_ws in Hapi; cbn [slp]; [exact Hapi | rewrite slp_job_next; exact Hapi].
  - inv_some H. apply WSsame; reflexivity.
  - match type of H with context [api_step ?a ?b ?c ?d ?e ?f] => destruct (api_step a b c d e f) as [[? [?|]]|] eqn:Hapi; inversion H; subst; clear H end;
      apply api_ws in Hapi; cbn [slp]; [exact Hapi | rewrite slp_client_next; exact Hapi].
  - inv_some H. apply WSsame; reflexivity.
  - unfold_ops H. destruct p; inv_some H; cbn [slp];
      rewrite ?slp_main_ctor, ?slp_main_spawnc, ?slp_main_joinc, ?slp_main_joinw;
      try (apply WSsame; reflexivity); eapply (WSna _ _ _ _ _ _ CJ); reflexivity.
  - match type of H with context [api_step ?a ?b ?c ?d ?e ?f] => destruct (api_step a b c d e f) as [[? [?|]]|] eqn:Hapi; inversion H; subst; clear H end;
      apply api_ws in Hapi; cbn [slp]; [exact Hapi | rewrite slp_main_ops; exact Hapi].
Qed.

(** * The invariant *)
Record WInv (s : state) : Prop := {
  w_in : forall c u, In u (ws c (shr s)) -> slp (get (thr s) u) = Some c /\ ~ In u (woken (shr s));
  w_slp : forall c u, slp (get (thr s) u) = Some c -> In u (ws c (shr s)) \/ In u (woken (shr s));
  w_woken : forall u, In u (woken (shr s)) -> slp (get (thr s) u) <> None
}.

Lemma winv_init cfg : WInv (init cfg).
Proof.
  constructor; cbn.
  - intros [] u [].
  - intros c [|u]; cbn; [rewrite slp_main_ctor; discriminate | destruct u; discriminate].
  - intros u [].
Qed.

Lemma cv_cases (c c0 : cv) : c0 = c \/ c0 = other c.
Proof. destruct c, c0; auto. Qed.
Lemma other_neq c : other c <> c.
Proof. destruct c; discriminate. Qed.

Lemma winv_tstep cfg fx sp fin t s e sh' ts' spw :
  WInv s -> tstep cfg fx sp fin t (shr s) (get (thr s) t) e = Some (sh', ts', spw) ->
  WInv {| shr := sh'; thr := set (thr s) t ts' |}.
Proof.
  intros [W1 W2 W3] H. apply tstep_ws in H.
  set (ts := get (thr s) t) in *.
  assert (G : forall u, u <> t -> get (set (thr s) t ts') u = get (thr s) u) by (intros; apply get_set_neq; congruence).
  assert (Gt : get (set (thr s) t ts') t = ts') by apply get_set_eq.
  assert (NE : forall u c, slp ts = None -> slp (get (thr s) u) = Some c -> u <> t).
  { intros u c E1 E2 ->. fold ts in E2. congruence. }
  destruct H as [E1 E2 E3 E4 E5|c E1 E2 E3 E4 E5 E6|c E1 E2 E3 E4 E5 E6 E7|c Esp E1 E2 E3 E4 E5 E6|c v E1 E2 E3 E4 E5 E6|c E1 E2 E3 E4 E5];
    constructor; cbn [shr thr].
  - (* same *) intros c u Hu. assert (In u (ws c (shr s))) as Hu' by (destruct c; cbn [ws] in *; congruence).
    destruct (W1 c u Hu') as (A & B). rewrite G by (eapply NE; eauto). rewrite E5. auto.
  - intros c u Hu. destruct (Nat.eq_dec u t) as [->|Hne]; [rewrite Gt in Hu; congruence|].
    rewrite G in Hu by auto. rewrite E5. destruct (W2 c u Hu); [left|right]; auto. destruct c; cbn [ws] in *; congruence.
  - intros u Hu. rewrite E5 in Hu. pose proof (W3 u Hu) as A.
    destruct (Nat.eq_dec u t) as [->|Hne]; [fold ts in A; congruence|]. now rewrite G.
  - (* wait-begin *)
    intros c0 u Hu. rewrite E5. destruct (cv_cases c c0) as [->| ->].
    + rewrite E3 in Hu. apply in_app_or in Hu. destruct Hu as [Hu|[<-|[]]].
      * destruct (W1 c u Hu) as (A & B). rewrite G by (eapply NE; eauto). auto.
      * rewrite Gt. split; auto. intros Hw. apply W3 in Hw. fold ts in Hw. congruence.
    + rewrite E4 in Hu. destruct (W1 _ u Hu) as (A & B). rewrite G by (eapply NE; eauto). auto.
  - intros c0 u Hu. rewrite E5. destruct (Nat.eq_dec u t) as [->|Hne].
    + rewrite Gt in Hu. assert (c0 = c) by congruence. subst c0. left. rewrite E3. apply in_or_app. right. now left.
    + rewrite G in Hu by auto. destruct (W2 c0 u Hu) as [A|A]; [left|right; auto].
      destruct (cv_cases c c0) as [->| ->]; [rewrite E3; apply in_or_app; now left | now rewrite E4].
  - intros u Hu. rewrite E5 in Hu. pose proof (W3 u Hu) as A.
    destruct (Nat.eq_dec u t) as [->|Hne]; [fold ts in A; congruence|]. now rewrite G.
  - (* wait-end, notified *)
    intros c0 u Hu. assert (In u (ws c0 (shr s))) as Hu' by (destruct c0; cbn [ws] in *; congruence).
    destruct (W1 c0 u Hu') as (A & B). assert (u <> t) by congruence. rewrite G by auto. split; auto.
    rewrite E4. rewrite In_rem. tauto.
  - intros c0 u Hu. destruct (Nat.eq_dec u t) as [->|Hne]; [rewrite Gt in Hu; congruence|].
    rewrite G in Hu by auto. destruct (W2 c0 u Hu) as [A|A]; [left|right].
    + destruct c0; cbn [ws] in *; congruence.
    + rewrite E4. apply In_rem. auto.
  - intros u Hu. rewrite E4 in Hu. apply In_rem in Hu. destruct Hu as (Hu & Hne). rewrite G by auto. auto.
  - (* wait-end, spurious *)
    intros c0 u Hu. rewrite E6. destruct (cv_cases c c0) as [->| ->].
    + rewrite E4 in Hu. apply In_rem in Hu. destruct Hu as (Hu & Hne). rewrite G by auto. auto.
    + rewrite E5 in Hu. destruct (W1 _ u Hu) as (A & B).
      assert (u <> t). { intros ->. fold ts in A. rewrite E1 in A. inversion A as [A']. symmetry in A'. now apply other_neq in A'. }
      rewrite G by auto. auto.
  - intros c0 u Hu. rewrite E6. destruct (Nat.eq_dec u t) as [->|Hne]; [rewrite Gt in Hu; congruence|].
    rewrite G in Hu by auto. destruct (W2 c0 u Hu) as [A|A]; [left|right; auto].
    destruct (cv_cases c c0) as [->| ->]; [rewrite E4; apply In_rem; auto | now rewrite E5].
  - intros u Hu. rewrite E6 in Hu. destruct (W1 c t E3) as (A & B).
    assert (u <> t) by congruence. rewrite G by auto. auto.
  - (* notify_one *)
    intros c0 u Hu. rewrite E6. destruct (W1 c v E3) as (Av & Bv). destruct (cv_cases c c0) as [->| ->].
    + rewrite E4 in Hu. apply In_rem in Hu. destruct Hu as (Hu & Hne). destruct (W1 c u Hu) as (A & B).
      rewrite G by (eapply NE; eauto). split; auto. intros [X|X]; congruence.
    + rewrite E5 in Hu. destruct (W1 _ u Hu) as (A & B). rewrite G by (eapply NE; eauto). split; auto.
      intros [X|X]; [|auto]. subst u. rewrite Av in A. inversion A as [A']. symmetry in A'. now apply other_neq in A'.
  - intros c0 u Hu. rewrite E6. destruct (Nat.eq_dec u t) as [->|Hne]; [rewrite Gt in Hu; congruence|].
    rewrite G in Hu by auto. destruct (Nat.eq_dec u v) as [->|Hv]; [right; now left|].
    destruct (W2 c0 u Hu) as [A|A]; [left|right; now right].
    destruct (cv_cases c c0) as [->| ->]; [rewrite E4; apply In_rem; auto | now rewrite E5].
  - intros u Hu. rewrite E6 in Hu. destruct Hu as [<-|Hu].
    + destruct (W1 c v E3) as (A & B). rewrite G by (eapply NE; eauto). congruence.
    + pose proof (W3 u Hu) as A. destruct (Nat.eq_dec u t) as [->|Hne]; [fold ts in A; congruence|]. now rewrite G.
  - (* notify_all *)
    intros c0 u Hu. rewrite E5. destruct (cv_cases c c0) as [->| ->]; [rewrite E3 in Hu; destruct Hu|].
    rewrite E4 in Hu. destruct (W1 _ u Hu) as (A & B). rewrite G by (eapply NE; eauto). split; auto.
    intros X. apply in_app_or in X. destruct X as [X|X]; [|auto].
    destruct (W1 c u X) as (A' & _). rewrite A in A'. inversion A' as [A'']. now apply other_neq in A''.
  - intros c0 u Hu. rewrite E5. destruct (Nat.eq_dec u t) as [->|Hne]; [rewrite Gt in Hu; congruence|].
    rewrite G in Hu by auto. destruct (W2 c0 u Hu) as [A|A].
    + destruct (cv_cases c c0) as [->| ->]; [right; apply in_or_app; now left | left; now rewrite E4].
    + right. apply in_or_app. now right.
  - intros u Hu. rewrite E5 in Hu. apply in_app_or in Hu. destruct Hu as [Hu|Hu].
    + destruct (W1 c u Hu) as (A & B). rewrite G by (eapply NE; eauto). congruence.
    + pose proof (W3 u Hu) as A. destruct (Nat.eq_dec u t) as [->|Hne]; [fold ts in A; congruence|]. now rewrite G.
Qed.

Lemma tstep_spawn_slp cfg fx sp fin t s ts e s' ts' u tsu :
  tstep cfg fx sp fin t s ts e = Some (s', ts', Some (u, tsu)) -> slp tsu = None.
Proof.
  intros H.
  destruct ts as [| |p|tk j|tk j|tk j a r|tk j|a r| |p|a r]; cbn [tstep] in H; try discriminate;
    try (destruct p); try solve [inv_some H]; try (inv_some H; first [reflexivity | apply slp_client_next]).
  all: match type of H with context [api_step ?a ?b ?c ?d ?e ?f] => destruct (api_step a b c d e f) as [[? [?|]]|]; discriminate end.
Qed.

Lemma winv_spawn sh l u v : WInv {| shr := sh; thr := l |} -> get l u = TNone -> slp v = None -> WInv {| shr := sh; thr := set l u v |}.
Proof.
  intros [W1 W2 W3] Hu Hv. cbn [shr thr] in *. constructor; cbn [shr thr].
  - intros c w Hw. destruct (W1 c w Hw) as (A & B). rewrite get_set. destruct (Nat.eqb_spec u w) as [->|]; auto.
    rewrite Hu in A. discriminate.
  - intros c w. rewrite get_set. destruct (Nat.eqb_spec u w) as [->|]; [congruence | apply W2].
  - intros w Hw. pose proof (W3 w Hw) as A. rewrite get_set. destruct (Nat.eqb_spec u w) as [->|]; auto.
    rewrite Hu in A. cbn in A. congruence.
Qed.

Lemma winv_step cfg fx sp s te s' : WInv s -> lstep_gen cfg fx sp s te = Some s' -> WInv s'.
Proof.
  intros HI H. destruct te as [t e]. unfold lstep_gen in H.
  destruct (tstep cfg fx sp (fun u => is_fin (get (thr s) u)) t (shr s) (get (thr s) t) e) as [[[sh' ts'] spw]|] eqn:Ht; [|discriminate].
  pose proof (winv_tstep _ _ _ _ _ _ _ _ _ _ HI Ht) as HI'.
  destruct spw as [[u tsu]|].
  - destruct (is_none (get (thr s) u)) eqn:Hn; [|discriminate]. inversion H; subst; clear H.
    apply winv_spawn; auto.
    + assert (Hu : get (thr s) u = TNone) by (destruct (get (thr s) u); try discriminate; reflexivity).
      rewrite get_set. destruct (Nat.eqb_spec t u) as [->|]; [|exact Hu].
      exfalso. apply (tstep_not_none _ _ _ _ _ _ _ _ _ Ht). exact Hu.
    + eapply tstep_spawn_slp; eauto.
  - inversion H; subst. exact HI'.
Qed.

Lemma can_xnotify_slp ts : can_xnotify ts = true -> slp ts = None.
Proof.
  destruct ts as [| |p| | |? ? a ?| |a ?| |p|a ?]; cbn; try discriminate; try reflexivity;
    try (destruct p; try discriminate; reflexivity); destruct a; try discriminate; reflexivity.
Qed.

(** an extra notification moves sleepers into the woken set; nobody's program counter changes *)
Lemma winv_xstep s te s' : WInv s -> xstep s te = Some s' -> WInv s'.
Proof.
  intros [W1 W2 W3] H. destruct te as [t e].
  destruct (xstep_inv _ _ _ _ H) as (Et & _ & _ & [E|[(c & E1 & E2 & E3)|(c & v & V & E1 & E2 & E3)]]).
  - constructor; rewrite ?Et, ?E; auto.
  - constructor; rewrite Et.
    + intros c0 u Hu. destruct (cv_eq_dec c0 c) as [->|Hne]; [rewrite E1 in Hu; destruct Hu|].
      rewrite (E2 c0 Hne) in Hu. destruct (W1 c0 u Hu) as (A & B). split; auto. rewrite E3. intros X. apply in_app_or in X.
      destruct X as [X|X]; auto. destruct (W1 c u X) as (A' & _). congruence.
    + intros c0 u Hu. rewrite E3. destruct (W2 c0 u Hu) as [A|A]; [|right; apply in_or_app; now right].
      destruct (cv_eq_dec c0 c) as [->|Hne]; [right; apply in_or_app; now left | left; now rewrite (E2 c0 Hne)].
    + intros u Hu. rewrite E3 in Hu. apply in_app_or in Hu. destruct Hu as [Hu|Hu]; auto. destruct (W1 c u Hu) as (A & _). congruence.
  - destruct (W1 c v V) as (Av & Bv). constructor; rewrite Et.
    + intros c0 u Hu. rewrite E3. destruct (cv_eq_dec c0 c) as [->|Hne].
      * rewrite E1 in Hu. apply In_rem in Hu. destruct Hu as (Hu & Hv). destruct (W1 c u Hu) as (A & B). split; auto. intros [X|X]; congruence.
      * rewrite (E2 c0 Hne) in Hu. destruct (W1 c0 u Hu) as (A & B). split; auto. intros [X|X]; auto. subst u. congruence.
    + intros c0 u Hu. rewrite E3. destruct (Nat.eq_dec u v) as [->|Huv]; [right; now left|].
      destruct (W2 c0 u Hu) as [A|A]; [|right; now right]. left.
      destruct (cv_eq_dec c0 c) as [->|Hne]; [rewrite E1; apply In_rem; auto | now rewrite (E2 c0 Hne)].
    + intros u Hu. rewrite E3 in Hu. destruct Hu as [<-|Hu]; auto. congruence.
Qed.

Lemma winv_reachable cfg fx sp s : reachable_gen cfg fx sp s -> WInv s.
Proof. induction 1; [apply winv_init | eapply winv_step; eauto | eapply winv_xstep; eauto]. Qed.

Lemma xstep_ws_sub s te s' : xstep s te = Some s' -> forall c u, In u (ws c (shr s')) -> In u (ws c (shr s)).
Proof.
  intros H c0 u Hu. destruct te as [t e].
  destruct (xstep_inv _ _ _ _ H) as (_ & _ & _ & [E|[(c & E1 & E2 & E3)|(c & v & V & E1 & E2 & E3)]]).
  - now rewrite E in Hu.
  - destruct (cv_eq_dec c0 c) as [->|Hne]; [rewrite E1 in Hu; destruct Hu | now rewrite (E2 c0 Hne) in Hu].
  - destruct (cv_eq_dec c0 c) as [->|Hne]; [rewrite E1 in Hu; apply In_rem in Hu; tauto | now rewrite (E2 c0 Hne) in Hu].
Qed.
