(** C10 -- the computable quiescence test [quiescentb] (used by the driver on the rest states of the real
    code) is sound: if it answers true, no event at all is accepted.  And the witness of the shipped code's
    lost wake-up. *)
From Coq Require Import List Arith Bool Lia.
From TLXV Require Import C10.Pool C10.PoolLemmas.
Import ListNotations.

Lemma in_n1_cands c s w : do_n1 c w s <> None -> In (EN1 c w) (n1_cands c s).
Proof.
  unfold do_n1, n1_cands. destruct w as [u|]; intros H.
  - right. apply (in_map (fun u => EN1 c (Some u))). apply mem_In. destruct (mem u (ws c s)); congruence.
  - now left.
Qed.

Lemma api_cands_complete fx sp t s a e r : api_step fx sp t s a e = Some r -> In e (api_cands s a).
Proof.
  intros H. unfold api_step in H.
  destruct a; cbn [api_cands];
    try (destruct e; try discriminate H; repeat match type of H with context [match ?x with _ => _ end] =>
           lazymatch x with context [match _ with _ => _ end] => fail | _ => destruct x eqn:? end end;
         try discriminate H; beq; subst; cbn; auto; fail).
  - destruct e; try discriminate H; destruct c; try discriminate H.
    + right. apply in_n1_cands. destruct (do_n1 CJ w s); congruence.
    + now left.
  - destruct e; try discriminate H; destruct c; try discriminate H.
    + right. apply in_n1_cands. destruct fx; [discriminate|]. destruct (do_n1 CF w s); congruence.
    + now left.
  - destruct e; try discriminate H; destruct c; try discriminate H; destruct spur; cbn; auto.
  - destruct e; try discriminate H; destruct c; try discriminate H; destruct spur; cbn; auto.
Qed.

Lemma cands_complete cfg fx sp fin t s ts e r : tstep cfg fx sp fin t s ts e = Some r -> In e (cands cfg s ts).
Proof.
  intros H.
  destruct ts as [| |p|tk j|tk j|tk j a rr|tk j|a rr| |p|a rr]; cbn [tstep] in H; try discriminate.
  - destruct p; cbn [cands];
      try (destruct e; try discriminate H; repeat match type of H with context [match ?x with _ => _ end] =>
             lazymatch x with context [match _ with _ => _ end] => fail | _ => destruct x eqn:? end end;
           try discriminate H; beq; subst; cbn; auto; fail).
    all: destruct e; try discriminate H; destruct c; try discriminate H.
    + destruct spur; cbn; auto.
    + right. apply in_n1_cands. destruct fx; [discriminate|]. destruct (do_n1 CF w s); congruence.
    + now left.
  - destruct e; try discriminate H. now left.
  - destruct e; try discriminate H. destruct g; try discriminate H. destruct (Nat.eqb x j) eqn:E; [|discriminate]. beq. subst. now left.
  - cbn [cands]. destruct (api_step fx sp t s a e) as [r'|] eqn:E; [|discriminate]. eapply api_cands_complete; eauto.
  - destruct e; try discriminate H. destruct g; try discriminate H. destruct (Nat.eqb x j) eqn:E; [|discriminate]. beq. subst. now left.
  - cbn [cands]. destruct (api_step fx sp t s a e) as [r'|] eqn:E; [|discriminate]. eapply api_cands_complete; eauto.
  - destruct e; try discriminate H. now left.
  - destruct p; cbn [cands];
      try (destruct e; try discriminate H; repeat match type of H with context [match ?x with _ => _ end] =>
             lazymatch x with context [match _ with _ => _ end] => fail | _ => destruct x eqn:? end end;
           try discriminate H; beq; subst; cbn; auto; fail).
  - cbn [cands]. destruct (api_step fx sp t s a e) as [r'|] eqn:E; [|discriminate]. eapply api_cands_complete; eauto.
Qed.

Definition quiescent cfg fx sp (s : state) : Prop := forall t e, lstep_gen cfg fx sp s (t, e) = None.

Theorem quiescentb_sound cfg fx sp s : quiescentb cfg fx sp s = true -> quiescent cfg fx sp s.
Proof.
  intros Q t e. destruct (lstep_gen cfg fx sp s (t, e)) as [s'|] eqn:H; [exfalso|reflexivity].
  assert (A : accepts cfg fx sp s t e = true) by (unfold accepts; now rewrite H).
  unfold lstep_gen in H.
  destruct (tstep cfg fx sp (fun u => is_fin (get (thr s) u)) t (shr s) (get (thr s) t) e) as [r|] eqn:Ht; [|discriminate].
  pose proof (cands_complete _ _ _ _ _ _ _ _ _ Ht) as Hc.
  assert (Hlt : t < length (thr s)).
  { destruct (Nat.lt_ge_cases t (length (thr s))) as [|Hge]; auto. rewrite (get_beyond _ _ Hge) in Ht. discriminate. }
  unfold quiescentb in Q. rewrite forallb_forall in Q. specialize (Q t). rewrite in_seq in Q.
  assert (E : enabledb cfg fx sp s t = true).
  { unfold enabledb. apply existsb_exists. exists e. split; auto. }
  rewrite E in Q. cbn in Q. assert (false = true) by (apply Q; lia). discriminate.
Qed.

(** * The shipped code (notify_one on cv_finished_) loses a wake-up: concrete witness.
      Pool of 1 worker; job 0 enqueues job 1; client thread 2: enqueue(job 0); loop_until_empty();
      client thread 3: loop_until_empty().  The trace below was produced by the REAL shipped
      tlx/thread_pool.cpp under the deterministic scheduler (corpus/C10/cases.txt, first case). *)
Definition wit_cfg : config :=
  {| nworkers := 1;
     jobprog := fun j => match j with 0 => [JEnq 1] | _ => [] end;
     clients := [[CEnq 0; CLoopEmpty]; [CLoopEmpty]];
     mainops := [] |}.
Definition wit_trace : list (nat * ev) :=
  [(0, ESpawn 1); (0, ESpawn 2); (2, EUser UENQ 0); (2, ELock); (2, EN1 CJ None);
   (2, EUnlock); (2, EUser ULE 0); (0, ESpawn 3); (2, ELock); (3, EUser ULE 0);
   (2, EWB CF); (1, ELock); (1, EAL ATerm 0); (1, EAL ATerm 0); (1, EAR ABusy 0 1);
   (1, EUnlock); (3, ELock); (1, EUser UJS 0); (1, EUser UENQ 1); (3, EAL ABusy 1);
   (3, EWB CF); (1, ELock); (1, EN1 CJ None); (1, EUnlock); (1, EUser UJE 0);
   (1, EAR ADone 0 1); (1, EAR ABusy 1 0); (1, ELock); (1, EN1 CF (Some 2)); (1, EAL ATerm 0);
   (1, EAL ATerm 0); (1, EAR ABusy 0 1); (1, EUnlock); (2, EWE CF false); (2, EAL ABusy 1);
   (1, EUser UJS 1); (1, EUser UJE 1); (2, EWB CF); (1, EAR ADone 1 2); (1, EAR ABusy 1 0);
   (1, ELock); (1, EN1 CF (Some 3)); (1, EAL ATerm 0); (1, EAR AIdle 0 1); (1, EAL ATerm 0);
   (1, EWB CJ); (3, EWE CF false); (3, EAL ABusy 0); (3, EUnlockR 2); (3, EEnd)].

Definition wit_state : state :=
  match run_gen wit_cfg false false (init wit_cfg) wit_trace with Some s => s | None => init wit_cfg end.

(** The shipped model accepts the trace; the state reached is quiescent; thread 2 is blocked in
    loop_until_empty although jobs_.empty() && busy_ == 0 (both jobs have run: done_ = 2).
    The repaired model does not accept the trace (it rejects the notify_one events). *)
Lemma shipped_refuted :
  run_gen wit_cfg false false (init wit_cfg) wit_trace = Some wit_state /\
  quiescent wit_cfg false false wit_state /\
  waits_le (get (thr wit_state) 2) = true /\ le_pred (shr wit_state) = true /\
  In 2 (wsF (shr wit_state)) /\ done (shr wit_state) = 2 /\ term (shr wit_state) = false /\
  run_gen wit_cfg true false (init wit_cfg) wit_trace = None.
Proof.
  split; [vm_compute; reflexivity|].
  split; [apply quiescentb_sound; vm_compute; reflexivity|].
  vm_compute. repeat split; auto.
Qed.
