(** C04 — parallel string sample sort: the sub-step bookkeeping protocol is safe under every schedule.
    Statements only; model in C04/Jobs.v (tied to /repo by the hook-event trace correspondence of checks/C04.py),
    proofs in C04/JobsProofs.v.  What is NOT a theorem here (run-time residue, see DESIGN.md C04): data races and heap
    safety of the object code (ASan / TSan runs of the same harness) and the sorting result itself (checked on every run
    by the harness: sorted, permutation of the string objects, exact LCPs). *)
From Coq Require Import List Arith Sorting.Sorted Sorting.Permutation.
From TLXV Require Import Common.Order C04.Jobs C04.JobsProofs C04.SampleSort C04.PWork C04.Recursion C04.RecursionLcp.
Import ListNotations.

(** For every event sequence the code can produce -- any number of worker threads, any interleaving, any recursion
    tree -- no step is touched, notified or deleted after its release, no counter is decremented below zero, and
    substep_all_done() never starts while the step's own body still holds its handle. *)
Theorem C04_protocol_safe : forall tr, run [] tr <> Error.
Proof. exact protocol_safe. Qed.
Print Assumptions C04_protocol_safe.

(** substep_all_done() and `delete this` happen at most once per step. *)
Theorem C04_alldone_and_delete_at_most_once : forall tr st s,
  run [] tr = Ok st -> count_ev (is_alldone s) tr <= 1 /\ count_ev (is_delete s) tr <= 1.
Proof. exact alldone_and_delete_at_most_once. Qed.
Print Assumptions C04_alldone_and_delete_at_most_once.

(** A step whose substep_all_done() has started has no live sub-step left: the LCP fix-up of a step runs after all
    of its children have completed theirs. *)
Theorem C04_alldone_after_children : forall tr st s c,
  run [] tr = Ok st -> s < length st -> c < length st ->
  late (spc (get st s)) = true -> par (get st c) = Some s -> counting (spc (get st c)) = false.
Proof. exact alldone_after_children. Qed.
Print Assumptions C04_alldone_after_children.

(** Termination of the bookkeeping: whenever no event is enabled any more, every step has been deleted (nothing waits
    forever for a lost notification, nothing leaks). *)
Theorem C04_quiescent_means_all_deleted : forall tr st,
  run [] tr = Ok st -> (forall e, enabled st e = false) -> all_dead st = true.
Proof. exact quiescent_means_all_deleted. Qed.
Print Assumptions C04_quiescent_means_all_deleted.

(** The shipped (704fd0b) distribute_finished() touched the step after releasing its handle: with that behaviour the
    same statement is false (a seven-event trace), and the repaired code does not have this trace at all. *)
Theorem C04_shipped_refuted :
  run_shipped [] [ECreate None; EAdd 0; EDone 0; EAllDone 0; ENotify 0; EDelete 0; ETouch 0] = Error /\
  run [] [ECreate None; EAdd 0; EDone 0; EAllDone 0; ENotify 0; EDelete 0; ETouch 0] = NotEnabled.
Proof. exact (conj shipped_refuted fixed_rejects_late_touch). Qed.
Print Assumptions C04_shipped_refuted.

(** The functional content of one sample-sort step, for ARBITRARY (sorted) splitters -- the real code samples with
    an address-seeded RNG -- any key width and any depth: classifying the strings (NUL-free, sharing their first
    [depth] bytes) by the key at [depth] into the 2k+1 buckets and concatenating correctly sorted buckets gives a
    sorted permutation of the input in unsigned-byte lexicographic order. *)
Theorem C04_sample_sort_step_correct :
  forall (w depth : nat) (splitters : list nat) (common : str) (sorter : nat -> list str -> list str),
  Sorted le splitters ->
  (forall b l, Sorted (sorted_rel lex_ltb) (sorter b l) /\ Permutation l (sorter b l)) ->
  forall l, Forall (in_scope depth common) l ->
    let res := concat (map (fun b => sorter b (filter (fun s => ps5_cls w depth splitters s =? b) l))
                           (seq 0 (2 * length splitters + 1))) in
    Sorted (sorted_rel lex_ltb) res /\ Permutation l res.
Proof. exact ps5_step_correct. Qed.
Print Assumptions C04_sample_sort_step_correct.

(** The bucket index is monotone in the key for every sorted splitter list (ties between equal splitters included). *)
Theorem C04_classify_monotone : forall sp k1 k2, Sorted le sp -> k1 <= k2 -> classify sp k1 <= classify sp k2.
Proof. exact classify_mono. Qed.
Print Assumptions C04_classify_monotone.

(** The phase counter of a big step (`if (--pwork_ == 0) next_phase()` executed by each of k jobs, k >= 1): in every
    order of the decrements the next phase starts exactly once, and only after all k jobs have decremented. *)
Theorem C04_phase_counter_exactly_once : forall k n s, 1 <= k -> prun n (pinit k) = Some s ->
  n <= k /\ started s = (if n =? k then 1 else 0).
Proof. exact pwork_exactly_once_after_all. Qed.
Print Assumptions C04_phase_counter_exactly_once.

(** The WHOLE recursion of the sample sort (PS5BigSortStep::distribute_finished, PS5SmallsortJob::sort_sample_sort and
    sample_sort_free_work), for ARBITRARY sorted splitters at every step, arbitrary thresholds and arbitrary correct
    small sorters.  [Sorts w depth l out] (C04/Recursion.v) describes every execution: either a small sorter returns
    some sorted permutation, or a step classifies by the w-byte key at [depth], leaves the equal bucket of a splitter
    whose key contains the string terminator as it stands, sorts the other equal buckets recursively at depth + w
    and the bucket between two adjacent splitters recursively at depth + d for any d up to the number of equal
    leading bytes of the two splitter keys (0 for the first and the last bucket), and concatenates.  Whatever the
    execution, the result is a sorted permutation of the input (NUL-free strings sharing their first [depth] bytes;
    key width at least one byte). *)
Theorem C04_sample_sort_recursion_correct :
  forall (w depth : nat) (common : str) (l out : list str), 1 <= w ->
  Forall (in_scope depth common) l -> Sorts w depth l out ->
  Sorted (sorted_rel lex_ltb) out /\ Permutation l out.
Proof. exact ps5_recursion_correct. Qed.
Print Assumptions C04_sample_sort_recursion_correct.

(** The LCP variant stores exactly the neighbouring longest-common-prefix lengths, for the WHOLE recursion.
    [SortsL w depth l out lcp] (C04/RecursionLcp.v) is [Sorts] with the LCP array every execution leaves behind:
    a small sorter returns a sorted permutation of its bucket together with the exact neighbouring LCPs (full
    strings, entry 0 unspecified); an equal bucket whose splitter key contains the terminator is left as it stands
    and filled with depth + lcpKeyDepth(splitter) = depth + w - ctz(splitter)/8; and after the recursion
    ps5_sample_sort_lcp() overwrites the first entry of every non-empty bucket that has a non-empty predecessor by
    depth + clz(prevkey xor thiskey)/8, the keys at [depth] of the last string of the preceding non-empty bucket and
    of the first string of this one (the splitter for an equal bucket).  Whatever the splitters, thresholds and
    small sorters: the output is a sorted permutation and lcp[i] = lcp(out[i-1], out[i]) for every i >= 1
    ([neighbour_lcps]: length lcp = length out /\ forall i, 1 <= i < length out ->
     nth i lcp 0 = lcp_str (nth (i-1) out []) (nth i out [])). *)
Theorem C04_sample_sort_recursion_lcp_correct :
  forall (w depth : nat) (common : str) (l out : list str) (lcp : list nat), 1 <= w ->
  Forall (in_scope depth common) l -> SortsL w depth l out lcp ->
  Sorted (sorted_rel lex_ltb) out /\ Permutation l out /\
  (length lcp = length out /\
   forall i, 1 <= i -> i < length out -> nth i lcp 0 = lcp_str (nth (i - 1) out []) (nth i out [])).
Proof. exact ps5_recursion_lcp_correct. Qed.
Print Assumptions C04_sample_sort_recursion_lcp_correct.
