(** C15 — The sorting networks sort every input of up to sixteen elements.
    Only statements, [exact]s and [Print Assumptions]; the tables are regenerated from /repo on every run
    (translate/networks.py), so these theorems are re-checked against what the headers say now. *)
From Coq Require Import List Sorting.Sorted Sorting.Permutation.
From TLXV Require Import Common.Order C15.Network gen.Networks_gen.
From TLXV Require C15.Sweep_best_direct C15.Sweep_best_dispatch C15.Sweep_bn_direct C15.Sweep_bn_dispatch
  C15.Sweep_bnp_direct C15.Sweep_bnp_dispatch C15.Final.
Import ListNotations.

(** Every size 2..16 has a direct entry point and every size 0..16 is reachable through the dispatcher. *)
Theorem C15_tables_cover_all_sizes :
  sizes best_direct = seq 2 15 /\ sizes bn_direct = seq 2 15 /\ sizes bnp_direct = seq 2 15 /\
  sizes best_dispatch = seq 0 17 /\ sizes bn_dispatch = seq 0 17 /\ sizes bnp_dispatch = seq 0 17.
Proof. exact C15.Final.tables_cover_all_sizes. Qed.
Print Assumptions C15_tables_cover_all_sizes.

(** For every family, entry point kind and n, every list of length n over every type with a strict weak
    order is left sorted and a permutation of the input. *)
Theorem C15_networks_sort :
  forall t, In t [best_direct; bn_direct; bnp_direct; best_dispatch; bn_dispatch; bnp_dispatch] ->
  forall n net, In (n, net) t ->
  forall (A : Type) (ltb : A -> A -> bool), SWO ltb ->
  forall l : list A, length l = n ->
    Sorted (sorted_rel ltb) (apply ltb net l) /\ Permutation l (apply ltb net l).
Proof. exact C15.Final.networks_sort. Qed.
Print Assumptions C15_networks_sort.

(** The zero-one principle itself, for any comparator network and any strict weak order. *)
Theorem C15_zero_one_principle :
  forall n net, wf n net = true ->
  (forall bl : list bool, length bl = n -> sortedb bool_ltb (apply bool_ltb net bl) = true) ->
  forall (A : Type) (ltb : A -> A -> bool), SWO ltb ->
  forall l : list A, length l = n ->
    Sorted (sorted_rel ltb) (apply ltb net l) /\ Permutation l (apply ltb net l).
Proof. exact zero_one_principle. Qed.
Print Assumptions C15_zero_one_principle.

(** The sweep is also complete: a network that fails it does not sort (so a failed sweep is a real defect). *)
Theorem C15_sweep_complete : forall n net, sorts_all n net -> sweep01 n net = true.
Proof. exact sweep01_complete. Qed.
Print Assumptions C15_sweep_complete.
