(** C19 — string codecs round-trip and string helpers match their documented semantics.
    Statements only; the models are in C19/{Codec,Split,Helpers}.v (tables regenerated from
    tlx/string/base64.cpp and hexdump.cpp into gen/Tables_C19_gen.v on every run), the proofs in
    C19/{CodecProofs,SplitProofs,SplitLimit,HelpersProofs,LevProofs,Final}.v.
    Byte strings are [list N]; [bytes_ok s] says every element is below 256. *)
From Coq Require Import NArith ZArith List.
From TLXV Require Import C19.Bytes C19.Codec C19.Split C19.Helpers
  C19.CodecProofs C19.SplitProofs C19.SplitLimit C19.HelpersProofs C19.LevProofs C19.Final.
Import ListNotations.
Open Scope N_scope.

(** ** base64 *)
(** decode (encode s lb) = s for every byte string and EVERY line-break width (so in particular for all
    multiples of four, and 0 = no line breaks), for the strict and the non-strict decoder *)
Theorem C19_base64_roundtrip : forall s line_break strict, bytes_ok s ->
  base64_decode (base64_encode s line_break) strict = Some s.
Proof. exact base64_roundtrip. Qed.
Print Assumptions C19_base64_roundtrip.

(** without line breaks the output is the RFC 4648 encoding (bit-level definition: 6-bit groups of the
    concatenated octets, zero-padded, through the alphabet, '=' up to a multiple of 4 characters) *)
Theorem C19_base64_encode_is_rfc4648 : forall s, bytes_ok s -> base64_encode s 0 = rfc4648_base64 s.
Proof. exact base64_encode_is_rfc4648. Qed.
Print Assumptions C19_base64_encode_is_rfc4648.

(** with line breaks: apart from the line feeds the output is the RFC 4648 encoding *)
Theorem C19_base64_linebreaks_is_rfc4648 : forall s line_break, bytes_ok s ->
  strip_lf (base64_encode s line_break) = rfc4648_base64 s.
Proof. exact base64_encode_linebreaks_is_rfc4648. Qed.
Print Assumptions C19_base64_linebreaks_is_rfc4648.

(** ** hexdump *)
Theorem C19_hexdump_roundtrip : forall s, bytes_ok s ->
  parse_hexdump (hexdump s) = Some s /\ parse_hexdump (hexdump_lc s) = Some s.
Proof. exact final_hexdump_roundtrip. Qed.
Print Assumptions C19_hexdump_roundtrip.

Theorem C19_hexdump_is_rfc4648 : forall s, bytes_ok s ->
  hexdump s = rfc4648_base16 rfc_base16_alphabet s /\ hexdump_lc s = rfc4648_base16 lc_base16_alphabet s.
Proof. exact final_hexdump_is_rfc4648. Qed.
Print Assumptions C19_hexdump_is_rfc4648.

(** ** split / join *)
Theorem C19_split_char_join : forall sep parts limit,
  parts <> [] -> (forall p, In p parts -> ~ In sep p) -> N.of_nat (length parts) <= limit ->
  split_char sep (join_char sep parts) limit = parts.
Proof. exact split_char_join. Qed.
Print Assumptions C19_split_char_join.

(** string separator: [cleanb sep parts] = in [join sep parts] no occurrence of [sep] begins inside a part,
    i.e. the separator neither occurs in nor straddles the parts ([no_early_matchb_spec]) *)
Theorem C19_split_str_join : forall sep parts limit,
  sep <> [] -> parts <> [] -> cleanb sep parts = true -> N.of_nat (length parts) <= limit ->
  split_str sep (join sep parts) limit = parts.
Proof. exact split_str_join. Qed.
Print Assumptions C19_split_str_join.

(** the other direction, for EVERY string: the pieces joined by the separator give the string back, and the
    unlimited split yields clean pieces (leftmost, non-overlapping separator occurrences) *)
Theorem C19_join_split : forall sep str limit, 1 <= limit ->
  join_char sep (split_char sep str limit) = str /\
  forall seps, seps <> [] -> join seps (split_str seps str limit) = str /\
                             (N.of_nat (length str) < limit -> cleanb seps (split_str seps str limit) = true).
Proof. exact final_join_split. Qed.
Print Assumptions C19_join_split.

(** split with a limit = unlimited split with the surplus pieces glued back together *)
Theorem C19_split_limit : forall str limit big, 1 <= limit -> N.of_nat (length str) < big ->
  (forall sep, split_char sep str limit = limit_spec (join_char sep) (split_char sep str big) (N.to_nat limit)) /\
  (forall sep, sep <> [] -> split_str sep str limit = limit_spec (join sep) (split_str sep str big) (N.to_nat limit)).
Proof. exact final_split_limit. Qed.
Print Assumptions C19_split_limit.

(** the two degenerate arguments: limit 0 returns nothing; an empty separator cuts between all characters, and the
    limit is honoured exactly as for the other separators (the one-character pieces beyond limit - 1 stay joined) *)
Theorem C19_split_degenerate : forall sepc seps str limit,
  split_char sepc str 0 = [] /\ split_str seps str 0 = [] /\
  (1 <= limit -> split_str [] str limit = limit_spec (join []) (map (fun c => [c]) str) (N.to_nat limit) /\
                 join [] (split_str [] str limit) = str).
Proof. exact final_split_degenerate. Qed.
Print Assumptions C19_split_degenerate.

(** the empty-separator branch as shipped in 704fd0b ignores the limit *)
Theorem C19_split_empty_separator_shipped_refuted :
  split_str_empty_shipped [97; 98; 99; 100; 101; 102] 2 = [[97]; [98]; [99]; [100]; [101]; [102]] /\
  split_str [] [97; 98; 99; 100; 101; 102] 2 = [[97]; [98; 99; 100; 101; 102]].
Proof. exact split_str_empty_shipped_refuted. Qed.
Print Assumptions C19_split_empty_separator_shipped_refuted.

(** the string-separator loop as shipped in 704fd0b: trailing separator dropped, exception on overlapping matches *)
Theorem C19_split_str_shipped_refuted :
  split_str_shipped [44] [97; 44] npos = Some [[97; 44]] /\ split_str [44] [97; 44] npos = [[97]; []] /\
  split_str_shipped [97; 97] [97; 97; 97; 97] npos = None /\ split_str [97; 97] [97; 97; 97; 97] npos = [[]; []; []].
Proof. exact split_str_shipped_refuted. Qed.
Print Assumptions C19_split_str_shipped_refuted.

(** ** join_quoted / split_quoted: for every vector of strings; the quote differs from separator and escape
    (separator = escape is fine), quote and escape are not one of the letters n, r, t that name the
    control-character escapes (escape + 'n' cannot mean both; see docs/audit/C19.md) *)
Theorem C19_split_join_quoted : forall v sep quote escape,
  sep <> quote -> quote <> escape ->
  quote <> 110 /\ quote <> 114 /\ quote <> 116 -> escape <> 110 /\ escape <> 114 /\ escape <> 116 ->
  split_quoted (join_quoted v sep quote escape) sep quote escape = Some v.
Proof. exact split_join_quoted. Qed.
Print Assumptions C19_split_join_quoted.

Theorem C19_join_quoted_shipped_refuted :
  split_quoted (join_quoted_shipped [[]; [98]] 32 34 92) 32 34 92 = Some [[98]] /\
  split_quoted (join_quoted_shipped [[34; 97]] 32 34 92) 32 34 92 = None /\
  split_quoted (join_quoted [[]; [98]] 32 34 92) 32 34 92 = Some [[]; [98]] /\
  split_quoted (join_quoted [[34; 97]] 32 34 92) 32 34 92 = Some [[34; 97]].
Proof. exact join_quoted_shipped_refuted. Qed.
Print Assumptions C19_join_quoted_shipped_refuted.

(** ** replace *)
(** replace_all = leftmost non-overlapping replacement: the string is cut at the needle occurrences exactly as
    split does, and the pieces are joined with the replacement text *)
Theorem C19_replace_all_is_join_split : forall s needle instead limit,
  needle <> [] -> N.of_nat (length s) < limit ->
  replace_all s needle instead = join instead (split_str needle s limit).
Proof. exact replace_all_is_join_split. Qed.
Print Assumptions C19_replace_all_is_join_split.

Theorem C19_replace_first_spec : forall s needle instead,
  (exists a b, s = a ++ needle ++ b /\ replace_first s needle instead = a ++ instead ++ b /\
               (forall i, (i < length a)%nat -> prefixb needle (skipn i s) = false)) \/
  (replace_first s needle instead = s /\ forall i, (i <= length s)%nat -> prefixb needle (skipn i s) = false).
Proof. exact replace_first_spec. Qed.
Print Assumptions C19_replace_first_spec.

(** ** levenshtein = minimal cost of an edit script (insert / delete / replace, cost 1 each) *)
Theorem C19_levenshtein_is_edit_distance : forall a b,
  (edits N.eqb a b (levenshtein a b) /\ (forall n, edits N.eqb a b n -> (levenshtein a b <= n)%nat)) /\
  (edits icase_eq a b (levenshtein_icase a b) /\ (forall n, edits icase_eq a b n -> (levenshtein_icase a b <= n)%nat)).
Proof. exact final_levenshtein_is_edit_distance. Qed.
Print Assumptions C19_levenshtein_is_edit_distance.

(** ** case conversion and case-insensitive comparison *)
Theorem C19_case_conversion : forall s, bytes_ok s ->
  to_lower s = map lower_spec s /\ to_upper s = map upper_spec s.
Proof. exact final_case_conversion. Qed.
Print Assumptions C19_case_conversion.

(** compare_icase = sign of strcmp (unsigned bytes, a proper prefix first) on the lower-cased strings *)
Theorem C19_compare_icase_is_strcmp : forall a b, compare_icase a b = strcmp_sign (to_lower a) (to_lower b).
Proof. exact compare_icase_is_strcmp. Qed.
Print Assumptions C19_compare_icase_is_strcmp.

Theorem C19_compare_icase_shipped_refuted :
  compare_icase_shipped [97] [97; 98] = 1%Z /\ strcmp_sign (to_lower [97]) (to_lower [97; 98]) = (-1)%Z /\
  compare_icase_shipped [128] [97] = (-1)%Z /\ strcmp_sign (to_lower [128]) (to_lower [97]) = 1%Z.
Proof. exact compare_icase_shipped_refuted. Qed.
Print Assumptions C19_compare_icase_shipped_refuted.

(** equal_icase = equality, less_icase = strict "less" of the same comparison (all on the lower-cased strings) *)
Theorem C19_equal_less_icase : forall a b,
  (equal_icase a b = true <-> to_lower a = to_lower b) /\
  less_icase a b = (strcmp_sign (to_lower a) (to_lower b) =? -1)%Z /\
  less_icase a b = (compare_icase a b =? -1)%Z.
Proof. exact final_equal_less_icase. Qed.
Print Assumptions C19_equal_less_icase.

(** ** starts_with / ends_with / contains *)
Theorem C19_starts_ends_contains : forall s m,
  (starts_with s m = true <-> exists t, s = m ++ t) /\
  (ends_with s m = true <-> exists t, s = t ++ m) /\
  (contains s m = true <-> exists a b, s = a ++ m ++ b) /\
  starts_with_icase s m = starts_with (to_lower s) (to_lower m) /\
  ends_with_icase s m = ends_with (to_lower s) (to_lower m).
Proof. exact final_starts_ends_contains. Qed.
Print Assumptions C19_starts_ends_contains.

(** ** trim family: both implementations of trim (in-place: right then left; copying: left then right) and
    trim_left / trim_right equal "drop the characters of [drop] from the respective end(s)" *)
Theorem C19_trim_family : forall s drop,
  trim_inplace s drop = trim_spec s drop /\ trim_copy s drop = trim_spec s drop /\
  trim_left s drop = trim_left_spec s drop /\ trim_right s drop = trim_right_spec s drop.
Proof. exact final_trim_family. Qed.
Print Assumptions C19_trim_family.

(** ** erase_all (the in-place run-erasing loop = the copying filter = exactly the characters not in [drop]) and pad *)
Theorem C19_erase_all_and_pad : forall s drop,
  erase_all_inplace s drop = erase_all s drop /\
  (forall c, In c (erase_all s drop) <-> In c s /\ ~ In c drop) /\
  (forall len c, pad s len c = firstn len s ++ repeat c (len - length s) /\ length (pad s len c) = len).
Proof. exact final_erase_all_and_pad. Qed.
Print Assumptions C19_erase_all_and_pad.
