(** C07 — parallel multiway merge equals the sequential (stable) merge for every thread count.
    Statements only; proofs live in C07/PMWMProofs.v (generic chain-of-stable-splits theorem),
    C07/PMWMExact.v, C07/PMWMSampling.v, C07/PMWMTop.v, C07/PMWMExamples.v.

    [partition] (multisequence_partition, C08) and [seqmerge] (the sequential multiway_merge_base, C05) are
    universally quantified; what is assumed of them is visible in each statement:
    [partition_spec]  = at every rank 0..size the result is a stable split (ties by sequence number) of that sum;
    [seqmerge_stable_spec] = the stable sequential merge (without sentinels, as called on the parallel path) of sorted
      sequences returns firstn n of the stable merge ([seqmerge_stable_spec_at sentinels] for the fall-back).
    [parallel_result seqs size p r] says: r = Some (threads, cursors, size) with
      contiguous threads 0 size          (windows are disjoint, ordered, cover [0,size), each thread delivers what it announces)
      output = firstn size (smerge seqs)  (values equal the sequential stable merge)
      cursors within the sequences, sum = size, output = smerge of exactly the prefixes passed (cursors exact)
      number of threads = min p total. *)
From Coq Require Import List Bool Arith ZArith Sorting.Sorted Sorting.Permutation.
From TLXV Require Import Common.Order C07.SMerge C07.PMWM C07.PMWMProofs C07.PMWMExact C07.PMWMSampling C07.SortedPerm
  C07.PMWMTop C07.PMWMExamples C07.Instances.
Import ListNotations.

(** A stable split of sum r cuts the stable merge exactly at r (why disjoint chunks merge independently). *)
Theorem C07_stable_split_cuts_merge : forall (A : Type) (ltb : A -> A -> bool) (seqs : list (list A)) (b : list nat),
  length b = length seqs -> all_le b (lens seqs) = true -> stable_split ltb seqs b ->
  firstn (sum b) (smerge ltb seqs) = smerge ltb (lefts seqs b) /\
  skipn (sum b) (smerge ltb seqs) = smerge ltb (rights seqs b).
Proof. exact @stable_split_prefix. Qed.
Print Assumptions C07_stable_split_cuts_merge.

(** chunks_partition, exact splitting: for every size <= total and every thread count nt >= 1 (also
    nt > size) the nt+1 boundaries start at the sequence begins, are ordered per sequence (chunks disjoint,
    non-negative, adjacent), each is a stable split, and the last one has sum exactly [size]. *)
Theorem C07_chunks_partition_exact : forall (A : Type) (ltb : A -> A -> bool)
    (partition : list (list A) -> Z -> list nat) (seqs : list (list A)) (size nt : nat),
  partition_spec ltb partition seqs size -> size <= total seqs -> 1 <= nt ->
  exists rest, exact_bounds partition seqs size nt = zeros seqs :: rest /\
               chain ltb seqs (zeros seqs) rest /\ good ltb seqs (last rest (zeros seqs)) /\
               sum (last rest (zeros seqs)) = size /\ length rest = nt.
Proof. exact @exact_bounds_chain. Qed.
Print Assumptions C07_chunks_partition_exact.

(** chunks_partition, sampling splitting with size = total, any oversampling factor >= 1. *)
Theorem C07_chunks_partition_sampling : forall (A : Type) (ltb : A -> A -> bool), SWO ltb ->
  forall (d : A) (seqs : list (list A)) (size nt os : nat),
  Forall (fun l => Sorted (sorted_rel ltb) l) seqs -> Forall (fun l => l <> []) seqs -> seqs <> [] ->
  size = total seqs -> 1 <= nt -> 1 <= os ->
  exists rest, sampling_bounds ltb d seqs size nt os = zeros seqs :: rest /\
               chain ltb seqs (zeros seqs) rest /\ good ltb seqs (last rest (zeros seqs)) /\
               sum (last rest (zeros seqs)) = size /\ length rest = nt.
Proof. exact @sampling_bounds_chain. Qed.
Print Assumptions C07_chunks_partition_sampling.

(** windows_disjoint_cover + values_equal_sequential + cursors_exact, stable variants, exact splitting:
    all tuples of sorted sequences (empty ones allowed), all size <= total, all p >= 1. *)
Theorem C07_parallel_exact_stable : forall (A : Type) (ltb : A -> A -> bool), SWO ltb ->
  forall (partition : list (list A) -> Z -> list nat)
    (seqmerge : bool -> option (list A) -> list (list A) -> nat -> list A * list nat)
    (seqs : list (list A)) (size p os : nat),
  Forall (fun l => Sorted (sorted_rel ltb) l) seqs -> size <= total seqs -> 1 <= p ->
  seqmerge_stable_spec ltb seqmerge ->
  partition_spec ltb partition (filter (@nonempty A) seqs) size ->
  parallel_result ltb seqs size p (pmwm_base ltb partition seqmerge true false seqs size p os).
Proof. exact @pmwm_base_exact_stable. Qed.
Print Assumptions C07_parallel_exact_stable.

(** the same for MWMSA_SAMPLING, every size <= total: the sampling splitter runs when size = total, and a
    proper prefix is served by the exact splitter (the repaired selection in parallel_multiway_merge_base;
    the shipped selection is refuted in C07_sampling_size_lt_total_refuted). *)
Theorem C07_parallel_sampling_stable : forall (A : Type) (ltb : A -> A -> bool), SWO ltb ->
  forall (partition : list (list A) -> Z -> list nat)
    (seqmerge : bool -> option (list A) -> list (list A) -> nat -> list A * list nat)
    (seqs : list (list A)) (size p os : nat),
  Forall (fun l => Sorted (sorted_rel ltb) l) seqs -> size <= total seqs -> 1 <= p -> 1 <= os ->
  seqmerge_stable_spec ltb seqmerge ->
  partition_spec ltb partition (filter (@nonempty A) seqs) size ->
  parallel_result ltb seqs size p (pmwm_base ltb partition seqmerge true true seqs size p os).
Proof. exact @pmwm_base_sampling_stable. Qed.
Print Assumptions C07_parallel_sampling_stable.

(** the dispatch: under MWMSA_SAMPLING a proper prefix runs exactly the MWMSA_EXACT code (both variants) *)
Theorem C07_sampling_prefix_is_exact : forall (A : Type) (ltb : A -> A -> bool)
    (partition : list (list A) -> Z -> list nat)
    (seqmerge : bool -> option (list A) -> list (list A) -> nat -> list A * list nat)
    stable (seqs : list (list A)) (size p os : nat),
  size <> total seqs ->
  pmwm_base ltb partition seqmerge stable true seqs size p os =
  pmwm_base ltb partition seqmerge stable false seqs size p os.
Proof. exact @pmwm_base_sampling_prefix. Qed.
Print Assumptions C07_sampling_prefix_is_exact.

(** both splitters (MWMSA_SAMPLING with the dispatch) deliver what the theorems above and below need *)
Theorem C07_bounds_ok : forall (A : Type) (ltb : A -> A -> bool), SWO ltb ->
  forall (partition : list (list A) -> Z -> list nat) sampling (seqs : list (list A)) (size p os : nat),
  Forall (fun l => Sorted (sorted_rel ltb) l) seqs -> size <= total seqs -> 1 <= p -> (sampling = true -> 1 <= os) ->
  partition_spec ltb partition (filter (@nonempty A) seqs) size ->
  bounds_ok ltb partition sampling seqs size p os.
Proof. exact @bounds_ok_all. Qed.
Print Assumptions C07_bounds_ok.

(** Unstable variants.  The property fixes, for an unstable merge, the sequence of element VALUES up to the
    comparator's equivalence (which of several equivalent elements is written first is left open).
    [parallel_result_unstable_full seqs size p r]: r = Some (threads, cursors, size) with
      contiguous threads 0 size (windows disjoint, cover [0,size); hence one writer per position),
      Forall2 eqv output (firstn size (smerge seqs))   -- position by position the values of the sequential merge,
      output sorted, a permutation of firstn size (smerge seqs) and of exactly the prefixes the cursors passed,
      cursors within the sequences with sum = size, thread count = min p total.
    For both splitting requests ([bounds_ok], established for every size <= total by C07_bounds_ok); the unstable
    sequential merge (C05) enters as: a full merge of sorted sequences is a sorted permutation of them. *)
Theorem C07_parallel_unstable : forall (A : Type) (ltb : A -> A -> bool), SWO ltb ->
  forall (partition : list (list A) -> Z -> list nat)
    (seqmerge : bool -> option (list A) -> list (list A) -> nat -> list A * list nat)
    sampling (seqs : list (list A)) (size p os : nat),
  Forall (fun l => Sorted (sorted_rel ltb) l) seqs -> size <= total seqs -> 1 <= p ->
  seqmerge_unstable_sorted_spec ltb seqmerge ->
  bounds_ok ltb partition sampling seqs size p os ->
  parallel_result_unstable_full ltb seqs size p (pmwm_base ltb partition seqmerge false sampling seqs size p os).
Proof. exact @pmwm_base_unstable. Qed.
Print Assumptions C07_parallel_unstable.

(** the lemma behind it: a sorted list is determined up to equivalence by its multiset *)
Theorem C07_sorted_permutations_equivalent : forall (A : Type) (ltb : A -> A -> bool), SWO ltb ->
  forall l1 l2 : list A, Sorted (sorted_rel ltb) l1 -> Sorted (sorted_rel ltb) l2 -> Permutation l1 l2 ->
  Forall2 (fun x y => eqv ltb x y = true) l1 l2.
Proof. exact @sorted_perm_eqv. Qed.
Print Assumptions C07_sorted_permutations_equivalent.

(** one_writer_per_position: contiguous windows give every position of [from,to) exactly one writer. *)
Theorem C07_one_writer_per_position : forall (A : Type) (ts : list (@thread_res A)) (from to pos : nat),
  contiguous ts from to -> from <= pos < to -> length (writers ts pos) = 1.
Proof. exact @one_writer. Qed.
Print Assumptions C07_one_writer_per_position.

(** the switches: on the parallel side the front ends are the base routine ... *)
Theorem C07_front_end_parallel : forall (A : Type) (ltb : A -> A -> bool)
    (partition : list (list A) -> Z -> list nat)
    (seqmerge : bool -> option (list A) -> list (list A) -> nat -> list A * list nat)
    sw stable sentinels sampling (seqs : list (list A)) size p os,
  goes_parallel sw (length seqs) size p = true ->
  pmwm ltb partition seqmerge sw stable sentinels sampling seqs size p os =
  pmwm_base ltb partition seqmerge stable sampling seqs size p os.
Proof. exact @pmwm_parallel. Qed.
Print Assumptions C07_front_end_parallel.

(** ... and on the other side ONE call of the sequential merge with the entry point's Sentinels flag ([None] /
    [Some sents], sents = the elements the caller stored behind the sequences), written by one thread. *)
Theorem C07_front_end_fallback_stable : forall (A : Type) (ltb : A -> A -> bool)
    (partition : list (list A) -> Z -> list nat)
    (seqmerge : bool -> option (list A) -> list (list A) -> nat -> list A * list nat)
    sw sentinels sampling (seqs : list (list A)) size p os,
  seqs <> [] -> goes_parallel sw (length seqs) size p = false -> size <= total seqs ->
  fst (seqmerge true sentinels seqs size) = firstn size (smerge ltb seqs) ->
  exists ts cur, pmwm ltb partition seqmerge sw true sentinels sampling seqs size p os =
                 Some {| p_threads := ts; p_cursors := cur; p_ret := size |} /\
                 contiguous ts 0 size /\ output ts = firstn size (smerge ltb seqs) /\ length ts = 1.
Proof. exact @pmwm_fallback_stable. Qed.
Print Assumptions C07_front_end_fallback_stable.

(** no sequences at all (seqs_begin == seqs_end): every front end returns the target, nothing is written *)
Theorem C07_no_sequences : forall (A : Type) (ltb : A -> A -> bool)
    (partition : list (list A) -> Z -> list nat)
    (seqmerge : bool -> option (list A) -> list (list A) -> nat -> list A * list nat)
    sw stable sentinels sampling size p os,
  pmwm ltb partition seqmerge sw stable sentinels sampling [] size p os =
  Some {| p_threads := []; p_cursors := []; p_ret := 0 |}.
Proof. exact @pmwm_no_sequences. Qed.
Print Assumptions C07_no_sequences.

(** the hypotheses are satisfiable: the reference merge meets [seqmerge_stable_spec] for every comparator,
    and a worked instance with ties across the sequences discharges everything. *)
Theorem C07_seqmerge_spec_satisfiable : forall (A : Type) (ltb : A -> A -> bool),
  seqmerge_stable_spec ltb (seqmerge_ref ltb).
Proof. exact @seqmerge_ref_spec. Qed.
Print Assumptions C07_seqmerge_spec_satisfiable.

Theorem C07_instance : forall p, 1 <= p ->
  parallel_result Nat.ltb [[1; 1]; [1; 2]] 3 p
    (pmwm_base Nat.ltb (partition_ref Nat.ltb) (seqmerge_ref Nat.ltb) true false [[1; 1]; [1; 2]] 3 p 10).
Proof. exact ex_exact_instance. Qed.
Print Assumptions C07_instance.

(** * CLOSED versions: [partition] := the proved C08 model of (repaired) multisequence_partition ([part08], adapter
    over C08.MSP.partition), [seqmerge] := the proved C05 model of multiway_merge_base with its k / algorithm
    switch ([seq05 alg], adapter over C05.Model.mwm_base with the reference tournament trees).  No hypothesis
    about partition or the sequential merge is left: for every strict weak order, every tuple of sorted
    sequences (empty ones allowed), every size <= total, every p >= 1, every merge algorithm [alg]. *)
Theorem C07_closed_parallel_exact_stable : forall (A : Type) (ltb : A -> A -> bool), SWO ltb ->
  forall alg (seqs : list (list A)) (size p os : nat),
  Forall (fun l => Sorted (sorted_rel ltb) l) seqs -> size <= total seqs -> 1 <= p ->
  parallel_result ltb seqs size p (pmwm_base ltb (part08 ltb) (seq05 ltb alg) true false seqs size p os).
Proof. exact @closed_parallel_exact_stable. Qed.
Print Assumptions C07_closed_parallel_exact_stable.

Theorem C07_closed_parallel_sampling_stable : forall (A : Type) (ltb : A -> A -> bool), SWO ltb ->
  forall alg (seqs : list (list A)) (size p os : nat),
  Forall (fun l => Sorted (sorted_rel ltb) l) seqs -> size <= total seqs -> 1 <= p -> 1 <= os ->
  parallel_result ltb seqs size p (pmwm_base ltb (part08 ltb) (seq05 ltb alg) true true seqs size p os).
Proof. exact @closed_parallel_sampling_stable. Qed.
Print Assumptions C07_closed_parallel_sampling_stable.

(** unstable variants, closed: the complete statement, and the output is position by position equivalent to
    what the sequential unstable merge ([seq05 alg false None]) writes for the same inputs and size *)
Theorem C07_closed_parallel_unstable : forall (A : Type) (ltb : A -> A -> bool), SWO ltb ->
  forall alg sampling (seqs : list (list A)) (size p os : nat),
  Forall (fun l => Sorted (sorted_rel ltb) l) seqs -> size <= total seqs -> 1 <= p -> (sampling = true -> 1 <= os) ->
  parallel_result_unstable_full ltb seqs size p (pmwm_base ltb (part08 ltb) (seq05 ltb alg) false sampling seqs size p os) /\
  forall r, pmwm_base ltb (part08 ltb) (seq05 ltb alg) false sampling seqs size p os = Some r ->
    Forall2 (fun x y => eqv ltb x y = true) (output (p_threads r)) (fst (seq05 ltb alg false None seqs size)).
Proof. exact @closed_parallel_unstable. Qed.
Print Assumptions C07_closed_parallel_unstable.

(** every sequential variant writes, position by position, values equivalent to the stable merge prefix *)
Theorem C07_closed_sequential_values : forall (A : Type) (ltb : A -> A -> bool), SWO ltb ->
  forall alg stable (cs : list (list A)) (n : nat),
  Forall (fun l => Sorted (sorted_rel ltb) l) cs -> n <= total cs ->
  Forall2 (fun x y => eqv ltb x y = true) (fst (seq05 ltb alg stable None cs n)) (firstn n (smerge ltb cs)).
Proof. exact @seq05_eqv_prefix. Qed.
Print Assumptions C07_closed_sequential_values.

(** the stable fall-back, closed, for all four entry points: [sentinels = None], or [Some sents] with the
    documented obligation of the *_sentinels entry points (C05's [sent_ok]: one sentinel per sequence, greater
    than every real element) *)
Theorem C07_closed_fallback_stable : forall (A : Type) (ltb : A -> A -> bool), SWO ltb ->
  forall alg sw sentinels sampling (seqs : list (list A)) size p os,
  seqs <> [] -> goes_parallel sw (length seqs) size p = false ->
  Forall (fun l => Sorted (sorted_rel ltb) l) seqs -> size <= total seqs ->
  (forall sents, sentinels = Some sents -> TLXV.C05.BaseProofs.sent_ok ltb seqs sents) ->
  exists ts cur, pmwm ltb (part08 ltb) (seq05 ltb alg) sw true sentinels sampling seqs size p os =
                 Some {| p_threads := ts; p_cursors := cur; p_ret := size |} /\
                 contiguous ts 0 size /\ output ts = firstn size (smerge ltb seqs) /\ length ts = 1.
Proof. exact @closed_fallback_stable. Qed.
Print Assumptions C07_closed_fallback_stable.

(** the two notions of "the stable merge" coincide: C05's step-by-step merge = C07's fold of two-way merges *)
Theorem C07_gmerge_is_smerge : forall (A : Type) (ltb : A -> A -> bool) (st : list (list A)),
  TLXV.C05.StableMerge.gmerge ltb st = smerge ltb st.
Proof. exact @gmerge_smerge. Qed.
Print Assumptions C07_gmerge_is_smerge.

(** the shipped code (tlx 704fd0b): witnesses of the three repaired defects *)
Theorem C07_equally_split_shipped_refuted :
  equally_split_shipped 0 3 = [0; -1; -1; 0]%Z /\ equally_split 0 3 = [0; 0; 0; 0]%Z.
Proof. exact equally_split_shipped_refuted. Qed.
Print Assumptions C07_equally_split_shipped_refuted.

Theorem C07_exact_last_shipped_refuted :
  exists (seqs : list (list nat)) size,
    size < total seqs /\ exact_last_shipped (partition_ref Nat.ltb) seqs size 1 = None.
Proof. exact exact_last_shipped_refuted. Qed.
Print Assumptions C07_exact_last_shipped_refuted.

Theorem C07_sampling_size_lt_total_refuted :
  (exists r, pmwm_base_shipped Nat.ltb (partition_ref Nat.ltb) (seqmerge_ref Nat.ltb) true true [s10; s10; s10] 10 3 10 = Some r /\
             p_cursors r = [10; 10; 10] /\ p_ret r = 10) /\
  pmwm_base_shipped Nat.ltb (partition_ref Nat.ltb) (seqmerge_ref Nat.ltb) true true [[2; 5]; [3]; [2]] 2 5 10 = None /\
  (exists r, pmwm_base Nat.ltb (partition_ref Nat.ltb) (seqmerge_ref Nat.ltb) true true [s10; s10; s10] 10 3 10 = Some r /\
             p_cursors r = [4; 3; 3] /\ p_ret r = 10).
Proof. exact sampling_size_lt_total_refuted. Qed.
Print Assumptions C07_sampling_size_lt_total_refuted.
