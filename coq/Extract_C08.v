From Coq Require Import ZArith List.
From TLXV Require Import C08.MSP.
Require Extraction. Require ExtrOcamlBasic.
Extraction Language OCaml.
Extraction "../ocaml/gen/C08_model.ml" MSP.partition MSP.partition_shipped MSP.selection MSP.split_spec
  MSP.select_spec MSP.check_split MSP.check_select MSP.kmerge MSP.rup2 Z.add Z.sub Z.ltb Z.div Z.of_nat Z.to_nat Z.eqb.
