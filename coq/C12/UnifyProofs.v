(** C12 — what unify() does, beyond keeping the invariant: a unique handle is left alone; a shared one is
    re-pointed to a fresh clone (same payload) of which it is the only owner; no other variable changes. *)
From Coq Require Import List Arith Lia Bool.
From TLXV Require Import C12.CPtr C12.CPtrProofs.
Import ListNotations.

Section KindsUnify.
Variable nodel : var -> bool.
Local Notation assign_fresh := (CPtr.assign_fresh nodel).
Local Notation unify := (CPtr.unify nodel).
Local Notation run := (CPtr.run nodel).
Local Notation move_assign := (CPtr.move_assign nodel).

Lemma nth_app_front {A} (l : list A) a v d : v < length l -> nth v (l ++ [a]) d = nth v l d.
Proof. intros H. now rewrite app_nth1. Qed.

Lemma vars_assign_fresh s v x :
  Inv s -> live s v = true ->
  vars (assign_fresh s v x) = upd (vars s) v (Live (Some (length (cells s)))).
Proof.
  intros HI Hv. pose proof (live_range _ _ Hv) as Hvr.
  unfold assign_fresh, alloc. cbv beta iota.
  set (n := length (cells s)). set (t := length (vars s)).
  set (s1 := {| cells := _; vars := vars s; bad := bad s |}).
  set (s2 := ctor_raw (push_temp s1) t (Some n)).
  assert (vars s2 = vars s ++ [Live (Some n)]) as Hv2.
  { unfold s2, ctor_raw. rewrite vars_inc. simpl. apply upd_app_last. }
  assert (ptr_of s2 v = ptr_of s v) as Hpv.
  { unfold ptr_of, getv. rewrite Hv2. now rewrite nth_app_front. }
  assert (ptr_of s2 t = Some n) as Hpt.
  { unfold ptr_of, getv. rewrite Hv2. rewrite app_nth2 by (unfold t; lia). unfold t. now rewrite Nat.sub_diag. }
  assert (optnat_eqb (ptr_of s v) (Some n) = false) as Hne.
  { destruct (ptr_of s v) as [o|] eqn:Hp; simpl; auto. apply Nat.eqb_neq.
    pose proof (live_getv _ _ Hv) as Hg. rewrite Hp in Hg.
    pose proof (G_live_pos _ _ _ _ _ HI Hg) as Hpos. destruct HI as [_ H]. specialize (H o).
    destruct (nth_error (cells s) o) eqn:Hc; [|lia].
    assert (o < length (cells s)) by (apply nth_error_Some; congruence). unfold n. lia. }
  change (vars (pop_temp (dtor_k (nodel v) (move_assign s2 v t) t)) = upd (vars s) v (Live (Some n))).
  unfold move_assign. rewrite Hpv, Hpt, Hne.
  unfold pop_temp. cbn [vars]. rewrite vars_dtor_k, vars_dec. cbn [setv vars]. rewrite Hv2.
  rewrite upd_app_front by auto.
  replace t with (length (upd (vars s) v (Live (Some n)))) by (rewrite length_upd; reflexivity).
  rewrite !upd_app_last. apply removelast_last.
Qed.

Ltac mono_steps :=
  repeat first [ apply mono_setv | apply mono_inc | apply mono_dec | apply mono_push | apply mono_pop
               | apply mono_flag | apply mono_alloc ];
  try apply mono_refl; auto.

Lemma mono_assign_fresh_from_alloc s v x : mono (fst (alloc s x)) (assign_fresh s v x).
Proof.
  unfold assign_fresh. change (alloc s x) with (fst (alloc s x), length (cells s)). cbv iota beta.
  unfold dtor_k, ctor_raw. mono_steps. apply mono_move_assign. mono_steps.
Qed.

Theorem unify_spec n ops v o c :
  let s := run (init n) ops in
  getv s v = Live (Some o) -> nth_error (cells s) o = Some c ->
  (rc c = 1 -> vars (unify s v) = vars s /\ cells (unify s v) = cells s) /\
  (rc c <> 1 ->
     vars (unify s v) = upd (vars s) v (Live (Some (length (cells s)))) /\
     exists c', nth_error (cells (unify s v)) (length (cells s)) = Some c' /\
                rc c' = 1 /\ dcount c' = 0 /\ val c' = val c).
Proof.
  intros s Hg Hc. pose proof (run_inv nodel _ ops (init_inv n)) as HI. fold s in HI.
  assert (live s v = true) as Hl by (unfold live; now rewrite Hg).
  assert (ptr_of s v = Some o) as Hp by (unfold ptr_of; now rewrite Hg).
  pose proof (live_range _ _ Hl) as Hvr.
  assert (o < length (cells s)) as Holt by (apply nth_error_Some; congruence).
  split.
  - intros H1. unfold unify. rewrite Hp, Hc, H1. simpl. auto.
  - intros Hn1. pose proof (unify_inv nodel s v HI Hl) as HU.
    assert (unify s v = assign_fresh (flag s (0 <? dcount c)) v (val c)) as Hu.
    { unfold unify. rewrite Hp, Hc. apply Nat.eqb_neq in Hn1. now rewrite Hn1. }
    set (s0 := flag s (0 <? dcount c)) in *.
    assert (Inv s0) as HI0.
    { pose proof (G_live_pos _ _ _ _ _ HI Hg) as Hpos. destruct HI as [Hb H]. pose proof (H o) as Ho. rewrite Hc in Ho.
      destruct Ho as [_ Hd]. simpl in Hd. destruct (Nat.eqb_spec (cnt (vars s) o + 0) 0); [lia|].
      unfold s0. assert (dcount c = 0) as -> by lia. apply G_flag_false. split; auto. }
    assert (live s0 v = true) as Hl0 by exact Hl.
    pose proof (vars_assign_fresh s0 v (val c) HI0 Hl0) as Hvars. rewrite <- Hu in Hvars.
    change (vars s0) with (vars s) in Hvars. change (cells s0) with (cells s) in Hvars.
    split; [exact Hvars|].
    set (k := length (cells s)) in *.
    (* the clone's cell *)
    pose proof (mono_assign_fresh_from_alloc s0 v (val c)) as Hm. rewrite <- Hu in Hm.
    specialize (Hm k {| rc := 0; dcount := 0; orph := 0; val := val c |}).
    destruct Hm as (c' & Hc' & _ & Hval).
    { simpl. rewrite nth_error_app2 by (unfold k; lia). unfold k. now rewrite Nat.sub_diag. }
    exists c'. split; auto.
    destruct HU as [_ HU]. specialize (HU k). rewrite Hc' in HU. destruct HU as [Hrc Hd]. simpl in Hd.
    assert (cnt (vars (unify s v)) k = 1) as Hk.
    { rewrite Hvars. pose proof (cnt_upd (vars s) v (Live (Some k)) k Hvr) as Hcu.
      unfold getv in Hg. rewrite Hg in Hcu. simpl in Hcu. rewrite Nat.eqb_refl in Hcu.
      destruct (Nat.eqb_spec o k); [unfold k in *; lia|].
      destruct HI as [_ H]. specialize (H k).
      replace (nth_error (cells s) k) with (@None cell) in H by (symmetry; apply nth_error_None; unfold k; lia).
      destruct H as [Hz _]. lia. }
    rewrite Hk in *. simpl in *. repeat split; auto; lia.
Qed.

End KindsUnify.
