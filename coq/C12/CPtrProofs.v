(** C12 — proofs about the sequential CountingPtr model (CPtr.v).

    Main invariant [Inv]: the ledger flag is clear, and for every object
      reference_count_ = number of live handle variables whose ptr_ is the object,
      Deleter calls    = 1 if that number is zero, 0 otherwise
    (an object id that does not exist yet has no handle).  [GInv s e f] generalises it to the states *inside* an
    operation: [e o] extra owners of [o] that are not stored in a variable at this point (a count already taken
    for a pointer not yet stored, or a pointer already overwritten whose count is not yet given back), and
    [f] the object just returned by [new] that nobody owns yet. *)
From Coq Require Import List Arith Lia Bool.
From TLXV Require Import C12.CPtr.
Import ListNotations.

Definition ptsO (p : option obj) (o : obj) : nat :=
  match p with Some a => if a =? o then 1 else 0 | None => 0 end.
Definition pts (h : hnd) (o : obj) : nat := match h with Live p => ptsO p o | Dead => 0 end.
(** number of handle variables pointing to [o] *)
Fixpoint cnt (l : list hnd) (o : obj) : nat :=
  match l with [] => 0 | h :: t => pts h o + cnt t o end.

Definition isf (f : option obj) (o : obj) : bool :=
  match f with Some a => a =? o | None => false end.

Definition cell_ok (c : cell) (n : nat) (fresh : bool) : Prop :=
  rc c = n /\ dcount c + orph c = (if n =? 0 then (if fresh then 0 else 1) else 0).

Definition GInv (s : state) (e : obj -> nat) (f : option obj) : Prop :=
  bad s = false /\
  forall o, match nth_error (cells s) o with
            | Some c => cell_ok c (cnt (vars s) o + e o) (isf f o)
            | None => cnt (vars s) o + e o = 0 /\ isf f o = false
            end.

Definition Inv (s : state) : Prop := GInv s (fun _ => 0) None.

(** ** lists *)

Lemma length_upd {A} (l : list A) i x : length (upd l i x) = length l.
Proof. revert i; induction l as [|y t IH]; intros [|i]; simpl; auto. Qed.

Lemma nth_error_upd_eq {A} (l : list A) i x : i < length l -> nth_error (upd l i x) i = Some x.
Proof. revert i; induction l as [|y t IH]; intros [|i] H; simpl in *; try lia; auto. apply IH; lia. Qed.

Lemma nth_error_upd_ne {A} (l : list A) i j x : i <> j -> nth_error (upd l i x) j = nth_error l j.
Proof.
  revert i j; induction l as [|y t IH]; intros [|i] [|j] H; simpl; auto; try congruence.
Qed.

Lemma nth_upd_eq {A} (l : list A) i x d : i < length l -> nth i (upd l i x) d = x.
Proof. revert i; induction l as [|y t IH]; intros [|i] H; simpl in *; try lia; auto. apply IH; lia. Qed.

Lemma nth_upd_ne {A} (l : list A) i j x d : i <> j -> nth j (upd l i x) d = nth j l d.
Proof.
  revert i j; induction l as [|y t IH]; intros [|i] [|j] H; simpl; auto; try congruence.
Qed.

Lemma cnt_app l1 l2 o : cnt (l1 ++ l2) o = cnt l1 o + cnt l2 o.
Proof. induction l1 as [|h t IH]; simpl; auto. rewrite IH; lia. Qed.

Lemma cnt_upd l v h o : v < length l -> cnt (upd l v h) o + pts (nth v l Dead) o = cnt l o + pts h o.
Proof.
  revert v; induction l as [|y t IH]; intros [|v] H; simpl in *; try lia.
  specialize (IH v ltac:(lia)). lia.
Qed.

Lemma cnt_nth l v o : pts (nth v l Dead) o <= cnt l o.
Proof.
  revert v; induction l as [|y t IH]; intros [|v]; simpl; try lia.
  specialize (IH v). lia.
Qed.

Lemma cnt_repeat_dead n o : cnt (repeat Dead n) o = 0.
Proof. induction n; simpl; auto. Qed.

Lemma cnt_removelast l o : l <> [] -> last l Dead = Dead -> cnt (removelast l) o = cnt l o.
Proof.
  intros Hne Hl. rewrite (app_removelast_last Dead Hne) at 2. rewrite cnt_app, Hl. simpl. lia.
Qed.

Lemma upd_app_last {A} (l : list A) a x : upd (l ++ [a]) (length l) x = l ++ [x].
Proof. induction l as [|y t IH]; simpl; auto. now rewrite IH. Qed.

Lemma upd_app_front {A} (l : list A) a v x : v < length l -> upd (l ++ [a]) v x = upd l v x ++ [a].
Proof.
  revert v; induction l as [|y t IH]; intros [|v] H; simpl in *; try lia; auto. rewrite IH by lia. reflexivity.
Qed.

Lemma last_upd_last l x : l <> [] -> last (upd l (length l - 1) x) Dead = x.
Proof.
  intros H. destruct (exists_last H) as (l' & a & ->).
  rewrite app_length. simpl. replace (length l' + 1 - 1) with (length l') by lia.
  rewrite upd_app_last. apply last_last.
Qed.

Section KindsProofs.
Variable nodel : var -> bool.
Local Notation copy_assign := (CPtr.copy_assign nodel).
Local Notation conv_copy_assign := (CPtr.conv_copy_assign nodel).
Local Notation move_assign := (CPtr.move_assign nodel).
Local Notation conv_move_assign := (CPtr.conv_move_assign nodel).
Local Notation dtor := (CPtr.dtor nodel).
Local Notation reset := (CPtr.reset nodel).
Local Notation assign_fresh := (CPtr.assign_fresh nodel).
Local Notation unify := (CPtr.unify nodel).
Local Notation exec := (CPtr.exec nodel).
Local Notation step := (CPtr.step nodel).
Local Notation run := (CPtr.run nodel).
Local Notation destroy_all := (CPtr.destroy_all nodel).
Local Notation finish := (CPtr.finish nodel).

(** ** bookkeeping: what each primitive leaves untouched *)

Lemma vars_inc s p : vars (inc_reference s p) = vars s.
Proof. destruct p as [o|]; simpl; auto. destruct (nth_error (cells s) o); reflexivity. Qed.
Lemma vars_dec nd s p : vars (dec_reference nd s p) = vars s.
Proof. destruct p as [o|]; simpl; auto. destruct (nth_error (cells s) o); reflexivity. Qed.

Lemma getv_inc s p v : getv (inc_reference s p) v = getv s v.
Proof. unfold getv. now rewrite vars_inc. Qed.
Lemma getv_dec nd s p v : getv (dec_reference nd s p) v = getv s v.
Proof. unfold getv. now rewrite vars_dec. Qed.
Lemma ptr_of_inc s p v : ptr_of (inc_reference s p) v = ptr_of s v.
Proof. unfold ptr_of. now rewrite getv_inc. Qed.
Lemma ptr_of_dec nd s p v : ptr_of (dec_reference nd s p) v = ptr_of s v.
Proof. unfold ptr_of. now rewrite getv_dec. Qed.

Lemma inc_setv_comm s v h p : inc_reference (setv s v h) p = setv (inc_reference s p) v h.
Proof. destruct p as [o|]; simpl; auto. unfold setv; simpl. destruct (nth_error (cells s) o); reflexivity. Qed.
Lemma dec_setv_comm nd s v h p : dec_reference nd (setv s v h) p = setv (dec_reference nd s p) v h.
Proof. destruct p as [o|]; simpl; auto. unfold setv; simpl. destruct (nth_error (cells s) o); reflexivity. Qed.

Lemma getv_setv s v h w : v < length (vars s) -> getv (setv s v h) w = if v =? w then h else getv s w.
Proof.
  intros H. unfold getv, setv; simpl. destruct (Nat.eqb_spec v w) as [->|Hn].
  - now apply nth_upd_eq.
  - now apply nth_upd_ne.
Qed.

Lemma ptr_of_setv_same s v p : v < length (vars s) -> ptr_of (setv s v (Live p)) v = p.
Proof. intros H. unfold ptr_of. rewrite getv_setv by auto. now rewrite Nat.eqb_refl. Qed.

Lemma live_range s v : live s v = true -> v < length (vars s).
Proof.
  unfold live, getv. intros H. destruct (Nat.lt_ge_cases v (length (vars s))) as [|Hge]; auto.
  rewrite nth_overflow in H by lia. discriminate.
Qed.

Lemma live_getv s v : live s v = true -> getv s v = Live (ptr_of s v).
Proof. unfold live, ptr_of. destruct (getv s v); [discriminate|reflexivity]. Qed.

Lemma notlive_getv s v : live s v = false -> getv s v = Dead.
Proof. unfold live. destruct (getv s v); [reflexivity|discriminate]. Qed.

Lemma in_range_lt s v : in_range s v = true -> v < length (vars s).
Proof. unfold in_range. apply Nat.ltb_lt. Qed.

Lemma optnat_eqb_true a b : optnat_eqb a b = true -> a = b.
Proof. destruct a, b; simpl; try discriminate; auto. intros H; apply Nat.eqb_eq in H; now subst. Qed.

(** ** the generalised invariant through the primitives *)

Lemma G_transfer s s' e e' f :
  GInv s e f -> cells s' = cells s -> bad s' = bad s ->
  (forall o, cnt (vars s') o + e' o = cnt (vars s) o + e o) -> GInv s' e' f.
Proof.
  intros [Hb H] Hc Hbad Heq. split; [congruence|].
  intros o. rewrite Hc, Heq. apply H.
Qed.

Lemma G_ext s e e' f : GInv s e f -> (forall o, e' o = e o) -> GInv s e' f.
Proof. intros H He. apply (G_transfer s s e e' f H eq_refl eq_refl). intros o. now rewrite He. Qed.

Lemma G_live_pos s e f w o : GInv s e f -> getv s w = Live (Some o) -> 0 < cnt (vars s) o.
Proof.
  intros _ Hw. pose proof (cnt_nth (vars s) w o) as H. unfold getv in Hw. rewrite Hw in H.
  simpl in H. rewrite Nat.eqb_refl in H. lia.
Qed.

Definition unfresh (f p : option obj) : option obj :=
  match p with Some o => if isf f o then None else f | None => f end.

Lemma G_inc s e f p :
  GInv s e f ->
  (forall o, p = Some o -> isf f o = true \/ 0 < cnt (vars s) o + e o \/
                           (exists c, nth_error (cells s) o = Some c /\ dcount c = 0)) ->
  GInv (inc_reference s p) (fun x => e x + ptsO p x) (unfresh f p).
Proof.
  intros HG Hp. destruct p as [o|]; simpl.
  2:{ apply (G_ext _ _ _ _ HG). intros; lia. }
  destruct HG as [Hb H]. pose proof (H o) as Ho.
  destruct (nth_error (cells s) o) as [c|] eqn:Hc.
  2:{ destruct Ho as [Hz Hf]. destruct (Hp o eq_refl) as [Hf'|[Hpos|(c & Hcc & _)]]; [congruence|lia|congruence]. }
  assert (o < length (cells s)) as Hlt by (apply nth_error_Some; congruence).
  destruct Ho as [Hrc Hdc].
  assert (dcount c = 0) as Hd0.
  { destruct (Hp o eq_refl) as [Hf'|[Hpos|(c0 & Hcc & Hd)]].
    - rewrite Hf' in Hdc. destruct (_ =? 0); lia.
    - destruct (Nat.eqb_spec (cnt (vars s) o + e o) 0); lia.
    - congruence. }
  split; simpl.
  - rewrite Hb, Hd0. reflexivity.
  - intros o'. destruct (Nat.eq_dec o o') as [<-|Hne].
    + rewrite nth_error_upd_eq by auto. rewrite Nat.eqb_refl. split; simpl; [lia|].
      destruct (Nat.eqb_spec (cnt (vars s) o + (e o + 1)) 0); lia.
    + rewrite nth_error_upd_ne by auto.
      assert (isf (if isf f o then None else f) o' = isf f o') as Hf.
      { destruct f as [a|]; simpl; auto. destruct (Nat.eqb_spec a o); simpl; auto.
        subst a. symmetry. now apply Nat.eqb_neq. }
      destruct (Nat.eqb_spec o o'); [congruence|]. rewrite Nat.add_0_r, Hf. apply H.
Qed.

Lemma G_dec nd s e e' p :
  GInv s e None ->
  (forall o, e o = e' o + ptsO p o) ->
  GInv (dec_reference nd s p) e' None.
Proof.
  intros HG He. destruct p as [o|]; simpl.
  2:{ apply (G_ext _ _ _ _ HG). intros x. rewrite He. simpl. lia. }
  destruct HG as [Hb H]. pose proof (H o) as Ho. pose proof (He o) as Heo. simpl in Heo.
  rewrite Nat.eqb_refl in Heo.
  destruct (nth_error (cells s) o) as [c|] eqn:Hc.
  2:{ destruct Ho as [Hz _]. lia. }
  assert (o < length (cells s)) as Hlt by (apply nth_error_Some; congruence).
  destruct Ho as [Hrc Hdc]. simpl in Hdc.
  destruct (Nat.eqb_spec (cnt (vars s) o + e o) 0) as [|_]; [lia|].
  split; simpl.
  - assert (dcount c = 0) as -> by lia. rewrite Hb. simpl. destruct (Nat.eqb_spec (rc c) 0); [lia|reflexivity].
  - intros o'. destruct (Nat.eq_dec o o') as [<-|Hne].
    + rewrite nth_error_upd_eq by auto.
      destruct (Nat.eqb_spec (rc c - 1) 0) as [Hz|Hnz]; [destruct nd|]; split; simpl; try lia;
        destruct (Nat.eqb_spec (cnt (vars s) o + e' o) 0); lia.
    + rewrite nth_error_upd_ne by auto. pose proof (He o') as Heo'. simpl in Heo'.
      destruct (Nat.eqb_spec o o'); [congruence|]. rewrite Nat.add_0_r in Heo'. rewrite <- Heo'. apply H.
Qed.

Lemma G_setv s e e' f v h :
  GInv s e f -> v < length (vars s) ->
  (forall o, e' o + pts h o = e o + pts (getv s v) o) ->
  GInv (setv s v h) e' f.
Proof.
  intros HG Hv He. eapply G_transfer; eauto. intros o. simpl.
  pose proof (cnt_upd (vars s) v h o Hv) as Hc. specialize (He o). unfold getv in He. lia.
Qed.

Lemma G_setv2 s e e' f v w h1 h2 :
  GInv s e f -> v < length (vars s) -> w < length (vars s) ->
  (forall o, e' o + pts h1 o + pts h2 o = e o + pts (getv s v) o + pts (getv (setv s v h1) w) o) ->
  GInv (setv (setv s v h1) w h2) e' f.
Proof.
  intros HG Hv Hw He. eapply G_transfer; eauto. intros o. simpl.
  pose proof (cnt_upd (vars s) v h1 o Hv) as Hc1.
  pose proof (cnt_upd (upd (vars s) v h1) w h2 o ltac:(rewrite length_upd; auto)) as Hc2.
  specialize (He o). unfold getv in He. simpl in He. lia.
Qed.

Lemma G_alloc s e x : GInv s e None -> GInv (fst (alloc s x)) e (Some (length (cells s))).
Proof.
  intros [Hb H]. split; [exact Hb|]. intros o. simpl. specialize (H o). simpl in H.
  destruct (Nat.lt_trichotomy o (length (cells s))) as [Hlt|[->|Hgt]].
  - rewrite nth_error_app1 by auto. destruct (Nat.eqb_spec (length (cells s)) o); [lia|].
    destruct (nth_error (cells s) o); auto.
  - rewrite nth_error_app2 by lia. rewrite Nat.sub_diag. simpl.
    replace (nth_error (cells s) (length (cells s))) with (@None cell) in H
      by (symmetry; apply nth_error_None; lia).
    destruct H as [Hz _]. rewrite Nat.eqb_refl. split; simpl; [lia|]. rewrite Hz. reflexivity.
  - assert (nth_error (cells s) o = None) as Hn by (apply nth_error_None; lia).
    rewrite Hn in H.
    replace (nth_error (cells s ++ [{| rc := 0; dcount := 0; orph := 0; val := x |}]) o) with (@None cell)
      by (symmetry; apply nth_error_None; rewrite app_length; simpl; lia).
    destruct (Nat.eqb_spec (length (cells s)) o); [lia|]. tauto.
Qed.

Lemma G_push s e f : GInv s e f -> GInv (push_temp s) e f.
Proof. intros H. eapply G_transfer; eauto. intros o. simpl. rewrite cnt_app. simpl. lia. Qed.

Lemma G_pop s e f : GInv s e f -> vars s <> [] -> last (vars s) Dead = Dead -> GInv (pop_temp s) e f.
Proof. intros H Hne Hl. eapply G_transfer; eauto. intros o. simpl. now rewrite cnt_removelast. Qed.

Lemma G_flag_false s e f : GInv s e f -> GInv (flag s false) e f.
Proof. intros H. eapply G_transfer; eauto. simpl. apply orb_false_r. Qed.

(** ** every operation preserves [Inv] (under its lifetime precondition) *)

Ltac ptsimp :=
  repeat match goal with
  | |- context [pts (Live ?p) ?o] => change (pts (Live p) o) with (ptsO p o)
  | |- context [pts Dead ?o] => change (pts Dead o) with 0
  | |- context [ptsO None ?o] => change (ptsO None o) with 0
  end.

Lemma ctor_raw_inv s e f v p :
  GInv s e f -> v < length (vars s) -> getv s v = Dead ->
  (forall o, p = Some o -> isf f o = true \/ 0 < cnt (vars s) o + e o \/
                           (exists c, nth_error (cells s) o = Some c /\ dcount c = 0)) ->
  GInv (ctor_raw s v p) e (unfresh f p).
Proof.
  intros HG Hv Hd Hp. unfold ctor_raw. rewrite inc_setv_comm.
  apply G_setv with (e := fun x => e x + ptsO p x).
  - now apply G_inc.
  - now rewrite vars_inc.
  - intros o. rewrite getv_inc, Hd. ptsimp. lia.
Qed.

Lemma src_alive s w : Inv s -> live s w = true ->
  forall o, ptr_of s w = Some o -> isf None o = true \/ 0 < cnt (vars s) o + 0 \/
                                   (exists c, nth_error (cells s) o = Some c /\ dcount c = 0).
Proof.
  intros HI Hw o Hp. right. left. apply live_getv in Hw. rewrite Hp in Hw.
  pose proof (G_live_pos _ _ _ _ _ HI Hw). lia.
Qed.

Lemma unfresh_none p : unfresh None p = None.
Proof. destruct p; reflexivity. Qed.

Lemma from_raw_inv s v w : Inv s -> v < length (vars s) -> live s v = false -> live s w = true ->
  Inv (ctor_raw s v (ptr_of s w)).
Proof.
  intros HI Hv Hd Hw. unfold Inv. rewrite <- (unfresh_none (ptr_of s w)).
  apply ctor_raw_inv; auto using notlive_getv. exact (src_alive s w HI Hw).
Qed.

Lemma copy_ctor_inv s v w : Inv s -> v < length (vars s) -> live s v = false -> live s w = true ->
  Inv (copy_ctor s v w).
Proof. apply from_raw_inv. Qed.

Lemma conv_copy_ctor_inv s v w : Inv s -> v < length (vars s) -> live s v = false -> live s w = true ->
  Inv (conv_copy_ctor s v w).
Proof. apply from_raw_inv. Qed.

Lemma new_inv s v x : Inv s -> v < length (vars s) -> live s v = false ->
  Inv (let '(s1, n) := alloc s x in ctor_raw s1 v (Some n)).
Proof.
  intros HI Hv Hd. pose proof (G_alloc s _ x HI) as HA. unfold alloc in *. simpl fst in HA.
  set (s1 := {| cells := _; vars := vars s; bad := bad s |}) in *.
  pose proof (ctor_raw_inv s1 _ _ v (Some (length (cells s))) HA) as H.
  simpl in H. rewrite Nat.eqb_refl in H. apply H; auto.
  - now apply notlive_getv in Hd.
  - intros o [= <-]. left. apply Nat.eqb_refl.
Qed.

Lemma default_inv s v : Inv s -> v < length (vars s) -> live s v = false -> Inv (setv s v (Live None)).
Proof.
  intros HI Hv Hd. apply G_setv with (e := fun _ => 0); auto.
  intros o. rewrite (notlive_getv _ _ Hd). reflexivity.
Qed.

Lemma move_ctor_inv s v w : Inv s -> v < length (vars s) -> live s v = false -> live s w = true ->
  Inv (move_ctor s v w).
Proof.
  intros HI Hv Hd Hw. unfold move_ctor.
  assert (v <> w) as Hne by (intros ->; congruence).
  apply G_setv2 with (e := fun _ => 0); auto using live_range.
  intros o. rewrite getv_setv by auto. destruct (Nat.eqb_spec v w); [congruence|].
  rewrite (notlive_getv _ _ Hd), (live_getv _ _ Hw). ptsimp. lia.
Qed.

Lemma conv_move_ctor_inv s v w : Inv s -> v < length (vars s) -> live s v = false -> live s w = true ->
  Inv (conv_move_ctor s v w).
Proof. apply move_ctor_inv. Qed.

Lemma copy_assign_inv s v w : Inv s -> live s v = true -> live s w = true -> Inv (copy_assign s v w).
Proof.
  intros HI Hv Hw. unfold copy_assign.
  destruct (optnat_eqb (ptr_of s v) (ptr_of s w)); [exact HI|].
  rewrite ptr_of_setv_same by (now apply live_range). rewrite inc_setv_comm.
  apply G_dec with (e := fun x => ptsO (ptr_of s v) x).
  - apply G_setv with (e := fun x => 0 + ptsO (ptr_of s w) x).
    + rewrite <- (unfresh_none (ptr_of s w)). apply G_inc; auto. exact (src_alive s w HI Hw).
    + rewrite vars_inc. now apply live_range.
    + intros o. rewrite getv_inc, (live_getv _ _ Hv). ptsimp. lia.
  - intros o. lia.
Qed.

Lemma conv_copy_assign_inv s v w : Inv s -> live s v = true -> live s w = true -> Inv (conv_copy_assign s v w).
Proof. apply copy_assign_inv. Qed.

Lemma move_assign_inv s v w : Inv s -> live s v = true -> live s w = true -> Inv (move_assign s v w).
Proof.
  intros HI Hv Hw. unfold move_assign.
  destruct (optnat_eqb (ptr_of s v) (ptr_of s w)) eqn:Heq; [exact HI|].
  assert (v <> w) as Hne.
  { intros ->. destruct (ptr_of s w) as [a|]; simpl in Heq; [rewrite Nat.eqb_refl in Heq|]; discriminate. }
  apply G_dec with (e := fun x => ptsO (ptr_of s v) x).
  - apply G_setv2 with (e := fun _ => 0); auto using live_range.
    intros o. rewrite getv_setv by auto using live_range. destruct (Nat.eqb_spec v w); [congruence|].
    rewrite (live_getv _ _ Hv), (live_getv _ _ Hw). ptsimp. lia.
  - intros o. lia.
Qed.

Lemma conv_move_assign_inv s v w : Inv s -> live s v = true -> live s w = true -> Inv (conv_move_assign s v w).
Proof. apply move_assign_inv. Qed.

(** on this model the order shipped before ccc5d47 computes the same state *)
Lemma copy_assign_shipped_eq s v w : live s v = true -> copy_assign_shipped nodel s v w = copy_assign s v w.
Proof.
  intros Hv. unfold copy_assign_shipped, copy_assign. destruct (optnat_eqb _ _); auto.
  rewrite ptr_of_inc, ptr_of_dec, ptr_of_inc. rewrite ptr_of_setv_same by (now apply live_range).
  rewrite inc_setv_comm. now rewrite dec_setv_comm.
Qed.

Lemma move_assign_shipped_eq s v w : move_assign_shipped nodel s v w = move_assign s v w.
Proof.
  unfold move_assign_shipped, move_assign. destruct (optnat_eqb _ _); auto.
  rewrite ptr_of_dec. now rewrite !dec_setv_comm.
Qed.

Lemma release_inv nd s v h : Inv s -> live s v = true -> pts h = (fun _ => 0) ->
  Inv (setv (dec_reference nd s (ptr_of s v)) v h).
Proof.
  intros HI Hv Hh. rewrite <- dec_setv_comm.
  apply G_dec with (e := fun x => ptsO (ptr_of s v) x).
  - apply G_setv with (e := fun _ => 0); auto using live_range.
    intros o. rewrite (live_getv _ _ Hv), Hh. ptsimp. lia.
  - intros o. lia.
Qed.

Lemma dtor_k_inv nd s v : Inv s -> live s v = true -> Inv (dtor_k nd s v).
Proof. intros. now apply release_inv. Qed.

Lemma dtor_inv s v : Inv s -> live s v = true -> Inv (dtor s v).
Proof. apply dtor_k_inv. Qed.

Lemma reset_inv s v : Inv s -> live s v = true -> Inv (reset s v).
Proof. intros. now apply release_inv. Qed.

Lemma swap_inv s v w : Inv s -> live s v = true -> live s w = true -> Inv (swap s v w).
Proof.
  intros HI Hv Hw. unfold swap.
  apply G_setv2 with (e := fun _ => 0); auto using live_range.
  intros o. rewrite getv_setv by auto using live_range. rewrite (live_getv _ _ Hv).
  destruct (Nat.eqb_spec v w) as [->|Hne]; [|rewrite (live_getv _ _ Hw)]; ptsimp; lia.
Qed.

(** lengths of the variable list (needed for the temporary) *)
Lemma len_vars_setv s v h : length (vars (setv s v h)) = length (vars s).
Proof. simpl. apply length_upd. Qed.

Lemma len_vars_move_assign s v w : length (vars (move_assign s v w)) = length (vars s).
Proof.
  unfold move_assign. destruct (optnat_eqb _ _); auto.
  rewrite vars_dec. now rewrite !len_vars_setv.
Qed.

Lemma vars_dtor_k nd s t : vars (dtor_k nd s t) = upd (vars s) t Dead.
Proof. unfold dtor_k. simpl. now rewrite vars_dec. Qed.

Lemma vars_dtor s t : vars (dtor s t) = upd (vars s) t Dead.
Proof. apply vars_dtor_k. Qed.

Lemma live_setv_other s v h w : v < length (vars s) -> v <> w -> live (setv s v h) w = live s w.
Proof. intros Hv Hne. unfold live. rewrite getv_setv by auto. destruct (Nat.eqb_spec v w); [congruence|auto]. Qed.

Lemma live_setv_same s v p : v < length (vars s) -> live (setv s v (Live p)) v = true.
Proof. intros Hv. unfold live. rewrite getv_setv by auto. now rewrite Nat.eqb_refl. Qed.

Lemma live_dec nd s p v : live (dec_reference nd s p) v = live s v.
Proof. unfold live. now rewrite getv_dec. Qed.
Lemma live_inc s p v : live (inc_reference s p) v = live s v.
Proof. unfold live. now rewrite getv_inc. Qed.

Lemma live_move_assign_src s v w : live s v = true -> live s w = true -> live (move_assign s v w) w = true.
Proof.
  intros Hv Hw. unfold move_assign. destruct (optnat_eqb _ _); auto.
  rewrite live_dec. apply live_setv_same. rewrite len_vars_setv. now apply live_range.
Qed.

(** [*this = <temporary>]: move-assignment from the temporary in the extra variable [t], then its destructor *)
Lemma temp_assign_inv k s2 v t :
  Inv s2 -> length (vars s2) = S t -> live s2 v = true -> live s2 t = true ->
  Inv (pop_temp (dtor_k k (move_assign s2 v t) t)).
Proof.
  intros H2 Hl2 Hv2 Ht2.
  pose proof (move_assign_inv s2 v t H2 Hv2 Ht2) as H3.
  pose proof (live_move_assign_src s2 v t Hv2 Ht2) as Ht3.
  pose proof (len_vars_move_assign s2 v t) as Hl3. rewrite Hl2 in Hl3.
  set (s3 := move_assign s2 v t) in *.
  pose proof (dtor_k_inv k s3 t H3 Ht3) as H4.
  pose proof (vars_dtor_k k s3 t) as Hvd.
  apply G_pop; auto.
  - rewrite Hvd. intros Hnil. apply (f_equal (@length hnd)) in Hnil.
    rewrite length_upd, Hl3 in Hnil. discriminate.
  - rewrite Hvd.
    assert (t = length (vars s3) - 1) as Et by lia. rewrite Et. apply last_upd_last.
    intros Hnil. rewrite Hnil in Hl3. discriminate.
Qed.

Lemma assign_fresh_inv s v x : Inv s -> live s v = true -> Inv (assign_fresh s v x).
Proof.
  intros HI Hv. unfold assign_fresh, alloc. cbv beta iota.
  pose proof (G_alloc s _ x HI) as HA. unfold alloc in HA. simpl fst in HA.
  set (s1 := {| cells := _; vars := vars s; bad := bad s |}) in *.
  set (t := length (vars s)). set (n := length (cells s)) in *.
  pose proof (live_range _ _ Hv) as Hvr.
  (* the temporary *)
  assert (Inv (ctor_raw (push_temp s1) t (Some n))) as H2.
  { pose proof (ctor_raw_inv (push_temp s1) _ _ t (Some n) (G_push _ _ _ HA)) as H.
    simpl in H. rewrite Nat.eqb_refl in H. apply H.
    - rewrite app_length. simpl. fold t. lia.
    - unfold getv. simpl. rewrite app_nth2 by (fold t; lia). fold t. now rewrite Nat.sub_diag.
    - intros o [= <-]. left. apply Nat.eqb_refl. }
  set (s2 := ctor_raw (push_temp s1) t (Some n)) in *.
  assert (length (vars s2) = S t) as Hl2.
  { unfold s2, ctor_raw. rewrite vars_inc, len_vars_setv. simpl. rewrite app_length. simpl. fold t. lia. }
  assert (live s2 v = true) as Hv2.
  { unfold s2, ctor_raw. rewrite live_inc. rewrite live_setv_other.
    - unfold live, getv in *. simpl. rewrite app_nth1 by (fold t; lia). exact Hv.
    - simpl. rewrite app_length. simpl. fold t. lia.
    - fold t in Hvr. lia. }
  assert (live s2 t = true) as Ht2.
  { unfold s2, ctor_raw. rewrite live_inc. apply live_setv_same. simpl. rewrite app_length. simpl. fold t. lia. }
  change (Inv (pop_temp (dtor_k (nodel v) (move_assign s2 v t) t))).
  now apply temp_assign_inv.
Qed.

Lemma assign_null_inv s v : Inv s -> live s v = true -> Inv (assign_null nodel s v).
Proof.
  intros HI Hv. unfold assign_null, ctor_nullptr.
  set (t := length (vars s)). pose proof (live_range _ _ Hv) as Hvr.
  set (s2 := setv (push_temp s) t (Live None)).
  assert (length (vars (push_temp s)) = S t) as Hlp by (simpl; rewrite app_length; simpl; fold t; lia).
  assert (getv (push_temp s) t = Dead) as Hd.
  { unfold getv. simpl. rewrite app_nth2 by (fold t; lia). fold t. now rewrite Nat.sub_diag. }
  assert (Inv s2) as H2.
  { apply G_setv with (e := fun _ => 0); [now apply G_push | lia |]. intros o. rewrite Hd. reflexivity. }
  assert (length (vars s2) = S t) as Hl2 by (unfold s2; now rewrite len_vars_setv).
  assert (live s2 v = true) as Hv2.
  { unfold s2. rewrite live_setv_other; [|lia|fold t in Hvr; lia].
    unfold live, getv in *. simpl. rewrite app_nth1 by (fold t; lia). exact Hv. }
  assert (live s2 t = true) as Ht2 by (unfold s2; apply live_setv_same; lia).
  now apply temp_assign_inv.
Qed.

(** adopting a raw pointer to any object that has not been destroyed: with other handles around (a raw pointer
    adopted a second time) or with none (an object left alive by a no-delete handle) *)
Lemma adopt_inv s v o : Inv s -> v < length (vars s) -> live s v = false -> alive s o = true ->
  Inv (ctor_raw s v (Some o)).
Proof.
  intros HI Hv Hd Ha. unfold Inv. change None with (unfresh None (Some o)).
  apply ctor_raw_inv; auto using notlive_getv.
  intros o' [= <-]. right. right. unfold alive in Ha. destruct (nth_error (cells s) o) as [c|]; [|discriminate].
  exists c. split; auto. now apply Nat.eqb_eq.
Qed.

Lemma unify_inv s v : Inv s -> live s v = true -> Inv (unify s v).
Proof.
  intros HI Hv. unfold unify. destruct (ptr_of s v) as [o|] eqn:Hp; [|exact HI].
  pose proof (live_getv _ _ Hv) as Hg. rewrite Hp in Hg.
  pose proof (G_live_pos _ _ _ _ _ HI Hg) as Hpos.
  destruct HI as [Hb H]. pose proof (H o) as Ho.
  destruct (nth_error (cells s) o) as [c|]; [|lia].
  destruct Ho as [_ Hdc]. simpl in Hdc.
  destruct (Nat.eqb_spec (cnt (vars s) o + 0) 0); [lia|]. assert (dcount c = 0) as -> by lia. simpl.
  assert (Inv (flag s false)) as HF by (apply G_flag_false; split; auto).
  destruct (rc c =? 1); [exact HF|].
  apply assign_fresh_inv; auto.
Qed.

Theorem exec_inv s o : Inv s -> pre s o = true -> Inv (exec s o).
Proof.
  intros HI Hpre. destruct o; simpl in *;
    repeat match goal with
    | H : _ && _ = true |- _ => apply andb_true_iff in H; destruct H
    | H : negb _ = true |- _ => apply negb_true_iff in H
    | H : in_range _ _ = true |- _ => apply in_range_lt in H
    end.
  - now apply new_inv.
  - now apply default_inv.
  - now apply default_inv.
  - now apply from_raw_inv.
  - now apply copy_ctor_inv.
  - now apply conv_copy_ctor_inv.
  - now apply move_ctor_inv.
  - now apply conv_move_ctor_inv.
  - now apply copy_assign_inv.
  - now apply conv_copy_assign_inv.
  - now apply move_assign_inv.
  - now apply conv_move_assign_inv.
  - now apply assign_fresh_inv.
  - now apply reset_inv.
  - now apply swap_inv.
  - now apply unify_inv.
  - now apply dtor_inv.
  - now apply adopt_inv.
  - now apply assign_null_inv.
  - exact HI.
Qed.

Lemma step_inv s o : Inv s -> Inv (fst (step s o)).
Proof. intros HI. unfold step. destruct (pre s o) eqn:Hp; simpl; auto using exec_inv. Qed.

Lemma init_inv n : Inv (init n).
Proof.
  split; [reflexivity|]. intros o. simpl. rewrite cnt_repeat_dead.
  destruct o; simpl; auto.
Qed.

Lemma run_inv s ops : Inv s -> Inv (run s ops).
Proof. revert s; induction ops as [|o t IH]; intros s HI; simpl; auto using step_inv. Qed.

(** ** the statements of the property *)

Definition handles (s : state) (o : obj) : nat := cnt (vars s) o.

(** count_is_handles *)
Theorem count_is_handles n ops o c :
  let s := run (init n) ops in
  nth_error (cells s) o = Some c -> rc c = handles s o.
Proof.
  intros s Hc. destruct (run_inv _ ops (init_inv n)) as [_ H]. specialize (H o). fold s in H.
  rewrite Hc in H. destruct H as [Hrc _]. unfold handles. lia.
Qed.

(** destroyed exactly once, and exactly while no handle remains *)
Theorem destroyed_iff_no_handle n ops o c :
  let s := run (init n) ops in
  nth_error (cells s) o = Some c ->
  dcount c + orph c = (if handles s o =? 0 then 1 else 0).
Proof.
  intros s Hc. destruct (run_inv _ ops (init_inv n)) as [_ H]. specialize (H o). fold s in H.
  rewrite Hc in H. destruct H as [_ Hd]. unfold handles. simpl in Hd. now rewrite Nat.add_0_r in Hd.
Qed.

(** no access to a destroyed object, no counter underflow, no dangling pointer — also inside the operations *)
Theorem ledger_clean n ops : bad (run (init n) ops) = false.
Proof. apply (run_inv _ ops (init_inv n)). Qed.

(** a handle never points to an object that does not exist *)
Theorem handles_point_to_objects n ops v o :
  let s := run (init n) ops in
  getv s v = Live (Some o) -> exists c, nth_error (cells s) o = Some c /\ dcount c = 0 /\ orph c = 0 /\ 0 < rc c.
Proof.
  intros s Hg. pose proof (run_inv _ ops (init_inv n)) as HI. fold s in HI.
  pose proof (G_live_pos _ _ _ _ _ HI Hg) as Hpos. destruct HI as [_ H]. specialize (H o).
  destruct (nth_error (cells s) o) as [c|]; [|lia]. exists c. destruct H as [Hrc Hd]. simpl in Hd.
  destruct (Nat.eqb_spec (cnt (vars s) o + 0) 0); [lia|]. repeat split; auto; lia.
Qed.

(** objects are never removed from the heap list, Deleter calls are never undone, payloads never change *)
Definition mono (s s' : state) : Prop :=
  forall o c, nth_error (cells s) o = Some c ->
  exists c', nth_error (cells s') o = Some c' /\ dcount c <= dcount c' /\ val c' = val c.

Lemma mono_refl s : mono s s.
Proof. intros o c H. exists c. auto. Qed.

Lemma mono_trans s1 s2 s3 : mono s1 s2 -> mono s2 s3 -> mono s1 s3.
Proof.
  intros H12 H23 o c H. destruct (H12 o c H) as (c2 & H2 & Hd2 & Hv2).
  destruct (H23 o c2 H2) as (c3 & H3 & Hd3 & Hv3). exists c3. repeat split; auto; try lia; try congruence.
Qed.

Lemma mono_same s0 s s' : cells s' = cells s -> mono s0 s -> mono s0 s'.
Proof. intros Hc H o c Ho. rewrite Hc. now apply H. Qed.

Lemma mono_upd s s' o c c' :
  nth_error (cells s) o = Some c -> cells s' = upd (cells s) o c' -> dcount c <= dcount c' ->
  val c' = val c -> mono s s'.
Proof.
  intros Hc Hs Hd Hv o1 c1 H1. rewrite Hs. destruct (Nat.eq_dec o o1) as [<-|Hne].
  - rewrite nth_error_upd_eq by (apply nth_error_Some; congruence).
    exists c'. rewrite Hc in H1. injection H1 as <-. auto.
  - rewrite nth_error_upd_ne by auto. exists c1. auto.
Qed.

Lemma mono_inc s0 s p : mono s0 s -> mono s0 (inc_reference s p).
Proof.
  intros H. eapply mono_trans; eauto. destruct p as [o|]; simpl; [|apply mono_refl].
  destruct (nth_error (cells s) o) as [c|] eqn:Hc; [|now apply mono_same with (s := s), mono_refl].
  eapply mono_upd; [exact Hc | reflexivity | simpl; lia | reflexivity].
Qed.

Lemma mono_dec nd s0 s p : mono s0 s -> mono s0 (dec_reference nd s p).
Proof.
  intros H. eapply mono_trans; eauto. destruct p as [o|]; simpl; [|apply mono_refl].
  destruct (nth_error (cells s) o) as [c|] eqn:Hc; [|now apply mono_same with (s := s), mono_refl].
  destruct (rc c - 1 =? 0); [destruct nd|]; (eapply mono_upd; [exact Hc | reflexivity | simpl; lia | reflexivity]).
Qed.

Lemma mono_setv s0 s v h : mono s0 s -> mono s0 (setv s v h).
Proof. now apply mono_same. Qed.
Lemma mono_push s0 s : mono s0 s -> mono s0 (push_temp s).
Proof. now apply mono_same. Qed.
Lemma mono_pop s0 s : mono s0 s -> mono s0 (pop_temp s).
Proof. now apply mono_same. Qed.
Lemma mono_flag s0 s b : mono s0 s -> mono s0 (flag s b).
Proof. now apply mono_same. Qed.

Lemma mono_alloc s0 s x : mono s0 s -> mono s0 (fst (alloc s x)).
Proof.
  intros H. eapply mono_trans; eauto. intros o c Hc. simpl. exists c.
  rewrite nth_error_app1 by (apply nth_error_Some; congruence). auto.
Qed.

Ltac mono_steps :=
  repeat first [ apply mono_setv | apply mono_inc | apply mono_dec | apply mono_push | apply mono_pop
               | apply mono_flag | apply mono_alloc ];
  try apply mono_refl; auto.

Lemma mono_move_assign s0 s v w : mono s0 s -> mono s0 (move_assign s v w).
Proof. intros H. unfold move_assign. destruct (optnat_eqb _ _); mono_steps. Qed.

Lemma mono_assign_fresh s0 s v x : mono s0 s -> mono s0 (assign_fresh s v x).
Proof.
  intros H. unfold assign_fresh. change (alloc s x) with (fst (alloc s x), length (cells s)). cbv iota beta.
  unfold dtor_k, ctor_raw. mono_steps. apply mono_move_assign. mono_steps. apply mono_alloc. exact H.
Qed.

Lemma mono_unify s v : mono s (unify s v).
Proof.
  unfold unify. destruct (ptr_of s v); [|apply mono_refl].
  destruct (nth_error (cells s) o); [|mono_steps].
  destruct (rc c =? 1); [mono_steps|]. apply mono_assign_fresh. mono_steps.
Qed.

Lemma mono_assign_null s v : mono s (assign_null nodel s v).
Proof.
  unfold assign_null, dtor_k, ctor_nullptr. mono_steps. apply mono_move_assign. mono_steps.
Qed.

Lemma mono_exec s o : mono s (exec s o).
Proof.
  destruct o; cbn [exec];
    try (apply mono_assign_fresh, mono_refl); try (apply mono_move_assign, mono_refl); try apply mono_unify;
    try apply mono_assign_null; try apply mono_refl.
  1:{ change (alloc s x) with (fst (alloc s x), length (cells s)). cbv iota beta. unfold ctor_raw.
      apply mono_inc, mono_setv, mono_alloc, mono_refl. }
  all: unfold ctor_default, ctor_nullptr, ctor_raw, copy_ctor, conv_copy_ctor, move_ctor, conv_move_ctor, copy_assign,
      CPtr.conv_copy_assign, CPtr.conv_move_assign, CPtr.reset, CPtr.dtor, dtor_k, swap;
    try match goal with |- context [if ?b then _ else _] => destruct b end; mono_steps.
Qed.

Lemma mono_step s o : mono s (fst (step s o)).
Proof. unfold step. destruct (pre s o); simpl; auto using mono_exec, mono_refl. Qed.

Lemma mono_run s ops : mono s (run s ops).
Proof.
  revert s; induction ops as [|o t IH]; intros s; simpl; [apply mono_refl|].
  eapply mono_trans; [apply mono_step|apply IH].
Qed.

(** destroy_at_zero: one step destroys (or, through a no-delete handle, leaves alive without owner) exactly the objects
    whose number of handles drops to zero in that step; the only way back is the adoption of an object that is still
    alive (left by a no-delete handle); a destroyed object never gets a handle again *)
Theorem destroy_at_the_drop n ops op o c :
  let s := run (init n) ops in
  let s' := fst (step s op) in
  nth_error (cells s) o = Some c ->
  exists c', nth_error (cells s') o = Some c' /\
    dcount c' + orph c' + (if (handles s o =? 0) && (0 <? handles s' o) then 1 else 0)
      = dcount c + orph c + (if (0 <? handles s o) && (handles s' o =? 0) then 1 else 0) /\
    dcount c <= dcount c' /\
    (dcount c = 1 -> handles s' o = 0) /\ val c' = val c.
Proof.
  intros s s' Hc.
  pose proof (run_inv _ ops (init_inv n)) as HI. fold s in HI.
  pose proof (step_inv s op HI) as HI'. fold s' in HI'.
  destruct (mono_step s op o c Hc) as (c' & Hc' & Hm & Hv). fold s' in Hc'.
  exists c'. split; auto.
  destruct HI as [_ H], HI' as [_ H']. specialize (H o). specialize (H' o).
  rewrite Hc in H. rewrite Hc' in H'. destruct H as [Hrc Hd], H' as [Hrc' Hd']. simpl in Hd, Hd'.
  unfold handles. rewrite Nat.add_0_r in *.
  destruct (Nat.eqb_spec (cnt (vars s) o) 0) as [Hz|Hnz];
  destruct (Nat.eqb_spec (cnt (vars s') o) 0) as [Hz'|Hnz'];
  destruct (Nat.ltb_spec 0 (cnt (vars s) o)); destruct (Nat.ltb_spec 0 (cnt (vars s') o));
  simpl; repeat split; auto; try lia.
Qed.

(** end of scope: after every variable still alive is destroyed, every object ever created has been destroyed
    exactly once (no leak, no double destruction) *)
Lemma destroy_all_inv s k : Inv s -> Inv (destroy_all s k).
Proof.
  intros HI. induction k as [|k IH]; simpl; auto.
  destruct (live (destroy_all s k) k) eqn:Hl; auto using dtor_inv.
Qed.

Lemma len_vars_destroy_all s k : length (vars (destroy_all s k)) = length (vars s).
Proof.
  induction k as [|k IH]; simpl; auto.
  destruct (live (destroy_all s k) k); auto. unfold CPtr.dtor, dtor_k. now rewrite len_vars_setv, vars_dec.
Qed.

Lemma destroy_all_dead s k v : v < k -> live (destroy_all s k) v = false.
Proof.
  induction k as [|k IH]; intros Hv; [lia|]. simpl.
  destruct (Nat.eq_dec v k) as [->|Hne].
  - destruct (live (destroy_all s k) k) eqn:Hl; auto.
    unfold CPtr.dtor, dtor_k, live. rewrite getv_setv.
    + now rewrite Nat.eqb_refl.
    + rewrite vars_dec. now apply live_range.
  - assert (live (destroy_all s k) v = false) as Hd by (apply IH; lia).
    destruct (live (destroy_all s k) k) eqn:Hl; auto.
    unfold CPtr.dtor, dtor_k. unfold live. rewrite getv_setv by (rewrite vars_dec; now apply live_range).
    destruct (Nat.eqb_spec k v); [congruence|]. rewrite getv_dec. exact Hd.
Qed.

Lemma cnt_all_dead l o : (forall v, v < length l -> nth v l Dead = Dead) -> cnt l o = 0.
Proof.
  induction l as [|h t IH]; intros H; simpl; auto.
  pose proof (H 0 ltac:(simpl; lia)) as H0. simpl in H0. subst h. simpl.
  apply IH. intros v Hv. apply (H (S v)). simpl. lia.
Qed.

Theorem all_destroyed_at_end n ops o c :
  let s := finish (run (init n) ops) in
  nth_error (cells s) o = Some c -> dcount c + orph c = 1 /\ rc c = 0.
Proof.
  intros s Hc. set (r := run (init n) ops) in *.
  pose proof (destroy_all_inv r (length (vars r)) (run_inv _ ops (init_inv n))) as HI.
  fold r in HI. change (destroy_all r (length (vars r))) with s in HI.
  assert (cnt (vars s) o = 0) as Hz.
  { apply cnt_all_dead. intros v Hv. unfold s, finish in Hv. rewrite len_vars_destroy_all in Hv.
    pose proof (destroy_all_dead r (length (vars r)) v Hv) as Hd. now apply notlive_getv in Hd. }
  destruct HI as [_ H]. specialize (H o). rewrite Hc in H. destruct H as [Hrc Hd].
  simpl in Hd. rewrite Hz in *. simpl in *. auto.
Qed.

(** ** the aliasing cases, explicitly *)

Lemma copy_assign_self s v : copy_assign s v v = s.
Proof.
  unfold copy_assign. destruct (ptr_of s v) as [a|]; simpl; [rewrite Nat.eqb_refl|]; reflexivity.
Qed.
Lemma move_assign_self s v : move_assign s v v = s.
Proof.
  unfold move_assign. destruct (ptr_of s v) as [a|]; simpl; [rewrite Nat.eqb_refl|]; reflexivity.
Qed.
Lemma copy_assign_alias s v w : ptr_of s v = ptr_of s w -> copy_assign s v w = s.
Proof.
  intros H. unfold copy_assign. rewrite H. destruct (ptr_of s w) as [a|]; simpl; [rewrite Nat.eqb_refl|]; reflexivity.
Qed.
(** moving from an alias leaves BOTH handles on the object (the source is not emptied) and the count unchanged *)
Lemma move_assign_alias s v w : ptr_of s v = ptr_of s w -> move_assign s v w = s.
Proof.
  intros H. unfold move_assign. rewrite H. destruct (ptr_of s w) as [a|]; simpl; [rewrite Nat.eqb_refl|]; reflexivity.
Qed.


(** ** only a no-delete handle can leave an object alive without owner: when no variable has the no-operation
    Deleter, [orph] stays 0 and "destroyed" is literally "the Deleter [delete ptr] has run exactly once" *)
Definition noorph (s : state) : Prop := forall o c, nth_error (cells s) o = Some c -> orph c = 0.

Lemma noorph_same s s' : cells s' = cells s -> noorph s -> noorph s'.
Proof. intros Hc H o c Ho. rewrite Hc in Ho. eauto. Qed.

Lemma noorph_upd s s' o c c' :
  nth_error (cells s) o = Some c -> cells s' = upd (cells s) o c' -> orph c' <= orph c -> noorph s -> noorph s'.
Proof.
  intros Hc Hs Ho H o1 c1 H1. rewrite Hs in H1. destruct (Nat.eq_dec o o1) as [<-|Hne].
  - rewrite nth_error_upd_eq in H1 by (apply nth_error_Some; congruence). injection H1 as <-. specialize (H _ _ Hc). lia.
  - rewrite nth_error_upd_ne in H1 by auto. eauto.
Qed.

Lemma noorph_inc s p : noorph s -> noorph (inc_reference s p).
Proof.
  intros H. destruct p as [o|]; simpl; auto.
  destruct (nth_error (cells s) o) as [c|] eqn:Hc; [|exact H].
  eapply noorph_upd; [exact Hc | reflexivity | simpl; lia | exact H].
Qed.

Lemma noorph_dec s p : noorph s -> noorph (dec_reference false s p).
Proof.
  intros H. destruct p as [o|]; simpl; auto.
  destruct (nth_error (cells s) o) as [c|] eqn:Hc; [|exact H].
  destruct (rc c - 1 =? 0); (eapply noorph_upd; [exact Hc | reflexivity | simpl; lia | exact H]).
Qed.

Lemma noorph_setv s v h : noorph s -> noorph (setv s v h).
Proof. now apply noorph_same. Qed.
Lemma noorph_push s : noorph s -> noorph (push_temp s).
Proof. now apply noorph_same. Qed.
Lemma noorph_pop s : noorph s -> noorph (pop_temp s).
Proof. now apply noorph_same. Qed.
Lemma noorph_flag s b : noorph s -> noorph (flag s b).
Proof. now apply noorph_same. Qed.
Lemma noorph_alloc s x : noorph s -> noorph (fst (alloc s x)).
Proof.
  intros H o c Hc. simpl in Hc. destruct (Nat.lt_ge_cases o (length (cells s))) as [Hlt|Hge].
  - rewrite nth_error_app1 in Hc by auto. eauto.
  - rewrite nth_error_app2 in Hc by auto. destruct (o - length (cells s)) as [|k]; simpl in Hc.
    + now injection Hc as <-.
    + destruct k; discriminate.
Qed.

Ltac noorph_steps :=
  repeat first [ apply noorph_setv | apply noorph_inc | apply noorph_dec | apply noorph_push | apply noorph_pop
               | apply noorph_flag ];
  auto.

Section AllDefault.
Hypothesis Hdef : forall v, nodel v = false.

Lemma noorph_move_assign s v w : noorph s -> noorph (move_assign s v w).
Proof. intros H. unfold CPtr.move_assign. rewrite Hdef. destruct (optnat_eqb _ _); noorph_steps. Qed.

Lemma noorph_assign_fresh s v x : noorph s -> noorph (assign_fresh s v x).
Proof.
  intros H. unfold CPtr.assign_fresh. change (alloc s x) with (fst (alloc s x), length (cells s)). cbv iota beta.
  unfold dtor_k, ctor_raw. rewrite Hdef. noorph_steps. apply noorph_move_assign. noorph_steps. now apply noorph_alloc.
Qed.

Lemma noorph_unify s v : noorph s -> noorph (unify s v).
Proof.
  intros H. unfold CPtr.unify. destruct (ptr_of s v); auto.
  destruct (nth_error (cells s) o); [|noorph_steps].
  destruct (rc c =? 1); [noorph_steps|]. apply noorph_assign_fresh. noorph_steps.
Qed.

Lemma noorph_assign_null s v : noorph s -> noorph (assign_null nodel s v).
Proof.
  intros H. unfold assign_null, dtor_k, ctor_nullptr. rewrite Hdef. noorph_steps. apply noorph_move_assign. noorph_steps.
Qed.

Lemma noorph_exec s o : noorph s -> noorph (exec s o).
Proof.
  intros H. destruct o; cbn [CPtr.exec];
    try (now apply noorph_assign_fresh); try (now apply noorph_move_assign); try (now apply noorph_unify);
    try (now apply noorph_assign_null); try exact H.
  1:{ change (alloc s x) with (fst (alloc s x), length (cells s)). cbv iota beta. unfold ctor_raw.
      apply noorph_inc, noorph_setv. now apply noorph_alloc. }
  all: unfold ctor_default, ctor_nullptr, ctor_raw, copy_ctor, conv_copy_ctor, move_ctor, conv_move_ctor, CPtr.copy_assign,
      CPtr.conv_copy_assign, CPtr.conv_move_assign, CPtr.reset, CPtr.dtor, dtor_k, swap; rewrite ?Hdef;
    try match goal with |- context [if ?b then _ else _] => destruct b end; noorph_steps.
Qed.

Lemma noorph_run s ops : noorph s -> noorph (run s ops).
Proof.
  revert s; induction ops as [|o t IH]; intros s H; simpl; auto.
  apply IH. unfold CPtr.step. destruct (pre s o); simpl; auto using noorph_exec.
Qed.

(** the property as stated for the default Deleter: destroyed exactly once iff no handle points to the object *)
Theorem default_destroyed_iff_no_handle n ops o c :
  let s := run (init n) ops in
  nth_error (cells s) o = Some c -> dcount c = (if handles s o =? 0 then 1 else 0) /\ orph c = 0.
Proof.
  intros s Hc. pose proof (destroyed_iff_no_handle n ops o c Hc) as Hd. fold s in Hd.
  assert (orph c = 0) as Ho.
  { apply (noorph_run (init n) ops) with (o := o); auto. intros o1 c1 H1. destruct o1; discriminate. }
  split; auto. lia.
Qed.
End AllDefault.

(** a no-delete handle that lets go last leaves the object alive: [dcount] is only ever incremented by a variable
    with the default Deleter — in particular an object referenced only through no-delete handles is never destroyed
    by CountingPtr (stated on one release) *)
Lemma nodelete_release_never_destroys s p o c c' :
  nth_error (cells s) o = Some c -> nth_error (cells (dec_reference true s p)) o = Some c' -> dcount c' = dcount c.
Proof.
  intros Hc Hc'. destruct p as [a|]; simpl in Hc'; [|congruence].
  destruct (nth_error (cells s) a) as [ca|] eqn:Ha; simpl in Hc'; [|congruence].
  destruct (Nat.eq_dec a o) as [->|Hne].
  - rewrite nth_error_upd_eq in Hc' by (apply nth_error_Some; congruence).
    rewrite Ha in Hc. injection Hc as <-. destruct (rc ca - 1 =? 0); injection Hc' as <-; reflexivity.
  - rewrite nth_error_upd_ne in Hc' by auto. congruence.
Qed.

End KindsProofs.
