(** C12 — concurrent part: a labelled transition system for k threads copying and dropping CountingPtr handles
    to ONE shared object (tlx/counting_ptr.hpp).  One label = one synchronisation action of one thread:

      copy-construction   CountingPtr(const CountingPtr& o) : ptr_(o.ptr_) { inc_reference(ptr_); }
         [EvCopyStart t]      the new handle's ptr_ is initialised from a handle the thread holds (no shared access)
         [EvFetchAdd t old]   ++reference_count_        (atomic RMW; [old] = value read by the RMW)
      release (~CountingPtr / reset / overwritten by assignment)   if (ptr_ && ptr_->dec_reference()) Deleter()(ptr_);
         [EvFetchSub t old]   --reference_count_ == 0   (atomic RMW)
         [EvDelete t]         Deleter()(ptr_), executed by the thread whose decrement produced zero
      [EvGive t u]            a complete handle changes owner (move into another thread, e.g. at thread start/join)
      [EvUse t]               the thread dereferences one of its handles (the object must still exist)
      [EvCloneRead t]         unify(): the thread has seen !unique() and copies the object through its handle
                              ([new Type( *ptr_)], the element's copy constructor); same conditions as a use.
                              unify() on a shared object is, for the ORIGINAL object, EvCloneRead followed by a release
                              (EvFetchSub, possibly EvDelete); the clone is a new object whose own life is another
                              instance of this system, starting when its first handle (the temporary) exists.
                              Events of different objects touch disjoint counters, so a multi-object trace is
                              validated by projecting it onto each object.

    std::atomic is sequentially consistent here (one event per operation).  The ledger flag [cbad] is set when the
    real code would misbehave: a counter operation or a use on a destroyed object, an increment that finds zero
    (resurrection), a decrement that finds zero (underflow), a second Deleter call, or a Deleter call while handles exist.
    The thread count is the length of [threads]: arbitrary. *)
From Coq Require Import List Arith Lia Bool.
From TLXV Require Import C12.CPtr.
Import ListNotations.

Inductive pc := Idle | IncPending | DelPending.

Record thread := { held : nat; tpc : pc }.

Record cstate := {
  refcount : nat;          (* ReferenceCounter::reference_count_ *)
  destroyed : nat;         (* number of Deleter calls on the object *)
  threads : list thread;
  cbad : bool
}.

Inductive event :=
| EvCopyStart (t : nat)
| EvFetchAdd (t : nat) (old : nat)
| EvFetchSub (t : nat) (old : nat)
| EvDelete (t : nat)
| EvGive (t u : nat)
| EvUse (t : nat)
| EvCloneRead (t : nat).

Definition pc_eqb (a b : pc) : bool :=
  match a, b with Idle, Idle | IncPending, IncPending | DelPending, DelPending => true | _, _ => false end.

Definition set_thread (st : cstate) (t : nat) (th : thread) (rcnt dst : nat) (b : bool) : cstate :=
  {| refcount := rcnt; destroyed := dst; threads := upd (threads st) t th; cbad := cbad st || b |}.

(** [lstep st ev = None]: the event is not enabled in [st] (the thread cannot be there, or the value the RMW
    is said to have read is not the value of the counter). *)
Definition lstep (st : cstate) (ev : event) : option cstate :=
  match ev with
  | EvCopyStart t =>
      match nth_error (threads st) t with
      | Some th => if pc_eqb (tpc th) Idle && (1 <=? held th)
                   then Some (set_thread st t {| held := held th; tpc := IncPending |} (refcount st) (destroyed st) false)
                   else None
      | None => None
      end
  | EvFetchAdd t old =>
      match nth_error (threads st) t with
      | Some th => if pc_eqb (tpc th) IncPending && (old =? refcount st)
                   then Some (set_thread st t {| held := S (held th); tpc := Idle |} (S (refcount st)) (destroyed st)
                                         ((old =? 0) || (0 <? destroyed st)))
                   else None
      | None => None
      end
  | EvFetchSub t old =>
      match nth_error (threads st) t with
      | Some th => if pc_eqb (tpc th) Idle && (1 <=? held th) && (old =? refcount st)
                   then Some (set_thread st t {| held := held th - 1; tpc := if old =? 1 then DelPending else Idle |}
                                         (refcount st - 1) (destroyed st)
                                         ((old =? 0) || (0 <? destroyed st)))
                   else None
      | None => None
      end
  | EvDelete t =>
      match nth_error (threads st) t with
      | Some th => if pc_eqb (tpc th) DelPending
                   then Some (set_thread st t {| held := held th; tpc := Idle |} (refcount st) (S (destroyed st))
                                         ((0 <? destroyed st) || negb (refcount st =? 0)))
                   else None
      | None => None
      end
  | EvGive t u =>
      match nth_error (threads st) t, nth_error (threads st) u with
      | Some th, Some uh =>
          if pc_eqb (tpc th) Idle && (1 <=? held th) && negb (t =? u)
          then let st1 := set_thread st t {| held := held th - 1; tpc := tpc th |} (refcount st) (destroyed st) false in
               Some (set_thread st1 u {| held := S (held uh); tpc := tpc uh |} (refcount st) (destroyed st) false)
          else None
      | _, _ => None
      end
  | EvUse t | EvCloneRead t =>
      match nth_error (threads st) t with
      | Some th => if (1 <=? held th)
                   then Some (set_thread st t th (refcount st) (destroyed st) (0 <? destroyed st))
                   else None
      | None => None
      end
  end.

Fixpoint lrun (st : cstate) (tr : list event) : option cstate :=
  match tr with
  | [] => Some st
  | ev :: rest => match lstep st ev with Some st1 => lrun st1 rest | None => None end
  end.

Fixpoint sum_held (l : list thread) : nat :=
  match l with [] => 0 | th :: r => held th + sum_held r end.

(** initial states: the object exists, every thread is idle and holds [hs t] complete handles (at least one in
    total), the counter is their number *)
Definition cinit (hs : list nat) : cstate :=
  let ths := map (fun h => {| held := h; tpc := Idle |}) hs in
  {| refcount := sum_held ths; destroyed := 0; threads := ths; cbad := false |}.

(** all threads have finished: nothing held, nothing in flight *)
Definition quiescent (st : cstate) : bool :=
  forallb (fun th => (held th =? 0) && pc_eqb (tpc th) Idle) (threads st).

(** trace validation for the harness: replay the logged events; result = index of the first rejected event, or the
    final state's (refcount, destroyed, bad, quiescent) *)
Fixpoint lrun_idx (st : cstate) (tr : list event) (i : nat) : nat + cstate :=
  match tr with
  | [] => inr st
  | ev :: rest => match lstep st ev with Some st1 => lrun_idx st1 rest (S i) | None => inl i end
  end.

Definition validate (hs : list nat) (tr : list event) : nat + (nat * nat * bool * bool) :=
  match lrun_idx (cinit hs) tr 0 with
  | inl i => inl i
  | inr st => inr (refcount st, destroyed st, cbad st, quiescent st)
  end.
