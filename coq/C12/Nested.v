(** C12 — handles INSIDE managed objects: singly linked nodes
      struct Node : tlx::ReferenceCounter { tlx::CountingPtr<Node> next; };
    and [k] outer handle variables (always constructed; [None] = empty).  A member handle is a handle like any other: the
    reference count of a node is the number of outer handles plus the number of LIVE nodes whose [next] points to it.
    Releasing the last handle of a node runs its destructor, which destroys the member [next], which releases the
    successor, and so on: [release] is [dec_reference] + Deleter + ~Node, cascading through the chain (fuel = number of
    cells + 1; the theorems show it is never exhausted).

    The assignment operators are the ones of CPtr.v, here with a source that may be the member of the object being
    released ([v = w->next], [v = std::move(w->next)], with [v = w]: consuming a list from its head).  Both statement
    orders are modelled: the one committed in ccc5d47 (retarget, then release the previous object last) and the one
    shipped before (release first, read / write [other.ptr_] afterwards) as [*_shipped]; reading or writing the member of
    a destroyed node sets the ledger flag (use after free). *)
From Coq Require Import List Arith Lia Bool.
From TLXV Require Import C12.CPtr.
Import ListNotations.

Record ncell := { nrc : nat; ndc : nat; nnext : option obj }.   (* reference_count_, destructor runs, the member handle *)

Record nstate := { ncells : list ncell; nvars : list (option obj); nbad : bool }.

Definition nflag (s : nstate) (b : bool) : nstate :=
  {| ncells := ncells s; nvars := nvars s; nbad := nbad s || b |}.
Definition setcell (s : nstate) (o : obj) (c : ncell) : nstate :=
  {| ncells := upd (ncells s) o c; nvars := nvars s; nbad := nbad s |}.
Definition setvar (s : nstate) (v : var) (p : option obj) : nstate :=
  {| ncells := ncells s; nvars := upd (nvars s) v p; nbad := nbad s |}.
Definition nptr (s : nstate) (v : var) : option obj := nth v (nvars s) None.

(** [if (o) o->inc_reference();] *)
Definition ninc (s : nstate) (p : option obj) : nstate :=
  match p with
  | None => s
  | Some o =>
      match nth_error (ncells s) o with
      | Some c => setcell (nflag s (0 <? ndc c)) o {| nrc := S (nrc c); ndc := ndc c; nnext := nnext c |}
      | None => nflag s true
      end
  end.

(** [if (o && o->dec_reference()) Deleter()(o);] with [delete o] running ~Node, which destroys the member [next] *)
Fixpoint release (fuel : nat) (s : nstate) (p : option obj) : nstate :=
  match p with
  | None => s
  | Some o =>
      match fuel with
      | 0 => nflag s true
      | S f =>
          match nth_error (ncells s) o with
          | None => nflag s true
          | Some c =>
              let s' := nflag s ((0 <? ndc c) || (nrc c =? 0)) in
              if nrc c - 1 =? 0
              then release f (setcell s' o {| nrc := 0; ndc := S (ndc c); nnext := nnext c |}) (nnext c)
              else setcell s' o {| nrc := nrc c - 1; ndc := ndc c; nnext := nnext c |}
          end
      end
  end.
Definition nrelease (s : nstate) (p : option obj) : nstate := release (S (length (ncells s))) s p.

(** read / write of the member [next] of node [o]; on a destroyed node this is a use after free *)
Definition rd_next (s : nstate) (o : obj) : option obj * bool :=
  match nth_error (ncells s) o with
  | Some c => (nnext c, 0 <? ndc c)
  | None => (None, true)
  end.
Definition wr_next (s : nstate) (o : obj) (p : option obj) : nstate :=
  match nth_error (ncells s) o with
  | Some c => setcell (nflag s (0 <? ndc c)) o {| nrc := nrc c; ndc := ndc c; nnext := p |}
  | None => nflag s true
  end.

(** ** operations *)

(** [v = CountingPtr(new Node)]: temporary with count 1, move-assignment (committed order), empty temporary dies *)
Definition n_new (s : nstate) (v : var) : nstate :=
  let old := nptr s v in
  let n := length (ncells s) in
  let s1 := {| ncells := ncells s ++ [{| nrc := 1; ndc := 0; nnext := None |}]; nvars := upd (nvars s) v (Some n); nbad := nbad s |} in
  nrelease s1 old.

(** [v = w] *)
Definition n_copy (s : nstate) (v w : var) : nstate :=
  if optnat_eqb (nptr s v) (nptr s w) then s else
  let old := nptr s v in
  let s1 := setvar s v (nptr s w) in
  let s2 := ninc s1 (nptr s1 v) in
  nrelease s2 old.

Definition n_reset (s : nstate) (v : var) : nstate :=
  setvar (nrelease s (nptr s v)) v None.

(** [v->next = w]: copy-assignment to the member handle of the node [v] points to *)
Definition n_link (s : nstate) (v w : var) : nstate :=
  match nptr s v with
  | None => s
  | Some ov =>
      let '(cur, b) := rd_next s ov in
      let s0 := nflag s b in
      if optnat_eqb cur (nptr s w) then s0 else
      let s1 := wr_next s0 ov (nptr s w) in
      let s2 := ninc s1 (nptr s w) in
      nrelease s2 cur
  end.

(** [v = w->next] (committed order): [if (ptr_ == other.ptr_) return; old = ptr_; ptr_ = other.ptr_; inc_reference(ptr_); release(old);] *)
Definition n_from_next (s : nstate) (v w : var) : nstate :=
  match nptr s w with
  | None => s
  | Some ow =>
      let '(src, b) := rd_next s ow in
      let s0 := nflag s b in
      if optnat_eqb (nptr s v) src then s0 else
      let old := nptr s v in
      let s1 := setvar s0 v src in
      let s2 := ninc s1 src in
      nrelease s2 old
  end.

(** [v = std::move(w->next)] (committed order): [... old = ptr_; ptr_ = other.ptr_; other.ptr_ = nullptr; release(old);] *)
Definition n_move_next (s : nstate) (v w : var) : nstate :=
  match nptr s w with
  | None => s
  | Some ow =>
      let '(src, b) := rd_next s ow in
      let s0 := nflag s b in
      if optnat_eqb (nptr s v) src then s0 else
      let old := nptr s v in
      let s1 := setvar s0 v src in
      let s2 := wr_next s1 ow None in
      nrelease s2 old
  end.

(** the order shipped before ccc5d47 *)
(** [inc_reference(other.ptr_); dec_reference(); ptr_ = other.ptr_;] *)
Definition n_from_next_shipped (s : nstate) (v w : var) : nstate :=
  match nptr s w with
  | None => s
  | Some ow =>
      let '(src, b) := rd_next s ow in
      let s0 := nflag s b in
      if optnat_eqb (nptr s v) src then s0 else
      let s1 := ninc s0 src in
      let s2 := nrelease s1 (nptr s1 v) in
      let '(src2, b2) := rd_next s2 ow in                 (* other.ptr_ read after the release *)
      setvar (nflag s2 b2) v src2
  end.
(** [dec_reference(); ptr_ = other.ptr_; other.ptr_ = nullptr;] *)
Definition n_move_next_shipped (s : nstate) (v w : var) : nstate :=
  match nptr s w with
  | None => s
  | Some ow =>
      let '(src, b) := rd_next s ow in
      let s0 := nflag s b in
      if optnat_eqb (nptr s v) src then s0 else
      let s1 := nrelease s0 (nptr s0 v) in
      let '(src2, b2) := rd_next s1 ow in
      let s2 := setvar (nflag s1 b2) v src2 in
      wr_next s2 ow None
  end.

Inductive nop :=
| NNew (v : var)
| NCopy (v w : var)
| NReset (v : var)
| NLink (v w : var)          (* v->next = w *)
| NFromNext (v w : var)      (* v = w->next              ; with v = w: head = head->next *)
| NMoveNext (v w : var).     (* v = std::move(w->next)   ; with v = w: head = std::move(head->next) *)

Definition vin (s : nstate) (v : var) : bool := v <? length (nvars s).

(** variables exist; [->next] needs a non-empty handle (operator-> asserts it) *)
Definition npre (s : nstate) (o : nop) : bool :=
  match o with
  | NNew v | NReset v => vin s v
  | NCopy v w => vin s v && vin s w
  | NLink v w => vin s v && vin s w && match nptr s v with Some _ => true | None => false end
  | NFromNext v w | NMoveNext v w => vin s v && vin s w && match nptr s w with Some _ => true | None => false end
  end.

Definition nexec (s : nstate) (o : nop) : nstate :=
  match o with
  | NNew v => n_new s v
  | NCopy v w => n_copy s v w
  | NReset v => n_reset s v
  | NLink v w => n_link s v w
  | NFromNext v w => n_from_next s v w
  | NMoveNext v w => n_move_next s v w
  end.

Definition nstep (s : nstate) (o : nop) : nstate * bool :=
  if npre s o then (nexec s o, true) else (s, false).

Definition ninit (k : nat) : nstate := {| ncells := []; nvars := repeat None k; nbad := false |}.

Fixpoint nrun (s : nstate) (ops : list nop) : nstate :=
  match ops with [] => s | o :: t => nrun (fst (nstep s o)) t end.

(** observation for the harness: per outer variable the node and its use_count; per node destructor runs and, while
    it is alive, its successor *)
Record nobs := { no_vars : list (option (obj * nat)); no_nodes : list (nat * option obj); no_bad : bool }.
Definition nobserve (s : nstate) : nobs :=
  {| no_vars := map (fun p => match p with
                              | Some o => Some (o, match nth_error (ncells s) o with Some c => nrc c | None => 0 end)
                              | None => None end) (nvars s);
     no_nodes := map (fun c => (ndc c, if ndc c =? 0 then nnext c else None)) (ncells s);
     no_bad := nbad s |}.

Fixpoint nrun_obs (s : nstate) (ops : list nop) : list (option nobs) :=
  match ops with
  | [] => []
  | o :: t => let '(s1, done) := nstep s o in (if done then Some (nobserve s1) else None) :: nrun_obs s1 t
  end.

Fixpoint nreset_all (s : nstate) (k : nat) : nstate :=
  match k with 0 => s | S j => n_reset (nreset_all s j) j end.

Definition nrun_case (k : nat) (ops : list nop) : list (option nobs) * nobs :=
  let s0 := ninit k in
  (nrun_obs s0 ops, nobserve (nreset_all (nrun s0 ops) k)).
