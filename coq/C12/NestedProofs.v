(** C12 — proofs about the nested-handle model (Nested.v): the reference count of a node is the number of outer handles
    plus the number of live nodes whose member [next] points to it; a node is destroyed exactly once, when that number
    drops to zero, and the cascade through the members never touches a destroyed node — for every history, with the
    committed statement order.  The order shipped before is refuted by a concrete list. *)
From Coq Require Import List Arith Lia Bool.
From TLXV Require Import C12.CPtr C12.CPtrProofs C12.Nested.
Import ListNotations.

(** sums over lists *)
Fixpoint lsum {A} (f : A -> nat) (l : list A) : nat :=
  match l with [] => 0 | x :: t => f x + lsum f t end.

Lemma lsum_app {A} (f : A -> nat) l1 l2 : lsum f (l1 ++ l2) = lsum f l1 + lsum f l2.
Proof. induction l1; simpl; auto. lia. Qed.

Lemma lsum_upd {A} (f : A -> nat) l i x y :
  nth_error l i = Some x -> lsum f (upd l i y) + f x = lsum f l + f y.
Proof.
  revert i; induction l as [|a t IH]; intros [|i] H; simpl in *; try discriminate.
  - injection H as ->. lia.
  - specialize (IH i H). lia.
Qed.

Lemma lsum_nth {A} (f : A -> nat) l i x : nth_error l i = Some x -> f x <= lsum f l.
Proof.
  revert i; induction l as [|a t IH]; intros [|i] H; simpl in *; try discriminate.
  - injection H as ->. lia.
  - specialize (IH i H). lia.
Qed.

Lemma lsum_repeat {A} (f : A -> nat) x n : f x = 0 -> lsum f (repeat x n) = 0.
Proof. intros H. induction n; simpl; lia. Qed.

Lemma lsum_le_length {A} (f : A -> nat) l : (forall x, f x <= 1) -> lsum f l <= length l.
Proof. intros H. induction l as [|a t IH]; simpl; auto. specialize (H a). lia. Qed.

Definition ext (l : list (option obj)) (o : obj) : nat := lsum (fun p => ptsO p o) l.
Definition edge (o : obj) (c : ncell) : nat := if ndc c =? 0 then ptsO (nnext c) o else 0.
Definition indeg (l : list ncell) (o : obj) : nat := lsum (edge o) l.
Definition al (c : ncell) : nat := if ndc c =? 0 then 1 else 0.
Definition alive_count (l : list ncell) : nat := lsum al l.

Arguments ext : simpl never.
Arguments indeg : simpl never.
Arguments alive_count : simpl never.
Arguments edge : simpl never.
Arguments al : simpl never.

Lemma edge_alive o c : ndc c = 0 -> edge o c = ptsO (nnext c) o.
Proof. intros H. unfold edge. now rewrite H. Qed.
Lemma edge_dead o c : ndc c <> 0 -> edge o c = 0.
Proof. intros H. unfold edge. destruct (Nat.eqb_spec (ndc c) 0); [congruence|reflexivity]. Qed.
Lemma al_alive c : ndc c = 0 -> al c = 1.
Proof. intros H. unfold al. now rewrite H. Qed.
Lemma al_dead c : ndc c <> 0 -> al c = 0.
Proof. intros H. unfold al. destruct (Nat.eqb_spec (ndc c) 0); [congruence|reflexivity]. Qed.

(** handles pointing to [o]: outer variables + members of live nodes *)
Definition nhandles (s : nstate) (o : obj) : nat := ext (nvars s) o + indeg (ncells s) o.

Definition GN (s : nstate) (e : obj -> nat) : Prop :=
  nbad s = false /\
  forall o, match nth_error (ncells s) o with
            | Some c => nrc c = nhandles s o + e o /\ ndc c = (if nrc c =? 0 then 1 else 0)
            | None => nhandles s o + e o = 0
            end.

Definition NInv (s : nstate) : Prop := GN s (fun _ => 0).

Lemma nth_error_nptr s v : v < length (nvars s) -> nth_error (nvars s) v = Some (nptr s v).
Proof. intros H. unfold nptr. now apply nth_error_nth'. Qed.

Lemma GN_ext s e e' : GN s e -> (forall o, e' o = e o) -> GN s e'.
Proof. intros [Hb H] He. split; auto. intros o. rewrite He. apply H. Qed.

Lemma GN_flag_false s e : GN s e -> GN (nflag s false) e.
Proof. intros [Hb H]. split; simpl; [now rewrite Hb|exact H]. Qed.

Lemma GN_setvar s e e' v p :
  GN s e -> v < length (nvars s) ->
  (forall o, e' o + ptsO p o = e o + ptsO (nptr s v) o) ->
  GN (setvar s v p) e'.
Proof.
  intros [Hb H] Hv He. split; [exact Hb|]. intros o. simpl. unfold nhandles in *. simpl.
  pose proof (lsum_upd (fun q => ptsO q o) _ _ _ p (nth_error_nptr s v Hv)) as Hu. fold (ext (upd (nvars s) v p) o) in Hu.
  fold (ext (nvars s) o) in Hu. specialize (He o). specialize (H o).
  destruct (nth_error (ncells s) o) as [c|].
  - destruct H as [Hrc Hd]. split; auto. lia.
  - lia.
Qed.

(** an update of one cell that keeps [ndc] and [nnext] does not change any in-degree nor the number of live cells *)
Lemma indeg_upd_same l i c c' o :
  nth_error l i = Some c -> ndc c' = ndc c -> nnext c' = nnext c -> indeg (upd l i c') o = indeg l o.
Proof.
  intros Hc Hd Hn. pose proof (lsum_upd (edge o) l i c c' Hc) as Hu. unfold indeg.
  assert (edge o c' = edge o c) as E by (unfold edge; now rewrite Hd, Hn). lia.
Qed.

Lemma GN_inc s e p :
  GN s e -> (forall o, p = Some o -> 0 < nhandles s o + e o) ->
  GN (ninc s p) (fun x => e x + ptsO p x).
Proof.
  intros HG Hp. destruct p as [o|]; simpl.
  2:{ apply (GN_ext _ _ _ HG). intros; lia. }
  destruct HG as [Hb H]. pose proof (H o) as Ho. specialize (Hp o eq_refl).
  destruct (nth_error (ncells s) o) as [c|] eqn:Hc; [|lia].
  destruct Ho as [Hrc Hd].
  assert (ndc c = 0) as Hd0 by (rewrite Hd; destruct (Nat.eqb_spec (nrc c) 0); lia).
  assert (o < length (ncells s)) as Hlt by (apply nth_error_Some; congruence).
  split; simpl.
  - rewrite Hb, Hd0. reflexivity.
  - intros o'. unfold nhandles. simpl. rewrite (indeg_upd_same _ _ c) by auto.
    destruct (Nat.eq_dec o o') as [<-|Hne].
    + rewrite nth_error_upd_eq by auto. rewrite Nat.eqb_refl. simpl. unfold nhandles in Hrc. split; [rewrite Hrc; lia|exact Hd0].
    + rewrite nth_error_upd_ne by auto. destruct (Nat.eqb_spec o o'); [congruence|]. rewrite Nat.add_0_r. apply H.
Qed.

(** writing the member of a live node *)
Lemma GN_wr s e e' o c p :
  GN s e -> nth_error (ncells s) o = Some c -> ndc c = 0 ->
  (forall t, e' t + ptsO p t = e t + ptsO (nnext c) t) ->
  GN (wr_next s o p) e'.
Proof.
  intros [Hb H] Hc Hd0 He. unfold wr_next. rewrite Hc.
  assert (o < length (ncells s)) as Hlt by (apply nth_error_Some; congruence).
  split; simpl.
  - rewrite Hb, Hd0. reflexivity.
  - intros t. unfold nhandles. simpl.
    pose proof (lsum_upd (edge t) _ _ _ {| nrc := nrc c; ndc := ndc c; nnext := p |} Hc) as Hu.
    fold (indeg (upd (ncells s) o {| nrc := nrc c; ndc := ndc c; nnext := p |}) t) in Hu. fold (indeg (ncells s) t) in Hu.
    rewrite (edge_alive t c Hd0), (edge_alive t {| nrc := nrc c; ndc := ndc c; nnext := p |} Hd0) in Hu. cbn [nnext] in Hu.
    specialize (He t). specialize (H t). unfold nhandles in H.
    destruct (Nat.eq_dec o t) as [<-|Hne].
    + rewrite nth_error_upd_eq by auto. rewrite Hc in H. destruct H as [Hrc Hd]. simpl. split; auto. lia.
    + rewrite nth_error_upd_ne by auto. destruct (nth_error (ncells s) t) as [ct|].
      * destruct H as [Hrc Hd]. split; auto. lia.
      * lia.
Qed.

(** the cascade *)
Lemma GN_release fuel : forall s e e' p,
  GN s e -> (forall o, e o = e' o + ptsO p o) -> alive_count (ncells s) < fuel ->
  GN (release fuel s p) e'.
Proof.
  induction fuel as [|f IH]; intros s e e' p HG He Hfuel; [lia|].
  destruct p as [o|]; simpl.
  2:{ apply (GN_ext _ _ _ HG). intros x. rewrite He. simpl. lia. }
  pose proof HG as [Hb H]. pose proof (H o) as Ho. pose proof (He o) as Heo. simpl in Heo. rewrite Nat.eqb_refl in Heo.
  destruct (nth_error (ncells s) o) as [c|] eqn:Hc; [|lia].
  destruct Ho as [Hrc Hd].
  assert (1 <= nrc c) as Hpos by lia.
  assert (ndc c = 0) as Hd0 by (rewrite Hd; destruct (Nat.eqb_spec (nrc c) 0); lia).
  assert (o < length (ncells s)) as Hlt by (apply nth_error_Some; congruence).
  assert (((0 <? ndc c) || (nrc c =? 0)) = false) as Hfl.
  { rewrite Hd0. simpl. apply Nat.eqb_neq. lia. }
  rewrite Hfl.
  destruct (Nat.eqb_spec (nrc c - 1) 0) as [Hz|Hnz].
  - (* last handle: destroy, then release the member *)
    set (cd := {| nrc := 0; ndc := S (ndc c); nnext := nnext c |}).
    apply IH with (e := fun x => e' x + ptsO (nnext c) x).
    + split; simpl; [now rewrite Hb|].
      intros x. unfold nhandles. simpl.
      pose proof (lsum_upd (edge x) _ _ _ cd Hc) as Hu. fold (indeg (upd (ncells s) o cd) x) in Hu. fold (indeg (ncells s) x) in Hu.
      rewrite (edge_alive x c Hd0), (edge_dead x cd ltac:(unfold cd; simpl; lia)) in Hu.
      specialize (H x). unfold nhandles in H. pose proof (He x) as Hex. simpl in Hex.
      destruct (Nat.eq_dec o x) as [<-|Hne].
      * rewrite nth_error_upd_eq by auto. rewrite Hc in H. destruct H as [Hrc' _]. rewrite Nat.eqb_refl in Hex.
        unfold cd in *. cbn [nrc ndc nnext]. split; [lia|]. rewrite Hd0. reflexivity.
      * rewrite nth_error_upd_ne by auto. destruct (Nat.eqb_spec o x); [congruence|].
        destruct (nth_error (ncells s) x) as [cx|].
        -- destruct H as [Hrcx Hdx]. split; auto. lia.
        -- lia.
    + intros x. reflexivity.
    + simpl. pose proof (lsum_upd al _ _ _ cd Hc) as Hu. fold (alive_count (upd (ncells s) o cd)) in Hu.
      fold (alive_count (ncells s)) in Hu. rewrite (al_alive c Hd0), (al_dead cd ltac:(unfold cd; simpl; lia)) in Hu. lia.
  - (* other handles remain *)
    split; simpl; [now rewrite Hb|].
    intros x. unfold nhandles. simpl. rewrite (indeg_upd_same _ _ c) by auto.
    specialize (H x). unfold nhandles in H. pose proof (He x) as Hex. simpl in Hex.
    destruct (Nat.eq_dec o x) as [<-|Hne].
    + rewrite nth_error_upd_eq by auto. rewrite Hc in H. destruct H as [Hrc' _]. rewrite Nat.eqb_refl in Hex. simpl.
      split; [lia|]. rewrite Hd0. destruct (Nat.eqb_spec (nrc c - 1) 0); [lia|reflexivity].
    + rewrite nth_error_upd_ne by auto. destruct (Nat.eqb_spec o x); [congruence|]. rewrite Nat.add_0_r in Hex. rewrite <- Hex. apply H.
Qed.

Lemma alive_le_length l : alive_count l <= length l.
Proof. apply lsum_le_length. intros c. unfold al. destruct (ndc c =? 0); lia. Qed.

Lemma GN_nrelease s e e' p :
  GN s e -> (forall o, e o = e' o + ptsO p o) -> GN (nrelease s p) e'.
Proof. intros HG He. unfold nrelease. eapply GN_release; eauto. pose proof (alive_le_length (ncells s)). lia. Qed.

(** a member write happens BEFORE the count of the new target is taken ([ptr_ = other.ptr_; inc_reference(ptr_)]):
    between the two the target is one count short *)
Definition GNd (s : nstate) (e d : obj -> nat) : Prop :=
  nbad s = false /\
  forall o, match nth_error (ncells s) o with
            | Some c => nrc c + d o = nhandles s o + e o /\ ndc c = (if nrc c =? 0 then 1 else 0)
            | None => nhandles s o + e o = 0 /\ d o = 0
            end.

Lemma GNd_wr s e o c p :
  GN s e -> nth_error (ncells s) o = Some c -> ndc c = 0 ->
  (forall t, p = Some t -> nth_error (ncells s) t <> None) ->
  GNd (wr_next s o p) (fun x => e x + ptsO (nnext c) x) (ptsO p).
Proof.
  intros [Hb H] Hc Hd0 Hp. unfold wr_next. rewrite Hc.
  assert (o < length (ncells s)) as Hlt by (apply nth_error_Some; congruence).
  split; simpl.
  - rewrite Hb, Hd0. reflexivity.
  - intros t. unfold nhandles. simpl.
    pose proof (lsum_upd (edge t) _ _ _ {| nrc := nrc c; ndc := ndc c; nnext := p |} Hc) as Hu.
    fold (indeg (upd (ncells s) o {| nrc := nrc c; ndc := ndc c; nnext := p |}) t) in Hu. fold (indeg (ncells s) t) in Hu.
    rewrite (edge_alive t c Hd0), (edge_alive t {| nrc := nrc c; ndc := ndc c; nnext := p |} Hd0) in Hu. cbn [nnext] in Hu.
    specialize (H t). unfold nhandles in H.
    destruct (Nat.eq_dec o t) as [<-|Hne].
    + rewrite nth_error_upd_eq by auto. rewrite Hc in H. destruct H as [Hrc Hd]. simpl. split; auto. lia.
    + rewrite nth_error_upd_ne by auto. destruct (nth_error (ncells s) t) as [ct|] eqn:Hct.
      * destruct H as [Hrc Hd]. split; auto. lia.
      * assert (ptsO p t = 0) as Hz.
        { destruct p as [a|]; simpl; auto. destruct (Nat.eqb_spec a t); auto. subst a. exfalso. now apply (Hp t eq_refl). }
        split; lia.
Qed.

Lemma GN_ext_d s o c p :
  GN s (fun _ => 0) -> nth_error (ncells s) o = Some c -> ndc c = 0 ->
  (forall t, p = Some t -> nth_error (ncells s) t <> None) ->
  GNd (wr_next s o p) (fun x => ptsO (nnext c) x) (ptsO p).
Proof.
  intros HG Hc Hd Hp. destruct (GNd_wr s _ o c p HG Hc Hd Hp) as [Hb H]. split; auto.
Qed.

Lemma GNd_inc s e p :
  GNd s e (ptsO p) -> (forall t c, p = Some t -> nth_error (ncells s) t = Some c -> 0 < nrc c) ->
  GN (ninc s p) e.
Proof.
  intros [Hb H] Hp. destruct p as [o|]; simpl.
  2:{ split; auto. intros x. specialize (H x). simpl in H. destruct (nth_error (ncells s) x); [destruct H; split; auto; lia|lia]. }
  pose proof (H o) as Ho. simpl in Ho. rewrite Nat.eqb_refl in Ho.
  destruct (nth_error (ncells s) o) as [c|] eqn:Hc; [|lia].
  destruct Ho as [Hrc Hd]. specialize (Hp o c eq_refl Hc).
  assert (ndc c = 0) as Hd0 by (rewrite Hd; destruct (Nat.eqb_spec (nrc c) 0); lia).
  assert (o < length (ncells s)) as Hlt by (apply nth_error_Some; congruence).
  split; simpl.
  - rewrite Hb, Hd0. reflexivity.
  - intros x. unfold nhandles. simpl. rewrite (indeg_upd_same _ _ c) by auto.
    destruct (Nat.eq_dec o x) as [<-|Hne].
    + rewrite nth_error_upd_eq by auto. simpl. unfold nhandles in Hrc. split; [lia|exact Hd0].
    + rewrite nth_error_upd_ne by auto. specialize (H x). simpl in H. destruct (Nat.eqb_spec o x); [congruence|].
      unfold nhandles in H. destruct (nth_error (ncells s) x); [destruct H; split; auto; lia|lia].
Qed.

(** commutations (different components of the state) *)
Lemma ninc_setvar_comm s v p q : ninc (setvar s v p) q = setvar (ninc s q) v p.
Proof. destruct q as [o|]; simpl; auto. destruct (nth_error (ncells s) o); reflexivity. Qed.

Lemma wr_setvar_comm s v p o q : wr_next (setvar s v p) o q = setvar (wr_next s o q) v p.
Proof. unfold wr_next. simpl. destruct (nth_error (ncells s) o); reflexivity. Qed.

Lemma release_setvar_comm f : forall s v p q, release f (setvar s v p) q = setvar (release f s q) v p.
Proof.
  induction f as [|f IH]; intros s v p [o|]; simpl; auto.
  destruct (nth_error (ncells s) o) as [c|]; auto.
  destruct (nrc c - 1 =? 0); auto.
  change (setcell (nflag (setvar s v p) ((0 <? ndc c) || (nrc c =? 0))) o {| nrc := 0; ndc := S (ndc c); nnext := nnext c |})
    with (setvar (setcell (nflag s ((0 <? ndc c) || (nrc c =? 0))) o {| nrc := 0; ndc := S (ndc c); nnext := nnext c |}) v p).
  apply IH.
Qed.

Lemma nrelease_setvar_comm s v p q : nrelease (setvar s v p) q = setvar (nrelease s q) v p.
Proof. unfold nrelease. change (ncells (setvar s v p)) with (ncells s). apply release_setvar_comm. Qed.

Lemma nvars_ninc s p : nvars (ninc s p) = nvars s.
Proof. destruct p as [o|]; simpl; auto. destruct (nth_error (ncells s) o); reflexivity. Qed.
Lemma nptr_ninc s p v : nptr (ninc s p) v = nptr s v.
Proof. unfold nptr. now rewrite nvars_ninc. Qed.

(** a held node is alive *)
Lemma held_alive s e v o : GN s e -> v < length (nvars s) -> nptr s v = Some o ->
  exists c, nth_error (ncells s) o = Some c /\ ndc c = 0 /\ 0 < nhandles s o.
Proof.
  intros [_ H] Hv Hp. pose proof (lsum_nth (fun q => ptsO q o) _ _ _ (nth_error_nptr s v Hv)) as Hle.
  rewrite Hp in Hle. simpl in Hle. rewrite Nat.eqb_refl in Hle. fold (ext (nvars s) o) in Hle.
  specialize (H o). unfold nhandles in *. destruct (nth_error (ncells s) o) as [c|]; [|lia].
  exists c. destruct H as [Hrc Hd]. repeat split; auto; try lia. rewrite Hd. destruct (Nat.eqb_spec (nrc c) 0); lia.
Qed.

Lemma vin_lt s v : vin s v = true -> v < length (nvars s).
Proof. apply Nat.ltb_lt. Qed.

(** ** every operation preserves the invariant *)

Lemma n_reset_inv s v : NInv s -> v < length (nvars s) -> NInv (n_reset s v).
Proof.
  intros HI Hv. unfold n_reset. rewrite <- nrelease_setvar_comm.
  apply GN_nrelease with (e := fun x => ptsO (nptr s v) x); [|intros; lia].
  apply GN_setvar with (e := fun _ => 0); auto; intros o; simpl; lia.
Qed.

Lemma n_copy_inv s v w : NInv s -> v < length (nvars s) -> w < length (nvars s) -> NInv (n_copy s v w).
Proof.
  intros HI Hv Hw. unfold n_copy. destruct (optnat_eqb _ _); [exact HI|].
  assert (nptr (setvar s v (nptr s w)) v = nptr s w) as E by (unfold nptr; simpl; now apply nth_upd_eq).
  rewrite E, ninc_setvar_comm.
  apply GN_nrelease with (e := fun x => ptsO (nptr s v) x); [|intros; lia].
  apply GN_setvar with (e := fun x => 0 + ptsO (nptr s w) x).
  - apply GN_inc; auto. intros o Hp. destruct (held_alive _ _ _ _ HI Hw Hp) as (c & _ & _ & Hpos). lia.
  - now rewrite nvars_ninc.
  - intros o. rewrite nptr_ninc. lia.
Qed.

Lemma n_new_inv s v : NInv s -> v < length (nvars s) -> NInv (n_new s v).
Proof.
  intros HI Hv. unfold n_new.
  set (n := length (ncells s)). set (c1 := {| nrc := 1; ndc := 0; nnext := None |}).
  apply GN_nrelease with (e := fun x => ptsO (nptr s v) x); [|intros; lia].
  destruct HI as [Hb H]. split; [exact Hb|]. intros o. unfold nhandles. cbn [ncells nvars].
  pose proof (lsum_upd (fun q => ptsO q o) _ _ _ (Some n) (nth_error_nptr s v Hv)) as Hu.
  fold (ext (upd (nvars s) v (Some n)) o) in Hu. fold (ext (nvars s) o) in Hu. cbn [ptsO] in Hu.
  assert (indeg (ncells s ++ [c1]) o = indeg (ncells s) o) as Hi.
  { unfold indeg. rewrite lsum_app. assert (lsum (edge o) [c1] = 0) as -> by reflexivity. lia. }
  rewrite Hi. specialize (H o). unfold nhandles in H.
  destruct (Nat.lt_trichotomy o n) as [Hlt|[->|Hgt]].
  - rewrite nth_error_app1 by auto. destruct (Nat.eqb_spec n o); [lia|].
    destruct (nth_error (ncells s) o) as [c|]; [destruct H; split; auto; lia|lia].
  - rewrite nth_error_app2 by (unfold n; lia). unfold n at 2. rewrite Nat.sub_diag. simpl.
    replace (nth_error (ncells s) n) with (@None ncell) in H by (symmetry; apply nth_error_None; unfold n; lia).
    rewrite Nat.eqb_refl in Hu. fold n.
    pose proof (lsum_nth (fun q => ptsO q n) _ _ _ (nth_error_nptr s v Hv)) as Hle. fold (ext (nvars s) n) in Hle.
    split; [lia|reflexivity].
  - replace (nth_error (ncells s ++ [c1]) o) with (@None ncell)
      by (symmetry; apply nth_error_None; rewrite app_length; simpl; fold n; lia).
    replace (nth_error (ncells s) o) with (@None ncell) in H by (symmetry; apply nth_error_None; fold n; lia).
    destruct (Nat.eqb_spec n o); lia.
Qed.

Lemma rd_next_alive s ov c : nth_error (ncells s) ov = Some c -> ndc c = 0 -> rd_next s ov = (nnext c, false).
Proof. intros Hc Hd. unfold rd_next. rewrite Hc, Hd. reflexivity. Qed.

Lemma n_from_next_inv s v w : NInv s -> v < length (nvars s) -> w < length (nvars s) -> NInv (n_from_next s v w).
Proof.
  intros HI Hv Hw. unfold n_from_next. destruct (nptr s w) as [ow|] eqn:Hpw; [|exact HI].
  destruct (held_alive _ _ _ _ HI Hw Hpw) as (c & Hc & Hd0 & Hpos).
  rewrite (rd_next_alive _ _ _ Hc Hd0).
  pose proof (GN_flag_false _ _ HI) as HI0. set (s0 := nflag s false) in *.
  destruct (optnat_eqb _ _); [exact HI0|].
  rewrite ninc_setvar_comm.
  apply GN_nrelease with (e := fun x => ptsO (nptr s v) x); [|intros; lia].
  apply GN_setvar with (e := fun x => 0 + ptsO (nnext c) x).
  - apply GN_inc; auto. intros t Ht.
    (* the member of a live node counts as a handle of its target *)
    pose proof (lsum_nth (edge t) _ _ _ Hc) as Hle. rewrite (edge_alive t c Hd0), Ht in Hle. simpl in Hle.
    rewrite Nat.eqb_refl in Hle. unfold nhandles. fold (indeg (ncells s) t) in Hle. simpl. lia.
  - now rewrite nvars_ninc.
  - intros o. rewrite nptr_ninc. change (nptr s0 v) with (nptr s v). lia.
Qed.

Lemma nvars_wr s o p : nvars (wr_next s o p) = nvars s.
Proof. unfold wr_next. destruct (nth_error (ncells s) o); reflexivity. Qed.

Lemma n_move_next_inv s v w : NInv s -> v < length (nvars s) -> w < length (nvars s) -> NInv (n_move_next s v w).
Proof.
  intros HI Hv Hw. unfold n_move_next. destruct (nptr s w) as [ow|] eqn:Hpw; [|exact HI].
  destruct (held_alive _ _ _ _ HI Hw Hpw) as (c & Hc & Hd0 & Hpos).
  rewrite (rd_next_alive _ _ _ Hc Hd0).
  pose proof (GN_flag_false _ _ HI) as HI0. set (s0 := nflag s false) in *.
  destruct (optnat_eqb _ _); [exact HI0|].
  rewrite wr_setvar_comm.
  apply GN_nrelease with (e := fun x => ptsO (nptr s v) x); [|intros; lia].
  apply GN_setvar with (e := fun x => ptsO (nnext c) x).
  - apply (GN_wr s0 (fun _ => 0) _ ow c None HI0 Hc Hd0). intros t. simpl. lia.
  - now rewrite nvars_wr.
  - intros o. assert (nptr (wr_next s0 ow None) v = nptr s v) as E by (unfold nptr; now rewrite nvars_wr). rewrite E. lia.
Qed.

Lemma n_link_inv s v w : NInv s -> v < length (nvars s) -> w < length (nvars s) -> NInv (n_link s v w).
Proof.
  intros HI Hv Hw. unfold n_link. destruct (nptr s v) as [ov|] eqn:Hpv; [|exact HI].
  destruct (held_alive _ _ _ _ HI Hv Hpv) as (c & Hc & Hd0 & Hpos).
  rewrite (rd_next_alive _ _ _ Hc Hd0).
  pose proof (GN_flag_false _ _ HI) as HI0. set (s0 := nflag s false) in *.
  destruct (optnat_eqb _ _); [exact HI0|].
  apply GN_nrelease with (e := fun x => ptsO (nnext c) x); [|intros; lia].
  apply GNd_inc.
  - apply (GN_ext_d s0 ov c (nptr s w) HI0 Hc Hd0).
    intros t Ht. destruct (held_alive _ _ _ _ HI Hw Ht) as (ct & Hct & _). change (ncells s0) with (ncells s). congruence.
  - intros t c' Ht Hc'. destruct (held_alive _ _ _ _ HI Hw Ht) as (ct & Hct & Hdt & Hpt).
    destruct HI as [_ H]. unfold wr_next in Hc'. change (ncells s0) with (ncells s) in Hc'. rewrite Hc in Hc'. simpl in Hc'.
    destruct (Nat.eq_dec ov t) as [<-|Hne].
    + rewrite nth_error_upd_eq in Hc' by (apply nth_error_Some; congruence). injection Hc' as <-. simpl.
      specialize (H ov). rewrite Hc in H. destruct H as [Hrc _]. lia.
    + rewrite nth_error_upd_ne in Hc' by auto. specialize (H t). rewrite Hc' in H. destruct H as [Hrc _]. lia.
Qed.

Theorem nexec_inv s o : NInv s -> npre s o = true -> NInv (nexec s o).
Proof.
  intros HI Hp. destruct o; simpl in *;
    repeat match goal with
    | H : _ && _ = true |- _ => apply andb_true_iff in H; destruct H
    | H : vin _ _ = true |- _ => apply vin_lt in H
    end.
  - now apply n_new_inv.
  - now apply n_copy_inv.
  - now apply n_reset_inv.
  - now apply n_link_inv.
  - now apply n_from_next_inv.
  - now apply n_move_next_inv.
Qed.

Lemma ninit_inv k : NInv (ninit k).
Proof.
  split; [reflexivity|]. intros o. unfold nhandles, ext, indeg. simpl.
  rewrite lsum_repeat by reflexivity. destruct o; reflexivity.
Qed.

Lemma nrun_inv s ops : NInv s -> NInv (nrun s ops).
Proof.
  revert s; induction ops as [|o t IH]; intros s HI; simpl; auto.
  apply IH. unfold nstep. destruct (npre s o) eqn:Hp; simpl; auto using nexec_inv.
Qed.

(** in every reachable state: the count of every node is the number of handles pointing to it — outer variables plus
    members of live nodes —, the node has been destroyed exactly once iff that number is zero, and no step (including the
    cascades through the members) touched a destroyed node or ran out of fuel *)
Theorem nested_count_is_handles k ops o c :
  let s := nrun (ninit k) ops in
  nth_error (ncells s) o = Some c ->
  nrc c = nhandles s o /\ ndc c = (if nhandles s o =? 0 then 1 else 0) /\ nbad s = false.
Proof.
  intros s Hc. destruct (nrun_inv _ ops (ninit_inv k)) as [Hb H]. fold s in Hb, H. specialize (H o). rewrite Hc in H.
  destruct H as [Hrc Hd]. rewrite Nat.add_0_r in Hrc. rewrite <- Hrc. auto.
Qed.

(** the member handle of a live node points to a live node *)
Theorem nested_member_points_to_live k ops o c t :
  let s := nrun (ninit k) ops in
  nth_error (ncells s) o = Some c -> ndc c = 0 -> nnext c = Some t ->
  exists ct, nth_error (ncells s) t = Some ct /\ ndc ct = 0 /\ 0 < nrc ct.
Proof.
  intros s Hc Hd Hn. destruct (nrun_inv _ ops (ninit_inv k)) as [_ H]. fold s in H.
  pose proof (lsum_nth (edge t) _ _ _ Hc) as Hle. rewrite (edge_alive t c Hd), Hn in Hle. simpl in Hle.
  rewrite Nat.eqb_refl in Hle. fold (indeg (ncells s) t) in Hle.
  specialize (H t). unfold nhandles in H. destruct (nth_error (ncells s) t) as [ct|]; [|lia].
  exists ct. destruct H as [Hrc Hdt]. repeat split; auto; try lia. rewrite Hdt. destruct (Nat.eqb_spec (nrc ct) 0); lia.
Qed.

(** ** the order shipped before ccc5d47, refuted on a two-node list  v1 -> node1 -> node0 *)
Definition chain2 : nstate := nrun (ninit 2) [NNew 0; NNew 1; NLink 1 0; NReset 0].

(** head = head->next: the committed order is clean; the shipped order reads the member of the destroyed head *)
Example n_from_next_shipped_refuted :
  NInv chain2 /\
  nbad (n_from_next chain2 1 1) = false /\ nbad (n_from_next_shipped chain2 1 1) = true.
Proof. split; [apply nrun_inv, ninit_inv|]. vm_compute. auto. Qed.

(** head = std::move(head->next): the shipped order also destroys the successor and leaves the head pointing to it *)
Example n_move_next_shipped_refuted :
  let good := n_move_next chain2 1 1 in
  let shipped := n_move_next_shipped chain2 1 1 in
  nbad good = false /\ map ndc (ncells good) = [0; 1] /\ nvars good = [None; Some 0] /\
  nbad shipped = true /\ map ndc (ncells shipped) = [1; 1] /\ nvars shipped = [None; Some 0].
Proof. vm_compute. repeat split. Qed.

(** consuming a longer list from its head, node by node, and a list whose tail is shared *)
Example n_consume_list :
  let s := nrun (ninit 3) [NNew 0; NNew 1; NLink 1 0; NNew 0; NLink 0 1; NNew 1; NLink 1 0; NReset 0;
                           NCopy 2 1; NFromNext 1 1; NMoveNext 1 1; NFromNext 2 2; NMoveNext 2 2] in
  nvars s = [None; Some 1; None] /\ map nrc (ncells s) = [1; 1; 0; 0] /\ map ndc (ncells s) = [0; 0; 1; 1] /\ nbad s = false.
Proof. vm_compute. repeat split. Qed.
