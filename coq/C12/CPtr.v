(** C12 — executable model of tlx::CountingPtr / tlx::ReferenceCounter (tlx/counting_ptr.hpp), sequential part.

    Heap: a list of cells, object id = position (objects are never removed from the list; [dcount] counts the
    calls of the Deleter on the object, so "alive" is [dcount = 0]).  [rc] is ReferenceCounter::reference_count_.
    Handle variables: [Dead] = storage outside the lifetime of a CountingPtr object, [Live p] = a constructed
    CountingPtr whose [ptr_] is [p] ([None] = nullptr).

    The ledger flag [bad] is set by the primitives whenever the real code would touch a destroyed object
    (inc/dec/read of the counter of an object whose Deleter already ran), decrement a zero counter
    (the assert in ReferenceCounter::dec_reference), or follow a pointer to no object.  The theorems show that the
    flag is never set.

    Every member function is transcribed with its own control structure: same comparisons, same order of
    inc_reference / dec_reference / pointer stores.  The converting (template) overloads are separate C++
    function bodies, hence separate definitions here. *)
From Coq Require Import List Arith Lia Bool.
Import ListNotations.

Definition obj := nat.
Definition var := nat.

Record cell := { rc : nat; dcount : nat; orph : nat; val : nat }.

Inductive hnd := Dead | Live (p : option obj).

Record state := { cells : list cell; vars : list hnd; bad : bool }.

Fixpoint upd {A} (l : list A) (i : nat) (x : A) : list A :=
  match l with
  | [] => []
  | y :: t => match i with 0 => x :: t | S i' => y :: upd t i' x end
  end.

Definition optnat_eqb (a b : option nat) : bool :=
  match a, b with
  | None, None => true
  | Some x, Some y => x =? y
  | _, _ => false
  end.

Definition flag (s : state) (b : bool) : state :=
  {| cells := cells s; vars := vars s; bad := bad s || b |}.
Definition getv (s : state) (v : var) : hnd := nth v (vars s) Dead.
Definition setv (s : state) (v : var) (h : hnd) : state :=
  {| cells := cells s; vars := upd (vars s) v h; bad := bad s |}.
Definition live (s : state) (v : var) : bool :=
  match getv s v with Live _ => true | Dead => false end.
(** [ptr_] of a live variable *)
Definition ptr_of (s : state) (v : var) : option obj :=
  match getv s v with Live p => p | Dead => None end.

(** ** ReferenceCounter, reached through CountingPtr's private helpers *)

(** CountingPtr::inc_reference(Type* o): [if (o) o->inc_reference();]   ([++reference_count_])
    ([orph] is a ghost: "alive without owner because the no-operation Deleter ran"; an object that gets an owner
    (again) is no longer in that state) *)
Definition inc_reference (s : state) (p : option obj) : state :=
  match p with
  | None => s
  | Some o =>
      match nth_error (cells s) o with
      | Some c => {| cells := upd (cells s) o {| rc := S (rc c); dcount := dcount c; orph := 0; val := val c |};
                     vars := vars s;
                     bad := bad s || (0 <? dcount c) |}
      | None => flag s true
      end
  end.

(** CountingPtr::dec_reference(): [if (ptr_ && ptr_->dec_reference()) Deleter()(ptr_);]
    ReferenceCounter::dec_reference(): [assert(reference_count_ > 0); return (--reference_count_ == 0);]
    [nd] = the handle's Deleter is CountingPtrNoOperationDeleter (tlx::CountingPtrNoDelete<T>): the handle counts like
    every other one, but its Deleter call does nothing; the object stays alive without an owner ([orph] counts
    these calls; the user is responsible for such an object).  Default deleter: [delete ptr] ([dcount]). *)
Definition dec_reference (nd : bool) (s : state) (p : option obj) : state :=
  match p with
  | None => s
  | Some o =>
      match nth_error (cells s) o with
      | Some c =>
          let r := rc c - 1 in
          {| cells := upd (cells s) o
                        (if r =? 0
                         then (if nd
                               then {| rc := r; dcount := dcount c; orph := S (orph c); val := val c |}   (* no-op Deleter *)
                               else {| rc := r; dcount := S (dcount c); orph := orph c; val := val c |})  (* delete ptr_ *)
                         else {| rc := r; dcount := dcount c; orph := orph c; val := val c |});
             vars := vars s;
             bad := bad s || (0 <? dcount c) || (rc c =? 0) |}
      | None => flag s true
      end
  end.

(** [new Type(x)]: a fresh object, ReferenceCounter() starts at zero *)
Definition alloc (s : state) (x : nat) : state * obj :=
  ({| cells := cells s ++ [{| rc := 0; dcount := 0; orph := 0; val := x |}]; vars := vars s; bad := bad s |},
   length (cells s)).

(** The Deleter is part of the handle's type.  Handle variables are typed storage: [nodel v] says that variable [v]
    is a CountingPtr<T, CountingPtrNoOperationDeleter>.  Everything below is parametrised by this assignment (any
    mixture of default and no-delete handles, also on the same object). *)
Section Kinds.
Variable nodel : var -> bool.

(** ** Constructors (target variable is raw storage) *)

(** CountingPtr() and CountingPtr(nullptr_t) *)
Definition ctor_default (s : state) (v : var) : state := setv s v (Live None).
Definition ctor_nullptr (s : state) (v : var) : state := setv s v (Live None).

(** explicit CountingPtr(Type* ptr): [ptr_(ptr) { inc_reference(ptr_); }] *)
Definition ctor_raw (s : state) (v : var) (p : option obj) : state :=
  inc_reference (setv s v (Live p)) p.

(** CountingPtr(const CountingPtr& other): [ptr_(other.ptr_) { inc_reference(ptr_); }] *)
Definition copy_ctor (s : state) (v w : var) : state :=
  let p := ptr_of s w in inc_reference (setv s v (Live p)) p.
Definition conv_copy_ctor (s : state) (v w : var) : state :=
  let p := ptr_of s w in inc_reference (setv s v (Live p)) p.

(** CountingPtr(CountingPtr&& other): [ptr_(other.ptr_) { other.ptr_ = nullptr; }] *)
Definition move_ctor (s : state) (v w : var) : state :=
  let p := ptr_of s w in setv (setv s v (Live p)) w (Live None).
Definition conv_move_ctor (s : state) (v w : var) : state :=
  let p := ptr_of s w in setv (setv s v (Live p)) w (Live None).

(** ** Assignment (both variables live; [v] and [w] may be the same variable or alias one object)

    As of ccc5d47 the assignments retarget first and release the previous object last ([release(old)] is the static
    helper [if (o && o->dec_reference()) Deleter()(o)]).  The order shipped before (release first, read [other.ptr_]
    afterwards) is kept below as [*_shipped]; on the states of THIS model (managed objects hold plain data) both orders
    give the same state ([copy_assign_shipped_eq], [move_assign_shipped_eq] in CPtrProofs.v); they differ as soon as
    the source handle is a member of the object being released — see Nested.v. *)

(** operator=(const CountingPtr& other):
      [if (ptr_ == other.ptr_) return *this; Type* old = ptr_; ptr_ = other.ptr_; inc_reference(ptr_); release(old);] *)
Definition copy_assign (s : state) (v w : var) : state :=
  if optnat_eqb (ptr_of s v) (ptr_of s w) then s else
  let old := ptr_of s v in
  let s1 := setv s v (Live (ptr_of s w)) in
  let s2 := inc_reference s1 (ptr_of s1 v) in
  dec_reference (nodel v) s2 old.
Definition conv_copy_assign (s : state) (v w : var) : state :=
  if optnat_eqb (ptr_of s v) (ptr_of s w) then s else
  let old := ptr_of s v in
  let s1 := setv s v (Live (ptr_of s w)) in
  let s2 := inc_reference s1 (ptr_of s1 v) in
  dec_reference (nodel v) s2 old.

(** operator=(CountingPtr&& other):
      [if (ptr_ == other.ptr_) return *this; Type* old = ptr_; ptr_ = other.ptr_; other.ptr_ = nullptr; release(old);] *)
Definition move_assign (s : state) (v w : var) : state :=
  if optnat_eqb (ptr_of s v) (ptr_of s w) then s else
  let old := ptr_of s v in
  let s1 := setv s v (Live (ptr_of s w)) in
  let s2 := setv s1 w (Live None) in
  dec_reference (nodel v) s2 old.
Definition conv_move_assign (s : state) (v w : var) : state :=
  if optnat_eqb (ptr_of s v) (ptr_of s w) then s else
  let old := ptr_of s v in
  let s1 := setv s v (Live (ptr_of s w)) in
  let s2 := setv s1 w (Live None) in
  dec_reference (nodel v) s2 old.

(** the order shipped before ccc5d47:
      copy: [inc_reference(other.ptr_); dec_reference(); ptr_ = other.ptr_;]
      move: [dec_reference(); ptr_ = other.ptr_; other.ptr_ = nullptr;] *)
Definition copy_assign_shipped (s : state) (v w : var) : state :=
  if optnat_eqb (ptr_of s v) (ptr_of s w) then s else
  let s1 := inc_reference s (ptr_of s w) in
  let s2 := dec_reference (nodel v) s1 (ptr_of s1 v) in
  setv s2 v (Live (ptr_of s2 w)).
Definition move_assign_shipped (s : state) (v w : var) : state :=
  if optnat_eqb (ptr_of s v) (ptr_of s w) then s else
  let s1 := dec_reference (nodel v) s (ptr_of s v) in
  let s2 := setv s1 v (Live (ptr_of s1 w)) in
  setv s2 w (Live None).

(** ~CountingPtr(): [dec_reference();] — the storage is raw afterwards *)
Definition dtor_k (nd : bool) (s : state) (v : var) : state :=
  setv (dec_reference nd s (ptr_of s v)) v Dead.
Definition dtor (s : state) (v : var) : state := dtor_k (nodel v) s v.

(** reset(): [dec_reference(); ptr_ = nullptr;] *)
Definition reset (s : state) (v : var) : state :=
  setv (dec_reference (nodel v) s (ptr_of s v)) v (Live None).

(** swap(CountingPtr& b): [std::swap(ptr_, b.ptr_)] = tmp = a; a = b; b = tmp *)
Definition swap (s : state) (v w : var) : state :=
  let tmp := ptr_of s v in
  let s1 := setv s v (Live (ptr_of s w)) in
  setv s1 w (Live tmp).

(** a temporary CountingPtr lives in one extra variable appended to [vars] *)
Definition push_temp (s : state) : state :=
  {| cells := cells s; vars := vars s ++ [Dead]; bad := bad s |}.
Definition pop_temp (s : state) : state :=
  {| cells := cells s; vars := removelast (vars s); bad := bad s |}.

(** [*this = CountingPtr(new Type(x))]: temporary from raw pointer, move-assignment, ~temporary *)
Definition assign_fresh (s : state) (v : var) (x : nat) : state :=
  let t := length (vars s) in
  let '(s1, n) := alloc s x in
  let s2 := ctor_raw (push_temp s1) t (Some n) in
  let s3 := move_assign s2 v t in
  pop_temp (dtor_k (nodel v) s3 t).                 (* the temporary has the type of *this *)

(** [*this = nullptr]: implicit CountingPtr(nullptr_t) temporary, move-assignment, ~temporary *)
Definition assign_null (s : state) (v : var) : state :=
  let t := length (vars s) in
  let s2 := ctor_nullptr (push_temp s) t in
  let s3 := move_assign s2 v t in
  pop_temp (dtor_k (nodel v) s3 t).

(** unify(): [if (ptr_ && !ptr_->unique()) operator=(CountingPtr(new Type( *ptr_)));]
    (the copy of a ReferenceCounter starts at zero; the payload is copied) *)
Definition unify (s : state) (v : var) : state :=
  match ptr_of s v with
  | None => s
  | Some o =>
      match nth_error (cells s) o with
      | None => flag s true
      | Some c =>
          let s0 := flag s (0 <? dcount c) in
          if rc c =? 1 then s0 else assign_fresh s0 v (val c)
      end
  end.

(** ** Histories *)

Inductive op :=
| ONew (v : var) (x : nat)          (* new (&v) CountingPtr(new T(x))  /  make_counting<T>(x) *)
| ODefault (v : var)                (* new (&v) CountingPtr() *)
| ONullptr (v : var)                (* new (&v) CountingPtr(nullptr) *)
| OFromRaw (v w : var)              (* new (&v) CountingPtr(w.get()) — a second handle from the raw pointer *)
| OCopyCtor (v w : var)
| OConvCopyCtor (v w : var)
| OMoveCtor (v w : var)
| OConvMoveCtor (v w : var)
| OCopyAssign (v w : var)           (* v = w, including v = v *)
| OConvCopyAssign (v w : var)
| OMoveAssign (v w : var)           (* v = std::move(w), including v = std::move(v) *)
| OConvMoveAssign (v w : var)
| OAssignNew (v : var) (x : nat)    (* v = CountingPtr(new T(x)) *)
| OReset (v : var)
| OSwap (v w : var)
| OUnify (v : var)
| ODestroy (v : var)                (* v.~CountingPtr() *)
| OAdopt (v : var) (o : obj)        (* new (&v) CountingPtr(raw pointer to object o): the object may have other handles (a raw
                                       pointer adopted twice), or none any more (left alive by a no-delete handle) *)
| OAssignNull (v : var)             (* v = nullptr *)
| OObjAssign (v w : var).           (* *v = *w : assignment of the counted OBJECTS; ReferenceCounter::operator= leaves both counts alone *)

Definition in_range (s : state) (v : var) : bool := v <? length (vars s).
(** the object exists and has not been destroyed (a raw pointer to it is valid) *)
Definition alive (s : state) (o : obj) : bool :=
  match nth_error (cells s) o with Some c => dcount c =? 0 | None => false end.
Definition nonnull (s : state) (v : var) : bool :=
  match ptr_of s v with Some _ => true | None => false end.

(** Lifetime preconditions of the C++ object model (not of CountingPtr): a constructor runs on raw storage,
    everything else on constructed objects.  An operation whose precondition fails is not part of the
    history: the state is unchanged and the step reports [false]. *)
Definition pre (s : state) (o : op) : bool :=
  match o with
  | ONew v _ | ODefault v | ONullptr v => in_range s v && negb (live s v)
  | OFromRaw v w | OCopyCtor v w | OConvCopyCtor v w | OMoveCtor v w | OConvMoveCtor v w =>
      in_range s v && negb (live s v) && live s w
  | OCopyAssign v w | OConvCopyAssign v w | OMoveAssign v w | OConvMoveAssign v w | OSwap v w =>
      live s v && live s w
  | OAssignNew v _ | OReset v | OUnify v | ODestroy v | OAssignNull v => live s v
  | OAdopt v o => in_range s v && negb (live s v) && alive s o
  | OObjAssign v w => live s v && live s w && nonnull s v && nonnull s w
  end.

Definition exec (s : state) (o : op) : state :=
  match o with
  | ONew v x => let '(s1, n) := alloc s x in ctor_raw s1 v (Some n)
  | ODefault v => ctor_default s v
  | ONullptr v => ctor_nullptr s v
  | OFromRaw v w => ctor_raw s v (ptr_of s w)
  | OCopyCtor v w => copy_ctor s v w
  | OConvCopyCtor v w => conv_copy_ctor s v w
  | OMoveCtor v w => move_ctor s v w
  | OConvMoveCtor v w => conv_move_ctor s v w
  | OCopyAssign v w => copy_assign s v w
  | OConvCopyAssign v w => conv_copy_assign s v w
  | OMoveAssign v w => move_assign s v w
  | OConvMoveAssign v w => conv_move_assign s v w
  | OAssignNew v x => assign_fresh s v x
  | OReset v => reset s v
  | OSwap v w => swap s v w
  | OUnify v => unify s v
  | ODestroy v => dtor s v
  | OAdopt v o => ctor_raw s v (Some o)
  | OAssignNull v => assign_null s v
  | OObjAssign _ _ => s
  end.

Definition step (s : state) (o : op) : state * bool :=
  if pre s o then (exec s o, true) else (s, false).

Definition init (n : nat) : state := {| cells := []; vars := repeat Dead n; bad := false |}.

Fixpoint run (s : state) (ops : list op) : state :=
  match ops with
  | [] => s
  | o :: t => run (fst (step s o)) t
  end.

(** ** What the harness observes after every step *)

Inductive vobs :=
| VDead
| VNull                                   (* get() == nullptr, bool = false, unique() = false *)
| VPtr (o : obj) (use_count : nat) (unique : bool) (payload : nat).

Definition observe_var (s : state) (h : hnd) : vobs :=
  match h with
  | Dead => VDead
  | Live None => VNull
  | Live (Some o) =>
      match nth_error (cells s) o with
      | Some c => VPtr o (rc c) (rc c =? 1) (val c)          (* use_count(), unique(), get()->payload *)
      | None => VPtr o 0 false 0
      end
  end.

Record obs := { ovars : list vobs; odestroyed : list nat; oorphaned : list nat; obad : bool }.

Definition observe (s : state) : obs :=
  {| ovars := map (observe_var s) (vars s); odestroyed := map dcount (cells s); oorphaned := map orph (cells s); obad := bad s |}.

(** run with the observation after every step ([None] = step skipped, precondition failed) *)
Fixpoint run_obs (s : state) (ops : list op) : list (option obs) :=
  match ops with
  | [] => []
  | o :: t => let '(s1, done) := step s o in
              (if done then Some (observe s1) else None) :: run_obs s1 t
  end.

(** end of the scope: every variable still alive is destroyed, in index order *)
Fixpoint destroy_all (s : state) (n : nat) : state :=
  match n with
  | 0 => s
  | S k => let s1 := destroy_all s k in if live s1 k then dtor s1 k else s1
  end.
Definition finish (s : state) : state := destroy_all s (length (vars s)).

(** the extracted entry point: observations of the history, then of the final clean-up *)
Definition run_case (nvars : nat) (ops : list op) : list (option obs) * obs :=
  let s0 := init nvars in
  (run_obs s0 ops, observe (finish (run s0 ops))).

(** ** A deliberately wrong variant, to show that the ledger flag can fire:
    copy-assignment without the alias test and with the decrement first ("IMPORTANT: In case of
    self-assignment, call AFTER inc_reference()" in the source). *)
Definition copy_assign_decfirst (s : state) (v w : var) : state :=
  let s1 := dec_reference (nodel v) s (ptr_of s v) in
  let s2 := inc_reference s1 (ptr_of s1 w) in
  setv s2 v (Live (ptr_of s2 w)).

End Kinds.
