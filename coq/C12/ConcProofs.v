(** C12 — proofs about the concurrent inc/dec transition system (Conc.v): for every number of threads, every
    initial distribution of handles and every interleaving (trace accepted by [lstep]). *)
From Coq Require Import List Arith Lia Bool.
From TLXV Require Import C12.CPtr C12.CPtrProofs C12.Conc.
Import ListNotations.

Definition isdel (th : thread) : nat := match tpc th with DelPending => 1 | _ => 0 end.
Fixpoint ndel (l : list thread) : nat := match l with [] => 0 | th :: r => isdel th + ndel r end.

(** the invariant: counter = number of complete handles; Deleter calls + pending Deleter calls = [counter = 0];
    a thread in the middle of a copy still holds the handle it copies from *)
Definition CInv (st : cstate) : Prop :=
  cbad st = false /\
  refcount st = sum_held (threads st) /\
  destroyed st + ndel (threads st) = (if refcount st =? 0 then 1 else 0) /\
  (forall t th, nth_error (threads st) t = Some th -> tpc th = IncPending -> 1 <= held th).

Lemma sum_held_upd l t th th' :
  nth_error l t = Some th -> sum_held (upd l t th') + held th = sum_held l + held th'.
Proof.
  revert t; induction l as [|x r IH]; intros [|t] H; simpl in *; try discriminate.
  - injection H as ->. lia.
  - specialize (IH t H). lia.
Qed.

Lemma ndel_upd l t th th' :
  nth_error l t = Some th -> ndel (upd l t th') + isdel th = ndel l + isdel th'.
Proof.
  revert t; induction l as [|x r IH]; intros [|t] H; simpl in *; try discriminate.
  - injection H as ->. lia.
  - specialize (IH t H). lia.
Qed.

Lemma held_le_sum l t th : nth_error l t = Some th -> held th <= sum_held l.
Proof.
  revert t; induction l as [|x r IH]; intros [|t] H; simpl in *; try discriminate.
  - injection H as ->. lia.
  - specialize (IH t H). lia.
Qed.

Lemma isdel_le_ndel l t th : nth_error l t = Some th -> isdel th <= ndel l.
Proof.
  revert t; induction l as [|x r IH]; intros [|t] H; simpl in *; try discriminate.
  - injection H as ->. lia.
  - specialize (IH t H). lia.
Qed.

Lemma nth_error_upd_inv {A} (l : list A) t x t2 y :
  nth_error (upd l t x) t2 = Some y -> (t2 = t /\ y = x) \/ (t2 <> t /\ nth_error l t2 = Some y).
Proof.
  intros H. destruct (Nat.eq_dec t t2) as [<-|Hne].
  - left. destruct (Nat.lt_ge_cases t (length l)) as [Hlt|Hge].
    + rewrite nth_error_upd_eq in H by auto. injection H as <-. auto.
    + assert (nth_error (upd l t x) t = None) as Hn by (apply nth_error_None; rewrite length_upd; lia).
      congruence.
  - right. rewrite nth_error_upd_ne in H by auto. auto.
Qed.

Lemma pc_eqb_eq a b : pc_eqb a b = true -> a = b.
Proof. destruct a, b; simpl; congruence. Qed.

Ltac bools :=
  repeat match goal with
  | H : _ && _ = true |- _ => apply andb_true_iff in H; destruct H
  | H : pc_eqb _ _ = true |- _ => apply pc_eqb_eq in H
  | H : (_ <=? _) = true |- _ => apply Nat.leb_le in H
  | H : (_ =? _) = true |- _ => apply Nat.eqb_eq in H
  | H : negb _ = true |- _ => apply negb_true_iff in H
  | H : (_ =? _) = false |- _ => apply Nat.eqb_neq in H
  end.

Lemma lstep_inv st ev st' : CInv st -> lstep st ev = Some st' -> CInv st'.
Proof.
  intros (Hb & Hrc & Hd & Hinc) Hstep. destruct ev as [t|t old|t old|t|t u|t|t]; cbn [lstep] in Hstep.
  - (* EvCopyStart *)
    destruct (nth_error (threads st) t) as [th|] eqn:Hth; [|discriminate].
    destruct (pc_eqb (tpc th) Idle && (1 <=? held th)) eqn:Hc; [|discriminate]. injection Hstep as <-. bools.
    pose proof (sum_held_upd _ t th {| held := held th; tpc := IncPending |} Hth) as Hs.
    pose proof (ndel_upd _ t th {| held := held th; tpc := IncPending |} Hth) as Hn.
    unfold isdel in Hn at 1 2. rewrite H in Hn. simpl in Hs, Hn.
    repeat split; simpl; try lia.
    + rewrite Hb. reflexivity.
    + intros t2 th2 H2 Hp. apply nth_error_upd_inv in H2. destruct H2 as [[-> ->]|[_ H2]]; simpl; eauto.
  - (* EvFetchAdd *)
    destruct (nth_error (threads st) t) as [th|] eqn:Hth; [|discriminate].
    destruct (pc_eqb (tpc th) IncPending && (old =? refcount st)) eqn:Hc; [|discriminate]. injection Hstep as <-. bools.
    pose proof (Hinc t th Hth H) as Hheld. pose proof (held_le_sum _ _ _ Hth) as Hle.
    pose proof (sum_held_upd _ t th {| held := S (held th); tpc := Idle |} Hth) as Hs.
    pose proof (ndel_upd _ t th {| held := S (held th); tpc := Idle |} Hth) as Hn.
    unfold isdel in Hn at 1 2. rewrite H in Hn. simpl in Hs, Hn.
    destruct (Nat.eqb_spec (refcount st) 0) as [|Hnz]; [lia|].
    repeat split; simpl; try lia.
    + rewrite Hb. subst old. destruct (Nat.eqb_spec (refcount st) 0); [lia|].
      assert (destroyed st = 0) as -> by lia. reflexivity.
    + intros t2 th2 H2 Hp. apply nth_error_upd_inv in H2. destruct H2 as [[-> ->]|[_ H2]]; simpl in *; eauto; try discriminate.
  - (* EvFetchSub *)
    destruct (nth_error (threads st) t) as [th|] eqn:Hth; [|discriminate].
    destruct (pc_eqb (tpc th) Idle && (1 <=? held th) && (old =? refcount st)) eqn:Hc; [|discriminate].
    injection Hstep as <-. bools. pose proof (held_le_sum _ _ _ Hth) as Hle. subst old.
    destruct (Nat.eqb_spec (refcount st) 0) as [|Hnz]; [lia|].
    destruct (Nat.eqb_spec (refcount st) 1) as [Hone|Hn1].
    + pose proof (sum_held_upd _ t th {| held := held th - 1; tpc := DelPending |} Hth) as Hs.
      pose proof (ndel_upd _ t th {| held := held th - 1; tpc := DelPending |} Hth) as Hn.
      unfold isdel in Hn at 1 2. rewrite H in Hn. simpl in Hs, Hn.
      repeat split; simpl; try lia.
      * rewrite Hb. assert (destroyed st = 0) as -> by lia. reflexivity.
      * rewrite Hone. simpl. lia.
      * intros t2 th2 H2 Hp. apply nth_error_upd_inv in H2. destruct H2 as [[-> ->]|[_ H2]]; simpl in *; eauto; try discriminate.
    + pose proof (sum_held_upd _ t th {| held := held th - 1; tpc := Idle |} Hth) as Hs.
      pose proof (ndel_upd _ t th {| held := held th - 1; tpc := Idle |} Hth) as Hn.
      unfold isdel in Hn at 1 2. rewrite H in Hn. simpl in Hs, Hn.
      repeat split; simpl; try lia.
      * rewrite Hb. assert (destroyed st = 0) as -> by lia. reflexivity.
      * destruct (Nat.eqb_spec (refcount st - 1) 0); lia.
      * intros t2 th2 H2 Hp. apply nth_error_upd_inv in H2. destruct H2 as [[-> ->]|[_ H2]]; simpl in *; eauto; try discriminate.
  - (* EvDelete *)
    destruct (nth_error (threads st) t) as [th|] eqn:Hth; [|discriminate].
    destruct (pc_eqb (tpc th) DelPending) eqn:Hc; [|discriminate]. injection Hstep as <-. bools.
    pose proof (isdel_le_ndel _ _ _ Hth) as Hle. unfold isdel in Hle. rewrite Hc in Hle.
    pose proof (sum_held_upd _ t th {| held := held th; tpc := Idle |} Hth) as Hs.
    pose proof (ndel_upd _ t th {| held := held th; tpc := Idle |} Hth) as Hn.
    unfold isdel in Hn at 1 2. rewrite Hc in Hn. simpl in Hs, Hn.
    destruct (Nat.eqb_spec (refcount st) 0) as [Hz|Hnz]; [|lia].
    repeat split; simpl; try lia.
    + rewrite Hb. assert (destroyed st = 0) as -> by lia. reflexivity.
    + try rewrite Hz; simpl; lia.
    + intros t2 th2 H2 Hp. apply nth_error_upd_inv in H2. destruct H2 as [[-> ->]|[_ H2]]; simpl in *; eauto; try discriminate.
  - (* EvGive *)
    destruct (nth_error (threads st) t) as [th|] eqn:Hth; [|discriminate].
    destruct (nth_error (threads st) u) as [uh|] eqn:Huh; [|discriminate].
    destruct (pc_eqb (tpc th) Idle && (1 <=? held th) && negb (t =? u)) eqn:Hc; [|discriminate].
    injection Hstep as <-. bools.
    set (th' := {| held := held th - 1; tpc := tpc th |}). set (uh' := {| held := S (held uh); tpc := tpc uh |}).
    assert (nth_error (upd (threads st) t th') u = Some uh) as Huh' by (rewrite nth_error_upd_ne; auto).
    pose proof (sum_held_upd _ t th th' Hth) as Hs1. pose proof (sum_held_upd _ u uh uh' Huh') as Hs2.
    pose proof (ndel_upd _ t th th' Hth) as Hn1. pose proof (ndel_upd _ u uh uh' Huh') as Hn2.
    assert (isdel th' = isdel th) as Ei1 by reflexivity. assert (isdel uh' = isdel uh) as Ei2 by reflexivity.
    simpl in Hs1, Hs2.
    repeat split; simpl; try lia.
    + rewrite Hb. reflexivity.
    + intros t2 th2 H2 Hp. apply nth_error_upd_inv in H2. destruct H2 as [[-> ->]|[_ H2]].
      * simpl in *. pose proof (Hinc u uh Huh Hp). lia.
      * apply nth_error_upd_inv in H2. destruct H2 as [[-> ->]|[_ H2]]; eauto.
        simpl in Hp. congruence.
  - (* EvUse *)
    destruct (nth_error (threads st) t) as [th|] eqn:Hth; [|discriminate].
    destruct (1 <=? held th) eqn:Hc; [|discriminate]. injection Hstep as <-. bools.
    pose proof (held_le_sum _ _ _ Hth) as Hle.
    pose proof (sum_held_upd _ t th th Hth) as Hs. pose proof (ndel_upd _ t th th Hth) as Hn.
    destruct (Nat.eqb_spec (refcount st) 0) as [|Hnz]; [lia|].
    repeat split; simpl; try lia.
    + rewrite Hb. assert (destroyed st = 0) as -> by lia. reflexivity.
    + destruct (Nat.eqb_spec (refcount st) 0); lia.
    + intros t2 th2 H2 Hp. apply nth_error_upd_inv in H2. destruct H2 as [[-> ->]|[_ H2]]; eauto.
  - (* EvCloneRead *)
    destruct (nth_error (threads st) t) as [th|] eqn:Hth; [|discriminate].
    destruct (1 <=? held th) eqn:Hc; [|discriminate]. injection Hstep as <-. bools.
    pose proof (held_le_sum _ _ _ Hth) as Hle.
    pose proof (sum_held_upd _ t th th Hth) as Hs. pose proof (ndel_upd _ t th th Hth) as Hn.
    destruct (Nat.eqb_spec (refcount st) 0) as [|Hnz]; [lia|].
    repeat split; simpl; try lia.
    + rewrite Hb. assert (destroyed st = 0) as -> by lia. reflexivity.
    + destruct (Nat.eqb_spec (refcount st) 0); lia.
    + intros t2 th2 H2 Hp. apply nth_error_upd_inv in H2. destruct H2 as [[-> ->]|[_ H2]]; eauto.
Qed.

Lemma sum_held_init hs : sum_held (map (fun h => {| held := h; tpc := Idle |}) hs) = list_sum hs.
Proof. induction hs; simpl; auto. Qed.

Lemma ndel_init hs : ndel (map (fun h => {| held := h; tpc := Idle |}) hs) = 0.
Proof. induction hs; simpl; auto. Qed.

Lemma cinit_inv hs : 1 <= list_sum hs -> CInv (cinit hs).
Proof.
  intros H. unfold cinit. repeat split; simpl.
  - rewrite ndel_init, sum_held_init. destruct (Nat.eqb_spec (list_sum hs) 0); lia.
  - intros t th Hth Hp. apply nth_error_In in Hth. apply in_map_iff in Hth. destruct Hth as (h & <- & _).
    discriminate.
Qed.

Lemma lrun_inv st tr st' : CInv st -> lrun st tr = Some st' -> CInv st'.
Proof.
  revert st; induction tr as [|ev rest IH]; intros st HI H; simpl in H.
  - now injection H as <-.
  - destruct (lstep st ev) as [st1|] eqn:H1; [|discriminate]. eauto using lstep_inv.
Qed.

(** ** the statements *)

(** in every reachable state, under every interleaving and for every number of threads: *)
Theorem conc_invariant hs tr st :
  1 <= list_sum hs -> lrun (cinit hs) tr = Some st ->
  cbad st = false /\
  refcount st = sum_held (threads st) /\
  destroyed st <= 1 /\
  (destroyed st = 1 -> forall t th, nth_error (threads st) t = Some th -> held th = 0 /\ tpc th = Idle) /\
  (quiescent st = true -> destroyed st = 1).
Proof.
  intros Hs Hr. destruct (lrun_inv _ _ _ (cinit_inv hs Hs) Hr) as (Hb & Hrc & Hd & Hinc).
  repeat split; auto.
  - destruct (refcount st =? 0); lia.
  - pose proof (held_le_sum _ _ _ H0). destruct (Nat.eqb_spec (refcount st) 0); lia.
  - pose proof (held_le_sum _ _ _ H0) as Hle. pose proof (isdel_le_ndel _ _ _ H0) as Hdl.
    destruct (Nat.eqb_spec (refcount st) 0); [|lia].
    destruct (tpc th) eqn:Hp; auto.
    + pose proof (Hinc t th H0 Hp). lia.
    + unfold isdel in Hdl. rewrite Hp in Hdl. lia.
  - intros Hq. unfold quiescent in Hq. rewrite forallb_forall in Hq.
    assert (sum_held (threads st) = 0 /\ ndel (threads st) = 0) as [Hz Hn].
    { clear -Hq. induction (threads st) as [|th r IH]; simpl; auto.
      pose proof (Hq th (or_introl eq_refl)) as Hth. apply andb_true_iff in Hth. destruct Hth as [Hh Hp].
      apply Nat.eqb_eq in Hh. apply pc_eqb_eq in Hp. destruct IH as [IH1 IH2].
      { intros x Hx. apply Hq. now right. }
      unfold isdel. rewrite Hp. lia. }
    rewrite Hrc, Hz, Hn in Hd. simpl in Hd. lia.
Qed.

(** the step that destroys: a Deleter call happens only as the consequence of the decrement that read 1, it is the
    first one, and at that moment no complete handle exists anywhere *)
Theorem conc_delete_only_at_zero hs tr st t st' :
  1 <= list_sum hs -> lrun (cinit hs) tr = Some st -> lstep st (EvDelete t) = Some st' ->
  destroyed st = 0 /\ destroyed st' = 1 /\ refcount st = 0 /\ sum_held (threads st) = 0.
Proof.
  intros Hs Hr Hstep. destruct (lrun_inv _ _ _ (cinit_inv hs Hs) Hr) as (Hb & Hrc & Hd & Hinc).
  cbn [lstep] in Hstep. destruct (nth_error (threads st) t) as [th|] eqn:Hth; [|discriminate].
  destruct (pc_eqb (tpc th) DelPending) eqn:Hc; [|discriminate]. injection Hstep as <-. apply pc_eqb_eq in Hc.
  pose proof (isdel_le_ndel _ _ _ Hth) as Hle. unfold isdel in Hle. rewrite Hc in Hle. simpl.
  destruct (Nat.eqb_spec (refcount st) 0); lia.
Qed.

(** the decrement that reads 1 is the unique last release: afterwards the counter is 0 and stays 0 *)
Theorem conc_no_resurrection hs tr st t old st' :
  1 <= list_sum hs -> lrun (cinit hs) tr = Some st -> lstep st (EvFetchAdd t old) = Some st' -> 1 <= old.
Proof.
  intros Hs Hr Hstep. destruct (lrun_inv _ _ _ (cinit_inv hs Hs) Hr) as (Hb & Hrc & Hd & Hinc).
  cbn [lstep] in Hstep. destruct (nth_error (threads st) t) as [th|] eqn:Hth; [|discriminate].
  destruct (pc_eqb (tpc th) IncPending && (old =? refcount st)) eqn:Hc; [|discriminate]. bools.
  pose proof (Hinc t th Hth H). pose proof (held_le_sum _ _ _ Hth). lia.
Qed.
