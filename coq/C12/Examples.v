(** C12 — examples: the hypotheses of the theorems are satisfiable by non-trivial histories, and the ledger flag
    of the model does fire on a wrong variant of the code (so "bad = false" is not vacuous). *)
From Coq Require Import List Arith Lia Bool.
From TLXV Require Import C12.CPtr C12.CPtrProofs C12.Conc C12.ConcProofs.
Import ListNotations.

(** all variables have the default Deleter *)
Definition alldef : var -> bool := fun _ => false.
(** variable 2 is a CountingPtrNoDelete handle *)
Definition nd2 : var -> bool := fun v => v =? 2.

(** a history with three aliases, self- and alias-assignments, move from an alias, unify on a shared object *)
Definition ex_ops : list op :=
  [ONew 0 5; OCopyCtor 2 0; OConvCopyCtor 1 0; OCopyAssign 0 0; OMoveAssign 0 0; OCopyAssign 0 2; OMoveAssign 0 2;
   OUnify 0; OSwap 0 2; OReset 2; ODestroy 0; ONew 3 7; OConvMoveAssign 3 2; OFromRaw 0 1; OAssignNew 2 9; ODestroy 1].

Example ex_all_steps_execute : forallb (fun x => match x with Some _ => true | None => false end) (run_obs alldef (init 4) ex_ops) = true.
Proof. vm_compute. reflexivity. Qed.

Example ex_final_state :
  let s := run alldef (init 4) ex_ops in
  vars s = [Live (Some 0); Dead; Live (Some 3); Live None] /\
  map rc (cells s) = [1; 0; 0; 1] /\ map dcount (cells s) = [0; 1; 1; 0] /\ bad s = false.
Proof. vm_compute. auto. Qed.

(** after the three-alias prefix, unify clones: object 1 is the clone, with the payload of object 0 *)
Example ex_unify_clones :
  let s := run alldef (init 4) [ONew 0 5; OCopyCtor 2 0; OConvCopyCtor 1 0; OUnify 0] in
  vars s = [Live (Some 1); Live (Some 0); Live (Some 0); Dead] /\
  cells s = [{| rc := 2; dcount := 0; orph := 0; val := 5 |}; {| rc := 1; dcount := 0; orph := 0; val := 5 |}].
Proof. vm_compute. auto. Qed.

(** moving from an alias does NOT empty the source (early return on ptr_ == other.ptr_); the count stays right *)
Example ex_move_from_alias :
  let s := run alldef (init 2) [ONew 0 5; OCopyCtor 1 0; OMoveAssign 0 1] in
  vars s = [Live (Some 0); Live (Some 0)] /\ map rc (cells s) = [2].
Proof. vm_compute. auto. Qed.

(** the wrong variant (no alias test, decrement first) destroys the object on self-assignment and then touches it:
    the ledger flag fires *)
Example copy_assign_decfirst_refuted :
  let s := run alldef (init 1) [ONew 0 5] in
  Inv s /\ bad (copy_assign alldef s 0 0) = false /\ bad (copy_assign_decfirst alldef s 0 0) = true.
Proof. split; [apply run_inv, init_inv|]. vm_compute. auto. Qed.

(** mixed deleters on one object: a default handle (variable 0) and a no-delete handle (variable 2, made from the raw
    pointer) both count; when the default handle lets go the object stays; when the no-delete handle lets go last, the
    no-operation Deleter runs: count 0, object alive and unowned ([orph] = 1, [dcount] = 0).  In the other order the
    default handle lets go last and the object is destroyed. *)
Example ex_mixed_deleters :
  let s1 := run nd2 (init 3) [ONew 0 5; OFromRaw 2 0] in
  let s2 := run nd2 (init 3) [ONew 0 5; OFromRaw 2 0; OReset 0] in
  let s3 := run nd2 (init 3) [ONew 0 5; OFromRaw 2 0; OReset 0; OReset 2] in
  let s4 := run nd2 (init 3) [ONew 0 5; OFromRaw 2 0; OReset 2; OReset 0] in
  map rc (cells s1) = [2] /\
  cells s2 = [{| rc := 1; dcount := 0; orph := 0; val := 5 |}] /\
  cells s3 = [{| rc := 0; dcount := 0; orph := 1; val := 5 |}] /\
  cells s4 = [{| rc := 0; dcount := 1; orph := 0; val := 5 |}].
Proof. vm_compute. auto. Qed.

(** concurrent: three threads; thread 0 owns the object, copies for 1 and 2, all release in an interleaved order;
    the last decrement (reads 1) is thread 1's, which deletes *)
Definition ex_trace : list event :=
  [EvCopyStart 0; EvFetchAdd 0 1; EvGive 0 1; EvCopyStart 0; EvFetchAdd 0 2; EvGive 0 2;
   EvCopyStart 2; EvUse 1; EvFetchSub 0 3; EvFetchAdd 2 2; EvFetchSub 2 3; EvUse 2; EvFetchSub 2 2; EvFetchSub 1 1; EvDelete 1].

Example ex_trace_accepted :
  exists st, lrun (cinit [1; 0; 0]) ex_trace = Some st /\ destroyed st = 1 /\ refcount st = 0 /\ quiescent st = true /\ cbad st = false.
Proof. eexists. split; [vm_compute; reflexivity|]. auto. Qed.

(** a decrement claiming to have read a stale value is not a transition *)
Example ex_stale_read_rejected : lrun (cinit [2]) [EvFetchSub 0 1] = None.
Proof. reflexivity. Qed.

(** unify() on thread 1 while thread 0 releases: projection on the original object; whichever of the two decrements
    reads 1 runs the Deleter *)
Example ex_unify_race_original :
  exists st, lrun (cinit [1; 1]) [EvCloneRead 1; EvFetchSub 0 2; EvFetchSub 1 1; EvDelete 1] = Some st /\
             destroyed st = 1 /\ quiescent st = true /\ cbad st = false.
Proof. eexists. split; [vm_compute; reflexivity|]. auto. Qed.

(** adoption of raw pointers: twice on a managed object; of an object left alive by a no-delete handle (variable 2),
    which the default handle then destroys; [= nullptr]; assignment of the counted objects leaves the counts alone *)
Example ex_adopt_and_assign_null :
  let s1 := run nd2 (init 3) [ONew 0 5; OAdopt 1 0] in
  let s2 := run nd2 (init 3) [ONew 2 5; OReset 2] in
  let s3 := run nd2 (init 3) [ONew 2 5; OReset 2; OAdopt 0 0] in
  let s4 := run nd2 (init 3) [ONew 2 5; OReset 2; OAdopt 0 0; OAssignNull 0] in
  let s5 := run nd2 (init 3) [ONew 0 5; OAdopt 1 0; ONew 2 6; OObjAssign 0 2] in
  map rc (cells s1) = [2] /\
  cells s2 = [{| rc := 0; dcount := 0; orph := 1; val := 5 |}] /\
  cells s3 = [{| rc := 1; dcount := 0; orph := 0; val := 5 |}] /\
  cells s4 = [{| rc := 0; dcount := 1; orph := 0; val := 5 |}] /\ vars s4 = [Live None; Dead; Live None] /\
  map rc (cells s5) = [2; 1].
Proof. vm_compute. repeat split. Qed.
