(** C11 — the direct trace checker [sem_check] never rejects a trace of the Semaphore transition system:
    every event list accepted by [lstep] (any variant) from a well-formed state passes the checker started in
    the corresponding checker state.  (The converse direction is the point of running the checker on REAL
    traces: it re-derives the verdict from the calls and returned values alone.) *)
From Coq Require Import List Arith Bool Lia.
From TLXV Require Import C11.Ev C11.Sem C11.SemProofs.
Import ListNotations.

(** tokens a signaller has already added to value_ but whose critical section is not yet closed *)
Definition pendadd (s : state) : nat :=
  match owner s with
  | Some u => match pc (thr s u), prog (thr s u) with
              | Posted, CSignal :: _ => 1
              | Posted, CSignalN n :: _ => n
              | _, _ => 0
              end
  | None => 0
  end.

Definition pend_of (s : state) (t : nat) : option nat :=
  match pc (thr s t) with Ret x => Some x | _ => None end.

Definition posted_ok (s : state) : Prop :=
  forall t, pc (thr s t) = Posted ->
            exists c r, prog (thr s t) = c :: r /\ (c = CSignal \/ exists n, c = CSignalN n).

Record Rel (s : state) (v : nat) (progs : nat -> list call) (pend : nat -> option nat) : Prop := mkRel {
  r_val : v + pendadd s = value s;
  r_prog : forall t, progs t = prog (thr s t);
  r_pend : forall t, pend t = pend_of s t;
  r_posted : posted_ok s
}.

Lemma owner_pc : forall n s t, WF n s -> owner s = Some t -> pc (thr s t) = Locked \/ pc (thr s t) = Posted.
Proof. intros n s t [W _] H. destruct (W t) as ((W1 & _) & _). auto. Qed.

Lemma pc_owner : forall n s t, WF n s -> pc (thr s t) = Locked \/ pc (thr s t) = Posted -> owner s = Some t.
Proof. intros n s t [W _] H. destruct (W t) as ((_ & W1) & _). auto. Qed.

Lemma rel_skip : forall s s1 v progs pend,
  Rel s v progs pend -> value s1 = value s -> pendadd s1 = pendadd s ->
  (forall u, prog (thr s1 u) = prog (thr s u)) -> (forall u, pend_of s1 u = pend_of s u) ->
  posted_ok s1 -> Rel s1 v progs pend.
Proof.
  intros s s1 v progs pend [Rv Rp Rpe Rpo] Hv Hp Hpr Hpe Hpo. constructor; auto.
  - now rewrite Hp, Hv.
  - intros u. now rewrite Rp, Hpr.
  - intros u. now rewrite Rpe, Hpe.
Qed.

(* pendadd when the owner's thread is untouched / when the owner is not in state Posted *)
Lemma pendadd_other : forall v1 v2 o sl1 sl2 th t x g1 g2 s1 s2 u,
  o = Some u -> u <> t ->
  pendadd (mkS v1 o sl1 (upd th t x) g1 s1) = pendadd (mkS v2 o sl2 th g2 s2).
Proof. intros. subst o. unfold pendadd. cbn. now rewrite upd_other. Qed.

Lemma pendadd_none : forall s, owner s = None -> pendadd s = 0.
Proof. intros s H. unfold pendadd. now rewrite H. Qed.

Lemma pendadd_notposted : forall s t, owner s = Some t -> pc (thr s t) <> Posted -> pendadd s = 0.
Proof. intros s t H Hp. unfold pendadd. rewrite H. destruct (pc (thr s t)); try reflexivity. congruence. Qed.

Ltac posted_tac R t :=
  let u := fresh "u" in let Hu := fresh "Hu" in
  intros u; cbn [thr]; upd_case u t; cbn [pc prog]; intros Hu; try discriminate Hu;
  try (apply (r_posted _ _ _ _ R); assumption); eauto 8.

Ltac prog_tac t := let u := fresh "u" in intros u; cbn [thr]; upd_case u t; cbn [pc prog]; congruence.
Ltac pend_tac t Heqp :=
  let u := fresh "u" in intros u; unfold pend_of; cbn [thr]; upd_case u t; cbn [pc prog]; try rewrite Heqp; reflexivity.

Lemma sem_check_accepts_model_step : forall shipped spur n s e s1 v progs pend,
  WF n s -> Rel s v progs pend -> lstep shipped spur s e = Some s1 ->
  exists v1 progs1 pend1,
    Rel s1 v1 progs1 pend1 /\
    forall r, sem_check v progs pend (e :: r) = sem_check v1 progs1 pend1 r.
Proof.
  intros shipped spur n s [t o] s1 v progs pend W R H.
  pose proof (pc_owner n s t W) as PO.
  assert (OT : forall u, owner s = Some u -> pc (thr s u) = Locked \/ pc (thr s u) = Posted)
    by (intros u Hu; eapply owner_pc; eauto).
  assert (PA : forall u, owner s = Some u -> u <> t ->
               forall v1 sl1 x g1 s1',
               pendadd (mkS v1 (owner s) sl1 (upd (thr s) t x) g1 s1') = pendadd s).
  { intros u Hu Hne v1 sl1 x g1 s1'. destruct s as [sv so ssl sth sg ss]. cbn in *.
    eapply pendadd_other; eauto. }
  (* owner unchanged, thread t (not the owner) changes *)
  assert (PB : pc (thr s t) <> Locked -> pc (thr s t) <> Posted ->
               forall v1 sl1 x g1 s1',
               pendadd (mkS v1 (owner s) sl1 (upd (thr s) t x) g1 s1') = pendadd s).
  { intros N1 N2 v1 sl1 x g1 s1'. destruct (owner s) as [u|] eqn:Ho.
    - destruct (Nat.eq_dec u t) as [->|Hne]; [destruct (OT t eq_refl); congruence|].
      eapply PA; eauto.
    - rewrite pendadd_none by reflexivity. now rewrite pendadd_none. }
  assert (P0 : pc (thr s t) = Locked -> pendadd s = 0).
  { intros HL. apply (pendadd_notposted s t); [apply PO; auto|congruence]. }
  step_inv H.
  - (* OLock *)
    exists v, progs, pend. split; [|intros r; reflexivity].
    apply (rel_skip s); auto.
    + rewrite (pendadd_none s) by assumption.
      apply (pendadd_notposted _ t); cbn [owner thr]; auto. rewrite upd_same. cbn. discriminate.
    + prog_tac t.
    + pend_tac t Heqp.
    + posted_tac R t.
  - (* OEnd *)
    exists v, progs, pend. split; [|intros r; reflexivity].
    apply (rel_skip s); auto.
    + apply PB; congruence.
    + prog_tac t.
    + pend_tac t Heqp.
    + posted_tac R t.
  - (* OUnlock: wait returns *)
    apply Nat.leb_le in Heqb.
    pose proof (r_val _ _ _ _ R) as Rv. rewrite (P0 eq_refl) in Rv.
    exists (v - delta), (upd progs t l), (upd pend t (Some (v - delta))). split.
    + constructor.
      * rewrite pendadd_none by reflexivity. cbn [value]. lia.
      * intros u. cbn [thr]. upd_case u t; cbn [prog]; [reflexivity|apply (r_prog _ _ _ _ R)].
      * intros u. unfold pend_of at 1. cbn [thr]. upd_case u t; cbn [pc]; [f_equal; lia|apply (r_pend _ _ _ _ R)].
      * posted_tac R t.
    + intros r. cbn [sem_check]. rewrite (r_prog _ _ _ _ R), Heql.
      replace (delta + slack <=? v) with true by (symmetry; apply Nat.leb_le; lia). reflexivity.
  - (* OUnlock: try_acquire succeeds *)
    apply Nat.leb_le in Heqb.
    pose proof (r_val _ _ _ _ R) as Rv. rewrite (P0 eq_refl) in Rv.
    exists (v - delta), (upd progs t l), (upd pend t (Some 1)). split.
    + constructor.
      * rewrite pendadd_none by reflexivity. cbn [value]. lia.
      * intros u. cbn [thr]. upd_case u t; cbn [prog]; [reflexivity|apply (r_prog _ _ _ _ R)].
      * intros u. unfold pend_of at 1. cbn [thr]. upd_case u t; cbn [pc]; [reflexivity|apply (r_pend _ _ _ _ R)].
      * posted_tac R t.
    + intros r. cbn [sem_check]. rewrite (r_prog _ _ _ _ R), Heql.
      replace (delta + slack <=? v) with true by (symmetry; apply Nat.leb_le; lia). reflexivity.
  - (* OUnlock: try_acquire fails *)
    apply Nat.leb_gt in Heqb.
    pose proof (r_val _ _ _ _ R) as Rv. rewrite (P0 eq_refl) in Rv.
    exists v, (upd progs t l), (upd pend t (Some 0)). split.
    + constructor.
      * rewrite pendadd_none by reflexivity. cbn [value]. lia.
      * intros u. cbn [thr]. upd_case u t; cbn [prog]; [reflexivity|apply (r_prog _ _ _ _ R)].
      * intros u. unfold pend_of at 1. cbn [thr]. upd_case u t; cbn [pc]; [reflexivity|apply (r_pend _ _ _ _ R)].
      * posted_tac R t.
    + intros r. cbn [sem_check]. rewrite (r_prog _ _ _ _ R), Heql.
      replace (delta + slack <=? v) with false by (symmetry; apply Nat.leb_gt; lia). reflexivity.
  - (* OWaitB *)
    exists v, progs, pend. split; [|intros r; reflexivity].
    apply (rel_skip s); auto.
    + rewrite (P0 eq_refl). now apply pendadd_none.
    + prog_tac t.
    + pend_tac t Heqp.
    + posted_tac R t.
  - (* ONotifyOne (Some u): shipped signal() *)
    pose proof (r_val _ _ _ _ R) as Rv. rewrite (P0 eq_refl) in Rv.
    exists v, progs, pend. split; [|intros r; reflexivity].
    constructor.
    + unfold pendadd. cbn [owner thr value]. rewrite (PO (or_introl eq_refl)). rewrite upd_same. cbn [pc prog]. lia.
    + intros u. rewrite (r_prog _ _ _ _ R). cbn [thr]. upd_case u t; cbn [prog]; congruence.
    + intros u. rewrite (r_pend _ _ _ _ R). unfold pend_of. cbn [thr]. upd_case u t; cbn [pc]; try rewrite Heqp; reflexivity.
    + posted_tac R t.
  - (* ONotifyOne None *)
    pose proof (r_val _ _ _ _ R) as Rv. rewrite (P0 eq_refl) in Rv.
    exists v, progs, pend. split; [|intros r; reflexivity].
    constructor.
    + unfold pendadd. cbn [owner thr value]. rewrite (PO (or_introl eq_refl)). rewrite upd_same. cbn [pc prog]. lia.
    + intros u. rewrite (r_prog _ _ _ _ R). cbn [thr]. upd_case u t; cbn [prog]; congruence.
    + intros u. rewrite (r_pend _ _ _ _ R). unfold pend_of. cbn [thr]. upd_case u t; cbn [pc]; try rewrite Heqp; reflexivity.
    + posted_tac R t.
  - (* ONotifyAll: repaired signal() *)
    pose proof (r_val _ _ _ _ R) as Rv. rewrite (P0 eq_refl) in Rv.
    exists v, progs, pend. split; [|intros r; reflexivity].
    constructor.
    + unfold pendadd. cbn [owner thr value]. rewrite (PO (or_introl eq_refl)). rewrite upd_same. cbn [pc prog]. lia.
    + intros u. rewrite (r_prog _ _ _ _ R). cbn [thr]. upd_case u t; cbn [prog]; congruence.
    + intros u. rewrite (r_pend _ _ _ _ R). unfold pend_of. cbn [thr]. upd_case u t; cbn [pc]; try rewrite Heqp; reflexivity.
    + posted_tac R t.
  - (* ONotifyAll: signal(n) *)
    pose proof (r_val _ _ _ _ R) as Rv. rewrite (P0 eq_refl) in Rv.
    exists v, progs, pend. split; [|intros r; reflexivity].
    constructor.
    + unfold pendadd. cbn [owner thr value]. rewrite (PO (or_introl eq_refl)). rewrite upd_same. cbn [pc prog]. lia.
    + intros u. rewrite (r_prog _ _ _ _ R). cbn [thr]. upd_case u t; cbn [prog]; congruence.
    + intros u. rewrite (r_pend _ _ _ _ R). unfold pend_of. cbn [thr]. upd_case u t; cbn [pc]; try rewrite Heqp; reflexivity.
    + posted_tac R t.
  - (* OUnlock after a signal *)
    pose proof (r_val _ _ _ _ R) as Rv.
    destruct (r_posted _ _ _ _ R t Heqp) as (c0 & r0 & E0 & Hc0).
    rewrite Heql in E0. inversion E0; subst c0 r0; clear E0.
    unfold pendadd in Rv. rewrite (PO (or_intror eq_refl)), Heqp, Heql in Rv.
    destruct Hc0 as [->|(k & ->)].
    + exists (v + 1), (upd progs t l), (upd pend t (Some (v + 1))). split.
      * constructor.
        -- rewrite pendadd_none by reflexivity. cbn [value]. lia.
        -- intros u. cbn [thr]. upd_case u t; cbn [prog]; [reflexivity|apply (r_prog _ _ _ _ R)].
        -- intros u. unfold pend_of at 1. cbn [thr]. upd_case u t; cbn [pc]; [f_equal; lia|apply (r_pend _ _ _ _ R)].
        -- posted_tac R t.
      * intros r. cbn [sem_check]. rewrite (r_prog _ _ _ _ R), Heql. reflexivity.
    + exists (v + k), (upd progs t l), (upd pend t (Some (v + k))). split.
      * constructor.
        -- rewrite pendadd_none by reflexivity. cbn [value]. lia.
        -- intros u. cbn [thr]. upd_case u t; cbn [prog]; [reflexivity|apply (r_prog _ _ _ _ R)].
        -- intros u. unfold pend_of at 1. cbn [thr]. upd_case u t; cbn [pc]; [f_equal; lia|apply (r_pend _ _ _ _ R)].
        -- posted_tac R t.
      * intros r. cbn [sem_check]. rewrite (r_prog _ _ _ _ R), Heql. reflexivity.
  - (* OWaitE spurious *)
    exists v, progs, pend. split; [|intros r; reflexivity].
    apply (rel_skip s); auto.
    + rewrite (pendadd_none s) by assumption.
      apply (pendadd_notposted _ t); cbn [owner thr]; auto. rewrite upd_same. cbn. discriminate.
    + prog_tac t.
    + pend_tac t Heqp.
    + posted_tac R t.
  - (* OWaitE *)
    exists v, progs, pend. split; [|intros r; reflexivity].
    apply (rel_skip s); auto.
    + rewrite (pendadd_none s) by assumption.
      apply (pendadd_notposted _ t); cbn [owner thr]; auto. rewrite upd_same. cbn. discriminate.
    + prog_tac t.
    + pend_tac t Heqp.
    + posted_tac R t.
  - (* ORet *)
    apply Nat.eqb_eq in Heqb. subst v0.
    exists v, progs, (upd pend t None). split.
    + constructor.
      * rewrite PB by congruence. apply (r_val _ _ _ _ R).
      * intros u. rewrite (r_prog _ _ _ _ R). cbn [thr]. upd_case u t; cbn [prog]; reflexivity.
      * intros u. unfold pend_of at 1. cbn [thr]. upd_case u t; cbn [pc]; [reflexivity|apply (r_pend _ _ _ _ R)].
      * posted_tac R t.
    + intros r. cbn [sem_check]. rewrite (r_pend _ _ _ _ R). unfold pend_of. rewrite Heqp.
      now rewrite Nat.eqb_refl.
Qed.

Lemma sem_check_accepts_model_run : forall shipped spur n tr s s1 v progs pend,
  WF n s -> Rel s v progs pend -> srun shipped spur s tr = Some s1 ->
  sem_check v progs pend tr = true.
Proof.
  intros shipped spur n. induction tr as [|e r IH]; intros s s1 v progs pend W R H.
  - reflexivity.
  - unfold srun in H. cbn [run] in H. destruct (lstep shipped spur s e) as [s'|] eqn:E; [|discriminate].
    destruct (sem_check_accepts_model_step _ _ _ _ _ _ _ _ _ W R E) as (v1 & p1 & q1 & R1 & Eq).
    rewrite Eq. apply (IH s' s1 v1 p1 q1); [eapply WF_step; eauto | exact R1 | exact H].
Qed.

(** Every trace of the Semaphore transition system (any variant, any interleaving) from the initial state
    passes the direct checker: the checker's verdict on a real trace can only be negative if the real code left
    the model -- returned a value that does not conserve tokens, or let a wait return below its threshold. *)
Theorem sem_check_accepts_model : forall shipped spur initial progs tr s,
  srun shipped spur (init initial progs) tr = Some s -> sem_check0 initial progs tr = true.
Proof.
  intros shipped spur initial progs tr s H. unfold sem_check0.
  eapply sem_check_accepts_model_run; [apply WF_init| |exact H].
  constructor.
  - rewrite pendadd_none by reflexivity. cbn. lia.
  - intros t. cbn. destruct (nth_error progs t) eqn:E; cbn.
    + now apply nth_error_nth.
    + apply nth_error_None in E. now apply nth_overflow.
  - intros t. unfold pend_of. cbn. destruct (nth_error progs t); reflexivity.
  - intros t Ht. cbn in Ht. destruct (nth_error progs t); discriminate.
Qed.
