(** C11 — proofs about the ThreadBarrierSpin transition system (BarSpin.v): every n >= 1, any number of
    generations, all interleavings (atomics sequentially consistent). *)
From Coq Require Import List Arith Bool Lia.
From TLXV Require Import C11.Ev C11.BarSpin.
Import ListNotations.

Ltac upd_case u t :=
  destruct (Nat.eq_dec u t) as [->|?];
  [rewrite ?upd_same in * | rewrite ?upd_other in * by assumption].

Ltac sstep_inv H :=
  unfold sstep, sset_thr in H; destruct_matches H; inversion H; subst; clear H.

Ltac boolprops :=
  repeat match goal with
         | H : (_ <? _) = true |- _ => apply Nat.ltb_lt in H
         | H : (_ <? _) = false |- _ => apply Nat.ltb_ge in H
         | H : (_ =? _) = true |- _ => apply Nat.eqb_eq in H
         | H : (_ =? _) = false |- _ => apply Nat.eqb_neq in H
         | H : _ && _ = true |- _ => apply andb_prop in H; destruct H
         end.

(** pigeonhole *)
Lemma pigeon_full : forall n l,
  NoDup l -> (forall u, In u l -> u < n) -> n <= length l -> forall u, u < n -> In u l.
Proof.
  intros n l ND Hlt Hlen u Hu.
  assert (I : incl (seq 0 n) l).
  { apply NoDup_length_incl; auto.
    - now rewrite seq_length.
    - intros x Hx. apply in_seq. specialize (Hlt x Hx). lia. }
  apply I. apply in_seq. lia.
Qed.

Lemma pigeon_room : forall n l t,
  NoDup l -> (forall u, In u l -> u < n) -> t < n -> ~ In t l -> length l < n.
Proof.
  intros n l t ND Hlt Ht Hnt.
  destruct (Nat.lt_ge_cases (length l) n) as [H|H]; auto.
  exfalso. apply Hnt. eapply pigeon_full; eauto.
Qed.

Definition lastb (p : spcT) : bool := match p with SLastA | SLastB | SLastC => true | _ => false end.
Definition spinb (p : spcT) : bool := match p with SSpin | SYield => true | _ => false end.

Definition tinvS (s : sstate) (K : nat) (u : nat) : Prop :=
  let th := sthr s u in
  sgen th + sleft th = K /\
  match spc th with
  | SIdle => sgen th = sstp s
  | SLeaving => sgen th = sstp s /\ 1 <= sgen th
  | SDone => sgen th = sstp s /\ sleft th = 0
  | SEntered => sgen th = sstp s /\ 1 <= sleft th
  | SLoaded => sgen th = sstp s /\ 1 <= sleft th /\ tstep th = sstp s
  | SSpin | SYield =>
      1 <= sleft th /\
      ((tstep th = sstp s /\ sgen th = sstp s) \/ (tstep th + 1 = sstp s /\ sgen th + 1 = sstp s))
  | SLastA | SLastB | SLastC => 1 <= sleft th /\ tstep th = sstp s /\ sgen th = sstp s
  end.

Record SInv (gens : list nat) (s : sstate) : Prop := mkSInv {
  j_n : sn s = length gens;
  j_n1 : 1 <= sn s;
  j_nodup : NoDup (sarrived s);
  j_arr : forall u, In u (sarrived s) <->
                    (u < sn s /\ ((spinb (spc (sthr s u)) = true /\ tstep (sthr s u) = sstp s) \/
                                  lastb (spc (sthr s u)) = true));
  j_collect : length (sarrived s) < sn s ->
              waiting s = length (sarrived s) /\ length (sacts s) = sstp s;
  j_last : forall u, lastb (spc (sthr s u)) = true ->
                     length (sarrived s) = sn s /\ (exists l, sarrived s = u :: l) /\
                     waiting s = (match spc (sthr s u) with SLastA => sn s | _ => 0 end) /\
                     length (sacts s) = (match spc (sthr s u) with SLastC => sstp s + 1 | _ => sstp s end);
  j_exlast : sn s <= length (sarrived s) -> exists v, lastb (spc (sthr s v)) = true;
  j_uniq : forall u v, lastb (spc (sthr s u)) = true -> lastb (spc (sthr s v)) = true -> u = v;
  j_thr : forall u, u < sn s -> tinvS s (nth u gens 0) u;
  j_above : forall u, sn s <= u -> sthr s u = mkST SDone 0 0 0;
  j_acts : map snd (sacts s) = rev (seq 0 (length (sacts s)))
}.

Lemma SInv_init : forall y gens, 1 <= length gens -> SInv gens (sinit (length gens) y gens).
Proof.
  intros y gens Hn. constructor; cbn.
  - reflexivity.
  - exact Hn.
  - constructor.
  - intros u. split; [tauto|]. intros (Hu & [(Hw & _)|Hw]);
      destruct (nth_error gens u); cbn in Hw; discriminate.
  - auto.
  - intros u Hu. destruct (nth_error gens u); cbn in Hu; discriminate.
  - lia.
  - intros u v Hu. destruct (nth_error gens u); cbn in Hu; discriminate.
  - intros u Hu. unfold tinvS; cbn.
    destruct (nth_error gens u) eqn:E; cbn.
    + rewrite (nth_error_nth _ _ _ E). lia.
    + apply nth_error_None in E. lia.
  - intros u Hu. apply nth_error_None in Hu. now rewrite Hu.
  - reflexivity.
Qed.

Lemma SInv_step : forall gens s e s', SInv gens s -> sstep s e = Some s' -> SInv gens s'.
Proof.
  intros gens s [t o] s' I H.
  destruct I as [Jn Jn1 Jnd Jarr Jcol Jlast Jex Juniq Jthr Jab Jacts].
  destruct (Nat.lt_ge_cases t (sn s)) as [Ht|Ht].
  2: { unfold sstep in H. rewrite (Jab t Ht) in H. cbn in H. destruct o; discriminate. }
  pose proof (Jthr t Ht) as Tt. pose proof (Jarr t) as At. pose proof (Jlast t) as Lt.
  unfold tinvS in Tt. sstep_inv H; boolprops; cbn in Tt, At, Lt.
  all: constructor; cbn; auto.
  all: try solve [ intros u Hu; upd_case u t; [lia | auto] ].
  all: try solve [ intros u; specialize (Jarr u); upd_case u t; cbn;
                   intuition (try congruence; try lia) ].
  all: try solve [ intros u Hu; specialize (Jthr u Hu); unfold tinvS in *; cbn; upd_case u t; cbn;
                   [ intuition lia | exact Jthr ] ].
  all: try solve [ intros u Hu; upd_case u t; cbn in *; [ try discriminate; intuition | auto ] ].
  all: try solve [ intros Hex; destruct (Jex Hex) as (v' & Hv'); exists v'; upd_case v' t; cbn; auto;
                   rewrite Heqs0 in Hv'; discriminate ].
  all: try solve [ intros Hex; exists t; rewrite upd_same; reflexivity ].
  all: try solve [ intros u1 u2 Hu1 Hu2; upd_case u1 t; upd_case u2 t; cbn in *; try discriminate; auto;
                   try (apply Juniq; auto; fail) ].
  (* --- SLoaded / fetch_add on waiting_: the arrival; becomes the last arriver *)
  - constructor; auto. intros Hc. apply At in Hc. destruct Hc as (_ & [(Hc & _)|Hc]); discriminate.
  - assert (Room : length (sarrived s) < sn s).
    { apply (pigeon_room (sn s) (sarrived s) t); auto.
      - intros u Hu. apply Jarr in Hu. tauto.
      - intros Hc. apply At in Hc. destruct Hc as (_ & [(Hc & _)|Hc]); discriminate. }
    destruct (Jcol Room). intros _. lia.
  - assert (Room : length (sarrived s) < sn s).
    { apply (pigeon_room (sn s) (sarrived s) t); auto.
      - intros u Hu. apply Jarr in Hu. tauto.
      - intros Hc. apply At in Hc. destruct Hc as (_ & [(Hc & _)|Hc]); discriminate. }
    destruct (Jcol Room). intros u Hu. upd_case u t; cbn in *.
    + split; [lia|]. split; [eauto|]. split; lia.
    + apply Jlast in Hu. lia.
  - assert (Room : length (sarrived s) < sn s).
    { apply (pigeon_room (sn s) (sarrived s) t); auto.
      - intros u Hu. apply Jarr in Hu. tauto.
      - intros Hc. apply At in Hc. destruct Hc as (_ & [(Hc & _)|Hc]); discriminate. }
    intros u1 u2 Hu1 Hu2. upd_case u1 t; upd_case u2 t; cbn in *; auto;
      try (apply Jlast in Hu1; lia); try (apply Jlast in Hu2; lia).
  (* --- SLoaded / fetch_add on waiting_: not the last *)
  - constructor; auto. intros Hc. apply At in Hc. destruct Hc as (_ & [(Hc & _)|Hc]); discriminate.
  - assert (Room : length (sarrived s) < sn s).
    { apply (pigeon_room (sn s) (sarrived s) t); auto.
      - intros u Hu. apply Jarr in Hu. tauto.
      - intros Hc. apply At in Hc. destruct Hc as (_ & [(Hc & _)|Hc]); discriminate. }
    destruct (Jcol Room). intros _. lia.
  - assert (Room : length (sarrived s) < sn s).
    { apply (pigeon_room (sn s) (sarrived s) t); auto.
      - intros u Hu. apply Jarr in Hu. tauto.
      - intros Hc. apply At in Hc. destruct Hc as (_ & [(Hc & _)|Hc]); discriminate. }
    intros u Hu. upd_case u t; cbn in *; [discriminate|]. apply Jlast in Hu. lia.
  - assert (Room : length (sarrived s) < sn s).
    { apply (pigeon_room (sn s) (sarrived s) t); auto.
      - intros u Hu. apply Jarr in Hu. tauto.
      - intros Hc. apply At in Hc. destruct Hc as (_ & [(Hc & _)|Hc]); discriminate. }
    destruct (Jcol Room). intros Hex. exfalso. lia.
  (* --- SLastA / waiting_.store(0) *)
  - destruct (Lt eq_refl) as (L1 & L2 & L3 & L4). lia.
  - destruct (Lt eq_refl) as (L1 & L2 & L3 & L4).
    assert (LT : lastb (spc (sthr s t)) = true) by (rewrite Heqs0; reflexivity).
    intros u Hu. upd_case u t; cbn in *; [auto|]. exfalso. apply n. apply Juniq; auto.
  - assert (LT : lastb (spc (sthr s t)) = true) by (rewrite Heqs0; reflexivity).
    intros u1 u2 Hu1 Hu2. upd_case u1 t; upd_case u2 t; cbn in *; auto;
      try (symmetry; apply Juniq; auto; fail); try (apply Juniq; auto; fail).
  (* --- SLastB / lambda() *)
  - destruct (Lt eq_refl) as (L1 & L2 & L3 & L4). lia.
  - destruct (Lt eq_refl) as (L1 & L2 & L3 & L4).
    assert (LT : lastb (spc (sthr s t)) = true) by (rewrite Heqs0; reflexivity).
    intros u Hu. upd_case u t; cbn in *; [repeat split; auto; lia|]. exfalso. apply n. apply Juniq; auto.
  - assert (LT : lastb (spc (sthr s t)) = true) by (rewrite Heqs0; reflexivity).
    intros u1 u2 Hu1 Hu2. upd_case u1 t; upd_case u2 t; cbn in *; auto;
      try (symmetry; apply Juniq; auto; fail); try (apply Juniq; auto; fail).
  - destruct (Lt eq_refl) as (L1 & L2 & L3 & L4). destruct Tt as (_ & _ & _ & Tg).
    change (rev (seq 1 (length (sacts s))) ++ [0]) with (rev (seq 0 (S (length (sacts s))))).
    rewrite seq_S, rev_app_distr. cbn. rewrite <- Jacts. f_equal. lia.
  (* --- SLastC / step_.fetch_add(1): the release *)
  - constructor.
  - assert (LT : lastb (spc (sthr s t)) = true) by (rewrite Heqs0; reflexivity).
    destruct (Lt eq_refl) as (L1 & L2 & L3 & L4).
    assert (Full : forall u, u < sn s -> In u (sarrived s)).
    { apply pigeon_full; auto; [|lia]. intros u Hu. apply Jarr in Hu. tauto. }
    intros u. split; [tauto|]. intros (Hu & Hd). upd_case u t; cbn in *.
    + destruct Hd as [(Hd & _)|Hd]; discriminate.
    + destruct Hd as [(Hs & Hts)|Hl].
      * apply Full in Hu. apply Jarr in Hu. destruct Hu as (_ & [(_ & Hu)|Hu]); [lia|].
        apply n. apply Juniq; auto.
      * apply n. apply Juniq; auto.
  - destruct (Lt eq_refl) as (L1 & L2 & L3 & L4). intros _. lia.
  - assert (LT : lastb (spc (sthr s t)) = true) by (rewrite Heqs0; reflexivity).
    intros u Hu. upd_case u t; cbn in *; [discriminate|]. exfalso. apply n. apply Juniq; auto.
  - intros Hex. exfalso. lia.
  - assert (LT : lastb (spc (sthr s t)) = true) by (rewrite Heqs0; reflexivity).
    destruct (Lt eq_refl) as (L1 & L2 & L3 & L4).
    assert (Full : forall u, u < sn s -> In u (sarrived s)).
    { apply pigeon_full; auto; [|lia]. intros u Hu. apply Jarr in Hu. tauto. }
    intros u Hu. pose proof (Jthr u Hu) as Tu. unfold tinvS in *. cbn. upd_case u t; cbn.
    + lia.
    + apply Full in Hu. apply Jarr in Hu. destruct Hu as (_ & [(Hs & Hts)|Hl]).
      * destruct (spc (sthr s u)); cbn in Hs; try discriminate; lia.
      * exfalso. apply n. apply Juniq; auto.
Qed.

Lemma SInv_reachable : forall y gens s,
  1 <= length gens -> sreachable (length gens) y gens s -> SInv gens s.
Proof.
  intros y gens s Hn (tr & H). revert H. unfold spinrun.
  apply (run_invariant sstep (SInv gens)).
  - intros; eapply SInv_step; eauto.
  - now apply SInv_init.
Qed.

Lemma sgen_window : forall gens s u, SInv gens s -> u < sn s ->
  sgen (sthr s u) = sstp s \/ (sgen (sthr s u) + 1 = sstp s /\ sinside s u).
Proof.
  intros gens s u I Hu. pose proof (j_thr _ _ I u Hu) as T. unfold tinvS in T. unfold sinside.
  destruct (spc (sthr s u)); intuition.
Qed.

Definition sentered (s : sstate) (u g : nat) : Prop :=
  g < sgen (sthr s u) \/ (sgen (sthr s u) = g /\ sinside s u).

(** No thread leaves generation g before all participants have entered (arrived in) it. *)
Theorem bs_no_early_exit : forall y gens s t u g,
  1 <= length gens -> sreachable (length gens) y gens s ->
  t < length gens -> u < length gens ->
  g < sgen (sthr s t) -> sentered s u g.
Proof.
  intros y gens s t u g Hn R Ht Hu Hg.
  pose proof (SInv_reachable _ _ _ Hn R) as I.
  rewrite <- (j_n _ _ I) in Ht, Hu.
  destruct (sgen_window _ _ _ I Ht) as [Et|(Et & _)];
  destruct (sgen_window _ _ _ I Hu) as [Eu|(Eu & Iu)]; unfold sentered; try lia.
  destruct (Nat.eq_dec (sgen (sthr s u)) g); [right; auto | left; lia].
Qed.

Lemma count_rev_seq : forall k g,
  count_occ Nat.eq_dec (rev (seq 0 k)) g = if g <? k then 1 else 0.
Proof.
  induction k as [|k IH]; intros g.
  - reflexivity.
  - rewrite seq_S, rev_app_distr. cbn [rev app plus].
    change (count_occ Nat.eq_dec (k :: rev (seq 0 k)) g) with
      (if Nat.eq_dec k g then S (count_occ Nat.eq_dec (rev (seq 0 k)) g) else count_occ Nat.eq_dec (rev (seq 0 k)) g).
    rewrite IH. destruct (Nat.eq_dec k g) as [->|Hne].
    + rewrite Nat.ltb_irrefl. replace (g <? S g) with true by (symmetry; apply Nat.ltb_lt; lia). reflexivity.
    + destruct (g <? k) eqn:E1; destruct (g <? S k) eqn:E2; auto;
        [apply Nat.ltb_lt in E1; apply Nat.ltb_ge in E2 | apply Nat.ltb_ge in E1; apply Nat.ltb_lt in E2]; lia.
Qed.

