(** C11 — proofs about the ThreadBarrierSpin transition system (BarSpin.v): every n >= 1, any number of
    generations, all interleavings (atomics sequentially consistent). *)
From Coq Require Import List Arith Bool Lia.
From TLXV Require Import C11.Ev C11.BarSpin.
Import ListNotations.

Ltac upd_case u t :=
  destruct (Nat.eq_dec u t) as [->|?];
  [rewrite ?upd_same in * | rewrite ?upd_other in * by assumption].

Ltac sstep_inv H :=
  unfold sstep, sset_thr in H; destruct_matches H; inversion H; subst; clear H.

Ltac boolprops :=
  repeat match goal with
         | H : (_ <? _) = true |- _ => apply Nat.ltb_lt in H
         | H : (_ <? _) = false |- _ => apply Nat.ltb_ge in H
         | H : (_ =? _) = true |- _ => apply Nat.eqb_eq in H
         | H : (_ =? _) = false |- _ => apply Nat.eqb_neq in H
         | H : _ && _ = true |- _ => apply andb_prop in H; destruct H
         end.

(** pigeonhole *)
Lemma pigeon_full : forall n l,
  NoDup l -> (forall u, In u l -> u < n) -> n <= length l -> forall u, u < n -> In u l.
Proof.
  intros n l ND Hlt Hlen u Hu.
  assert (I : incl (seq 0 n) l).
  { apply NoDup_length_incl; auto.
    - now rewrite seq_length.
    - intros x Hx. apply in_seq. specialize (Hlt x Hx). lia. }
  apply I. apply in_seq. lia.
Qed.

Lemma pigeon_room : forall n l t,
  NoDup l -> (forall u, In u l -> u < n) -> t < n -> ~ In t l -> length l < n.
Proof.
  intros n l t ND Hlt Ht Hnt.
  destruct (Nat.lt_ge_cases (length l) n) as [H|H]; auto.
  exfalso. apply Hnt. eapply pigeon_full; eauto.
Qed.

Definition lastb (p : spcT) : bool := match p with SLastA | SLastB | SLastC => true | _ => false end.
Definition spinb (p : spcT) : bool := match p with SSpin | SYield => true | _ => false end.

Definition tinvS (s : sstate) (K : nat) (u : nat) : Prop :=
  let th := sthr s u in
  sgen th + sleft th = K /\
  match spc th with
  | SIdle => sgen th = sstp s
  | SLeaving => sgen th = sstp s /\ 1 <= sgen th
  | SDone => sgen th = sstp s /\ sleft th = 0
  | SEntered => sgen th = sstp s /\ 1 <= sleft th
  | SLoaded => sgen th = sstp s /\ 1 <= sleft th /\ tstep th = sstp s
  | SSpin | SYield =>
      1 <= sleft th /\
      ((tstep th = sstp s /\ sgen th = sstp s) \/ (tstep th + 1 = sstp s /\ sgen th + 1 = sstp s))
  | SLastA | SLastB | SLastC => 1 <= sleft th /\ tstep th = sstp s /\ sgen th = sstp s
  end.

Record SInv (gens : list nat) (s : sstate) : Prop := mkSInv {
  j_n : sn s = length gens;
  j_n1 : 1 <= sn s;
  j_nodup : NoDup (sarrived s);
  j_arr : forall u, In u (sarrived s) <->
                    (u < sn s /\ ((spinb (spc (sthr s u)) = true /\ tstep (sthr s u) = sstp s) \/
                                  lastb (spc (sthr s u)) = true));
  j_collect : length (sarrived s) < sn s ->
              waiting s = length (sarrived s) /\ length (sacts s) = sstp s;
  j_last : forall u, lastb (spc (sthr s u)) = true ->
                     length (sarrived s) = sn s /\ (exists l, sarrived s = u :: l) /\
                     waiting s = (match spc (sthr s u) with SLastA => sn s | _ => 0 end) /\
                     length (sacts s) = (match spc (sthr s u) with SLastC => sstp s + 1 | _ => sstp s end);
  j_exlast : sn s <= length (sarrived s) -> exists v, lastb (spc (sthr s v)) = true;
  j_uniq : forall u v, lastb (spc (sthr s u)) = true -> lastb (spc (sthr s v)) = true -> u = v;
  j_thr : forall u, u < sn s -> tinvS s (nth u gens 0) u;
  j_above : forall u, sn s <= u -> sthr s u = mkST SDone 0 0 0;
  j_acts : map snd (sacts s) = rev (seq 0 (length (sacts s)))
}.

Lemma SInv_init : forall y sil gens, 1 <= length gens -> SInv gens (sinit (length gens) y sil gens).
Proof.
  intros y sil gens Hn. constructor; cbn.
  - reflexivity.
  - exact Hn.
  - constructor.
  - intros u. split; [tauto|]. intros (Hu & [(Hw & _)|Hw]);
      destruct (nth_error gens u); cbn in Hw; discriminate.
  - auto.
  - intros u Hu. destruct (nth_error gens u); cbn in Hu; discriminate.
  - lia.
  - intros u v Hu. destruct (nth_error gens u); cbn in Hu; discriminate.
  - intros u Hu. unfold tinvS; cbn.
    destruct (nth_error gens u) eqn:E; cbn.
    + rewrite (nth_error_nth _ _ _ E). lia.
    + apply nth_error_None in E. lia.
  - intros u Hu. apply nth_error_None in Hu. now rewrite Hu.
  - reflexivity.
Qed.

Lemma SInv_step : forall gens s e s', SInv gens s -> sstep s e = Some s' -> SInv gens s'.
Proof.
  intros gens s [t o] s' I H.
  destruct I as [Jn Jn1 Jnd Jarr Jcol Jlast Jex Juniq Jthr Jab Jacts].
  destruct (Nat.lt_ge_cases t (sn s)) as [Ht|Ht].
  2: { unfold sstep in H. rewrite (Jab t Ht) in H. cbn in H. destruct o; discriminate. }
  pose proof (Jthr t Ht) as Tt. pose proof (Jarr t) as At. pose proof (Jlast t) as Lt.
  unfold tinvS in Tt. sstep_inv H; boolprops; cbn in Tt, At, Lt.
  all: constructor; cbn; auto.
  all: try solve [ intros u Hu; upd_case u t; [lia | auto] ].
  all: try solve [ intros u; specialize (Jarr u); upd_case u t; cbn;
                   intuition (try congruence; try lia) ].
  all: try solve [ intros u Hu; specialize (Jthr u Hu); unfold tinvS in *; cbn; upd_case u t; cbn;
                   [ intuition lia | exact Jthr ] ].
  all: try solve [ intros u Hu; upd_case u t; cbn in *; [ try discriminate; intuition | auto ] ].
  all: try solve [ intros Hex; destruct (Jex Hex) as (v' & Hv'); exists v'; upd_case v' t; cbn; auto;
                   rewrite Heqs0 in Hv'; discriminate ].
  all: try solve [ intros Hex; exists t; rewrite upd_same; reflexivity ].
  all: try solve [ intros u1 u2 Hu1 Hu2; upd_case u1 t; upd_case u2 t; cbn in *; try discriminate; auto;
                   try (apply Juniq; auto; fail) ].
  (* --- SLoaded / fetch_add on waiting_: the arrival; becomes the last arriver *)
  - constructor; auto. intros Hc. apply At in Hc. destruct Hc as (_ & [(Hc & _)|Hc]); discriminate.
  - assert (Room : length (sarrived s) < sn s).
    { apply (pigeon_room (sn s) (sarrived s) t); auto.
      - intros u Hu. apply Jarr in Hu. tauto.
      - intros Hc. apply At in Hc. destruct Hc as (_ & [(Hc & _)|Hc]); discriminate. }
    destruct (Jcol Room). intros _. lia.
  - assert (Room : length (sarrived s) < sn s).
    { apply (pigeon_room (sn s) (sarrived s) t); auto.
      - intros u Hu. apply Jarr in Hu. tauto.
      - intros Hc. apply At in Hc. destruct Hc as (_ & [(Hc & _)|Hc]); discriminate. }
    destruct (Jcol Room). intros u Hu. upd_case u t; cbn in *.
    + split; [lia|]. split; [eauto|]. split; lia.
    + apply Jlast in Hu. lia.
  - assert (Room : length (sarrived s) < sn s).
    { apply (pigeon_room (sn s) (sarrived s) t); auto.
      - intros u Hu. apply Jarr in Hu. tauto.
      - intros Hc. apply At in Hc. destruct Hc as (_ & [(Hc & _)|Hc]); discriminate. }
    intros u1 u2 Hu1 Hu2. upd_case u1 t; upd_case u2 t; cbn in *; auto;
      try (apply Jlast in Hu1; lia); try (apply Jlast in Hu2; lia).
  (* --- SLoaded / fetch_add on waiting_: not the last *)
  - constructor; auto. intros Hc. apply At in Hc. destruct Hc as (_ & [(Hc & _)|Hc]); discriminate.
  - assert (Room : length (sarrived s) < sn s).
    { apply (pigeon_room (sn s) (sarrived s) t); auto.
      - intros u Hu. apply Jarr in Hu. tauto.
      - intros Hc. apply At in Hc. destruct Hc as (_ & [(Hc & _)|Hc]); discriminate. }
    destruct (Jcol Room). intros _. lia.
  - assert (Room : length (sarrived s) < sn s).
    { apply (pigeon_room (sn s) (sarrived s) t); auto.
      - intros u Hu. apply Jarr in Hu. tauto.
      - intros Hc. apply At in Hc. destruct Hc as (_ & [(Hc & _)|Hc]); discriminate. }
    intros u Hu. upd_case u t; cbn in *; [discriminate|]. apply Jlast in Hu. lia.
  - assert (Room : length (sarrived s) < sn s).
    { apply (pigeon_room (sn s) (sarrived s) t); auto.
      - intros u Hu. apply Jarr in Hu. tauto.
      - intros Hc. apply At in Hc. destruct Hc as (_ & [(Hc & _)|Hc]); discriminate. }
    destruct (Jcol Room). intros Hex. exfalso. lia.
  (* --- SLastA / waiting_.store(0), generation crossed without lambda: the silent NoOperation follows at once *)
  - destruct (Lt eq_refl) as (L1 & L2 & L3 & L4). lia.
  - destruct (Lt eq_refl) as (L1 & L2 & L3 & L4).
    assert (LT : lastb (spc (sthr s t)) = true) by (rewrite Heqs0; reflexivity).
    intros u Hu. upd_case u t; cbn in *; [repeat split; auto; lia|]. exfalso. (match goal with Hn_ : _ <> t |- _ => apply Hn_ end). apply Juniq; auto.
  - assert (LT : lastb (spc (sthr s t)) = true) by (rewrite Heqs0; reflexivity).
    intros u1 u2 Hu1 Hu2. upd_case u1 t; upd_case u2 t; cbn in *; auto;
      try (symmetry; apply Juniq; auto; fail); try (apply Juniq; auto; fail).
  - destruct (Lt eq_refl) as (L1 & L2 & L3 & L4). destruct Tt as (_ & _ & _ & Tg).
    change (rev (seq 1 (length (sacts s))) ++ [0]) with (rev (seq 0 (S (length (sacts s))))).
    rewrite seq_S, rev_app_distr. cbn. rewrite <- Jacts. f_equal. lia.
  (* --- SLastA / waiting_.store(0) *)
  - destruct (Lt eq_refl) as (L1 & L2 & L3 & L4). lia.
  - destruct (Lt eq_refl) as (L1 & L2 & L3 & L4).
    assert (LT : lastb (spc (sthr s t)) = true) by (rewrite Heqs0; reflexivity).
    intros u Hu. upd_case u t; cbn in *; [auto|]. exfalso. (match goal with Hn_ : _ <> t |- _ => apply Hn_ end). apply Juniq; auto.
  - assert (LT : lastb (spc (sthr s t)) = true) by (rewrite Heqs0; reflexivity).
    intros u1 u2 Hu1 Hu2. upd_case u1 t; upd_case u2 t; cbn in *; auto;
      try (symmetry; apply Juniq; auto; fail); try (apply Juniq; auto; fail).
  (* --- SLastB / lambda() *)
  - destruct (Lt eq_refl) as (L1 & L2 & L3 & L4). lia.
  - destruct (Lt eq_refl) as (L1 & L2 & L3 & L4).
    assert (LT : lastb (spc (sthr s t)) = true) by (rewrite Heqs0; reflexivity).
    intros u Hu. upd_case u t; cbn in *; [repeat split; auto; lia|]. exfalso. (match goal with Hn_ : _ <> t |- _ => apply Hn_ end). apply Juniq; auto.
  - assert (LT : lastb (spc (sthr s t)) = true) by (rewrite Heqs0; reflexivity).
    intros u1 u2 Hu1 Hu2. upd_case u1 t; upd_case u2 t; cbn in *; auto;
      try (symmetry; apply Juniq; auto; fail); try (apply Juniq; auto; fail).
  - destruct (Lt eq_refl) as (L1 & L2 & L3 & L4). destruct Tt as (_ & _ & _ & Tg).
    change (rev (seq 1 (length (sacts s))) ++ [0]) with (rev (seq 0 (S (length (sacts s))))).
    rewrite seq_S, rev_app_distr. cbn. rewrite <- Jacts. f_equal. lia.
  (* --- SLastC / step_.fetch_add(1): the release *)
  - constructor.
  - assert (LT : lastb (spc (sthr s t)) = true) by (rewrite Heqs0; reflexivity).
    destruct (Lt eq_refl) as (L1 & L2 & L3 & L4).
    assert (Full : forall u, u < sn s -> In u (sarrived s)).
    { apply pigeon_full; auto; [|lia]. intros u Hu. apply Jarr in Hu. tauto. }
    intros u. split; [tauto|]. intros (Hu & Hd). upd_case u t; cbn in *.
    + destruct Hd as [(Hd & _)|Hd]; discriminate.
    + destruct Hd as [(Hs & Hts)|Hl].
      * apply Full in Hu. apply Jarr in Hu. destruct Hu as (_ & [(_ & Hu)|Hu]); [lia|].
        (match goal with Hn_ : _ <> t |- _ => apply Hn_ end). apply Juniq; auto.
      * (match goal with Hn_ : _ <> t |- _ => apply Hn_ end). apply Juniq; auto.
  - destruct (Lt eq_refl) as (L1 & L2 & L3 & L4). intros _. lia.
  - assert (LT : lastb (spc (sthr s t)) = true) by (rewrite Heqs0; reflexivity).
    intros u Hu. upd_case u t; cbn in *; [discriminate|]. exfalso. (match goal with Hn_ : _ <> t |- _ => apply Hn_ end). apply Juniq; auto.
  - intros Hex. exfalso. lia.
  - assert (LT : lastb (spc (sthr s t)) = true) by (rewrite Heqs0; reflexivity).
    destruct (Lt eq_refl) as (L1 & L2 & L3 & L4).
    assert (Full : forall u, u < sn s -> In u (sarrived s)).
    { apply pigeon_full; auto; [|lia]. intros u Hu. apply Jarr in Hu. tauto. }
    intros u Hu. pose proof (Jthr u Hu) as Tu. unfold tinvS in *. cbn. upd_case u t; cbn.
    + lia.
    + apply Full in Hu. apply Jarr in Hu. destruct Hu as (_ & [(Hs & Hts)|Hl]).
      * destruct (spc (sthr s u)); cbn in Hs; try discriminate; lia.
      * exfalso. (match goal with Hn_ : _ <> t |- _ => apply Hn_ end). apply Juniq; auto.
Qed.

Lemma SInv_reachable : forall y sil gens s,
  1 <= length gens -> sreachable (length gens) y sil gens s -> SInv gens s.
Proof.
  intros y sil gens s Hn (tr & H). revert H. unfold spinrun.
  apply (run_invariant sstep (SInv gens)).
  - intros; eapply SInv_step; eauto.
  - now apply SInv_init.
Qed.

Lemma sgen_window : forall gens s u, SInv gens s -> u < sn s ->
  sgen (sthr s u) = sstp s \/ (sgen (sthr s u) + 1 = sstp s /\ sinside s u).
Proof.
  intros gens s u I Hu. pose proof (j_thr _ _ I u Hu) as T. unfold tinvS in T. unfold sinside.
  destruct (spc (sthr s u)); intuition.
Qed.

Definition sentered (s : sstate) (u g : nat) : Prop :=
  g < sgen (sthr s u) \/ (sgen (sthr s u) = g /\ sinside s u).

(** No thread leaves generation g before all participants have entered (arrived in) it. *)
Theorem bs_no_early_exit : forall y sil gens s t u g,
  1 <= length gens -> sreachable (length gens) y sil gens s ->
  t < length gens -> u < length gens ->
  g < sgen (sthr s t) -> sentered s u g.
Proof.
  intros y sil gens s t u g Hn R Ht Hu Hg.
  pose proof (SInv_reachable _ _ _ _ Hn R) as I.
  rewrite <- (j_n _ _ I) in Ht, Hu.
  destruct (sgen_window _ _ _ I Ht) as [Et|(Et & _)];
  destruct (sgen_window _ _ _ I Hu) as [Eu|(Eu & Iu)]; unfold sentered; try lia.
  destruct (Nat.eq_dec (sgen (sthr s u)) g); [right; auto | left; lia].
Qed.

Lemma count_rev_seq : forall k g,
  count_occ Nat.eq_dec (rev (seq 0 k)) g = if g <? k then 1 else 0.
Proof.
  induction k as [|k IH]; intros g.
  - reflexivity.
  - rewrite seq_S, rev_app_distr. cbn [rev app plus].
    change (count_occ Nat.eq_dec (k :: rev (seq 0 k)) g) with
      (if Nat.eq_dec k g then S (count_occ Nat.eq_dec (rev (seq 0 k)) g) else count_occ Nat.eq_dec (rev (seq 0 k)) g).
    rewrite IH. destruct (Nat.eq_dec k g) as [->|Hne].
    + rewrite Nat.ltb_irrefl. replace (g <? S g) with true by (symmetry; apply Nat.ltb_lt; lia). reflexivity.
    + destruct (g <? k) eqn:E1; destruct (g <? S k) eqn:E2; auto;
        [apply Nat.ltb_lt in E1; apply Nat.ltb_ge in E2 | apply Nat.ltb_ge in E1; apply Nat.ltb_lt in E2]; lia.
Qed.


Lemma sacts_bounds : forall gens s, SInv gens s ->
  sstp s <= length (sacts s) <= sstp s + 1.
Proof.
  intros gens s I.
  destruct (Nat.lt_ge_cases (length (sarrived s)) (sn s)) as [H|H].
  - destruct (j_collect _ _ I H). lia.
  - destruct (j_exlast _ _ I H) as (v & Hv).
    destruct (j_last _ _ I v Hv) as (_ & _ & _ & L). destruct (spc (sthr s v)); lia.
Qed.

(** The action runs at most once per generation, in order (generation k is the k-th action), exactly once for
    every generation some thread has left; a thread that has left generation g finds the action of g run. *)
Theorem bs_action_once_before_release : forall y sil gens s,
  1 <= length gens -> sreachable (length gens) y sil gens s ->
  map snd (sacts s) = rev (seq 0 (length (sacts s))) /\
  sstp s <= length (sacts s) <= sstp s + 1 /\
  (forall g, count_occ Nat.eq_dec (map snd (sacts s)) g = if g <? length (sacts s) then 1 else 0) /\
  (forall t g, t < length gens -> g < sgen (sthr s t) ->
               In g (map snd (sacts s)) /\ count_occ Nat.eq_dec (map snd (sacts s)) g = 1).
Proof.
  intros y sil gens s Hn R. pose proof (SInv_reachable _ _ _ _ Hn R) as I.
  pose proof (j_acts _ _ I) as A. pose proof (sacts_bounds _ _ I) as B.
  split; [exact A|]. split; [exact B|]. split.
  - intros g. rewrite A at 1. apply count_rev_seq.
  - intros t g Ht Hg. rewrite <- (j_n _ _ I) in Ht.
    assert (g < length (sacts s)).
    { destruct (sgen_window _ _ _ I Ht) as [E|(E & _)]; lia. }
    split.
    + rewrite A, <- in_rev, in_seq. lia.
    + rewrite A at 1. rewrite count_rev_seq. apply Nat.ltb_lt in H. now rewrite H.
Qed.

(** The action is run by the last arriver (the most recent arrival), when every other participant has arrived
    in generation g and spins inside wait(); nobody has left generation g; the action of g has not run before;
    and the release (increment of step_) has not happened: it is this thread's next event. *)
Theorem bs_action_by_last : forall y sil gens s t g s',
  1 <= length gens -> sreachable (length gens) y sil gens s ->
  sstep s (t, OAct g) = Some s' ->
  g = sgen (sthr s t) /\ g = sstp s /\ (exists l, sarrived s = t :: l) /\
  (forall u, u < length gens -> u <> t ->
             In u (sarrived s) /\ spinb (spc (sthr s u)) = true /\ tstep (sthr s u) = sstp s /\ sgen (sthr s u) = g) /\
  (forall u, u < length gens -> sgen (sthr s u) <= g) /\
  ~ In g (map snd (sacts s)) /\ sacts s' = (t, g) :: sacts s /\ sstp s' = sstp s.
Proof.
  intros y sil gens s t g s' Hn R H. pose proof (SInv_reachable _ _ _ _ Hn R) as I.
  destruct I as [Jn Jn1 Jnd Jarr Jcol Jlast Jex Juniq Jthr Jab Jacts].
  destruct (Nat.lt_ge_cases t (sn s)) as [Ht|Ht].
  2: { unfold sstep in H. rewrite (Jab t Ht) in H. discriminate. }
  pose proof (Jthr t Ht) as Tt. unfold tinvS in Tt.
  unfold sstep in H. destruct (spc (sthr s t)) eqn:Hpc; try discriminate.
  destruct (g =? sgen (sthr s t)) eqn:Eg; try discriminate.
  inversion H; subst; clear H. apply Nat.eqb_eq in Eg. subst g. cbn.
  assert (LT : lastb (spc (sthr s t)) = true) by (rewrite Hpc; reflexivity).
  destruct (Jlast t LT) as (L1 & L2 & L3 & L4). rewrite Hpc in L3, L4.
  destruct Tt as (T1 & T2 & T3 & T4). rewrite <- Jn.
  assert (Full : forall u, u < sn s -> In u (sarrived s)).
  { apply pigeon_full; auto; [|lia]. intros u Hu. apply Jarr in Hu. tauto. }
  assert (Oth : forall u, u < sn s -> u <> t ->
            In u (sarrived s) /\ spinb (spc (sthr s u)) = true /\ tstep (sthr s u) = sstp s /\
            sgen (sthr s u) = sgen (sthr s t)).
  { intros u Hu Hne. pose proof (Full u Hu) as Hin. split; auto.
    apply Jarr in Hin. destruct Hin as (_ & [(Hs & Hts)|Hl]).
    - split; auto. split; auto.
      pose proof (Jthr u Hu) as Tu. unfold tinvS in Tu.
      destruct (spc (sthr s u)); cbn in Hs; try discriminate; lia.
    - exfalso. apply Hne. apply Juniq; auto. }
  split; [reflexivity|]. split; [lia|]. split; [exact L2|]. split; [exact Oth|].
  split; [|split; [|split; reflexivity]].
  - intros u Hu. destruct (Nat.eq_dec u t) as [->|Hne]; [lia|]. destruct (Oth u Hu Hne) as (_ & _ & _ & E'). lia.
  - rewrite Jacts, <- in_rev, in_seq. lia.
Qed.

(** ---------------------------------------------------------------- reusable: no livelock short of the end *)
Lemma nth_repeat_lt : forall (K : nat) n u, u < n -> nth u (repeat K n) 0 = K.
Proof. induction n; intros u Hu; [lia|]. destruct u; cbn; auto. apply IHn. lia. Qed.

(** If all n participants cross the barrier K times and the only enabled events are iterations of the busy
    loop of threads waiting for a generation change that has not happened, then every participant has
    completed all K generations: for every n >= 1 and every K the barrier cannot get stuck spinning (the
    spin barrier's form of "no lost wake-up / reusable"; it has no blocking rest states). *)
Theorem bs_no_livelock : forall n y sil K s t,
  1 <= n -> sreachable n y sil (repeat K n) s ->
  (forall e s', sstep s e = Some s' -> is_spin s e) ->
  t < n -> spc (sthr s t) = SDone /\ sgen (sthr s t) = K.
Proof.
  intros n y sil K s t Hn R Q Ht.
  assert (Hl : length (repeat K n) = n) by apply repeat_length.
  rewrite <- Hl in R at 1. rewrite <- Hl in Hn.
  pose proof (SInv_reachable _ _ _ _ Hn R) as I. rewrite Hl in Hn.
  assert (Hsn : sn s = n) by (rewrite (j_n _ _ I); exact Hl).
  (* every participant spins in the current generation or is done *)
  assert (B : forall u, u < n ->
              (In u (sarrived s) /\ sgen (sthr s u) = sstp s /\ 1 <= sleft (sthr s u)
               /\ sgen (sthr s u) + sleft (sthr s u) = K /\ lastb (spc (sthr s u)) = false) \/
              (spc (sthr s u) = SDone /\ sgen (sthr s u) = sstp s /\ sgen (sthr s u) = K)).
  { intros u Hu. rewrite <- Hsn in Hu.
    pose proof (j_thr _ _ I u Hu) as T. unfold tinvS in T.
    rewrite Hsn in Hu. rewrite (nth_repeat_lt K n u Hu) in T.
    assert (NS : forall o s', sstep s (u, o) = Some s' ->
                 (spc (sthr s u) = SSpin \/ spc (sthr s u) = SYield) /\ tstep (sthr s u) = sstp s).
    { intros o s' Hs. apply Q in Hs. unfold is_spin in Hs. cbn in Hs.
      destruct (spc (sthr s u)); try contradiction; auto. }
    destruct (spc (sthr s u)) eqn:Hpc.
    - exfalso. destruct (sleft (sthr s u)) eqn:El.
      + destruct (NS OEnd (sset_thr s u (mkST SDone (tstep (sthr s u)) (sgen (sthr s u)) 0))) as ([Hc|Hc] & _); try discriminate.
        unfold sstep. rewrite Hpc, El. reflexivity.
      + destruct (NS (OIn (sgen (sthr s u))) (sset_thr s u (mkST SEntered (tstep (sthr s u)) (sgen (sthr s u)) (sleft (sthr s u)))))
          as ([Hc|Hc] & _); try discriminate.
        unfold sstep. rewrite Hpc, El, Nat.eqb_refl. rewrite <- El. reflexivity.
    - exfalso.
      destruct (NS (OLoad 0 (sstp s)) (sset_thr s u (mkST SLoaded (sstp s) (sgen (sthr s u)) (sleft (sthr s u)))))
        as ([Hc|Hc] & _); try discriminate.
      unfold sstep. rewrite Hpc. cbn. rewrite Nat.eqb_refl. reflexivity.
    - exfalso.
      destruct (sstep s (u, ORmw 1 (waiting s) (waiting s + 1))) as [s'|] eqn:Es.
      + destruct (NS _ _ Es) as ([Hc|Hc] & _); discriminate.
      + unfold sstep in Es. rewrite Hpc in Es. cbn in Es. rewrite !Nat.eqb_refl in Es. discriminate.
    - left. destruct T as (T1 & T2 & [(C1 & C2)|(C1 & C2)]).
      + repeat split; auto. apply (j_arr _ _ I). rewrite Hsn, Hpc. cbn. auto.
      + exfalso.
        destruct (sstep s (u, OLoad 0 (sstp s))) as [s'|] eqn:Es.
        * destruct (NS _ _ Es) as (_ & Hc). lia.
        * unfold sstep in Es. rewrite Hpc in Es. cbn in Es. rewrite Nat.eqb_refl in Es.
          destruct (sstp s =? tstep (sthr s u)); discriminate.
    - left. destruct T as (T1 & T2 & [(C1 & C2)|(C1 & C2)]).
      + repeat split; auto. apply (j_arr _ _ I). rewrite Hsn, Hpc. cbn. auto.
      + exfalso.
        destruct (NS OYield (sset_thr s u (mkST SSpin (tstep (sthr s u)) (sgen (sthr s u)) (sleft (sthr s u))))) as (_ & Hc); [|lia].
        unfold sstep. rewrite Hpc. reflexivity.
    - exfalso.
      destruct (sstep s (u, OStore 1 0)) as [s'|] eqn:Es.
      + destruct (NS _ _ Es) as ([Hc|Hc] & _); discriminate.
      + unfold sstep in Es. rewrite Hpc in Es. cbn in Es. destruct (ssil s (sgen (sthr s u))); discriminate.
    - exfalso.
      destruct (sstep s (u, OAct (sgen (sthr s u)))) as [s'|] eqn:Es.
      + destruct (NS _ _ Es) as ([Hc|Hc] & _); discriminate.
      + unfold sstep in Es. rewrite Hpc, Nat.eqb_refl in Es. discriminate.
    - exfalso.
      destruct (sstep s (u, ORmw 0 (sstp s) (sstp s + 1))) as [s'|] eqn:Es.
      + destruct (NS _ _ Es) as ([Hc|Hc] & _); discriminate.
      + unfold sstep in Es. rewrite Hpc in Es. cbn in Es. rewrite !Nat.eqb_refl in Es. discriminate.
    - exfalso. destruct T as (_ & T2 & T3).
      destruct (sstep s (u, OOut (sgen (sthr s u) - 1))) as [s'|] eqn:Es.
      + destruct (NS _ _ Es) as ([Hc|Hc] & _); discriminate.
      + unfold sstep in Es. rewrite Hpc in Es.
        replace (sgen (sthr s u) - 1 + 1) with (sgen (sthr s u)) in Es by lia.
        rewrite Nat.eqb_refl in Es. discriminate.
    - right. destruct T as (T1 & T2 & T3). repeat split; auto. lia. }
  destruct (B t Ht) as [(Hin & Hg & Hleft & HK & Hnl)|(Hd & _ & HK)]; [exfalso|auto].
  assert (All : forall u, u < n -> In u (sarrived s) /\ lastb (spc (sthr s u)) = false).
  { intros u Hu. destruct (B u Hu) as [(Hin' & _ & _ & _ & Hnl')|(_ & Hg' & HK')]; auto. exfalso. lia. }
  assert (Hle : length (seq 0 n) <= length (sarrived s)).
  { apply NoDup_incl_length; [apply seq_NoDup|]. intros u Hu. apply in_seq in Hu. apply All. lia. }
  rewrite seq_length in Hle. rewrite <- Hsn in Hle.
  destruct (j_exlast _ _ I Hle) as (v & Hv).
  destruct (j_last _ _ I v Hv) as (_ & (l & El) & _).
  assert (Hvin : In v (sarrived s)) by (rewrite El; left; reflexivity).
  apply (j_arr _ _ I) in Hvin. destruct Hvin as (Hvn & _). rewrite Hsn in Hvn.
  destruct (All v Hvn) as (_ & Hc). congruence.
Qed.

(** the hypotheses are satisfiable by a non-trivial state: 2 threads; generation 0 complete (thread 1 was the
    last arriver), thread 0 already spins in generation 1 *)
Definition bs_example_trace : list event :=
  [ (0, OIn 0); (1, OIn 0); (0, OLoad 0 0); (0, ORmw 1 0 1); (1, OLoad 0 0); (0, OLoad 0 0);
    (1, ORmw 1 1 2); (1, OStore 1 0); (1, OAct 0); (1, ORmw 0 0 1); (1, OOut 0);
    (0, OLoad 0 1); (0, OOut 0); (0, OIn 1); (0, OLoad 0 1); (0, ORmw 1 0 1); (0, OLoad 0 1) ].

Lemma bs_example_aux : forall r : option sstate,
  r = spinrun (sinit 2 (fun _ _ => false) (fun _ => false) [2; 2]) bs_example_trace ->
  match r with
  | Some s => (sstp s =? 1) && sspinb s 0 && (sgen (sthr s 1) =? 1) && (length (sacts s) =? 1)
  | None => false
  end = true ->
  exists s, sreachable 2 (fun _ _ => false) (fun _ => false) [2; 2] s /\ sstp s = 1 /\ sspinb s 0 = true /\ sgen (sthr s 1) = 1.
Proof.
  intros r R E. destruct r as [s|]; [|discriminate E]. symmetry in R.
  apply andb_prop in E. destruct E as [E E4]. apply andb_prop in E. destruct E as [E E3].
  apply andb_prop in E. destruct E as [E1 E2].
  exists s. split; [exists bs_example_trace; exact R|].
  split; [now apply Nat.eqb_eq|]. split; [exact E2|now apply Nat.eqb_eq].
Qed.

Example bs_reachable_nontrivial :
  exists s, sreachable 2 (fun _ _ => false) (fun _ => false) [2; 2] s /\ sstp s = 1 /\ sspinb s 0 = true /\ sgen (sthr s 1) = 1.
Proof. apply (bs_example_aux _ eq_refl). vm_compute. reflexivity. Qed.
