(** C11 — direct checker of the barrier property on a REAL event trace. *)
From Coq Require Import List Arith Bool Lia.
From TLXV Require Import C11.Ev.
Import ListNotations.

(** ------------------------------------------------------------------------------------------------
    Direct checker of the barrier property on a REAL trace (both barrier classes; independent of the
    transition systems).  It reads only the harness notes in/out/act and the arrival events
    ([arrival] = the event that counts the thread: the first OLock after OIn for the mutex barrier, the
    ORmw on a1 for the spin barrier):
      - at  out g  of any thread: n distinct threads have noted  in g  and  act g  has been noted (unless the
        scenario crosses generation g with the default NoOperation lambda: [sil g], then no act may be noted);
      - at  act g : n threads have noted  in g,  no thread has noted  out g,  act g  was not noted before,
        and the acting thread is the one whose arrival event for g is the latest, all n having arrived. *)
Record chk : Type := mkChk {
  k_in : list (nat * nat);       (* (thread, generation) *)
  k_out : list (nat * nat);
  k_act : list nat;              (* generations *)
  k_arr : list (nat * nat);      (* arrivals (thread, generation), latest first *)
  k_gen : nat -> option nat      (* generation a thread is currently in (between in and its arrival) *)
}.

Definition count_gen (g : nat) (l : list (nat * nat)) : nat :=
  length (filter (fun p => snd p =? g) l).

Definition last_arrival (g : nat) (l : list (nat * nat)) : option nat :=
  match filter (fun p => snd p =? g) l with (t, _) :: _ => Some t | [] => None end.

Definition is_arrival (spin : bool) (o : op) : bool :=
  match o with
  | OLock => negb spin
  | ORmw a _ _ => spin && (a =? 1)
  | _ => false
  end.

Fixpoint bar_check (spin : bool) (n : nat) (sil : nat -> bool) (k : chk) (tr : list event) : bool :=
  match tr with
  | [] => true
  | (t, o) :: r =>
      match o with
      | OIn g =>
          negb (existsb (fun p => (fst p =? t) && (snd p =? g)) (k_in k)) &&
          bar_check spin n sil (mkChk ((t, g) :: k_in k) (k_out k) (k_act k) (k_arr k) (upd (k_gen k) t (Some g))) r
      | OOut g =>
          (count_gen g (k_in k) =? n) && (sil g || existsb (Nat.eqb g) (k_act k)) &&
          bar_check spin n sil (mkChk (k_in k) ((t, g) :: k_out k) (k_act k) (k_arr k) (k_gen k)) r
      | OAct g =>
          negb (sil g) &&
          (count_gen g (k_in k) =? n) && (count_gen g (k_out k) =? 0) && negb (existsb (Nat.eqb g) (k_act k)) &&
          (count_gen g (k_arr k) =? n) &&
          (match last_arrival g (k_arr k) with Some u => u =? t | None => false end) &&
          bar_check spin n sil (mkChk (k_in k) (k_out k) (g :: k_act k) (k_arr k) (k_gen k)) r
      | _ =>
          if is_arrival spin o
          then match k_gen k t with
               | Some g => bar_check spin n sil (mkChk (k_in k) (k_out k) (k_act k) ((t, g) :: k_arr k) (upd (k_gen k) t None)) r
               | None => bar_check spin n sil k r
               end
          else bar_check spin n sil k r
      end
  end.

Definition bar_check0 (spin : bool) (n : nat) (sil : nat -> bool) (tr : list event) : bool :=
  bar_check spin n sil (mkChk [] [] [] [] (fun _ => None)) tr.
