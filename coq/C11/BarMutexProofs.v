(** C11 — proofs about the ThreadBarrierMutex transition system (BarMutex.v): every n >= 1, any number of
    generations, all interleavings, with or without spurious wake-ups. *)
From Coq Require Import List Arith Bool Lia.
From TLXV Require Import C11.Ev C11.BarMutex.
Import ListNotations.

Ltac upd_case u t :=
  destruct (Nat.eq_dec u t) as [->|?];
  [rewrite ?upd_same in * | rewrite ?upd_other in * by assumption].

Ltac bstep_inv H :=
  unfold bstep, set_thr in H; destruct_matches H; inversion H; subst; clear H.

(** pigeonhole: n - 1 distinct participants other than t are all the other participants *)
Lemma pigeon : forall n l t,
  NoDup l -> (forall u, In u l -> u < n) -> ~ In t l -> t < n -> length l + 1 = n ->
  forall u, u < n -> u <> t -> In u l.
Proof.
  intros n l t ND Hlt Hnt Ht Hlen u Hu Hne.
  assert (I : incl (seq 0 n) (t :: l)).
  { apply NoDup_length_incl.
    - constructor; auto.
    - rewrite seq_length. cbn. lia.
    - intros x [<-|Hx]; apply in_seq; [lia|]. specialize (Hlt x Hx). lia. }
  assert (Hin : In u (seq 0 n)) by (apply in_seq; lia).
  destruct (I u Hin) as [E|E]; [congruence|exact E].
Qed.

Lemma flip_flip : forall x, x < 2 -> flip (flip x) = x.
Proof. intros x H. unfold flip. destruct x as [|[|x]]; cbn; auto; lia. Qed.
Lemma flip_neq : forall x, flip x <> x.
Proof. intros x. unfold flip. destruct x; cbn; lia. Qed.
Lemma flip_lt : forall x, flip x < 2.
Proof. intros x. unfold flip. destruct (x =? 0); lia. Qed.

Definition waitingb (p : bpcT) : bool := match p with BSleep | BWoken => true | _ => false end.
Definition holdsb (p : bpcT) : bool :=
  match p with BLocked | BWoken | BActed | BNotified => true | _ => false end.

(** per-thread invariant; K = number of generations the thread crosses in total *)
Definition tinv (s : bstate) (K : nat) (u : nat) : Prop :=
  let th := bthr s u in
  gen th + left th = K /\
  match bpc th with
  | BIdle => gen th = bG s
  | BLeaving => gen th = bG s /\ 1 <= gen th
  | BDone => gen th = bG s /\ left th = 0
  | BEntered | BLocked => gen th = bG s /\ 1 <= left th
  | BSleep | BWoken =>
      1 <= left th /\
      ((cur th = stp s /\ gen th = bG s) \/
       (cur th = flip (stp s) /\ gen th + 1 = bG s /\ cnt s (cur th) = bn s))
  | BActed | BNotified =>
      1 <= left th /\ cur th = flip (stp s) /\ gen th + 1 = bG s /\ cnt s (cur th) = bn s
  end.

Record BInv (gens : list nat) (s : bstate) : Prop := mkBInv {
  i_n : bn s = length gens;
  i_n1 : 1 <= bn s;
  i_stp : stp s < 2;
  i_cnt : cnt s (stp s) = length (arrived s);
  i_lt : length (arrived s) < bn s;
  i_nodup : NoDup (arrived s);
  i_arr : forall u, In u (arrived s) <->
                    (u < bn s /\ waitingb (bpc (bthr s u)) = true /\ cur (bthr s u) = stp s);
  i_thr : forall u, u < bn s -> tinv s (nth u gens 0) u;
  i_above : forall u, bn s <= u -> bthr s u = mkBT BDone 0 0 0;
  i_owner : forall u, bowner s = Some u <-> holdsb (bpc (bthr s u)) = true;
  i_sleep : forall u, In u (bsleepers s) ->
                      bpc (bthr s u) = BSleep /\
                      (cur (bthr s u) = stp s \/ exists v, bowner s = Some v /\ bpc (bthr s v) = BActed);
  i_acts : map snd (acts s) = rev (seq 0 (bG s))
}.

Lemma BInv_init : forall sil gens, 1 <= length gens -> BInv gens (binit (length gens) sil gens).
Proof.
  intros sil gens Hn. constructor; cbn.
  - reflexivity.
  - exact Hn.
  - lia.
  - reflexivity.
  - lia.
  - constructor.
  - intros u. split; [tauto|]. intros (Hu & Hw & _).
    destruct (nth_error gens u); cbn in Hw; discriminate.
  - intros u Hu. unfold tinv; cbn.
    destruct (nth_error gens u) eqn:E; cbn.
    + rewrite (nth_error_nth _ _ _ E). lia.
    + apply nth_error_None in E. lia.
  - intros u Hu. apply nth_error_None in Hu. now rewrite Hu.
  - intros u. destruct (nth_error gens u); cbn; split; discriminate.
  - tauto.
  - reflexivity.
Qed.

Ltac boolprops :=
  repeat match goal with
         | H : (_ <? _) = true |- _ => apply Nat.ltb_lt in H
         | H : (_ <? _) = false |- _ => apply Nat.ltb_ge in H
         | H : (_ =? _) = true |- _ => apply Nat.eqb_eq in H
         | H : (_ =? _) = false |- _ => apply Nat.eqb_neq in H
         | H : _ && _ = true |- _ => apply andb_prop in H; destruct H
         | H : mem _ _ = true |- _ => apply mem_In in H
         | H : mem _ _ = false |- _ => apply mem_false in H
         end.

Lemma all_arrived : forall s t,
  NoDup (arrived s) ->
  (forall u, In u (arrived s) <-> (u < bn s /\ waitingb (bpc (bthr s u)) = true /\ cur (bthr s u) = stp s)) ->
  cnt s (stp s) = length (arrived s) -> length (arrived s) < bn s ->
  bpc (bthr s t) = BLocked -> bn s <= cnt s (stp s) + 1 -> t < bn s ->
  forall u, u < bn s -> u <> t -> In u (arrived s).
Proof.
  intros s t ND Iarr Icnt Ilt Hpc Hge Ht.
  apply pigeon; auto.
  - intros u Hu. apply Iarr in Hu. tauto.
  - intros Hc. apply Iarr in Hc. destruct Hc as (_ & Hc & _). rewrite Hpc in Hc. discriminate.
  - lia.
Qed.

Lemma BInv_step : forall spur gens s e s', BInv gens s -> bstep spur s e = Some s' -> BInv gens s'.
Proof.
  intros spur gens s [t o] s' I H.
  destruct I as [In_ In1 Istp Icnt Ilt Ind Iarr Ithr Iab Iown Isl Iacts].
  destruct (Nat.lt_ge_cases t (bn s)) as [Ht|Ht].
  2: { unfold bstep in H. rewrite (Iab t Ht) in H. cbn in H. destruct o; discriminate. }
  pose proof (Ithr t Ht) as Tt. pose proof (Iown t) as Ot. pose proof (Iarr t) as At.
  unfold tinv in Tt. bstep_inv H; boolprops; cbn in Tt, Ot, At.
  all: constructor; cbn; auto.
  (* generic field solvers *)
  all: try solve [ intros u Hu; upd_case u t; [lia | auto] ].
  all: try solve [ intros u; specialize (Iarr u); specialize (Iown u); upd_case u t; cbn;
                   try rewrite Heqb in *; cbn in *; intuition (try congruence; try lia) ].
  all: try solve [ intros u Hu; specialize (Ithr u Hu); unfold tinv in *; cbn; upd_case u t; cbn;
                   [ intuition lia | exact Ithr ] ].
  all: try solve [ intros u Hu; rewrite ?rem_In in Hu; try (destruct Hu as [Hu Hne]);
                   destruct (Isl u Hu) as (P1 & P2); upd_case u t; cbn;
                   [ congruence
                   | split; auto; destruct P2 as [P2|(v & Hv1 & Hv2)]; auto; right; exists v;
                     upd_case v t; cbn; auto; congruence ] ].
  (* --- BLocked / OWaitB: arrival, not the last *)
  - rewrite upd_same. lia.
  - lia.
  - constructor; auto. intros Hc. apply At in Hc. destruct Hc as (_ & Hc & _). discriminate.
  - intros u Hu. specialize (Ithr u Hu). unfold tinv in *. cbn. upd_case u t; cbn.
    + split; [tauto|]. split; [lia|]. left. split; auto. tauto.
    + destruct Ithr as (K1 & K2). split; auto.
      destruct (bpc (bthr s u)); auto.
      * destruct K2 as (L1 & [K2|(C1 & C2 & C3)]); split; auto. right. repeat split; auto.
        rewrite upd_other; auto. rewrite C1. apply flip_neq.
      * destruct K2 as (L1 & [K2|(C1 & C2 & C3)]); split; auto. right. repeat split; auto.
        rewrite upd_other; auto. rewrite C1. apply flip_neq.
      * destruct K2 as (L1 & C1 & C2 & C3). repeat split; auto.
        rewrite upd_other; auto. rewrite C1. apply flip_neq.
      * destruct K2 as (L1 & C1 & C2 & C3). repeat split; auto.
        rewrite upd_other; auto. rewrite C1. apply flip_neq.
  - intros u [<-|Hu].
    + rewrite upd_same. cbn. auto.
    + destruct (Isl u Hu) as (P1 & P2). upd_case u t; [congruence|]. split; auto.
      destruct P2 as [P2|(v & Hv1 & Hv2)]; auto. exfalso.
      assert (bowner s = Some t) by (apply Ot; reflexivity). congruence.
  (* --- BLocked / ONotifyAll: the last arriver of a generation crossed without lambda *)
  - apply flip_lt.
  - now rewrite upd_same.
  - constructor.
  - pose proof (all_arrived s t Ind Iarr Icnt Ilt Heqb Heqb0 Ht) as PG.
    intros u. split; [tauto|]. intros (Hu & Hw & Hc). upd_case u t; cbn in *; [discriminate|].
    apply PG in Hu; auto. apply Iarr in Hu. destruct Hu as (_ & _ & Hu). rewrite Hu in Hc.
    symmetry in Hc. now apply flip_neq in Hc.
  - pose proof (all_arrived s t Ind Iarr Icnt Ilt Heqb Heqb0 Ht) as PG.
    intros u Hu. specialize (Ithr u Hu). unfold tinv in *. cbn. upd_case u t; cbn.
    + rewrite flip_flip by auto. rewrite upd_other by (intros Hc; symmetry in Hc; now apply flip_neq in Hc).
      rewrite upd_same. repeat split; try tauto; try lia.
    + specialize (PG u Hu n). apply Iarr in PG. destruct PG as (_ & Hw & Hc).
      destruct Ithr as (K1 & K2). split; auto.
      destruct (bpc (bthr s u)); cbn in Hw; try discriminate.
      * destruct K2 as (L1 & [(C1 & C2)|(C1 & C2 & C3)]).
        -- split; auto. right. rewrite flip_flip by auto. repeat split; auto; try lia.
           rewrite C1. rewrite upd_other by (intros Hx; symmetry in Hx; now apply flip_neq in Hx).
           rewrite upd_same. lia.
        -- exfalso. rewrite Hc in C1. symmetry in C1. now apply flip_neq in C1.
      * destruct K2 as (L1 & [(C1 & C2)|(C1 & C2 & C3)]).
        -- split; auto. right. rewrite flip_flip by auto. repeat split; auto; try lia.
           rewrite C1. rewrite upd_other by (intros Hx; symmetry in Hx; now apply flip_neq in Hx).
           rewrite upd_same. lia.
        -- exfalso. rewrite Hc in C1. symmetry in C1. now apply flip_neq in C1.
  - rewrite Iacts. destruct Tt as (_ & Tg & _). rewrite Tg.
    replace (bG s + 1) with (S (bG s)) by lia. rewrite seq_S, rev_app_distr. reflexivity.
  (* --- BLocked / OAct: the last arriver *)
  - apply flip_lt.
  - now rewrite upd_same.
  - constructor.
  - pose proof (all_arrived s t Ind Iarr Icnt Ilt Heqb Heqb0 Ht) as PG.
    intros u. split; [tauto|]. intros (Hu & Hw & Hc). upd_case u t; cbn in *; [discriminate|].
    apply PG in Hu; auto. apply Iarr in Hu. destruct Hu as (_ & _ & Hu). rewrite Hu in Hc.
    symmetry in Hc. now apply flip_neq in Hc.
  - pose proof (all_arrived s t Ind Iarr Icnt Ilt Heqb Heqb0 Ht) as PG.
    intros u Hu. specialize (Ithr u Hu). unfold tinv in *. cbn. upd_case u t; cbn.
    + rewrite flip_flip by auto. rewrite upd_other by (intros Hc; symmetry in Hc; now apply flip_neq in Hc).
      rewrite upd_same. repeat split; try tauto; try lia.
    + specialize (PG u Hu n). apply Iarr in PG. destruct PG as (_ & Hw & Hc).
      destruct Ithr as (K1 & K2). split; auto.
      destruct (bpc (bthr s u)); cbn in Hw; try discriminate.
      * destruct K2 as (L1 & [(C1 & C2)|(C1 & C2 & C3)]).
        -- split; auto. right. rewrite flip_flip by auto. repeat split; auto; try lia.
           rewrite C1. rewrite upd_other by (intros Hx; symmetry in Hx; now apply flip_neq in Hx).
           rewrite upd_same. lia.
        -- exfalso. rewrite Hc in C1. symmetry in C1. now apply flip_neq in C1.
      * destruct K2 as (L1 & [(C1 & C2)|(C1 & C2 & C3)]).
        -- split; auto. right. rewrite flip_flip by auto. repeat split; auto; try lia.
           rewrite C1. rewrite upd_other by (intros Hx; symmetry in Hx; now apply flip_neq in Hx).
           rewrite upd_same. lia.
        -- exfalso. rewrite Hc in C1. symmetry in C1. now apply flip_neq in C1.
  - intros u Hu. destruct (Isl u Hu) as (P1 & _). upd_case u t; [congruence|]. split; auto.
    right. exists t. rewrite upd_same. split; [apply Ot; reflexivity|reflexivity].
  - rewrite Iacts. destruct Tt as (_ & Tg & _). rewrite Tg.
    replace (bG s + 1) with (S (bG s)) by lia. rewrite seq_S, rev_app_distr. reflexivity.
  (* --- remaining: exits and re-sleep *)
  - intros u. specialize (Iarr u). upd_case u t; cbn; [|exact Iarr].
    split; [|intros (_ & F & _); discriminate].
    intros Hin. apply At in Hin. destruct Hin as (_ & _ & Hc). rewrite Hc in *. lia.
  - intros u Hu. specialize (Ithr u Hu). unfold tinv in *. cbn. upd_case u t; cbn; [|exact Ithr].
    destruct Tt as (T1 & T2 & [(C1 & C2)|(C1 & C2 & C3)]); [rewrite C1 in *; lia | lia].
  - intros u Hu. destruct (Isl u Hu) as (P1 & P2). upd_case u t; [congruence|]. split; auto.
    destruct P2 as [P2|(v & Hv1 & Hv2)]; auto. exfalso.
    assert (bowner s = Some t) by (apply Ot; reflexivity). congruence.
  - intros u [<-|Hu].
    + rewrite upd_same. cbn. split; auto. left.
      destruct Tt as (T1 & T2 & [(C1 & C2)|(C1 & C2 & C3)]); [auto | lia].
    + destruct (Isl u Hu) as (P1 & P2). upd_case u t; [congruence|]. split; auto.
      destruct P2 as [P2|(v & Hv1 & Hv2)]; auto. exfalso.
      assert (bowner s = Some t) by (apply Ot; reflexivity). congruence.
  - intros u Hu. destruct (Isl u Hu) as (P1 & P2). upd_case u t; [congruence|]. split; auto.
    destruct P2 as [P2|(v & Hv1 & Hv2)]; auto. exfalso.
    assert (bowner s = Some t) by (apply Ot; reflexivity). congruence.
Qed.

Lemma BInv_reachable : forall spur sil gens s,
  1 <= length gens -> breachable spur (length gens) sil gens s -> BInv gens s.
Proof.
  intros spur sil gens s Hn (tr & H). revert H. unfold brun.
  apply (run_invariant (bstep spur) (BInv gens)).
  - intros; eapply BInv_step; eauto.
  - now apply BInv_init.
Qed.

(** every participant is in generation G or (released, still inside) in generation G - 1 *)
Lemma gen_window : forall gens s u, BInv gens s -> u < bn s ->
  gen (bthr s u) = bG s \/ (gen (bthr s u) + 1 = bG s /\ binside s u).
Proof.
  intros gens s u I Hu. pose proof (i_thr _ _ I u Hu) as T. unfold tinv in T. unfold binside.
  destruct (bpc (bthr s u)); intuition.
Qed.

(** thread u has entered generation g: it has completed it, or it is in it, counted and still inside wait() *)
Definition bentered (s : bstate) (u g : nat) : Prop :=
  g < gen (bthr s u) \/ (gen (bthr s u) = g /\ binside s u).

(** No thread leaves generation g before all participants have entered (arrived in) it. *)
Theorem bm_no_early_exit : forall spur sil gens s t u g,
  1 <= length gens -> breachable spur (length gens) sil gens s ->
  t < length gens -> u < length gens ->
  g < gen (bthr s t) -> bentered s u g.
Proof.
  intros spur sil gens s t u g Hn R Ht Hu Hg.
  pose proof (BInv_reachable _ _ _ _ Hn R) as I.
  rewrite <- (i_n _ _ I) in Ht, Hu.
  destruct (gen_window _ _ _ I Ht) as [Et|(Et & _)];
  destruct (gen_window _ _ _ I Hu) as [Eu|(Eu & Iu)]; unfold bentered; try lia.
  destruct (Nat.eq_dec (gen (bthr s u)) g); [right; auto | left; lia].
Qed.

(** The action has run exactly once for each completed generation, in order, and never for a generation that
    is not complete; a thread that has left generation g finds the action of g already run. *)
Theorem bm_action_once_before_release : forall spur sil gens s,
  1 <= length gens -> breachable spur (length gens) sil gens s ->
  map snd (acts s) = rev (seq 0 (bG s)) /\
  (forall g, count_occ Nat.eq_dec (map snd (acts s)) g = if g <? bG s then 1 else 0) /\
  (forall t g, t < length gens -> g < gen (bthr s t) -> In g (map snd (acts s))).
Proof.
  intros spur sil gens s Hn R. pose proof (BInv_reachable _ _ _ _ Hn R) as I.
  pose proof (i_acts _ _ I) as A. split; [exact A|]. split.
  - intros g. rewrite A. clear. induction (bG s) as [|k IH].
    + reflexivity.
    + rewrite seq_S, rev_app_distr. cbn [rev app plus].
      change (count_occ Nat.eq_dec (k :: rev (seq 0 k)) g) with
        (if Nat.eq_dec k g then S (count_occ Nat.eq_dec (rev (seq 0 k)) g) else count_occ Nat.eq_dec (rev (seq 0 k)) g).
      rewrite IH. destruct (Nat.eq_dec k g) as [->|Hne].
      * rewrite Nat.ltb_irrefl. replace (g <? S g) with true by (symmetry; apply Nat.ltb_lt; lia). reflexivity.
      * destruct (g <? k) eqn:E1; destruct (g <? S k) eqn:E2; auto;
          [apply Nat.ltb_lt in E1; apply Nat.ltb_ge in E2 | apply Nat.ltb_ge in E1; apply Nat.ltb_lt in E2]; lia.
  - intros t g Ht Hg. rewrite A. rewrite <- in_rev. apply in_seq.
    rewrite <- (i_n _ _ I) in Ht.
    destruct (gen_window _ _ _ I Ht) as [E|(E & _)]; lia.
Qed.

(** The action is run by the last arriver: when thread t runs it (for generation g), every other participant
    has arrived in generation g and is blocked inside wait(), t itself is counted by this very event, nobody
    has left generation g, and the action of g has not run before. *)
Theorem bm_action_by_last : forall spur sil gens s t g s',
  1 <= length gens -> breachable spur (length gens) sil gens s ->
  bstep spur s (t, OAct g) = Some s' ->
  g = gen (bthr s t) /\ g = bG s /\ ~ In t (arrived s) /\
  (forall u, u < length gens -> u <> t -> In u (arrived s) /\ binside s u /\ gen (bthr s u) = g) /\
  (forall u, u < length gens -> gen (bthr s u) <= g) /\
  ~ In g (map snd (acts s)) /\ acts s' = (t, g) :: acts s.
Proof.
  intros spur sil gens s t g s' Hn R H. pose proof (BInv_reachable _ _ _ _ Hn R) as I.
  destruct I as [In_ In1 Istp Icnt Ilt Ind Iarr Ithr Iab Iown Isl Iacts].
  destruct (Nat.lt_ge_cases t (bn s)) as [Ht|Ht].
  2: { unfold bstep in H. rewrite (Iab t Ht) in H. discriminate. }
  pose proof (Ithr t Ht) as Tt. unfold tinv in Tt.
  unfold bstep in H. destruct (bpc (bthr s t)) eqn:Hpc; try discriminate.
  destruct (cnt s (stp s) + 1 <? bn s) eqn:E; try discriminate.
  destruct (bsil s (gen (bthr s t))) eqn:Esil; try discriminate.
  destruct (g =? gen (bthr s t)) eqn:Eg; try discriminate.
  inversion H; subst; clear H. boolprops. cbn.
  pose proof (all_arrived s t Ind Iarr Icnt Ilt Hpc E Ht) as PG.
  destruct Tt as (T1 & T2 & T3). rewrite <- In_.
  assert (NotIn : ~ In t (arrived s)).
  { intros Hc. apply Iarr in Hc. destruct Hc as (_ & Hc & _). rewrite Hpc in Hc. discriminate. }
  assert (Oth : forall u, u < bn s -> u <> t -> In u (arrived s) /\ binside s u /\ gen (bthr s u) = gen (bthr s t)).
  { intros u Hu Hne. pose proof (PG u Hu Hne) as Hin. split; auto.
    apply Iarr in Hin. destruct Hin as (_ & Hw & Hc).
    pose proof (Ithr u Hu) as Tu. unfold tinv in Tu. unfold binside.
    destruct (bpc (bthr s u)); cbn in Hw; try discriminate.
    - split; auto. destruct Tu as (_ & _ & [(C1 & C2)|(C1 & _)]); [lia|].
      rewrite Hc in C1. symmetry in C1. now apply flip_neq in C1.
    - split; auto. destruct Tu as (_ & _ & [(C1 & C2)|(C1 & _)]); [lia|].
      rewrite Hc in C1. symmetry in C1. now apply flip_neq in C1. }
  subst g.
  split; [reflexivity|]. split; [lia|]. split; [exact NotIn|]. split; [exact Oth|]. split; [|split; [|reflexivity]].
  - intros u Hu. destruct (Nat.eq_dec u t) as [->|Hne]; [lia|]. destruct (Oth u Hu Hne) as (_ & _ & E'). lia.
  - rewrite Iacts, <- in_rev, in_seq. lia.
Qed.

(** ---------------------------------------------------------------- reusable: no rest state short of the end *)
Lemma nth_repeat_lt : forall (K : nat) n u, u < n -> nth u (repeat K n) 0 = K.
Proof. induction n; intros u Hu; [lia|]. destruct u; cbn; auto. apply IHn. lia. Qed.

Lemma holder_enabled : forall spur gens s v,
  BInv gens s -> bowner s = Some v -> exists o s', bstep spur s (v, o) = Some s'.
Proof.
  intros spur gens s v I Ho. apply (i_owner _ _ I) in Ho.
  destruct (bpc (bthr s v)) eqn:Hpc; cbn in Ho; try discriminate.
  - destruct (cnt s (stp s) + 1 <? bn s) eqn:E.
    + exists OWaitB. unfold bstep. rewrite Hpc, E. eauto.
    + destruct (bsil s (gen (bthr s v))) eqn:Es.
      * exists ONotifyAll. unfold bstep. rewrite Hpc, E, Es. eauto.
      * exists (OAct (gen (bthr s v))). unfold bstep. rewrite Hpc, E, Es, Nat.eqb_refl. eauto.
  - destruct (cnt s (cur (bthr s v)) <? bn s) eqn:E.
    + exists OWaitB. unfold bstep. rewrite Hpc, E. eauto.
    + exists OUnlock. unfold bstep. rewrite Hpc, E. eauto.
  - exists ONotifyAll. unfold bstep. rewrite Hpc. eauto.
  - exists OUnlock. unfold bstep. rewrite Hpc. eauto.
Qed.

(** With or without spurious wake-ups (without them is the semantics in which rest states with sleepers could
    exist at all): if all n participants cross the barrier K times, the only
    reachable rest state is the one where every participant has completed all K generations -- for every
    n >= 1 and every K (the barrier is reusable; no wake-up is lost, no generation is overtaken). *)
Theorem bm_reusable : forall spur n sil K s t,
  1 <= n -> breachable spur n sil (repeat K n) s -> bquiescent spur s -> t < n ->
  bpc (bthr s t) = BDone /\ gen (bthr s t) = K.
Proof.
  intros spur n sil K s t Hn R Q Ht.
  assert (Hl : length (repeat K n) = n) by apply repeat_length.
  rewrite <- Hl in R at 1. rewrite <- Hl in Hn.
  pose proof (BInv_reachable _ _ _ _ Hn R) as I. rewrite Hl in Hn.
  assert (Hbn : bn s = n) by (rewrite (i_n _ _ I); exact Hl).
  (* A: the mutex is free *)
  assert (Ho : bowner s = None).
  { destruct (bowner s) as [v|] eqn:Ho; auto.
    destruct (holder_enabled spur _ _ _ I Ho) as (o & s' & Hs). rewrite (Q (v, o)) in Hs. discriminate. }
  (* B: every participant sleeps in the wait set or is done *)
  assert (B : forall u, u < n ->
              (bpc (bthr s u) = BSleep /\ In u (arrived s) /\ gen (bthr s u) = bG s /\ 1 <= left (bthr s u)
               /\ gen (bthr s u) + left (bthr s u) = K) \/
              (bpc (bthr s u) = BDone /\ gen (bthr s u) = bG s /\ gen (bthr s u) = K)).
  { intros u Hu. rewrite <- Hbn in Hu.
    pose proof (i_thr _ _ I u Hu) as T. unfold tinv in T.
    rewrite Hbn in Hu. rewrite (nth_repeat_lt K n u Hu) in T.
    pose proof (i_owner _ _ I u) as Ou. rewrite Ho in Ou.
    destruct (bpc (bthr s u)) eqn:Hpc; cbn in Ou.
    - exfalso. destruct (left (bthr s u)) eqn:El.
      + specialize (Q (u, OEnd)). unfold bstep in Q. rewrite Hpc, El in Q. discriminate.
      + specialize (Q (u, OIn (gen (bthr s u)))). unfold bstep in Q. rewrite Hpc, El, Nat.eqb_refl in Q. discriminate.
    - exfalso. specialize (Q (u, OLock)). unfold bstep in Q. rewrite Hpc, Ho in Q. discriminate.
    - exfalso. destruct Ou as [_ Ou]. specialize (Ou eq_refl). discriminate.
    - left. destruct (mem u (bsleepers s)) eqn:M.
      + apply mem_In in M. destruct (i_sleep _ _ I u M) as (_ & [Hc|(v & Hv & _)]); [|congruence].
        assert (Hin : In u (arrived s)).
        { apply (i_arr _ _ I). rewrite Hbn, Hpc. cbn. auto. }
        destruct T as (T1 & T2 & [(C1 & C2)|(C1 & _)]).
        * repeat split; auto.
        * exfalso. rewrite Hc in C1. symmetry in C1. now apply flip_neq in C1.
      + exfalso. specialize (Q (u, OWaitE false)). unfold bstep in Q. rewrite Hpc, Ho, M in Q. discriminate.
    - exfalso. destruct Ou as [_ Ou]. specialize (Ou eq_refl). discriminate.
    - exfalso. destruct Ou as [_ Ou]. specialize (Ou eq_refl). discriminate.
    - exfalso. destruct Ou as [_ Ou]. specialize (Ou eq_refl). discriminate.
    - exfalso. destruct T as (_ & T2 & T3).
      specialize (Q (u, OOut (gen (bthr s u) - 1))). unfold bstep in Q. rewrite Hpc in Q.
      replace (gen (bthr s u) - 1 + 1) with (gen (bthr s u)) in Q by lia. rewrite Nat.eqb_refl in Q. discriminate.
    - right. destruct T as (T1 & T2 & T3). repeat split; auto. lia. }
  (* C: nobody sleeps *)
  destruct (B t Ht) as [(Hs & Hin & Hg & Hleft & HK)|(Hd & _ & HK)]; [exfalso|auto].
  assert (All : forall u, u < n -> In u (arrived s)).
  { intros u Hu. destruct (B u Hu) as [(_ & Hin' & _)|(_ & Hg' & HK')]; auto. exfalso. lia. }
  assert (Hle : length (seq 0 n) <= length (arrived s)).
  { apply NoDup_incl_length; [apply seq_NoDup|]. intros u Hu. apply in_seq in Hu. apply All. lia. }
  rewrite seq_length in Hle. pose proof (i_lt _ _ I). lia.
Qed.

Lemma all_or_missing : forall (l : list nat) n,
  (forall u, u < n -> In u l) \/ (exists u, u < n /\ ~ In u l).
Proof.
  intros l. induction n as [|n IH].
  - left. intros u Hu. lia.
  - destruct IH as [A|(u & Hu & Hn)].
    + destruct (in_dec Nat.eq_dec n l) as [Hi|Hi].
      * left. intros u Hu. destruct (Nat.eq_dec u n) as [->|Hne]; auto. apply A. lia.
      * right. exists n. split; auto.
    + right. exists u. split; auto.
Qed.

(** The same for ARBITRARY numbers of crossings per participant: in a reachable rest state a thread is either
    finished or it sleeps inside generation g although g < its own number of crossings -- and then some
    participant has finished for good after exactly g crossings, i.e. never enters generation g.  A thread
    rests inside the barrier only because a participant is missing, never because a wake-up was lost. *)
Theorem bm_rest_state : forall spur sil gens s t,
  1 <= length gens -> breachable spur (length gens) sil gens s -> bquiescent spur s -> t < length gens ->
  (bpc (bthr s t) = BDone /\ gen (bthr s t) = nth t gens 0) \/
  (bpc (bthr s t) = BSleep /\ gen (bthr s t) < nth t gens 0 /\
   exists u, u < length gens /\ bpc (bthr s u) = BDone /\ nth u gens 0 = gen (bthr s t)).
Proof.
  intros spur sil gens s t Hn R Q Ht.
  pose proof (BInv_reachable _ _ _ _ Hn R) as I.
  assert (Hbn : bn s = length gens) by apply (i_n _ _ I).
  set (n := length gens) in *.
  assert (Ho : bowner s = None).
  { destruct (bowner s) as [v|] eqn:Ho; auto.
    destruct (holder_enabled spur _ _ _ I Ho) as (o & s' & Hs). rewrite (Q (v, o)) in Hs. discriminate. }
  (* B: every participant sleeps in the wait set or is done *)
  assert (B : forall u, u < n ->
              (bpc (bthr s u) = BSleep /\ In u (arrived s) /\ gen (bthr s u) = bG s /\ 1 <= left (bthr s u)
               /\ gen (bthr s u) + left (bthr s u) = nth u gens 0) \/
              (bpc (bthr s u) = BDone /\ gen (bthr s u) = bG s /\ gen (bthr s u) = nth u gens 0)).
  { intros u Hu. rewrite <- Hbn in Hu.
    pose proof (i_thr _ _ I u Hu) as T. unfold tinv in T.
    rewrite Hbn in Hu.
    pose proof (i_owner _ _ I u) as Ou. rewrite Ho in Ou.
    destruct (bpc (bthr s u)) eqn:Hpc; cbn in Ou.
    - exfalso. destruct (left (bthr s u)) eqn:El.
      + specialize (Q (u, OEnd)). unfold bstep in Q. rewrite Hpc, El in Q. discriminate.
      + specialize (Q (u, OIn (gen (bthr s u)))). unfold bstep in Q. rewrite Hpc, El, Nat.eqb_refl in Q. discriminate.
    - exfalso. specialize (Q (u, OLock)). unfold bstep in Q. rewrite Hpc, Ho in Q. discriminate.
    - exfalso. destruct Ou as [_ Ou]. specialize (Ou eq_refl). discriminate.
    - left. destruct (mem u (bsleepers s)) eqn:M.
      + apply mem_In in M. destruct (i_sleep _ _ I u M) as (_ & [Hc|(v & Hv & _)]); [|congruence].
        assert (Hin : In u (arrived s)).
        { apply (i_arr _ _ I). rewrite Hbn, Hpc. cbn. auto. }
        destruct T as (T1 & T2 & [(C1 & C2)|(C1 & _)]).
        * repeat split; auto.
        * exfalso. rewrite Hc in C1. symmetry in C1. now apply flip_neq in C1.
      + exfalso. specialize (Q (u, OWaitE false)). unfold bstep in Q. rewrite Hpc, Ho, M in Q. discriminate.
    - exfalso. destruct Ou as [_ Ou]. specialize (Ou eq_refl). discriminate.
    - exfalso. destruct Ou as [_ Ou]. specialize (Ou eq_refl). discriminate.
    - exfalso. destruct Ou as [_ Ou]. specialize (Ou eq_refl). discriminate.
    - exfalso. destruct T as (_ & T2 & T3).
      specialize (Q (u, OOut (gen (bthr s u) - 1))). unfold bstep in Q. rewrite Hpc in Q.
      replace (gen (bthr s u) - 1 + 1) with (gen (bthr s u)) in Q by lia. rewrite Nat.eqb_refl in Q. discriminate.
    - right. destruct T as (T1 & T2 & T3). repeat split; auto. lia. }
  destruct (B t Ht) as [(Hs & Hin & Hg & Hleft & HK)|(Hd & _ & HK)]; [right|left; auto].
  split; auto. split; [lia|].
  destruct (all_or_missing (arrived s) n) as [All|(u & Hu & Hmiss)].
  - exfalso.
    assert (Hle : length (seq 0 n) <= length (arrived s)).
    { apply NoDup_incl_length; [apply seq_NoDup|]. intros u Hu. apply in_seq in Hu. apply All. lia. }
    rewrite seq_length in Hle. pose proof (i_lt _ _ I). lia.
  - exists u. split; auto.
    destruct (B u Hu) as [(_ & Hin' & _)|(Hd' & Hg' & HK')]; [contradiction|]. split; auto. lia.
Qed.

(** ---------------------------------------------------------------- boolean enabledness is complete *)
Lemma bstep_thread_enabled : forall spur s t o s',
  bstep spur s (t, o) = Some s' -> bthread_enabled spur s t = true.
Proof.
  intros spur s t o s' H. unfold bthread_enabled.
  bstep_inv H; cbn; auto.
  - apply andb_prop in Heqb1. destruct Heqb1 as [-> _]. apply orb_true_r.
Qed.

Lemma bquiescentb_sound : forall spur gens s,
  BInv gens s -> bquiescentb spur (bn s) s = true -> bquiescent spur s.
Proof.
  intros spur gens s I Q [t o].
  destruct (bstep spur s (t, o)) eqn:E; auto.
  apply bstep_thread_enabled in E.
  destruct (Nat.lt_ge_cases t (bn s)) as [Hlt|Hge].
  - unfold bquiescentb in Q. rewrite forallb_forall in Q.
    specialize (Q t). rewrite in_seq in Q. rewrite E in Q. cbn in Q. discriminate Q. lia.
  - unfold bthread_enabled in E. rewrite (i_above _ _ I t Hge) in E. discriminate.
Qed.

(** the hypotheses are satisfiable by a non-trivial state: 2 threads, thread 0 sleeps in generation 1 after
    generation 0 completed with thread 1 as the last arriver *)
Definition bm_example_trace : list event :=
  [ (0, OIn 0); (1, OIn 0); (0, OLock); (0, OWaitB); (1, OLock); (1, OAct 0); (1, ONotifyAll); (1, OUnlock);
    (1, OOut 0); (0, OWaitE false); (0, OUnlock); (0, OOut 0); (0, OIn 1); (0, OLock); (0, OWaitB) ].

Lemma bm_example_aux : forall r : option bstate,
  r = brun false (binit 2 (fun _ => false) [2; 2]) bm_example_trace ->
  match r with
  | Some s => (bG s =? 1) && bsleepb s 0 && (gen (bthr s 1) =? 1) && (length (acts s) =? 1)
  | None => false
  end = true ->
  exists s, breachable false 2 (fun _ => false) [2; 2] s /\ bG s = 1 /\ bpc (bthr s 0) = BSleep /\ gen (bthr s 1) = 1.
Proof.
  intros r R E. destruct r as [s|]; [|discriminate E]. symmetry in R.
  apply andb_prop in E. destruct E as [E E4]. apply andb_prop in E. destruct E as [E E3].
  apply andb_prop in E. destruct E as [E1 E2].
  exists s. split; [exists bm_example_trace; exact R|].
  split; [now apply Nat.eqb_eq|]. split; [|now apply Nat.eqb_eq].
  unfold bsleepb in E2. destruct (bpc (bthr s 0)); try discriminate E2. reflexivity.
Qed.

Example bm_reachable_nontrivial :
  exists s, breachable false 2 (fun _ => false) [2; 2] s /\ bG s = 1 /\ bpc (bthr s 0) = BSleep /\ gen (bthr s 1) = 1.
Proof. apply (bm_example_aux _ eq_refl). vm_compute. reflexivity. Qed.
