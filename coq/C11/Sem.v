(** C11 — tlx::Semaphore (tlx/semaphore.hpp) as a labelled transition system over the shim's events.

    C++ (all four methods take  std::unique_lock<std::mutex> lock(mutex_)  first and release it on return):
      signal()            : res = ++value_;        cv_.notify_one();   return res;     (SHIPPED)
                            res = ++value_;        cv_.notify_all();   return res;     (after fixes/C11/01)
      signal(n)           : res = (value_ += n);   cv_.notify_all();   return res;
      wait(delta, slack)  : while (value_ < delta + slack) cv_.wait(lock);  value_ -= delta;  return value_;
      try_acquire(d, s)   : if (value_ < d + s) return false;  value_ -= d;  return true;

    [lstep shipped spur] is the step function; [shipped = false] is the repaired signal() (the model the
    trace correspondence uses), [shipped = true] keeps the shipped notify_one.  [spur = true] additionally
    allows spurious wake-ups of condition-variable waiters.  size_t arithmetic is modelled on nat (no
    overflow: delta + slack and the token total stay below 2^64 in every scenario). *)
From Coq Require Import List Arith Bool Lia.
From TLXV Require Import C11.Ev.
Import ListNotations.

Inductive call : Type :=
| CSignal                       (* signal() *)
| CSignalN (n : nat)            (* signal(n) *)
| CWait (delta slack : nat)     (* wait(delta, slack) *)
| CTry (delta slack : nat).     (* try_acquire(delta, slack) *)

Inductive pcT : Type :=
| Idle            (* outside a call; the next call is the head of [prog]; [] = nothing left *)
| Locked          (* owns mutex_: at the start of the body / at the head of wait()'s loop *)
| Posted          (* signal: value_ updated and notification sent; next: unlock and return *)
| Asleep          (* inside cv_.wait(lock): mutex released *)
| Ret (v : nat)   (* call returned v (bool as 0/1); the harness notes it *)
| Done.           (* thread ended *)

Record thread : Type := mkT { pc : pcT; prog : list call }.

Record state : Type := mkS {
  value : nat;                 (* value_ *)
  owner : option nat;          (* owner of mutex_ *)
  sleepers : list nat;         (* wait set of cv_: asleep and not (yet) notified *)
  thr : nat -> thread;
  granted : nat;               (* ghost: tokens handed out by wait / successful try_acquire *)
  signalled : nat              (* ghost: tokens added by signal / signal(n) *)
}.

Definition init (initial : nat) (progs : list (list call)) : state :=
  mkS initial None []
      (fun t => match nth_error progs t with Some p => mkT Idle p | None => mkT Done [] end)
      0 0.

Definition need (c : call) : nat :=
  match c with CWait d s => d + s | CTry d s => d + s | _ => 0 end.

Definition lstep (shipped spur : bool) (s : state) (e : event) : option state :=
  let (t, o) := e in
  let th := thr s t in
  match pc th, o with
  | Idle, OLock =>
      match prog th, owner s with
      | _ :: _, None => Some (mkS (value s) (Some t) (sleepers s) (upd (thr s) t (mkT Locked (prog th)))
                                  (granted s) (signalled s))
      | _, _ => None
      end
  | Idle, OEnd =>
      match prog th with
      | [] => Some (mkS (value s) (owner s) (sleepers s) (upd (thr s) t (mkT Done [])) (granted s) (signalled s))
      | _ => None
      end
  | Locked, ONotifyOne w =>
      (* shipped signal(): ++value_; cv_.notify_one() *)
      match prog th with
      | CSignal :: _ =>
          if shipped then
            match w with
            | None =>
                match sleepers s with
                | [] => Some (mkS (value s + 1) (owner s) [] (upd (thr s) t (mkT Posted (prog th)))
                                  (granted s) (signalled s + 1))
                | _ => None
                end
            | Some u =>
                if mem u (sleepers s)
                then Some (mkS (value s + 1) (owner s) (rem u (sleepers s)) (upd (thr s) t (mkT Posted (prog th)))
                               (granted s) (signalled s + 1))
                else None
            end
          else None
      | _ => None
      end
  | Locked, ONotifyAll =>
      match prog th with
      | CSignal :: _ =>
          (* repaired signal(): ++value_; cv_.notify_all() *)
          if shipped then None
          else Some (mkS (value s + 1) (owner s) [] (upd (thr s) t (mkT Posted (prog th)))
                         (granted s) (signalled s + 1))
      | CSignalN n :: _ =>
          Some (mkS (value s + n) (owner s) [] (upd (thr s) t (mkT Posted (prog th)))
                    (granted s) (signalled s + n))
      | _ => None
      end
  | Posted, OUnlock =>
      match prog th with
      | _ :: rest => Some (mkS (value s) None (sleepers s) (upd (thr s) t (mkT (Ret (value s)) rest))
                               (granted s) (signalled s))
      | [] => None
      end
  | Locked, OWaitB =>
      match prog th with
      | CWait d sl :: _ =>
          if value s <? d + sl
          then Some (mkS (value s) None (t :: sleepers s) (upd (thr s) t (mkT Asleep (prog th)))
                         (granted s) (signalled s))
          else None
      | _ => None
      end
  | Locked, OUnlock =>
      match prog th with
      | CWait d sl :: rest =>
          if d + sl <=? value s
          then Some (mkS (value s - d) None (sleepers s) (upd (thr s) t (mkT (Ret (value s - d)) rest))
                         (granted s + d) (signalled s))
          else None
      | CTry d sl :: rest =>
          if d + sl <=? value s
          then Some (mkS (value s - d) None (sleepers s) (upd (thr s) t (mkT (Ret 1) rest))
                         (granted s + d) (signalled s))
          else Some (mkS (value s) None (sleepers s) (upd (thr s) t (mkT (Ret 0) rest))
                         (granted s) (signalled s))
      | _ => None
      end
  | Asleep, OWaitE sp =>
      match owner s with
      | None =>
          if sp
          then (if spur && mem t (sleepers s)
                then Some (mkS (value s) (Some t) (rem t (sleepers s)) (upd (thr s) t (mkT Locked (prog th)))
                               (granted s) (signalled s))
                else None)
          else (if mem t (sleepers s) then None
                else Some (mkS (value s) (Some t) (sleepers s) (upd (thr s) t (mkT Locked (prog th)))
                               (granted s) (signalled s)))
      | Some _ => None
      end
  | Ret v, ORet x =>
      if x =? v
      then Some (mkS (value s) (owner s) (sleepers s) (upd (thr s) t (mkT Idle (prog th))) (granted s) (signalled s))
      else None
  | _, _ => None
  end.

Definition srun (shipped spur : bool) := run (lstep shipped spur).

Definition reachable (shipped spur : bool) (initial : nat) (progs : list (list call)) (s : state) : Prop :=
  exists tr, srun shipped spur (init initial progs) tr = Some s.

(** No thread has an enabled event (deadlock = rest state of the shim). *)
Definition quiescent (shipped spur : bool) (s : state) : Prop := forall e, lstep shipped spur s e = None.

(** Thread t is blocked in wait(d, sl) although the current value covers its request. *)
Definition stranded (s : state) (t : nat) : Prop :=
  exists d sl rest, pc (thr s t) = Asleep /\ prog (thr s t) = CWait d sl :: rest /\ d + sl <= value s.

(** Boolean versions (used by the OCaml driver at a DEADLOCK of the real code, and by the refutation). *)
Definition thread_enabled (spur : bool) (s : state) (t : nat) : bool :=
  let th := thr s t in
  match pc th with
  | Idle => match prog th with [] => true | _ => match owner s with None => true | Some _ => false end end
  | Locked => match prog th with [] => false | _ => true end
  | Posted => match prog th with [] => false | _ => true end
  | Asleep => match owner s with
              | None => negb (mem t (sleepers s)) || spur
              | Some _ => false
              end
  | Ret _ => true
  | Done => false
  end.

Definition quiescentb (spur : bool) (n : nat) (s : state) : bool :=
  forallb (fun t => negb (thread_enabled spur s t)) (seq 0 n).

Definition strandedb (s : state) (t : nat) : bool :=
  match pc (thr s t), prog (thr s t) with
  | Asleep, CWait d sl :: _ => d + sl <=? value s
  | _, _ => false
  end.

Definition stranded_list (n : nat) (s : state) : list nat := filter (strandedb s) (seq 0 n).

(** blocked waiters (for the comparison with the harness' on_deadlock report): thread, call index is kept by the driver *)
Definition asleepb (s : state) (t : nat) : bool :=
  match pc (thr s t) with Asleep => true | _ => false end.
Definition doneb (s : state) (t : nat) : bool :=
  match pc (thr s t) with Done => true | _ => false end.
Definition remaining (s : state) (t : nat) : nat := length (prog (thr s t)).

(** ------------------------------------------------------------------------------------------------
    Direct checker of the property on a REAL trace (independent of [lstep]): the critical sections are
    linearised by their unlock events; each thread's k-th OUnlock completes its k-th call.  The checker
    recomputes the token count from the calls alone and demands that
      - every value the real code returned equals the recomputed one (conservation: nothing is handed out
        that was not signalled, nothing is lost),
      - a wait(d, s) completes only when the recomputed value is >= d + s,
      - try_acquire succeeds exactly when value >= d + s.                                              *)
Fixpoint sem_check (v : nat) (progs : nat -> list call) (pend : nat -> option nat) (tr : list event) : bool :=
  match tr with
  | [] => true
  | (t, OUnlock) :: r =>
      match progs t with
      | [] => false
      | CSignal :: p => sem_check (v + 1) (upd progs t p) (upd pend t (Some (v + 1))) r
      | CSignalN n :: p => sem_check (v + n) (upd progs t p) (upd pend t (Some (v + n))) r
      | CWait d sl :: p =>
          (d + sl <=? v) && sem_check (v - d) (upd progs t p) (upd pend t (Some (v - d))) r
      | CTry d sl :: p =>
          if d + sl <=? v then sem_check (v - d) (upd progs t p) (upd pend t (Some 1)) r
          else sem_check v (upd progs t p) (upd pend t (Some 0)) r
      end
  | (t, ORet x) :: r =>
      match pend t with
      | Some y => (x =? y) && sem_check v progs (upd pend t None) r
      | None => false
      end
  | _ :: r => sem_check v progs pend r
  end.

Definition sem_check0 (initial : nat) (progs : list (list call)) (tr : list event) : bool :=
  sem_check initial (fun t => nth t progs []) (fun _ => None) tr.
