(** C11 — tlx::ThreadBarrierMutex (tlx/thread_barrier_mutex.hpp) as a labelled transition system.

    C++:
      void wait(Lambda lambda) {
          std::unique_lock<std::mutex> lock(mutex_);
          size_t current = step_;
          counts_[current]++;
          if (counts_[current] < thread_count_) {
              while (counts_[current] < thread_count_) cv_.wait(lock);
          } else {                       // last thread has reached the barrier
              step_ = step_ ? 0 : 1;
              counts_[step_] = 0;
              lambda();
              cv_.notify_all();
          }
      }
      wait_yield(lambda) = wait(lambda).   Lambda defaults to NoOperation<void> (wait() / wait_yield()).

    Non-atomic computation is attached to the following shim event of the same thread (see Ev.v): the
    arrival  current = step_; counts_[current]++  and the branch test happen at the first [OWaitB] (not last)
    or at [OAct] (last arriver: also the flip, the zeroing and the lambda, which the harness makes emit the
    act note).  Ghost state: [gen] of a thread = number of completed wait() calls, [G] = number of completed
    generations, [arrived] = threads that arrived in generation G (latest first), [acts] = log of
    (thread, generation) of every action run. *)
From Coq Require Import List Arith Bool Lia.
From TLXV Require Import C11.Ev.
Import ListNotations.

Inductive bpcT : Type :=
| BIdle        (* outside wait() *)
| BEntered     (* about to call wait(): next event is the lock *)
| BLocked      (* owns the mutex, has not yet counted itself *)
| BSleep       (* inside cv_.wait *)
| BWoken       (* re-acquired the mutex: at the head of the while loop *)
| BActed       (* last arriver after lambda(): next cv_.notify_all() *)
| BNotified    (* last arriver after notify_all: next unlock *)
| BLeaving     (* wait() returned; the harness notes it *)
| BDone.

Record bthread : Type := mkBT { bpc : bpcT; cur : nat; gen : nat; left : nat }.

Record bstate : Type := mkB {
  bn : nat;                    (* thread_count_ *)
  bsil : nat -> bool;          (* scenario: generation g is crossed with the default NoOperation lambda (no act note) *)
  cnt : nat -> nat;            (* counts_[0], counts_[1] *)
  stp : nat;                   (* step_ *)
  bowner : option nat;
  bsleepers : list nat;
  bthr : nat -> bthread;
  bG : nat;                    (* ghost: completed generations *)
  arrived : list nat;          (* ghost: arrivals of generation bG, latest first *)
  acts : list (nat * nat)      (* ghost: (thread, generation) of each action, latest first *)
}.

Definition binit (n : nat) (sil : nat -> bool) (gens : list nat) : bstate :=
  mkB n sil (fun _ => 0) 0 None []
      (fun t => match nth_error gens t with Some k => mkBT BIdle 0 0 k | None => mkBT BDone 0 0 0 end)
      0 [] [].

Definition flip (x : nat) : nat := if x =? 0 then 1 else 0.   (* step_ ? 0 : 1 *)

Definition set_thr (s : bstate) (t : nat) (th : bthread) : bstate :=
  mkB (bn s) (bsil s) (cnt s) (stp s) (bowner s) (bsleepers s) (upd (bthr s) t th) (bG s) (arrived s) (acts s).

Definition bstep (spur : bool) (s : bstate) (e : event) : option bstate :=
  let (t, o) := e in
  let th := bthr s t in
  match bpc th, o with
  | BIdle, OIn g =>
      match left th with
      | S _ => if g =? gen th then Some (set_thr s t (mkBT BEntered (cur th) (gen th) (left th))) else None
      | O => None
      end
  | BIdle, OEnd =>
      match left th with
      | O => Some (set_thr s t (mkBT BDone (cur th) (gen th) 0))
      | S _ => None
      end
  | BEntered, OLock =>
      match bowner s with
      | None => Some (mkB (bn s) (bsil s) (cnt s) (stp s) (Some t) (bsleepers s)
                          (upd (bthr s) t (mkBT BLocked (cur th) (gen th) (left th)))
                          (bG s) (arrived s) (acts s))
      | Some _ => None
      end
  | BLocked, OWaitB =>
      (* current = step_; counts_[current]++; counts_[current] < thread_count_: wait *)
      if cnt s (stp s) + 1 <? bn s
      then Some (mkB (bn s) (bsil s) (upd (cnt s) (stp s) (cnt s (stp s) + 1)) (stp s) None (t :: bsleepers s)
                     (upd (bthr s) t (mkBT BSleep (stp s) (gen th) (left th)))
                     (bG s) (t :: arrived s) (acts s))
      else None
  | BLocked, OAct g =>
      (* last arriver: counts_[current]++; step_ = step_ ? 0 : 1; counts_[step_] = 0; lambda() *)
      if cnt s (stp s) + 1 <? bn s then None
      else if bsil s (gen th) then None
      else if g =? gen th
      then Some (mkB (bn s) (bsil s) (upd (upd (cnt s) (stp s) (cnt s (stp s) + 1)) (flip (stp s)) 0) (flip (stp s))
                     (bowner s) (bsleepers s)
                     (upd (bthr s) t (mkBT BActed (stp s) (gen th) (left th)))
                     (bG s + 1) [] ((t, gen th) :: acts s))
      else None
  | BLocked, ONotifyAll =>
      (* last arriver of a generation crossed with wait() / wait_yield() without lambda: the same updates, the
         default NoOperation lambda runs silently (no event), then cv_.notify_all() *)
      if cnt s (stp s) + 1 <? bn s then None
      else if bsil s (gen th)
      then Some (mkB (bn s) (bsil s) (upd (upd (cnt s) (stp s) (cnt s (stp s) + 1)) (flip (stp s)) 0) (flip (stp s))
                     (bowner s) []
                     (upd (bthr s) t (mkBT BNotified (stp s) (gen th) (left th)))
                     (bG s + 1) [] ((t, gen th) :: acts s))
      else None
  | BActed, ONotifyAll =>
      Some (mkB (bn s) (bsil s) (cnt s) (stp s) (bowner s) []
                (upd (bthr s) t (mkBT BNotified (cur th) (gen th) (left th)))
                (bG s) (arrived s) (acts s))
  | BNotified, OUnlock =>
      Some (mkB (bn s) (bsil s) (cnt s) (stp s) None (bsleepers s)
                (upd (bthr s) t (mkBT BLeaving (cur th) (gen th + 1) (left th - 1)))
                (bG s) (arrived s) (acts s))
  | BSleep, OWaitE sp =>
      match bowner s with
      | None =>
          if sp
          then (if spur && mem t (bsleepers s)
                then Some (mkB (bn s) (bsil s) (cnt s) (stp s) (Some t) (rem t (bsleepers s))
                               (upd (bthr s) t (mkBT BWoken (cur th) (gen th) (left th)))
                               (bG s) (arrived s) (acts s))
                else None)
          else (if mem t (bsleepers s) then None
                else Some (mkB (bn s) (bsil s) (cnt s) (stp s) (Some t) (bsleepers s)
                               (upd (bthr s) t (mkBT BWoken (cur th) (gen th) (left th)))
                               (bG s) (arrived s) (acts s)))
      | Some _ => None
      end
  | BWoken, OWaitB =>
      if cnt s (cur th) <? bn s
      then Some (mkB (bn s) (bsil s) (cnt s) (stp s) None (t :: bsleepers s)
                     (upd (bthr s) t (mkBT BSleep (cur th) (gen th) (left th)))
                     (bG s) (arrived s) (acts s))
      else None
  | BWoken, OUnlock =>
      if cnt s (cur th) <? bn s then None
      else Some (mkB (bn s) (bsil s) (cnt s) (stp s) None (bsleepers s)
                     (upd (bthr s) t (mkBT BLeaving (cur th) (gen th + 1) (left th - 1)))
                     (bG s) (arrived s) (acts s))
  | BLeaving, OOut g =>
      if g + 1 =? gen th
      then Some (set_thr s t (mkBT BIdle (cur th) (gen th) (left th)))
      else None
  | _, _ => None
  end.

Definition brun (spur : bool) := run (bstep spur).

Definition breachable (spur : bool) (n : nat) (sil : nat -> bool) (gens : list nat) (s : bstate) : Prop :=
  exists tr, brun spur (binit n sil gens) tr = Some s.

Definition bquiescent (spur : bool) (s : bstate) : Prop := forall e, bstep spur s e = None.

(** thread u has arrived in its current generation and has not yet left wait() *)
Definition binside (s : bstate) (u : nat) : Prop :=
  match bpc (bthr s u) with BSleep | BWoken | BActed | BNotified => True | _ => False end.

Definition bthread_enabled (spur : bool) (s : bstate) (t : nat) : bool :=
  let th := bthr s t in
  match bpc th with
  | BIdle => true
  | BEntered => match bowner s with None => true | Some _ => false end
  | BLocked | BWoken | BActed | BNotified | BLeaving => true
  | BSleep => match bowner s with
              | None => negb (mem t (bsleepers s)) || spur
              | Some _ => false
              end
  | BDone => false
  end.

Definition bquiescentb (spur : bool) (n : nat) (s : bstate) : bool :=
  forallb (fun t => negb (bthread_enabled spur s t)) (seq 0 n).

Definition bdoneb (s : bstate) (t : nat) : bool :=
  match bpc (bthr s t) with BDone => true | _ => false end.
Definition bsleepb (s : bstate) (t : nat) : bool :=
  match bpc (bthr s t) with BSleep => true | _ => false end.
Definition bgen (s : bstate) (t : nat) : nat := gen (bthr s t).
