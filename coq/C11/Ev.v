(** C11 — events of the deterministic scheduler shim (harness/sched/verif_sched.hpp) and small helpers
    shared by the three labelled transition systems (Semaphore, ThreadBarrierMutex, ThreadBarrierSpin).

    One event = one token "tid:KIND:args" of the shim's log.  Every component of C11 uses exactly one mutex
    and one condition variable (m0, c0) and at most two atomics (a0, a1: numbered in order of first use), so
    the mutex / condvar identity is not carried in the event; the OCaml driver rejects any other identity.

    Convention used by all three models: the non-atomic local computation a thread performs between two shim
    calls is attached to the LATER of the two events (guards on it decide which event is possible).  While a
    thread is between [OLock] and [OUnlock]/[OWaitB] it owns the mutex, so no other thread can observe the
    difference. *)
From Coq Require Import List Arith Bool Lia.
Import ListNotations.

Inductive op : Type :=
| OLock                         (* L:m0 *)
| OUnlock                       (* U:m0 *)
| OWaitB                        (* WB:c0:m0  atomically release the mutex and join the wait set *)
| OWaitE (spurious : bool)      (* WE:c0:m0[:spurious]  re-acquired the mutex *)
| ONotifyOne (woken : option nat) (* N1:c0:<tid|->  the scheduler's choice is part of the event *)
| ONotifyAll                    (* NA:c0 *)
| OLoad (a v : nat)             (* AL:aK:v *)
| OStore (a v : nat)            (* AS:aK:v *)
| ORmw (a old new : nat)        (* AR:aK:old:new *)
| OYield                        (* Y *)
| ORet (v : nat)                (* US:ret:k:v  value returned by the k-th call of the thread *)
| OIn (g : nat)                 (* US:in:g:0   about to call wait() for its g-th generation *)
| OOut (g : nat)                (* US:out:g:0  wait() of generation g returned *)
| OAct (g : nat)                (* US:act:g:0  the barrier action (lambda) runs *)
| OEnd.                         (* END *)

Definition event : Type := (nat * op)%type.

(** function update *)
Definition upd {A : Type} (f : nat -> A) (t : nat) (x : A) : nat -> A :=
  fun u => if Nat.eqb u t then x else f u.

Lemma upd_same : forall A (f : nat -> A) t x, upd f t x t = x.
Proof. intros. unfold upd. now rewrite Nat.eqb_refl. Qed.

Lemma upd_other : forall A (f : nat -> A) t u x, u <> t -> upd f t x u = f u.
Proof. intros. unfold upd. destruct (Nat.eqb_spec u t); congruence. Qed.

Lemma upd_cases : forall A (f : nat -> A) t u x,
  (u = t /\ upd f t x u = x) \/ (u <> t /\ upd f t x u = f u).
Proof. intros. destruct (Nat.eq_dec u t); [left|right]; split; auto; subst; auto using upd_same, upd_other. Qed.

(** membership / removal on lists of thread ids *)
Definition mem (t : nat) (l : list nat) : bool := existsb (Nat.eqb t) l.
Definition rem (t : nat) (l : list nat) : list nat := filter (fun u => negb (Nat.eqb u t)) l.

Lemma mem_In : forall t l, mem t l = true <-> In t l.
Proof.
  intros. unfold mem. rewrite existsb_exists. split.
  - intros (x & Hx & He). apply Nat.eqb_eq in He. now subst.
  - intros H. exists t. split; auto. apply Nat.eqb_refl.
Qed.

Lemma mem_false : forall t l, mem t l = false <-> ~ In t l.
Proof. intros. rewrite <- mem_In. destruct (mem t l); split; congruence. Qed.

Lemma rem_In : forall t u l, In u (rem t l) <-> In u l /\ u <> t.
Proof.
  intros. unfold rem. rewrite filter_In. split; intros (H1 & H2); split; auto.
  - destruct (Nat.eqb_spec u t); simpl in *; congruence.
  - destruct (Nat.eqb_spec u t); simpl; congruence.
Qed.

Lemma rem_NoDup : forall t l, NoDup l -> NoDup (rem t l).
Proof. intros. unfold rem. now apply NoDup_filter. Qed.

(** generic fold of an LTS over a trace *)
Section Run.
  Context {St : Type} (step : St -> event -> option St).
  Fixpoint run (s : St) (tr : list event) : option St :=
    match tr with
    | [] => Some s
    | e :: r => match step s e with Some s' => run s' r | None => None end
    end.

  Lemma run_app : forall tr1 tr2 s,
    run s (tr1 ++ tr2) = match run s tr1 with Some s' => run s' tr2 | None => None end.
  Proof. induction tr1; simpl; intros; auto. destruct (step s a); auto. Qed.

  Lemma run_snoc : forall tr e s s1 s2, run s tr = Some s1 -> step s1 e = Some s2 -> run s (tr ++ [e]) = Some s2.
  Proof. intros. rewrite run_app, H. simpl. now rewrite H0. Qed.

  (** invariants by induction over the trace = over all interleavings *)
  Lemma run_invariant : forall (P : St -> Prop),
    (forall s e s', P s -> step s e = Some s' -> P s') ->
    forall tr s s', P s -> run s tr = Some s' -> P s'.
  Proof.
    intros P Hstep. induction tr; simpl; intros s s' Hs Hr.
    - now inversion Hr; subst.
    - destruct (step s a) eqn:E; try discriminate. eauto.
  Qed.
End Run.

(** destruct every scrutinee of an unfolded step function *)
Ltac destruct_matches H :=
  repeat match type of H with
         | context [match ?x with _ => _ end] => destruct x eqn:?; try discriminate
         end.
