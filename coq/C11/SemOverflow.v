(** C11 — the threshold test of Semaphore::wait / try_acquire on 64-bit machine words (size_t = N mod 2^64).

    The transition system of Sem.v computes on nat: "blocked iff value < delta + slack" with the mathematical sum.
    The C++ evaluates the test in size_t.  This file shows that the repaired expression (/repo ca9b7a2,
    fixes/C11/02)
          value_ < delta || value_ - delta < slack
    IS the mathematical test for all 64-bit arguments, and that the shipped expression
          value_ < delta + slack                       (sum formed in size_t: wraps around)
    is not: [blocked_shipped_refuted]. *)
From Coq Require Import NArith Bool Lia.
Local Open Scope N_scope.

Definition W : N := 2 ^ 64.
Definition wrap (x : N) : N := x mod W.

(** "the caller must block / try_acquire fails", as the property states it *)
Definition blocked_spec (value delta slack : N) : bool := value <? delta + slack.

(** shipped: value_ < delta + slack with the sum in size_t *)
Definition blocked_shipped (value delta slack : N) : bool := value <? wrap (delta + slack).

(** repaired: value_ < delta || value_ - delta < slack  (the subtraction is only evaluated when value_ >= delta;
    written with the wrapping machine subtraction all the same) *)
Definition blocked (value delta slack : N) : bool :=
  (value <? delta) || (wrap (value + W - delta) <? slack).

Lemma wrap_small : forall x, x < W -> wrap x = x.
Proof. intros. unfold wrap. now apply N.mod_small. Qed.

(** the repaired test is the specification, for all 64-bit values *)
Theorem blocked_correct : forall value delta slack,
  value < W -> delta < W -> slack < W ->
  blocked value delta slack = blocked_spec value delta slack.
Proof.
  intros v d s Hv Hd Hs. unfold blocked, blocked_spec.
  destruct (v <? d) eqn:E1; cbn [orb].
  - apply N.ltb_lt in E1. symmetry. apply N.ltb_lt. lia.
  - apply N.ltb_ge in E1.
    assert (Hw : wrap (v + W - d) = v - d).
    { unfold wrap. replace (v + W - d) with ((v - d) + 1 * W) by lia.
      rewrite N.mod_add by (unfold W; discriminate). apply N.mod_small. lia. }
    rewrite Hw.
    destruct (v - d <? s) eqn:E2; symmetry.
    + apply N.ltb_lt in E2. apply N.ltb_lt. lia.
    + apply N.ltb_ge in E2. apply N.ltb_ge. lia.
Qed.

(** the shipped test agrees with the specification exactly when the sum does not wrap ... *)
Theorem blocked_shipped_ok_without_wrap : forall value delta slack,
  delta + slack < W -> blocked_shipped value delta slack = blocked_spec value delta slack.
Proof. intros v d s H. unfold blocked_shipped, blocked_spec. now rewrite wrap_small. Qed.

(** ... and is wrong otherwise: value 0, delta = 2^64 - 1, slack = 1: the sum wraps to 0, the shipped test lets
    the caller through (and value_ -= delta then wraps to 1) although 0 < 2^64. *)
Theorem blocked_shipped_refuted :
  exists value delta slack,
    value < W /\ delta < W /\ slack < W /\
    blocked_spec value delta slack = true /\ blocked_shipped value delta slack = false /\
    wrap (value + W - delta) = 1.
Proof. exists 0, (W - 1), 1. vm_compute. repeat split; reflexivity. Qed.

Example blocked_repaired_on_witness : blocked 0 (W - 1) 1 = true.
Proof. vm_compute. reflexivity. Qed.
