(** C11 — proofs about the Semaphore transition system (Sem.v): all reachable states = all interleavings,
    any number of threads, any call lists. *)
From Coq Require Import List Arith Bool Lia.
From TLXV Require Import C11.Ev C11.Sem.
Import ListNotations.

Ltac upd_case u t :=
  destruct (Nat.eq_dec u t) as [->|?];
  [rewrite ?upd_same in * | rewrite ?upd_other in * by assumption].

Ltac step_inv H :=
  unfold lstep in H; destruct_matches H; inversion H; subst; clear H.

(** ---------------------------------------------------------------- well-formedness (any variant) *)
Definition tok (s : state) (t : nat) : Prop :=
  (owner s = Some t <-> (pc (thr s t) = Locked \/ pc (thr s t) = Posted)) /\
  (In t (sleepers s) -> pc (thr s t) = Asleep) /\
  (pc (thr s t) = Asleep -> exists d sl r, prog (thr s t) = CWait d sl :: r) /\
  (pc (thr s t) = Locked \/ pc (thr s t) = Posted -> prog (thr s t) <> []).

Definition WF (n : nat) (s : state) : Prop :=
  (forall t, tok s t) /\ (forall t, n <= t -> thr s t = mkT Done []).

Lemma WF_init : forall initial progs, WF (length progs) (init initial progs).
Proof.
  intros. split; intros t.
  - unfold tok; cbn. destruct (nth_error progs t); cbn; intuition discriminate.
  - cbn. intros H. apply nth_error_None in H. now rewrite H.
Qed.

Lemma WF_step : forall shipped spur n s e s', WF n s -> lstep shipped spur s e = Some s' -> WF n s'.
Proof.
  intros shipped spur n s [t o] s' [W A] H.
  assert (At := A t).
  step_inv H; (split; [ intros u; pose proof (W u) as Wu; pose proof (W t) as Wt; unfold tok in *; cbn;
                        upd_case u t; cbn;
                        rewrite ?rem_In; try rewrite Heqp in *; try rewrite Heql in *; try rewrite Heqo0 in *; try rewrite Heqo1 in *
                      | intros u Hu; cbn; upd_case u t; auto; rewrite At in * by assumption; cbn in *; try discriminate ]).
  all: try solve [intuition (eauto; try congruence)].
  all: destruct Wt as (_ & _ & Wt3 & _); destruct (Wt3 eq_refl) as (d & sl & r & E); rewrite E;
    try match goal with H : mem _ _ = false |- _ => apply mem_false in H end;
    intuition congruence.
Qed.

Lemma WF_run : forall shipped spur n tr s s', WF n s -> srun shipped spur s tr = Some s' -> WF n s'.
Proof.
  intros shipped spur n tr s s'. unfold srun.
  apply (run_invariant (lstep shipped spur) (WF n)). intros; eapply WF_step; eauto.
Qed.

Lemma WF_reachable : forall shipped spur initial progs s,
  reachable shipped spur initial progs s -> WF (length progs) s.
Proof. intros shipped spur initial progs s (tr & H). eapply WF_run; eauto using WF_init. Qed.

(** Mutual exclusion: at most one thread is inside a critical section, and it is the owner. *)
Theorem mutual_exclusion : forall shipped spur initial progs s t u,
  reachable shipped spur initial progs s ->
  (pc (thr s t) = Locked \/ pc (thr s t) = Posted) ->
  (pc (thr s u) = Locked \/ pc (thr s u) = Posted) -> t = u.
Proof.
  intros shipped spur initial progs s t u R Ht Hu.
  destruct (WF_reachable _ _ _ _ _ R) as [W _].
  destruct (W t) as ((_ & Wt) & _), (W u) as ((_ & Wu) & _).
  specialize (Wt Ht). specialize (Wu Hu). congruence.
Qed.

(** ---------------------------------------------------------------- conservation of tokens *)
Definition conserved (initial : nat) (s : state) : Prop := granted s + value s = initial + signalled s.

Lemma conserved_step : forall shipped spur initial s e s',
  conserved initial s -> lstep shipped spur s e = Some s' -> conserved initial s'.
Proof.
  intros shipped spur initial s [t o] s' C H. unfold conserved in *.
  step_inv H; cbn; try lia.
  - apply Nat.leb_le in Heqb. lia.
  - apply Nat.leb_le in Heqb. lia.
Qed.

(** granted + value = initial + signalled in every reachable state (every interleaving, every variant):
    the semaphore never hands out more tokens than were signalled plus its initial value. *)
Theorem conservation : forall shipped spur initial progs s,
  reachable shipped spur initial progs s ->
  granted s + value s = initial + signalled s /\ granted s <= initial + signalled s.
Proof.
  intros shipped spur initial progs s (tr & H).
  assert (C : conserved initial s).
  { revert H. unfold srun. apply (run_invariant (lstep shipped spur) (conserved initial)).
    - intros; eapply conserved_step; eauto.
    - unfold conserved; cbn; lia. }
  unfold conserved in C. lia.
Qed.

(** ---------------------------------------------------------------- wait threshold *)
(** A wait(d, sl) returns (its unlock event) only from a state whose value is at least d + sl; it takes
    exactly d tokens and returns the new value.  try_acquire(d, sl) succeeds exactly when value >= d + sl. *)
Theorem wait_threshold : forall shipped spur s t s' d sl rest,
  lstep shipped spur s (t, OUnlock) = Some s' ->
  pc (thr s t) = Locked -> prog (thr s t) = CWait d sl :: rest ->
  d + sl <= value s /\ value s' = value s - d /\ granted s' = granted s + d /\
  pc (thr s' t) = Ret (value s - d) /\ prog (thr s' t) = rest.
Proof.
  intros shipped spur s t s' d sl rest H Hpc Hpr.
  unfold lstep in H. rewrite Hpc, Hpr in H.
  destruct (d + sl <=? value s) eqn:E; try discriminate. inversion H; subst; clear H; cbn.
  apply Nat.leb_le in E. rewrite upd_same. cbn. auto.
Qed.

Theorem try_acquire_exact : forall shipped spur s t s' d sl rest,
  lstep shipped spur s (t, OUnlock) = Some s' ->
  pc (thr s t) = Locked -> prog (thr s t) = CTry d sl :: rest ->
  (d + sl <= value s /\ value s' = value s - d /\ pc (thr s' t) = Ret 1) \/
  (value s < d + sl /\ value s' = value s /\ granted s' = granted s /\ pc (thr s' t) = Ret 0).
Proof.
  intros shipped spur s t s' d sl rest H Hpc Hpr.
  unfold lstep in H. rewrite Hpc, Hpr in H.
  destruct (d + sl <=? value s) eqn:E; inversion H; subst; clear H; cbn; rewrite upd_same; cbn.
  - apply Nat.leb_le in E. left; auto.
  - apply Nat.leb_gt in E. right; auto.
Qed.

(** a thread blocks (OWaitB) only when the value does not cover its request *)
Theorem blocks_only_below_threshold : forall shipped spur s t s',
  lstep shipped spur s (t, OWaitB) = Some s' ->
  exists d sl rest, prog (thr s t) = CWait d sl :: rest /\ value s < d + sl.
Proof.
  intros shipped spur s t s' H. step_inv H. apply Nat.ltb_lt in Heqb. eauto.
Qed.


(** ---------------------------------------------------------------- no stranded waiter (repaired signal()) *)
(** Key invariant of the repaired code: a thread that sleeps un-notified has a request the value does not cover. *)
Definition sleepers_below (s : state) : Prop :=
  forall t d sl r, In t (sleepers s) -> prog (thr s t) = CWait d sl :: r -> value s < d + sl.

Lemma sleepers_below_step : forall spur n s e s',
  WF n s -> sleepers_below s -> lstep false spur s e = Some s' -> sleepers_below s'.
Proof.
  intros spur n s [t o] s' [W _] L H.
  pose proof (W t) as Wt. unfold tok in Wt.
  step_inv H; unfold sleepers_below in *; cbn; intros u d' sl' r' Hin Hp;
    try rewrite rem_In in Hin; try (destruct Hin as [Hin Hne]);
    try contradiction;
    upd_case u t; cbn in *;
    try (rewrite Heqp in Wt);
    try solve [ eapply L; eauto ];
    try solve [ exfalso; intuition congruence ];
    try solve [ assert (value s < d' + sl') by (eapply L; eauto); lia ].
  all: try solve [ destruct Hin as [Hin|Hin]; [ try congruence | try solve [eapply L; eauto] ] ].
  inversion Hp; subst. change ((value s <? d' + sl') = true) in Heqb. now apply Nat.ltb_lt in Heqb.
Qed.

Lemma sleepers_below_reachable : forall spur initial progs s,
  reachable false spur initial progs s -> sleepers_below s.
Proof.
  intros spur initial progs s (tr & H).
  assert (G : WF (length progs) s /\ sleepers_below s).
  { revert H. unfold srun.
    apply (run_invariant (lstep false spur) (fun s => WF (length progs) s /\ sleepers_below s)).
    - intros s0 e s1 [W L] Hs. split; [eapply WF_step | eapply sleepers_below_step]; eauto.
    - split; [apply WF_init | intros t d sl r []]. }
  tauto.
Qed.

(** the owner of the mutex always has an enabled event *)
Lemma owner_enabled : forall spur n s u,
  WF n s -> owner s = Some u -> exists o s', lstep false spur s (u, o) = Some s'.
Proof.
  intros spur n s u [W _] Ho. destruct (W u) as ((W1 & _) & _ & _ & W4).
  specialize (W1 Ho). specialize (W4 W1).
  destruct W1 as [Hpc|Hpc].
  - destruct (prog (thr s u)) as [|c rest] eqn:Hp; [congruence|].
    destruct c as [|k|d sl|d sl].
    + exists ONotifyAll. unfold lstep. rewrite Hpc, Hp. eauto.
    + exists ONotifyAll. unfold lstep. rewrite Hpc, Hp. eauto.
    + destruct (value s <? d + sl) eqn:E.
      * exists OWaitB. unfold lstep. rewrite Hpc, Hp, E. eauto.
      * exists OUnlock. unfold lstep. rewrite Hpc, Hp.
        apply Nat.ltb_ge in E. apply Nat.leb_le in E. rewrite E. eauto.
    + exists OUnlock. unfold lstep. rewrite Hpc, Hp. destruct (d + sl <=? value s); eauto.
  - destruct (prog (thr s u)) as [|c rest] eqn:Hp; [congruence|].
    exists OUnlock. unfold lstep. rewrite Hpc, Hp. eauto.
Qed.

(** With the repaired signal(): in every reachable rest state (no thread has an enabled event) no thread is
    blocked in a wait(d, sl) whose request the current value covers.  Any number of threads, any call lists;
    [spur = false] is the semantics in which rest states exist while some thread sleeps. *)
Theorem no_stranded_waiter : forall spur initial progs s t,
  reachable false spur initial progs s -> quiescent false spur s -> ~ stranded s t.
Proof.
  intros spur initial progs s t R Q (d & sl & rest & Hpc & Hpr & Hle).
  pose proof (WF_reachable _ _ _ _ _ R) as W.
  pose proof (sleepers_below_reachable _ _ _ _ R) as L.
  destruct (mem t (sleepers s)) eqn:M.
  - apply mem_In in M. specialize (L t d sl rest M Hpr). lia.
  - destruct (owner s) as [u|] eqn:Ho.
    + destruct (owner_enabled spur _ _ _ W Ho) as (o & s' & Hs). rewrite (Q (u, o)) in Hs. discriminate.
    + specialize (Q (t, OWaitE false)). unfold lstep in Q. rewrite Hpc, Ho, M in Q. discriminate.
Qed.

(** ---------------------------------------------------------------- boolean enabledness is complete *)
Lemma step_thread_enabled : forall shipped spur s t o s',
  lstep shipped spur s (t, o) = Some s' -> thread_enabled spur s t = true.
Proof.
  intros shipped spur s t o s' H. unfold thread_enabled.
  step_inv H; cbn; auto.
  - apply andb_prop in Heqb0. destruct Heqb0 as [-> _]. apply orb_true_r.
Qed.

Lemma quiescentb_sound : forall shipped spur n s,
  WF n s -> quiescentb spur n s = true -> quiescent shipped spur s.
Proof.
  intros shipped spur n s [_ A] Q [t o].
  destruct (lstep shipped spur s (t, o)) eqn:E; auto.
  apply step_thread_enabled in E.
  destruct (Nat.lt_ge_cases t n) as [Hlt|Hge].
  - unfold quiescentb in Q. rewrite forallb_forall in Q.
    specialize (Q t). rewrite in_seq in Q. rewrite E in Q. cbn in Q. discriminate Q. lia.
  - unfold thread_enabled in E. rewrite (A t Hge) in E. discriminate.
Qed.

(** ---------------------------------------------------------------- the shipped signal() is refuted *)
(** initial 0;  A (thread 0): wait(1,1);  B (thread 1): wait(1,0);  C (thread 2): signal(); signal().
    Both waiters sleep; both notify_one calls pick A; A returns; B stays blocked although value = 1. *)
Definition witness_progs : list (list call) := [[CWait 1 1]; [CWait 1 0]; [CSignal; CSignal]].
Definition witness_trace : list event :=
  [ (0, OLock); (0, OWaitB); (1, OLock); (1, OWaitB);
    (2, OLock); (2, ONotifyOne (Some 0)); (2, OUnlock); (2, ORet 1);
    (0, OWaitE false); (0, OWaitB);
    (2, OLock); (2, ONotifyOne (Some 0)); (2, OUnlock); (2, ORet 2); (2, OEnd);
    (0, OWaitE false); (0, OUnlock); (0, ORet 1); (0, OEnd) ].

Definition witness_ok : bool :=
  match srun true false (init 0 witness_progs) witness_trace with
  | Some s => quiescentb false 3 s && strandedb s 1 && (value s =? 1)
  | None => false
  end.

Lemma strandedb_sound : forall s t, strandedb s t = true -> stranded s t.
Proof.
  intros s t H. unfold strandedb in H. unfold stranded.
  destruct (pc (thr s t)) eqn:Hpc; try discriminate.
  destruct (prog (thr s t)) as [|[| |d sl|] r] eqn:Hp; try discriminate.
  apply Nat.leb_le in H. eauto 8.
Qed.

Lemma refute_aux : forall r : option state,
  r = srun true false (init 0 witness_progs) witness_trace ->
  match r with
  | Some s => quiescentb false 3 s && strandedb s 1 && (value s =? 1)
  | None => false
  end = true ->
  exists initial progs s t,
    reachable true false initial progs s /\ quiescent true false s /\ stranded s t.
Proof.
  intros r R E. destruct r as [s|]; [|discriminate E]. symmetry in R.
  apply andb_prop in E. destruct E as [E E3]. apply andb_prop in E. destruct E as [E1 E2].
  exists 0, witness_progs, s, 1. split; [|split].
  - exists witness_trace. exact R.
  - apply quiescentb_sound with (n := 3); [|exact E1].
    apply (WF_reachable true false 0 witness_progs). exists witness_trace. exact R.
  - now apply strandedb_sound.
Qed.

Theorem signal_shipped_refuted :
  exists initial progs s t,
    reachable true false initial progs s /\ quiescent true false s /\ stranded s t.
Proof. apply (refute_aux _ eq_refl). vm_compute. reflexivity. Qed.

(** the hypotheses of [no_stranded_waiter] are satisfiable by a non-trivial state: the same scenario under the
    repaired signal() can rest with A blocked (value 1 < 2) -- a legitimate rest state. *)
Definition example_trace : list event :=
  [ (0, OLock); (0, OWaitB); (1, OLock); (1, OWaitB);
    (2, OLock); (2, ONotifyAll); (2, OUnlock); (2, ORet 1);
    (0, OWaitE false); (0, OWaitB); (1, OWaitE false); (1, OUnlock); (1, ORet 0); (1, OEnd);
    (2, OLock); (2, ONotifyAll); (2, OUnlock); (2, ORet 1); (2, OEnd);
    (0, OWaitE false); (0, OWaitB) ].

Lemma example_aux : forall r : option state,
  r = srun false false (init 0 witness_progs) example_trace ->
  match r with
  | Some s => quiescentb false 3 s && asleepb s 0 && (value s =? 1)
  | None => false
  end = true ->
  exists s, reachable false false 0 witness_progs s /\ quiescent false false s /\
            pc (thr s 0) = Asleep /\ value s = 1.
Proof.
  intros r R E. destruct r as [s|]; [|discriminate E]. symmetry in R.
  apply andb_prop in E. destruct E as [E E3]. apply andb_prop in E. destruct E as [E1 E2].
  exists s. split; [exists example_trace; exact R|]. split; [|split].
  - apply quiescentb_sound with (n := 3); [|exact E1].
    apply (WF_reachable false false 0 witness_progs). exists example_trace. exact R.
  - unfold asleepb in E2. destruct (pc (thr s 0)); try discriminate E2. reflexivity.
  - now apply Nat.eqb_eq.
Qed.

Example reachable_nontrivial :
  exists s, reachable false false 0 witness_progs s /\ quiescent false false s /\
            pc (thr s 0) = Asleep /\ value s = 1.
Proof. apply (example_aux _ eq_refl). vm_compute. reflexivity. Qed.
