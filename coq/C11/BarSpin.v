(** C11 — tlx::ThreadBarrierSpin (tlx/thread_barrier_spin.hpp) as a labelled transition system.

    C++ (thread_count_ holds n - 1):
      void wait(Lambda lambda) {                                   // wait_yield: identical, the loop body yields
          size_t this_step = step_.load(acquire);
          if (waiting_.fetch_add(1, acq_rel) == thread_count_) {
              waiting_.store(0, release);   lambda();   step_.fetch_add(1, acq_rel);
          } else {
              while (step_.load(acquire) == this_step) { /* spin */  or  std::this_thread::yield(); }
          }
      }
    Atomics are sequentially consistent in the model (one event per operation); a0 = step_, a1 = waiting_
    (shim numbering: order of first use).  The spin loop is the self-loop [OLoad 0 v] with v = this_step.
    Ghost state: [gen], [arrived] (arrivals of the current generation = value of step_, latest first), [acts]. *)
From Coq Require Import List Arith Bool Lia.
From TLXV Require Import C11.Ev.
Import ListNotations.

Inductive spcT : Type :=
| SIdle        (* outside wait() *)
| SEntered     (* about to call wait(): next event loads step_ *)
| SLoaded      (* this_step loaded; next: fetch_add on waiting_ *)
| SSpin        (* not last: next event loads step_ *)
| SYield       (* wait_yield: loaded the old step; next event yields *)
| SLastA       (* last arriver: next waiting_.store(0) *)
| SLastB       (* next lambda() *)
| SLastC       (* next step_.fetch_add(1) *)
| SLeaving     (* wait() returned; the harness notes it *)
| SDone.

Record sthread : Type := mkST { spc : spcT; tstep : nat; sgen : nat; sleft : nat }.

Record sstate : Type := mkSS {
  sn : nat;                    (* number of participants; thread_count_ = sn - 1 *)
  yld : nat -> nat -> bool;    (* scenario: thread t crosses its generation g with wait_yield (else wait) *)
  ssil : nat -> bool;          (* scenario: generation g is crossed with the default NoOperation lambda (no act note) *)
  waiting : nat;               (* waiting_ *)
  sstp : nat;                  (* step_ *)
  sthr : nat -> sthread;
  sarrived : list nat;         (* ghost: arrivals of generation sstp, latest first *)
  sacts : list (nat * nat)     (* ghost: (thread, generation) of each action, latest first *)
}.

Definition sinit (n : nat) (y : nat -> nat -> bool) (sil : nat -> bool) (gens : list nat) : sstate :=
  mkSS n y sil 0 0
       (fun t => match nth_error gens t with Some k => mkST SIdle 0 0 k | None => mkST SDone 0 0 0 end)
       [] [].

Definition sset_thr (s : sstate) (t : nat) (th : sthread) : sstate :=
  mkSS (sn s) (yld s) (ssil s) (waiting s) (sstp s) (upd (sthr s) t th) (sarrived s) (sacts s).

Definition sstep (s : sstate) (e : event) : option sstate :=
  let (t, o) := e in
  let th := sthr s t in
  match spc th, o with
  | SIdle, OIn g =>
      match sleft th with
      | S _ => if g =? sgen th then Some (sset_thr s t (mkST SEntered (tstep th) (sgen th) (sleft th))) else None
      | O => None
      end
  | SIdle, OEnd =>
      match sleft th with
      | O => Some (sset_thr s t (mkST SDone (tstep th) (sgen th) 0))
      | S _ => None
      end
  | SIdle, OLoad a v =>
      (* the public accessor step(): step_.load(acquire), called by the harness between two crossings *)
      if (a =? 0) && (v =? sstp s) then Some s else None
  | SEntered, OLoad a v =>
      if (a =? 0) && (v =? sstp s)
      then Some (sset_thr s t (mkST SLoaded v (sgen th) (sleft th)))
      else None
  | SLoaded, ORmw a old new =>
      if (a =? 1) && (old =? waiting s) && (new =? old + 1)
      then Some (mkSS (sn s) (yld s) (ssil s) new (sstp s)
                      (upd (sthr s) t (mkST (if old =? sn s - 1 then SLastA else SSpin) (tstep th) (sgen th) (sleft th)))
                      (t :: sarrived s) (sacts s))
      else None
  | SLastA, OStore a v =>
      if (a =? 1) && (v =? 0)
      then (if ssil s (sgen th)
            then (* default NoOperation lambda: runs silently (no event) right after the store *)
                 Some (mkSS (sn s) (yld s) (ssil s) 0 (sstp s)
                            (upd (sthr s) t (mkST SLastC (tstep th) (sgen th) (sleft th)))
                            (sarrived s) ((t, sgen th) :: sacts s))
            else Some (mkSS (sn s) (yld s) (ssil s) 0 (sstp s)
                            (upd (sthr s) t (mkST SLastB (tstep th) (sgen th) (sleft th)))
                            (sarrived s) (sacts s)))
      else None
  | SLastB, OAct g =>
      if g =? sgen th
      then Some (mkSS (sn s) (yld s) (ssil s) (waiting s) (sstp s)
                      (upd (sthr s) t (mkST SLastC (tstep th) (sgen th) (sleft th)))
                      (sarrived s) ((t, sgen th) :: sacts s))
      else None
  | SLastC, ORmw a old new =>
      if (a =? 0) && (old =? sstp s) && (new =? old + 1)
      then Some (mkSS (sn s) (yld s) (ssil s) (waiting s) new
                      (upd (sthr s) t (mkST SLeaving (tstep th) (sgen th + 1) (sleft th - 1)))
                      [] (sacts s))
      else None
  | SSpin, OLoad a v =>
      if (a =? 0) && (v =? sstp s)
      then (if v =? tstep th
            then Some (sset_thr s t (mkST (if yld s t (sgen th) then SYield else SSpin) (tstep th) (sgen th) (sleft th)))
            else Some (sset_thr s t (mkST SLeaving (tstep th) (sgen th + 1) (sleft th - 1))))
      else None
  | SYield, OYield => Some (sset_thr s t (mkST SSpin (tstep th) (sgen th) (sleft th)))
  | SLeaving, OOut g =>
      if g + 1 =? sgen th
      then Some (sset_thr s t (mkST SIdle (tstep th) (sgen th) (sleft th)))
      else None
  | _, _ => None
  end.

Definition spinrun := run sstep.

Definition sreachable (n : nat) (y : nat -> nat -> bool) (sil : nat -> bool) (gens : list nat) (s : sstate) : Prop :=
  exists tr, spinrun (sinit n y sil gens) tr = Some s.

(** thread u has arrived in its current generation and has not yet left wait() *)
Definition sinside (s : sstate) (u : nat) : Prop :=
  match spc (sthr s u) with SSpin | SYield | SLastA | SLastB | SLastC => True | _ => False end.

(** an event of a thread that is waiting for a generation change that has not happened (the busy loop) *)
Definition is_spin (s : sstate) (e : event) : Prop :=
  match spc (sthr s (fst e)) with
  | SSpin | SYield => tstep (sthr s (fst e)) = sstp s
  | _ => False
  end.

Definition sdoneb (s : sstate) (t : nat) : bool :=
  match spc (sthr s t) with SDone => true | _ => false end.
Definition sspinb (s : sstate) (t : nat) : bool :=
  match spc (sthr s t) with SSpin | SYield => true | _ => false end.
Definition sgenof (s : sstate) (t : nat) : nat := sgen (sthr s t).
