(** C01 — bulk_load_shipped (btree.hpp bulk_load_shipped): the item / child distribution is a balanced partition, the
    result contains exactly the input sequence, and for a key-sorted input the result satisfies the
    full tree invariant [Inv] (uniform depth, arity, fill bounds incl. minimum fill, separators, order). *)
From Coq Require Import List Bool Arith Lia.
From TLXV Require Import Common.Order C01.Model C01.Defs.
Import ListNotations.

(** * arithmetic of ceil(n / (e+1)) = (n + e) / (e+1) *)
Lemma ceil_spec n e :
  n <= ((n + e) / S e) * S e /\ ((n + e) / S e) * S e <= n + e.
Proof.
  pose proof (Nat.div_mod (n + e) (S e) ltac:(lia)) as Hdm.
  pose proof (Nat.mod_upper_bound (n + e) (S e) ltac:(lia)) as Hub.
  set (q := (n + e) / S e) in *. set (r := (n + e) mod S e) in *.
  lia.
Qed.

(** the number of groups is positive for a non-empty input ... *)
Lemma ceil_pos n e : 1 <= n -> 1 <= (n + e) / S e.
Proof.
  intros Hn. destruct (ceil_spec n e) as [Ha _].
  destruct ((n + e) / S e) as [|q]; [cbn in Ha; lia|lia].
Qed.

(** ... at most the number of items ... *)
Lemma ceil_le n e : (n + e) / S e <= n.
Proof.
  destruct (ceil_spec n e) as [_ Hb].
  destruct ((n + e) / S e) as [|q]; [lia|].
  assert (Hq : 0 <= q * e) by lia. lia.
Qed.

(** ... and strictly smaller as soon as a group can hold two items *)
Lemma ceil_lt n e : 1 <= e -> 2 <= n -> (n + e) / S e < n.
Proof.
  intros He Hn. apply Nat.div_lt_upper_bound; [lia|].
  destruct n as [|[|m]]; [lia|lia|].
  assert (Hm : 0 <= e * m) by lia. lia.
Qed.

(** two or more groups: there are more items than fit into one group *)
Lemma ceil_ge2 n e : 2 <= (n + e) / S e -> S e < n.
Proof.
  intros Hc. destruct (ceil_spec n e) as [_ Hb].
  destruct ((n + e) / S e) as [|[|q]]; [lia|lia|].
  assert (Hq : 0 <= q * e) by lia. lia.
Qed.

(** minimum fill: with two or more groups, every group can get (e+1)/2 items ... *)
Lemma ceil_half_leaf n e :
  2 <= (n + e) / S e -> ((n + e) / S e) * (S e / 2) <= n.
Proof.
  intros Hc. destruct (ceil_spec n e) as [_ Hb].
  pose proof (Nat.mul_div_le (S e) 2 ltac:(lia)) as Hh.
  set (h := S e / 2) in *.
  destruct ((n + e) / S e) as [|[|q]]; [lia|lia|].
  assert (Hq : q * h <= q * S e) by (apply Nat.mul_le_mono_l; lia).
  lia.
Qed.

(** ... and for inner nodes (group size e+1 = innermax+1 children) e/2 + 1 children *)
Lemma ceil_half_inner n e :
  2 <= (n + e) / S e -> ((n + e) / S e) * (e / 2 + 1) <= n.
Proof.
  intros Hc. destruct (ceil_spec n e) as [_ Hb].
  pose proof (Nat.mul_div_le e 2 ltac:(lia)) as Hh.
  set (h := e / 2) in *.
  destruct ((n + e) / S e) as [|[|q]]; [lia|lia|].
  assert (Hq : q * h <= q * e) by (apply Nat.mul_le_mono_l; lia).
  lia.
Qed.

(** * [distribute]: a balanced partition into [cnt] consecutive chunks *)
Section Distribute.
  Context {A : Type}.

  Lemma distribute_S c (l : list A) :
    distribute (S c) l = firstn (length l / S c) l :: distribute c (skipn (length l / S c) l).
  Proof. reflexivity. Qed.

  Lemma distribute_length cnt : forall l : list A, length (distribute cnt l) = cnt.
  Proof.
    induction cnt as [|c IH]; intros l; [reflexivity|].
    rewrite distribute_S. cbn [length]. now rewrite IH.
  Qed.

  Lemma distribute_concat_S c : forall l : list A, concat (distribute (S c) l) = l.
  Proof.
    induction c as [|c IH]; intros l; rewrite distribute_S; cbn [concat].
    - rewrite Nat.div_1_r, firstn_all. cbn [distribute concat]. apply app_nil_r.
    - rewrite IH. apply firstn_skipn.
  Qed.

  Theorem distribute_concat cnt (l : list A) : 0 < cnt -> concat (distribute cnt l) = l.
  Proof. intros Hc. destruct cnt as [|c]; [lia|apply distribute_concat_S]. Qed.

  (** every chunk is a piece of the input *)
  Lemma distribute_In cnt (l c : list A) x : In c (distribute cnt l) -> In x c -> In x l.
  Proof.
    intros Hc Hx. destruct cnt as [|k]; [destruct Hc|].
    rewrite <- (distribute_concat_S k l). apply in_concat. exists c. split; assumption.
  Qed.

  Lemma distribute_Forall (P : A -> Prop) cnt (l : list A) :
    Forall P l -> Forall (Forall P) (distribute cnt l).
  Proof.
    intros Hl. apply Forall_forall. intros c Hc. apply Forall_forall. intros x Hx.
    rewrite Forall_forall in Hl. apply Hl. eapply distribute_In; eassumption.
  Qed.

  (** the balance lemma (it needs no assumption on [cnt]; for [cnt = 0] there is no chunk) *)
  Theorem distribute_balance cnt : forall (l : list A) lo hi,
    cnt * lo <= length l -> length l <= cnt * hi ->
    Forall (fun c => lo <= length c /\ length c <= hi) (distribute cnt l).
  Proof.
    induction cnt as [|c IH]; intros l lo hi Hlo Hhi; [constructor|].
    rewrite distribute_S.
    pose proof (Nat.div_mod (length l) (S c) ltac:(lia)) as Hdm.
    pose proof (Nat.mod_upper_bound (length l) (S c) ltac:(lia)) as Hub.
    assert (Htlo : lo <= length l / S c) by (apply Nat.div_le_lower_bound; lia).
    assert (Hthi : length l / S c <= hi) by (apply Nat.div_le_upper_bound; lia).
    set (take := length l / S c) in *. set (r := length l mod S c) in *.
    assert (Htl : take <= length l) by lia.
    constructor.
    - rewrite firstn_length. lia.
    - apply IH; rewrite skipn_length.
      + assert (Hm : c * lo <= c * take) by (apply Nat.mul_le_mono_l; exact Htlo). lia.
      + destruct (Nat.eq_dec take hi) as [E|E].
        * lia.
        * assert (Hm : c * S take <= c * hi) by (apply Nat.mul_le_mono_l; lia). lia.
  Qed.

  (** ** the instances used by bulk_load_shipped *)
  (** leaves: ceil(n/leafmax) leaves; each holds between 1 and leafmax items *)
  Lemma leaf_chunks_bounds leafmax (l : list A) :
    1 <= leafmax ->
    Forall (fun c => 1 <= length c /\ length c <= leafmax)
           (distribute ((length l + leafmax - 1) / leafmax) l).
  Proof.
    intros Hl. destruct leafmax as [|e]; [lia|].
    replace (length l + S e - 1) with (length l + e) by lia.
    destruct (ceil_spec (length l) e) as [Ha Hb].
    apply distribute_balance; [|lia].
    pose proof (ceil_le (length l) e). lia.
  Qed.

  (** leaves, minimum fill: more than one leaf (n > leafmax) => each holds at least leafmax/2 items *)
  Theorem leaf_chunks_minfill leafmax (l : list A) :
    1 <= leafmax -> leafmax < length l ->
    Forall (fun c => leafmax / 2 <= length c /\ length c <= leafmax)
           (distribute ((length l + leafmax - 1) / leafmax) l).
  Proof.
    intros Hl Hn. destruct leafmax as [|e]; [lia|].
    replace (length l + S e - 1) with (length l + e) by lia.
    destruct (ceil_spec (length l) e) as [Ha Hb].
    apply distribute_balance; [|lia].
    apply ceil_half_leaf.
    destruct ((length l + e) / S e) as [|[|q]]; lia.
  Qed.

  (** parents over m > 1 children: ceil(m/(innermax+1)) parents, each has 2 .. innermax+1 children *)
  Theorem parent_chunks_bounds innermax (l : list A) :
    2 <= innermax -> 2 <= length l ->
    Forall (fun c => 2 <= length c /\ length c <= innermax + 1)
           (distribute ((length l + innermax) / (innermax + 1)) l).
  Proof.
    intros Hi Hm. rewrite !(Nat.add_1_r innermax).
    destruct (ceil_spec (length l) innermax) as [Ha Hb].
    apply distribute_balance; [|lia].
    destruct (le_lt_dec 2 ((length l + innermax) / S innermax)) as [Hc|Hc].
    - pose proof (ceil_half_inner _ _ Hc) as Hh.
      assert (H1 : 1 <= innermax / 2) by (apply Nat.div_le_lower_bound; lia).
      assert (Hq : (length l + innermax) / S innermax * 2
                   <= (length l + innermax) / S innermax * (innermax / 2 + 1))
        by (apply Nat.mul_le_mono_l; lia).
      lia.
    - lia.
  Qed.

  (** parents, minimum fill: two or more parents => each has at least innermax/2 + 1 children *)
  Theorem parent_chunks_minfill innermax (l : list A) :
    2 <= (length l + innermax) / (innermax + 1) ->
    Forall (fun c => innermax / 2 + 1 <= length c /\ length c <= innermax + 1)
           (distribute ((length l + innermax) / (innermax + 1)) l).
  Proof.
    rewrite !(Nat.add_1_r innermax). intros Hc.
    destruct (ceil_spec (length l) innermax) as [Ha Hb].
    apply distribute_balance; [|lia].
    apply ceil_half_inner. exact Hc.
  Qed.
End Distribute.

Lemma flat_map_concat {A B} (f : A -> list B) (ls : list (list A)) :
  flat_map f (concat ls) = flat_map (flat_map f) ls.
Proof.
  induction ls as [|a r IH]; [reflexivity|].
  cbn [concat flat_map]. now rewrite flat_map_app, IH.
Qed.

Lemma last_app_ne {A} (a b : list A) d : b <> [] -> last (a ++ b) d = last b d.
Proof.
  intros Hb. destruct (exists_last Hb) as (b' & x & ->).
  rewrite app_assoc, !last_last. reflexivity.
Qed.

Section Bulk.
  Context {K V : Type}.
  Variable ltb : K -> K -> bool.
  Variable key : V -> K.
  Variable dk : K.
  Variables leafmax innermax : nat.
  Variable dup : bool.
  Hypothesis Hswo : SWO ltb.
  Hypothesis Hl : 4 <= leafmax.
  Hypothesis Hi : 4 <= innermax.

  Notation node := (@node K V).
  Notation keq := (keq ltb).
  Notation leafmin := (leafmin leafmax).
  Notation innermin := (innermin innermax).
  Notation maxkey := (maxkey key dk).
  Notation lastkey := (lastkey key dk).
  Notation seps_ok := (seps_ok ltb key dk).
  Notation shape := (shape ltb key dk leafmax innermax).
  Notation mk_parent := (@mk_parent K V dk).
  Notation build_level := (@build_level K V dk innermax).
  Notation build_up := (@build_up K V dk innermax).
  Notation bulk_load_shipped := (bulk_load_shipped key dk leafmax innermax).
  Notation Inv := (Inv ltb key dk leafmax innermax dup).

  (** the elements below a level of (node, maxkey) pairs *)
  Definition level_elems (ns : list (node * K)) : list V := flat_map (fun x => elems (fst x)) ns.

  (** ** part 1: contents and termination (no assumption on the order of the input) *)
  Lemma mk_parent_elems grp : elems (fst (mk_parent grp)) = level_elems grp.
  Proof.
    unfold Model.mk_parent, level_elems. cbn [fst elems].
    induction grp as [|x r IH]; [reflexivity|]. cbn [map flat_map]. now rewrite IH.
  Qed.

  Lemma build_level_length ns : length (build_level ns) = (length ns + innermax) / (innermax + 1).
  Proof. unfold Model.build_level. now rewrite map_length, distribute_length. Qed.

  Lemma build_level_elems ns : 1 <= length ns -> level_elems (build_level ns) = level_elems ns.
  Proof.
    intros Hn. unfold Model.build_level.
    set (cnt := (length ns + innermax) / (innermax + 1)).
    assert (Hc : 0 < cnt).
    { unfold cnt. rewrite Nat.add_1_r. apply ceil_pos. exact Hn. }
    rewrite <- (distribute_concat cnt ns Hc) at 2.
    unfold level_elems at 2. rewrite flat_map_concat.
    unfold level_elems. generalize (distribute cnt ns) as chunks.
    induction chunks as [|c r IH]; [reflexivity|].
    cbn [map flat_map]. rewrite IH. f_equal. apply mk_parent_elems.
  Qed.

  (** fuel: the number of nodes per level strictly decreases while it is > 1 *)
  Lemma build_up_some : forall fuel ns,
    1 <= length ns -> length ns <= fuel ->
    exists n, build_up fuel ns = Some n /\ elems n = level_elems ns.
  Proof.
    induction fuel as [|f IH]; intros ns H1 Hf; [lia|].
    destruct ns as [|x [|y r]].
    - cbn [length] in H1. lia.
    - exists (fst x). split; [reflexivity|]. unfold level_elems. cbn [flat_map]. now rewrite app_nil_r.
    - cbn [Model.build_up].
      assert (H2 : 2 <= length (x :: y :: r)) by (cbn [length]; lia).
      pose proof (build_level_length (x :: y :: r)) as Hlen.
      rewrite Nat.add_1_r in Hlen.
      pose proof (ceil_lt (length (x :: y :: r)) innermax ltac:(lia) H2) as Hlt.
      pose proof (ceil_pos (length (x :: y :: r)) innermax ltac:(lia)) as Hpos.
      destruct (IH (build_level (x :: y :: r)) ltac:(lia) ltac:(lia)) as (n & Hn & He).
      exists n. split; [exact Hn|]. rewrite He. apply build_level_elems. lia.
  Qed.

  Lemma leaves_elems (chunks : list (list V)) :
    level_elems (map (fun vs => (Leaf vs, lastkey vs)) chunks) = concat chunks.
  Proof.
    unfold level_elems. induction chunks as [|c r IH]; [reflexivity|].
    cbn [map flat_map concat fst elems]. now rewrite IH.
  Qed.

  Lemma bulk_load_shipped_nil : bulk_load_shipped [] = None.
  Proof.
    unfold Model.bulk_load_shipped. cbn [length].
    rewrite Nat.div_small by lia. reflexivity.
  Qed.

  Lemma num_leaves_eq n : (n + leafmax - 1) / leafmax = (n + (leafmax - 1)) / S (leafmax - 1).
  Proof. replace (S (leafmax - 1)) with leafmax by lia. f_equal. lia. Qed.

  Lemma bulk_load_shipped_some l :
    l <> [] -> exists n, bulk_load_shipped l = Some n /\ elems n = l.
  Proof.
    intros Hne. unfold Model.bulk_load_shipped.
    assert (Hn : 1 <= length l) by (destruct l; [congruence|cbn [length]; lia]).
    set (cnt := (length l + leafmax - 1) / leafmax).
    assert (Hc1 : 1 <= cnt) by (unfold cnt; rewrite num_leaves_eq; apply ceil_pos; exact Hn).
    assert (Hc2 : cnt <= length l) by (unfold cnt; rewrite num_leaves_eq; apply ceil_le).
    destruct (build_up_some (S (length l))
                (map (fun vs => (Leaf vs, lastkey vs)) (distribute cnt l))) as (n & Hb & He).
    - rewrite map_length, distribute_length. exact Hc1.
    - rewrite map_length, distribute_length. lia.
    - exists n. split; [exact Hb|].
      rewrite He, leaves_elems. apply distribute_concat. lia.
  Qed.

  Theorem bulk_load_shipped_elems l : t_elems (bulk_load_shipped l) = l.
  Proof.
    destruct l as [|v r].
    - now rewrite bulk_load_shipped_nil.
    - destruct (bulk_load_shipped_some (v :: r) ltac:(discriminate)) as (n & Hb & He).
      rewrite Hb. exact He.
  Qed.

  Lemma size_elems (n : node) : size n = length (elems n).
  Proof.
    induction n as [vs|ks cs IH] using node_ind'; [reflexivity|].
    cbn [size elems]. induction IH as [|c cs' Hc Hcs IHcs]; [reflexivity|].
    cbn [map flat_map].
    change (list_sum (size c :: map size cs')) with (size c + list_sum (map size cs')).
    rewrite app_length, Hc, IHcs. reflexivity.
  Qed.

  Corollary bulk_load_shipped_size l : t_size (bulk_load_shipped l) = length l.
  Proof.
    rewrite <- (bulk_load_shipped_elems l) at 2.
    destruct (bulk_load_shipped l) as [n|]; [apply size_elems|reflexivity].
  Qed.

  (** ** part 2: shape *)
  Lemma shape_height : forall (n : node) r h, shape r h n -> height n = h.
  Proof.
    induction n as [vs|ks cs IH] using node_ind'; intros r h Hs.
    - apply shape_leaf in Hs. destruct Hs as (-> & _). reflexivity.
    - apply shape_inner in Hs. destruct Hs as (h' & -> & Hlen & _ & _ & _ & _ & Hcs).
      cbn [height]. destruct cs as [|c cs']; [cbn [length] in Hlen; lia|].
      f_equal. inversion IH as [|? ? IHc _]; subst. inversion Hcs as [|? ? Hc _]; subst.
      eapply IHc. exact Hc.
  Qed.

  Lemma shape_nonempty : forall (n : node) r h, shape r h n -> elems n <> [].
  Proof.
    induction n as [vs|ks cs IH] using node_ind'; intros r h Hs.
    - apply shape_leaf in Hs. destruct Hs as (_ & _ & _ & H1). cbn [elems].
      destruct vs; [cbn [length] in H1; lia|discriminate].
    - apply shape_inner in Hs. destruct Hs as (h' & _ & Hlen & _ & _ & _ & _ & Hcs).
      destruct cs as [|c cs']; [cbn [length] in Hlen; lia|].
      inversion IH as [|? ? IHc _]; subst. inversion Hcs as [|? ? Hc _]; subst.
      cbn [elems flat_map]. intros E. apply app_eq_nil in E. destruct E as [E _].
      exact (IHc _ _ Hc E).
  Qed.

  Lemma shape_weaken h (n : node) : shape false h n -> shape true h n.
  Proof.
    destruct n as [vs|ks cs]; intros Hs.
    - apply shape_leaf in Hs. apply shape_leaf. intuition.
    - apply shape_inner in Hs. apply shape_inner.
      destruct Hs as (h' & E & A & B & C & D & F & G). exists h'. intuition.
  Qed.

  Lemma keq_refl x : keq x x = true.
  Proof. unfold Model.keq. now rewrite (swo_irrefl _ Hswo). Qed.

  Lemma maxkey_leaf vs : maxkey (Leaf vs) = lastkey vs.
  Proof. reflexivity. Qed.

  (** the max key of a parent is the max key of its last child *)
  Lemma maxkey_inner ks cs (c : node) :
    elems c <> [] -> maxkey (Inner ks (cs ++ [c])) = maxkey c.
  Proof.
    intros Hc. unfold Model.maxkey. cbn [elems].
    rewrite flat_map_app, map_app. cbn [flat_map]. rewrite app_nil_r.
    apply last_app_ne. destruct (elems c); [congruence|discriminate].
  Qed.

  Lemma mk_parent_snoc g x :
    mk_parent (g ++ [x]) = (Inner (map snd g) (map fst g ++ [fst x]), snd x).
  Proof.
    unfold Model.mk_parent. rewrite !map_app. cbn [map].
    now rewrite removelast_last, last_last.
  Qed.

  (** (node, carried key) pair: the node has the shape of a height-h node, the key is its max key *)
  Definition node_ok (r : bool) (h : nat) (x : node * K) : Prop :=
    shape r h (fst x) /\ snd x = maxkey (fst x).

  (** a level: every node is fine with the root-relaxed bound; with two or more nodes on the level
      (none of them is the root) every node meets the minimum fill *)
  Definition level_ok (h : nat) (ns : list (node * K)) : Prop :=
    Forall (node_ok true h) ns /\ (2 <= length ns -> Forall (node_ok false h) ns).

  Lemma seps_ok_carried h (g : list (node * K)) tl :
    Forall (node_ok false h) g -> seps_ok (map snd g) (map fst g ++ tl) = true.
  Proof.
    induction g as [|x r IH]; intros Hg; [reflexivity|].
    inversion Hg as [|? ? Hx Hr]; subst. cbn [map app Model.seps_ok].
    destruct Hx as [_ ->]. rewrite keq_refl. cbn [andb]. apply IH. exact Hr.
  Qed.

  Lemma mk_parent_ok r h grp :
    Forall (node_ok false h) grp ->
    2 <= length grp -> length grp <= innermax + 1 ->
    (r = false -> innermin + 1 <= length grp) ->
    node_ok r (S h) (mk_parent grp).
  Proof.
    intros Hg H2 Hmax Hmin.
    assert (Hne : grp <> []) by (destruct grp; [cbn [length] in H2; lia|discriminate]).
    destruct (exists_last Hne) as (g & x & ->).
    rewrite app_length in H2, Hmax, Hmin. cbn [length] in H2, Hmax, Hmin.
    apply Forall_app in Hg. destruct Hg as [Hg Hx].
    inversion Hx as [|? ? [Hxs Hxk] _]; subst.
    rewrite mk_parent_snoc. split; cbn [fst snd].
    - apply shape_inner. exists h. split; [reflexivity|].
      rewrite app_length, !map_length. cbn [length].
      split; [lia|]. split; [lia|]. split; [destruct r; [lia|specialize (Hmin eq_refl); lia]|].
      split; [lia|]. split; [eapply seps_ok_carried; exact Hg|].
      apply Forall_app. split.
      + apply Forall_map. eapply Forall_impl; [|exact Hg]. intros a [Ha _]. exact Ha.
      + constructor; [exact Hxs|constructor].
    - rewrite maxkey_inner; [exact Hxk|]. eapply shape_nonempty. exact Hxs.
  Qed.

  Lemma build_level_ok h ns :
    level_ok h ns -> 2 <= length ns -> level_ok (S h) (build_level ns).
  Proof.
    intros [_ Hf] H2. specialize (Hf H2).
    pose proof (parent_chunks_bounds innermax ns ltac:(lia) H2) as Hb.
    pose proof (parent_chunks_minfill innermax ns) as Hm.
    pose proof (distribute_Forall (node_ok false h) ((length ns + innermax) / (innermax + 1)) ns Hf) as Hin.
    unfold Model.build_level.
    set (cnt := (length ns + innermax) / (innermax + 1)) in *.
    split.
    - apply Forall_map. rewrite Forall_forall in *. intros c Hc.
      destruct (Hb c Hc) as [Hb1 Hb2].
      apply mk_parent_ok; [exact (Hin c Hc)|exact Hb1|exact Hb2|discriminate].
    - rewrite map_length, distribute_length. intros Hc2. specialize (Hm Hc2).
      apply Forall_map. rewrite Forall_forall in *. intros c Hc.
      destruct (Hb c Hc) as [Hb1 Hb2]. destruct (Hm c Hc) as [Hm1 _].
      apply mk_parent_ok; [exact (Hin c Hc)|exact Hb1|exact Hb2|].
      intros _. exact Hm1.
  Qed.

  Lemma build_up_shape : forall fuel ns h n,
    level_ok h ns -> build_up fuel ns = Some n -> exists h', shape true h' n.
  Proof.
    induction fuel as [|f IH]; intros ns h n Hok Hb; [discriminate|].
    destruct ns as [|x [|y r]]; cbn [Model.build_up] in Hb.
    - discriminate.
    - injection Hb as <-. destruct Hok as [Hok _].
      inversion Hok as [|? ? [Hx _] _]; subst. exists h. exact Hx.
    - eapply IH; [|exact Hb]. apply build_level_ok; [exact Hok|cbn [length]; lia].
  Qed.

  Lemma leaf_ok r (vs : list V) :
    length vs <= leafmax -> 1 <= length vs -> (r = false -> leafmin <= length vs) ->
    node_ok r 0 (Leaf vs, lastkey vs).
  Proof.
    intros Hmax H1 Hmin. split; cbn [fst snd]; [|reflexivity].
    apply shape_leaf. repeat split; auto. destruct r; auto.
  Qed.

  Lemma leaves_ok (l : list V) :
    level_ok 0 (map (fun vs => (Leaf vs, lastkey vs))
                    (distribute ((length l + leafmax - 1) / leafmax) l)).
  Proof.
    pose proof (leaf_chunks_bounds leafmax l ltac:(lia)) as Hb.
    pose proof (leaf_chunks_minfill leafmax l ltac:(lia)) as Hm.
    set (cnt := (length l + leafmax - 1) / leafmax) in *.
    split.
    - apply Forall_map. eapply Forall_impl; [|exact Hb]. intros c [H1 H2].
      apply leaf_ok; [exact H2|exact H1|discriminate].
    - rewrite map_length, distribute_length. intros Hc2.
      assert (Hn : leafmax < length l).
      { unfold cnt in Hc2. rewrite num_leaves_eq in Hc2. apply ceil_ge2 in Hc2. lia. }
      specialize (Hm Hn).
      apply Forall_map. rewrite Forall_forall in *. intros c Hc.
      destruct (Hb c Hc) as [H1 H2]. destruct (Hm c Hc) as [H3 _].
      apply leaf_ok; [exact H2|exact H1|]. intros _. exact H3.
  Qed.

  (** the result of bulk_load_shipped has the shape of a B+ tree, whatever the input *)
  Theorem bulk_load_shipped_shape l n :
    bulk_load_shipped l = Some n -> shape true (height n) n.
  Proof.
    intros Hb. unfold Model.bulk_load_shipped in Hb.
    destruct (build_up_shape _ _ 0 n (leaves_ok l) Hb) as (h & Hs).
    rewrite (shape_height _ _ _ Hs). exact Hs.
  Qed.

  (** ** the invariant *)
  Theorem bulk_load_shipped_inv l :
    keys_sorted ltb key dup l -> Inv (bulk_load_shipped l).
  Proof.
    intros Hs. destruct l as [|v r].
    - rewrite bulk_load_shipped_nil. reflexivity.
    - destruct (bulk_load_shipped_some (v :: r) ltac:(discriminate)) as (n & Hb & He).
      rewrite Hb. apply Inv_Some. split.
      + apply bulk_load_shipped_shape with (l := v :: r). exact Hb.
      + rewrite He. exact Hs.
  Qed.
End Bulk.
