(** C01 — the six-case underflow table [decide] of erase_one_descend / erase_iter_descend:
    whatever the cousins passed down by the parent look like, a child at slot [s] of a parent with
    [u >= 1] keys only ever asks for a merge with / a shift from a real SIBLING (slot s-1 or s+1),
    and the fill test that selected the action was made on that sibling. *)
From Coq Require Import List Bool Arith Lia.
From TLXV Require Import Common.Order C01.Model C01.Defs.
Import ListNotations.

Section EraseDecide.
  Context {K V : Type}.
  Variables leafmax innermax : nat.

  Notation node := (@node K V).
  Notation decide := (@decide K V leafmax innermax).
  Notation is_few := (@is_few K V leafmax innermax).

  (** the flags computed by the parent for the child at slot [s] *)
  Definition lp_of (s : nat) : bool := negb (s =? 0).
  Definition rp_of (s u : nat) : bool := negb (s =? u).
  Definition lr_of (s u : nat) (lr0 : bool) : bool :=
    if s =? 0 then (if s =? u then lr0 else false) else negb (s =? u).

  Lemma decide_root (lp rp lr : bool) : decide None None lp rp lr = ARoot.
  Proof. reflexivity. Qed.

  Theorem decide_valid (s u : nat) (lr0 : bool) (myleft myright : option node) (L R : node) :
    s <= u -> 1 <= u ->
    (0 < s -> myleft = Some L) ->
    (s < u -> myright = Some R) ->
    match decide myleft myright (lp_of s) (rp_of s u) (lr_of s u lr0) with
    | AMergeL => 0 < s /\ is_few L = true
    | AShiftR => 0 < s /\ is_few L = false
    | AMergeR => s < u /\ is_few R = true
    | AShiftL => s < u /\ is_few R = false
    | ARoot | ANone => False
    end.
  Proof.
    intros Hsu Hu HL HR. unfold lp_of, rp_of, lr_of.
    destruct (Nat.eq_dec s 0) as [Hs0|Hs0].
    - (* leftmost child: the right neighbour is a sibling *)
      assert (Hlt : s < u) by lia. specialize (HR Hlt). subst myright.
      assert (E0 : (s =? 0) = true) by (apply Nat.eqb_eq; exact Hs0).
      assert (Eu : (s =? u) = false) by (apply Nat.eqb_neq; lia).
      rewrite E0, Eu. cbn [negb]. unfold Model.decide.
      destruct myleft as [l|]; cbn [opt_null opt_few opt_notfew opt_slotuse andb orb negb];
        [destruct (is_few l)|]; destruct (is_few R) eqn:ER;
        cbn [andb orb negb]; auto.
    - assert (Hpos : 0 < s) by lia. specialize (HL Hpos). subst myleft.
      assert (E0 : (s =? 0) = false) by (apply Nat.eqb_neq; exact Hs0).
      rewrite E0. cbn [negb].
      destruct (Nat.eq_dec s u) as [Hsu'|Hsu'].
      + (* rightmost child: the left neighbour is a sibling *)
        assert (Eu : (s =? u) = true) by (apply Nat.eqb_eq; exact Hsu').
        rewrite Eu. cbn [negb]. unfold Model.decide.
        destruct myright as [r|]; cbn [opt_null opt_few opt_notfew opt_slotuse andb orb negb];
          [destruct (is_few r)|]; destruct (is_few L) eqn:EL;
          cbn [andb orb negb]; auto.
      + (* middle child: both neighbours are siblings *)
        assert (Hlt : s < u) by lia. specialize (HR Hlt). subst myright.
        assert (Eu : (s =? u) = false) by (apply Nat.eqb_neq; exact Hsu').
        rewrite Eu. cbn [negb]. unfold Model.decide.
        cbn [opt_null opt_few opt_notfew opt_slotuse andb orb negb].
        destruct (is_few L) eqn:EL; destruct (is_few R) eqn:ER; cbn [andb orb negb]; auto.
        all: destruct (slotuse L <=? slotuse R); auto.
  Qed.

  (** the same statement with the siblings looked up in the child array of the parent *)
  Corollary decide_valid_sibs (cs : list node) (s u : nat) (lr0 : bool) (left right : option node) :
    length cs = S u -> s <= u -> 1 <= u ->
    let myleft := if s =? 0 then left else nth_error cs (s - 1) in
    let myright := if s =? u then right else nth_error cs (S s) in
    match decide myleft myright (lp_of s) (rp_of s u) (lr_of s u lr0) with
    | AMergeL => exists L, 0 < s /\ nth_error cs (s - 1) = Some L /\ is_few L = true
    | AShiftR => exists L, 0 < s /\ nth_error cs (s - 1) = Some L /\ is_few L = false
    | AMergeR => exists R, s < u /\ nth_error cs (S s) = Some R /\ is_few R = true
    | AShiftL => exists R, s < u /\ nth_error cs (S s) = Some R /\ is_few R = false
    | ARoot | ANone => False
    end.
  Proof.
    intros Hlen Hsu Hu myleft myright.
    set (L := nth (s - 1) cs dnode). set (R := nth (S s) cs dnode).
    assert (HL : 0 < s -> myleft = Some L).
    { intros Hpos. unfold myleft. replace (s =? 0) with false by (symmetry; apply Nat.eqb_neq; lia).
      apply nth_error_nth'. lia. }
    assert (HR : s < u -> myright = Some R).
    { intros Hlt. unfold myright. replace (s =? u) with false by (symmetry; apply Nat.eqb_neq; lia).
      apply nth_error_nth'. lia. }
    pose proof (decide_valid s u lr0 myleft myright L R Hsu Hu HL HR) as Hd.
    destruct (decide myleft myright (lp_of s) (rp_of s u) (lr_of s u lr0)); auto.
    - destruct Hd as [Hpos Hf]. exists L. repeat split; auto. apply nth_error_nth'. lia.
    - destruct Hd as [Hlt Hf]. exists R. repeat split; auto. apply nth_error_nth'. lia.
    - destruct Hd as [Hlt Hf]. exists R. repeat split; auto. apply nth_error_nth'. lia.
    - destruct Hd as [Hpos Hf]. exists L. repeat split; auto. apply nth_error_nth'. lia.
  Qed.
End EraseDecide.
