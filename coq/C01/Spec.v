(** C01 — the specification machine: the same operation histories interpreted over key-sorted lists
    (what std::set / multiset / map / multimap guarantee, with new equal keys placed in front of their run —
    the one choice the property leaves open). *)
From Coq Require Import List Bool Arith Lia.
From TLXV Require Import Common.Order C01.Model C01.Defs.
Import ListNotations.

Section Spec.
  Context {K V : Type}.
  Variable ltb : K -> K -> bool.
  Variable key : V -> K.
  Variable dk : K.
  Variable dup : bool.
  Variable veqb vltb : V -> V -> bool.

  Definition sget (st : list (list V)) (i : nat) : list V := nth i st [].
  Definition sput (st : list (list V)) (i : nat) (l : list V) : list (list V) := replace_at i l st.

  Definition s_eq (a b : list V) : bool := (length a =? length b) && list_eqb veqb a b.

  Definition spec_step (st : list (list V)) (o : @op K V) : list (list V) * @out V :=
    match o with
    | OInsert i v =>
      let '(l', r, ok) := spec_insert ltb key dk dup (sget st i) v in (sput st i l', RIns r ok)
    | OEraseOne i k =>
      let '(l', found) := spec_erase_one ltb key dk (sget st i) k in (sput st i l', RBool found)
    | OEraseKey i k =>
      let l := sget st i in
      let '(l', c) := spec_erase_all ltb key dk dup (S (length l)) l k in (sput st i l', RNat c)
    | OEraseIter i r =>
      if r <? length (sget st i) then (sput st i (spec_erase_iter (sget st i) r), RBool true)
      else (st, RInvalid)
    | OFind i k => (st, RNat (spec_find ltb key dk (sget st i) k))
    | OExists i k => (st, RBool (spec_has ltb key dk (sget st i) k))
    | OCount i k => (st, RNat (spec_count ltb key (sget st i) k))
    | OLower i k => (st, RPos (Some (spec_lower ltb key (sget st i) k)))
    | OUpper i k => (st, RPos (Some (spec_upper ltb key (sget st i) k)))
    | ORange i k => (st, RRange (Some (spec_lower ltb key (sget st i) k)) (Some (spec_upper ltb key (sget st i) k)))
    | OIter i => (st, RList (sget st i))
    | OClear i => (sput st i [], RUnit)
    | OAssign i j => if i =? j then (st, RUnit) else (sput st i (sget st j), RUnit)
    | OCopyCtor i j => if i =? j then (st, RInvalid) else (sput st i (sget st j), RUnit)
    | OSwap i j =>
      if i =? j then (st, RUnit) else (sput (sput st i (sget st j)) j (sget st i), RUnit)
    | OCompare i j =>
      let a := sget st i in let b := sget st j in
      (st, RCmp (s_eq a b) (lex_lt vltb a b) (lex_lt vltb b a))
    | OBulk i l =>
      match sget st i with
      | [] => (sput st i (bulk_items ltb key dup l), RUnit)   (* unique containers keep one entry per key *)
      | _ :: _ => (st, RInvalid)
      end
    end.

  Fixpoint spec_run (st : list (list V)) (ops : list (@op K V)) : list (list V) * list (@out V) :=
    match ops with
    | [] => (st, [])
    | o :: r => let '(st1, x) := spec_step st o in
                let '(st2, xs) := spec_run st1 r in (st2, x :: xs)
    end.

  (** every variable index mentioned by the operation exists *)
  Definition op_wf (n : nat) (o : @op K V) : Prop :=
    match o with
    | OInsert i _ | OEraseOne i _ | OEraseKey i _ | OEraseIter i _ | OFind i _ | OExists i _ | OCount i _
    | OLower i _ | OUpper i _ | ORange i _ | OIter i | OClear i => i < n
    | OAssign i j | OCopyCtor i j | OSwap i j | OCompare i j => i < n /\ j < n
    | OBulk i l => i < n /\ sortedk ltb (map key l) = true   (* bulk_load's documented precondition: a sorted
                                                                 range; equal keys are allowed in all containers *)
    end.
End Spec.
