(** C01/C02 — shared definitions for the proofs: induction principle for [node], the invariant [Inv]
    (Prop-level reading of Model.inv_b), the sorted-list specification, basic list lemmas. *)
From Coq Require Import List Bool Arith Lia.
From TLXV Require Import Common.Order C01.Model.
Import ListNotations.

(** ** generic list lemmas *)
Lemma apply_nth_spec {K V A} (f : @node K V -> A) (d : A) cs i :
  apply_nth f d cs i = match nth_error cs i with Some c => f c | None => d end.
Proof.
  revert i. induction cs as [|c r IH]; intros [|i]; simpl; auto.
Qed.

Lemma list_sum_app a b : list_sum (a ++ b) = list_sum a + list_sum b.
Proof. induction a; simpl; lia. Qed.

Lemma firstn_skipn_nth {A} (l : list A) i x :
  nth_error l i = Some x -> l = firstn i l ++ x :: skipn (S i) l.
Proof.
  revert i. induction l as [|a l IH]; intros [|i] H; simpl in *; try discriminate.
  - now inversion H.
  - f_equal. now apply IH.
Qed.

Lemma insert_at_length {A} i (x : A) l : length (insert_at i x l) = S (length l).
Proof.
  unfold insert_at. rewrite app_length. simpl.
  rewrite <- (firstn_skipn i l) at 3. rewrite app_length. lia.
Qed.

Lemma remove_at_length {A} i (l : list A) : i < length l -> length (remove_at i l) = length l - 1.
Proof.
  intros H. unfold remove_at. rewrite app_length, firstn_length, skipn_length. lia.
Qed.

Lemma replace_at_length {A} i (x : A) l : length (replace_at i x l) = length l.
Proof.
  unfold replace_at. destruct (i <? length l) eqn:E; [|reflexivity].
  apply Nat.ltb_lt in E. rewrite app_length, firstn_length. cbn [length]. rewrite skipn_length. lia.
Qed.

(** ** structural induction over the nested type *)
Section NodeInd.
  Context {K V : Type}.
  Variable P : @node K V -> Prop.
  Hypothesis Hleaf : forall vs, P (Leaf vs).
  Hypothesis Hinner : forall ks cs, Forall P cs -> P (Inner ks cs).

  Fixpoint node_ind' (n : node) : P n :=
    match n with
    | Leaf vs => Hleaf vs
    | Inner ks cs =>
      Hinner ks cs ((fix go (l : list node) : Forall P l :=
                       match l with
                       | [] => Forall_nil P
                       | c :: r => Forall_cons c (node_ind' c) (go r)
                       end) cs)
    end.
End NodeInd.

Section Defs.
  Context {K V : Type}.
  Variable ltb : K -> K -> bool.
  Variable key : V -> K.
  Variable dk : K.
  Variables leafmax innermax : nat.
  Variable dup : bool.

  Notation node := (@node K V).
  Notation tree := (@tree K V).
  Notation kle := (kle ltb).
  Notation keq := (keq ltb).
  Notation leafmin := (leafmin leafmax).
  Notation innermin := (innermin innermax).
  Notation maxkey := (maxkey key dk).
  Notation sortedk := (sortedk ltb).
  Notation sortedk_strict := (sortedk_strict ltb).
  Notation seps_ok := (seps_ok ltb key dk).
  Notation shape_b := (shape_b ltb key dk leafmax innermax).

  (** ** the invariant, node level: [shape r h n] = uniform depth h, arity, fill, separators *)
  Definition shape (isroot : bool) (h : nat) (n : node) : Prop := shape_b isroot h n = true.

  Lemma shape_leaf r h vs :
    shape r h (Leaf vs) <->
    h = 0 /\ length vs <= leafmax /\ (if r then 1 else leafmin) <= length vs /\ 1 <= length vs.
  Proof.
    unfold shape. cbn [Model.shape_b].
    destruct r; rewrite !andb_true_iff, Nat.eqb_eq, !Nat.leb_le; tauto.
  Qed.

  Lemma shape_inner r h ks cs :
    shape r h (Inner ks cs) <->
    exists h', h = S h' /\ length cs = S (length ks) /\ length ks <= innermax /\
               (if r then 1 else innermin) <= length ks /\ 1 <= length ks /\
               seps_ok ks cs = true /\ Forall (shape false h') cs.
  Proof.
    unfold shape. destruct h as [|h']; cbn [Model.shape_b].
    - split; [discriminate|]. intros (h' & E & _). discriminate.
    - rewrite !andb_true_iff, Nat.eqb_eq, !Nat.leb_le, forallb_forall.
      split.
      + intros (((((A & B) & C) & D) & E) & F). exists h'. repeat split; auto.
        * destruct r; now apply Nat.leb_le in C.
        * apply Forall_forall. exact F.
      + intros (h'' & E & A & B & C & D & F & G). inversion E; subst h''.
        repeat split; auto.
        * destruct r; now apply Nat.leb_le.
        * apply Forall_forall. exact G.
  Qed.

  (** node-level invariant: shape + globally sorted keys (strictly, for unique containers) *)
  Definition keys_sorted (l : list V) : Prop :=
    sortedk (map key l) = true /\ (dup = false -> sortedk_strict (map key l) = true).

  Definition InvN (isroot : bool) (h : nat) (n : node) : Prop :=
    shape isroot h n /\ keys_sorted (elems n).

  (** tree-level invariant = Model.inv_b: what BTree::verify() checks *)
  Definition Inv (t : tree) : Prop := inv_b ltb key dk leafmax innermax dup t = true.

  Lemma Inv_None : Inv None.
  Proof. reflexivity. Qed.

  Lemma Inv_Some n : Inv (Some n) <-> InvN true (height n) n.
  Proof.
    unfold Inv, InvN, keys_sorted, shape, inv_b, inv_node_b.
    rewrite !andb_true_iff, orb_true_iff. split.
    - intros ((A & B) & [C|C]); repeat split; auto. intros E. congruence.
    - intros (A & B & C). repeat split; auto. destruct dup; auto.
  Qed.

  (** ** the specification: operations on a key-sorted list (new equal keys go in front of their run) *)
  Definition spec_lower (l : list V) (k : K) : nat := find_lower_lin ltb (map key l) k.
  Definition spec_upper (l : list V) (k : K) : nat := find_upper_lin ltb (map key l) k.

  Definition spec_has (l : list V) (k : K) : bool :=
    let r := spec_lower l k in (r <? length l) && keq k (nth r (map key l) dk).
  Definition spec_find (l : list V) (k : K) : nat := if spec_has l k then spec_lower l k else length l.
  Definition spec_count (l : list V) (k : K) : nat := take_eq ltb key k (skipn (spec_lower l k) l).

  (** (new list, rank of the returned iterator, inserted?) *)
  Definition spec_insert (l : list V) (v : V) : list V * nat * bool :=
    let r := spec_lower l (key v) in
    if negb dup && spec_has l (key v) then (l, r, false) else (insert_at r v l, r, true).

  Definition spec_erase_one (l : list V) (k : K) : list V * bool :=
    if spec_has l k then (remove_at (spec_lower l k) l, true) else (l, false).

  Definition spec_erase_iter (l : list V) (r : nat) : list V := remove_at r l.

  (** erase(key): every entry with an equivalent key goes (one, for unique containers) *)
  Fixpoint spec_erase_all (fuel : nat) (l : list V) (k : K) : list V * nat :=
    match fuel with
    | 0 => (l, 0)
    | S f =>
      let '(l1, found) := spec_erase_one l k in
      if found then (if dup then let '(l2, c) := spec_erase_all f l1 k in (l2, S c) else (l1, 1))
      else (l1, 0)
    end.
End Defs.
