(** C01 — erase preserves the full invariant of the B+ tree (BTree::verify()), never reaches one of
    the model's "impossible" branches, and frees exactly the nodes that disappear.

    The structural part ([erase_desc_shape]) does not depend on which child is entered: whatever slot
    the descent takes, if the element was found below, the node comes back with the shape of a
    non-root node of the same height except that its fill may be one below the minimum, it asks its
    parent for exactly the rebalancing chosen by the six-case table, and the parent's
    [apply_action] restores shape, arity and separators.  Sortedness of the result then follows from
    the element-level refinement of EraseElems.v. *)
From Coq Require Import List Bool Arith Lia.
From TLXV Require Import Common.Order C01.Model C01.Defs C01.SearchProofs C01.EraseDecide C01.EraseLemmas
     C01.EraseElems.
Import ListNotations.

Section EraseInv.
  Context {K V : Type}.
  Variable ltb : K -> K -> bool.
  Variable key : V -> K.
  Variable dk : K.
  Variables leafmax innermax : nat.
  Variable dup binsearch : bool.
  Hypothesis Hswo : SWO ltb.
  Hypothesis Hl : 4 <= leafmax.
  Hypothesis Hi : 4 <= innermax.

  Notation node := (@node K V).
  Notation eres := (@eres K V).
  Notation kle := (kle ltb).
  Notation keq := (keq ltb).
  Notation leafmin := (leafmin leafmax).
  Notation innermin := (innermin innermax).
  Notation maxkey := (maxkey key dk).
  Notation lastkey := (lastkey key dk).
  Notation sortedk := (sortedk ltb).
  Notation sortedk_strict := (sortedk_strict ltb).
  Notation seps_ok := (seps_ok ltb key dk).
  Notation shape := (shape ltb key dk leafmax innermax).
  Notation keys_sorted := (keys_sorted ltb key dup).
  Notation InvN := (InvN ltb key dk leafmax innermax dup).
  Notation Inv := (Inv ltb key dk leafmax innermax dup).
  Notation erase_desc := (erase_desc ltb key dk leafmax innermax binsearch).
  Notation erase_top := (erase_top ltb key dk leafmax innermax binsearch).
  Notation erase_one := (erase_one ltb key dk leafmax innermax binsearch).
  Notation erase_iter := (erase_iter ltb key dk leafmax innermax binsearch).
  Notation erase_all := (erase_all ltb key dk leafmax innermax dup binsearch).
  Notation erase_key := (erase_key ltb key dk leafmax innermax dup binsearch).
  Notation spec_erase_one := (spec_erase_one ltb key dk).
  Notation spec_erase_all := (spec_erase_all ltb key dk dup).
  Notation apply_action := (apply_action key dk).
  Notation decide := (@decide K V leafmax innermax).
  Notation is_few := (@is_few K V leafmax innermax).
  Notation shift_left := (shift_left key dk).
  Notation shift_right := (shift_right key dk).
  Notation pick_child := (pick_child ltb dk binsearch).
  Notation leaf_slot := (leaf_slot ltb key dk binsearch).
  Notation inner_finish := (inner_finish key dk leafmax innermax).
  Notation child_call := (child_call ltb key dk leafmax innermax binsearch).
  Notation own_action := (@own_action K V leafmax innermax).
  Notation merged_keys := (merged_keys key dk).

  Let lmin2 : 2 <= leafmin := leafmin_ge2 leafmax Hl.
  Let imin2 : 2 <= innermin := innermin_ge2 innermax Hi.
  Let lmax2 : 2 * leafmin <= leafmax := leafmin_twice leafmax.
  Let imax2 : 2 * innermin <= innermax := innermin_twice innermax.

  (** ** shapes with an explicit lower fill bound *)
  Definition minfill (n : node) : nat :=
    match n with Leaf _ => leafmin | Inner _ _ => innermin end.

  Definition shape_min (ml mi h : nat) (n : node) : Prop :=
    match n with
    | Leaf vs => h = 0 /\ ml <= length vs /\ length vs <= leafmax
    | Inner ks cs =>
      exists h', h = S h' /\ length cs = S (length ks) /\ mi <= length ks /\ length ks <= innermax /\
                 seps_ok ks cs = true /\ Forall (shape false h') cs
    end.

  Lemma shape_shape_min (r : bool) h n :
    shape r h n -> shape_min (if r then 1 else leafmin) (if r then 1 else innermin) h n.
  Proof.
    destruct n as [vs|ks cs]; intros H.
    - apply shape_leaf in H as (E & A & B & C). cbn [shape_min]. auto.
    - apply shape_inner in H as (h' & E & A & B & C & D & F & G). exists h'. auto 10.
  Qed.

  Lemma shape_min_shape (r : bool) ml mi h n :
    shape_min ml mi h n -> (if r then 1 else minfill n) <= slotuse n -> 1 <= slotuse n -> shape r h n.
  Proof.
    destruct n as [vs|ks cs]; cbn [shape_min minfill slotuse].
    - intros (E & A & B) C D. apply shape_leaf. auto.
    - intros (h' & E & A & B & C & F & G) D D'. apply shape_inner. exists h'. auto 10.
  Qed.

  Lemma shape_min_uh ml mi h n : shape_min ml mi h n -> uh h n.
  Proof.
    destruct n as [vs|ks cs]; cbn [shape_min].
    - intros (-> & _). exact I.
    - intros (h' & -> & _ & _ & _ & _ & G). cbn [uh]. eapply Forall_impl; [|exact G].
      intros c Hc. exact (shape_uh ltb key dk leafmax innermax _ _ _ Hc).
  Qed.

  Lemma shape_ne r h n : shape r h n -> elems n <> [].
  Proof. apply (shape_elems_ne ltb key dk leafmax innermax Hl Hi). Qed.

  Lemma flat_ne (l : list node) : l <> [] -> Forall (fun c => elems c <> []) l -> flat_map elems l <> [].
  Proof.
    destruct l as [|c l]; [congruence|]. intros _ H. inversion H as [|? ? Hc _]; subst.
    cbn [flat_map]. intros E. apply app_eq_nil in E as [E _]. contradiction.
  Qed.

  Lemma Forall_shape_ne h (l : list node) : Forall (shape false h) l -> Forall (fun c => elems c <> []) l.
  Proof. intros H. eapply Forall_impl; [|exact H]. intros c. apply shape_ne. Qed.

  Lemma shape_min_ne ml mi h n : shape_min ml mi h n -> 1 <= ml -> elems n <> [].
  Proof.
    destruct n as [vs|ks cs]; cbn [shape_min elems].
    - intros (_ & A & _) B E. rewrite E in A. cbn in A. lia.
    - intros (h' & _ & A & _ & _ & _ & G) _. apply flat_ne; [|now apply Forall_shape_ne in G].
      intros E. rewrite E in A. discriminate.
  Qed.

  (** ** max keys *)
  Lemma maxkey_lastkey (n : node) : maxkey n = lastkey (elems n).
  Proof. reflexivity. Qed.

  Lemma lastkey_app (a b : list V) : b <> [] -> lastkey (a ++ b) = lastkey b.
  Proof.
    intros Hb. unfold Model.lastkey. rewrite map_app. apply last_app_ne.
    intros E. apply map_eq_nil in E. contradiction.
  Qed.

  Lemma maxkey_inner_last ks (A : list node) c : elems c <> [] -> maxkey (Inner ks (A ++ [c])) = maxkey c.
  Proof.
    intros Hc. rewrite !maxkey_lastkey. cbn [elems]. rewrite flat_map_app. cbn [flat_map].
    rewrite app_nil_r. now apply lastkey_app.
  Qed.

  (** ** separators under list surgery *)
  Lemma seps_ok_app (KA KR : list K) (A R : list node) :
    length KA = length A -> seps_ok (KA ++ KR) (A ++ R) = seps_ok KA A && seps_ok KR R.
  Proof.
    revert A. induction KA as [|k KA IH]; intros [|c A] HL; cbn [length] in HL; try discriminate.
    - reflexivity.
    - cbn [app Model.seps_ok]. rewrite IH by lia. now rewrite andb_assoc.
  Qed.

  Lemma seps_ok_all (KA : list K) (A R : list node) :
    length KA = length A -> seps_ok KA (A ++ R) = seps_ok KA A.
  Proof.
    intros HL. rewrite <- (app_nil_r KA) at 1. rewrite seps_ok_app by exact HL.
    cbn [Model.seps_ok]. apply andb_true_r.
  Qed.

  Lemma seps_ok_firstn ks : forall (cs : list node) i j,
    seps_ok ks cs = true -> i <= j -> seps_ok (firstn i ks) (firstn j cs) = true.
  Proof.
    induction ks as [|k ks IH]; intros cs i j Hs Hij.
    - now rewrite firstn_nil.
    - destruct cs as [|c cs]; cbn [Model.seps_ok] in Hs; [discriminate|].
      apply andb_true_iff in Hs as [Hk Hr].
      destruct i as [|i]; [reflexivity|]. destruct j as [|j]; [lia|].
      cbn [firstn Model.seps_ok]. rewrite Hk. apply IH; [exact Hr|lia].
  Qed.

  Lemma seps_ok_skipn ks : forall (cs : list node) i,
    seps_ok ks cs = true -> seps_ok (skipn i ks) (skipn i cs) = true.
  Proof.
    induction ks as [|k ks IH]; intros cs i Hs.
    - now rewrite skipn_nil.
    - destruct cs as [|c cs]; cbn [Model.seps_ok] in Hs; [discriminate|].
      apply andb_true_iff in Hs as [Hk Hr].
      destruct i as [|i]; cbn [skipn Model.seps_ok]; [now rewrite Hk|]. now apply IH.
  Qed.

  Lemma seps_ok_hd KR (Y Y' : node) B :
    maxkey Y' = maxkey Y -> seps_ok KR (Y' :: B) = seps_ok KR (Y :: B).
  Proof. intros E. destruct KR as [|k KR]; [reflexivity|]. cbn [Model.seps_ok]. now rewrite E. Qed.

  Lemma split_nth_d {A} (l : list A) p d :
    p < length l -> l = firstn p l ++ nth p l d :: skipn (S p) l /\ length (firstn p l) = p.
  Proof.
    intros H. apply split_nth. now apply nth_error_nth'.
  Qed.

  Lemma firstn_S_nth {A} (l : list A) i x :
    nth_error l i = Some x -> firstn (S i) l = firstn i l ++ [x].
  Proof.
    revert i. induction l as [|a l IH]; intros [|i] H; cbn [nth_error] in H; try discriminate.
    - inversion H; subst. reflexivity.
    - cbn [firstn app]. f_equal. now apply IH.
  Qed.

  Lemma exists_last' {A} (l : list A) n :
    length l = S n -> exists l' x, l = l' ++ [x] /\ length l' = n.
  Proof.
    intros H. destruct (exists_last (l := l)) as (l' & x & E).
    - intros E. rewrite E in H. discriminate.
    - exists l', x. split; [exact E|]. rewrite E, app_length in H. cbn [length] in H. lia.
  Qed.

  (** the parent's key array around an adjacent pair of children *)
  Lemma pair_dec ks (A : list node) X Y B :
    length (A ++ X :: Y :: B) = S (length ks) ->
    seps_ok ks (A ++ X :: Y :: B) = true ->
    exists KA kx KR,
      ks = KA ++ kx :: KR /\ length KA = length A /\ nth (length A) ks dk = kx /\
      seps_ok KA A = true /\ keq kx (maxkey X) = true /\ seps_ok KR (Y :: B) = true /\
      length KR = length B.
  Proof.
    intros HL Hs. rewrite app_length in HL. cbn [length] in HL.
    destruct (split_nth_d ks (length A) dk ltac:(lia)) as [E L].
    exists (firstn (length A) ks), (nth (length A) ks dk), (skipn (S (length A)) ks).
    rewrite E in Hs. rewrite seps_ok_app in Hs by exact L. cbn [Model.seps_ok] in Hs.
    apply andb_true_iff in Hs as [H1 H2]. apply andb_true_iff in H2 as [H2 H3].
    repeat split; auto. rewrite skipn_length. lia.
  Qed.

  Lemma list_sum_nodes_split n (l : list node) :
    list_sum (map nodes l) = list_sum (map nodes (firstn n l)) + list_sum (map nodes (skipn n l)).
  Proof. rewrite <- list_sum_nodes_app. now rewrite firstn_skipn. Qed.

  Lemma length_ne {A} (l : list A) : 1 <= length l -> l <> [].
  Proof. intros H E. rewrite E in H. cbn in H. lia. Qed.

  (** ** the three pair operations on two adjacent nodes of the same level *)

  (** merge: an underflowing node (min-1) and a "few" neighbour (exactly min) *)
  Lemma merge_ok h X Y sep :
    shape_min (leafmin - 1) (innermin - 1) h X ->
    shape_min (leafmin - 1) (innermin - 1) h Y ->
    slotuse X + slotuse Y + 1 = 2 * minfill X ->
    keq sep (maxkey X) = true ->
    let M := merge_nodes X Y sep in
    shape false h M /\ maxkey M = maxkey Y /\ nodes M + 1 = nodes X + nodes Y.
  Proof.
    destruct X as [a|ka ca]; destruct Y as [b|kb cb]; cbn [shape_min slotuse minfill].
    - intros (-> & A1 & A2) (_ & B1 & B2) Hs _. cbn [merge_nodes]. split; [|split].
      + apply shape_leaf. rewrite app_length. repeat split; lia.
      + rewrite !maxkey_lastkey. cbn [elems]. apply lastkey_app. apply length_ne. lia.
      + reflexivity.
    - intros (-> & _) (h' & E & _). discriminate.
    - intros (h' & -> & _) (E & _). discriminate.
    - intros (h1 & -> & LA & mA & MA & SA & FA) (h2 & E & LB & mB & MB & SB & FB) Hs Hsep.
      inversion E; subst h2. clear E. cbn [merge_nodes].
      destruct (exists_last' ca (length ka) LA) as (ca' & cl & -> & Lca'). apply eq_sym in Lca'.
      apply Forall_app in FA as [FA' FAl]. inversion FAl as [|? ? Hcl _]; subst.
      rewrite maxkey_inner_last in Hsep by (eapply shape_ne; exact Hcl).
      rewrite seps_ok_all in SA by exact Lca'.
      split; [|split].
      + apply shape_inner. exists h1.
        rewrite !app_length in *. cbn [length] in *. repeat split; try lia.
        * rewrite <- app_assoc. cbn [app]. rewrite seps_ok_app by exact Lca'. cbn [Model.seps_ok].
          now rewrite SA, Hsep, SB.
        * apply Forall_app. split; [apply Forall_app; auto|exact FB].
      + rewrite !maxkey_lastkey. cbn [elems]. rewrite flat_map_app. apply lastkey_app.
        apply flat_ne; [apply length_ne; lia|now apply Forall_shape_ne in FB].
      + rewrite !nodes_inner, list_sum_nodes_app. lia.
  Qed.

  (** shift_left: the left node underflows (min-1), the right one has at least min+1 *)
  Lemma shift_left_ok h X Y sep :
    shape_min (leafmin - 1) (innermin - 1) h X -> slotuse X + 1 = minfill X ->
    shape false h Y -> minfill Y + 1 <= slotuse Y ->
    keq sep (maxkey X) = true ->
    let '(X', Y', sep') := shift_left X Y sep in
    shape false h X' /\ shape false h Y' /\ keq sep' (maxkey X') = true /\ maxkey Y' = maxkey Y /\
    nodes X' + nodes Y' = nodes X + nodes Y.
  Proof.
    destruct X as [a|ka ca]; destruct Y as [b|kb cb]; cbn [shape_min slotuse minfill].
    - intros (-> & A1 & A2) HA HY HB _. apply shape_leaf in HY as (_ & B1 & B2 & B3).
      cbn [Model.shift_left].
      pose proof (div2_bounds (length b - length a)) as Hd.
      remember ((length b - length a) / 2) as sh eqn:Esh. clear Esh.
      assert (L1 : length (a ++ firstn sh b) = length a + sh).
      { rewrite app_length, firstn_length_le by lia. reflexivity. }
      assert (L2 : length (skipn sh b) = length b - sh) by apply skipn_length.
      split; [|split; [|split; [|split]]].
      + apply shape_leaf. rewrite L1. repeat split; lia.
      + apply shape_leaf. rewrite L2. repeat split; lia.
      + apply (keq_refl ltb Hswo).
      + rewrite !maxkey_lastkey. cbn [elems]. rewrite <- (firstn_skipn sh b) at 2.
        symmetry. apply lastkey_app. apply length_ne. lia.
      + reflexivity.
    - intros (-> & _) _ HY. apply shape_inner in HY as (h' & E & _). discriminate.
    - intros (h' & -> & _) _ HY. apply shape_leaf in HY as (E & _). discriminate.
    - intros (h1 & -> & LA & mA & MA & SA & FA) HA HY HB Hsep.
      apply shape_inner in HY as (h2 & E & LB & MB & mB & _ & SB & FB).
      inversion E; subst h2. clear E. cbn [Model.shift_left].
      pose proof (div2_bounds (length kb - length ka)) as Hd.
      remember ((length kb - length ka) / 2) as sh eqn:Esh. clear Esh.
      destruct sh as [|q]; [lia|]. replace (S q - 1) with q by lia.
      destruct (seps_ok_nth ltb key dk kb cb q SB ltac:(lia)) as (cq & Ecq & Hkq).
      pose proof (Forall_nth_error _ _ _ _ FB Ecq) as Hcq.
      destruct (exists_last' ca (length ka) LA) as (ca' & cl & -> & Lca'). apply eq_sym in Lca'.
      apply Forall_app in FA as [FA' FAl]. inversion FAl as [|? ? Hcl _]; subst.
      rewrite maxkey_inner_last in Hsep by (eapply shape_ne; exact Hcl).
      rewrite seps_ok_all in SA by exact Lca'.
      assert (Lf : length (firstn (S q) cb) = S q) by (apply firstn_length_le; lia).
      assert (Lfk : length (firstn q kb) = q) by (apply firstn_length_le; lia).
      split; [|split; [|split; [|split]]].
      + apply shape_inner. exists h1.
        rewrite !app_length in *. cbn [length] in *. rewrite Lf, Lfk. repeat split; try lia.
        * rewrite <- app_assoc. cbn [app]. rewrite seps_ok_app by exact Lca'. cbn [Model.seps_ok].
          rewrite SA, Hsep. cbn [andb]. apply seps_ok_firstn; [exact SB|lia].
        * apply Forall_app. split; [apply Forall_app; auto|now apply Forall_firstn].
      + apply shape_inner. exists h1. rewrite !skipn_length. repeat split; try lia.
        * now apply seps_ok_skipn.
        * now apply Forall_skipn.
      + rewrite (firstn_S_nth _ _ _ Ecq), app_assoc.
        rewrite maxkey_inner_last by (eapply shape_ne; exact Hcq). exact Hkq.
      + rewrite !maxkey_lastkey. cbn [elems]. rewrite <- (firstn_skipn (S q) cb) at 2.
        rewrite flat_map_app. symmetry. apply lastkey_app.
        apply flat_ne; [apply length_ne; rewrite skipn_length; lia|].
        apply Forall_shape_ne with (h := h1). now apply Forall_skipn.
      + rewrite !nodes_inner, !list_sum_nodes_app, (list_sum_nodes_split (S q) cb). lia.
  Qed.

  (** shift_right: the right node underflows (min-1), the left one has at least min+1 *)
  Lemma shift_right_ok h X Y sep :
    shape false h X -> minfill X + 1 <= slotuse X ->
    shape_min (leafmin - 1) (innermin - 1) h Y -> slotuse Y + 1 = minfill Y ->
    keq sep (maxkey X) = true ->
    let '(X', Y', sep') := shift_right X Y sep in
    shape false h X' /\ shape false h Y' /\ keq sep' (maxkey X') = true /\ maxkey Y' = maxkey Y /\
    nodes X' + nodes Y' = nodes X + nodes Y.
  Proof.
    destruct X as [a|ka ca]; destruct Y as [b|kb cb]; cbn [shape_min slotuse minfill].
    - intros HX HA (-> & B1 & B2) HB _. apply shape_leaf in HX as (_ & A1 & A2 & A3).
      cbn [Model.shift_right].
      pose proof (div2_bounds (length a - length b)) as Hd.
      remember ((length a - length b) / 2) as sh eqn:Esh. clear Esh.
      remember (length a - sh) as m eqn:Em.
      assert (L1 : length (firstn m a) = m) by (apply firstn_length_le; lia).
      assert (L2 : length (skipn m a ++ b) = sh + length b).
      { rewrite app_length, skipn_length. lia. }
      split; [|split; [|split; [|split]]].
      + apply shape_leaf. rewrite L1. repeat split; lia.
      + apply shape_leaf. rewrite L2. repeat split; lia.
      + apply (keq_refl ltb Hswo).
      + rewrite !maxkey_lastkey. cbn [elems]. apply lastkey_app. apply length_ne. lia.
      + reflexivity.
    - intros HX _ (h' & E & _). apply shape_leaf in HX as (E' & _). subst h. discriminate.
    - intros HX _ (E & _). apply shape_inner in HX as (h' & E' & _). subst h. discriminate.
    - intros HX HA (h2 & -> & LB & mB & MB & SB & FB) HB Hsep.
      apply shape_inner in HX as (h1 & E & LA & MA & mA & _ & SA & FA).
      inversion E; subst h1. clear E. cbn [Model.shift_right]. cbv zeta.
      pose proof (div2_bounds (length ka - length kb)) as Hd.
      remember ((length ka - length kb) / 2) as sh eqn:Esh. clear Esh.
      remember (length ka - sh) as m eqn:Em.
      replace (m + 1) with (S m) by lia.
      destruct (seps_ok_nth ltb key dk ka ca m SA ltac:(lia)) as (cm & Ecm & Hkm).
      pose proof (Forall_nth_error _ _ _ _ FA Ecm) as Hcm.
      destruct (exists_last' ca (length ka) LA) as (ca' & cl & Eca & Lca'). apply eq_sym in Lca'.
      assert (Hcl : shape false h2 cl).
      { rewrite Eca in FA. apply Forall_app in FA as [_ FAl]. now inversion FAl. }
      assert (Hsep' : keq sep (maxkey cl) = true).
      { rewrite Eca in Hsep. rewrite maxkey_inner_last in Hsep by (eapply shape_ne; exact Hcl). exact Hsep. }
      assert (SA' : seps_ok ka ca' = true).
      { rewrite Eca in SA. now rewrite seps_ok_all in SA by exact Lca'. }
      assert (Esk : skipn (S m) ca = skipn (S m) ca' ++ [cl]).
      { rewrite Eca, skipn_app. replace (S m - length ca') with 0 by lia. reflexivity. }
      assert (Lf : length (firstn (S m) ca) = S m) by (apply firstn_length_le; lia).
      assert (Lfk : length (firstn m ka) = m) by (apply firstn_length_le; lia).
      split; [|split; [|split; [|split]]].
      + apply shape_inner. exists h2. rewrite Lf, Lfk. repeat split; try lia.
        * apply seps_ok_firstn; [exact SA|lia].
        * now apply Forall_firstn.
      + apply shape_inner. exists h2.
        rewrite !app_length, !skipn_length. cbn [length]. repeat split; try lia.
        * rewrite Esk, <- app_assoc. cbn [app].
          rewrite seps_ok_app by (rewrite !skipn_length; lia). cbn [Model.seps_ok].
          rewrite (seps_ok_skipn _ _ (S m) SA'), Hsep', SB. reflexivity.
        * apply Forall_app. split; [now apply Forall_skipn|exact FB].
      + rewrite (firstn_S_nth _ _ _ Ecm).
        rewrite maxkey_inner_last by (eapply shape_ne; exact Hcm). exact Hkm.
      + rewrite !maxkey_lastkey. cbn [elems]. rewrite flat_map_app. apply lastkey_app.
        apply flat_ne; [apply length_ne; lia|now apply Forall_shape_ne in FB].
      + rewrite !nodes_inner, !list_sum_nodes_app, (list_sum_nodes_split (S m) ca). lia.
  Qed.

  (** ** the parent's side: [apply_action] restores shape, arity and separators *)
  Lemma shape_min_weaken ml mi ml' mi' h n :
    ml' <= ml -> mi' <= mi -> shape_min ml mi h n -> shape_min ml' mi' h n.
  Proof.
    intros H1 H2. destruct n as [vs|ks cs]; cbn [shape_min].
    - intros (E & A & B). repeat split; auto; lia.
    - intros (h' & E & A & B & C & D & F). exists h'. repeat split; auto; lia.
  Qed.

  Lemma shape_false_min h n : shape false h n -> shape_min (leafmin - 1) (innermin - 1) h n.
  Proof. intros H. apply shape_shape_min in H. eapply shape_min_weaken; [| |exact H]; lia. Qed.

  Lemma shape_false_fill h n : shape false h n -> minfill n <= slotuse n.
  Proof.
    destruct n as [vs|ks cs]; intros H; cbn [minfill slotuse].
    - now apply shape_leaf in H as (_ & _ & B & _).
    - now apply shape_inner in H as (h' & _ & _ & _ & B & _).
  Qed.

  Lemma shape_min_fill ml mi h n : shape_min ml mi h n ->
    match n with Leaf _ => ml | Inner _ _ => mi end <= slotuse n.
  Proof.
    destruct n as [vs|ks cs]; cbn [shape_min slotuse].
    - now intros (_ & A & _).
    - now intros (h' & _ & _ & A & _).
  Qed.

  Lemma minfill_h ml mi h n : shape_min ml mi h n -> minfill n = if h =? 0 then leafmin else innermin.
  Proof.
    destruct n as [vs|ks cs]; cbn [shape_min minfill].
    - now intros (-> & _).
    - now intros (h' & -> & _).
  Qed.

  Lemma is_few_fill (n : node) : is_few n = (slotuse n <=? minfill n).
  Proof. destruct n; reflexivity. Qed.

  Lemma merged_parent KA kx KR (A : list node) Y M B :
    length KA = length A -> seps_ok KA A = true -> seps_ok KR (Y :: B) = true ->
    maxkey M = maxkey Y ->
    seps_ok (merged_keys (length A) M (KA ++ kx :: KR)) (A ++ M :: B) = true.
  Proof.
    intros HL SA SR EM. unfold EraseLemmas.merged_keys. rewrite <- HL, remove_at_len_app.
    destruct M as [vs|mk mc].
    - destruct KR as [|kr KR'].
      + rewrite replace_at_ge by (rewrite app_length; cbn [length]; lia).
        rewrite seps_ok_app by exact HL. now rewrite SA.
      + rewrite replace_at_len_app, seps_ok_app by exact HL. cbn [Model.seps_ok] in *.
        apply andb_true_iff in SR as [_ SR]. rewrite SA, SR. cbn [andb].
        rewrite andb_true_r. apply (keq_refl ltb Hswo).
    - rewrite seps_ok_app by exact HL. rewrite SA. cbn [andb].
      now rewrite (seps_ok_hd KR Y (Inner mk mc) B EM).
  Qed.

  Definition post (h' u : nat) (cs1 : list node) (ks2 : list K) (cs2 : list node) (fr : nat) : Prop :=
    length cs2 = S (length ks2) /\
    ((length ks2 = u /\ fr = 0) \/ (S (length ks2) = u /\ fr = 1)) /\
    seps_ok ks2 cs2 = true /\ Forall (shape false h') cs2 /\
    list_sum (map nodes cs2) + fr = list_sum (map nodes cs1).

  Lemma post_merge h' ks1 (A : list node) X Y B :
    length (A ++ X :: Y :: B) = S (length ks1) -> seps_ok ks1 (A ++ X :: Y :: B) = true ->
    Forall (shape false h') A -> Forall (shape false h') B ->
    shape_min (leafmin - 1) (innermin - 1) h' X ->
    shape_min (leafmin - 1) (innermin - 1) h' Y ->
    slotuse X + slotuse Y + 1 = 2 * minfill X ->
    let M := merge_nodes X Y (nth (length A) ks1 dk) in
    post h' (length ks1) (A ++ X :: Y :: B) (merged_keys (length A) M ks1) (A ++ M :: B) 1.
  Proof.
    intros HL HS FA FB HX HY Hfill M.
    destruct (pair_dec ks1 A X Y B HL HS) as (KA & kx & KR & Eks & LKA & Ekx & SA & Skx & SR & LKR).
    destruct (merge_ok h' X Y kx HX HY Hfill Skx) as (HM & EM & NM).
    subst M. rewrite Ekx. set (M := merge_nodes X Y kx) in *.
    assert (Hp : length A < length ks1).
    { rewrite app_length in HL. cbn [length] in HL. lia. }
    unfold post. rewrite merged_keys_length by exact Hp.
    split; [|split; [|split; [|split]]].
    - rewrite app_length in *. cbn [length] in *. lia.
    - right. split; [lia|reflexivity].
    - rewrite Eks. now apply merged_parent with (Y := Y).
    - apply Forall_single. auto.
    - rewrite !list_sum_nodes_app. cbn [map]. rewrite !list_sum_cons. lia.
  Qed.

  Lemma post_shift h' ks1 (A : list node) X Y X' Y' sep' B :
    length (A ++ X :: Y :: B) = S (length ks1) -> seps_ok ks1 (A ++ X :: Y :: B) = true ->
    Forall (shape false h') A -> Forall (shape false h') B ->
    (keq (nth (length A) ks1 dk) (maxkey X) = true ->
     shape false h' X' /\ shape false h' Y' /\ keq sep' (maxkey X') = true /\ maxkey Y' = maxkey Y /\
     nodes X' + nodes Y' = nodes X + nodes Y) ->
    post h' (length ks1) (A ++ X :: Y :: B) (replace_at (length A) sep' ks1) (A ++ X' :: Y' :: B) 0.
  Proof.
    intros HL HS FA FB Hop.
    destruct (pair_dec ks1 A X Y B HL HS) as (KA & kx & KR & Eks & LKA & Ekx & SA & Skx & SR & LKR).
    rewrite Ekx in Hop. destruct (Hop Skx) as (HX' & HY' & Ksep & EM & NM).
    unfold post. rewrite replace_at_length.
    split; [|split; [|split; [|split]]].
    - rewrite app_length in *. cbn [length] in *. lia.
    - left. split; reflexivity.
    - rewrite Eks, <- LKA, replace_at_len_app, seps_ok_app by exact LKA. cbn [Model.seps_ok].
      rewrite SA, Ksep. cbn [andb]. now rewrite (seps_ok_hd KR Y Y' B EM).
    - apply Forall_pair. auto.
    - rewrite !list_sum_nodes_app. cbn [map]. rewrite !list_sum_cons. lia.
  Qed.

  (** the child at slot [s = length A0] came back with fill >= min-1 and asks for [own_action ...] *)
  Lemma apply_ok h' ks1 (A0 : list node) c' B0 myleft myright lr0 :
    length (A0 ++ c' :: B0) = S (length ks1) -> 1 <= length ks1 ->
    seps_ok ks1 (A0 ++ c' :: B0) = true ->
    shape_min (leafmin - 1) (innermin - 1) h' c' ->
    Forall (shape false h') A0 -> Forall (shape false h') B0 ->
    (forall A L, A0 = A ++ [L] -> myleft = Some L) ->
    (forall R B, B0 = R :: B -> myright = Some R) ->
    exists ks2 cs2 fr,
      apply_action ks1 (A0 ++ c' :: B0) (length A0)
                   (own_action false (minfill c') (slotuse c') myleft myright
                               (lp_of (length A0)) (rp_of (length A0) (length ks1))
                               (lr_of (length A0) (length ks1) lr0))
      = (ks2, cs2, fr, false) /\
      post h' (length ks1) (A0 ++ c' :: B0) ks2 cs2 fr.
  Proof.
    intros HL Hu HS Hc' FA FB Hleft Hright.
    set (s := length A0) in *. set (u := length ks1) in *.
    assert (Hlen : s + 1 + length B0 = S u).
    { rewrite app_length in HL. cbn [length] in HL. lia. }
    unfold EraseLemmas.own_action. cbn [andb negb]. rewrite andb_true_r.
    destruct (slotuse c' <? minfill c') eqn:Eu.
    - (* underflow: fill is exactly min-1 *)
      apply Nat.ltb_lt in Eu.
      assert (Hfill : slotuse c' + 1 = minfill c').
      { pose proof (shape_min_fill _ _ _ _ Hc') as Hf. destruct c'; cbn [minfill slotuse] in *; lia. }
      set (L0 := last A0 dnode). set (R0 := hd dnode B0).
      assert (HL0 : 0 < s -> myleft = Some L0).
      { intros Hs. destruct (exists_last' A0 (s - 1) ltac:(lia)) as (A & L & EA & _).
        unfold L0. rewrite EA, last_last. now apply (Hleft A). }
      assert (HR0 : s < u -> myright = Some R0).
      { intros Hs. destruct B0 as [|R B]; [cbn [length] in Hlen; lia|]. now apply (Hright R B). }
      pose proof (decide_valid leafmax innermax s u lr0 myleft myright L0 R0 ltac:(lia) Hu HL0 HR0) as Hd.
      destruct (decide myleft myright (lp_of s) (rp_of s u) (lr_of s u lr0)); try contradiction.
      + (* merge with the left sibling *)
        destruct Hd as [Hs Hfew].
        destruct (exists_last' A0 (s - 1) ltac:(lia)) as (A & L & EA & LA).
        assert (EL : L0 = L) by (unfold L0; now rewrite EA, last_last). rewrite EL in Hfew.
        assert (Es : s = S (length A)) by lia.
        rewrite EA in FA. apply Forall_app in FA as [FA FL]. pose proof (Forall_inv FL) as HLs.
        revert HL HS. rewrite Es, EA, <- app_assoc. cbn [app]. intros HL HS.
        rewrite apply_mergeL_dec. cbv zeta.
        eexists _, _, _. split; [reflexivity|].
        apply post_merge; auto.
        * now apply shape_false_min.
        * rewrite is_few_fill in Hfew. apply Nat.leb_le in Hfew.
          pose proof (shape_false_fill _ _ HLs) as HfL.
          rewrite (minfill_h _ _ _ _ (shape_false_min _ _ HLs)) in *.
          rewrite (minfill_h _ _ _ _ Hc') in *. lia.
      + (* merge with the right sibling *)
        destruct Hd as [Hs Hfew].
        destruct B0 as [|R B]; [cbn [length] in Hlen; lia|]. cbn [hd] in R0. subst R0.
        pose proof (Forall_inv FB) as HRs. pose proof (Forall_inv_tail FB) as FB'.
        unfold s. rewrite apply_mergeR_dec. cbv zeta.
        eexists _, _, _. split; [reflexivity|].
        apply post_merge; auto.
        * now apply shape_false_min.
        * rewrite is_few_fill in Hfew. apply Nat.leb_le in Hfew.
          pose proof (shape_false_fill _ _ HRs) as HfR.
          rewrite (minfill_h _ _ _ _ (shape_false_min _ _ HRs)) in *.
          rewrite (minfill_h _ _ _ _ Hc') in *. lia.
      + (* shift from the right sibling *)
        destruct Hd as [Hs Hfew].
        destruct B0 as [|R B]; [cbn [length] in Hlen; lia|]. cbn [hd] in R0. subst R0.
        pose proof (Forall_inv FB) as HRs. pose proof (Forall_inv_tail FB) as FB'.
        unfold s at 1. rewrite apply_shiftL_dec.
        pose proof (shift_left_ok h' c' R (nth (length A0) ks1 dk) Hc' Hfill HRs) as Hop.
        destruct (shift_left c' R (nth (length A0) ks1 dk)) as [[X' Y'] sep'].
        fold s u. replace (s <? u) with true by (symmetry; apply Nat.ltb_lt; lia). cbn [negb].
        eexists _, _, _. split; [reflexivity|].
        apply post_shift with (X := c') (Y := R); auto.
        apply Hop. rewrite is_few_fill in Hfew. apply Nat.leb_gt in Hfew. lia.
      + (* shift from the left sibling *)
        destruct Hd as [Hs Hfew].
        destruct (exists_last' A0 (s - 1) ltac:(lia)) as (A & L & EA & LA).
        assert (EL : L0 = L) by (unfold L0; now rewrite EA, last_last). rewrite EL in Hfew.
        assert (Es : s = S (length A)) by lia.
        rewrite EA in FA. apply Forall_app in FA as [FA FL]. pose proof (Forall_inv FL) as HLs.
        revert HL HS. rewrite Es, EA, <- app_assoc. cbn [app]. intros HL HS.
        rewrite apply_shiftR_dec.
        pose proof (shift_right_ok h' L c' (nth (length A) ks1 dk) HLs) as Hop.
        destruct (shift_right L c' (nth (length A) ks1 dk)) as [[X' Y'] sep'].
        eexists _, _, _. split; [reflexivity|].
        apply post_shift with (X := L) (Y := c'); auto.
        apply Hop; auto. rewrite is_few_fill in Hfew. apply Nat.leb_gt in Hfew. lia.
    - (* no underflow: nothing to do *)
      apply Nat.ltb_ge in Eu. exists ks1, (A0 ++ c' :: B0), 0. split; [reflexivity|].
      assert (Hsh : shape false h' c').
      { apply (shape_min_shape false _ _ _ _ Hc'); [exact Eu|].
        destruct c'; cbn [minfill slotuse] in *; lia. }
      unfold post. repeat split; auto.
      + apply Forall_single. auto.
  Qed.

  (** ** what a node hands back to its parent *)
  Definition res_ok (r : bool) (h : nat) (n : node) (left right : option node) (lp rp lr : bool)
             (res : eres) : Prop :=
    shape_min (pred (if r then 1 else leafmin)) (pred (if r then 1 else innermin)) h (e_node res) /\
    e_bad res = false /\
    nodes (e_node res) + e_frees res = nodes n /\
    e_act res = own_action r (minfill (e_node res)) (slotuse (e_node res)) left right lp rp lr /\
    (forall x, e_last res = Some x -> x = maxkey (e_node res)) /\
    (e_last res = None -> elems (e_node res) <> [] -> maxkey (e_node res) = maxkey n).

  Lemma seps_ok_same_max ks (A0 : list node) c c' B0 :
    maxkey c' = maxkey c -> seps_ok ks (A0 ++ c' :: B0) = seps_ok ks (A0 ++ c :: B0).
  Proof.
    intros E. revert ks. induction A0 as [|a A0 IH]; intros ks; cbn [app].
    - now apply seps_ok_hd.
    - destruct ks as [|k ks]; [reflexivity|]. cbn [Model.seps_ok]. now rewrite IH.
  Qed.

  (** btree_update_lastkey *)
  Lemma fix_sep_ok ks (A0 : list node) c c' B0 last :
    length (A0 ++ c :: B0) = S (length ks) ->
    seps_ok ks (A0 ++ c :: B0) = true ->
    (forall x, last = Some x -> x = maxkey c') ->
    (last = None -> maxkey c' = maxkey c) ->
    let '(ks1, fwd) := fix_sep ks (length A0) last in
    length ks1 = length ks /\ seps_ok ks1 (A0 ++ c' :: B0) = true /\
    (forall x, fwd = Some x -> x = maxkey c' /\ B0 = []) /\
    (fwd = None -> B0 = [] -> maxkey c' = maxkey c).
  Proof.
    intros HL HS Hsome Hnone. rewrite app_length in HL. cbn [length] in HL.
    unfold fix_sep. destruct last as [lk|].
    - specialize (Hsome lk eq_refl). destruct (length A0 <? length ks) eqn:Es.
      + apply Nat.ltb_lt in Es. rewrite replace_at_length.
        destruct (split_nth_d ks (length A0) dk Es) as [E L].
        split; [reflexivity|]. split; [|split].
        * rewrite E in HS. rewrite seps_ok_app in HS by exact L. cbn [Model.seps_ok] in HS.
          apply andb_true_iff in HS as [H1 H2]. apply andb_true_iff in H2 as [_ H3].
          rewrite E. rewrite <- L at 1. rewrite replace_at_len_app, seps_ok_app by exact L.
          cbn [Model.seps_ok]. rewrite H1, H3, Hsome, (keq_refl ltb Hswo). reflexivity.
        * intros x Hx. discriminate.
        * intros _ HB. rewrite HB in HL. cbn [length] in HL. lia.
      + apply Nat.ltb_ge in Es. assert (HB : B0 = []) by (apply length_zero_iff_nil; lia).
        subst B0. split; [reflexivity|]. split; [|split].
        * rewrite seps_ok_all in * by lia. exact HS.
        * intros x Hx. inversion Hx; subst. auto.
        * intros Hx. discriminate.
    - specialize (Hnone eq_refl). split; [reflexivity|]. split; [|split].
      + now rewrite (seps_ok_same_max ks A0 c c' B0 Hnone).
      + intros x Hx. discriminate.
      + auto.
  Qed.

  Lemma inner_finish_ok r h ks (A0 : list node) c B0 left right lp rp lr rc :
    let cs := A0 ++ c :: B0 in
    let s := length A0 in
    let u := length ks in
    shape r h (Inner ks cs) ->
    e_found rc = true ->
    res_ok false (pred h) c (child_left cs left s) (child_right cs right s u)
           (lp_of s) (rp_of s u) (lr_of s u lr) rc ->
    res_ok r h (Inner ks cs) left right lp rp lr (inner_finish ks cs r left right lp rp lr s rc).
  Proof.
    intros cs s u Hsh Hf (Hc' & Hbad & Hnodes & Hact & Hlast1 & Hlast2).
    apply shape_inner in Hsh as (h' & -> & Hlen & Hmax & Hmin & Hu & Hseps & Hch).
    cbn [pred] in *. set (c' := e_node rc) in *.
    apply (shape_min_weaken _ _ (leafmin - 1) (innermin - 1)) in Hc'; [|lia|lia].
    assert (Hne' : elems c' <> []) by (apply (shape_min_ne _ _ _ _ Hc'); lia).
    unfold cs in Hch. apply Forall_single in Hch as (FA & Hc & FB).
    (* separator fix *)
    pose proof (fix_sep_ok ks A0 c c' B0 (e_last rc) Hlen Hseps Hlast1 (fun E => Hlast2 E Hne')) as Hfix.
    fold s in Hfix. destruct (fix_sep ks s (e_last rc)) as [ks1 fwd] eqn:E1.
    destruct Hfix as (Lks1 & S1 & Hfwd1 & Hfwd2).
    assert (Hcs1 : replace_at s c' cs = A0 ++ c' :: B0) by apply replace_at_len_app.
    assert (Hlen1 : length (A0 ++ c' :: B0) = S (length ks1)).
    { rewrite Lks1. unfold cs in Hlen. rewrite app_length in *. cbn [length] in *. lia. }
    (* rebalancing *)
    assert (Hleft : forall A L, A0 = A ++ [L] -> child_left cs left s = Some L).
    { intros A L EA. unfold EraseLemmas.child_left, cs, s. rewrite EA, app_length. cbn [length].
      replace (length A + 1 =? 0) with false by (symmetry; apply Nat.eqb_neq; lia).
      replace (length A + 1 - 1) with (length A) by lia. rewrite <- app_assoc. cbn [app].
      apply nth_error_len_app. }
    assert (Hright : forall R B, B0 = R :: B -> child_right cs right s u = Some R).
    { intros R B EB. unfold EraseLemmas.child_right, cs, s, u. rewrite EB.
      pose proof Hlen as Hlen'. unfold cs in Hlen'. rewrite EB, app_length in Hlen'. cbn [length] in Hlen'.
      replace (length A0 =? length ks) with false by (symmetry; apply Nat.eqb_neq; lia).
      apply nth_error_S_len_app. }
    destruct (apply_ok h' ks1 A0 c' B0 _ _ lr Hlen1 ltac:(lia) S1 Hc' FA FB Hleft Hright)
      as (ks2 & cs2 & fr & E2 & Hpost).
    rewrite Lks1 in E2, Hpost. fold s u in E2. rewrite <- Hact, <- Hcs1 in E2.
    rewrite (inner_finish_found key dk leafmax innermax _ _ _ _ _ _ _ _ _ _ _ _ _ _ _ _ Hf E1 E2).
    destruct Hpost as (Har & Hk2 & S2 & F2 & N2).
    (* elements are untouched by the rebalancing *)
    assert (Huh1 : Forall (uh h') (replace_at s c' cs)).
    { rewrite Hcs1. apply Forall_single. split; [|split].
      - eapply Forall_impl; [|exact FA]. intros x Hx. exact (shape_uh ltb key dk leafmax innermax _ _ _ Hx).
      - exact (shape_min_uh _ _ _ _ Hc').
      - eapply Forall_impl; [|exact FB]. intros x Hx. exact (shape_uh ltb key dk leafmax innermax _ _ _ Hx). }
    pose proof (apply_action_elems key dk leafmax innermax Hl Hi h' ks1 _ s (e_act rc) Huh1) as Hel.
    rewrite E2 in Hel. destruct Hel as [Hel _]. rewrite Hcs1, flat_single in Hel.
    unfold res_ok. cbn [e_node e_bad e_frees e_act e_last].
    split; [|split; [|split; [|split; [|split]]]].
    - exists h'. repeat split; auto.
      + destruct r; lia.
      + lia.
    - now rewrite Hbad.
    - rewrite !nodes_inner. unfold cs.
      rewrite !list_sum_nodes_app in *. cbn [map] in *. rewrite !list_sum_cons in *. lia.
    - reflexivity.
    - intros x Hx. destruct (Hfwd1 x Hx) as [-> HB]. rewrite !maxkey_lastkey. cbn [elems].
      rewrite Hel, HB. cbn [flat_map]. rewrite app_nil_r. symmetry. now apply lastkey_app.
    - intros Hx _. rewrite !maxkey_lastkey. cbn [elems]. rewrite Hel. unfold cs. rewrite flat_single.
      destruct B0 as [|b B0'].
      + cbn [flat_map]. rewrite !app_nil_r.
        assert (Hnec : elems c <> []) by (eapply shape_ne; exact Hc).
        rewrite !lastkey_app by assumption. rewrite <- !maxkey_lastkey. now apply Hfwd2.
      + assert (HneB : flat_map elems (b :: B0') <> []).
        { apply flat_ne; [discriminate|]. now apply Forall_shape_ne in FB. }
        rewrite !app_assoc. now rewrite !lastkey_app by exact HneB.
  Qed.

  (** ** the node-level structural theorem *)
  Lemma leaf_slot_lt vs tg slot : leaf_slot vs tg = Some slot -> slot < length vs.
  Proof.
    destruct tg as [k|k i]; cbn [Model.leaf_slot].
    - destruct (find_lower ltb dk binsearch (map key vs) k <? length vs) eqn:E; cbn [andb]; [|discriminate].
      destruct (Model.keq ltb k (nth (find_lower ltb dk binsearch (map key vs) k) (map key vs) dk)); [|discriminate].
      intros H; inversion H; subst. now apply Nat.ltb_lt.
    - destruct (i <? length vs) eqn:E; [|discriminate]. intros H; inversion H; subst. now apply Nat.ltb_lt.
  Qed.

  Theorem erase_desc_shape n : forall r h tg left right lp rp lr,
    shape r h n ->
    e_found (erase_desc n tg r left right lp rp lr) = true ->
    res_ok r h n left right lp rp lr (erase_desc n tg r left right lp rp lr).
  Proof.
    induction n as [vs|ks cs IH] using node_ind'; intros r h tg left right lp rp lr Hsh Hf.
    - rewrite erase_desc_leaf in *. destruct (leaf_slot vs tg) as [slot|] eqn:Es; [|discriminate].
      apply leaf_slot_lt in Es. apply shape_leaf in Hsh as (-> & Hmax & Hmin & H1).
      pose proof (remove_at_length slot vs Es) as HL.
      cbv zeta. unfold res_ok. cbn [e_node e_bad e_frees e_act e_last].
      split; [|split; [|split; [|split; [|split]]]].
      + cbn [shape_min]. rewrite HL. destruct r; repeat split; lia.
      + destruct r; cbn [negb andb]; [reflexivity|]. apply Nat.eqb_neq. lia.
      + reflexivity.
      + reflexivity.
      + intros x. destruct (slot =? length (remove_at slot vs)); [|discriminate].
        destruct (1 <=? length (remove_at slot vs)); [|discriminate].
        intros H; inversion H; subst. reflexivity.
      + intros Hn Hne. cbn [elems] in *. rewrite !maxkey_lastkey. cbn [elems]. unfold Model.lastkey.
        rewrite map_remove_at. apply last_remove_at. rewrite map_length.
        destruct (slot =? length (remove_at slot vs)) eqn:E1.
        * apply Nat.eqb_eq in E1.
          destruct (1 <=? length (remove_at slot vs)) eqn:E2; [discriminate|].
          apply Nat.leb_gt in E2. exfalso. apply Hne. apply length_zero_iff_nil. lia.
        * apply Nat.eqb_neq in E1. lia.
    - rewrite erase_desc_inner in *. destruct (pick_child ks cs tg) as [[s tg']|]; [|discriminate].
      set (f := child_call ks cs left right lr s tg') in *.
      destruct (apply_nth_child f cs s) as [(c & Ec & E)|[En E]]; rewrite E in *; clear E;
        [|rewrite inner_finish_notfound in Hf by reflexivity; discriminate].
      destruct (e_found (f c)) eqn:Efc; [|rewrite inner_finish_notfound in Hf by exact Efc; discriminate].
      destruct (split_nth cs s c Ec) as [E L].
      remember (firstn s cs) as A0 eqn:EA0. remember (skipn (S s) cs) as B0 eqn:EB0.
      clear EA0 EB0. subst s. unfold f in *. clear f. subst cs.
      apply inner_finish_ok; [exact Hsh|exact Efc|].
      apply Forall_single in IH as (_ & IHc & _).
      pose proof Hsh as Hsh'. apply shape_inner in Hsh' as (h' & -> & _ & _ & _ & _ & _ & Hch).
      apply Forall_single in Hch as (_ & Hc & _). cbn [pred].
      unfold EraseLemmas.child_call in *. now apply IHc.
  Qed.

  (** ** the root *)
  Lemma own_action_root' m u lp rp lr :
    1 <= m -> own_action true m u None None lp rp lr = if u =? 0 then ARoot else ANone.
  Proof.
    intros Hm. unfold EraseLemmas.own_action. destruct u as [|u].
    - replace (0 <? m) with true by (symmetry; apply Nat.ltb_lt; lia). reflexivity.
    - cbn [Nat.leb Nat.eqb andb negb]. now rewrite andb_false_r.
  Qed.

  Lemma shape_false_true h n : shape false h n -> shape true h n.
  Proof.
    intros H. pose proof (shape_false_fill _ _ H) as Hf.
    apply (shape_min_shape true _ _ _ _ (shape_shape_min _ _ _ H)); destruct n; cbn [minfill slotuse] in *; lia.
  Qed.

  Lemma minfill_ge1 (n : node) : 1 <= minfill n.
  Proof. destruct n; cbn [minfill]; lia. Qed.

  Theorem erase_top_inv t tg :
    Inv t -> tg_ok key dk tg (t_elems t) ->
    let '(t', found, fr, bad) := erase_top t tg in
    Inv t' /\ bad = false /\ t_nodes t' + fr = t_nodes t.
  Proof.
    intros HI Hok. destruct t as [n|]; [|cbn; auto].
    pose proof HI as HI0. apply Inv_Some in HI. cbn [t_elems] in Hok.
    pose proof (erase_desc_elems ltb key dk leafmax innermax dup binsearch Hswo Hl Hi
                  n true (height n) tg None None true true true HI Hok) as He.
    destruct HI as [Hsh Hks].
    pose proof (erase_desc_shape n true (height n) tg None None true true true Hsh) as Hr.
    cbv zeta in He. unfold Model.erase_top.
    set (res := erase_desc n tg true None None true true true) in *.
    destruct (e_found res) eqn:Ef; cbn [negb]; [|auto].
    destruct (Hr eq_refl) as (Hn' & Hbad & Hnodes & Hact & _ & _).
    assert (Hks' : keys_sorted (elems (e_node res))).
    { destruct (tg_rank ltb key dk tg (elems n)) as [i|].
      - destruct He as [_ ->]. now apply (keys_sorted_remove_at ltb key dup Hswo).
      - destruct He as [E _]. congruence. }
    rewrite own_action_root' in Hact by apply minfill_ge1. rewrite Hact.
    cbn [pred] in Hn'.
    destruct (slotuse (e_node res) =? 0) eqn:E0.
    - (* the root became empty: free it *)
      apply Nat.eqb_eq in E0. destruct (e_node res) as [vs|ks2 cs2] eqn:En; cbn [slotuse] in E0.
      + rewrite E0, Hbad. cbn [t_nodes Nat.eqb negb orb]. split; [reflexivity|]. split; [reflexivity|].
        rewrite nodes_leaf in Hnodes. lia.
      + rewrite E0, Hbad. cbn [Nat.eqb negb orb].
        destruct Hn' as (h' & Eh & Har & _ & _ & _ & Fc). rewrite E0 in Har.
        destruct cs2 as [|c [|c2 cs2]]; cbn [length] in Har; try lia. cbn [hd].
        pose proof (Forall_inv Fc) as Hc.
        split; [|split; [reflexivity|]].
        * apply Inv_Some. rewrite (shape_height ltb key dk leafmax innermax _ _ _ Hc).
          split; [now apply shape_false_true|]. cbn [elems flat_map] in Hks'. now rewrite app_nil_r in Hks'.
        * cbn [t_nodes]. rewrite nodes_inner in Hnodes. cbn [map] in Hnodes.
          rewrite list_sum_cons in Hnodes. cbn [list_sum fold_right] in Hnodes. lia.
    - apply Nat.eqb_neq in E0. split; [|split; [exact Hbad|exact Hnodes]].
      assert (Hsh' : shape true (height n) (e_node res)).
      { apply (shape_min_shape true _ _ _ _ Hn'); lia. }
      apply Inv_Some. rewrite (shape_height ltb key dk leafmax innermax _ _ _ Hsh'). split; assumption.
  Qed.

  Theorem erase_one_inv t k :
    Inv t ->
    let '(t', found, fr, bad) := erase_one t k in
    Inv t' /\ bad = false /\ t_nodes t' + fr = t_nodes t.
  Proof. intros HI. exact (erase_top_inv t (TKey k) HI I). Qed.

  Theorem erase_iter_inv t r :
    Inv t -> r < t_size t ->
    let '(t', found, fr, bad) := erase_iter t r in
    Inv t' /\ bad = false /\ t_nodes t' + fr = t_nodes t.
  Proof.
    intros HI Hr. unfold Model.erase_iter. apply erase_top_inv; [exact HI|].
    split; [|reflexivity]. now rewrite <- t_size_elems.
  Qed.

  (** ** erase(key): the loop over erase_one *)
  Lemma erase_all_spec' k d : d = dup -> forall fuel t,
    Inv t -> t_size t < fuel ->
    let '(t', c, fr, bad) := Model.erase_all ltb key dk leafmax innermax d binsearch fuel t k in
    (t_elems t', c) = Defs.spec_erase_all ltb key dk d fuel (t_elems t) k /\
    Inv t' /\ bad = false /\ t_nodes t' + fr = t_nodes t.
  Proof.
    intros Ed. induction fuel as [|f IH]; intros t HI Hsz; [lia|].
    cbn [Model.erase_all Defs.spec_erase_all].
    pose proof (erase_one_elems ltb key dk leafmax innermax dup binsearch Hswo Hl Hi t k HI) as He.
    pose proof (erase_one_inv t k HI) as Hv.
    destruct (erase_one t k) as [[[t1 found] fr] bad].
    destruct Hv as (HI1 & -> & Hn1).
    rewrite <- He. destruct found; [|auto].
    destruct d; [|auto].
    assert (Hsz1 : t_size t1 < f).
    { rewrite !t_size_elems in *. unfold Defs.spec_erase_one in He.
      destruct (Defs.spec_has ltb key dk (t_elems t) k) eqn:Eh; [|discriminate].
      injection He as He'. rewrite He'.
      unfold Defs.spec_has in Eh. apply andb_true_iff in Eh as [Eh _]. apply Nat.ltb_lt in Eh.
      rewrite remove_at_length by exact Eh. lia. }
    specialize (IH t1 HI1 Hsz1).
    destruct (Model.erase_all ltb key dk leafmax innermax true binsearch f t1 k) as [[[t2 c] fr2] bad2].
    destruct IH as (E2 & HI2 & -> & Hn2). rewrite <- E2.
    split; [reflexivity|]. split; [exact HI2|]. split; [reflexivity|lia].
  Qed.

  Lemma erase_all_spec k fuel t :
    Inv t -> t_size t < fuel ->
    let '(t', c, fr, bad) := erase_all fuel t k in
    (t_elems t', c) = spec_erase_all fuel (t_elems t) k /\
    Inv t' /\ bad = false /\ t_nodes t' + fr = t_nodes t.
  Proof. apply erase_all_spec'. reflexivity. Qed.

  Theorem erase_key_spec t k :
    Inv t ->
    let '(t', c, fr, bad) := erase_key t k in
    (t_elems t', c) = spec_erase_all (S (t_size t)) (t_elems t) k /\
    Inv t' /\ bad = false /\ t_nodes t' + fr = t_nodes t.
  Proof. intros HI. unfold Model.erase_key. apply erase_all_spec; [exact HI|lia]. Qed.

  (** ** readable form of [erase_desc_shape] for a non-root node *)
  Corollary erase_desc_nonroot n h tg left right lp rp lr :
    shape false h n ->
    let res := erase_desc n tg false left right lp rp lr in
    e_found res = true ->
    shape_min (leafmin - 1) (innermin - 1) h (e_node res) /\
    e_bad res = false /\
    nodes (e_node res) + e_frees res = nodes n /\
    (is_underflow leafmax innermax (e_node res) = false ->
       e_act res = ANone /\ shape false h (e_node res)) /\
    (is_underflow leafmax innermax (e_node res) = true ->
       e_act res = decide left right lp rp lr /\ slotuse (e_node res) + 1 = minfill (e_node res)) /\
    (forall x, e_last res = Some x -> x = maxkey (e_node res)) /\
    (e_last res = None -> maxkey (e_node res) = maxkey n).
  Proof.
    intros Hsh res Hf. destruct (erase_desc_shape n false h tg left right lp rp lr Hsh Hf)
      as (Hn' & Hbad & Hnodes & Hact & Hl1 & Hl2). fold res in Hn', Hbad, Hnodes, Hact, Hl1, Hl2.
    apply (shape_min_weaken _ _ (leafmin - 1) (innermin - 1)) in Hn'; [|lia|lia].
    assert (Hu : is_underflow leafmax innermax (e_node res) = (slotuse (e_node res) <? minfill (e_node res))).
    { destruct (e_node res); reflexivity. }
    unfold EraseLemmas.own_action in Hact. cbn [andb negb] in Hact. rewrite andb_true_r in Hact.
    split; [exact Hn'|]. split; [exact Hbad|]. split; [exact Hnodes|].
    split; [|split; [|split; [exact Hl1|]]].
    - intros Hno. rewrite Hu in Hno. split; [now rewrite Hno in Hact|].
      apply Nat.ltb_ge in Hno. apply (shape_min_shape false _ _ _ _ Hn'); [exact Hno|].
      pose proof (minfill_ge1 (e_node res)). lia.
    - intros Hun. rewrite Hu in Hun. split; [now rewrite Hun in Hact|].
      apply Nat.ltb_lt in Hun. pose proof (shape_min_fill _ _ _ _ Hn') as Hfill.
      destruct (e_node res); cbn [minfill slotuse] in *; lia.
    - intros E. apply Hl2; [exact E|]. apply (shape_min_ne _ _ _ _ Hn'). lia.
  Qed.
End EraseInv.
