(** C01/C02 — in-node search: the binary searches of btree.hpp (find_lower / find_upper with
    binsearch) compute the same slot as the linear scans, on every sorted key array.

    Both scans are instances of [prefix_len p] (length of the longest prefix whose elements satisfy [p])
    and both loops are instances of [bin_gen p]; the loops are correct whenever [p] is downward closed
    along the array, which sortedness + the strict-weak-order laws give for [x < k] and [x <= k]. *)
From Coq Require Import List Bool Arith Lia.
From TLXV Require Import Common.Order C01.Model.
Import ListNotations.

(** ** longest prefix satisfying a predicate; generic bisection *)
Section PrefixLen.
  Context {A : Type}.
  Variable p : A -> bool.

  Fixpoint prefix_len (l : list A) : nat :=
    match l with
    | [] => 0
    | x :: r => if p x then S (prefix_len r) else 0
    end.

  Lemma prefix_len_le_length l : prefix_len l <= length l.
  Proof.
    induction l as [|x r IH]; cbn [prefix_len length]; [lia|].
    destruct (p x); lia.
  Qed.

  Lemma prefix_len_true l d i : i < prefix_len l -> p (nth i l d) = true.
  Proof.
    revert i. induction l as [|x r IH]; intros i Hi; cbn [prefix_len] in Hi; [lia|].
    destruct (p x) eqn:Px; [|lia].
    destruct i as [|i]; cbn [nth]; [exact Px|]. apply IH. lia.
  Qed.

  Lemma prefix_len_false l d : prefix_len l < length l -> p (nth (prefix_len l) l d) = false.
  Proof.
    induction l as [|x r IH]; cbn [prefix_len length]; intros Hlt; [lia|].
    destruct (p x) eqn:Px; cbn [nth]; [|exact Px]. apply IH. lia.
  Qed.

  Lemma prefix_len_app a b :
    prefix_len (a ++ b) = if forallb p a then length a + prefix_len b else prefix_len a.
  Proof.
    induction a as [|x r IH]; cbn [app prefix_len forallb length]; [reflexivity|].
    destruct (p x); cbn [andb]; [|reflexivity].
    rewrite IH. destruct (forallb p r); reflexivity.
  Qed.

  Lemma prefix_len_full l : prefix_len l = length l <-> forallb p l = true.
  Proof.
    induction l as [|x r IH]; cbn [prefix_len forallb length]; [tauto|].
    destruct (p x); cbn [andb].
    - rewrite <- IH. split; intros E; lia.
    - split; intros E; discriminate.
  Qed.

  Lemma prefix_len_lt l : forallb p l = false -> prefix_len l < length l.
  Proof.
    intros E. pose proof (prefix_len_le_length l) as Hle.
    destruct (Nat.eq_dec (prefix_len l) (length l)) as [Heq|Hne]; [|lia].
    apply prefix_len_full in Heq. congruence.
  Qed.

  Lemma prefix_len_unique l d n :
    n <= length l ->
    (forall i, i < n -> p (nth i l d) = true) ->
    (n < length l -> p (nth n l d) = false) ->
    prefix_len l = n.
  Proof.
    intros Hn Hlo Hhi.
    destruct (Nat.lt_trichotomy (prefix_len l) n) as [Hlt|[Heq|Hgt]]; [exfalso| exact Heq |exfalso].
    - assert (Hpl : prefix_len l < length l) by lia.
      pose proof (prefix_len_false l d Hpl) as Hf. rewrite (Hlo _ Hlt) in Hf. discriminate.
    - pose proof (prefix_len_le_length l) as Hle.
      assert (Hnl : n < length l) by lia.
      rewrite (prefix_len_true l d n Hgt) in Hhi. specialize (Hhi Hnl). discriminate.
  Qed.

  (** the [while (lo < hi)] loop: go right while [p] holds at mid *)
  Fixpoint bin_gen (d : A) (fuel lo hi : nat) (l : list A) : nat :=
    match fuel with
    | 0 => lo
    | S f =>
      if lo <? hi then
        if p (nth ((lo + hi) / 2) l d) then bin_gen d f (S ((lo + hi) / 2)) hi l
        else bin_gen d f lo ((lo + hi) / 2) l
      else lo
    end.

  Definition mono_on (d : A) (l : list A) : Prop :=
    forall i j, i <= j -> j < length l -> p (nth j l d) = true -> p (nth i l d) = true.

  Lemma bin_gen_correct d l :
    mono_on d l ->
    forall fuel lo hi,
      lo <= prefix_len l -> prefix_len l <= hi -> hi <= length l -> hi - lo <= fuel ->
      bin_gen d fuel lo hi l = prefix_len l.
  Proof.
    intros Hmono. induction fuel as [|f IH]; intros lo hi Hlo Hhi Hlen Hfuel; cbn [bin_gen]; [lia|].
    destruct (lo <? hi) eqn:E.
    - apply Nat.ltb_lt in E.
      assert (Hmid : lo <= (lo + hi) / 2 /\ (lo + hi) / 2 < hi).
      { split; [apply Nat.div_le_lower_bound | apply Nat.div_lt_upper_bound]; lia. }
      remember ((lo + hi) / 2) as mid eqn:Emid. clear Emid.
      destruct (p (nth mid l d)) eqn:Pm.
      + apply IH; try lia.
        destruct (Nat.le_gt_cases (S mid) (prefix_len l)) as [Hok|Hbad]; [exact Hok|exfalso].
        assert (Hpl : prefix_len l < length l) by lia.
        pose proof (prefix_len_false l d Hpl) as Hf.
        rewrite (Hmono (prefix_len l) mid) in Hf; [discriminate|lia|lia|exact Pm].
      + apply IH; try lia.
        destruct (Nat.le_gt_cases (prefix_len l) mid) as [Hok|Hbad]; [exact Hok|exfalso].
        rewrite (prefix_len_true l d mid Hbad) in Pm. discriminate.
    - apply Nat.ltb_ge in E. lia.
  Qed.
End PrefixLen.

(** ** sorted key arrays *)
Section Sorted.
  Context {K : Type}.
  Variable ltb : K -> K -> bool.
  Hypothesis Hswo : SWO ltb.

  Notation kle := (kle ltb).
  Notation keq := (keq ltb).
  Notation sortedk := (sortedk ltb).

  Lemma kle_leb a b : kle a b = leb ltb a b.
  Proof. reflexivity. Qed.

  Lemma kle_refl a : kle a a = true.
  Proof. rewrite kle_leb. now apply leb_refl. Qed.

  Lemma kle_trans a b c : kle a b = true -> kle b c = true -> kle a c = true.
  Proof. rewrite !kle_leb. now apply leb_trans. Qed.

  Lemma kle_ltb_trans a b c : kle a b = true -> ltb b c = true -> ltb a c = true.
  Proof. rewrite kle_leb. now apply leb_ltb_trans. Qed.

  Lemma ltb_kle_trans a b c : ltb a b = true -> kle b c = true -> ltb a c = true.
  Proof. rewrite kle_leb. now apply ltb_leb_trans. Qed.

  Lemma keq_kle a b : keq a b = true -> kle a b = true /\ kle b a = true.
  Proof.
    unfold Model.keq, Model.kle. rewrite andb_true_iff. tauto.
  Qed.

  Lemma sortedk_cons_inv x r :
    sortedk (x :: r) = true -> sortedk r = true /\ forall y, In y r -> kle x y = true.
  Proof.
    revert x. induction r as [|y r' IH]; intros x Hs.
    - split; [reflexivity|intros y []].
    - change (kle x y && sortedk (y :: r') = true) in Hs.
      apply andb_true_iff in Hs as [Hxy Hr]. split; [exact Hr|].
      intros z [<-|Hz]; [exact Hxy|].
      destruct (IH y Hr) as [_ Hy]. eapply kle_trans; [exact Hxy|]. now apply Hy.
  Qed.

  Lemma sortedk_cons_intro x r :
    sortedk r = true -> (forall y, In y r -> kle x y = true) -> sortedk (x :: r) = true.
  Proof.
    intros Hr Hx. destruct r as [|y r']; [reflexivity|].
    change (kle x y && sortedk (y :: r') = true).
    rewrite Hr, (Hx y (or_introl eq_refl)). reflexivity.
  Qed.

  Lemma sortedk_tail x r : sortedk (x :: r) = true -> sortedk r = true.
  Proof. intros Hs. now apply sortedk_cons_inv in Hs. Qed.

  Lemma sortedk_app_inv a b :
    sortedk (a ++ b) = true ->
    sortedk a = true /\ sortedk b = true /\ forall x y, In x a -> In y b -> kle x y = true.
  Proof.
    induction a as [|x a IH]; cbn [app]; intros Hs.
    - split; [reflexivity|]. split; [exact Hs|]. intros x y [].
    - apply sortedk_cons_inv in Hs as [Hr Hx].
      destruct (IH Hr) as (Sa & Sb & Hab). split; [|split; [exact Sb|]].
      + apply sortedk_cons_intro; [exact Sa|]. intros y Hy. apply Hx, in_or_app. now left.
      + intros x' y [<-|Hx'] Hy; [|now apply Hab]. apply Hx, in_or_app. now right.
  Qed.

  Lemma sortedk_app_l a b : sortedk (a ++ b) = true -> sortedk a = true.
  Proof. intros Hs. now apply sortedk_app_inv in Hs. Qed.

  Lemma sortedk_app_r a b : sortedk (a ++ b) = true -> sortedk b = true.
  Proof. intros Hs. now apply sortedk_app_inv in Hs. Qed.

  Lemma sortedk_nth_mono l d i j :
    sortedk l = true -> i <= j -> j < length l -> kle (nth i l d) (nth j l d) = true.
  Proof.
    revert i j. induction l as [|x r IH]; intros i j Hs Hij Hj; cbn [length] in Hj; [lia|].
    destruct (sortedk_cons_inv _ _ Hs) as [Hr Hx].
    destruct i as [|i], j as [|j]; cbn [nth].
    - apply kle_refl.
    - apply Hx, nth_In. lia.
    - lia.
    - apply IH; [exact Hr|lia|lia].
  Qed.

  (** every key of a sorted non-empty array is <= its last key, and the last key is in the array *)
  Lemma last_In {A} (l : list A) d : l <> [] -> In (last l d) l.
  Proof.
    intros Hne. rewrite (app_removelast_last d Hne) at 2. apply in_or_app. right. now left.
  Qed.

  Lemma sortedk_le_last l d x : sortedk l = true -> In x l -> kle x (last l d) = true.
  Proof.
    intros Hs Hx. assert (Hne : l <> []) by (intros ->; destruct Hx).
    rewrite (app_removelast_last d Hne) in Hs, Hx.
    apply sortedk_app_inv in Hs as (_ & _ & Hab).
    apply in_app_or in Hx as [Hx|[<-|[]]].
    - apply Hab; [exact Hx|now left].
    - apply kle_refl.
  Qed.

  (** the two search predicates are downward closed *)
  Lemma lt_down k a b : kle a b = true -> ltb b k = true -> ltb a k = true.
  Proof. intros Hab Hb. eapply kle_ltb_trans; eassumption. Qed.

  Lemma le_down k a b : kle a b = true -> kle b k = true -> kle a k = true.
  Proof. intros Hab Hb. eapply kle_trans; eassumption. Qed.

  Lemma mono_on_sorted (p : K -> bool) d l :
    (forall a b, kle a b = true -> p b = true -> p a = true) ->
    sortedk l = true -> mono_on p d l.
  Proof.
    intros Hdown Hs i j Hij Hj Hp. eapply Hdown; [|exact Hp]. now apply sortedk_nth_mono.
  Qed.
End Sorted.

(** ** find_lower / find_upper *)
Section Search.
  Context {K : Type}.
  Variable ltb : K -> K -> bool.
  Variable dk : K.
  Variable binsearch : bool.
  Hypothesis Hswo : SWO ltb.

  Notation kle := (kle ltb).
  Notation sortedk := (sortedk ltb).

  Lemma find_lower_lin_prefix ks k : find_lower_lin ltb ks k = prefix_len (fun x => ltb x k) ks.
  Proof.
    induction ks as [|x r IH]; cbn [find_lower_lin prefix_len]; [reflexivity|].
    rewrite IH. reflexivity.
  Qed.

  Lemma find_upper_lin_prefix ks k : find_upper_lin ltb ks k = prefix_len (fun x => kle x k) ks.
  Proof.
    induction ks as [|x r IH]; cbn [find_upper_lin prefix_len]; [reflexivity|].
    rewrite IH. reflexivity.
  Qed.

  Lemma bin_lower_gen ks k fuel lo hi :
    bin_lower ltb dk fuel lo hi ks k = bin_gen (fun x => ltb x k) dk fuel lo hi ks.
  Proof.
    revert lo hi. induction fuel as [|f IH]; intros lo hi; cbn [bin_lower bin_gen]; [reflexivity|].
    destruct (lo <? hi); [|reflexivity]. cbv zeta. unfold Model.kle.
    destruct (ltb (nth ((lo + hi) / 2) ks dk) k); cbn [negb]; apply IH.
  Qed.

  Lemma bin_upper_gen ks k fuel lo hi :
    bin_upper ltb dk fuel lo hi ks k = bin_gen (fun x => kle x k) dk fuel lo hi ks.
  Proof.
    revert lo hi. induction fuel as [|f IH]; intros lo hi; cbn [bin_upper bin_gen]; [reflexivity|].
    destruct (lo <? hi); [|reflexivity]. cbv zeta. unfold Model.kle.
    destruct (ltb k (nth ((lo + hi) / 2) ks dk)); cbn [negb]; apply IH.
  Qed.

  (** 1. *)
  Theorem find_lower_bin_eq_lin ks k :
    sortedk ks = true -> find_lower_bin ltb dk ks k = find_lower_lin ltb ks k.
  Proof.
    intros Hs. rewrite find_lower_lin_prefix. unfold find_lower_bin.
    destruct ks as [|x r] eqn:E; [reflexivity|]. rewrite <- E in *. clear E.
    rewrite bin_lower_gen. apply bin_gen_correct.
    - apply (mono_on_sorted ltb Hswo); [|exact Hs]. intros a b. apply (lt_down ltb Hswo).
    - lia.
    - apply prefix_len_le_length.
    - lia.
    - lia.
  Qed.

  (** 2. *)
  Theorem find_upper_bin_eq_lin ks k :
    sortedk ks = true -> find_upper_bin ltb dk ks k = find_upper_lin ltb ks k.
  Proof.
    intros Hs. rewrite find_upper_lin_prefix. unfold find_upper_bin.
    destruct ks as [|x r] eqn:E; [reflexivity|]. rewrite <- E in *. clear E.
    rewrite bin_upper_gen. apply bin_gen_correct.
    - apply (mono_on_sorted ltb Hswo); [|exact Hs]. intros a b. apply (le_down ltb Hswo).
    - lia.
    - apply prefix_len_le_length.
    - lia.
    - lia.
  Qed.

  (** 3. *)
  Corollary find_lower_eq_lin b ks k :
    sortedk ks = true -> find_lower ltb dk b ks k = find_lower_lin ltb ks k.
  Proof.
    intros Hs. unfold find_lower. destruct b; [now apply find_lower_bin_eq_lin|reflexivity].
  Qed.

  Corollary find_upper_eq_lin b ks k :
    sortedk ks = true -> find_upper ltb dk b ks k = find_upper_lin ltb ks k.
  Proof.
    intros Hs. unfold find_upper. destruct b; [now apply find_upper_bin_eq_lin|reflexivity].
  Qed.

  (** general facts about the linear scans *)
  Lemma find_lower_lin_le_length ks k : find_lower_lin ltb ks k <= length ks.
  Proof. rewrite find_lower_lin_prefix. apply prefix_len_le_length. Qed.

  Lemma find_upper_lin_le_length ks k : find_upper_lin ltb ks k <= length ks.
  Proof. rewrite find_upper_lin_prefix. apply prefix_len_le_length. Qed.

  Lemma find_lower_lin_full ks k :
    find_lower_lin ltb ks k = length ks <-> forallb (fun x => ltb x k) ks = true.
  Proof. rewrite find_lower_lin_prefix. apply prefix_len_full. Qed.

  Lemma find_upper_lin_full ks k :
    find_upper_lin ltb ks k = length ks <-> forallb (fun x => kle x k) ks = true.
  Proof. rewrite find_upper_lin_prefix. apply prefix_len_full. Qed.

  Lemma find_lower_lin_app a b k :
    find_lower_lin ltb (a ++ b) k =
    if forallb (fun x => ltb x k) a then length a + find_lower_lin ltb b k else find_lower_lin ltb a k.
  Proof. rewrite !find_lower_lin_prefix. apply prefix_len_app. Qed.

  Lemma find_upper_lin_app a b k :
    find_upper_lin ltb (a ++ b) k =
    if forallb (fun x => kle x k) a then length a + find_upper_lin ltb b k else find_upper_lin ltb a k.
  Proof. rewrite !find_upper_lin_prefix. apply prefix_len_app. Qed.

  (** pointwise reading: everything before the slot satisfies the test, the slot itself does not *)
  Lemma find_lower_lin_before ks k i :
    i < find_lower_lin ltb ks k -> ltb (nth i ks dk) k = true.
  Proof. rewrite find_lower_lin_prefix. apply (prefix_len_true (fun x => ltb x k)). Qed.

  Lemma find_lower_lin_at ks k :
    find_lower_lin ltb ks k < length ks -> ltb (nth (find_lower_lin ltb ks k) ks dk) k = false.
  Proof. rewrite find_lower_lin_prefix. apply (prefix_len_false (fun x => ltb x k)). Qed.

  Lemma find_upper_lin_before ks k i :
    i < find_upper_lin ltb ks k -> kle (nth i ks dk) k = true.
  Proof. rewrite find_upper_lin_prefix. apply (prefix_len_true (fun x => kle x k)). Qed.

  Lemma find_upper_lin_at ks k :
    find_upper_lin ltb ks k < length ks -> kle (nth (find_upper_lin ltb ks k) ks dk) k = false.
  Proof. rewrite find_upper_lin_prefix. apply (prefix_len_false (fun x => kle x k)). Qed.
End Search.
