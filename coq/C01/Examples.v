(** C01/C02 — the hypotheses of the main theorems are satisfiable by non-trivial states (closed computations). *)
From Coq Require Import List Bool Arith Lia.
From TLXV Require Import Common.Order C01.Model C01.Defs C01.Spec.
Import ListNotations.

Definition nkey (v : nat * nat) : nat := fst v.
Definition nveq (a b : nat * nat) : bool := (fst a =? fst b) && (snd a =? snd b).
Definition nvlt (a b : nat * nat) : bool := (fst a <? fst b) || ((fst a =? fst b) && (snd a <? snd b)).
Definition gtb (a b : nat) : bool := b <? a.

(** std::less and std::greater on nat are strict weak orders *)
Lemma SWO_less : SWO Nat.ltb.
Proof. exact SWO_nat. Qed.
Lemma SWO_greater : SWO gtb.
Proof. exact (SWO_flip Nat.ltb SWO_nat). Qed.

(** a three-level multimap tree (leaf 4, inner 4) built by 40 insertions with duplicates satisfies Inv *)
Definition ex_ops : list (@op nat (nat * nat)) :=
  map (fun i => OInsert 0 ((i * 7) mod 13, i)) (seq 0 40).

Definition ex_state : list (@tree nat (nat * nat)) :=
  fst (run Nat.ltb nkey 0 4 4 true false nveq nvlt [None; None; None] ex_ops).

Example ex_state_inv : Forall (fun t => inv_b Nat.ltb nkey 0 4 4 true t = true) ex_state.
Proof. vm_compute. repeat constructor. Qed.

Example ex_state_deep : match nth 0 ex_state None with Some n => height n | None => 0 end = 2.
Proof. vm_compute. reflexivity. Qed.

(** a history with erases (by key, one occurrence, by iterator), bulk load, copy, swap, comparison:
    the model's outputs equal the specification's, no impossible state, invariant at the end *)
Definition ex_hist : list (@op nat (nat * nat)) :=
  ex_ops ++ [OEraseOne 0 5; OEraseKey 0 7; OEraseIter 0 3; OEraseIter 0 20; OLower 0 6; OUpper 0 6; OCount 0 6;
             OFind 0 9; OExists 0 7; OBulk 1 (map (fun i => (i / 3, i)) (seq 0 50)); OAssign 2 1; OSwap 0 2;
             OCompare 0 1; OEraseKey 0 2; OEraseIter 0 0; OIter 2; OClear 1; OCopyCtor 1 0].

Example ex_hist_refines :
  let '(st, rs) := run Nat.ltb nkey 0 4 4 true true nveq nvlt [None; None; None] ex_hist in
  let '(sst, xs) := spec_run Nat.ltb nkey 0 true nveq nvlt [[]; []; []] ex_hist in
  map t_elems st = sst /\ map s_out rs = xs /\ forallb (fun s => negb (s_bad s)) rs = true
  /\ forallb (inv_b Nat.ltb nkey 0 4 4 true) st = true.
Proof. vm_compute. repeat split. Qed.

Example ex_hist_greater_unique :
  let ops := map (fun i => OInsert 0 ((i * 5) mod 23, i)) (seq 0 30) ++ [OEraseOne 0 3; OEraseIter 0 7; OLower 0 11] in
  let '(st, rs) := run gtb nkey 0 5 4 false false nveq nvlt [None] ops in
  let '(sst, xs) := spec_run gtb nkey 0 false nveq nvlt [[]] ops in
  map t_elems st = sst /\ map s_out rs = xs /\ forallb (inv_b gtb nkey 0 5 4 false) st = true.
Proof. vm_compute. repeat split. Qed.
